(* C09: every operation of the model preserves the well-formedness invariant of values, and exec
   preserves it on whole pools. *)
From AS Require Import Base Effects.
From AS.Model Require Import Sgr Tokenizer Table Ops Render Scrub Parse StrOps FormatSpec Exec.
From AS.Proofs Require Import TableProofs SliceProofs PadProofs ApplyProofs.
From AS.Proofs Require RemoveProofs ConcatProofs.

(* ====================================================================== *)
(* 0. The invariant                                                        *)
(* ====================================================================== *)
Definition nodup_active (t : fmts) : Prop := forall k, NoDup (ids (active_at t k)).

Definition coherent (f : nat -> str) (t : fmts) : Prop :=      (* an identity determines the text *)
  forall kp x, In kp t -> In x (padd (snd kp) ++ prem (snd kp)) -> stxt x = f (sid x).
Definition ids_below (n : nat) (t : fmts) : Prop :=
  forall kp x, In kp t -> In x (padd (snd kp) ++ prem (snd kp)) -> sid x < n.
Definition WFv (s : astr) : Prop :=
  ssorted (tbl s) /\ keys_le (tbl s) (length (base s)) /\ strict_ok (tbl s) = true
  /\ nodup_active (tbl s) /\ final_active (tbl s) = [].
Definition pool_inv (p : pool) : Prop :=
  Forall (fun o => WFv (o_val o)) (objs p)
  /\ Forall (fun o => ids_below (next_id p) (tbl (o_val o))) (objs p)
  /\ exists f, Forall (fun o => coherent f (tbl (o_val o))) (objs p).

(* the three copies of nodup_active are the same thing *)
Lemma nodup_active_apply t : nodup_active t <-> ApplyProofs.nodup_active t.
Proof. reflexivity. Qed.
Lemma nodup_active_remove t : nodup_active t <-> RemoveProofs.nodup_active t.
Proof. reflexivity. Qed.
Lemma WFv_rm_wf s : WFv s <-> RemoveProofs.rm_wf s.
Proof. unfold WFv, RemoveProofs.rm_wf. fold (nodup_active (tbl s)). tauto. Qed.

(* occurrence of a marker in a table *)
Definition occ (x : setting) (t : fmts) : Prop :=
  exists kp, In kp t /\ In x (padd (snd kp) ++ prem (snd kp)).
Definition sub_occ (t' t : fmts) : Prop := forall x, occ x t' -> occ x t.

Lemma coherent_occ f t : coherent f t <-> forall x, occ x t -> stxt x = f (sid x).
Proof. split; [intros H x (kp & H1 & H2); eauto|intros H kp x H1 H2; apply H; exists kp; auto]. Qed.
Lemma ids_below_occ n t : ids_below n t <-> forall x, occ x t -> sid x < n.
Proof. split; [intros H x (kp & H1 & H2); eauto|intros H kp x H1 H2; apply H; exists kp; auto]. Qed.

Lemma coherent_sub f t t' : sub_occ t' t -> coherent f t -> coherent f t'.
Proof. rewrite !coherent_occ. auto. Qed.
Lemma ids_below_sub n t t' : sub_occ t' t -> ids_below n t -> ids_below n t'.
Proof. rewrite !ids_below_occ. auto. Qed.
Lemma ids_below_mono n m t : n <= m -> ids_below n t -> ids_below m t.
Proof. intros H Hb kp x H1 H2. specialize (Hb kp x H1 H2). lia. Qed.
Lemma sub_occ_refl t : sub_occ t t.
Proof. intros x H; exact H. Qed.
Lemma sub_occ_trans a b c : sub_occ a b -> sub_occ b c -> sub_occ a c.
Proof. intros H1 H2 x H. auto. Qed.
Lemma occ_nil x : ~ occ x [].
Proof. intros (kp & [] & _). Qed.
Lemma occ_add x t kp : In kp t -> In x (padd (snd kp)) -> occ x t.
Proof. intros H1 H2. exists kp. split; auto. apply in_or_app; auto. Qed.
Lemma occ_rem x t kp : In kp t -> In x (prem (snd kp)) -> occ x t.
Proof. intros H1 H2. exists kp. split; auto. apply in_or_app; auto. Qed.
Lemma occ_app x t1 t2 : occ x (t1 ++ t2) <-> occ x t1 \/ occ x t2.
Proof.
  unfold occ. split.
  - intros (kp & H1 & H2). apply in_app_or in H1 as [H1|H1]; [left|right]; eauto.
  - intros [(kp & H1 & H2)|(kp & H1 & H2)]; exists kp; split; auto; apply in_or_app; auto.
Qed.
Lemma occ_all_ids x t : occ x t -> In (sid x) (all_ids t).
Proof.
  intros (kp & H1 & H2). apply in_app_or in H2 as [H2|H2]; [eapply all_ids_add|eapply all_ids_rem]; eauto.
Qed.
Lemma all_ids_occ i t : In i (all_ids t) -> exists x, occ x t /\ sid x = i.
Proof.
  unfold all_ids. intros H. apply in_flat_map in H as (kp & H1 & H2).
  apply in_app_or in H2 as [H2|H2]; unfold ids in H2; apply in_map_iff in H2 as (x & E & Hx); exists x; split; auto.
  - eapply occ_add; eauto.
  - eapply occ_rem; eauto.
Qed.

(* active settings occur as start markers *)
Lemma run_occ t M x : (forall kp, In kp M -> In kp t) -> In x (run [] M) -> occ x t.
Proof. intros Hsub H. apply run_In in H as [[]|(kp & Hin & Hx)]. eapply occ_add; eauto. Qed.
Lemma active_occ t k x : ssorted t -> In x (active_at t k) -> occ x t.
Proof.
  intros Hs H. rewrite (active_at_run t k Hs) in H. apply (run_occ t (upto k t) x); [|exact H].
  intros kp Hin. unfold upto in Hin. now apply filter_In in Hin as [Hin _].
Qed.

Lemma WFv_empty b : WFv (mkA b []).
Proof.
  unfold WFv. cbn [tbl base]. split; [constructor|]. split; [intros kp []|]. split; [reflexivity|].
  split; [intros k; constructor|reflexivity].
Qed.

(* ====================================================================== *)
(* 1. Replay facts that do not depend on keys                              *)
(* ====================================================================== *)
Lemma sok_snd t1 : forall t2 a, map snd t1 = map snd t2 -> strict_ok_from t1 a = strict_ok_from t2 a.
Proof.
  induction t1 as [|[k p] t1 IH]; intros [|[k2 p2] t2] a E; try discriminate; auto.
  cbn [map snd] in E. inversion E; subst. rewrite !sok_cons. f_equal. now apply IH.
Qed.
Lemma run_snd t1 : forall t2 a, map snd t1 = map snd t2 -> run a t1 = run a t2.
Proof.
  induction t1 as [|[k p] t1 IH]; intros [|[k2 p2] t2] a E; try discriminate; auto.
  cbn [map snd] in E. inversion E; subst. rewrite !run_cons. cbn [snd]. now apply IH.
Qed.

Lemma upto_all_gt' i t : (forall kp, In kp t -> i < fst kp) -> upto i t = [].
Proof. intros H. unfold upto. apply filter_all_false. intros kp Hin. apply Nat.leb_gt. auto. Qed.

(* every state met while replaying [t] from [A] is duplicate free *)
Fixpoint nd_from (t : fmts) (A : list setting) : Prop :=
  match t with [] => True | (k, p) :: r => NoDup (ids (step A p)) /\ nd_from r (step A p) end.

Lemma nd_from_snd t1 : forall t2 a, map snd t1 = map snd t2 -> nd_from t1 a -> nd_from t2 a.
Proof.
  induction t1 as [|[k p] t1 IH]; intros [|[k2 p2] t2] a E; try discriminate; auto.
  cbn [map snd] in E. inversion E; subst. cbn [nd_from]. intros [Q1 Q2]. split; eauto.
Qed.
Lemma nd_from_app t1 : forall t2 a, nd_from (t1 ++ t2) a <-> nd_from t1 a /\ nd_from t2 (run a t1).
Proof.
  induction t1 as [|[k p] t1 IH]; intros t2 a; cbn [app nd_from].
  - cbn. tauto.
  - rewrite run_cons, IH. cbn [snd]. tauto.
Qed.
Lemma nd_from_upto t : forall A i, nd_from t A -> NoDup (ids A) -> NoDup (ids (active_upto t i A)).
Proof.
  induction t as [|[k p] t IH]; intros A i H N; cbn [active_upto]; auto.
  cbn [nd_from] in H. destruct H as [H1 H2]. destruct (k <=? i); auto.
Qed.
Lemma nd_from_nodup t : nd_from t [] -> nodup_active t.
Proof. intros H k. unfold active_at. apply nd_from_upto; auto. constructor. Qed.
Lemma nodup_nd_from t : ssorted t -> nodup_active t -> nd_from t [].
Proof.
  intros Hs Hn.
  assert (G : forall t, ssorted t -> forall A, (forall i, NoDup (ids (active_upto t i A))) -> nd_from t A).
  { clear. induction 1 as [|k p t Hk Hs IH]; intros A H; cbn [nd_from]; auto.
    assert (E : forall i, k <= i -> active_upto ((k, p) :: t) i A = active_upto t i (step A p)).
    { intros i Hi. cbn [active_upto]. now replace (k <=? i) with true by (symmetry; apply Nat.leb_le; lia). }
    split.
    - specialize (H k). rewrite E in H by lia. rewrite active_upto_run in H by exact Hs.
      rewrite (upto_all_gt' k t Hk) in H. exact H.
    - apply IH. intros i. destruct (Nat.le_gt_cases k i) as [Hi|Hi].
      + rewrite <- E by exact Hi. apply H.
      + rewrite active_upto_run by exact Hs. rewrite (upto_all_gt i k t Hk Hi).
        specialize (H k). rewrite E in H by lia. rewrite active_upto_run in H by exact Hs.
        rewrite (upto_all_gt' k t Hk) in H. exact H. }
  apply G; auto.
Qed.

(* keys may be changed at will as long as they stay sorted *)
Lemma rekey_strict t t' : map snd t = map snd t' -> strict_ok t = true -> strict_ok t' = true.
Proof. intros E H. unfold strict_ok in *. now rewrite <- (sok_snd t t' [] E). Qed.
Lemma rekey_final t t' : map snd t = map snd t' -> final_active t' = final_active t.
Proof. intros E. change (run [] t' = run [] t). symmetry. now apply run_snd. Qed.
Lemma rekey_nodup t t' : ssorted t -> map snd t = map snd t' -> nodup_active t -> nodup_active t'.
Proof. intros Hs E H. apply nd_from_nodup. eapply nd_from_snd; eauto. now apply nodup_nd_from. Qed.
Lemma rekey_occ t t' : map snd t = map snd t' -> sub_occ t' t.
Proof.
  intros E x (kp & H1 & H2). assert (H : In (snd kp) (map snd t)) by (rewrite E; now apply in_map).
  apply in_map_iff in H as (kp0 & E0 & H0). exists kp0. split; auto. now rewrite E0.
Qed.

(* a boolean check of WFv, for the examples *)
Fixpoint ssortedb (t : fmts) : bool :=
  match t with
  | [] => true
  | (k, _) :: r => forallb (fun kp => k <? fst kp) r && ssortedb r
  end.
Fixpoint nodupb (l : list nat) : bool :=
  match l with [] => true | x :: r => negb (existsb (Nat.eqb x) r) && nodupb r end.
Fixpoint nd_fromb (t : fmts) (A : list setting) : bool :=
  match t with [] => true | (k, p) :: r => nodupb (ids (step A p)) && nd_fromb r (step A p) end.
Definition wfb (s : astr) : bool :=
  ssortedb (tbl s) && forallb (fun kp => fst kp <=? length (base s)) (tbl s) && strict_ok (tbl s)
  && nd_fromb (tbl s) [] && is_nil (final_active (tbl s)).

Lemma ssortedb_sound t : ssortedb t = true -> ssorted t.
Proof.
  induction t as [|[k p] t IH]; intros H; [constructor|]. cbn [ssortedb] in H.
  apply andb_true_iff in H as [H1 H2]. constructor; auto.
  intros kp Hin. rewrite forallb_forall in H1. apply Nat.ltb_lt. now apply H1.
Qed.
Lemma nodupb_sound l : nodupb l = true -> NoDup l.
Proof.
  induction l as [|x l IH]; intros H; [constructor|]. cbn [nodupb] in H.
  apply andb_true_iff in H as [H1 H2]. constructor; auto.
  intros Hin. apply negb_true_iff in H1. assert (existsb (Nat.eqb x) l = true); [|congruence].
  apply existsb_exists. exists x. split; auto. apply Nat.eqb_refl.
Qed.
Lemma nd_fromb_sound t : forall A, nd_fromb t A = true -> nd_from t A.
Proof.
  induction t as [|[k p] t IH]; intros A H; cbn [nd_from]; auto. cbn [nd_fromb] in H.
  apply andb_true_iff in H as [H1 H2]. split; auto using nodupb_sound.
Qed.
Lemma wfb_sound s : wfb s = true -> WFv s.
Proof.
  unfold wfb. intros H. apply andb_true_iff in H as [H H5]. apply andb_true_iff in H as [H H4].
  apply andb_true_iff in H as [H H3]. apply andb_true_iff in H as [H1 H2].
  split; [now apply ssortedb_sound|]. split; [|split; [assumption|split]].
  - intros kp Hin. rewrite forallb_forall in H2. apply Nat.leb_le. now apply H2.
  - now apply nd_from_nodup, nd_fromb_sound.
  - destruct (final_active (tbl s)); [reflexivity|discriminate].
Qed.

(* ====================================================================== *)
(* 2. Strict replay: cutting a table                                       *)
(* ====================================================================== *)
Definition tge (k : nat) (t : fmts) : fmts := filter (fun kp => k <=? fst kp) t.

Lemma between_all_ge st en t : (forall kp, In kp t -> en <= fst kp) -> between st en t = [].
Proof.
  intros H. unfold between. apply filter_all_false. intros kp Hin. specialize (H kp Hin).
  apply andb_false_iff. right. apply Nat.ltb_ge. lia.
Qed.
Lemma tge_all_ge en t : (forall kp, In kp t -> en <= fst kp) -> tge en t = t.
Proof. intros H. unfold tge. apply filter_all_true. intros kp Hin. apply Nat.leb_le. auto. Qed.

Lemma three_way t : ssorted t -> forall st en, st < en ->
  t = upto st t ++ between st en t ++ tge en t.
Proof.
  induction 1 as [|k p t Hk Hs IH]; intros st en Hlt; [reflexivity|].
  specialize (IH st en Hlt). unfold upto, between, tge in *. cbn [filter fst].
  destruct (k <=? st) eqn:E1.
  - apply Nat.leb_le in E1.
    replace (st <? k) with false by (symmetry; apply Nat.ltb_ge; lia).
    replace (en <=? k) with false by (symmetry; apply Nat.leb_gt; lia).
    cbn [andb app]. f_equal. exact IH.
  - apply Nat.leb_gt in E1. replace (st <? k) with true by (symmetry; apply Nat.ltb_lt; lia). cbn [andb].
    fold (upto st t). rewrite (upto_all_gt st k t Hk E1). cbn [app].
    destruct (k <? en) eqn:E2.
    + apply Nat.ltb_lt in E2. replace (en <=? k) with false by (symmetry; apply Nat.leb_gt; lia).
      cbn [app]. f_equal. fold (upto st t) in IH. rewrite (upto_all_gt st k t Hk E1) in IH. exact IH.
    + apply Nat.ltb_ge in E2. replace (en <=? k) with true by (symmetry; apply Nat.leb_le; lia).
      fold (between st en t). rewrite (between_all_ge st en t) by (intros kp Hin; specialize (Hk kp Hin); lia).
      cbn [app]. f_equal. fold (tge en t). symmetry. apply tge_all_ge. intros kp Hin. specialize (Hk kp Hin). lia.
Qed.

Lemma upto_pred_between t st en : ssorted t -> st < en -> upto (en - 1) t = upto st t ++ between st en t.
Proof.
  intros Hs Hlt. rewrite (upto_split t Hs st (en - 1)) by lia. f_equal. unfold between.
  apply filter_ext. intros kp. f_equal.
  apply Bool.eq_iff_eq_true. rewrite Nat.leb_le, Nat.ltb_lt. lia.
Qed.

Lemma strict_point t : ssorted t -> forall a k p, strict_ok_from t a = true -> tget k t = Some p ->
  srok (prem p) (run a (tlt k t)) = true.
Proof.
  induction 1 as [|k' p' t Hk Hs IH]; intros a k p H G; [discriminate|].
  rewrite sok_cons in H. apply andb_true_iff in H as [H1 H2]. cbn [tget] in G. unfold tlt. cbn [filter fst].
  destruct (Nat.eqb k k') eqn:E.
  - apply Nat.eqb_eq in E. subst k'. inversion G; subst p'. rewrite Nat.ltb_irrefl.
    fold (tlt k t). rewrite (lt_all_gt k t Hk). exact H1.
  - apply Nat.eqb_neq in E. destruct (k <? k') eqn:E2; [discriminate|]. apply Nat.ltb_ge in E2.
    replace (k' <? k) with true by (symmetry; apply Nat.ltb_lt; lia).
    rewrite run_cons. cbn [snd]. fold (tlt k t). now apply IH.
Qed.

Lemma tlt_upto k t : 0 < k -> tlt k t = upto (k - 1) t.
Proof.
  intros H. unfold tlt, upto. apply filter_ext. intros kp.
  apply Bool.eq_iff_eq_true. rewrite Nat.leb_le, Nat.ltb_lt. lia.
Qed.

(* removing, strictly, from a duplicate-free list is filtering *)
Lemma filter_remove_ref x r : forall a, NoDup (ids a) ->
  filter (fun y => negb (in_ref y (x :: r))) a = filter (fun y => negb (in_ref y r)) (remove_ref x a).
Proof.
  induction a as [|y a IH]; intros N; [reflexivity|].
  cbn [ids map] in N. inversion N as [|? ? Hn Hd]; subst.
  cbn [filter remove_ref]. rewrite in_ref_cons. destruct (same_ref x y) eqn:E.
  - unfold same_ref in *. rewrite Nat.eqb_sym, E. cbn [orb negb].
    apply Nat.eqb_eq in E. apply filter_ext_in. intros z Hz. rewrite in_ref_cons. unfold same_ref.
    replace (Nat.eqb (sid z) (sid x)) with false; [reflexivity|].
    symmetry. apply Nat.eqb_neq. intros Ez. apply Hn. rewrite <- E, <- Ez. unfold ids. now apply in_map.
  - unfold same_ref in *. rewrite Nat.eqb_sym, E. cbn [orb filter].
    rewrite IH by exact Hd. reflexivity.
Qed.

Lemma rm_filter rems : forall a, srok rems a = true -> NoDup (ids a) ->
  rm rems a = filter (fun y => negb (in_ref y rems)) a.
Proof.
  induction rems as [|x r IH]; intros a H N.
  - cbn. symmetry. apply filter_all_true. reflexivity.
  - rewrite srok_cons in H. apply andb_true_iff in H as [H1 H2]. rewrite rm_cons.
    rewrite IH; auto using remove_ref_nodup. symmetry. now apply filter_remove_ref.
Qed.

(* ====================================================================== *)
(* 3. Slicing                                                              *)
(* ====================================================================== *)
Lemma shift_down_snd d t : map snd (shift_down d t) = map snd t.
Proof. unfold shift_down. rewrite map_map. reflexivity. Qed.

Definition seedpt (seed : list setting) : fmts := match seed with [] => [] | _ => [(0, mkP seed [])] end.
Definition closept (k : nat) (c : list setting) : fmts := match c with [] => [] | _ => [(k, mkP [] c)] end.
Definition closing_of (t : fmts) (en : nat) : list setting :=
  let rem_en := match tget en t with Some p => prem p | None => [] end in
  rem_en ++ filter (fun x => negb (in_ref x rem_en)) (active_at t (en - 1)).

Lemma slice_tbl_eq t st en :
  slice_tbl t st en = seedpt (active_at t st) ++ shift_down st (between st en t) ++ closept (en - st) (closing_of t en).
Proof. reflexivity. Qed.
Lemma run_seedpt s : run [] (seedpt s) = s.
Proof. destruct s; reflexivity. Qed.
Lemma sok_seedpt s : strict_ok_from (seedpt s) [] = true.
Proof. destruct s; reflexivity. Qed.
Lemma sok_closept k c a : strict_ok_from (closept k c) a = srok c a.
Proof. destruct c; [reflexivity|]. unfold closept. rewrite sok_cons. cbn [prem strict_ok_from]. apply andb_true_r. Qed.

Lemma slice_tbl_strict t st en : ssorted t -> st < en -> strict_ok t = true -> nodup_active t ->
  strict_ok (slice_tbl t st en) = true.
Proof.
  intros Hs Hlt Hst Hnd. unfold strict_ok in *.
  pose proof (three_way t Hs st en Hlt) as E3.
  assert (Hmid : strict_ok_from (between st en t) (active_at t st) = true).
  { rewrite E3 in Hst. rewrite !sok_app in Hst. apply andb_true_iff in Hst as [_ Hst].
    apply andb_true_iff in Hst as [Hmid _]. now rewrite (active_at_run t st Hs). }
  rewrite slice_tbl_eq. set (seed := active_at t st) in *. unfold closing_of. set (prev := active_at t (en - 1)).
  set (rem_en := match tget en t with Some p => prem p | None => [] end).
  rewrite !sok_app, run_seedpt, sok_seedpt. cbn [andb]. apply andb_true_iff. split.
  - rewrite (sok_snd _ (between st en t)); auto using shift_down_snd.
  - rewrite (run_snd _ (between st en t)) by apply shift_down_snd.
    assert (Hprev : run seed (between st en t) = prev).
    { unfold seed, prev. rewrite !active_at_run by exact Hs. rewrite <- run_app. f_equal. symmetry.
      now apply upto_pred_between. }
    rewrite Hprev, sok_closept, srok_app.
    assert (Hr : srok rem_en prev = true).
    { unfold rem_en. destruct (tget en t) as [p|] eqn:G; [|reflexivity].
      pose proof (strict_point t Hs [] en p Hst G) as Q.
      rewrite tlt_upto in Q by lia. rewrite <- active_at_run in Q by exact Hs. exact Q. }
    rewrite Hr. cbn [andb]. rewrite rm_filter; auto; [|apply Hnd]. apply srok_self.
Qed.

Lemma tget_In' k t p : tget k t = Some p -> In (k, p) t.
Proof.
  induction t as [|[k' p'] t IH]; cbn [tget]; [discriminate|].
  destruct (Nat.eqb k k') eqn:E.
  - apply Nat.eqb_eq in E. subst. intros H; inversion H; subst. now left.
  - destruct (k <? k'); [discriminate|]. intros H. right. auto.
Qed.

Lemma slice_tbl_occ t st en : ssorted t -> sub_occ (slice_tbl t st en) t.
Proof.
  intros Hs x. rewrite slice_tbl_eq, !occ_app. intros [H|[H|H]].
  - destruct H as (kp & H1 & H2). unfold seedpt in H1. destruct (active_at t st) eqn:E; [destruct H1|].
    destruct H1 as [<-|[]]. cbn [snd padd prem] in H2. rewrite app_nil_r, <- E in H2. eapply active_occ; eauto.
  - destruct H as (kp & H1 & H2). unfold shift_down, between in H1. apply in_map_iff in H1 as (kp0 & <- & H0).
    apply filter_In in H0 as [H0 _]. exists kp0. auto.
  - destruct H as (kp & H1 & H2). unfold closept in H1. destruct (closing_of t en) eqn:E; [destruct H1|].
    destruct H1 as [<-|[]]. cbn [snd padd prem app] in H2. rewrite <- E in H2. unfold closing_of in H2.
    apply in_app_or in H2 as [H2|H2].
    + destruct (tget en t) as [p|] eqn:G; [|destruct H2]. apply tget_In' in G. eapply occ_rem; eauto.
    + apply filter_In in H2 as [H2 _]. eapply active_occ; eauto.
Qed.

Lemma slice_tbl_nodup t st en : ssorted t -> st < en -> nodup_active t -> nodup_active (slice_tbl t st en).
Proof.
  intros Hs Hlt Hnd k. destruct (Nat.lt_ge_cases k (en - st)) as [Hk|Hk].
  - rewrite slice_active by auto. apply Hnd.
  - rewrite active_beyond.
    + rewrite slice_closed; [constructor|auto|auto|apply Hnd].
    + now apply slice_tbl_sorted.
    + intros kp Hin. pose proof (slice_tbl_keys t st en Hlt kp Hin). lia.
Qed.

Theorem slice_core_WFv s st en : WFv s -> en <= length (base s) -> WFv (slice_core s st en).
Proof.
  intros (Hs & Hk & Hst & Hnd & Hf) Hen. unfold slice_core. destruct (en <=? st) eqn:E; [apply WFv_empty|].
  apply Nat.leb_gt in E. unfold WFv. cbn [tbl base]. rewrite str_slice_length by exact Hen.
  split; [now apply slice_tbl_sorted|]. split; [intros kp Hin; now apply (slice_tbl_keys (tbl s) st en E)|].
  split; [now apply slice_tbl_strict|]. split; [now apply slice_tbl_nodup|].
  apply slice_closed; auto.
Qed.

Lemma slice_core_occ s st en : ssorted (tbl s) -> sub_occ (tbl (slice_core s st en)) (tbl s).
Proof.
  intros Hs. unfold slice_core. destruct (en <=? st); cbn [tbl].
  - intros x H. now apply occ_nil in H.
  - now apply slice_tbl_occ.
Qed.

Theorem getitem_slice_WFv s a b : WFv s -> WFv (getitem_slice s a b).
Proof. intros H. unfold getitem_slice. apply slice_core_WFv; auto. apply slice_idx_le. lia. Qed.
Lemma getitem_slice_occ s a b : ssorted (tbl s) -> sub_occ (tbl (getitem_slice s a b)) (tbl s).
Proof. intros H. unfold getitem_slice. now apply slice_core_occ. Qed.

Theorem getitem_int_WFv s k r : WFv s -> getitem_int s k = OK r -> WFv r.
Proof.
  intros H. unfold getitem_int. destruct (_ && _) eqn:E; [|discriminate]. intros Q; inversion Q; subst.
  apply andb_true_iff in E as [E1 E2]. apply Z.leb_le in E1. apply Z.ltb_lt in E2.
  apply slice_core_WFv; auto. destruct (k <? 0)%Z eqn:E3; [apply Z.ltb_lt in E3|apply Z.ltb_ge in E3]; lia.
Qed.
Lemma getitem_int_occ s k r : ssorted (tbl s) -> getitem_int s k = OK r -> sub_occ (tbl r) (tbl s).
Proof.
  intros H. unfold getitem_int. destruct (_ && _); [|discriminate]. intros Q; inversion Q; subst.
  now apply slice_core_occ.
Qed.

Theorem iterate_WFv s : WFv s -> Forall WFv (iterate s).
Proof.
  intros H. unfold iterate. apply Forall_forall. intros r Hr. apply in_map_iff in Hr as (i & <- & Hi).
  apply in_seq in Hi. apply slice_core_WFv; auto. lia.
Qed.
Lemma iterate_occ s : ssorted (tbl s) -> Forall (fun r => sub_occ (tbl r) (tbl s)) (iterate s).
Proof.
  intros H. unfold iterate. apply Forall_forall. intros r Hr. apply in_map_iff in Hr as (i & <- & Hi).
  now apply slice_core_occ.
Qed.

(* ====================================================================== *)
(* 4. apply_formatting with freshly allocated settings                     *)
(* ====================================================================== *)
Lemma occ_filter x f t : occ x (filter f t) -> occ x t.
Proof. intros (kp & H1 & H2). apply filter_In in H1 as [H1 _]. exists kp; auto. Qed.
Lemma occ_cons x kp t : occ x (kp :: t) <-> In x (padd (snd kp) ++ prem (snd kp)) \/ occ x t.
Proof.
  split.
  - intros (kp' & [<-|H1] & H2); [now left|right; exists kp'; auto].
  - intros [H|(kp' & H1 & H2)]; [exists kp; split; auto; now left|exists kp'; split; auto; now right].
Qed.
Lemma occ_tput x k p t : occ x (tput k p t) -> In x (padd p ++ prem p) \/ occ x t.
Proof. intros (kp & H1 & H2). apply In_tput in H1 as [->|H1]; [now left|right; exists kp; auto]. Qed.
Lemma tgoe_occ x k t : In x (padd (tget_or_empty k t) ++ prem (tget_or_empty k t)) -> occ x t.
Proof.
  unfold tget_or_empty. destruct (tget k t) as [p|] eqn:G; [|intros []].
  apply tget_In' in G. intros H. exists (k, p). auto.
Qed.
Lemma In_insert_at {A} (x : A) c : forall n l, In x (insert_at n c l) -> In x c \/ In x l.
Proof.
  induction n as [|n IH]; intros l H.
  - cbn [insert_at] in H. now apply in_app_or in H.
  - destruct l as [|y l]; cbn [insert_at] in H; [now left|]. destruct H as [<-|H]; [right; now left|].
    apply IH in H as [H|H]; auto. right; now right.
Qed.

Lemma start_point_occ t new start top x : ssorted t ->
  In x (padd (start_point t new start top) ++ prem (start_point t new start top)) -> occ x t \/ In x new.
Proof.
  intros Hs. unfold start_point. set (p := tget_or_empty start t).
  assert (Hp : forall y, In y (padd p) \/ In y (prem p) -> occ y t).
  { intros y Hy. apply (tgoe_occ y start t). apply in_or_app. exact Hy. }
  destruct top.
  - cbn [padd prem]. rewrite !in_app_iff. intros [[H|H]|H]; auto.
  - cbv zeta. set (p1 := mkP (new ++ padd p) (prem p)).
    set (carried := filter _ _).
    assert (Hp1 : forall y, In y (padd p1 ++ prem p1) -> occ y t \/ In y new).
    { intros y. unfold p1. cbn [padd prem]. rewrite !in_app_iff. intros [[H|H]|H]; auto. }
    assert (Hc : forall y, In y carried -> occ y t \/ In y new).
    { intros y Hy. unfold carried in Hy. apply filter_In in Hy as [Hy _].
      apply active_occ in Hy; [|now apply ssorted_tput]. apply occ_tput in Hy as [Hy|Hy]; auto. }
    destruct (is_nil carried); [exact (Hp1 x)|]. cbn [padd prem]. rewrite !in_app_iff.
    intros [H|[H|H]]; [| |auto].
    + apply In_insert_at in H as [H|H]; auto. apply Hp1. apply in_or_app. now left.
    + apply Hp1. apply in_or_app. now right.
Qed.

Lemma end_point_occ t new en top x :
  In x (padd (end_point t new en top) ++ prem (end_point t new en top)) -> occ x t \/ In x new.
Proof.
  unfold end_point. set (q := tget_or_empty en t).
  assert (Hq : forall y, In y (padd q) \/ In y (prem q) -> occ y t).
  { intros y Hy. apply (tgoe_occ y en t). apply in_or_app. exact Hy. }
  destruct top; cbn [padd prem]; rewrite !in_app_iff; intros [H|[H|H]]; auto.
Qed.

Lemma apply_core_occ s new start en top x : ssorted (tbl s) -> start < en ->
  occ x (tbl (apply_core s new start en top)) -> occ x (tbl s) \/ In x new.
Proof.
  intros Hs Hlt. rewrite apply_core_tbl by assumption. unfold shape.
  rewrite occ_app, occ_cons, occ_app, occ_cons. cbn [snd].
  intros [H|[H|[H|[H|H]]]].
  - left. eapply occ_filter; eauto.
  - eapply start_point_occ; eauto.
  - left. eapply occ_filter; eauto.
  - eapply end_point_occ; eauto.
  - left. eapply occ_filter; eauto.
Qed.

Lemma apply_fmt_occ s new st en top x : ssorted (tbl s) ->
  occ x (tbl (apply_fmt s new st en top)) -> occ x (tbl s) \/ In x new.
Proof.
  intros Hs. destruct (apply_fmt_cases s new st en top) as [E|(E & H1 & H2)]; rewrite E; auto.
  now apply apply_core_occ.
Qed.

(* fresh settings *)
Lemma fresh_snd texts nid : snd (fresh texts nid) = nid + length texts.
Proof. reflexivity. Qed.
Lemma map_fst_combine_seq {A} (l : list A) : forall a, map fst (combine (seq a (length l)) l) = seq a (length l).
Proof. induction l as [|x l IH]; intros a; cbn [length seq combine map fst]; [reflexivity|]. now rewrite IH. Qed.
Lemma map_snd_combine_seq {A} (l : list A) : forall a, map snd (combine (seq a (length l)) l) = l.
Proof. induction l as [|x l IH]; intros a; cbn [length seq combine map snd]; [reflexivity|]. now rewrite IH. Qed.
Lemma seq_plus n : forall a nid, map (fun i => nid + i) (seq a n) = seq (nid + a) n.
Proof.
  induction n as [|n IH]; intros a nid; cbn [seq map]; [reflexivity|]. rewrite IH. f_equal. f_equal. lia.
Qed.
Lemma fresh_ids texts nid : ids (fst (fresh texts nid)) = seq nid (length texts).
Proof.
  unfold fresh, ids. cbn [fst]. rewrite map_map. cbn [sid].
  rewrite <- (map_map fst (fun i => nid + i)), map_fst_combine_seq, seq_plus. f_equal. lia.
Qed.
Lemma fresh_txts texts nid : map stxt (fst (fresh texts nid)) = texts.
Proof.
  unfold fresh. cbn [fst]. rewrite map_map. cbn [stxt]. apply map_snd_combine_seq.
Qed.
Lemma fresh_range texts nid x : In x (fst (fresh texts nid)) -> nid <= sid x < nid + length texts.
Proof.
  intros H. assert (Hi : In (sid x) (ids (fst (fresh texts nid)))) by (unfold ids; now apply in_map).
  rewrite fresh_ids in Hi. apply in_seq in Hi. lia.
Qed.
Lemma fresh_is_nil texts nid : fst (fresh texts nid) = [] <-> texts = [].
Proof.
  split; intros H.
  - pose proof (fresh_txts texts nid) as E. rewrite H in E. symmetry. exact E.
  - subst. reflexivity.
Qed.

Lemma fresh_fresh_for texts nid t : ids_below nid t -> fresh_for (fst (fresh texts nid)) t.
Proof.
  intros Hb. split.
  - rewrite fresh_ids. apply seq_NoDup.
  - intros x Hx Hin. apply fresh_range in Hx. apply all_ids_occ in Hin as (y & Hy & E).
    apply ids_below_occ with (x := y) in Hb; auto. lia.
Qed.

Theorem apply_fmt_WFv s new st en top : WFv s -> fresh_for new (tbl s) -> WFv (apply_fmt s new st en top).
Proof.
  intros (Hs & Hk & Hst & Hnd & Hf) Hfr. unfold WFv. rewrite ApplyProofs.apply_fmt_base.
  split; [now apply apply_fmt_sorted|]. split; [now apply apply_fmt_keys|].
  split; [now apply apply_fmt_strict|]. split; [now apply apply_fmt_nodup|].
  rewrite apply_fmt_final; auto.
Qed.

(* the coherence function after an allocation: old identities keep their text, the new ones get theirs *)
Definition ext (n : nat) (f f' : nat -> str) : Prop := forall i, i < n -> f' i = f i.
Definition upd (f : nat -> str) (nid : nat) (texts : list str) : nat -> str :=
  fun i => if i <? nid then f i else nth (i - nid) texts (f i).

Lemma ext_refl n f : ext n f f.
Proof. intros i _. reflexivity. Qed.
Lemma ext_trans n m f g h : n <= m -> ext n f g -> ext m g h -> ext n f h.
Proof. intros L H1 H2 i Hi. rewrite H2 by lia. now apply H1. Qed.
Lemma ext_upd f nid texts : ext nid f (upd f nid texts).
Proof. intros i Hi. unfold upd. now replace (i <? nid) with true by (symmetry; apply Nat.ltb_lt; lia). Qed.
Lemma coherent_ext n f f' t : ids_below n t -> ext n f f' -> coherent f t -> coherent f' t.
Proof. intros Hb He Hc kp x H1 H2. rewrite He; eauto. Qed.

Lemma fresh_upd f texts nid x : In x (fst (fresh texts nid)) -> stxt x = upd f nid texts (sid x).
Proof.
  unfold fresh. cbn [fst]. intros H. apply in_map_iff in H as ([i tx] & <- & H). cbn [fst snd sid stxt].
  unfold upd. replace (nid + i <? nid) with false by (symmetry; apply Nat.ltb_ge; lia).
  replace (nid + i - nid) with i by lia.
  assert (G : forall (l : list str) a j y, In (j, y) (combine (seq a (length l)) l) -> a <= j /\ nth (j - a) l (f (nid + i)) = y).
  { clear. induction l as [|z l IH]; intros a j y H; cbn [length seq combine] in H; [destruct H|].
    destruct H as [H|H].
    - inversion H; subst. rewrite Nat.sub_diag. split; [lia|reflexivity].
    - apply IH in H as [H1 H2]. split; [lia|]. replace (j - a) with (S (j - S a)) by lia. exact H2. }
  apply G in H as [_ H]. now rewrite Nat.sub_0_r in H.
Qed.

(* the three components together, relative to a coherence function and an allocation bound *)
Definition good (f : nat -> str) (n : nat) (a : astr) : Prop :=
  WFv a /\ ids_below n (tbl a) /\ coherent f (tbl a).

Lemma good_mono f f' n n' a : n <= n' -> ext n f f' -> good f n a -> good f' n' a.
Proof.
  intros L E (W & B & C). split; [exact W|]. split; [eapply ids_below_mono; eauto|eapply coherent_ext; eauto].
Qed.
Lemma good_sub f n a a' : WFv a' -> sub_occ (tbl a') (tbl a) -> good f n a -> good f n a'.
Proof.
  intros W S (_ & B & C). split; [exact W|]. split; [eapply ids_below_sub; eauto|eapply coherent_sub; eauto].
Qed.
Lemma good_empty f n b : good f n (mkA b []).
Proof. split; [apply WFv_empty|]. split; intros kp x []. Qed.

Theorem apply_fresh_good f nid a texts st en top :
  good f nid a ->
  good (upd f nid texts) (nid + length texts) (apply_fmt a (fst (fresh texts nid)) st en top).
Proof.
  intros (W & B & C). split; [|split].
  - apply apply_fmt_WFv; auto. now apply fresh_fresh_for.
  - apply ids_below_occ. intros x Hx. apply apply_fmt_occ in Hx as [Hx|Hx]; [| |apply W].
    + apply ids_below_occ with (x := x) in B; auto. lia.
    + apply fresh_range in Hx. lia.
  - apply coherent_occ. intros x Hx. apply apply_fmt_occ in Hx as [Hx|Hx]; [| |apply W].
    + rewrite (ext_upd f nid texts) by (apply ids_below_occ with (x := x) in B; auto).
      apply coherent_occ with (x := x) in C; auto.
    + now apply fresh_upd.
Qed.

(* ====================================================================== *)
(* 5. remove_formatting, clear_formatting                                  *)
(* ====================================================================== *)
Section RemoveOcc.
Variable P : setting -> Prop.
Let allP (l : list setting) : Prop := forall x, In x l -> P x.
Let ptP (p : point) : Prop := allP (padd p) /\ allP (prem p).

Lemma allP_app a b : allP a -> allP b -> allP (a ++ b).
Proof. intros H1 H2 x Hx. apply in_app_or in Hx as [Hx|Hx]; auto. Qed.
Lemma allP_sub a b : (forall x, In x a -> In x b) -> allP b -> allP a.
Proof. intros H Hb x Hx. auto. Qed.
Lemma remove_nth_in {A} (x : A) : forall i l, In x (remove_nth i l) -> In x l.
Proof.
  intros i l. revert i. induction l as [|y l IH]; intros [|i] H; cbn [remove_nth] in H; try (now destruct H).
  - now right.
  - destruct H as [<-|H]; [now left|right; eauto].
Qed.
Lemma last_opt_in {A} (l : list A) x : last_opt l = Some x -> In x l.
Proof.
  induction l as [|y l IH]; cbn [last_opt]; [discriminate|]. destruct l as [|z l].
  - intros H; inversion H; now left.
  - intros H. right. now apply IH.
Qed.

Lemma remove_at_start_P sel : forall cur p rd p' rd',
  allP cur -> ptP p -> allP rd -> remove_at_start sel cur p rd = (p', rd') -> ptP p' /\ allP rd'.
Proof.
  unfold remove_at_start. induction cur as [|x cur IH]; intros p rd p' rd' Hc Hp Hr E; cbn [fold_left] in E.
  - inversion E; subst. auto.
  - assert (Hx : P x) by (apply Hc; now left). assert (Hc' : allP cur) by (intros y Hy; apply Hc; now right).
    assert (Hr' : allP (rd ++ [x])) by (apply allP_app; auto; intros y [<-|[]]; auto).
    destruct Hp as [Hp1 Hp2].
    destruct (selected sel x).
    + destruct (find_ref x (padd p)) as [i|].
      * eapply IH in E; eauto. split; cbn [padd prem]; auto. intros y Hy. apply Hp1. eapply remove_nth_in; eauto.
      * eapply IH in E; eauto. split; cbn [padd prem]; auto. apply allP_app; auto. intros y [<-|[]]; auto.
    + eapply IH in E; eauto. split; auto.
Qed.

Lemma rem_pass_P rems : forall rd kp rd', allP rems -> allP rd -> rem_pass rems rd = (kp, rd') -> allP kp /\ allP rd'.
Proof.
  unfold rem_pass. induction rems as [|x r IH]; intros rd kp rd' H1 H2 E; cbn [fold_right] in E.
  - inversion E; subst. split; auto; intros y [].
  - destruct (fold_right _ _ r) as [kp1 rd1] eqn:E1.
    assert (H1' : allP r) by (intros y Hy; apply H1; now right).
    destruct (IH rd kp1 rd1 H1' H2 E1) as [Q1 Q2].
    destruct (find_ref x rd1) as [i|]; inversion E; subst.
    + split; auto. intros y Hy. apply Q2. eapply remove_nth_in; eauto.
    + split; auto. intros y [<-|Hy]; auto. apply H1. now left.
Qed.

Lemma add_pass_P sel adds : forall rd kp rd', allP adds -> allP rd -> add_pass sel adds rd = (kp, rd') -> allP kp /\ allP rd'.
Proof.
  unfold add_pass. induction adds as [|x r IH]; intros rd kp rd' H1 H2 E; cbn [fold_right] in E.
  - inversion E; subst. split; auto; intros y [].
  - destruct (fold_right _ _ r) as [kp1 rd1] eqn:E1.
    assert (H1' : allP r) by (intros y Hy; apply H1; now right).
    assert (Hx : P x) by (apply H1; now left).
    destruct (IH rd kp1 rd1 H1' H2 E1) as [Q1 Q2].
    destruct (selected sel x); inversion E; subst.
    + split; auto. apply allP_app; auto. intros y [<-|[]]; auto.
    + split; auto. intros y [<-|Hy]; auto.
Qed.

Lemma remove_at_end_P len en cur p rem' rd :
  allP cur -> ptP p -> allP rem' -> ptP (remove_at_end len en cur p rem' rd).
Proof.
  intros Hc [Hp1 Hp2] Hr. unfold remove_at_end. destruct (_ && _); [|split; cbn [padd prem]; auto].
  set (original := firstn _ cur).
  assert (Ho : allP original) by (intros y Hy; apply Hc; unfold original in Hy; eapply RemoveProofs.firstn_in; eauto).
  set (restart := match min_pos rd original with Some f => skipn f original | None => _ end).
  assert (Hrs : allP restart).
  { unfold restart. destruct (min_pos rd original).
    - intros y Hy. apply Ho. eapply RemoveProofs.skipn_in; eauto.
    - destruct (last_opt original) eqn:E; [|intros y []]. intros y [<-|[]]. apply Ho. now apply last_opt_in. }
  split; cbn [padd prem]; apply allP_app; auto. intros y Hy. apply filter_In in Hy as [Hy _]. auto.
Qed.

Lemma remove_loop_P len start en sel : forall states rd,
  (forall k p cur, In (k, p, cur) states -> ptP p /\ allP cur) -> allP rd ->
  forall x, occ x (remove_loop states len start en sel rd) -> P x.
Proof.
  induction states as [|[[k p] cur] r IH]; intros rd Hs Hr x Hx; cbn [remove_loop] in Hx.
  - now apply occ_nil in Hx.
  - destruct (Hs k p cur (or_introl eq_refl)) as [[Hp1 Hp2] Hc].
    assert (Hs' : forall k p cur, In (k, p, cur) r -> ptP p /\ allP cur) by (intros k0 p0 c0 H0; apply (Hs k0 p0 c0); now right).
    assert (Hpt : forall y, In y (padd p ++ prem p) -> P y).
    { intros y Hy. apply in_app_or in Hy as [Hy|Hy]; auto. }
    destruct (k <? start).
    { apply occ_cons in Hx as [Hx|Hx]; [cbn [snd] in Hx; auto|exact (IH rd Hs' Hr x Hx)]. }
    destruct (en <? k).
    { apply occ_cons in Hx as [Hx|Hx]; [cbn [snd] in Hx; auto|].
      destruct Hx as (kp & H1 & H2). apply in_map_iff in H1 as ([[k0 p0] c0] & <- & H0).
      cbn [fst snd] in H2. destruct (Hs' k0 p0 c0 H0) as [[Q1 Q2] _].
      apply in_app_or in H2 as [H2|H2]; auto. }
    destruct (Nat.eqb k start).
    { destruct (remove_at_start sel cur p rd) as [p' rd'] eqn:E.
      destruct (remove_at_start_P sel cur p rd p' rd' Hc (conj Hp1 Hp2) Hr E) as [[Q1 Q2] Q3].
      apply occ_cons in Hx as [Hx|Hx]; [|exact (IH rd' Hs' Q3 x Hx)]. cbn [snd] in Hx.
      apply in_app_or in Hx as [Hx|Hx]; auto. }
    destruct (rem_pass (prem p) rd) as [rem' rd1] eqn:E1.
    destruct (rem_pass_P (prem p) rd rem' rd1 Hp2 Hr E1) as [R1 R2].
    destruct (Nat.eqb k en).
    { apply occ_cons in Hx as [Hx|Hx]; [|exact (IH rd1 Hs' R2 x Hx)]. cbn [snd] in Hx.
      destruct (remove_at_end_P len en cur p rem' rd1 Hc (conj Hp1 Hp2) R1) as [Q1 Q2].
      apply in_app_or in Hx as [Hx|Hx]; auto. }
    destruct (add_pass sel (padd p) rd1) as [add' rd2] eqn:E2.
    destruct (add_pass_P sel (padd p) rd1 add' rd2 Hp1 R2 E2) as [A1 A2].
    apply occ_cons in Hx as [Hx|Hx]; [|exact (IH rd2 Hs' A2 x Hx)]. cbn [snd padd prem] in Hx.
    apply in_app_or in Hx as [Hx|Hx]; auto.
Qed.

Lemma iter_states_P t : (forall x, occ x t -> P x) -> forall A, allP A ->
  forall k p cur, In (k, p, cur) (iter_states t A) -> ptP p /\ allP cur.
Proof.
  induction t as [|[k0 p0] t IH]; intros Ht A HA k p cur Hin; cbn [iter_states] in Hin; [destruct Hin|].
  assert (Hp0 : ptP p0).
  { split; intros y Hy; apply Ht; [apply (occ_add y _ (k0, p0))|apply (occ_rem y _ (k0, p0))]; try exact Hy; now left. }
  assert (Hst : allP (step A p0)).
  { intros y Hy. rewrite step_rm in Hy. apply in_app_or in Hy as [Hy|Hy]; [|now apply (proj1 Hp0)].
    apply HA. eapply rm_subset; eauto. }
  destruct Hin as [Hin|Hin].
  - inversion Hin; subst. split; auto.
  - eapply IH; eauto. intros y Hy. apply Ht. apply occ_cons. now right.
Qed.
End RemoveOcc.

Lemma tensure_occ k t : sub_occ (tensure k t) t.
Proof.
  intros x H. unfold tensure in H. destruct (tmem k t); auto.
  apply occ_tput in H as [H|H]; auto. destruct H.
Qed.

Lemma remove_core_occ s sel start en : sub_occ (tbl (remove_core s sel start en)) (tbl s).
Proof.
  intros x Hx. unfold remove_core in Hx. cbn [tbl] in Hx. unfold cleanup in Hx. apply occ_filter in Hx.
  revert x Hx. apply remove_loop_P; [|intros y []].
  apply iter_states_P; [|intros y []].
  intros y Hy. now apply tensure_occ, tensure_occ in Hy.
Qed.

Lemma remove_fmt_occ s sel st en : sub_occ (tbl (remove_fmt s sel st en)) (tbl s).
Proof. unfold remove_fmt. destruct (range_empty _ _ _); [apply sub_occ_refl|apply remove_core_occ]. Qed.

Theorem remove_fmt_WFv s sel st en : WFv s -> WFv (remove_fmt s sel st en).
Proof.
  intros W. destruct (range_empty (length (base s)) (slice_idx (length (base s)) st 0)
                                  (slice_idx (length (base s)) en (length (base s)))) eqn:E.
  - now rewrite RemoveProofs.remove_fmt_noop.
  - apply WFv_rm_wf. apply WFv_rm_wf in W. now apply (RemoveProofs.remove_fmt_spec s sel st en W E).
Qed.

Theorem remove_fmt_good f n s sel st en : good f n s -> good f n (remove_fmt s sel st en).
Proof. intros G. eapply good_sub; eauto; [apply remove_fmt_WFv, G|apply remove_fmt_occ]. Qed.

Theorem clear_fmt_WFv s : WFv (clear_fmt s).
Proof. apply WFv_empty. Qed.
Theorem clear_fmt_good f n s : good f n (clear_fmt s).
Proof. apply good_empty. Qed.

Theorem getitem_slice_good f n s a b : good f n s -> good f n (getitem_slice s a b).
Proof. intros G. eapply good_sub; eauto; [apply getitem_slice_WFv, G|apply getitem_slice_occ, G]. Qed.
Theorem slice_core_good f n s st en : good f n s -> en <= length (base s) -> good f n (slice_core s st en).
Proof. intros G H. eapply good_sub; eauto; [apply slice_core_WFv; auto; apply G|apply slice_core_occ, G]. Qed.

(* ====================================================================== *)
(* 6. Re-keying: padding, assign_str, case methods                         *)
(* ====================================================================== *)
Lemma WFv_rekey s b' t' : WFv s -> ssorted t' -> keys_le t' (length b') -> map snd (tbl s) = map snd t' ->
  WFv (mkA b' t').
Proof.
  intros (Hs & Hk & Hst & Hnd & Hf) Hs' Hk' E. unfold WFv. cbn [tbl base].
  split; [exact Hs'|]. split; [exact Hk'|]. split; [apply (rekey_strict (tbl s) t'); auto|].
  split; [apply (rekey_nodup (tbl s) t'); auto|]. rewrite (rekey_final (tbl s) t' E). exact Hf.
Qed.
Lemma WFv_base b b' t : WFv (mkA b t) -> length b = length b' -> WFv (mkA b' t).
Proof. unfold WFv. cbn [tbl base]. intros H E. now rewrite <- E. Qed.
Lemma WFv_longer b b' t : WFv (mkA b t) -> length b <= length b' -> WFv (mkA b' t).
Proof.
  unfold WFv. cbn [tbl base]. intros (Hs & Hk & R) E. split; [exact Hs|]. split; [|exact R].
  intros kp Hin. specialize (Hk kp Hin). lia.
Qed.

Lemma tmove_rekey t L M : ssorted t -> keys_le t L -> L <= M ->
  ssorted (tmove L M t) /\ keys_le (tmove L M t) M /\ map snd t = map snd (tmove L M t).
Proof.
  intros Hs Hle HLM. destruct (last_decomp t L Hs Hle) as [Hlt | (t0 & p & E & Hs0 & Hlt)].
  - assert (En : tget L t = None) by (apply tget_notin; intros kp Hin; specialize (Hlt kp Hin); lia).
    unfold tmove. rewrite En. split; [exact Hs|]. split; [|reflexivity].
    intros kp Hin. specialize (Hle kp Hin). lia.
  - subst t. rewrite (tmove_snoc L M p t0 Hlt HLM).
    assert (HltM : keys_lt t0 M) by (intros kp Hin; specialize (Hlt kp Hin); lia).
    split; [now apply ssorted_snoc|]. split; [|now rewrite !map_app].
    intros kp Hin. apply in_app_or in Hin as [Hin|[<-|[]]]; cbn [fst]; auto. specialize (HltM kp Hin). lia.
Qed.

Lemma shift_idx_snd n b t : map snd t = map snd (shift_idx n b t).
Proof. rewrite shift_idx_map, map_map. apply map_ext. intros kp. now rewrite sh_snd. Qed.

Theorem ljust_WFv s width fill ext : WFv s -> WFv (ljust s width fill ext).
Proof.
  intros W. unfold ljust. destruct (0 <? _)%Z; [|exact W]. set (n := Z.to_nat _).
  destruct ext.
  - destruct (tmove_rekey (tbl s) (length (base s)) (length (base s) + n)) as (T1 & T2 & T3);
      [apply W|apply W|lia|]. apply (WFv_rekey s); auto. now rewrite app_length, repeat_length.
  - apply (WFv_longer (base s)); [destruct s; exact W|]. rewrite app_length. lia.
Qed.
Lemma ljust_occ s width fill ext : sub_occ (tbl (ljust s width fill ext)) (tbl s).
Proof.
  unfold ljust. destruct (0 <? _)%Z; [|apply sub_occ_refl]. cbn [tbl]. destruct ext; [|apply sub_occ_refl].
  unfold tmove. destruct (tget _ (tbl s)) as [p|] eqn:G; [|apply sub_occ_refl].
  intros x Hx. apply occ_tput in Hx as [Hx|Hx].
  - apply tget_In' in G. exists (length (base s), p). auto.
  - destruct Hx as (kp & H1 & H2). exists kp. split; auto.
    clear -H1. induction (tbl s) as [|[k' p'] t IH]; cbn [tdel] in H1; [destruct H1|].
    destruct (Nat.eqb _ k'); [now right|]. destruct H1 as [<-|H1]; [now left|right; auto].
Qed.

Theorem rjust_WFv s width fill ext : WFv s -> WFv (rjust s width fill ext).
Proof.
  intros W. unfold rjust. destruct (0 <? _)%Z; [|exact W]. set (n := Z.to_nat _).
  apply (WFv_rekey s); auto using shift_idx_snd.
  - apply shift_sorted, W.
  - rewrite app_length, repeat_length. rewrite Nat.add_comm. apply shift_keys, W.
Qed.
Lemma rjust_occ s width fill ext : sub_occ (tbl (rjust s width fill ext)) (tbl s).
Proof.
  unfold rjust. destruct (0 <? _)%Z; [|apply sub_occ_refl]. cbn [tbl]. apply rekey_occ, shift_idx_snd.
Qed.

Theorem center_WFv s width fill ext : WFv s -> WFv (center s width fill ext).
Proof.
  intros W. unfold center. destruct (0 <? _)%Z eqn:E0; [|exact W]. set (n := Z.to_nat _).
  set (left := Nat.div2 n). set (t1 := shift_idx left ext (tbl s)). set (old := length (base s)).
  assert (Hl : left <= n) by (destruct n; [cbn; lia|apply Nat.lt_le_incl, Nat.lt_div2; lia]).
  assert (Ts : ssorted t1) by (apply shift_sorted, W).
  assert (Tk : keys_le t1 (old + left)) by (apply shift_keys, W).
  assert (Len : length (repeat fill left ++ base s ++ repeat fill (n - left)) = old + n).
  { rewrite !app_length, !repeat_length. fold old. lia. }
  destruct ext.
  - destruct (tmove_rekey t1 (old + left) (old + n)) as (T1 & T2 & T3); auto; [lia|].
    apply (WFv_rekey s); auto; [now rewrite Len|]. rewrite <- T3. apply shift_idx_snd.
  - apply (WFv_rekey s); auto; [|apply shift_idx_snd]. rewrite Len. intros kp Hin. specialize (Tk kp Hin). lia.
Qed.
Lemma tmove_occ L M t : sub_occ (tmove L M t) t.
Proof.
  unfold tmove. destruct (tget L t) as [p|] eqn:G; [|apply sub_occ_refl].
  intros x Hx. apply occ_tput in Hx as [Hx|Hx].
  - apply tget_In' in G. exists (L, p). auto.
  - destruct Hx as (kp & H1 & H2). exists kp. split; auto.
    clear -H1. induction t as [|[k' p'] t IH]; cbn [tdel] in H1; [destruct H1|].
    destruct (Nat.eqb _ k'); [now right|]. destruct H1 as [<-|H1]; [now left|right; auto].
Qed.
Lemma center_occ s width fill ext : sub_occ (tbl (center s width fill ext)) (tbl s).
Proof.
  unfold center. destruct (0 <? _)%Z; [|apply sub_occ_refl]. cbn [tbl].
  assert (H : sub_occ (shift_idx (Nat.div2 (Z.to_nat (width - Z.of_nat (length (base s))))) ext (tbl s)) (tbl s))
    by apply rekey_occ, shift_idx_snd.
  destruct ext; auto. eapply sub_occ_trans; [apply tmove_occ|exact H].
Qed.

Theorem assign_WFv s t : WFv s -> WFv (assign s t).
Proof.
  intros W. unfold assign. destruct (_ <? length t) eqn:E1; [|destruct (length t <? _) eqn:E2].
  - apply Nat.ltb_lt in E1.
    destruct (tmove_rekey (tbl s) (length (base s)) (length t)) as (T1 & T2 & T3); [apply W|apply W|lia|].
    apply (WFv_rekey s); auto.
  - apply Nat.ltb_lt in E2.
    assert (W' : WFv (slice_core s 0 (length t))) by (apply slice_core_WFv; auto; lia).
    apply (WFv_base (base (slice_core s 0 (length t)))); [destruct (slice_core s 0 (length t)); exact W'|].
    unfold slice_core. destruct (length t <=? 0) eqn:E3; cbn [base].
    + apply Nat.leb_le in E3. cbn. lia.
    + rewrite str_slice_length by lia. lia.
  - apply Nat.ltb_ge in E1, E2. apply (WFv_base (base s)); [destruct s; exact W|lia].
Qed.
Lemma assign_occ s t : ssorted (tbl s) -> sub_occ (tbl (assign s t)) (tbl s).
Proof.
  intros Hs. unfold assign. destruct (_ <? length t); [|destruct (length t <? _)]; cbn [tbl].
  - apply tmove_occ.
  - now apply slice_core_occ.
  - apply sub_occ_refl.
Qed.

(* Exec.op_20: a case method replaces the text and keeps the table *)
Theorem case_WFv a t : WFv a -> length t = length (base a) -> WFv (mkA t (tbl a)).
Proof. intros W E. apply (WFv_base (base a)); [destruct a; exact W|auto]. Qed.

(* WITHOUT the length hypothesis the invariant is lost: the stop marker of the old last character
   stays at an index beyond the new text *)
Definition case_src : astr := mkA [223%N; 97%N] [(0, mkP [mkS 0 [49%N]] []); (2, mkP [] [mkS 0 [49%N]])].
Example case_src_WFv : WFv case_src.
Proof. apply wfb_sound. reflexivity. Qed.
Example case_shorter_not_WFv : ~ WFv (mkA [97%N] (tbl case_src)).
Proof.
  intros (_ & Hk & _). specialize (Hk (2, mkP [] [mkS 0 [49%N]])). cbn in Hk.
  assert (2 <= 1) by (apply Hk; right; now left). lia.
Qed.

(* what Python's str case methods can do is lengthen the text (one code point may map to several:
   "ß".upper() = "SS"); they never shorten it.  A longer text keeps the invariant as well. *)
Theorem case_WFv_ge a t : WFv a -> length (base a) <= length t -> WFv (mkA t (tbl a)).
Proof. intros W E. apply (WFv_longer (base a)); [destruct a; exact W|auto]. Qed.
Example case_longer_WFv : WFv (mkA [83%N; 83%N; 65%N] (tbl case_src)).
Proof. apply case_WFv_ge; [apply case_src_WFv|cbn; lia]. Qed.

Theorem pad_good f n s which width fill ext :
  good f n s ->
  good f n (if (which =? 0)%Z then ljust s width fill ext
            else if (which =? 1)%Z then rjust s width fill ext else center s width fill ext).
Proof.
  intros G. destruct (which =? 0)%Z; [|destruct (which =? 1)%Z]; eapply good_sub; eauto.
  - apply ljust_WFv, G. - apply ljust_occ.
  - apply rjust_WFv, G. - apply rjust_occ.
  - apply center_WFv, G. - apply center_occ.
Qed.
Theorem assign_good f n s t : good f n s -> good f n (assign s t).
Proof. intros G. eapply good_sub; eauto; [apply assign_WFv, G|apply assign_occ, G]. Qed.
Theorem case_good f n a t : good f n a -> length (base a) <= length t -> good f n (mkA t (tbl a)).
Proof. intros G H. eapply good_sub; eauto; [apply case_WFv_ge; auto; apply G|apply sub_occ_refl]. Qed.

(* ====================================================================== *)
(* 7. Concatenation                                                        *)
(* ====================================================================== *)
Lemma WFv_concat s : WFv s <-> ConcatProofs.WF s.
Proof. reflexivity. Qed.
Lemma occ_occurs x t : occ x t <-> ConcatProofs.occurs x t.
Proof.
  unfold occ, ConcatProofs.occurs. split; intros (kp & H1 & H2); exists kp; split; auto.
  - now apply in_app_or. - now apply in_or_app.
Qed.
Lemma coherent_concat f t : coherent f t -> ConcatProofs.coherent t.
Proof.
  intros C x y Hx Hy E. apply occ_occurs in Hx, Hy. rewrite coherent_occ in C.
  rewrite (C x Hx), (C y Hy). now rewrite E.
Qed.

Theorem iadd_WFv f a b c : WFv a -> WFv b -> coherent f (tbl a) -> iadd a b = OK c -> WFv c.
Proof. intros Wa Wb C E. apply (ConcatProofs.iadd_WF a b Wa Wb c); auto. eapply coherent_concat; eauto. Qed.
Theorem iadd_total a b : WFv a -> WFv b -> exists c, iadd a b = OK c.
Proof. intros Wa Wb. exact (ConcatProofs.iadd_ok a b Wa Wb). Qed.
Lemma iadd_occ a b c x : iadd a b = OK c -> occ x (tbl c) -> occ x (tbl a) \/ occ x (tbl b).
Proof. intros E H. apply occ_occurs in H. apply (ConcatProofs.iadd_occurs a b c E) in H. now rewrite !occ_occurs. Qed.

Theorem iadd_good f n a b c : good f n a -> good f n b -> iadd a b = OK c -> good f n c.
Proof.
  intros (Wa & Ba & Ca) (Wb & Bb & Cb) E. split; [exact (iadd_WFv f a b c Wa Wb Ca E)|]. split.
  - apply ids_below_occ. intros x Hx. apply (iadd_occ a b c x E) in Hx as [Hx|Hx];
      [apply ids_below_occ with (x := x) in Ba|apply ids_below_occ with (x := x) in Bb]; auto.
  - apply coherent_occ. intros x Hx. apply (iadd_occ a b c x E) in Hx as [Hx|Hx];
      [apply coherent_occ with (x := x) in Ca|apply coherent_occ with (x := x) in Cb]; auto.
Qed.

Theorem join_from_good f n : forall l acc c, good f n acc -> Forall (good f n) l -> join_from acc l = OK c -> good f n c.
Proof.
  induction l as [|x l IH]; intros acc c Ga Gl E; cbn [join_from] in E.
  - inversion E; subst. exact Ga.
  - inversion Gl; subst. destruct (iadd acc x) as [acc'|e] eqn:E1; cbn [bind] in E; [|discriminate].
    apply (IH acc' c); auto. exact (iadd_good f n acc x acc' Ga H1 E1).
Qed.
Theorem join_astr_good f n l c : Forall (good f n) l -> join_astr l = OK c -> good f n c.
Proof.
  destruct l as [|x l]; cbn [join_astr]; intros G E.
  - inversion E; subst. apply good_empty.
  - inversion G; subst. exact (join_from_good f n l x c H1 H2 E).
Qed.

(* ====================================================================== *)
(* 8. Operations that allocate identities: parse, simplify, construct,     *)
(*    do_apply, do_remove                                                  *)
(* ====================================================================== *)
(* the result (value, next identity) of an allocating operation started at [nid] under [f] *)
Definition alloc (f : nat -> str) (nid : nat) (a : astr) (nid' : nat) : Prop :=
  exists f', ext nid f f' /\ nid <= nid' /\ good f' nid' a.

Lemma alloc_refl f nid a : good f nid a -> alloc f nid a nid.
Proof. intros G. exists f. split; [apply ext_refl|]. split; [lia|exact G]. Qed.
Lemma alloc_trans f nid n1 a2 n2 :
  (exists f1, ext nid f f1 /\ nid <= n1 /\ alloc f1 n1 a2 n2) -> alloc f nid a2 n2.
Proof.
  intros (f1 & E1 & L1 & f2 & E2 & L2 & G). exists f2. split; [eapply ext_trans; eauto|]. split; [lia|exact G].
Qed.

Definition ids_ge (n : nat) (t : fmts) : Prop := forall x, occ x t -> n <= sid x.

Lemma apply_fresh_alloc f nid a texts st en top :
  good f nid a -> alloc f nid (apply_fmt a (fst (fresh texts nid)) st en top) (nid + length texts).
Proof.
  intros G. exists (upd f nid texts). split; [apply ext_upd|]. split; [lia|]. now apply apply_fresh_good.
Qed.
Lemma apply_fresh_ge m nid a texts st en top : ssorted (tbl a) -> m <= nid ->
  ids_ge m (tbl a) -> ids_ge m (tbl (apply_fmt a (fst (fresh texts nid)) st en top)).
Proof.
  intros Hs L H x Hx. apply apply_fmt_occ in Hx as [Hx|Hx]; auto. apply fresh_range in Hx. lia.
Qed.

Lemma parse_step_alloc f s cur key body nid : good f nid s ->
  alloc f nid (fst (fst (parse_step s cur key body nid))) (snd (parse_step s cur key body nid)).
Proof.
  intros G. unfold parse_step. destruct (pgs_str body false) as [texts|e]; [|now apply alloc_refl].
  destruct (fold_left _ _ _) as [to_rem to_app].
  set (rmv := to_rem ++ _). set (nid1 := nid + length texts).
  set (s1 := if is_nil rmv then s else remove_fmt s (Some rmv) (Some (Z.of_nat key)) None).
  assert (G1 : good f nid1 s1).
  { apply (good_mono f f nid nid1); [unfold nid1; lia|apply ext_refl|].
    unfold s1. destruct (is_nil rmv); auto using remove_fmt_good. }
  destruct (is_nil to_app) eqn:Ea; cbn [fst snd].
  - exists f. split; [apply ext_refl|]. split; [unfold nid1; lia|exact G1].
  - destruct (fresh to_app nid1) as [news nid2] eqn:Ef. cbn [fst snd].
    assert (En : news = fst (fresh to_app nid1)) by now rewrite Ef.
    assert (E2 : nid2 = nid1 + length to_app) by (pose proof (fresh_snd to_app nid1) as Q; now rewrite Ef in Q).
    subst news nid2. apply (alloc_trans f nid nid1). exists f. split; [apply ext_refl|]. split; [unfold nid1; lia|].
    now apply apply_fresh_alloc.
Qed.

Lemma parse_step_ge m s cur key body nid : WFv s -> m <= nid -> ids_ge m (tbl s) ->
  ids_ge m (tbl (fst (fst (parse_step s cur key body nid)))).
Proof.
  intros W L H. unfold parse_step. destruct (pgs_str body false) as [texts|e]; [|exact H].
  destruct (fold_left _ _ _) as [to_rem to_app].
  set (rmv := to_rem ++ _). set (nid1 := nid + length texts).
  set (s1 := if is_nil rmv then s else remove_fmt s (Some rmv) (Some (Z.of_nat key)) None).
  assert (W1 : WFv s1) by (unfold s1; destruct (is_nil rmv); auto using remove_fmt_WFv).
  assert (H1 : ids_ge m (tbl s1)).
  { unfold s1. destruct (is_nil rmv); auto. intros x Hx. apply H. now apply remove_fmt_occ in Hx. }
  destruct (is_nil to_app) eqn:Ea; cbn [fst snd]; [exact H1|].
  destruct (fresh to_app nid1) as [news nid2] eqn:Ef. cbn [fst snd].
  assert (En : news = fst (fresh to_app nid1)) by now rewrite Ef. subst news.
  apply apply_fresh_ge; auto; [apply W1|unfold nid1; lia].
Qed.

Definition parse_fold (text : str) (seqs : list (nat * cseq)) (init : astr * dict vset * nat) :=
  fold_left (fun '(s, cur, nid) kq =>
               if length text <=? fst kq then (s, cur, nid)
               else parse_step s cur (fst kq) (cs_body (snd kq)) nid) seqs init.

Lemma parse_unfold w nid :
  parse w nid =
  let toks := tokenize false (Some [CH_m]) w in
  let text := unformatted toks in
  let r := parse_fold text (flat_sequences (sequences toks)) (mkA text [], [], nid) in
  (fst (fst r), snd r).
Proof.
  unfold parse, parse_fold. cbv zeta. destruct (fold_left _ _ _) as [[s c] n]. reflexivity.
Qed.

Lemma parse_fold_alloc text seqs : forall s cur nid f, good f nid s ->
  alloc f nid (fst (fst (parse_fold text seqs (s, cur, nid)))) (snd (parse_fold text seqs (s, cur, nid))).
Proof.
  induction seqs as [|kq seqs IH]; intros s cur nid f G; [now apply alloc_refl|].
  unfold parse_fold. cbn [fold_left]. fold (parse_fold text seqs).
  destruct (length text <=? fst kq); [now apply IH|].
  pose proof (parse_step_alloc f s cur (fst kq) (cs_body (snd kq)) nid G) as (f1 & E1 & L1 & G1).
  destruct (parse_step s cur (fst kq) (cs_body (snd kq)) nid) as [[s' cur'] nid']. cbn [fst snd] in *.
  apply (alloc_trans f nid nid'). exists f1. split; [exact E1|]. split; [exact L1|]. now apply IH.
Qed.

Lemma parse_fold_ge m text seqs : forall s cur nid f, good f nid s -> m <= nid -> ids_ge m (tbl s) ->
  ids_ge m (tbl (fst (fst (parse_fold text seqs (s, cur, nid))))).
Proof.
  induction seqs as [|kq seqs IH]; intros s cur nid f G L H; [exact H|].
  unfold parse_fold. cbn [fold_left]. fold (parse_fold text seqs).
  destruct (length text <=? fst kq); [now apply (IH s cur nid f)|].
  pose proof (parse_step_alloc f s cur (fst kq) (cs_body (snd kq)) nid G) as (f1 & E1 & L1 & G1).
  pose proof (parse_step_ge m s cur (fst kq) (cs_body (snd kq)) nid (proj1 G) L H) as H1.
  destruct (parse_step s cur (fst kq) (cs_body (snd kq)) nid) as [[s' cur'] nid']. cbn [fst snd] in *.
  apply (IH s' cur' nid' f1); auto. lia.
Qed.

(* parse: the result is well formed, its identities are exactly in [nid, nid'), old identities keep
   their text *)
Theorem parse_alloc f w nid : alloc f nid (fst (parse w nid)) (snd (parse w nid)).
Proof. rewrite parse_unfold. cbv zeta. cbn [fst snd]. apply parse_fold_alloc, good_empty. Qed.

Theorem parse_WFv w nid : WFv (fst (parse w nid)).
Proof. destruct (parse_alloc (fun _ => []) w nid) as (f' & _ & _ & G). apply G. Qed.
Theorem parse_mono w nid : nid <= snd (parse w nid).
Proof. destruct (parse_alloc (fun _ => []) w nid) as (f' & _ & L & _). exact L. Qed.
Theorem parse_ids w nid : forall kp x, In kp (tbl (fst (parse w nid))) -> In x (padd (snd kp) ++ prem (snd kp)) ->
  nid <= sid x < snd (parse w nid).
Proof.
  intros kp x H1 H2. split.
  - assert (H : ids_ge nid (tbl (fst (parse w nid)))).
    { rewrite parse_unfold. cbv zeta. cbn [fst snd].
      apply (parse_fold_ge nid _ _ _ _ nid (fun _ => [])); [apply good_empty|lia|].
      intros y Hy. now apply occ_nil in Hy. }
    apply H. exists kp. auto.
  - destruct (parse_alloc (fun _ => []) w nid) as (f' & _ & _ & (_ & B & _)). eapply B; eauto.
Qed.

Theorem simplify_alloc f s nid : alloc f nid (fst (simplify s nid)) (snd (simplify s nid)).
Proof. unfold simplify. apply parse_alloc. Qed.
Theorem simplify_WFv s nid : WFv (fst (simplify s nid)).
Proof. unfold simplify. apply parse_WFv. Qed.

Theorem do_apply_alloc f a form st en top nid a' nid' :
  good f nid a -> do_apply a form st en top nid = OK (a', nid') -> alloc f nid a' nid'.
Proof.
  intros G. unfold do_apply. destruct (_ || _).
  - intros E; inversion E; subst. now apply alloc_refl.
  - destruct (scrub form) as [texts|e]; cbn [bind]; [|discriminate].
    destruct (fresh texts nid) as [news n2] eqn:Ef. intros E; inversion E; subst.
    assert (En : news = fst (fresh texts nid)) by now rewrite Ef.
    assert (E2 : nid' = nid + length texts) by (pose proof (fresh_snd texts nid) as Q; now rewrite Ef in Q).
    subst. now apply apply_fresh_alloc.
Qed.

Theorem do_remove_good f n a form st en a' : good f n a -> do_remove a form st en = OK a' -> good f n a'.
Proof.
  intros G. unfold do_remove. destruct (_ || _).
  - intros E; inversion E; subst. exact G.
  - destruct form as [fm|].
    + destruct (scrub fm) as [texts|e]; cbn [bind]; [|discriminate]. intros E; inversion E; subst.
      now apply remove_fmt_good.
    + intros E; inversion E; subst. now apply remove_fmt_good.
Qed.

Theorem construct_alloc f text forms nid a' nid' : construct text forms nid = OK (a', nid') -> alloc f nid a' nid'.
Proof.
  unfold construct. pose proof (parse_alloc f text nid) as (f1 & E1 & L1 & G1).
  destruct (parse text nid) as [a n1]. cbn [fst snd] in *. destruct (is_nil forms).
  - intros E; inversion E; subst. exists f1. auto.
  - intros E. apply (alloc_trans f nid n1). exists f1. split; [exact E1|]. split; [exact L1|].
    eapply do_apply_alloc; eauto.
Qed.

(* ====================================================================== *)
(* 9. The str-like methods built from slices and concatenation             *)
(* ====================================================================== *)
Theorem strip_good f n s chars dl dr : good f n s -> good f n (strip s chars dl dr).
Proof. intros G. unfold strip. destruct (strip_bounds _ _ _ _) as [l r]. now apply getitem_slice_good. Qed.

Theorem partition_at_good f n s idx seplen : good f n s ->
  let '(x, y, z) := partition_at s idx seplen in good f n x /\ good f n y /\ good f n z.
Proof.
  intros G. unfold partition_at. destruct idx as [i|].
  - split; [|split]; apply getitem_slice_good; exact G.
  - split; [exact G|split; apply good_empty].
Qed.
Theorem partition_good f n s sep : good f n s ->
  let '(x, y, z) := partition s sep in good f n x /\ good f n y /\ good f n z.
Proof. intros G. unfold partition. now apply partition_at_good. Qed.
Theorem rpartition_good f n s sep : good f n s ->
  let '(x, y, z) := rpartition s sep in good f n x /\ good f n y /\ good f n z.
Proof. intros G. unfold rpartition. now apply partition_at_good. Qed.

Theorem removeprefix_good f n s p : good f n s -> good f n (removeprefix s p).
Proof. intros G. unfold removeprefix. destruct (starts_with _ _); auto using getitem_slice_good. Qed.
Theorem removesuffix_good f n s p : good f n s -> good f n (removesuffix s p).
Proof. intros G. unfold removesuffix. destruct (_ || _); auto using getitem_slice_good. Qed.

Lemma slices_cumulative_good f n s seplen : good f n s -> forall pieces idx,
  Forall (good f n) (slices_cumulative s pieces seplen idx).
Proof.
  intros G. induction pieces as [|p r IH]; intros idx; cbn [slices_cumulative]; constructor; auto using getitem_slice_good.
Qed.
Theorem split_sep_good f n s sep m right l : good f n s -> split_sep s sep m right = OK l -> Forall (good f n) l.
Proof.
  intros G. unfold split_sep. destruct (is_nil sep); [discriminate|]. intros E; inversion E; subst.
  now apply slices_cumulative_good.
Qed.
Theorem slices_by_find_good f n s : good f n s -> forall pieces idx, Forall (good f n) (slices_by_find s pieces idx).
Proof.
  intros G. induction pieces as [|p r IH]; intros idx; cbn [slices_by_find]; [constructor|].
  destruct (find_from _ _ _); constructor; auto using getitem_slice_good.
Qed.
Theorem iterate_good f n s : good f n s -> Forall (good f n) (iterate s).
Proof.
  intros G. unfold iterate. apply Forall_forall. intros r Hr. apply in_map_iff in Hr as (i & <- & Hi).
  apply in_seq in Hi. apply slice_core_good; auto. lia.
Qed.
Theorem getitem_int_good f n s k r : good f n s -> getitem_int s k = OK r -> good f n r.
Proof.
  intros G E. eapply good_sub; eauto; [eapply getitem_int_WFv; eauto; apply G|eapply getitem_int_occ; eauto; apply G].
Qed.

(* replace *)
Lemma repl_value_alloc f obj idx r nid : good f nid obj -> (forall a, r = RObj a -> good f nid a) ->
  alloc f nid (fst (repl_value obj idx r nid)) (snd (repl_value obj idx r nid)).
Proof.
  intros G Hr. unfold repl_value. destruct r as [raw|a]; [|apply alloc_refl; auto].
  pose proof (parse_alloc f raw nid) as (f1 & E1 & L1 & G1).
  destruct (parse raw nid) as [p n1]. cbn [fst snd] in *.
  destruct (is_nil _); cbn [fst snd]; [exists f1; auto|].
  destruct (fresh _ n1) as [news n2] eqn:Ef. cbn [fst snd].
  set (texts := map stxt (settings_at_nat obj idx)) in *.
  assert (En : news = fst (fresh texts n1)) by now rewrite Ef.
  assert (E2 : n2 = n1 + length texts) by (pose proof (fresh_snd texts n1) as Q; now rewrite Ef in Q).
  subst. apply (alloc_trans f nid n1). exists f1. split; [exact E1|]. split; [exact L1|]. now apply apply_fresh_alloc.
Qed.

Lemma replace_loop_alloc old r : forall fuel f obj count idx nid a' nid',
  good f nid obj -> (forall a, r = RObj a -> good f nid a) ->
  replace_loop fuel obj old r count idx nid = OK (a', nid') -> alloc f nid a' nid'.
Proof.
  induction fuel as [|fuel IH]; intros f obj count idx nid a' nid' G Hr E; cbn [replace_loop] in E; [discriminate|].
  destruct idx as [i|]; [|inversion E; subst; now apply alloc_refl].
  destruct (count =? 0)%Z; [inversion E; subst; now apply alloc_refl|].
  pose proof (repl_value_alloc f obj i r nid G Hr) as (f1 & E1 & L1 & G1).
  destruct (repl_value obj i r nid) as [rv n1]. cbn [fst snd] in *.
  assert (Go : good f1 n1 obj) by (eapply good_mono; eauto).
  destruct (add (getitem_slice obj None (Some (Z.of_nat i))) rv) as [lft|e] eqn:A1; cbn [bind] in E; [|discriminate].
  destruct (add lft (getitem_slice obj (Some (Z.of_nat (i + length old))) None)) as [obj'|e] eqn:A2; cbn [bind] in E; [|discriminate].
  assert (Gl : good f1 n1 lft).
  { unfold add in A1. eapply iadd_good; [|exact G1|exact A1]. now apply getitem_slice_good. }
  assert (Go' : good f1 n1 obj').
  { unfold add in A2. eapply iadd_good; [exact Gl| |exact A2]. now apply getitem_slice_good. }
  apply (alloc_trans f nid n1). exists f1. split; [exact E1|]. split; [exact L1|].
  eapply IH; [exact Go'| |exact E]. intros a Ha. eapply good_mono; eauto.
Qed.

Theorem replace_alloc f s old r count nid a' nid' :
  good f nid s -> (forall a, r = RObj a -> good f nid a) ->
  replace s old r count nid = OK (a', nid') -> alloc f nid a' nid'.
Proof. intros G Hr. unfold replace. now apply replace_loop_alloc. Qed.

(* ====================================================================== *)
(* 10. Pools                                                               *)
(* ====================================================================== *)
From AS.Proofs Require Import ExecProofs.

Definition PI (f : nat -> str) (p : pool) : Prop :=
  Forall (fun o => good f (next_id p) (o_val o)) (objs p).

Lemma pool_inv_PI p : pool_inv p <-> exists f, PI f p.
Proof.
  unfold pool_inv, PI, good. split.
  - intros (H1 & H2 & f & H3). exists f. rewrite Forall_forall in *. intros o Ho. auto.
  - intros (f & H). split; [|split; [|exists f]]; rewrite Forall_forall in *; intros o Ho; apply (H o Ho).
Qed.

Lemma o_val_mk_obj k a : o_val (mk_obj k a) = a.
Proof. destruct k; reflexivity. Qed.

Lemma PI_get f p i o : PI f p -> get p i = Some o -> good f (next_id p) (o_val o).
Proof. intros H G. unfold PI in H. rewrite Forall_forall in H. apply H. eapply nth_error_In; eauto. Qed.

Lemma PI_lift f f' p n' : PI f p -> ext (next_id p) f f' -> next_id p <= n' ->
  Forall (fun o => good f' n' (o_val o)) (objs p).
Proof. intros H E L. unfold PI in H. rewrite Forall_forall in *. intros o Ho. eapply good_mono; eauto. Qed.

Lemma store_PI f q i o b a p' idxs e :
  Forall (fun o => good f (next_id q) (o_val o)) (objs q) -> good f (next_id q) a ->
  store q i o b a = OK (p', idxs, e) -> PI f p'.
Proof.
  intros H G E. unfold store, put, push in E.
  assert (Hput : PI f (mkPool (set_nth i (mk_obj KString a) (objs q)) (next_id q))).
  { unfold PI. cbn [objs next_id]. apply Forall_set_nth; auto. }
  assert (Hpush : forall k, PI f (mkPool (objs q ++ [mk_obj k a]) (next_id q))).
  { intros k. unfold PI. cbn [objs next_id]. apply Forall_app. split; auto. }
  destruct (o_kind o); [destruct b|]; inversion E; subst; auto.
Qed.

Lemma store_many_PI f q k l p' idxs e :
  Forall (fun o => good f (next_id q) (o_val o)) (objs q) -> Forall (good f (next_id q)) l ->
  store_many q k l = OK (p', idxs, e) -> PI f p'.
Proof.
  intros H G E. unfold store_many in E. rewrite fold_push_spec in E. inversion E; subst.
  unfold PI. cbn [objs next_id]. apply Forall_app. split; auto.
  rewrite Forall_forall in *. intros o Ho. apply in_map_iff in Ho as (a & <- & Ha). rewrite o_val_mk_obj. auto.
Qed.

Lemma with_id_self p : with_id p (next_id p) = p.
Proof. destruct p; reflexivity. Qed.

(* storing the result of an allocating operation *)
Lemma store_alloc_inv f p n' i o b a p' idxs e :
  PI f p -> alloc f (next_id p) a n' -> store (with_id p n') i o b a = OK (p', idxs, e) -> pool_inv p'.
Proof.
  intros H (f' & E1 & L1 & G) E. apply pool_inv_PI. exists f'.
  apply (store_PI f' (with_id p n') i o b a p' idxs e); [|exact G|exact E].
  cbn [with_id objs next_id]. eapply PI_lift; eauto.
Qed.
Lemma store_good_inv f p i o b a p' idxs e :
  PI f p -> good f (next_id p) a -> store p i o b a = OK (p', idxs, e) -> pool_inv p'.
Proof. intros H G E. apply pool_inv_PI. exists f. eapply store_PI; eauto. Qed.
Lemma store_many_inv f p k l p' idxs e :
  PI f p -> Forall (good f (next_id p)) l -> store_many p k l = OK (p', idxs, e) -> pool_inv p'.
Proof. intros H G E. apply pool_inv_PI. exists f. eapply store_many_PI; eauto. Qed.
Lemma push_alloc_inv f p n' k a p' j :
  PI f p -> alloc f (next_id p) a n' -> push (with_id p n') (mk_obj k a) = (p', j) -> pool_inv p'.
Proof.
  intros H (f' & E1 & L1 & G) E. apply pool_inv_PI. exists f'. unfold push in E. inversion E; subst.
  unfold PI. cbn [with_id objs next_id]. apply Forall_app. split; [eapply PI_lift; eauto|].
  constructor; auto.
Qed.

Lemma operand_alloc f0 f p x n b n' : PI f0 p -> ext (next_id p) f0 f -> next_id p <= n ->
  operand p x n = OK (b, n') -> alloc f n b n'.
Proof.
  intros H E L Q. unfold operand in Q. destruct x as [i|l].
  - destruct (get p (Z.to_nat i)) as [o|] eqn:G; [|discriminate]. inversion Q; subst.
    apply alloc_refl. eapply good_mono; eauto. eapply PI_get; eauto.
  - destruct l as [|s [|? ?]]; try discriminate. inversion Q as [Q1].
    pose proof (parse_alloc f (str_of_sx s) n) as A. rewrite Q1 in A. exact A.
Qed.

Section Ops.
Variables (p : pool) (args : list sx) (p' : pool) (idxs : list nat) (e : sx).
Hypothesis Hinv : pool_inv p.

Ltac start H := apply pool_inv_PI in Hinv; destruct Hinv as (f & HP); intros H.
Ltac by_store H := eapply store_good_inv; [eassumption| |exact H].
Ltac by_store_alloc H := eapply store_alloc_inv; [eassumption| |exact H].
Ltac by_many H := eapply store_many_inv; [eassumption| |exact H].
Ltac got := match goal with HP' : PI _ p, G : get p _ = Some ?o |- _ => pose proof (PI_get _ _ _ _ HP' G) end.

Lemma op_0_inv : op_0 p (next_id p) args = OK (p', idxs, e) -> pool_inv p'.
Proof.
  start H. unfold op_0 in H. crack H. inversion H; subst.
  eapply push_alloc_inv; eauto. eapply construct_alloc; eauto.
Qed.

Lemma op_1_inv : op_1 p (next_id p) args = OK (p', idxs, e) -> pool_inv p'.
Proof.
  start H. unfold op_1 in H. crack H; got; inversion H; subst; eapply push_alloc_inv; eauto.
  match goal with Q : (if ?c then _ else _) = OK _ |- _ => destruct c end.
  - match goal with Q : OK (o_val _, _) = OK _ |- _ => inversion Q; subst end. now apply alloc_refl.
  - eapply do_apply_alloc; eauto.
Qed.

Lemma op_2_inv : op_2 p (next_id p) args = OK (p', idxs, e) -> pool_inv p'.
Proof.
  start H. unfold op_2 in H. crack H; got. by_store_alloc H. eapply do_apply_alloc; eauto.
Qed.

Lemma op_3_inv : op_3 p (next_id p) args = OK (p', idxs, e) -> pool_inv p'.
Proof.
  start H. unfold op_3 in H. crack H; got. by_store H. eapply do_remove_good; eauto.
Qed.

Lemma op_4_inv : op_4 p (next_id p) args = OK (p', idxs, e) -> pool_inv p'.
Proof.
  start H. unfold op_4 in H. crack H; got.
  - by_store H. apply clear_fmt_good.
  - by_store H. apply clear_fmt_good.
Qed.

Lemma op_5_inv : op_5 p (next_id p) args = OK (p', idxs, e) -> pool_inv p'.
Proof. start H. unfold op_5 in H. crack H; got. by_store H. now apply getitem_slice_good. Qed.

Lemma op_6_inv : op_6 p (next_id p) args = OK (p', idxs, e) -> pool_inv p'.
Proof. start H. unfold op_6 in H. crack H; got. by_store H. eapply getitem_int_good; eauto. Qed.

Lemma op_7_inv : op_7 p (next_id p) args = OK (p', idxs, e) -> pool_inv p'.
Proof. start H. unfold op_7 in H. crack H; got. by_store H. now apply getitem_slice_good. Qed.

Lemma add_alloc f a x b n r : PI f p -> good f (next_id p) a ->
  operand p x (next_id p) = OK (b, n) -> iadd a b = OK r -> alloc f (next_id p) r n.
Proof.
  intros HP Ga Ho Hr. destruct (operand_alloc f f p x (next_id p) b n HP (ext_refl _ _) (le_n _) Ho) as (f' & E1 & L1 & Gb).
  exists f'. split; [exact E1|]. split; [exact L1|]. eapply iadd_good; [|exact Gb|exact Hr]. eapply good_mono; eauto.
Qed.

Lemma op_8_inv : op_8 p (next_id p) args = OK (p', idxs, e) -> pool_inv p'.
Proof.
  start H. unfold op_8 in H. crack H; got. by_store_alloc H. unfold add in *. eapply add_alloc; eauto.
Qed.

Lemma op_9_inv : op_9 p (next_id p) args = OK (p', idxs, e) -> pool_inv p'.
Proof.
  start H. unfold op_9 in H. crack H; got. by_store_alloc H. eapply add_alloc; eauto.
Qed.
End Ops.

Lemma fold_err {A B} (F : res A -> B -> res A) (HF : forall e x, F (Err e) x = Err e) xs e :
  fold_left F xs (Err e) = Err e.
Proof. induction xs as [|x xs IH]; cbn [fold_left]; [reflexivity|]. now rewrite HF. Qed.

Lemma operands_alloc f0 p : PI f0 p -> forall xs f l n vals n',
  ext (next_id p) f0 f -> next_id p <= n -> Forall (good f n) l ->
  fold_left (fun acc x => do (l, n) <- acc; do (v, n') <- operand p x n; OK (l ++ [v], n')) xs (OK (l, n)) = OK (vals, n') ->
  exists f', ext (next_id p) f0 f' /\ n <= n' /\ Forall (good f' n') vals.
Proof.
  intros HP. induction xs as [|x xs IH]; intros f l n vals n' E L G Q; cbn [fold_left] in Q.
  - inversion Q; subst. exists f. auto.
  - cbn [bind] in Q. destruct (operand p x n) as [[v n1]|er] eqn:Ho; cbn [bind] in Q.
    + destruct (operand_alloc f0 f p x n v n1 HP E L Ho) as (f1 & E1 & L1 & Gv).
      destruct (IH f1 (l ++ [v]) n1 vals n') as (f2 & E2 & L2 & G2); auto.
      * eapply ext_trans; eauto.
      * lia.
      * apply Forall_app. split; [|constructor; auto]. rewrite Forall_forall in *. intros a Ha.
        eapply good_mono; eauto.
      * exists f2. split; [exact E2|]. split; [lia|exact G2].
    + rewrite fold_err in Q; [discriminate|]. intros; reflexivity.
Qed.

Lemma applies_alloc fm : forall spans f0 a n a' n', good f0 n a ->
  fold_left (fun acc sp => do (a, n) <- acc;
                           match sp with
                           | L [A s; A e] => do_apply a (form_of_sx fm) (Some s) (Some e) true n
                           | _ => Err TypeError end) spans (OK (a, n)) = OK (a', n') ->
  alloc f0 n a' n'.
Proof.
  induction spans as [|sp spans IH]; intros f0 a n a' n' G Q; cbn [fold_left] in Q.
  - inversion Q; subst. now apply alloc_refl.
  - cbn [bind] in Q.
    match type of Q with fold_left ?F _ ?X = _ => destruct X as [[a1 n1]|er] eqn:E1 end.
    + assert (A1 : alloc f0 n a1 n1).
      { destruct sp as [z|[|[s|?] [|[e0|?] [|? ?]]]]; try discriminate. eapply do_apply_alloc; eauto. }
      destruct A1 as (f1 & X1 & L1 & G1). apply (alloc_trans f0 n n1). exists f1. split; [exact X1|]. split; [exact L1|].
      eapply IH; eauto.
    + rewrite fold_err in Q; [discriminate|]. intros; reflexivity.
Qed.

Lemma removes_good fm f n : forall spans a a', good f n a ->
  fold_left (fun acc sp => do a <- acc;
                           match sp with
                           | L [A s; A e] => do_remove a (optform_of_sx fm) (Some s) (Some e)
                           | _ => Err TypeError end) spans (OK a) = OK a' ->
  good f n a'.
Proof.
  induction spans as [|sp spans IH]; intros a a' G Q; cbn [fold_left] in Q.
  - inversion Q; subst. exact G.
  - cbn [bind] in Q.
    match type of Q with fold_left ?F _ ?X = _ => destruct X as [a1|er] eqn:E1 end.
    + assert (G1 : good f n a1).
      { destruct sp as [z|[|[s|?] [|[e0|?] [|? ?]]]]; try discriminate. eapply do_remove_good; eauto. }
      eapply IH; eauto.
    + rewrite fold_err in Q; [discriminate|]. intros; reflexivity.
Qed.

(* the one operation whose argument is not checked by the model: the new text of a case method *)
Definition case_ok (p : pool) (args : list sx) : Prop :=
  match args with
  | [A i; t; ip] => match get p (Z.to_nat i) with
                    | Some o => length (base (o_val o)) <= length (str_of_sx t)
                    | None => True end
  | _ => True
  end.

Section Ops2.
Variables (p : pool) (args : list sx) (p' : pool) (idxs : list nat) (e : sx).
Hypothesis Hinv : pool_inv p.

Ltac start H := apply pool_inv_PI in Hinv; destruct Hinv as (f & HP); intros H.
Ltac by_store H := eapply store_good_inv; [eassumption| |exact H].
Ltac by_store_alloc H := eapply store_alloc_inv; [eassumption| |exact H].
Ltac by_many H := eapply store_many_inv; [eassumption| |exact H].
Ltac got := match goal with HP' : PI _ p, G : get p _ = Some ?o |- _ => pose proof (PI_get _ _ _ _ HP' G) end.

Lemma op_10_inv : op_10 p (next_id p) args = OK (p', idxs, e) -> pool_inv p'.
Proof.
  start H. unfold op_10 in H. crack H. inversion H; subst.
  match goal with Q : fold_left _ _ _ = OK (?vals, ?n') |- _ =>
    destruct (operands_alloc f p HP _ f [] (next_id p) vals n' (ext_refl _ _) (le_n _) (Forall_nil _) Q)
      as (f' & E1 & L1 & G1) end.
  eapply push_alloc_inv; eauto. exists f'. split; [exact E1|]. split; [exact L1|].
  eapply join_astr_good; eauto.
Qed.

Lemma op_11_inv : op_11 p (next_id p) args = OK (p', idxs, e) -> pool_inv p'.
Proof. start H. unfold op_11 in H. crack H; got; by_store H; now apply pad_good. Qed.

Lemma op_12_inv : op_12 p (next_id p) args = OK (p', idxs, e) -> pool_inv p'.
Proof.
  start H. unfold op_12 in H. crack H; got; by_store_alloc H;
    (eapply replace_alloc; [eassumption| |eassumption]); intros aR HaR; subst.
  match goal with Q : match ?s0 with A _ => _ | L _ => _ end = OK _ |- _ =>
    destruct s0 as [j|[|? [|? ?]]]; try discriminate Q;
    destruct (get p (Z.to_nat j)) as [oj|] eqn:Gj; [|discriminate Q]; inversion Q; subst end.
  exact (PI_get _ _ _ _ HP Gj).
Qed.

Lemma op_13_inv : op_13 p (next_id p) args = OK (p', idxs, e) -> pool_inv p'.
Proof. start H. unfold op_13 in H. crack H; got; by_store H; auto using strip_good. Qed.

Lemma op_14_inv : op_14 p (next_id p) args = OK (p', idxs, e) -> pool_inv p'.
Proof. start H. unfold op_14 in H. crack H; got; by_store H; auto using removeprefix_good. Qed.

Lemma op_15_inv : op_15 p (next_id p) args = OK (p', idxs, e) -> pool_inv p'.
Proof. start H. unfold op_15 in H. crack H; got; by_store H; auto using removesuffix_good. Qed.

Lemma op_16_inv : op_16 p (next_id p) args = OK (p', idxs, e) -> pool_inv p'.
Proof. start H. unfold op_16 in H. crack H; got; by_many H. eapply split_sep_good; eauto. Qed.

Lemma op_17_inv : op_17 p (next_id p) args = OK (p', idxs, e) -> pool_inv p'.
Proof. start H. unfold op_17 in H. crack H; got; by_many H. now apply slices_by_find_good. Qed.

Lemma op_18_inv : op_18 p (next_id p) args = OK (p', idxs, e) -> pool_inv p'.
Proof.
  start H. unfold op_18 in H. crack H; got; by_many H.
  match goal with Q : (if ?c then _ else _) _ ?sep = _ |- _ => destruct c end.
  - match goal with Q : rpartition _ ?sep = _, G0 : good _ _ (o_val _) |- _ =>
      pose proof (rpartition_good _ _ _ sep G0) as G; rewrite Q in G end.
    destruct G as (G1 & G2 & G3). constructor; [assumption|constructor; [assumption|constructor; [assumption|constructor]]].
  - match goal with Q : partition _ ?sep = _, G0 : good _ _ (o_val _) |- _ =>
      pose proof (partition_good _ _ _ sep G0) as G; rewrite Q in G end.
    destruct G as (G1 & G2 & G3). constructor; [assumption|constructor; [assumption|constructor; [assumption|constructor]]].
Qed.

Lemma op_19_inv : op_19 p (next_id p) args = OK (p', idxs, e) -> pool_inv p'.
Proof. start H. unfold op_19 in H. crack H; got; by_store H; auto using assign_good. Qed.

Lemma op_20_inv : case_ok p args -> op_20 p (next_id p) args = OK (p', idxs, e) -> pool_inv p'.
Proof.
  intros Hc. start H. unfold op_20 in H. crack H; got. by_store H. apply case_good; auto.
  cbn [case_ok] in Hc. match goal with G : get p _ = Some _ |- _ => rewrite G in Hc end. exact Hc.
Qed.

Lemma op_21_inv : op_21 p (next_id p) args = OK (p', idxs, e) -> pool_inv p'.
Proof.
  start H. unfold op_21 in H. crack H; got. by_store_alloc H.
  match goal with Q : simplify ?s ?n = (?a, ?n') |- _ =>
    pose proof (simplify_alloc f s n) as A; rewrite Q in A; exact A end.
Qed.

Lemma op_22_inv : op_22 p (next_id p) args = OK (p', idxs, e) -> pool_inv p'.
Proof. start H. unfold op_22 in H. crack H; got. by_store_alloc H. eapply applies_alloc; eauto. Qed.

Lemma op_23_inv : op_23 p (next_id p) args = OK (p', idxs, e) -> pool_inv p'.
Proof. start H. unfold op_23 in H. crack H; got. by_store H. eapply removes_good; eauto. Qed.

Lemma op_24_inv : op_24 p (next_id p) args = OK (p', idxs, e) -> pool_inv p'.
Proof. intros H. unfold op_24 in H. crack H. inversion H; subst. exact Hinv. Qed.
Lemma op_25_inv : op_25 p (next_id p) args = OK (p', idxs, e) -> pool_inv p'.
Proof. intros H. unfold op_25 in H. crack H. inversion H; subst. exact Hinv. Qed.
Lemma op_26_inv : op_26 p (next_id p) args = OK (p', idxs, e) -> pool_inv p'.
Proof. intros H. unfold op_26 in H. crack H; inversion H; subst; exact Hinv. Qed.
Lemma op_27_inv : op_27 p (next_id p) args = OK (p', idxs, e) -> pool_inv p'.
Proof. intros H. unfold op_27 in H. crack H; inversion H; subst; exact Hinv. Qed.

Lemma op_28_inv : op_28 p (next_id p) args = OK (p', idxs, e) -> pool_inv p'.
Proof. start H. unfold op_28 in H. crack H; got; by_many H. now apply iterate_good. Qed.
End Ops2.

(* ====================================================================== *)
(* 11. exec and reachable pools                                            *)
(* ====================================================================== *)
Definition op_ok (p : pool) (op : sx) : Prop :=
  match op with L (A c :: args) => c = 20%Z -> case_ok p args | _ => True end.

Theorem exec_inv p op p' idxs extra :
  pool_inv p -> op_ok p op -> exec p op = OK (p', idxs, extra) -> pool_inv p'.
Proof.
  intros Hinv Hok H. unfold exec in H.
  destruct op as [z|l]; [discriminate H|].
  destruct l as [|[c|l'] args]; try discriminate H. cbn [op_ok] in Hok.
  repeat match type of H with
         | (if (?c =? ?k)%Z then _ else _) = _ =>
             destruct (Z.eqb_spec c k) as [->|_];
             [ first [ apply op_0_inv in H | apply op_1_inv in H | apply op_2_inv in H
                     | apply op_3_inv in H | apply op_4_inv in H | apply op_5_inv in H
                     | apply op_6_inv in H | apply op_7_inv in H | apply op_8_inv in H
                     | apply op_9_inv in H | apply op_10_inv in H | apply op_11_inv in H
                     | apply op_12_inv in H | apply op_13_inv in H | apply op_14_inv in H
                     | apply op_15_inv in H | apply op_16_inv in H | apply op_17_inv in H
                     | apply op_18_inv in H | apply op_19_inv in H | apply op_20_inv in H
                     | apply op_21_inv in H | apply op_22_inv in H | apply op_23_inv in H
                     | apply op_24_inv in H | apply op_25_inv in H | apply op_26_inv in H
                     | apply op_27_inv in H | apply op_28_inv in H ]; auto | ]
         end.
  discriminate H.
Qed.

(* every code but 20 needs no side condition *)
Corollary exec_inv_not_case p op p' idxs extra :
  pool_inv p -> code op <> 20%Z -> exec p op = OK (p', idxs, extra) -> pool_inv p'.
Proof.
  intros Hinv Hc. apply exec_inv; auto. destruct op as [z|[|[c|l'] args]]; cbn [op_ok code] in *; auto.
  intros E. congruence.
Qed.

Lemma empty_pool_inv : pool_inv empty_pool.
Proof. apply pool_inv_PI. exists (fun _ => []). constructor. Qed.

(* histories in which every case-method step supplies a text at least as long as the old one
   (which is all Python's str case methods can produce) *)
Inductive reachable_ok : pool -> Prop :=
| rk_empty : reachable_ok empty_pool
| rk_step p op p' idxs extra :
    reachable_ok p -> op_ok p op -> exec p op = OK (p', idxs, extra) -> reachable_ok p'.

Theorem reachable_ok_inv p : reachable_ok p -> pool_inv p.
Proof. induction 1 as [|p op p' idxs extra _ IH Hok H]; [apply empty_pool_inv|eapply exec_inv; eauto]. Qed.

Lemma reachable_ok_reachable p : reachable_ok p -> reachable p.
Proof. induction 1; [constructor|econstructor; eauto]. Qed.

(* C09: no value of such a pool fails the library's self-check *)
Corollary reachable_ok_self_check p : reachable_ok p ->
  Forall (fun o => strict_ok (tbl (o_val o)) = true) (objs p).
Proof.
  intros H. apply reachable_ok_inv in H as (H & _). rewrite Forall_forall in *. intros o Ho. apply (H o Ho).
Qed.

Lemma step_out_ok p op : reachable_ok p -> op_ok p op -> reachable_ok (fst (step_out p op)).
Proof.
  intros H Hok. unfold step_out. destruct (exec p op) as [[[p' idxs] extra]|er] eqn:E; cbn [fst]; auto.
  eapply rk_step; eauto.
Qed.

(* ---------- WFv against the invariant of PadProofs, and WFv-only corollaries ---------- *)
Lemma srok_nil_inv rems : srok rems [] = true -> rems = [].
Proof. destruct rems as [|x r]; [reflexivity|]. rewrite srok_cons, in_ref_nil. discriminate. Qed.

Theorem WFv_wf s : WFv s -> PadProofs.wf s.
Proof.
  intros (Hs & Hk & Hst & Hnd & Hf). split; [exact Hs|]. split; [exact Hk|]. split; [exact Hf|].
  intros p0 G. pose proof (strict_point (tbl s) Hs [] 0 p0 Hst G) as Q.
  replace (tlt 0 (tbl s)) with (@nil (nat * point)) in Q; [now apply srok_nil_inv|].
  symmetry. unfold tlt. apply filter_all_false. intros kp _. reflexivity.
Qed.
(* the converse needs the two components PadProofs.wf does not mention *)
Theorem wf_WFv s : PadProofs.wf s -> strict_ok (tbl s) = true -> nodup_active (tbl s) -> WFv s.
Proof. intros (Hs & Hk & Hf & _) Hst Hnd. repeat split; auto. Qed.

Theorem strip_WFv s chars dl dr : WFv s -> WFv (strip s chars dl dr).
Proof. intros W. unfold strip. destruct (strip_bounds _ _ _ _) as [l r]. now apply getitem_slice_WFv. Qed.
Theorem partition_at_WFv s idx seplen : WFv s ->
  let '(x, y, z) := partition_at s idx seplen in WFv x /\ WFv y /\ WFv z.
Proof.
  intros W. unfold partition_at. destruct idx as [i|].
  - split; [|split]; now apply getitem_slice_WFv.
  - split; [exact W|split; apply WFv_empty].
Qed.
Theorem partition_WFv s sep : WFv s -> let '(x, y, z) := partition s sep in WFv x /\ WFv y /\ WFv z.
Proof. intros W. unfold partition. now apply partition_at_WFv. Qed.
Theorem rpartition_WFv s sep : WFv s -> let '(x, y, z) := rpartition s sep in WFv x /\ WFv y /\ WFv z.
Proof. intros W. unfold rpartition. now apply partition_at_WFv. Qed.
Theorem removeprefix_WFv s pre : WFv s -> WFv (removeprefix s pre).
Proof. intros W. unfold removeprefix. destruct (starts_with _ _); auto using getitem_slice_WFv. Qed.
Theorem removesuffix_WFv s suf : WFv s -> WFv (removesuffix s suf).
Proof. intros W. unfold removesuffix. destruct (_ || _); auto using getitem_slice_WFv. Qed.
Theorem split_sep_WFv s sep m right l : WFv s -> split_sep s sep m right = OK l -> Forall WFv l.
Proof.
  intros W. unfold split_sep. destruct (is_nil sep); [discriminate|]. intros E; inversion E; subst. clear E.
  generalize 0 at 1. induction ((if right then py_rsplit else py_split) (base s) sep m) as [|pc r IH]; intros idx;
    cbn [slices_cumulative]; constructor; auto using getitem_slice_WFv.
Qed.
Theorem slices_by_find_WFv s : WFv s -> forall pieces idx, Forall WFv (slices_by_find s pieces idx).
Proof.
  intros W. induction pieces as [|pc r IH]; intros idx; cbn [slices_by_find]; [constructor|].
  destruct (find_from _ _ _); constructor; auto using getitem_slice_WFv.
Qed.

(* ====================================================================== *)
(* 12. Examples: the hypotheses are satisfiable, and the one that is needed *)
(* ====================================================================== *)
Module InvExamples.
Import ExecProofs.Examples.

Definition b1 := mkS 0 [49%N].                 (* "1"  *)
Definition r1 := mkS 1 [51%N; 49%N].           (* "31" *)
Definition ex_v : astr :=
  mkA [97; 98; 99; 100]%N [(0, mkP [b1] []); (1, mkP [r1] []); (3, mkP [] [r1]); (4, mkP [] [b1])].
Definition ex_f (i : nat) : str := match i with 0 => [49%N] | _ => [51%N; 49%N] end.

Example ex_v_WFv : WFv ex_v.
Proof. apply wfb_sound. reflexivity. Qed.
Example ex_v_good : good ex_f 2 ex_v.
Proof.
  split; [exact ex_v_WFv|]. split.
  - intros kp x Hk Hx. cbn in Hk. repeat (destruct Hk as [<-|Hk]; [cbn in Hx; repeat (destruct Hx as [<-|Hx]; [cbn; lia|]); destruct Hx|]). destruct Hk.
  - intros kp x Hk Hx. cbn in Hk. repeat (destruct Hk as [<-|Hk]; [cbn in Hx; repeat (destruct Hx as [<-|Hx]; [reflexivity|]); destruct Hx|]). destruct Hk.
Qed.

(* value level *)
Example ex_slice := getitem_slice_good ex_f 2 ex_v (Some 1%Z) (Some (-1)%Z) ex_v_good.
Example ex_slice_value : tbl (getitem_slice ex_v (Some 1%Z) (Some (-1)%Z)) = [(0, mkP [b1; r1] []); (2, mkP [] [r1; b1])].
Proof. reflexivity. Qed.
Example ex_apply := apply_fresh_good ex_f 2 ex_v [[52%N]; [57%N]] (Some 1%Z) (Some 3%Z) false ex_v_good.
Example ex_apply_value :
  tbl (apply_fmt ex_v (fst (fresh [[52%N]; [57%N]] 2)) (Some 1%Z) (Some 3%Z) false)
  = [(0, mkP [b1] []); (1, mkP [mkS 2 [52%N]; mkS 3 [57%N]; b1; r1] [b1]);
     (3, mkP [] [mkS 2 [52%N]; mkS 3 [57%N]; r1]); (4, mkP [] [b1])].
Proof. reflexivity. Qed.
Example ex_remove := remove_fmt_good ex_f 2 ex_v (Some [[49%N]]) (Some 1%Z) (Some 2%Z) ex_v_good.
Example ex_remove_value :
  tbl (remove_fmt ex_v (Some [[49%N]]) (Some 1%Z) (Some 2%Z))
  = [(0, mkP [b1] []); (1, mkP [r1] [b1]); (2, mkP [b1; r1] [r1]); (3, mkP [] [r1]); (4, mkP [] [b1])].
Proof. reflexivity. Qed.
Example ex_center := pad_good ex_f 2 ex_v 2 9 32%N true ex_v_good.
Example ex_center_value : tbl (center ex_v 9 32%N true) = [(0, mkP [b1] []); (3, mkP [r1] []); (5, mkP [] [r1]); (9, mkP [] [b1])].
Proof. reflexivity. Qed.
Example ex_assign_short := assign_good ex_f 2 ex_v [120; 121]%N ex_v_good.
Example ex_assign_value : tbl (assign ex_v [120; 121]%N) = [(0, mkP [b1] []); (1, mkP [r1] []); (2, mkP [] [b1; r1])].
Proof. reflexivity. Qed.
Example ex_iadd : exists c, iadd ex_v (getitem_slice ex_v (Some 1%Z) None) = OK c /\ good ex_f 2 c.
Proof.
  destruct (iadd_total ex_v (getitem_slice ex_v (Some 1%Z) None)) as (c & E);
    [exact ex_v_WFv|apply getitem_slice_WFv, ex_v_WFv|].
  exists c. split; [exact E|]. eapply iadd_good; [exact ex_v_good| |exact E]. apply getitem_slice_good, ex_v_good.
Qed.
(* "\x1b[1ma\x1b[31mb\x1b[mc" *)
Definition ex_w : str := [27; 91; 49; 109; 97; 27; 91; 51; 49; 109; 98; 27; 91; 109; 99]%N.
Example ex_parse_value : parse ex_w 5 = (mkA [97; 98; 99]%N [(0, mkP [mkS 6 [49%N]] []); (1, mkP [mkS 8 [51%N; 49%N]] []);
                                                        (2, mkP [] [mkS 6 [49%N]; mkS 8 [51%N; 49%N]])], 10).
Proof. vm_compute. reflexivity. Qed.
Example ex_parse := parse_alloc ex_f ex_w 5.

Example ex_split : exists l, split_sep ex_v [98]%N (-1) false = OK l /\ Forall (good ex_f 2) l /\ length l = 2.
Proof.
  eexists. split; [vm_compute; reflexivity|]. split; [|reflexivity].
  apply (split_sep_good ex_f 2 ex_v [98]%N (-1) false); [exact ex_v_good|vm_compute; reflexivity].
Qed.
Example ex_join : exists c, join_astr [ex_v; getitem_slice ex_v (Some 1%Z) (Some 2%Z); ex_v] = OK c /\ good ex_f 2 c
                            /\ length (base c) = 9.
Proof.
  eexists. split; [vm_compute; reflexivity|]. split; [|reflexivity].
  apply (join_astr_good ex_f 2 [ex_v; getitem_slice ex_v (Some 1%Z) (Some 2%Z); ex_v]); [|vm_compute; reflexivity].
  constructor; [exact ex_v_good|constructor; [apply getitem_slice_good, ex_v_good|constructor; [exact ex_v_good|constructor]]].
Qed.
Example ex_wf := WFv_wf ex_v ex_v_WFv.

(* pool level: a history that uses a constructor, an in-place strip, concatenation, a case method with a
   text of the same length, apply, simplify and remove *)
Definition case_same : sx := L [A 20; A 0; sx_of_str [65; 66]%N; A 1].
Definition f_red : sx := L [A 1; sx_of_str [114; 101; 100]%N].
Definition apply_red : sx := L [A 2; A 0; f_red; L [A 1]; L []; A 0].
Definition iadd_01 : sx := L [A 9; A 0; A 1].
Definition simplify_0 : sx := L [A 21; A 0].
Definition remove_0 : sx := L [A 3; A 0; L []; L [A 1]; L [A 3]].
Definition ex_history : list sx := [new_string; new_str; strip_ip 0 1; case_same; apply_red; iadd_01; simplify_0; remove_0].

Example ex_history_ok : reachable_ok (run_pool empty_pool ex_history).
Proof.
  unfold run_pool, ex_history. cbn [fold_left].
  repeat (apply step_out_ok; [|try (intros Hc; discriminate Hc)]); [apply rk_empty|].
  intros _. vm_compute. lia.
Qed.
Example ex_history_values :
  map (fun o => (base (o_val o), strict_ok (tbl (o_val o)))) (objs (run_pool empty_pool ex_history))
  = [([65; 66; 97; 98; 32]%N, true); ([97; 98; 32]%N, true)].
Proof. vm_compute. reflexivity. Qed.
Example ex_history_inv := reachable_ok_inv _ ex_history_ok.

(* the side condition on code 20 is needed IN THE MODEL: op_20 accepts any text.  With a shorter text
   the stop marker stays beyond the end; remove_formatting() then deletes the start marker only and
   the self-check fails on the result.  (Python's str case methods never shorten a text, so this
   history has no counterpart in the library.) *)
Definition case_short : sx := L [A 20; A 0; sx_of_str [97]%N; A 1].
Definition remove_all : sx := L [A 3; A 0; L []; L []; L []].
Example case_short_reachable : reachable (run_pool empty_pool [new_string; case_short; remove_all]).
Proof. apply run_pool_reachable. constructor. Qed.
Example case_short_breaks_self_check :
  map (fun o => (base (o_val o), tbl (o_val o), strict_ok (tbl (o_val o))))
      (objs (run_pool empty_pool [new_string; case_short; remove_all]))
  = [([97%N], [(3, mkP [] [mkS 0 [49%N]])], false)].
Proof. vm_compute. reflexivity. Qed.
Example case_short_not_ok : ~ op_ok (run_pool empty_pool [new_string]) case_short.
Proof. intros H. cbn [op_ok case_short] in H. specialize (H eq_refl). vm_compute in H. lia. Qed.
End InvExamples.

Print Assumptions slice_core_WFv.
Print Assumptions apply_fresh_good.
Print Assumptions remove_fmt_good.
Print Assumptions pad_good.
Print Assumptions assign_good.
Print Assumptions case_good.
Print Assumptions iadd_good.
Print Assumptions join_astr_good.
Print Assumptions parse_alloc.
Print Assumptions parse_ids.
Print Assumptions construct_alloc.
Print Assumptions do_apply_alloc.
Print Assumptions do_remove_good.
Print Assumptions replace_alloc.
Print Assumptions split_sep_good.
Print Assumptions WFv_wf.
Print Assumptions exec_inv.
Print Assumptions reachable_ok_inv.
Print Assumptions reachable_ok_self_check.
