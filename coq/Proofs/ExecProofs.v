(* Pool-level facts about [exec] (Model/Exec.v): frame, non-mutation, payload invariant,
   validity of returned indices, in-place vs copying. *)
From AS Require Import Base Effects.
From AS.Spec Require Import Terminal.
From AS.Model Require Import Sgr Tokenizer Table Ops Render Scrub Parse StrOps FormatSpec Exec.
From AS.Proofs Require Import TableProofs SliceProofs.

(* ------------------------------------------------------------------ *)
(* list facts                                                          *)
(* ------------------------------------------------------------------ *)
Lemma set_nth_length {A} i (v : A) l : length (set_nth i v l) = length l.
Proof.
  revert i; induction l as [|x l IH]; intros [|i]; cbn [set_nth length]; auto.
Qed.

Lemma nth_error_set_nth_other {A} i (v : A) l j :
  j <> i -> nth_error (set_nth i v l) j = nth_error l j.
Proof.
  revert i j; induction l as [|x l IH]; intros [|i] [|j] Hj; cbn [set_nth nth_error]; auto;
    try congruence.
Qed.

Lemma nth_error_set_nth_same {A} i (v : A) l :
  i < length l -> nth_error (set_nth i v l) i = Some v.
Proof.
  revert i; induction l as [|x l IH]; intros [|i] Hi; cbn [set_nth nth_error length] in *; auto; try lia.
  apply IH. lia.
Qed.

Lemma nth_error_app_old {A} (l m : list A) j :
  j < length l -> nth_error (l ++ m) j = nth_error l j.
Proof. intros Hj. now apply nth_error_app1. Qed.

Lemma nth_error_snoc_old {A} (l : list A) x j :
  j < length l -> nth_error (l ++ [x]) j = nth_error l j.
Proof. apply nth_error_app_old. Qed.

Lemma Forall_set_nth {A} (P : A -> Prop) i v l :
  Forall P l -> P v -> Forall P (set_nth i v l).
Proof.
  intros Hl Hv. revert i; induction Hl as [|x l Hx Hl IH]; intros [|i]; cbn [set_nth]; auto.
Qed.

Lemma Forall_seq_lt a n : Forall (fun i => i < a + n) (seq a n).
Proof.
  apply Forall_forall. intros i Hi. apply in_seq in Hi. lia.
Qed.

(* ------------------------------------------------------------------ *)
(* the receiver of an operation, and whether it may be written         *)
(* ------------------------------------------------------------------ *)
Definition memz (c : Z) (l : list Z) : bool := existsb (Z.eqb c) l.

(* receiver index: first integer argument, except for Pad (code 11) where the first argument
   selects ljust / rjust / center and the receiver is the second *)
Definition target_args (c : Z) (args : list sx) : nat :=
  match args with
  | A x :: rest =>
    if (c =? 11)%Z then match rest with A y :: _ => Z.to_nat y | _ => 0 end
    else Z.to_nat x
  | _ => 0
  end.
Definition target (op : sx) : nat :=
  match op with L (A c :: args) => target_args c args | _ => 0 end.
Definition code (op : sx) : Z :=
  match op with L (A c :: _) => c | _ => (-1)%Z end.

Definition always_inplace : list Z := [2; 3; 4; 9; 19; 21; 22; 23]%Z.
Definition flagged : list Z := [7; 11; 12; 13; 14; 15; 20]%Z.
Definition pure_codes : list Z := [0; 1; 5; 6; 8; 10; 16; 17; 18; 24; 25; 26; 27; 28]%Z.

(* position of the in-place flag among the arguments *)
Definition flag_pos (c : Z) : nat :=
  if (c =? 7)%Z then 3
  else if memz c [11; 12; 13]%Z then 4
  else 2.
Definition flag_args (c : Z) (args : list sx) : bool :=
  match nth_error args (flag_pos c) with Some x => bool_of_sx x | None => false end.
Definition flag (op : sx) : bool :=
  match op with L (A c :: args) => flag_args c args | _ => false end.

(* the only index the operation may overwrite, if any *)
Definition mut_target_args (c : Z) (args : list sx) : option nat :=
  if memz c always_inplace then Some (target_args c args)
  else if memz c flagged then (if flag_args c args then Some (target_args c args) else None)
  else None.
Definition mut_target (op : sx) : option nat :=
  match op with L (A c :: args) => mut_target_args c args | _ => None end.

(* ------------------------------------------------------------------ *)
(* payload invariant                                                   *)
(* ------------------------------------------------------------------ *)
Definition payload_ok (o : obj) : Prop :=
  o_payload o = match o_kind o with KStr => render (o_val o) | KString => [] end.

Lemma mk_obj_payload_ok k a : payload_ok (mk_obj k a).
Proof. destruct k; reflexivity. Qed.

(* ------------------------------------------------------------------ *)
(* the three shapes a successful step can have                         *)
(* ------------------------------------------------------------------ *)
Inductive shape (p : pool) : option nat -> pool -> list nat -> Prop :=
| sh_same t : shape p t p []
| sh_put i o a n :
    get p i = Some o -> o_kind o = KString ->
    shape p (Some i) (mkPool (set_nth i (mk_obj KString a) (objs p)) n) [i]
| sh_push t k l n :
    shape p t (mkPool (objs p ++ map (mk_obj k) l) n) (seq (length (objs p)) (length l)).

Lemma shape_weaken p t p' idxs : shape p None p' idxs -> shape p t p' idxs.
Proof. intros H. inversion H; subst; constructor. Qed.

Lemma store_shape p q i o b a p' idxs e :
  objs q = objs p -> get p i = Some o ->
  store q i o b a = OK (p', idxs, e) ->
  shape p (if b then Some i else None) p' idxs.
Proof.
  intros Hq Hg H. unfold store, put, push in H. rewrite !Hq in H.
  destruct (o_kind o) eqn:Ek; [destruct b|]; inversion H; subst; clear H.
  - econstructor; eauto.
  - apply (sh_push p None KString [a]).
  - apply shape_weaken. apply (sh_push p None KStr [a]).
Qed.

Lemma fold_push_spec k l : forall q acc,
  fold_left (fun '(p, acc) a => let '(p', j) := push p (mk_obj k a) in (p', acc ++ [j])) l (q, acc)
  = (mkPool (objs q ++ map (mk_obj k) l) (next_id q), acc ++ seq (length (objs q)) (length l)).
Proof.
  induction l as [|a l IH]; intros q acc.
  - cbn [fold_left map length seq]. rewrite !app_nil_r. now destruct q.
  - cbn [fold_left]. unfold push at 2. rewrite IH. cbn [objs next_id map length seq].
    rewrite <- !app_assoc. cbn [app]. rewrite app_length. cbn [length].
    now replace (length (objs q) + 1) with (S (length (objs q))) by lia.
Qed.

Lemma store_many_shape p t k l p' idxs e :
  store_many p k l = OK (p', idxs, e) -> shape p t p' idxs.
Proof.
  unfold store_many. rewrite fold_push_spec. intros H. inversion H; subst. cbn [app]. constructor.
Qed.

Lemma push_shape p t n k a p' j :
  push (with_id p n) (mk_obj k a) = (p', j) -> shape p t p' [j].
Proof.
  unfold push, with_id. cbn [objs next_id]. intros H. inversion H; subst.
  apply (sh_push p t k [a]).
Qed.

Lemma objs_with_id p n : objs (with_id p n) = objs p.
Proof. reflexivity. Qed.

(* ------------------------------------------------------------------ *)
(* one lemma per operation                                             *)
(* ------------------------------------------------------------------ *)
Ltac crack H :=
  repeat (cbv beta iota in H;
          match type of H with
          | Err _ = OK _ => discriminate H
          | bind _ _ = _ => unfold bind at 1 in H
          | (match ?x with _ => _ end) = _ =>
              (is_var x; destruct x) || destruct x eqn:?
          end).

Ltac finish H :=
  first
    [ eapply store_shape in H; [exact H | reflexivity | eassumption]
    | eapply store_many_shape in H; exact H
    | inversion H; subst; eapply push_shape; eassumption
    | inversion H; subst; constructor ].

Lemma op_0_shape p args p' idxs e :
  op_0 p (next_id p) args = OK (p', idxs, e) -> shape p (mut_target_args 0 args) p' idxs.
Proof.
  intros H. unfold op_0 in H. crack H. inversion H; subst. eapply push_shape; eauto.
Qed.

Lemma op_1_shape p args p' idxs e :
  op_1 p (next_id p) args = OK (p', idxs, e) -> shape p (mut_target_args 1 args) p' idxs.
Proof.
  intros H. unfold op_1 in H. crack H; finish H.
Qed.

Lemma op_2_shape p args p' idxs e :
  op_2 p (next_id p) args = OK (p', idxs, e) -> shape p (mut_target_args 2 args) p' idxs.
Proof.
  intros H. unfold op_2 in H. crack H; finish H.
Qed.

Lemma op_3_shape p args p' idxs e :
  op_3 p (next_id p) args = OK (p', idxs, e) -> shape p (mut_target_args 3 args) p' idxs.
Proof.
  intros H. unfold op_3 in H. crack H; finish H.
Qed.

Lemma op_4_shape p args p' idxs e :
  op_4 p (next_id p) args = OK (p', idxs, e) -> shape p (mut_target_args 4 args) p' idxs.
Proof.
  intros H. unfold op_4 in H. crack H; finish H.
Qed.

Lemma op_5_shape p args p' idxs e :
  op_5 p (next_id p) args = OK (p', idxs, e) -> shape p (mut_target_args 5 args) p' idxs.
Proof.
  intros H. unfold op_5 in H. crack H; finish H.
Qed.

Lemma op_6_shape p args p' idxs e :
  op_6 p (next_id p) args = OK (p', idxs, e) -> shape p (mut_target_args 6 args) p' idxs.
Proof.
  intros H. unfold op_6 in H. crack H; finish H.
Qed.

Lemma op_7_shape p args p' idxs e :
  op_7 p (next_id p) args = OK (p', idxs, e) -> shape p (mut_target_args 7 args) p' idxs.
Proof.
  intros H. unfold op_7 in H. crack H; finish H.
Qed.

Lemma op_8_shape p args p' idxs e :
  op_8 p (next_id p) args = OK (p', idxs, e) -> shape p (mut_target_args 8 args) p' idxs.
Proof.
  intros H. unfold op_8 in H. crack H; finish H.
Qed.

Lemma op_9_shape p args p' idxs e :
  op_9 p (next_id p) args = OK (p', idxs, e) -> shape p (mut_target_args 9 args) p' idxs.
Proof.
  intros H. unfold op_9 in H. crack H; finish H.
Qed.

Lemma op_10_shape p args p' idxs e :
  op_10 p (next_id p) args = OK (p', idxs, e) -> shape p (mut_target_args 10 args) p' idxs.
Proof.
  intros H. unfold op_10 in H. crack H; finish H.
Qed.

Lemma op_11_shape p args p' idxs e :
  op_11 p (next_id p) args = OK (p', idxs, e) -> shape p (mut_target_args 11 args) p' idxs.
Proof.
  intros H. unfold op_11 in H. crack H; finish H.
Qed.

Lemma op_12_shape p args p' idxs e :
  op_12 p (next_id p) args = OK (p', idxs, e) -> shape p (mut_target_args 12 args) p' idxs.
Proof.
  intros H. unfold op_12 in H. crack H; finish H.
Qed.

Lemma mt13 i c dl dr ip :
  mut_target_args 13 [A i; c; dl; dr; ip] = if bool_of_sx ip then Some (Z.to_nat i) else None.
Proof. reflexivity. Qed.

Lemma op_13_shape p args p' idxs e :
  op_13 p (next_id p) args = OK (p', idxs, e) -> shape p (mut_target_args 13 args) p' idxs.
Proof.
  intros H. unfold op_13 in H. crack H.
  - apply andb_true_iff in Heqb as [Hip _].
    eapply store_shape in H; [|reflexivity|eassumption].
    rewrite mt13, Hip. exact H.
  - finish H.
Qed.

Lemma op_14_shape p args p' idxs e :
  op_14 p (next_id p) args = OK (p', idxs, e) -> shape p (mut_target_args 14 args) p' idxs.
Proof.
  intros H. unfold op_14 in H. crack H; finish H.
Qed.

Lemma op_15_shape p args p' idxs e :
  op_15 p (next_id p) args = OK (p', idxs, e) -> shape p (mut_target_args 15 args) p' idxs.
Proof.
  intros H. unfold op_15 in H. crack H; finish H.
Qed.

Lemma op_16_shape p args p' idxs e :
  op_16 p (next_id p) args = OK (p', idxs, e) -> shape p (mut_target_args 16 args) p' idxs.
Proof.
  intros H. unfold op_16 in H. crack H; finish H.
Qed.

Lemma op_17_shape p args p' idxs e :
  op_17 p (next_id p) args = OK (p', idxs, e) -> shape p (mut_target_args 17 args) p' idxs.
Proof.
  intros H. unfold op_17 in H. crack H; finish H.
Qed.

Lemma op_18_shape p args p' idxs e :
  op_18 p (next_id p) args = OK (p', idxs, e) -> shape p (mut_target_args 18 args) p' idxs.
Proof.
  intros H. unfold op_18 in H. crack H; finish H.
Qed.

Lemma op_19_shape p args p' idxs e :
  op_19 p (next_id p) args = OK (p', idxs, e) -> shape p (mut_target_args 19 args) p' idxs.
Proof.
  intros H. unfold op_19 in H. crack H; finish H.
Qed.

Lemma op_20_shape p args p' idxs e :
  op_20 p (next_id p) args = OK (p', idxs, e) -> shape p (mut_target_args 20 args) p' idxs.
Proof.
  intros H. unfold op_20 in H. crack H; finish H.
Qed.

Lemma op_21_shape p args p' idxs e :
  op_21 p (next_id p) args = OK (p', idxs, e) -> shape p (mut_target_args 21 args) p' idxs.
Proof.
  intros H. unfold op_21 in H. crack H; finish H.
Qed.

Lemma op_22_shape p args p' idxs e :
  op_22 p (next_id p) args = OK (p', idxs, e) -> shape p (mut_target_args 22 args) p' idxs.
Proof.
  intros H. unfold op_22 in H. crack H; finish H.
Qed.

Lemma op_23_shape p args p' idxs e :
  op_23 p (next_id p) args = OK (p', idxs, e) -> shape p (mut_target_args 23 args) p' idxs.
Proof.
  intros H. unfold op_23 in H. crack H; finish H.
Qed.

Lemma op_24_shape p args p' idxs e :
  op_24 p (next_id p) args = OK (p', idxs, e) -> shape p (mut_target_args 24 args) p' idxs.
Proof.
  intros H. unfold op_24 in H. crack H; finish H.
Qed.

Lemma op_25_shape p args p' idxs e :
  op_25 p (next_id p) args = OK (p', idxs, e) -> shape p (mut_target_args 25 args) p' idxs.
Proof.
  intros H. unfold op_25 in H. crack H; finish H.
Qed.

Lemma op_26_shape p args p' idxs e :
  op_26 p (next_id p) args = OK (p', idxs, e) -> shape p (mut_target_args 26 args) p' idxs.
Proof.
  intros H. unfold op_26 in H. crack H; finish H.
Qed.

Lemma op_27_shape p args p' idxs e :
  op_27 p (next_id p) args = OK (p', idxs, e) -> shape p (mut_target_args 27 args) p' idxs.
Proof.
  intros H. unfold op_27 in H. crack H; finish H.
Qed.

Lemma op_28_shape p args p' idxs e :
  op_28 p (next_id p) args = OK (p', idxs, e) -> shape p (mut_target_args 28 args) p' idxs.
Proof.
  intros H. unfold op_28 in H. crack H; finish H.
Qed.

(* ------------------------------------------------------------------ *)
(* exec                                                                *)
(* ------------------------------------------------------------------ *)
Theorem exec_shape p op p' idxs e :
  exec p op = OK (p', idxs, e) -> shape p (mut_target op) p' idxs.
Proof.
  intros H. unfold exec in H.
  destruct op as [z|l]; [discriminate H|].
  destruct l as [|[c|l'] args]; try discriminate H.
  cbn [mut_target].
  repeat match type of H with
         | (if (?c =? ?k)%Z then _ else _) = _ =>
             destruct (Z.eqb_spec c k) as [->|_];
             [ first [ apply op_0_shape in H | apply op_1_shape in H | apply op_2_shape in H
                     | apply op_3_shape in H | apply op_4_shape in H | apply op_5_shape in H
                     | apply op_6_shape in H | apply op_7_shape in H | apply op_8_shape in H
                     | apply op_9_shape in H | apply op_10_shape in H | apply op_11_shape in H
                     | apply op_12_shape in H | apply op_13_shape in H | apply op_14_shape in H
                     | apply op_15_shape in H | apply op_16_shape in H | apply op_17_shape in H
                     | apply op_18_shape in H | apply op_19_shape in H | apply op_20_shape in H
                     | apply op_21_shape in H | apply op_22_shape in H | apply op_23_shape in H
                     | apply op_24_shape in H | apply op_25_shape in H | apply op_26_shape in H
                     | apply op_27_shape in H | apply op_28_shape in H ]; exact H | ]
         end.
  discriminate H.
Qed.

(* ---------- consequences of a shape ---------- *)
Lemma shape_length p t p' idxs : shape p t p' idxs -> length (objs p) <= length (objs p').
Proof.
  intros H; inversion H; subst; cbn [objs].
  - lia.
  - rewrite set_nth_length. lia.
  - rewrite app_length. lia.
Qed.

Lemma shape_frame p t p' idxs :
  shape p t p' idxs ->
  forall j, j < length (objs p) -> Some j <> t -> nth_error (objs p') j = nth_error (objs p) j.
Proof.
  intros H j Hj Hne; inversion H; subst; cbn [objs].
  - reflexivity.
  - apply nth_error_set_nth_other. congruence.
  - now apply nth_error_app_old.
Qed.

(* a write happens only at an AnsiString receiver *)
Lemma shape_write p t p' idxs j :
  shape p t p' idxs -> j < length (objs p) ->
  nth_error (objs p') j <> nth_error (objs p) j ->
  t = Some j /\ exists o, get p j = Some o /\ o_kind o = KString.
Proof.
  intros H Hj Hne; inversion H; subst; cbn [objs] in Hne.
  - congruence.
  - destruct (Nat.eq_dec j i) as [->|Hji].
    + split; eauto.
    + exfalso. apply Hne. now apply nth_error_set_nth_other.
  - exfalso. apply Hne. now apply nth_error_app_old.
Qed.

Lemma shape_payload p t p' idxs :
  shape p t p' idxs -> Forall payload_ok (objs p) -> Forall payload_ok (objs p').
Proof.
  intros H Hp; inversion H; subst; cbn [objs].
  - exact Hp.
  - apply Forall_set_nth; auto using mk_obj_payload_ok.
  - apply Forall_app. split; auto.
    apply Forall_forall. intros x Hx. apply in_map_iff in Hx as (a & <- & _). apply mk_obj_payload_ok.
Qed.

Lemma shape_idxs p t p' idxs :
  shape p t p' idxs -> Forall (fun i => i < length (objs p')) idxs.
Proof.
  intros H; inversion H; subst; cbn [objs].
  - constructor.
  - constructor; [|constructor]. rewrite set_nth_length.
    apply nth_error_Some. unfold get in *. congruence.
  - rewrite app_length, map_length. apply Forall_seq_lt.
Qed.

(* ---------- 1. frame ---------- *)
Theorem exec_frame p op p' idxs extra :
  exec p op = OK (p', idxs, extra) ->
  length (objs p) <= length (objs p') /\
  forall j, j < length (objs p) -> j <> target op -> nth_error (objs p') j = nth_error (objs p) j.
Proof.
  intros H. apply exec_shape in H. split.
  - eapply shape_length; eauto.
  - intros j Hj Hne. eapply shape_frame; eauto.
    intros Ht. apply Hne.
    destruct op as [z|[|[c|l'] args]]; cbn [mut_target target] in *; try discriminate Ht.
    unfold mut_target_args in Ht.
    destruct (memz c always_inplace); [congruence|].
    destruct (memz c flagged); [|discriminate Ht].
    destruct (flag_args c args); [congruence|discriminate Ht].
Qed.

(* ---------- 2. operations that write nothing ---------- *)
(* the sharper frame: the only index that can be written is [mut_target op], which is [None]
   for the pure codes and for a flagged code whose in-place flag is false; and even then only
   if the receiver is an AnsiString *)
Theorem exec_frame_strong p op p' idxs extra :
  exec p op = OK (p', idxs, extra) ->
  forall j, j < length (objs p) ->
    nth_error (objs p') j <> nth_error (objs p) j ->
    mut_target op = Some j /\ j = target op /\ exists o, get p j = Some o /\ o_kind o = KString.
Proof.
  intros H j Hj Hne. apply exec_shape in H.
  destruct (shape_write _ _ _ _ _ H Hj Hne) as [Ht Ho]. split; [exact Ht|]. split; [|exact Ho].
  destruct op as [z|[|[c|l'] args]]; cbn [mut_target target] in *; try discriminate Ht.
  unfold mut_target_args in Ht.
  destruct (memz c always_inplace); [congruence|].
  destruct (memz c flagged); [|discriminate Ht].
  destruct (flag_args c args); [congruence|discriminate Ht].
Qed.

Definition unchanged (p p' : pool) : Prop :=
  forall j, j < length (objs p) -> nth_error (objs p') j = nth_error (objs p) j.

Lemma nth_error_obj_dec (a b : option obj) : a = b \/ a <> b.
Proof.
  assert (Hk : forall x y : kind, {x = y} + {x <> y}) by decide equality.
  assert (Hs : forall x y : setting, {x = y} + {x <> y}).
  { decide equality; [apply (list_eq_dec N.eq_dec)|apply Nat.eq_dec]. }
  assert (Hp : forall x y : point, {x = y} + {x <> y}).
  { decide equality; apply (list_eq_dec Hs). }
  assert (Ha : forall x y : astr, {x = y} + {x <> y}).
  { decide equality; [|apply (list_eq_dec N.eq_dec)].
    apply list_eq_dec. decide equality. apply Nat.eq_dec. }
  assert (Ho : forall x y : obj, {x = y} + {x <> y}).
  { decide equality. apply (list_eq_dec N.eq_dec). }
  destruct a as [a|], b as [b|]; try (right; discriminate); [|now left].
  destruct (Ho a b) as [->|Hn]; [now left|right; congruence].
Qed.

Theorem exec_pure_unchanged p op p' idxs extra :
  exec p op = OK (p', idxs, extra) ->
  memz (code op) pure_codes = true ->
  unchanged p p'.
Proof.
  intros H Hc j Hj.
  destruct (nth_error_obj_dec (nth_error (objs p') j) (nth_error (objs p) j)) as [E|Hne]; [exact E|].
  exfalso. destruct (exec_frame_strong _ _ _ _ _ H j Hj Hne) as (Ht & _).
  destruct op as [z|[|[c|l'] args]]; cbn [mut_target code] in *; try discriminate Ht.
  unfold mut_target_args in Ht.
  unfold memz, pure_codes, always_inplace, flagged, existsb in *.
  repeat match type of Hc with
         | context [(c =? ?k)%Z] => destruct (Z.eqb_spec c k) as [->|_]; [discriminate Ht|]
         end.
  discriminate Hc.
Qed.

Theorem exec_flag_false_unchanged p op p' idxs extra :
  exec p op = OK (p', idxs, extra) ->
  memz (code op) flagged = true -> flag op = false ->
  unchanged p p'.
Proof.
  intros H Hc Hf j Hj.
  destruct (nth_error_obj_dec (nth_error (objs p') j) (nth_error (objs p) j)) as [E|Hne]; [exact E|].
  exfalso. destruct (exec_frame_strong _ _ _ _ _ H j Hj Hne) as (Ht & _).
  destruct op as [z|[|[c|l'] args]]; cbn [mut_target code flag] in *; try discriminate Ht.
  unfold mut_target_args in Ht. rewrite Hc, Hf in Ht.
  destruct (memz c always_inplace) eqn:Ea; [|discriminate Ht].
  unfold memz, always_inplace, flagged, existsb in *.
  repeat match type of Hc with
         | context [(c =? ?k)%Z] => destruct (Z.eqb_spec c k) as [->|_]; [discriminate Ea|]
         end.
  discriminate Hc.
Qed.

Theorem exec_kstr_unchanged p op p' idxs extra o :
  exec p op = OK (p', idxs, extra) ->
  get p (target op) = Some o -> o_kind o = KStr ->
  unchanged p p'.
Proof.
  intros H Hg Hk j Hj.
  destruct (nth_error_obj_dec (nth_error (objs p') j) (nth_error (objs p) j)) as [E|Hne]; [exact E|].
  exfalso. destruct (exec_frame_strong _ _ _ _ _ H j Hj Hne) as (_ & -> & o' & Hg' & Hk').
  congruence.
Qed.

(* ---------- 3. errors ---------- *)
Theorem step_out_err p op e : exec p op = Err e -> fst (step_out p op) = p.
Proof. intros H. unfold step_out. now rewrite H. Qed.

(* ---------- 4. payload invariant ---------- *)
Theorem exec_payload p op p' idxs extra :
  Forall payload_ok (objs p) -> exec p op = OK (p', idxs, extra) -> Forall payload_ok (objs p').
Proof. intros Hp H. apply exec_shape in H. eapply shape_payload; eauto. Qed.

Inductive reachable : pool -> Prop :=
| reach_empty : reachable empty_pool
| reach_step p op p' idxs extra :
    reachable p -> exec p op = OK (p', idxs, extra) -> reachable p'.

Theorem reachable_payload p : reachable p -> Forall payload_ok (objs p).
Proof.
  induction 1 as [|p op p' idxs extra _ IH H].
  - constructor.
  - eapply exec_payload; eauto.
Qed.

(* the pools a history walks through (failed steps leave the pool as it is) *)
Definition run_pool (p : pool) (ops : list sx) : pool :=
  fold_left (fun p op => fst (step_out p op)) ops p.

Lemma step_out_reachable p op : reachable p -> reachable (fst (step_out p op)).
Proof.
  intros Hr. unfold step_out. destruct (exec p op) as [[[p' idxs] extra]|e] eqn:E; cbn [fst]; auto.
  eapply reach_step; eauto.
Qed.

Theorem run_pool_reachable ops : forall p, reachable p -> reachable (run_pool p ops).
Proof.
  induction ops as [|op ops IH]; intros p Hr; cbn [run_pool fold_left]; auto.
  apply IH. now apply step_out_reachable.
Qed.

Theorem history_payload ops : Forall payload_ok (objs (run_pool empty_pool ops)).
Proof. apply reachable_payload, run_pool_reachable, reach_empty. Qed.

(* ---------- 5. returned indices ---------- *)
Theorem exec_idxs_valid p op p' idxs extra :
  exec p op = OK (p', idxs, extra) -> Forall (fun i => i < length (objs p')) idxs.
Proof. intros H. apply exec_shape in H. eapply shape_idxs; eauto. Qed.

(* ------------------------------------------------------------------ *)
(* 6. in place vs copying                                              *)
(* ------------------------------------------------------------------ *)
(* the two results of one flagged operation on an AnsiString receiver [i] of pool [p], run once
   with the in-place flag set and once without: both fail with the same error, or both succeed
   with the same value [v] - written over the receiver (index returned: the receiver's) resp.
   appended as a new object (index returned: the new one); identities are allocated alike *)
Definition ic_rel (p : pool) (i : nat) (rT rF : step_res) : Prop :=
  match rT, rF with
  | Err e1, Err e2 => e1 = e2
  | OK (pT, iT, eT), OK (pF, iF, eF) =>
      exists v n,
        pT = put (with_id p n) i (mk_obj KString v) /\ iT = [i] /\
        pF = fst (push (with_id p n) (mk_obj KString v)) /\ iF = [length (objs p)] /\
        eT = L [] /\ eF = L []
  | _, _ => False
  end.

Lemma store_ic p q i o a :
  objs q = objs p -> o_kind o = KString ->
  ic_rel p i (store q i o true a) (store q i o false a).
Proof.
  intros Hq Hk. unfold store. rewrite Hk. cbn [ic_rel push].
  exists a, (next_id q). unfold put, push, with_id. cbn [objs next_id fst]. rewrite Hq. auto 7.
Qed.

Section InplaceCopy.
Variables (p : pool) (i : Z) (o : obj) (ipT ipF : sx).
Hypothesis Hg : get p (Z.to_nat i) = Some o.
Hypothesis Hk : o_kind o = KString.
Hypothesis HT : bool_of_sx ipT = true.
Hypothesis HF : bool_of_sx ipF = false.

Theorem ic_clip a b :
  ic_rel p (Z.to_nat i) (exec p (L [A 7; A i; a; b; ipT])) (exec p (L [A 7; A i; a; b; ipF])).
Proof.
  change (ic_rel p (Z.to_nat i) (op_7 p (next_id p) [A i; a; b; ipT]) (op_7 p (next_id p) [A i; a; b; ipF])).
  unfold op_7. rewrite Hg, HT, HF. now apply store_ic.
Qed.

Theorem ic_pad which w fill ext :
  ic_rel p (Z.to_nat i) (exec p (L [A 11; A which; A i; A w; fill; ipT; ext]))
                        (exec p (L [A 11; A which; A i; A w; fill; ipF; ext])).
Proof.
  change (ic_rel p (Z.to_nat i) (op_11 p (next_id p) [A which; A i; A w; fill; ipT; ext])
                                (op_11 p (next_id p) [A which; A i; A w; fill; ipF; ext])).
  unfold op_11. rewrite Hg, HT, HF.
  destruct (one_char (str_of_sx fill)) as [c|e]; cbn [bind]; [|exact eq_refl].
  now apply store_ic.
Qed.

Theorem ic_replace old new count :
  ic_rel p (Z.to_nat i) (exec p (L [A 12; A i; old; new; A count; ipT]))
                        (exec p (L [A 12; A i; old; new; A count; ipF])).
Proof.
  change (ic_rel p (Z.to_nat i) (op_12 p (next_id p) [A i; old; new; A count; ipT])
                                (op_12 p (next_id p) [A i; old; new; A count; ipF])).
  unfold op_12. rewrite Hg, HT, HF.
  match goal with |- ic_rel _ _ (bind ?x _) (bind ?x _) => destruct x as [r|e] end;
    cbn [bind]; [|exact eq_refl].
  destruct (replace (o_val o) (str_of_sx old) r count (next_id p)) as [[a n]|e]; cbn [bind]; [|exact eq_refl].
  now apply store_ic.
Qed.

Theorem ic_removeprefix s :
  ic_rel p (Z.to_nat i) (exec p (L [A 14; A i; s; ipT])) (exec p (L [A 14; A i; s; ipF])).
Proof.
  change (ic_rel p (Z.to_nat i) (op_14 p (next_id p) [A i; s; ipT]) (op_14 p (next_id p) [A i; s; ipF])).
  unfold op_14. rewrite Hg, HT, HF. now apply store_ic.
Qed.

Theorem ic_removesuffix s :
  ic_rel p (Z.to_nat i) (exec p (L [A 15; A i; s; ipT])) (exec p (L [A 15; A i; s; ipF])).
Proof.
  change (ic_rel p (Z.to_nat i) (op_15 p (next_id p) [A i; s; ipT]) (op_15 p (next_id p) [A i; s; ipF])).
  unfold op_15. rewrite Hg, HT, HF. now apply store_ic.
Qed.

Theorem ic_case t :
  ic_rel p (Z.to_nat i) (exec p (L [A 20; A i; t; ipT])) (exec p (L [A 20; A i; t; ipF])).
Proof.
  change (ic_rel p (Z.to_nat i) (op_20 p (next_id p) [A i; t; ipT]) (op_20 p (next_id p) [A i; t; ipF])).
  unfold op_20. rewrite Hg, HT, HF. now apply store_ic.
Qed.

(* Strip: in place with nothing to strip keeps the receiver's value as it is, the copying
   form always goes through [strip]; otherwise both store [strip ...] *)
Definition strip_chars (chars : sx) : str :=
  match optstr_of_sx chars with Some c => c | None => AS.Gen.Consts.gen_whitespace_chars end.

Theorem ic_strip chars dl dr :
  let cs := strip_chars chars in
  let a := o_val o in
  let v := strip a cs (bool_of_sx dl) (bool_of_sx dr) in
  exec p (L [A 13; A i; chars; dl; dr; ipT])
    = OK (put p (Z.to_nat i)
              (mk_obj KString (if strip_is_noop a cs (bool_of_sx dl) (bool_of_sx dr) then a else v)),
          [Z.to_nat i], L [])
  /\ exec p (L [A 13; A i; chars; dl; dr; ipF])
    = OK (fst (push p (mk_obj KString v)), [length (objs p)], L []).
Proof.
  intros cs a v.
  change (exec p (L [A 13; A i; chars; dl; dr; ipT])) with (op_13 p (next_id p) [A i; chars; dl; dr; ipT]).
  change (exec p (L [A 13; A i; chars; dl; dr; ipF])) with (op_13 p (next_id p) [A i; chars; dl; dr; ipF]).
  unfold op_13. rewrite Hg, HT, HF. fold (strip_chars chars). fold cs a. cbn [andb].
  unfold store. rewrite Hk. cbn [push fst]. split; [|reflexivity].
  destruct (strip_is_noop a cs (bool_of_sx dl) (bool_of_sx dr)); reflexivity.
Qed.
End InplaceCopy.

(* when there is nothing to strip, [strip] is the full slice [s[0:]] ... *)
Lemma strip_noop_full_slice a cs dl dr :
  strip_is_noop a cs dl dr = true -> strip a cs dl dr = getitem_slice a (Some 0%Z) None.
Proof.
  unfold strip_is_noop, strip. destruct (strip_bounds (base a) cs dl dr) as [l r].
  intros H. apply andb_true_iff in H as [Hl Hr]. apply Nat.eqb_eq in Hl. subst l.
  destruct r; [discriminate Hr|reflexivity].
Qed.

(* ... which has the same text and, on a key-sorted table, the same settings on every character
   as the value itself - but need not be the same table (see [strip_noop_not_identity]) *)
Lemma slice_idx_zero len : slice_idx len (Some 0%Z) 0 = 0.
Proof. unfold slice_idx. change (0 <? 0)%Z with false. cbv iota. lia. Qed.

Theorem strip_noop_same_text a cs dl dr :
  strip_is_noop a cs dl dr = true -> base (strip a cs dl dr) = base a.
Proof.
  intros H. rewrite (strip_noop_full_slice _ _ _ _ H), api_text.
  rewrite slice_idx_zero. cbn [slice_idx]. unfold str_slice. rewrite Nat.sub_0_r. cbn [skipn].
  apply firstn_all.
Qed.

Theorem strip_noop_same_settings a cs dl dr :
  strip_is_noop a cs dl dr = true -> ssorted (tbl a) ->
  forall k, k < length (base a) -> settings_at_nat (strip a cs dl dr) k = settings_at_nat a k.
Proof.
  intros H Hs k Hk. rewrite (strip_noop_full_slice _ _ _ _ H).
  rewrite (api_settings a (Some 0%Z) None Hs k).
  - rewrite slice_idx_zero. reflexivity.
  - rewrite slice_idx_zero. cbn [slice_idx]. lia.
Qed.

(* reading [ic_rel] off: the value written in place is the value of the copy *)
Lemma ic_rel_same_value p i pT iT eT pF iF eF :
  i < length (objs p) ->
  ic_rel p i (OK (pT, iT, eT)) (OK (pF, iF, eF)) ->
  exists v,
    iT = [i] /\ nth_error (objs pT) i = Some (mk_obj KString v) /\
    iF = [length (objs p)] /\ nth_error (objs pF) (length (objs p)) = Some (mk_obj KString v) /\
    next_id pT = next_id pF /\
    (forall j, j <> i -> nth_error (objs pT) j = nth_error (objs p) j) /\
    (forall j, j < length (objs p) -> nth_error (objs pF) j = nth_error (objs p) j).
Proof.
  intros Hi (v & n & -> & -> & -> & -> & _ & _). exists v.
  unfold put, push, with_id. cbn [objs next_id fst]. repeat split.
  - now apply nth_error_set_nth_same.
  - rewrite nth_error_app2 by lia. now rewrite Nat.sub_diag.
  - intros j Hj. now apply nth_error_set_nth_other.
  - intros j Hj. now apply nth_error_app_old.
Qed.

(* ------------------------------------------------------------------ *)
(* examples: the hypotheses of the theorems above are satisfiable      *)
(* ------------------------------------------------------------------ *)
Module Examples.
Local Open Scope Z_scope.
Definition s_ab_ : sx := sx_of_str [97; 98; 32]%N.                 (* "ab " *)
Definition f_bold : sx := L [A 1; sx_of_str [98; 111; 108; 100]%N]. (* "bold" *)
Definition new_string : sx := L [A 0; A 0; s_ab_; L [f_bold]].      (* AnsiString("ab ", "bold") *)
Definition new_str : sx := L [A 0; A 1; s_ab_; L [f_bold]].         (* AnsiStr("ab ", "bold") *)
(* pool: 0 = AnsiString "ab " bold, 1 = AnsiStr "ab " bold *)
Definition p2 : pool := run_pool empty_pool [new_string; new_str].

Definition strip_ip (i ip : Z) : sx := L [A 13; A i; L []; A 1; A 1; A ip].
Definition split_b : sx := L [A 16; A 0; sx_of_str [98]%N; A (-1); A 0].
Definition index_10 : sx := L [A 6; A 0; A 10].

Example p2_objects :
  map o_kind (objs p2) = [KString; KStr] /\ length (objs p2) = 2%nat /\ next_id p2 = 2%nat.
Proof. vm_compute. auto. Qed.

Example p2_reachable : reachable p2.
Proof. apply run_pool_reachable, reach_empty. Qed.

Example p2_payload : Forall payload_ok (objs p2).
Proof.
  apply Forall_forall. intros o Hi. vm_compute in Hi.
  destruct Hi as [<-|[<-|[]]]; vm_compute; reflexivity.
Qed.

(* an in-place strip of object 0: succeeds, returns [0], rewrites object 0 and nothing else
   (hypothesis of exec_shape / exec_frame / exec_frame_strong / exec_payload / exec_idxs_valid) *)
Example strip_inplace_ok :
  exists p' extra, exec p2 (strip_ip 0 1) = OK (p', [0%nat], extra)
    /\ target (strip_ip 0 1) = 0%nat /\ mut_target (strip_ip 0 1) = Some 0%nat
    /\ nth_error (objs p') 0 <> nth_error (objs p2) 0
    /\ nth_error (objs p') 1 = nth_error (objs p2) 1.
Proof.
  vm_compute. eexists. eexists. split; [reflexivity|]. repeat split. discriminate.
Qed.

(* the same with the flag off: a third object appears (hypotheses of exec_flag_false_unchanged) *)
Example strip_copy_ok :
  exists p' extra, exec p2 (strip_ip 0 0) = OK (p', [2%nat], extra)
    /\ memz (code (strip_ip 0 0)) flagged = true /\ flag (strip_ip 0 0) = false
    /\ length (objs p') = 3%nat.
Proof. vm_compute. eexists. eexists. split; [reflexivity|]. auto. Qed.

(* in place on the AnsiStr: a new object (hypotheses of exec_kstr_unchanged) *)
Example strip_kstr_ok :
  exists p' extra o, exec p2 (strip_ip 1 1) = OK (p', [2%nat], extra)
    /\ get p2 (target (strip_ip 1 1)) = Some o /\ o_kind o = KStr.
Proof. vm_compute. eexists. eexists. eexists. split; [reflexivity|]. split; reflexivity. Qed.

(* a pure operation returning several objects (hypotheses of exec_pure_unchanged) *)
Example split_ok :
  exists p' extra, exec p2 split_b = OK (p', [2%nat; 3%nat], extra)
    /\ memz (code split_b) pure_codes = true.
Proof. vm_compute. eexists. eexists. split; reflexivity. Qed.

(* Pad (code 11): the receiver is the SECOND integer argument (the first selects ljust / rjust /
   center).  With "first integer argument" as the target the frame statement would be false:
   rjust in place on object 1 of a pool of two AnsiStrings, first argument 1 (rjust) ... *)
Definition p3 : pool := run_pool empty_pool [new_string; new_string; new_string].
Definition pad_2 : sx := L [A 11; A 1; A 2; A 5; sx_of_str [32]%N; A 1; A 0].
Example pad_receiver_is_second_argument :
  exists p' extra, exec p3 pad_2 = OK (p', [2%nat], extra)
    /\ target pad_2 = 2%nat
    /\ nth_error (objs p') 2 <> nth_error (objs p3) 2      (* object 2 is written, *)
    /\ nth_error (objs p') 1 = nth_error (objs p3) 1.      (* object 1 (= first argument) is not *)
Proof. vm_compute. eexists. eexists. split; [reflexivity|]. repeat split. discriminate. Qed.

(* a failing step (hypothesis of step_out_err) *)
Example index_err : exec p2 index_10 = Err IndexError.
Proof. vm_compute. reflexivity. Qed.

(* hypotheses of the InplaceCopy section *)
Example ic_hyps :
  exists o, get p2 (Z.to_nat 0) = Some o /\ o_kind o = KString
            /\ bool_of_sx (A 1) = true /\ bool_of_sx (A 0) = false.
Proof. vm_compute. eexists. repeat split. Qed.

(* an instance of ic_replace where both runs succeed: "b" -> "xy" *)
Example ic_replace_ok :
  let op ip := L [A 12; A 0; sx_of_str [98]%N; L [sx_of_str [120; 121]%N]; A (-1); A ip] in
  exists pT pF, exec p2 (op 1) = OK (pT, [0%nat], L []) /\ exec p2 (op 0) = OK (pF, [2%nat], L [])
    /\ nth_error (objs pT) 0 = nth_error (objs pF) 2.
Proof. vm_compute. eexists. eexists. repeat split. Qed.

(* and one where both fail alike: the replacement is a missing object *)
Example ic_replace_err :
  let op ip := L [A 12; A 0; sx_of_str [98]%N; A 7; A (-1); A ip] in
  exec p2 (op 1) = Err TypeError /\ exec p2 (op 0) = Err TypeError.
Proof. vm_compute. split; reflexivity. Qed.

(* strip_is_noop holds and the table is sorted (hypotheses of strip_noop_same_text/_settings) *)
Example strip_noop_hyps :
  let a := mkA [97; 98]%N [(0%nat, mkP [mkS 0 [49]%N] []); (2%nat, mkP [] [mkS 0 [49]%N])] in
  strip_is_noop a [32]%N true true = true /\ ssorted (tbl a) /\ strip a [32]%N true true = a.
Proof.
  cbv zeta. split; [vm_compute; reflexivity|]. split; [|vm_compute; reflexivity].
  cbn [tbl]. constructor.
  - intros kp [<-|[]]. cbn. lia.
  - constructor; [intros kp []|constructor].
Qed.

(* ... but the shortcut is not the same as storing [strip ...] on EVERY table: a value whose
   table mentions a position although the text is empty (not a value the constructors produce)
   is kept as it is in place and normalised by the copying form *)
Definition odd_value : astr := mkA [] [(0%nat, mkP [mkS 0 [49]%N] [])].
Example strip_noop_not_identity :
  strip_is_noop odd_value [32]%N true true = true /\ strip odd_value [32]%N true true <> odd_value.
Proof. vm_compute. split; [reflexivity|discriminate]. Qed.

Example strip_noop_pool_level :
  let p := mkPool [mk_obj KString odd_value] 1 in
  exists pT pF, exec p (strip_ip 0 1) = OK (pT, [0%nat], L []) /\ exec p (strip_ip 0 0) = OK (pF, [1%nat], L [])
    /\ nth_error (objs pT) 0 <> nth_error (objs pF) 1.
Proof. vm_compute. eexists. eexists. repeat split. discriminate. Qed.
End Examples.

Print Assumptions exec_shape.
Print Assumptions exec_frame.
Print Assumptions exec_frame_strong.
Print Assumptions exec_pure_unchanged.
Print Assumptions exec_flag_false_unchanged.
Print Assumptions exec_kstr_unchanged.
Print Assumptions step_out_err.
Print Assumptions exec_payload.
Print Assumptions reachable_payload.
Print Assumptions history_payload.
Print Assumptions exec_idxs_valid.
Print Assumptions ic_clip.
Print Assumptions ic_pad.
Print Assumptions ic_replace.
Print Assumptions ic_removeprefix.
Print Assumptions ic_removesuffix.
Print Assumptions ic_case.
Print Assumptions ic_strip.
Print Assumptions ic_rel_same_value.
Print Assumptions strip_noop_same_text.
Print Assumptions strip_noop_same_settings.
