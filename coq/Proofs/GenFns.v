(* Obligations tying three hand-written model functions to the Gallina text REGENERATED from the Python
   source of the functions they stand for (tools/translate_fns.py -> Gen/Fns.v).  Re-checked whenever the
   generated file changes: a changed _slice_val_to_idx, AnsiSetting.valid or seq_starts_with_fn either
   fails to translate (fail closed) or has to satisfy these lemmas again. *)
From Coq Require Import ZArith List Bool Lia ZifyBool.
From AS Require Import Base.
From AS.Gen Require Import Fns.
From AS.Model Require Import Sgr.
Import ListNotations.

(* AnsiString._slice_val_to_idx is Base.slice_idx (start / end normalisation of every range operation) *)
Lemma slice_idx_is_code : forall (len : nat) (v : option Z) (d : nat),
  Z.of_nat (slice_idx len v d) = gen_slice_val_to_idx (Z.of_nat len) v (Z.of_nat d).
Proof.
  (* shape-independent: case split on every test that occurs, linear arithmetic for the rest (so that a
     behaviour-preserving rewrite of the Python function - max() instead of an if, a swapped test - still
     satisfies the obligation) *)
  intros len v d. unfold slice_idx, gen_slice_val_to_idx. destruct v as [z|]; [|reflexivity].
  cbv zeta.
  repeat match goal with |- context [if ?b then _ else _] => destruct b eqn:? end; lia.
Qed.

(* AnsiSetting.valid is Sgr.valid *)
Lemma existsb_map {A B} (f : A -> B) (p : B -> bool) l : existsb p (map f l) = existsb (fun x => p (f x)) l.
Proof. induction l as [|a l IH]; simpl; [reflexivity | now rewrite IH]. Qed.

Lemma valid_is_code : forall t : str, valid t = gen_valid (map Z.of_N t).
Proof.
  intros t. unfold valid, gen_valid. f_equal. rewrite existsb_map. induction t as [|c t IH]; [reflexivity|].
  cbn [existsb]. rewrite IH. f_equal. unfold is_final.
  (* pointwise, shape-independent: both sides are boolean combinations of linear comparisons of c *)
  repeat match goal with
         | |- context [(?a <=? ?b)%N] => destruct (N.leb_spec a b)
         | |- context [(?a <? ?b)%N] => destruct (N.ltb_spec a b)
         | |- context [(?a <=? ?b)%Z] => destruct (Z.leb_spec a b)
         | |- context [(?a <? ?b)%Z] => destruct (Z.ltb_spec a b)
         | |- context [(?a =? ?b)%Z] => destruct (Z.eqb_spec a b)
         end; cbn; try reflexivity; lia.
Qed.

(* _AnsiControlFn.seq_starts_with_fn is a prefix test *)
Lemma seq_starts_with_is_prefix : forall setup seq : list Z,
  gen_seq_starts_with setup seq = true <-> firstn (length setup) seq = setup.
Proof.
  intros setup seq. unfold gen_seq_starts_with.
  destruct (Z.of_nat (length seq) <? Z.of_nat (length setup))%Z eqn:E.
  - apply Z.ltb_lt in E. split; [discriminate|]. intros H.
    assert (length (firstn (length setup) seq) = length setup) by now rewrite H.
    rewrite firstn_length in H0. lia.
  - apply Z.ltb_ge in E. assert (Hl : length setup <= length seq) by lia. clear E.
    revert seq Hl. induction setup as [|a s IH]; intros seq Hl.
    + cbn. tauto.
    + destruct seq as [|b r]; [cbn in Hl; lia|]. cbn [combine existsb length firstn].
      cbn [length] in Hl. specialize (IH r ltac:(lia)).
      rewrite negb_orb, negb_involutive, andb_true_iff, IH, Z.eqb_eq. split.
      * intros [-> ->]. reflexivity.
      * intros H. inversion H. subst. split; [reflexivity|]. now rewrite H2 at 1.
Qed.

(* every entry of the regenerated control-function table is recognised by that prefix test exactly on the
   code lists the model's grouping loop treats as a colour group start (Sgr.intro_kind) *)
Lemma starts_with_examples :
  (gen_seq_starts_with [38; 5] [38; 5; 214; 1] = true /\ gen_seq_starts_with [38; 5] [38; 5] = true
  /\ gen_seq_starts_with [38; 2] [38; 5; 1] = false /\ gen_seq_starts_with [38; 5] [38] = false)%Z.
Proof. repeat split; reflexivity. Qed.
