(* parse_graphic_sequence + settings_to_dict against the terminal specification (C18), and the
   exactness of AnsiSetting.parsable on printed code groups (used by C15, C14, C01). *)
From AS Require Import Base Effects.
From AS.Spec Require Import Terminal.
From AS.Model Require Import Sgr.
From AS.Proofs Require Import DecProofs TokenizerProofs GenCodeTable.
Local Open Scope N_scope.

Definition textN (g : list N) : str := text_of_items (map Z.of_N g).
Definition itemsN (cs : list N) : list item := map (fun c => IInt (Z.of_N c)) cs.

(* ---------- reading back a printed group ---------- *)
Lemma norm_items_ints cs : map norm_item (itemsN cs) = itemsN cs.
Proof. unfold itemsN. rewrite map_map. reflexivity. Qed.

(* the stricter token conversion of parse_graphic_sequence (F33) agrees with norm_item on integers and on printed numbers *)
Lemma norm_items_pgs_ints cs : map norm_item_pgs (itemsN cs) = itemsN cs.
Proof. unfold itemsN. rewrite map_map. reflexivity. Qed.
Lemma prep_items_ints cs : map prep_item (itemsN cs) = itemsN cs.
Proof. unfold itemsN. rewrite map_map. reflexivity. Qed.

Lemma dec_N_digits x : forallb is_digit (dec (Z.of_N x)) = true.
Proof. destruct x as [|p]; [reflexivity|]. cbn [Z.of_N dec]. apply DecProofs.decN_digits. Qed.

Lemma norm_item_pgs_dec x : norm_item_pgs (IStr (dec (Z.of_N x))) = norm_item (IStr (dec (Z.of_N x))).
Proof.
  unfold norm_item_pgs. rewrite strip_ws_dec. rewrite dec_N_digits.
  destruct (dec (Z.of_N x)) as [|d0 d] eqn:Ed.
  - exfalso. destruct x as [|p]; cbn [Z.of_N dec] in Ed; [discriminate|]. now apply (DecProofs.decN_nonempty (N.pos p)).
  - reflexivity.
Qed.

Lemma to_list_textN g : g <> [] -> to_list (textN g) = itemsN g.
Proof.
  intros Hg. unfold to_list, textN, text_of_items.
  rewrite split_join_dec by (destruct g; simpl; congruence).
  unfold itemsN. rewrite !map_map. apply map_ext. intros c.
  rewrite strip_ws_dec. unfold norm_item. now rewrite parse_int_dec.
Qed.

Lemma item_code_N c : item_code (IInt (Z.of_N c)) = if c <=? 255 then Some c else None.
Proof.
  unfold item_code. rewrite N2Z.id.
  destruct (c <=? 255) eqn:E.
  - apply N.leb_le in E. replace ((0 <=? Z.of_N c)%Z && (Z.of_N c <=? 255)%Z) with true; auto.
    symmetry. apply andb_true_iff. split; apply Z.leb_le; lia.
  - apply N.leb_gt in E. replace ((0 <=? Z.of_N c)%Z && (Z.of_N c <=? 255)%Z) with false; auto.
    symmetry. apply andb_false_iff. right. apply Z.leb_gt. lia.
Qed.

Lemma all_codes_N g : all_codes (itemsN g) = if ok255 g then Some g else None.
Proof.
  induction g as [|c g IH]; [reflexivity|].
  unfold itemsN in *. cbn [map all_codes ok255 forallb]. rewrite item_code_N, IH.
  unfold ok255. destruct (c <=? 255); cbn [andb]; auto. destruct (forallb _ g); auto.
Qed.

Lemma valid_textN g : valid (textN g) = true.
Proof.
  unfold valid, textN, text_of_items. apply negb_true_iff.
  assert (H : forall l, forallb (fun c => negb (is_final c)) (join [SEMI] (map dec l)) = true).
  { induction l as [|z l IH]; [reflexivity|]. destruct l as [|z' l'].
    - simpl. apply dec_nonfinal.
    - change (join [SEMI] (map dec (z :: z' :: l'))) with (dec z ++ SEMI :: join [SEMI] (map dec (z' :: l'))).
      rewrite forallb_app, dec_nonfinal. cbn [forallb andb]. replace (negb (is_final SEMI)) with true by reflexivity.
      exact IH. }
  specialize (H (map Z.of_N g)). induction (join [SEMI] (map dec (map Z.of_N g))) as [|c r IH]; [reflexivity|].
  cbn [forallb existsb] in *. apply andb_true_iff in H as [H1 H2]. apply negb_true_iff in H1. rewrite H1. now apply IH.
Qed.

Lemma strict_textN g : strict_chars (textN g) = true.
Proof.
  unfold strict_chars, textN, text_of_items.
  assert (Hd : forall z, (0 <= z)%Z -> forallb (fun c => is_digit c || (c =? SEMI)) (dec z) = true).
  { intros z Hz. destruct z as [|p|p]; [reflexivity| |lia].
    cbn [dec]. pose proof (decN_digits (N.pos p)) as H. induction (decN (N.pos p)) as [|c r IH]; [reflexivity|].
    cbn [forallb] in *. apply andb_true_iff in H as [H1 H2]. rewrite H1. cbn [orb andb]. now apply IH. }
  induction g as [|c g IH]; [reflexivity|]. destruct g as [|c' g'].
  - cbn [map join]. apply Hd. lia.
  - change (join [SEMI] (map dec (map Z.of_N (c :: c' :: g'))))
      with (dec (Z.of_N c) ++ SEMI :: join [SEMI] (map dec (map Z.of_N (c' :: g')))).
    rewrite forallb_app, Hd by lia. cbn [forallb andb]. replace (is_digit SEMI || (SEMI =? SEMI)) with true by reflexivity.
    exact IH.
Qed.

Definition parsableN (g : list N) : bool := ok255 g && group_ok g.

Theorem parsable_textN g : g <> [] -> parsable (textN g) = parsableN g.
Proof.
  intros Hg. unfold parsable, parsableN. rewrite valid_textN, strict_textN, to_list_textN, all_codes_N by exact Hg.
  destruct (ok255 g); reflexivity.
Qed.

Lemma initial_code_textN v r : initial_code (textN (v :: r)) = if is_param v then Some v else None.
Proof.
  unfold initial_code, textN, text_of_items.
  rewrite split_join_dec by (simpl; congruence). cbn [map]. cbv zeta.
  rewrite strip_ws_dec, dec_N_digits.
  assert (Hn : is_nil (dec (Z.of_N v)) = false).
  { destruct (dec (Z.of_N v)) eqn:E; [|reflexivity].
    pose proof (parse_int_dec (Z.of_N v)) as P. rewrite E in P. cbv in P. discriminate P. }
  rewrite Hn. cbn [negb andb].
  rewrite parse_int_dec. rewrite N2Z.id.
  replace (0 <=? Z.of_N v)%Z with true by (symmetry; apply Z.leb_le; lia). reflexivity.
Qed.

Lemma params_of_textN g : g <> [] -> params_of (textN g) = Some g.
Proof.
  intros Hg. unfold params_of, textN, text_of_items.
  rewrite split_join_dec by (destruct g; simpl; congruence).
  rewrite !map_map.
  assert (H1 : forallb all_digits (map (fun x => dec (Z.of_N x)) g) = true).
  { clear Hg. induction g as [|c g IH]; [reflexivity|]. cbn [map forallb]. rewrite IH, andb_true_r.
    destruct c; cbn [Z.of_N dec]; [reflexivity|]. apply decN_digits. }
  rewrite H1. f_equal. rewrite <- (map_id g) at 2. apply map_ext. intros c.
  unfold num_of. destruct c as [|p]; [reflexivity|]. cbn [Z.of_N dec]. apply decN_val.
Qed.

(* ---------- the token loop on pure code lists, at group level ---------- *)
Definition intro_kindN (cs : list N) : ik :=
  match cs with
  | v :: r => if is_intro v then
                match r with
                | x :: _ => if x =? 5 then FnMatch 3 else if x =? 2 then FnMatch 5 else FnFoundOnly
                | [] => FnFoundOnly end
              else NotFn
  | [] => NotFn
  end.

Lemma intro_kind_N cs : intro_kind (itemsN cs) = intro_kindN cs.
Proof.
  destruct cs as [|v r]; [reflexivity|]. unfold itemsN. cbn [map intro_kind intro_kindN item_is_intro].
  rewrite N2Z.id. replace (0 <=? Z.of_N v)%Z with true by (symmetry; apply Z.leb_le; lia). cbn [andb].
  destruct (is_intro v); [|reflexivity]. destruct r as [|x r']; [reflexivity|]. cbn [map z_is].
  replace (Z.of_N x =? 5)%Z with (x =? 5) by (destruct (N.eqb_spec x 5), (Z.eqb_spec (Z.of_N x) 5); auto; lia).
  replace (Z.of_N x =? 2)%Z with (x =? 2) by (destruct (N.eqb_spec x 2), (Z.eqb_spec (Z.of_N x) 2); auto; lia).
  reflexivity.
Qed.

Definition keepN (g : list N) : bool := parsableN g || match g with [0] => true | _ => false end.

Lemma keep_group_N g : g <> [] -> keep_group false (map Z.of_N g) = keepN g.
Proof.
  intros Hg. unfold keep_group, keepN. cbn [orb]. fold (textN g). rewrite parsable_textN by exact Hg.
  f_equal. destruct g as [|c [|c' g']]; try reflexivity; cbn [map]; destruct c; reflexivity.
Qed.

Fixpoint pgs_gN (cs : list N) (left : nat) (cur : list N) : list (list N) :=
  match cs with
  | [] => []
  | v :: rest =>
    let go (left : nat) :=
      let cur' := cur ++ [v] in
      match left with
      | S (S l) => pgs_gN rest (S l) cur'
      | _ => (if keepN cur' then [cur'] else []) ++ pgs_gN rest 0 []
      end in
    match cur with
    | [] => match intro_kindN cs with
            | FnMatch total => go total
            | FnFoundOnly => pgs_gN rest 0 []
            | NotFn => go 1%nat end
    | _ => go left
    end
  end.

Lemma pgs_loop_N cs : forall left cur,
  pgs_loop (itemsN cs) left (map Z.of_N cur) false = OK (map textN (pgs_gN cs left cur)).
Proof.
  induction cs as [|v rest IH]; intros left cur; [reflexivity|].
  assert (Hgo : forall l,
    (let cur' := map Z.of_N cur ++ [Z.of_N v] in
     match l with
     | S (S l0) => pgs_loop (itemsN rest) (S l0) cur' false
     | _ => do r <- pgs_loop (itemsN rest) 0 [] false;
            OK ((if keep_group false cur' then [text_of_items cur'] else []) ++ r)
     end) =
    OK (map textN (let cur' := cur ++ [v] in
                   match l with
                   | S (S l0) => pgs_gN rest (S l0) cur'
                   | _ => (if keepN cur' then [cur'] else []) ++ pgs_gN rest 0 []
                   end))).
  { intros l. cbv zeta.
    assert (E : map Z.of_N cur ++ [Z.of_N v] = map Z.of_N (cur ++ [v])) by (now rewrite map_app).
    rewrite E. destruct l as [|[|l0]].
    - change (@nil Z) with (map Z.of_N []). rewrite IH. cbn [bind].
      rewrite keep_group_N by (destruct cur; simpl; congruence).
      destruct (keepN (cur ++ [v])); rewrite (map_app textN); reflexivity.
    - change (@nil Z) with (map Z.of_N []). rewrite IH. cbn [bind].
      rewrite keep_group_N by (destruct cur; simpl; congruence).
      destruct (keepN (cur ++ [v])); rewrite (map_app textN); reflexivity.
    - apply IH. }
  change (itemsN (v :: rest)) with (IInt (Z.of_N v) :: itemsN rest).
  cbn [pgs_loop pgs_gN].
  change (IInt (Z.of_N v) :: itemsN rest) with (itemsN (v :: rest)). rewrite intro_kind_N.
  destruct cur as [|c0 cur0].
  - cbn [map]. destruct (intro_kindN (v :: rest)) as [total| |].
    + apply (Hgo total).
    + cbn [andb]. change (@nil Z) with (map Z.of_N []). apply IH.
    + apply (Hgo 1%nat).
  - change (map Z.of_N (c0 :: cur0)) with (Z.of_N c0 :: map Z.of_N cur0).
    cbv iota beta. change (Z.of_N c0 :: map Z.of_N cur0) with (map Z.of_N (c0 :: cur0)). apply (Hgo left).
Qed.

Theorem pgs_codes_N cs : cs <> [] -> pgs_codes cs false = OK (map textN (pgs_gN cs 0 [])).
Proof.
  intros Hcs. unfold pgs_codes, pgs_items. fold (itemsN cs).
  destruct cs as [|c r]; [congruence|].
  change (itemsN (c :: r)) with (IInt (Z.of_N c) :: itemsN r).
  change (IInt (Z.of_N c) :: itemsN r) with (itemsN (c :: r)).
  rewrite prep_items_ints, norm_items_pgs_ints. change (@nil Z) with (map Z.of_N []). apply pgs_loop_N.
Qed.

(* ---------- dictionaries against terminal states ---------- *)
Definition as_t (d : dict str) : tstate := fun e => match dget d e with Some t => params_of t | None => None end.
Definition nodupk {V} (d : dict V) := NoDup (map fst d).

Lemma dget_dset {V} (d : dict V) e v x : dget (dset d e v) x = if effect_beq e x then Some v else dget d x.
Proof.
  induction d as [|[e' v'] r IH]; simpl.
  - rewrite (effect_beq_sym e x). destruct (effect_beq x e); auto.
  - destruct (effect_beq e e') eqn:E; simpl.
    + apply effect_beq_eq in E; subst e'. destruct (effect_beq e x); auto.
    + destruct (effect_beq e' x) eqn:E2; [|apply IH].
      apply effect_beq_eq in E2; subst e'. now rewrite E.
Qed.

Lemma dget_notin {V} (d : dict V) e : ~ In e (map fst d) -> dget d e = None.
Proof.
  induction d as [|[a b] r IH]; simpl; auto. intros H.
  destruct (effect_beq a e) eqn:E. apply effect_beq_eq in E; subst; tauto. apply IH; tauto.
Qed.

Lemma dget_ddel {V} (d : dict V) e x : nodupk d -> dget (ddel d e) x = if effect_beq e x then None else dget d x.
Proof.
  unfold nodupk. induction d as [|[e' v'] r IH]; simpl; intros H.
  - destruct (effect_beq e x); auto.
  - inversion H as [|? ? Hn Hd]; subst. destruct (effect_beq e e') eqn:E; simpl.
    + apply effect_beq_eq in E; subst e'. destruct (effect_beq e x) eqn:E3; auto.
      apply effect_beq_eq in E3; subst x. now apply dget_notin.
    + destruct (effect_beq e' x) eqn:E2.
      * apply effect_beq_eq in E2; subst e'. now rewrite E.
      * now apply IH.
Qed.

Lemma in_dset_keys {V} (d : dict V) e v a : In a (map fst (dset d e v)) -> a = e \/ In a (map fst d).
Proof.
  induction d as [|[e' v'] r IH]; simpl.
  - intros [<-|[]]; auto.
  - destruct (effect_beq e e') eqn:E; simpl.
    + apply effect_beq_eq in E; subst. intros [<-|H]; auto.
    + intros [<-|H]; auto. destruct (IH H); auto.
Qed.

Lemma nodup_dset {V} (d : dict V) e v : nodupk d -> nodupk (dset d e v).
Proof.
  unfold nodupk. induction d as [|[e' v'] r IH]; simpl; intros H.
  - repeat constructor; auto.
  - inversion H; subst. destruct (effect_beq e e') eqn:E; simpl.
    + apply effect_beq_eq in E; subst; now constructor.
    + constructor; auto. intros Hin. apply in_dset_keys in Hin as [->|Hin]; auto.
      now rewrite effect_beq_refl in E.
Qed.

Lemma in_ddel_keys {V} (d : dict V) e a : In a (map fst (ddel d e)) -> In a (map fst d).
Proof.
  induction d as [|[e' v'] r IH]; simpl; auto.
  destruct (effect_beq e e'); simpl; auto. intros [<-|H]; auto.
Qed.

Lemma nodup_ddel {V} (d : dict V) e : nodupk d -> nodupk (ddel d e).
Proof.
  unfold nodupk. induction d as [|[e' v'] r IH]; simpl; intros H; auto. inversion H; subst.
  destruct (effect_beq e e'); simpl; auto. constructor; auto. intros Hin. apply in_ddel_keys in Hin. tauto.
Qed.

(* the terminal's action for one emitted group *)
Definition act_of_group (g : list N) : act :=
  match g with
  | v :: _ => match gen_class v with
              | CSet e | CIntro e => ASet e g
              | CClr e => AClr e
              | CReset => AReset
              | CUnknown => ANone end
  | [] => ANone
  end.

Lemma gen_class_not_param v : is_param v = false -> gen_class v = CUnknown.
Proof. unfold gen_class. now intros ->. Qed.

Lemma s2d_step_act d g : g <> [] -> nodupk d ->
  teq (as_t (s2d_step (fun x => x) d (textN g))) (apply_act (as_t d) (act_of_group g))
  /\ nodupk (s2d_step (fun x => x) d (textN g)).
Proof.
  intros Hg Hd. destruct g as [|v r]; [congruence|].
  unfold s2d_step. rewrite initial_code_textN. unfold act_of_group.
  destruct (is_param v) eqn:Ep.
  - destruct (gen_class v) eqn:Ec; cbn [apply_act].
    + split; [intros e; reflexivity|constructor].
    + split; [|now apply nodup_dset]. intros x. unfold as_t, tset. rewrite dget_dset.
      destruct (effect_beq e x); auto. apply params_of_textN. congruence.
    + split; [|now apply nodup_ddel]. intros x. unfold as_t, tset. rewrite dget_ddel by exact Hd.
      destruct (effect_beq e x); auto.
    + split; [|now apply nodup_dset]. intros x. unfold as_t, tset. rewrite dget_dset.
      destruct (effect_beq e x); auto. apply params_of_textN. congruence.
    + split; [intros e; reflexivity|exact Hd].
  - rewrite (gen_class_not_param v Ep). split; [intros e; reflexivity|exact Hd].
Qed.

Lemma teq_apply t t' a : teq t t' -> teq (apply_act t a) (apply_act t' a).
Proof. intros H e. destruct a; simpl; unfold tset; auto; destruct (effect_beq _ _); auto. Qed.
Lemma run_teq l : forall t t', teq t t' -> teq (run t l) (run t' l).
Proof. unfold run. induction l as [|a l IH]; simpl; intros; auto. apply IH. now apply teq_apply. Qed.

Definition s2dN (gs : list (list N)) (d : dict str) : dict str := s2d (fun x => x) (map textN gs) d.

Lemma s2dN_app a b d : s2dN (a ++ b) d = s2dN b (s2dN a d).
Proof. unfold s2dN, s2d. rewrite map_app. apply fold_left_app. Qed.

(* one step of the terminal is reproduced by the groups the loop emits for it *)
Definition stepspec (cs r' : list N) (a : act) : Prop :=
  exists gs, pgs_gN cs 0 [] = gs ++ pgs_gN r' 0 []
    /\ forall d, nodupk d -> teq (as_t (s2dN gs d)) (apply_act (as_t d) a) /\ nodupk (s2dN gs d).

Lemma nil_step d : nodupk d -> teq (as_t (s2dN [] d)) (apply_act (as_t d) ANone) /\ nodupk (s2dN [] d).
Proof. intros; split; auto; intros e; reflexivity. Qed.

Lemma one_step g d : g <> [] -> nodupk d ->
  teq (as_t (s2dN [g] d)) (apply_act (as_t d) (act_of_group g)) /\ nodupk (s2dN [g] d).
Proof. intros. unfold s2dN, s2d. cbn [map fold_left]. now apply s2d_step_act. Qed.

Lemma class_intro_is_intro v e : gen_class v = CIntro e -> is_intro v = true.
Proof.
  unfold gen_class. destruct (is_param v); [|congruence].
  destruct (assoc_N v CodeTable.gen_code_table) as [[[|e'] [| |]]|]; try congruence.
  destruct (is_intro v); congruence.
Qed.

Lemma intro_is_spec c : is_intro c = true -> c = 38 \/ c = 48 \/ c = 58.
Proof.
  unfold is_intro. rewrite ctrl_fns_expected. cbn [existsb fst].
  destruct (N.eqb_spec 38 c); auto. destruct (N.eqb_spec 48 c); auto. destruct (N.eqb_spec 58 c); auto. discriminate.
Qed.

Lemma class_nonintro v : (forall e, gen_class v <> CIntro e) -> is_intro v = false.
Proof.
  intros H. destruct (is_intro v) eqn:E; auto. exfalso.
  destruct (intro_is_spec v E) as [->|[->| ->]].
  - apply (H FG_COLOR). rewrite gen_class_spec. reflexivity.
  - apply (H BG_COLOR). rewrite gen_class_spec. reflexivity.
  - apply (H UL_COLOR). rewrite gen_class_spec. reflexivity.
Qed.

Lemma keepN_single c : (forall e, gen_class c <> CIntro e) ->
  forall d, nodupk d ->
  teq (as_t (s2dN (if keepN [c] then [[c]] else []) d)) (apply_act (as_t d) (act_of_group [c]))
  /\ nodupk (s2dN (if keepN [c] then [[c]] else []) d).
Proof.
  intros Hi d Hd. destruct (keepN [c]) eqn:K.
  - apply one_step; auto. congruence.
  - unfold keepN, parsableN, group_ok in K. apply orb_false_iff in K as [K1 K2].
    unfold act_of_group. destruct (gen_class c) eqn:Ec.
    + (* reset: c must be 0, contradiction with K2, unless the table calls another code reset *)
      destruct c; [discriminate K2|].
      (* a non-zero code classified as reset: excluded by the table obligation *)
      exfalso. rewrite gen_class_spec in Ec. revert Ec. clear.
      destruct p as [p|p|]; try discriminate;
      do 7 (try destruct p as [p|p|]; try discriminate).
    + (* CSet with ok255 false: then c > 255, but such codes are unknown *)
      rewrite andb_true_r in K1. unfold ok255 in K1. cbn [forallb] in K1. rewrite andb_true_r in K1.
      apply N.leb_gt in K1. rewrite gen_class_spec, spec_class_large in Ec by lia. discriminate.
    + rewrite andb_true_r in K1. unfold ok255 in K1. cbn [forallb] in K1. rewrite andb_true_r in K1.
      apply N.leb_gt in K1. rewrite gen_class_spec, spec_class_large in Ec by lia. discriminate.
    + exfalso. eapply Hi; eauto.
    + apply nil_step; auto.
Qed.

Lemma step_plain c r : (forall e, gen_class c <> CIntro e) -> stepspec (c :: r) r (act_of_group [c]).
Proof.
  intros Hi. exists (if keepN [c] then [[c]] else []). split.
  - cbn [pgs_gN intro_kindN]. rewrite (class_nonintro c Hi). reflexivity.
  - intros d Hd. now apply keepN_single.
Qed.

Lemma step_intro c e r a r' ok :
  gen_class c = CIntro e -> next_act gen_class (c :: r) = (a, r', ok) -> stepspec (c :: r) r' a.
Proof.
  intros Ec Hna. unfold next_act in Hna. rewrite Ec in Hna. unfold stepspec.
  assert (Hi : is_intro c = true) by (eapply class_intro_is_intro; eauto).
  assert (Hgo : forall g, group_ok g = true -> ok255 g = true -> keepN g = true).
  { intros g H1 H2. unfold keepN, parsableN. now rewrite H1, H2. }
  destruct r as [|x r1].
  { inversion Hna; subst. exists []. split; [|apply nil_step]. cbn [pgs_gN intro_kindN app]. rewrite Hi. reflexivity. }
  destruct (N.eq_dec x 5) as [->|N5].
  - destruct r1 as [|nn r2].
    + inversion Hna; subst. exists []. split; [|apply nil_step]. cbn [pgs_gN intro_kindN app]. rewrite Hi. reflexivity.
    + assert (Hp : pgs_gN (c :: 5 :: nn :: r2) 0 [] = (if keepN [c; 5; nn] then [[c; 5; nn]] else []) ++ pgs_gN r2 0 []).
      { cbn [pgs_gN intro_kindN]. rewrite Hi. cbn. reflexivity. }
      rewrite Hp.
      assert (Hk : keepN [c; 5; nn] = ok255 [nn]).
      { unfold keepN, parsableN, group_ok. rewrite Ec. unfold ok255. cbn [forallb].
        destruct (intro_is_spec c Hi) as [->|[->| ->]]; cbn; now rewrite ?andb_true_r, ?orb_false_r. }
      rewrite Hk.
      destruct (ok255 [nn]) eqn:En; inversion Hna; subst.
      * exists [[c; 5; nn]]. split; [reflexivity|]. intros d Hd.
        pose proof (one_step [c; 5; nn] d ltac:(congruence) Hd) as Hs.
        unfold act_of_group in Hs. rewrite Ec in Hs. exact Hs.
      * exists []. split; [reflexivity|apply nil_step].
  - destruct (N.eq_dec x 2) as [->|N2].
    + destruct r1 as [|a1 [|b1 [|d1 r2]]];
        try (inversion Hna; subst; exists []; split; [cbn [pgs_gN intro_kindN app]; rewrite Hi; reflexivity | apply nil_step]).
      assert (Hp : pgs_gN (c :: 2 :: a1 :: b1 :: d1 :: r2) 0 []
                   = (if keepN [c; 2; a1; b1; d1] then [[c; 2; a1; b1; d1]] else []) ++ pgs_gN r2 0 []).
      { cbn [pgs_gN intro_kindN]. rewrite Hi. cbn. reflexivity. }
      rewrite Hp.
      assert (Hk : keepN [c; 2; a1; b1; d1] = ok255 [a1; b1; d1]).
      { unfold keepN, parsableN, group_ok. rewrite Ec. unfold ok255. cbn [forallb].
        destruct (intro_is_spec c Hi) as [->|[->| ->]]; cbn; now rewrite ?andb_true_r, ?orb_false_r. }
      rewrite Hk.
      destruct (ok255 [a1; b1; d1]) eqn:En; inversion Hna; subst.
      * exists [[c; 2; a1; b1; d1]]. split; [reflexivity|]. intros d Hd.
        pose proof (one_step [c; 2; a1; b1; d1] d ltac:(congruence) Hd) as Hs.
        unfold act_of_group in Hs. rewrite Ec in Hs. exact Hs.
      * exists []. split; [reflexivity|apply nil_step].
    + assert (Hna' : (ANone, x :: r1, true) = (a, r', ok)).
      { destruct x as [|p]; auto. destruct p as [p|p|]; auto; destruct p as [p|p|]; auto;
        try destruct p as [p|p|]; auto; congruence. }
      inversion Hna'; subst. exists []. split; [|apply nil_step].
      cbn [pgs_gN intro_kindN]. rewrite Hi.
      destruct (N.eqb_spec x 5); [congruence|]. destruct (N.eqb_spec x 2); [congruence|]. reflexivity.
Qed.

Lemma step_any c r a r' ok : next_act gen_class (c :: r) = (a, r', ok) -> stepspec (c :: r) r' a.
Proof.
  intros Hna. destruct (gen_class c) eqn:Ec.
  4:{ eapply step_intro; eauto. }
  all: pose proof (step_plain c r) as H; unfold next_act in Hna; rewrite Ec in Hna; inversion Hna; subst;
       unfold act_of_group in H; rewrite Ec in H; apply H; congruence.
Qed.

Lemma next_act_len class p a r ok : p <> [] -> next_act class p = (a, r, ok) -> (length r < length p)%nat.
Proof.
  destruct p as [|c p]; [congruence|]. intros _. unfold next_act.
  destruct (class c); try (intros H; inversion H; subst; simpl; lia).
  destruct p as [|x p]; [intros H; inversion H; simpl; lia|].
  destruct x as [|x]; [intros H; inversion H; simpl; lia|].
  destruct x as [x|x|]; try (intros H; inversion H; simpl; lia).
  - destruct x as [x|x|]; try (intros H; inversion H; simpl; lia).
    destruct x as [x|x|]; try (intros H; inversion H; simpl; lia).
    destruct p as [|n p]; intros H; inversion H; simpl; lia.
  - destruct x as [x|x|]; try (intros H; inversion H; simpl; lia).
    destruct p as [|a1 [|b1 [|d1 p]]]; intros H; inversion H; simpl; lia.
Qed.

Theorem pgs_s2d_is_sgr : forall n cs d, (length cs <= n)%nat -> nodupk d ->
  teq (as_t (s2dN (pgs_gN cs 0 []) d)) (run (as_t d) (fst (acts_fuel gen_class n cs)))
  /\ nodupk (s2dN (pgs_gN cs 0 []) d).
Proof.
  induction n as [|n IH]; intros cs d Hl Hd.
  - destruct cs; simpl in *; [|lia]. split; auto. intros e; reflexivity.
  - destruct cs as [|c r]. { simpl. split; auto. intros e; reflexivity. }
    cbn [acts_fuel]. destruct (next_act gen_class (c :: r)) as [[a r'] ok] eqn:Hna.
    assert (Hlen : (length r' <= n)%nat).
    { pose proof (next_act_len gen_class (c :: r) a r' ok) as Hs. simpl in Hl.
      assert (c :: r <> []) by congruence. specialize (Hs H Hna). simpl in Hs. lia. }
    destruct (step_any c r a r' ok Hna) as (gs & Heq & Hgs). rewrite Heq, s2dN_app.
    destruct (Hgs d Hd) as [Ht Hn].
    destruct (IH r' (s2dN gs d) Hlen Hn) as [IH1 IH2]. split; auto.
    destruct (acts_fuel gen_class n r') as [l ok'] eqn:E. cbn [fst] in *.
    intros e. rewrite IH1. unfold run at 2. cbn [fold_left]. fold (run (apply_act (as_t d) a) l).
    apply run_teq. exact Ht.
Qed.

Lemma acts_ext (c1 c2 : N -> cls) : (forall x, c1 x = c2 x) -> forall n p, acts_fuel c1 n p = acts_fuel c2 n p.
Proof.
  intros H. induction n as [|n IH]; intros p; [reflexivity|]. cbn [acts_fuel].
  destruct p as [|c r]; [reflexivity|].
  assert (E : next_act c1 (c :: r) = next_act c2 (c :: r)) by (unfold next_act; now rewrite H).
  rewrite E. destruct (next_act c2 (c :: r)) as [[a r'] ok]. now rewrite IH.
Qed.

(* C18, main statement: parse + reduce = the terminal's reading, for every code list *)
Theorem C18_parse_main : forall cs : list N, cs <> [] ->
  exists texts, pgs_codes cs false = OK texts
    /\ teq (as_t (s2d (fun x => x) texts [])) (sgr spec_class tdefault cs).
Proof.
  intros cs Hcs. exists (map textN (pgs_gN cs 0 [])). split; [now apply pgs_codes_N|].
  destruct (pgs_s2d_is_sgr (length cs) cs [] (le_n _)) as [H _]; [constructor|].
  intros e. fold (s2dN (pgs_gN cs 0 []) []). rewrite H. unfold sgr, acts.
  rewrite (acts_ext gen_class spec_class gen_class_spec). reflexivity.
Qed.

(* settings_to_dict on top of any prior state *)
Theorem C18_dict_main : forall (gs : list (list N)) (d : dict str),
  Forall (fun g => g <> []) gs -> nodupk d ->
  teq (as_t (s2dN gs d)) (run (as_t d) (map act_of_group gs)) /\ nodupk (s2dN gs d).
Proof.
  induction gs as [|g gs IH]; intros d Hg Hd.
  - split; auto. intros e; reflexivity.
  - inversion Hg; subst. change (g :: gs) with ([g] ++ gs). rewrite s2dN_app.
    destruct (one_step g d H1 Hd) as [Ht Hn]. destruct (IH (s2dN [g] d) H2 Hn) as [IH1 IH2].
    split; auto. intros e. rewrite IH1. cbn [app map]. unfold run at 2. cbn [fold_left].
    fold (run (apply_act (as_t d) (act_of_group g)) (map act_of_group gs)). apply run_teq. exact Ht.
Qed.

(* ---------- add_erroneous=True: every integer token of the input appears, in order ---------- *)
Lemma pgs_loop_ae cs : forall left cur,
  exists gs, pgs_loop (itemsN cs) left (map Z.of_N cur) true = OK (map textN gs)
             /\ concat gs = cur ++ cs /\ Forall (fun g => g <> []) gs.
Proof.
  induction cs as [|v rest IH]; intros left cur.
  - cbn [itemsN map pgs_loop andb]. destruct cur as [|c cur'].
    + exists []. repeat split; auto.
    + exists [c :: cur']. cbn [map is_nil negb]. split; [reflexivity|]. split.
      * cbn [concat]. now rewrite ?app_nil_r.
      * constructor; auto. congruence.
  - assert (Hgo : forall l, exists gs,
      (let cur' := map Z.of_N cur ++ [Z.of_N v] in
       match l with
       | S (S l0) => pgs_loop (itemsN rest) (S l0) cur' true
       | _ => do r <- pgs_loop (itemsN rest) 0 [] true;
              OK ((if keep_group true cur' then [text_of_items cur'] else []) ++ r)
       end) = OK (map textN gs) /\ concat gs = cur ++ v :: rest /\ Forall (fun g => g <> []) gs).
    { intros l. cbv zeta.
      assert (E : map Z.of_N cur ++ [Z.of_N v] = map Z.of_N (cur ++ [v])) by (now rewrite map_app).
      rewrite E.
      assert (Hemit : exists gs,
        (do r <- pgs_loop (itemsN rest) 0 [] true;
         OK ((if keep_group true (map Z.of_N (cur ++ [v])) then [text_of_items (map Z.of_N (cur ++ [v]))] else []) ++ r))
        = OK (map textN gs) /\ concat gs = cur ++ v :: rest /\ Forall (fun g => g <> []) gs).
      { destruct (IH 0%nat []) as (gs & H1 & H2 & H3). cbn [map] in H1. rewrite H1. cbn [bind].
        exists ((cur ++ [v]) :: gs). unfold keep_group. cbn [orb map app]. repeat split; auto.
        - cbn [concat]. rewrite H2. cbn [app]. now rewrite <- app_assoc.
        - constructor; auto. destruct cur; simpl; congruence. }
      destruct l as [|[|l0]]; auto.
      destruct (IH (S l0) (cur ++ [v])) as (gs & H1 & H2 & H3). exists gs. repeat split; auto.
      rewrite H2, <- app_assoc. reflexivity. }
    change (itemsN (v :: rest)) with (IInt (Z.of_N v) :: itemsN rest).
    cbn [pgs_loop].
    change (IInt (Z.of_N v) :: itemsN rest) with (itemsN (v :: rest)). rewrite intro_kind_N.
    destruct cur as [|c0 cur0].
    + cbn [map]. destruct (intro_kindN (v :: rest)) as [total| |]; [apply (Hgo total)|apply (Hgo 1%nat)|apply (Hgo 1%nat)].
    + change (map Z.of_N (c0 :: cur0)) with (Z.of_N c0 :: map Z.of_N cur0).
      cbv iota beta. change (Z.of_N c0 :: map Z.of_N cur0) with (map Z.of_N (c0 :: cur0)). apply (Hgo left).
Qed.

Theorem C18_erroneous_main cs : cs <> [] ->
  exists gs, pgs_codes cs true = OK (map textN gs) /\ concat gs = cs /\ Forall (fun g => g <> []) gs.
Proof.
  intros Hcs. unfold pgs_codes, pgs_items. fold (itemsN cs).
  destruct cs as [|c r]; [congruence|].
  change (itemsN (c :: r)) with (IInt (Z.of_N c) :: itemsN r).
  change (IInt (Z.of_N c) :: itemsN r) with (itemsN (c :: r)).
  rewrite prep_items_ints, norm_items_pgs_ints. exact (pgs_loop_ae (c :: r) 0%nat []).
Qed.

(* ---------- ';'-separated string input = list input ---------- *)
Lemma dec_not_nil z : dec z <> [].
Proof. destruct z; cbn [dec]; try congruence. apply decN_nonempty. Qed.

Theorem C18_string_main cs ae : cs <> [] -> pgs_str (textN cs) ae = pgs_codes cs ae.
Proof.
  intros Hcs. unfold pgs_str, pgs_codes, pgs_items. fold (itemsN cs).
  assert (Hne : textN cs <> []).
  { unfold textN, text_of_items. destruct cs as [|c [|c' r]]; [congruence| |]; cbn [map join].
    - apply dec_not_nil.
    - pose proof (dec_not_nil (Z.of_N c)). destruct (dec (Z.of_N c)); simpl; congruence. }
  assert (Hitems : map norm_item_pgs (items_of_str (textN cs)) = map norm_item_pgs (itemsN cs)).
  { unfold items_of_str, textN, text_of_items.
    rewrite split_join_dec by (destruct cs; simpl; congruence).
    unfold itemsN. rewrite !map_map. apply map_ext. intros x.
    rewrite strip_ws_dec. pose proof (dec_not_nil (Z.of_N x)) as Hx.
    destruct (dec (Z.of_N x)) as [|d0 d] eqn:Ed; [congruence|]. cbn [is_nil]. rewrite <- Ed.
    rewrite norm_item_pgs_dec. unfold norm_item. now rewrite parse_int_dec. }
  destruct (textN cs) as [|w0 w] eqn:Ew; [congruence|]. rewrite Hitems.
  destruct cs as [|c r]; [congruence|]. rewrite prep_items_ints. reflexivity.
Qed.
