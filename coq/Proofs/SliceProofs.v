(* __getitem__ : text, per-character settings (identities included), closedness, sortedness (C04). *)
From AS Require Import Base.
From AS.Model Require Import Table Ops.
From AS.Proofs Require Import TableProofs.

Lemma filter_map_shift (d : nat) (f g : nat * point -> bool) t :
  (forall kp, In kp t -> f (fst kp - d, snd kp) = g kp) ->
  filter f (shift_down d t) = shift_down d (filter g t).
Proof.
  unfold shift_down. induction t as [|kp t IH]; simpl; intros H; auto.
  assert (H' : forall kp0, In kp0 t -> f (fst kp0 - d, snd kp0) = g kp0) by (intros; apply H; now right).
  rewrite (H kp) by now left. specialize (IH H'). destruct (g kp); simpl; now rewrite IH.
Qed.

Lemma run_shift a d t : run a (shift_down d t) = run a t.
Proof. revert a; induction t as [|kp t IH]; intros a; [reflexivity|]. unfold run, shift_down in *. simpl. apply IH. Qed.

(* sortedness of the slice *)
Lemma ssorted_filter f t : ssorted t -> ssorted (filter f t).
Proof.
  induction 1 as [|k p t Hk Hs IH]; simpl; [constructor|].
  destruct (f (k, p)); auto. constructor; auto. intros kp Hin. apply filter_In in Hin as [Hin _]. auto.
Qed.

Lemma ssorted_shift_between t st en : ssorted t -> ssorted (shift_down st (between st en t)).
Proof.
  intros Hs. unfold between.
  assert (Hf : ssorted (filter (fun kp => (st <? fst kp) && (fst kp <? en)) t)) by now apply ssorted_filter.
  assert (Hgt : forall kp, In kp (filter (fun kp => (st <? fst kp) && (fst kp <? en)) t) -> st < fst kp).
  { intros kp Hin. apply filter_In in Hin as [_ Hb]. apply andb_true_iff in Hb as [Hb _]. now apply Nat.ltb_lt. }
  induction Hf as [|k p t' Hk Hs' IH]; simpl; [constructor|].
  constructor.
  - intros kp Hin. unfold shift_down in Hin. apply in_map_iff in Hin as (kp0 & <- & Hin0). simpl.
    assert (k < fst kp0) by auto. assert (st < k) by (apply (Hgt (k, p)); now left). lia.
  - apply IH. intros kp Hin. apply Hgt. now right.
Qed.

Lemma ssorted_app t1 t2 : ssorted t1 -> ssorted t2 ->
  (forall a b, In a t1 -> In b t2 -> fst a < fst b) -> ssorted (t1 ++ t2).
Proof.
  induction 1 as [|k p t Hk Hs IH]; simpl; intros H2 Hlt; auto.
  constructor.
  - intros kp Hin. apply in_app_or in Hin as [Hin|Hin]; auto. apply (Hlt (k, p) kp); auto.
  - apply IH; auto.
Qed.

Theorem slice_tbl_sorted t st en : ssorted t -> st < en -> ssorted (slice_tbl t st en).
Proof.
  intros Hs Hse. unfold slice_tbl.
  set (seed := active_at t st). set (closing := _ ++ _ : list setting).
  assert (Hmid : ssorted (shift_down st (between st en t))) by now apply ssorted_shift_between.
  assert (Hkeys : forall kp, In kp (shift_down st (between st en t)) -> 0 < fst kp < en - st).
  { intros kp Hin. unfold shift_down, between in Hin. apply in_map_iff in Hin as (kp0 & <- & Hin0).
    apply filter_In in Hin0 as [_ Hb]. apply andb_true_iff in Hb as [H1 H2].
    apply Nat.ltb_lt in H1, H2. simpl. lia. }
  apply ssorted_app.
  - destruct seed; repeat constructor. intros kp [].
  - apply ssorted_app; auto.
    + destruct closing; repeat constructor. intros kp [].
    + intros a b Ha Hb. specialize (Hkeys a Ha). destruct closing; simpl in Hb; [tauto|].
      destruct Hb as [<-|[]]. simpl. lia.
  - intros a b Ha Hb. assert (fst a = 0) by (destruct seed; simpl in Ha; [tauto|]; destruct Ha as [<-|[]]; reflexivity).
    apply in_app_or in Hb as [Hb|Hb].
    + specialize (Hkeys b Hb). lia.
    + destruct closing; simpl in Hb; [tauto|]. destruct Hb as [<-|[]]. simpl. lia.
Qed.

(* every character of the slice reports exactly the settings (same objects, same order) of the
   corresponding character of the source *)
Theorem slice_active : forall t st en k, ssorted t -> st < en -> k < en - st ->
  active_at (slice_tbl t st en) k = active_at t (st + k).
Proof.
  intros t st en k Hs Hse Hk.
  rewrite (active_at_run (slice_tbl t st en)) by (now apply slice_tbl_sorted).
  rewrite (active_at_run t (st + k)) by exact Hs.
  unfold slice_tbl.
  set (seed := active_at t st). set (closing := _ ++ _ : list setting).
  unfold upto. rewrite !filter_app, !run_app.
  assert (Hc : filter (fun kp : nat * point => fst kp <=? k)
                      (match closing with [] => [] | _ => [(en - st, mkP [] closing)] end) = []).
  { destruct closing; simpl; auto. assert (E : en - st <=? k = false) by (apply Nat.leb_gt; lia). now rewrite E. }
  rewrite Hc. simpl.
  assert (Hseed : run [] (filter (fun kp : nat * point => fst kp <=? k)
                                 (match seed with [] => [] | _ => [(0, mkP seed [])] end)) = seed).
  { destruct seed eqn:E; simpl; auto. }
  rewrite Hseed.
  rewrite (filter_map_shift st _ (fun kp => fst kp <=? st + k)).
  2:{ intros kp Hin. unfold between in Hin. apply filter_In in Hin as [_ Hin]. apply andb_true_iff in Hin as [H1 _].
      apply Nat.ltb_lt in H1. simpl.
      destruct (fst kp <=? st + k) eqn:E; [apply Nat.leb_le in E; apply Nat.leb_le; lia | apply Nat.leb_gt in E; apply Nat.leb_gt; lia]. }
  rewrite run_shift. unfold between. rewrite filter_filter.
  unfold seed. rewrite (active_at_run t st Hs).
  fold (upto (st + k) t). rewrite (upto_split t Hs st (st + k)) by lia. rewrite run_app. f_equal.
  apply filter_ext_in. intros kp _.
  apply Bool.eq_iff_eq_true. rewrite !andb_true_iff, !Nat.leb_le, !Nat.ltb_lt. lia.
Qed.

Lemma filter_all_true {A} (f : A -> bool) l : (forall x, In x l -> f x = true) -> filter f l = l.
Proof. induction l as [|a l IH]; simpl; auto. intros H. rewrite (H a) by now left. f_equal. apply IH. intros; apply H; now right. Qed.

(* ---------- closedness: nothing stays open past the end of a slice ---------- *)
Definition ids (l : list setting) : list nat := map sid l.

Lemma remove_ref_head x l : remove_ref x (x :: l) = l.
Proof. simpl. unfold same_ref. now rewrite Nat.eqb_refl. Qed.

Lemma fold_remove_nil l : fold_left (fun a s => remove_ref s a) l [] = [].
Proof. induction l; simpl; auto. Qed.

Lemma remove_ref_ids_notin x l : ~ In (sid x) (ids l) -> remove_ref x l = l.
Proof.
  induction l as [|y l IH]; simpl; auto. intros H.
  unfold same_ref. destruct (Nat.eqb (sid x) (sid y)) eqn:E.
  - apply Nat.eqb_eq in E. exfalso. apply H. left. congruence.
  - rewrite IH; auto.
Qed.

Lemma remove_ref_subset x l y : In y (remove_ref x l) -> In y l.
Proof.
  induction l as [|z l IH]; simpl; auto. destruct (same_ref x z); simpl; auto. intros [<-|H]; auto.
Qed.

Lemma remove_ref_nodup x l : NoDup (ids l) -> NoDup (ids (remove_ref x l)).
Proof.
  induction l as [|z l IH]; simpl; auto. intros H. inversion H; subst.
  destruct (same_ref x z); simpl; auto. constructor; auto.
  intros Hin. apply H2. unfold ids in *. apply in_map_iff in Hin as (w & Hw & Hin). apply in_map_iff.
  exists w. split; auto. eapply remove_ref_subset; eauto.
Qed.

(* removing every element of a duplicate-free list from itself leaves nothing, whatever else was
   removed before (removal of an absent setting is ignored) *)
Lemma remove_all_self pre : forall l, NoDup (ids l) ->
  fold_left (fun a s => remove_ref s a) (pre ++ filter (fun x => negb (in_ref x pre)) l) l = [].
Proof.
  induction pre as [|x pre IH]; intros l Hnd.
  - assert (E : filter (fun x => negb (in_ref x [])) l = l).
    { clear. induction l as [|a l IHl]; [reflexivity|]. cbn [filter]. replace (negb (in_ref a [])) with true by reflexivity. f_equal. exact IHl. }
    cbn [app]. rewrite E. clear E. induction l as [|y l IHl]; [reflexivity|].
    cbn [fold_left]. rewrite remove_ref_head. inversion Hnd; subst. auto.
  - simpl.
    (* after removing x, the remaining list is duplicate free and the filter agrees on it *)
    assert (Hf : filter (fun y => negb (in_ref y (x :: pre))) l
                 = filter (fun y => negb (in_ref y pre)) (remove_ref x l)).
    { clear IH. induction l as [|y l IHl]; simpl; auto. inversion Hnd as [|? ? Hn Hd]; subst.
      unfold in_ref at 1. simpl. unfold same_ref at 2.
      destruct (Nat.eqb (sid x) (sid y)) eqn:E.
      - apply Nat.eqb_eq in E. unfold same_ref. rewrite (Nat.eqb_sym (sid y) (sid x)).
        replace (Nat.eqb (sid x) (sid y)) with true by (symmetry; now apply Nat.eqb_eq). simpl.
        (* x no longer occurs by reference in l *)
        clear IHl. assert (Hx : forall z, In z l -> sid z <> sid x).
        { intros z Hz Hs. apply Hn. unfold ids. apply in_map_iff. exists z. split; congruence. }
        clear -Hx. induction l as [|z l IHl]; simpl; auto.
        assert (Hz : same_ref z x = false) by (unfold same_ref; apply Nat.eqb_neq; apply Hx; now left).
        unfold in_ref at 1. simpl. rewrite Hz.
        fold (in_ref z pre). destruct (find_ref z pre) eqn:F; unfold in_ref; rewrite F; simpl.
        + apply IHl. intros; apply Hx; now right.
        + f_equal. apply IHl. intros; apply Hx; now right.
      - unfold same_ref. rewrite (Nat.eqb_sym (sid y) (sid x)), E. simpl.
        fold (in_ref y pre). destruct (find_ref y pre) eqn:F; unfold in_ref; rewrite F; simpl.
        + apply IHl; auto.
        + f_equal. apply IHl; auto. }
    rewrite Hf. apply IH. now apply remove_ref_nodup.
Qed.

Theorem slice_closed t st en : ssorted t -> st < en -> NoDup (ids (active_at t (en - 1))) ->
  final_active (slice_tbl t st en) = [].
Proof.
  intros Hs Hse Hnd. change (final_active (slice_tbl t st en)) with (run [] (slice_tbl t st en)). unfold slice_tbl.
  set (seed := active_at t st). set (prev := active_at t (en - 1)) in *.
  set (rem_en := match tget en t with Some p => prem p | None => [] end).
  rewrite !run_app.
  (* the state before the closing point is the state of the last character of the slice *)
  assert (Hlast : run (run [] (match seed with [] => [] | _ => [(0, mkP seed [])] end))
                      (shift_down st (between st en t)) = prev).
  { pose proof (slice_active t st en (en - st - 1) Hs Hse ltac:(lia)) as H.
    replace (st + (en - st - 1)) with (en - 1) in H by lia. fold prev in H. rewrite <- H.
    rewrite (active_at_run (slice_tbl t st en)) by (now apply slice_tbl_sorted).
    unfold slice_tbl. fold seed prev rem_en. unfold upto. rewrite !filter_app, !run_app.
    set (closing := rem_en ++ filter (fun x => negb (in_ref x rem_en)) prev).
    assert (Hc : filter (fun kp : nat * point => fst kp <=? en - st - 1)
                        (match closing with [] => [] | _ => [(en - st, mkP [] closing)] end) = []).
    { destruct closing; simpl; auto. assert (E : en - st <=? en - st - 1 = false) by (apply Nat.leb_gt; lia). now rewrite E. }
    rewrite Hc. simpl.
    assert (H0 : filter (fun kp : nat * point => fst kp <=? en - st - 1)
                        (match seed with [] => [] | _ => [(0, mkP seed [])] end)
                 = match seed with [] => [] | _ => [(0, mkP seed [])] end) by (destruct seed; reflexivity).
    rewrite H0. f_equal. symmetry.
    apply filter_all_true. intros kp Hin.
    unfold shift_down, between in Hin. apply in_map_iff in Hin as (kp0 & <- & Hin0).
    apply filter_In in Hin0 as [_ Hb]. apply andb_true_iff in Hb as [H1 H2].
    apply Nat.ltb_lt in H1, H2. simpl. apply Nat.leb_le. lia. }
  etransitivity; [apply (f_equal2 run); [exact Hlast|reflexivity]|].
  destruct (rem_en ++ filter (fun x => negb (in_ref x rem_en)) prev) eqn:E.
  - cbn [run fold_left]. apply app_eq_nil in E as [E1 E2]. rewrite E1 in E2.
    assert (Hid : filter (fun x => negb (in_ref x [])) prev = prev).
    { clear. induction prev as [|a l IHl]; [reflexivity|]. cbn [filter]. replace (negb (in_ref a [])) with true by reflexivity. f_equal. exact IHl. }
    rewrite Hid in E2. exact E2.
  - rewrite <- E. unfold run. simpl. unfold stepf, step. simpl. rewrite app_nil_r.
    now apply remove_all_self.
Qed.

(* ---------- API level ---------- *)
Lemma slice_idx_le len v d : d <= len -> slice_idx len v d <= len.
Proof. intros Hd. unfold slice_idx. destruct v as [z|]; auto. destruct (z <? 0)%Z eqn:E; lia. Qed.

Lemma str_slice_length (s : str) i j : j <= length s -> length (str_slice s i j) = j - i.
Proof. intros H. unfold str_slice. rewrite firstn_length, skipn_length. lia. Qed.

Section Api.
Variable s : astr.
Variables a b : option Z.
Let len := length (base s).
Let i := slice_idx len a 0.
Let j := slice_idx len b len.

Lemma api_text : base (getitem_slice s a b) = str_slice (base s) i j.
Proof.
  unfold getitem_slice, slice_core. fold len i j. destruct (j <=? i) eqn:E; [|reflexivity].
  apply Nat.leb_le in E. unfold str_slice. replace (j - i) with 0 by lia. reflexivity.
Qed.

Lemma api_settings : ssorted (tbl s) -> forall k, k < j - i ->
  settings_at_nat (getitem_slice s a b) k = settings_at_nat s (i + k).
Proof.
  intros Hs k Hk. assert (Hj : j <= len) by (apply slice_idx_le; lia).
  unfold settings_at_nat. rewrite api_text, str_slice_length by exact Hj.
  replace (k <? j - i) with true by (symmetry; apply Nat.ltb_lt; lia).
  fold len. replace (i + k <? len) with true by (symmetry; apply Nat.ltb_lt; lia).
  unfold getitem_slice, slice_core. fold len i j.
  replace (j <=? i) with false by (symmetry; apply Nat.leb_gt; lia). cbn [tbl].
  apply slice_active; auto; lia.
Qed.

Lemma api_sorted : ssorted (tbl s) -> ssorted (tbl (getitem_slice s a b)).
Proof.
  intros Hs. unfold getitem_slice, slice_core. fold len i j. destruct (j <=? i) eqn:E; cbn [tbl]; [constructor|].
  apply Nat.leb_gt in E. now apply slice_tbl_sorted.
Qed.

Lemma api_closed : ssorted (tbl s) -> NoDup (ids (active_at (tbl s) (j - 1))) ->
  final_active (tbl (getitem_slice s a b)) = [].
Proof.
  intros Hs Hnd. unfold getitem_slice, slice_core. fold len i j. destruct (j <=? i) eqn:E; cbn [tbl]; [reflexivity|].
  apply Nat.leb_gt in E. now apply slice_closed.
Qed.
End Api.

(* appending plain text to any value leaves the table alone *)
Lemma iadd_plain (r : astr) (t : str) : iadd r (plain t) = OK (mkA (base r ++ t) (tbl r)).
Proof. unfold iadd, plain. cbn [tbl base iadd_loop bind]. reflexivity. Qed.

(* all keys of a slice are within its text *)
Lemma slice_tbl_keys t st en : st < en -> forall kp, In kp (slice_tbl t st en) -> fst kp <= en - st.
Proof.
  intros Hse kp Hin. unfold slice_tbl in Hin.
  apply in_app_or in Hin as [Hin|Hin].
  - destruct (active_at t st); simpl in Hin; [tauto|]. destruct Hin as [<-|[]]. simpl. lia.
  - apply in_app_or in Hin as [Hin|Hin].
    + unfold shift_down, between in Hin. apply in_map_iff in Hin as (kp0 & <- & Hin0).
      apply filter_In in Hin0 as [_ Hb]. apply andb_true_iff in Hb as [H1 H2]. apply Nat.ltb_lt in H1, H2. simpl. lia.
    + destruct (_ ++ _) in Hin; simpl in Hin; [tauto|]. destruct Hin as [<-|[]]. simpl. lia.
Qed.

(* beyond the last key the active list is the final one *)
Lemma active_beyond t : ssorted t -> forall n, (forall kp, In kp t -> fst kp <= n) -> active_at t n = final_active t.
Proof.
  intros Hs n Hk. rewrite (active_at_run t n Hs). change (final_active t) with (run [] t). f_equal.
  unfold upto. apply filter_all_true. intros kp Hin. apply Nat.leb_le. auto.
Qed.

Theorem slice_no_bleed (s : astr) (a b : option Z) (t : str) :
  ssorted (tbl s) ->
  let len := length (base s) in
  let i := slice_idx len a 0 in let j := slice_idx len b len in
  NoDup (ids (active_at (tbl s) (j - 1))) ->
  exists r, iadd (getitem_slice s a b) (plain t) = OK r
    /\ base r = base (getitem_slice s a b) ++ t
    /\ forall k, length (base (getitem_slice s a b)) <= k -> active_at (tbl r) k = [].
Proof.
  intros Hs len i j Hnd. rewrite iadd_plain. eexists. split; [reflexivity|]. cbn [base tbl]. split; [reflexivity|].
  intros k Hk.
  assert (Hj : j <= len) by (apply slice_idx_le; lia).
  unfold getitem_slice, slice_core in *. fold len i j in Hk |- *.
  destruct (j <=? i) eqn:E; cbn [tbl base] in *; [reflexivity|]. apply Nat.leb_gt in E.
  rewrite str_slice_length in Hk by exact Hj.
  rewrite active_beyond.
  - now apply slice_closed.
  - now apply slice_tbl_sorted.
  - intros kp Hin. pose proof (slice_tbl_keys _ _ _ E kp Hin). lia.
Qed.

Lemma getitem_int_spec (s : astr) (k : Z) :
  let len := Z.of_nat (length (base s)) in
  ((- len <= k < len)%Z ->
     getitem_int s k = OK (slice_core s (Z.to_nat (if (k <? 0)%Z then len + k else k)) (S (Z.to_nat (if (k <? 0)%Z then len + k else k)))))
  /\ (~ (- len <= k < len)%Z -> getitem_int s k = Err IndexError).
Proof.
  intros len. unfold getitem_int. fold len. split; intros H.
  - replace ((- len <=? k)%Z && (k <? len)%Z) with true by (symmetry; apply andb_true_iff; split; [apply Z.leb_le|apply Z.ltb_lt]; lia).
    reflexivity.
  - replace ((- len <=? k)%Z && (k <? len)%Z) with false; auto. symmetry. apply andb_false_iff.
    destruct (Z.leb_spec (- len) k); auto. right. apply Z.ltb_ge. lia.
Qed.
