(* The str-like methods re-implemented on slicing (strip family, removeprefix/suffix, partition,
   rpartition, split/rsplit, splitlines) produce the text Python's str method produces, and every
   piece is a slice of the original at the piece's true offset: its characters keep the settings
   (same objects, same order) of the corresponding original characters. *)
From AS Require Import Base.
From AS.Model Require Import Table Ops Parse StrOps.
From AS.Proofs Require Import TableProofs SliceProofs.
From AS.Spec Require Import PyStr.

(* ---------- test values used by the non-vacuity examples ---------- *)
Import String.StringSyntax.
Local Open Scope string_scope.
Definition tS (x : String.string) : str := str_of_string x.
Definition t_red := mkS 1 (tS "red").
Definition t_bold := mkS 2 (tS "bold").
Definition t_tbl : fmts := [(1, mkP [t_red] []); (3, mkP [t_bold] [t_red]); (5, mkP [] [t_bold])].
Definition t_mk (x : String.string) : astr := mkA (tS x) t_tbl.

Lemma t_tbl_sorted : ssorted t_tbl.
Proof. repeat constructor; simpl; intros kp H; repeat (destruct H as [<-|H]; simpl; try lia); destruct H. Qed.
Lemma t_tbl_final : final_active t_tbl = [].
Proof. reflexivity. Qed.
(* the identities reported for every character *)
Definition t_sets (p : astr) : list (list nat) :=
  map (fun k => map sid (settings_at_nat p k)) (seq 0 (length (base p))).
Example t_sets_src : t_sets (t_mk "xxabxx") = [[]; [1]; [1]; [2]; [2]; []]. Proof. reflexivity. Qed.

(* ================================================================== *)
(* pieces                                                             *)
(* ================================================================== *)
(* p is the part of s that starts at offset off: same text, and every character reports exactly
   the settings of the corresponding character of s *)
Definition piece_at (s : astr) (off : nat) (p : astr) : Prop :=
  off + length (base p) <= length (base s) /\
  base p = str_slice (base s) off (off + length (base p)) /\
  forall q, q < length (base p) -> settings_at_nat p q = settings_at_nat s (off + q).

(* sorted keys, and nothing left open at the end *)
Definition wf_piece (p : astr) : Prop := ssorted (tbl p) /\ final_active (tbl p) = [].

Definition nodup_active (s : astr) : Prop := forall k, NoDup (ids (active_at (tbl s) k)).

Lemma slice_idx_nat len n d : slice_idx len (Some (Z.of_nat n)) d = Nat.min n len.
Proof. unfold slice_idx. destruct (Z.of_nat n <? 0)%Z eqn:E; [apply Z.ltb_lt in E; lia|]. lia. Qed.

Lemma slice_idx_neg len n d : 0 < n -> slice_idx len (Some (- Z.of_nat n)%Z) d = len - n.
Proof. intros H. unfold slice_idx. destruct (- Z.of_nat n <? 0)%Z eqn:E; [lia|]. apply Z.ltb_ge in E. lia. Qed.

Lemma slice_piece s a b : ssorted (tbl s) ->
  piece_at s (slice_idx (length (base s)) a 0) (getitem_slice s a b).
Proof.
  intros Hs. set (len := length (base s)). set (i := slice_idx len a 0). set (j := slice_idx len b len).
  assert (Hi : i <= len) by (apply slice_idx_le; lia).
  assert (Hj : j <= len) by (apply slice_idx_le; lia).
  assert (Hl : length (base (getitem_slice s a b)) = j - i).
  { rewrite api_text. fold len i j. now apply str_slice_length. }
  unfold piece_at. rewrite Hl. split; [lia|]. split.
  - rewrite api_text. fold len i j. unfold str_slice. f_equal. lia.
  - intros q Hq. now apply api_settings.
Qed.

Lemma slice_wf s a b : ssorted (tbl s) -> nodup_active s -> wf_piece (getitem_slice s a b).
Proof. intros Hs Hn. split; [now apply api_sorted | apply api_closed; auto]. Qed.

Lemma wf_empty : wf_piece (mkA [] []).
Proof. split; [constructor|reflexivity]. Qed.

Lemma piece_self s : piece_at s 0 s.
Proof.
  unfold piece_at. split; [lia|]. split; auto.
  unfold str_slice. simpl. rewrite Nat.sub_0_r. now rewrite firstn_all.
Qed.

Lemma piece_empty s off : off <= length (base s) -> piece_at s off (mkA [] []).
Proof.
  intros H. unfold piece_at. simpl. split; [lia|]. split.
  - unfold str_slice. now replace (off + 0 - off) with 0 by lia.
  - intros q Hq. lia.
Qed.

(* ================================================================== *)
(* 1. strip / lstrip / rstrip                                         *)
(* ================================================================== *)
Lemma lstrip_skipn chars s : py_lstrip chars s = skipn (count_leading chars s) s.
Proof. induction s as [|c s IH]; simpl; auto. destruct (mem_char c chars); auto. Qed.

Lemma cl_le chars s : count_leading chars s <= length s.
Proof. induction s as [|c s IH]; simpl; auto. destruct (mem_char c chars); lia. Qed.

Lemma cl_firstn chars s : forall m, count_leading chars (firstn m s) = Nat.min m (count_leading chars s).
Proof.
  induction s as [|c s IH]; intros [|m]; simpl; auto.
  destruct (mem_char c chars); simpl; auto.
Qed.

Lemma rstrip_firstn chars s : py_rstrip chars s = firstn (length s - count_leading chars (rev s)) s.
Proof. unfold py_rstrip. now rewrite lstrip_skipn, skipn_rev, rev_involutive. Qed.

Lemma cl_app_stop chars a c b : mem_char c chars = false -> count_leading chars (a ++ c :: b) <= length a.
Proof. intros Hc. induction a as [|x a IH]; simpl; [now rewrite Hc|]. destruct (mem_char x chars); lia. Qed.

Lemma cl_split chars s : count_leading chars s < length s ->
  exists c r, skipn (count_leading chars s) s = c :: r /\ mem_char c chars = false.
Proof.
  induction s as [|x s IH]; simpl; [lia|]. destruct (mem_char x chars) eqn:E; intros H.
  - apply IH. lia.
  - exists x, s. auto.
Qed.

Lemma cl_rev_bound chars s : count_leading chars s < length s ->
  count_leading chars (rev s) + count_leading chars s < length s.
Proof.
  intros H. destruct (cl_split chars s H) as (c & r & E & Hc).
  set (l := count_leading chars s) in *.
  assert (Es : s = firstn l s ++ c :: r) by (rewrite <- E; symmetry; apply firstn_skipn).
  assert (Hl : length (firstn l s) = l) by (apply firstn_length_le; lia).
  assert (Hrev : count_leading chars (rev s) <= length r).
  { rewrite Es, rev_app_distr. simpl. rewrite <- app_assoc. simpl.
    pose proof (cl_app_stop chars (rev r) c (rev (firstn l s)) Hc) as Hb.
    now rewrite rev_length in Hb. }
  assert (Hlen : length s = l + S (length r)).
  { rewrite Es at 1. rewrite app_length, Hl. reflexivity. }
  lia.
Qed.

(* the left count, and the normalised right bound, of strip_bounds *)
Definition strip_off (s : astr) (chars : str) (dl : bool) : nat :=
  if dl then count_leading chars (base s) else 0.

Lemma strip_bounds_idx (t chars : str) (dl dr : bool) :
  let l := if dl then count_leading chars t else 0 in
  fst (strip_bounds t chars dl dr) = l /\
  slice_idx (length t) (snd (strip_bounds t chars dl dr)) (length t)
  = length t - (if dr && (l <? length t) then count_leading chars (rev t) else 0).
Proof.
  intros l. unfold strip_bounds. fold l. cbn [fst snd]. split; auto.
  destruct (dr && (l <? length t)); cbn [slice_idx]; [|lia].
  destruct (Nat.eqb (count_leading chars (rev t)) 0) eqn:E.
  - apply Nat.eqb_eq in E. cbn [slice_idx]. lia.
  - apply Nat.eqb_neq in E. apply slice_idx_neg. lia.
Qed.

Lemma strip_as_slice s chars dl dr :
  strip s chars dl dr = getitem_slice s (Some (Z.of_nat (fst (strip_bounds (base s) chars dl dr))))
                                        (snd (strip_bounds (base s) chars dl dr)).
Proof. unfold strip. now destruct (strip_bounds (base s) chars dl dr). Qed.

Theorem strip_text s chars dl dr :
  base (strip s chars dl dr)
  = (if dl then py_lstrip chars else id) ((if dr then py_rstrip chars else id) (base s)).
Proof.
  rewrite strip_as_slice, api_text.
  destruct (strip_bounds_idx (base s) chars dl dr) as [H1 H2]. rewrite H1, H2. clear H1 H2.
  set (t := base s). rewrite slice_idx_nat.
  set (l := if dl then count_leading chars t else 0).
  assert (Hl : l <= length t) by (unfold l; destruct dl; [apply cl_le|lia]).
  rewrite Nat.min_l by exact Hl.
  unfold str_slice. subst l.
  destruct dl, dr; cbn [andb] in *; unfold id.
  - (* strip *)
    rewrite rstrip_firstn, lstrip_skipn, cl_firstn.
    set (l := count_leading chars t) in *. set (n := count_leading chars (rev t)).
    destruct (l <? length t) eqn:E.
    + apply Nat.ltb_lt in E. pose proof (cl_rev_bound chars t E) as Hb. fold n l in Hb.
      rewrite Nat.min_r by lia.
      rewrite firstn_skipn_comm. f_equal. f_equal. lia.
    + apply Nat.ltb_ge in E. assert (l = length t) by lia.
      rewrite Nat.sub_0_r. replace (length t - l) with 0 by lia. cbn [firstn].
      rewrite Nat.min_l by lia. symmetry. apply skipn_all2. rewrite firstn_length. lia.
  - (* lstrip *)
    rewrite Nat.sub_0_r, lstrip_skipn. apply firstn_all2. rewrite skipn_length. unfold id. lia.
  - (* rstrip *)
    cbn [skipn]. rewrite rstrip_firstn.
    destruct (0 <? length t) eqn:E; rewrite !Nat.sub_0_r; auto.
    apply Nat.ltb_ge in E. destruct t; [reflexivity|simpl in E; lia].
  - cbn [skipn]. rewrite !Nat.sub_0_r. apply firstn_all.
Qed.

Theorem strip_piece_at s chars dl dr : ssorted (tbl s) ->
  piece_at s (strip_off s chars dl) (strip s chars dl dr).
Proof.
  intros Hs. rewrite strip_as_slice.
  replace (strip_off s chars dl) with
    (slice_idx (length (base s)) (Some (Z.of_nat (fst (strip_bounds (base s) chars dl dr)))) 0).
  - now apply slice_piece.
  - rewrite slice_idx_nat. destruct (strip_bounds_idx (base s) chars dl dr) as [H1 _]. rewrite H1.
    unfold strip_off. apply Nat.min_l. destruct dl; [apply cl_le|lia].
Qed.

(* the statement as asked: off = number of stripped leading characters *)
Theorem strip_piece s chars (dl dr : bool) : ssorted (tbl s) ->
  exists off, off = (if dl then count_leading chars (base s) else 0) /\
  forall k, k < length (base (strip s chars dl dr)) ->
    settings_at_nat (strip s chars dl dr) k = settings_at_nat s (off + k).
Proof.
  intros Hs. exists (strip_off s chars dl). split; [reflexivity|].
  apply (strip_piece_at s chars dl dr Hs).
Qed.

Theorem strip_wf s chars dl dr : ssorted (tbl s) -> nodup_active s -> wf_piece (strip s chars dl dr).
Proof. intros Hs Hn. rewrite strip_as_slice. now apply slice_wf. Qed.

(* non-vacuity: the test value satisfies every hypothesis used in this file *)
Lemma t_nodup x : nodup_active (t_mk x).
Proof.
  intros k. unfold t_mk; cbn [tbl].
  do 6 (destruct k as [|k]; [vm_compute; repeat constructor; simpl; intuition discriminate|]).
  vm_compute. constructor.
Qed.
Example ex_hyps x : ssorted (tbl (t_mk x)) /\ nodup_active (t_mk x) /\ final_active (tbl (t_mk x)) = [].
Proof. split; [apply t_tbl_sorted|]. split; [apply t_nodup|reflexivity]. Qed.

(* "xxabxx".strip("x"): offset 2, the characters keep red (1) and bold (2) *)
Example ex_strip : let p := strip (t_mk "xxabxx") (tS "x") true true in
  base p = tS "ab" /\ t_sets p = [[1]; [2]] /\ strip_off (t_mk "xxabxx") (tS "x") true = 2.
Proof. vm_compute. auto. Qed.
(* a chars set that strips everything; right strip only; empty chars *)
Example ex_strip_all : base (strip (t_mk "xxxxxx") (tS "x") true true) = []
  /\ base (strip (t_mk "xxxxxx") (tS "x") false true) = []
  /\ base (strip (t_mk "xxabxx") [] true true) = tS "xxabxx".
Proof. vm_compute. auto. Qed.
Example ex_strip_piece := strip_piece (t_mk "xxabxx") (tS "x") true true t_tbl_sorted.
Example ex_strip_wf := strip_wf (t_mk "xxabxx") (tS "x") true true t_tbl_sorted (t_nodup _).

(* ================================================================== *)
(* 2. removeprefix / removesuffix                                     *)
(* ================================================================== *)
Lemma starts_with_app s p : starts_with s p = true -> s = p ++ skipn (length p) s.
Proof.
  revert s; induction p as [|y p IH]; intros [|x s]; simpl; try discriminate; auto.
  intros H. apply andb_true_iff in H as [H1 H2]. apply N.eqb_eq in H1. subst. f_equal. now apply IH.
Qed.

Lemma starts_with_prefix p r : starts_with (p ++ r) p = true.
Proof. induction p as [|y p IH]; simpl; [now destruct r|]. now rewrite N.eqb_refl. Qed.

Lemma starts_with_length s p : starts_with s p = true -> length p <= length s.
Proof. intros H. apply starts_with_app in H. apply (f_equal (@length _)) in H. rewrite app_length in H. lia. Qed.

Lemma str_slice_mid (a m b : str) : str_slice (a ++ m ++ b) (length a) (length a + length m) = m.
Proof.
  unfold str_slice. rewrite skipn_app, skipn_all, Nat.sub_diag. simpl.
  replace (length a + length m - length a) with (length m + 0) by lia.
  rewrite firstn_app_2. simpl. apply app_nil_r.
Qed.

Lemma str_slice_tail (a b : str) : str_slice (a ++ b) (length a) (length (a ++ b)) = b.
Proof.
  pose proof (str_slice_mid a b []) as H. rewrite !app_nil_r in H. rewrite app_length. exact H.
Qed.

Definition removeprefix_off (s : astr) (p : str) : nat := if starts_with (base s) p then length p else 0.

Theorem removeprefix_text s p : base (removeprefix s p) = py_removeprefix p (base s).
Proof.
  unfold removeprefix, py_removeprefix. destruct (starts_with (base s) p) eqn:E; auto.
  rewrite api_text, slice_idx_nat. cbn [slice_idx].
  pose proof (starts_with_length _ _ E) as Hl. rewrite Nat.min_l by exact Hl.
  apply starts_with_app in E. set (r := skipn (length p) (base s)) in *. rewrite E.
  apply str_slice_tail.
Qed.

Theorem removeprefix_piece s p : ssorted (tbl s) -> piece_at s (removeprefix_off s p) (removeprefix s p).
Proof.
  intros Hs. unfold removeprefix, removeprefix_off. destruct (starts_with (base s) p) eqn:E; [|apply piece_self].
  replace (length p) with (slice_idx (length (base s)) (Some (Z.of_nat (length p))) 0) at 1.
  - now apply slice_piece.
  - rewrite slice_idx_nat. apply Nat.min_l. now apply starts_with_length.
Qed.

Theorem removeprefix_wf s p : ssorted (tbl s) -> nodup_active s -> final_active (tbl s) = [] ->
  wf_piece (removeprefix s p).
Proof.
  intros Hs Hn Hf. unfold removeprefix. destruct (starts_with (base s) p); [now apply slice_wf|now split].
Qed.

Theorem removesuffix_text s p : base (removesuffix s p) = py_removesuffix p (base s).
Proof.
  unfold removesuffix, py_removesuffix. destruct p as [|c p].
  - cbn [is_nil orb length]. unfold ends_with. cbn [rev]. replace (starts_with (rev (base s)) []) with true by now destruct (rev (base s)).
    now rewrite Nat.sub_0_r, firstn_all.
  - cbn [is_nil orb]. destruct (ends_with (base s) (c :: p)) eqn:E; cbn [negb]; auto.
    rewrite api_text. rewrite slice_idx_neg by (simpl; lia). cbn [slice_idx].
    unfold str_slice. cbn [skipn]. now rewrite Nat.sub_0_r.
Qed.

Theorem removesuffix_piece s p : ssorted (tbl s) -> piece_at s 0 (removesuffix s p).
Proof.
  intros Hs. unfold removesuffix. destruct (is_nil p || negb (ends_with (base s) p)); [apply piece_self|].
  apply (slice_piece s None _ Hs).
Qed.

Theorem removesuffix_wf s p : ssorted (tbl s) -> nodup_active s -> final_active (tbl s) = [] ->
  wf_piece (removesuffix s p).
Proof.
  intros Hs Hn Hf. unfold removesuffix.
  destruct (is_nil p || negb (ends_with (base s) p)); [now split|now apply slice_wf].
Qed.

Example ex_removeprefix : let p := removeprefix (t_mk "xxabxx") (tS "xxa") in
  base p = tS "bxx" /\ t_sets p = [[2]; [2]; []] /\ removeprefix_off (t_mk "xxabxx") (tS "xxa") = 3.
Proof. vm_compute. auto. Qed.
Example ex_removeprefix_no : removeprefix (t_mk "xxabxx") (tS "xa") = t_mk "xxabxx". Proof. reflexivity. Qed.
Example ex_removesuffix : let p := removesuffix (t_mk "xxabxx") (tS "bxx") in
  base p = tS "xxa" /\ t_sets p = [[]; [1]; [1]].
Proof. vm_compute. auto. Qed.
Example ex_removesuffix_empty : removesuffix (t_mk "xxabxx") [] = t_mk "xxabxx". Proof. reflexivity. Qed.
Example ex_removeprefix_piece := removeprefix_piece (t_mk "xxabxx") (tS "xxa") t_tbl_sorted.
Example ex_removesuffix_wf := removesuffix_wf (t_mk "xxabxx") (tS "bxx") t_tbl_sorted (t_nodup _) t_tbl_final.

(* ================================================================== *)
(* 3. partition / rpartition                                          *)
(* ================================================================== *)
Lemma find_from_0 t sep : find_from t sep 0 = find_at t sep 0.
Proof. reflexivity. Qed.

(* find agrees with the specification's cut at the first occurrence *)
Lemma find_at_cut sep : forall s pos,
  match find_at s sep pos, cut_first sep s with
  | Some i, Some (a, b) => i = pos + length a /\ s = a ++ sep ++ b
  | None, None => True
  | _, _ => False
  end.
Proof.
  induction s as [|c s IH]; intros pos.
  - cbn [find_at cut_first]. destruct (starts_with [] sep) eqn:E; auto.
    split; [simpl; lia|]. now apply starts_with_app in E.
  - cbn [find_at cut_first]. destruct (starts_with (c :: s) sep) eqn:E.
    + split; [simpl; lia|]. now apply starts_with_app in E.
    + specialize (IH (S pos)). destruct (find_at s sep (S pos)), (cut_first sep s) as [[a b]|]; auto.
      destruct IH as [H1 H2]. split; [simpl; lia|]. simpl. now f_equal.
Qed.

Lemma rfind_at_cut sep : forall s pos,
  match rfind_at s sep pos, cut_last sep s with
  | Some i, Some (a, b) => i = pos + length a /\ s = a ++ sep ++ b
  | None, None => True
  | _, _ => False
  end.
Proof.
  induction s as [|c s IH]; intros pos.
  - cbn [rfind_at cut_last]. destruct sep; cbn [is_nil]; auto.
  - cbn [rfind_at cut_last]. specialize (IH (S pos)).
    destruct (rfind_at s sep (S pos)), (cut_last sep s) as [[a b]|]; try contradiction.
    + destruct IH as [H1 H2]. split; [simpl; lia|]. simpl. now f_equal.
    + destruct (starts_with (c :: s) sep) eqn:E; auto.
      split; [simpl; lia|]. now apply starts_with_app in E.
Qed.

Definition texts3 (x : astr * astr * astr) : str * str * str :=
  let '(a, b, c) := x in (base a, base b, base c).

Lemma partition_at_text s (a b : str) sep : base s = a ++ sep ++ b ->
  texts3 (partition_at s (Some (length a)) (length sep)) = (a, sep, b).
Proof.
  intros E. unfold partition_at, texts3. change (Some 0%Z) with (Some (Z.of_nat 0)).
  rewrite !api_text, !slice_idx_nat. cbn [slice_idx Nat.min].
  assert (Hlen : length (base s) = length a + length sep + length b) by (rewrite E, !app_length; lia).
  rewrite !Nat.min_l by lia.
  f_equal; [f_equal|].
  - rewrite E. apply (str_slice_mid [] a (sep ++ b)).
  - rewrite E. apply str_slice_mid.
  - rewrite E at 1. rewrite app_assoc. rewrite <- (app_length a sep). rewrite E, app_assoc. apply str_slice_tail.
Qed.

Theorem partition_text s sep : texts3 (partition s sep) = py_partition sep (base s).
Proof.
  unfold partition, py_partition. rewrite find_from_0.
  pose proof (find_at_cut sep (base s) 0) as H.
  destruct (find_at (base s) sep 0), (cut_first sep (base s)) as [[a b]|]; try contradiction; [|reflexivity].
  destruct H as [-> H]. now apply partition_at_text.
Qed.

Theorem rpartition_text s sep : texts3 (rpartition s sep) = py_rpartition sep (base s).
Proof.
  unfold rpartition, py_rpartition, rfind.
  pose proof (rfind_at_cut sep (base s) 0) as H.
  destruct (rfind_at (base s) sep 0), (cut_last sep (base s)) as [[a b]|]; try contradiction; [|reflexivity].
  destruct H as [-> H]. now apply partition_at_text.
Qed.

(* the three texts concatenate to the original when the separator is present; when it is absent
   the result is (original, "", ""), which also concatenates to the original *)
Theorem partition_concat s sep : let '(a, b, c) := py_partition sep (base s) in a ++ b ++ c = base s.
Proof.
  unfold py_partition. pose proof (find_at_cut sep (base s) 0) as H.
  destruct (find_at (base s) sep 0), (cut_first sep (base s)) as [[a b]|]; try contradiction.
  - now destruct H.
  - now rewrite !app_nil_r.
Qed.
Theorem rpartition_concat s sep : let '(a, b, c) := py_rpartition sep (base s) in a ++ b ++ c = base s.
Proof.
  unfold py_rpartition. pose proof (rfind_at_cut sep (base s) 0) as H.
  destruct (rfind_at (base s) sep 0), (cut_last sep (base s)) as [[a b]|]; try contradiction.
  - now destruct H.
  - now rewrite !app_nil_r.
Qed.

Definition pieces3 (s : astr) (o1 o2 o3 : nat) (x : astr * astr * astr) : Prop :=
  let '(a, b, c) := x in piece_at s o1 a /\ piece_at s o2 b /\ piece_at s o3 c.
Definition wf3 (x : astr * astr * astr) : Prop :=
  let '(a, b, c) := x in wf_piece a /\ wf_piece b /\ wf_piece c.

Lemma partition_at_pieces s i n : ssorted (tbl s) -> i + n <= length (base s) ->
  pieces3 s 0 i (i + n) (partition_at s (Some i) n).
Proof.
  intros Hs Hle. unfold partition_at, pieces3.
  pose proof (slice_piece s (Some 0%Z) (Some (Z.of_nat i)) Hs) as H1.
  pose proof (slice_piece s (Some (Z.of_nat i)) (Some (Z.of_nat (i + n))) Hs) as H2.
  pose proof (slice_piece s (Some (Z.of_nat (i + n))) None Hs) as H3.
  rewrite slice_idx_nat in H2, H3. rewrite Nat.min_l in H2, H3 by lia.
  change (Some 0%Z) with (Some (Z.of_nat 0)) in H1. rewrite slice_idx_nat in H1. cbn [Nat.min] in H1.
  auto.
Qed.

(* each of the three pieces reports the settings of the original at offsets 0, i, i + len(sep),
   where i is the length of the text before the (first / last) occurrence *)
Theorem partition_pieces s sep : ssorted (tbl s) ->
  match cut_first sep (base s) with
  | Some (a, _) => pieces3 s 0 (length a) (length a + length sep) (partition s sep)
  | None => partition s sep = (s, mkA [] [], mkA [] [])
  end.
Proof.
  intros Hs. unfold partition. rewrite find_from_0.
  pose proof (find_at_cut sep (base s) 0) as H.
  destruct (find_at (base s) sep 0), (cut_first sep (base s)) as [[a b]|]; try contradiction; [|reflexivity].
  destruct H as [-> H]. apply partition_at_pieces; auto. rewrite H, !app_length. simpl. lia.
Qed.

Theorem rpartition_pieces s sep : ssorted (tbl s) ->
  match cut_last sep (base s) with
  | Some (a, _) => pieces3 s 0 (length a) (length a + length sep) (rpartition s sep)
  | None => rpartition s sep = (s, mkA [] [], mkA [] [])
  end.
Proof.
  intros Hs. unfold rpartition, rfind.
  pose proof (rfind_at_cut sep (base s) 0) as H.
  destruct (rfind_at (base s) sep 0), (cut_last sep (base s)) as [[a b]|]; try contradiction; [|reflexivity].
  destruct H as [-> H]. apply partition_at_pieces; auto. rewrite H, !app_length. simpl. lia.
Qed.

Lemma partition_at_wf s idx n : ssorted (tbl s) -> nodup_active s -> final_active (tbl s) = [] ->
  wf3 (partition_at s idx n).
Proof.
  intros Hs Hn Hf. unfold partition_at, wf3. destruct idx as [i|].
  - repeat split; try (now apply api_sorted); apply api_closed; auto.
  - repeat split; auto; constructor.
Qed.
Theorem partition_wf s sep : ssorted (tbl s) -> nodup_active s -> final_active (tbl s) = [] -> wf3 (partition s sep).
Proof. intros. now apply partition_at_wf. Qed.
Theorem rpartition_wf s sep : ssorted (tbl s) -> nodup_active s -> final_active (tbl s) = [] -> wf3 (rpartition s sep).
Proof. intros. now apply partition_at_wf. Qed.

(* a separator that overlaps itself: "baaab" around "aa" *)
Example ex_partition : let '(a, b, c) := partition (t_mk "baaab") (tS "aa") in
  (base a, base b, base c) = (tS "b", tS "aa", tS "ab") /\ (t_sets a, t_sets b, t_sets c) = ([[]], [[1]; [1]], [[2]; [2]]).
Proof. vm_compute. auto. Qed.
Example ex_rpartition : let '(a, b, c) := rpartition (t_mk "baaab") (tS "aa") in
  (base a, base b, base c) = (tS "ba", tS "aa", tS "b") /\ (t_sets a, t_sets b, t_sets c) = ([[]; [1]], [[1]; [2]], [[2]]).
Proof. vm_compute. auto. Qed.
Example ex_rpartition_absent : rpartition (t_mk "baaab") (tS "c") = (t_mk "baaab", mkA [] [], mkA [] []).
Proof. reflexivity. Qed.
(* the library does not reject the empty separator (str.partition("") raises ValueError) *)
Example ex_partition_empty_sep : texts3 (partition (t_mk "ab") []) = ([], [], tS "ab")
  /\ texts3 (rpartition (t_mk "ab") []) = (tS "ab", [], []).
Proof. vm_compute. auto. Qed.
Example ex_partition_pieces := partition_pieces (t_mk "baaab") (tS "aa") t_tbl_sorted.
Example ex_partition_wf := partition_wf (t_mk "baaab") (tS "aa") t_tbl_sorted (t_nodup _) t_tbl_final.

(* ================================================================== *)
(* 4. split / rsplit with an explicit separator                       *)
(* ================================================================== *)
Lemma firstn_len_app (a r : str) : firstn (length a) (a ++ r) = a.
Proof. induction a; simpl; congruence. Qed.
Lemma skipn_len_app (a r : str) : skipn (length a) (a ++ r) = r.
Proof. induction a; simpl; auto. Qed.

Lemma cut_first_parts sep s a b : cut_first sep s = Some (a, b) ->
  s = a ++ sep ++ b /\ find_from s sep 0 = Some (length a).
Proof.
  intros E. pose proof (find_at_cut sep s 0) as H. rewrite find_from_0. rewrite E in H.
  destruct (find_at s sep 0); [|contradiction]. destruct H as [-> H]. auto.
Qed.
Lemma cut_first_none sep s : cut_first sep s = None -> find_from s sep 0 = None.
Proof.
  intros E. pose proof (find_at_cut sep s 0) as H. rewrite find_from_0. rewrite E in H.
  destruct (find_at s sep 0); [contradiction|reflexivity].
Qed.

Lemma split_fuel_step f s sep m :
  split_fuel (S f) s sep m =
  if (m =? 0)%Z then [s] else
  match cut_first sep s with
  | None => [s]
  | Some (a, b) => a :: split_fuel f b sep (m - 1)
  end.
Proof.
  cbn [split_fuel]. destruct (m =? 0)%Z; auto.
  destruct (cut_first sep s) as [[a b]|] eqn:E.
  - apply cut_first_parts in E as [E1 E2]. rewrite E2. subst s. rewrite firstn_len_app.
    rewrite app_assoc, <- app_length, skipn_len_app. reflexivity.
  - apply cut_first_none in E. now rewrite E.
Qed.

Lemma nonempty_length (x : str) : x <> [] -> 0 < length x.
Proof. destruct x; [congruence|simpl; lia]. Qed.

Lemma split_fuel_irrel sep : sep <> [] -> forall f1 f2 s m, length s < f1 -> length s < f2 ->
  split_fuel f1 s sep m = split_fuel f2 s sep m.
Proof.
  intros Hsep. apply nonempty_length in Hsep.
  induction f1 as [|f1 IH]; intros [|f2] s m H1 H2; try lia.
  rewrite !split_fuel_step. destruct (m =? 0)%Z; auto.
  destruct (cut_first sep s) as [[a b]|] eqn:E; auto.
  apply cut_first_parts in E as [E _]. f_equal.
  assert (length s = length a + length sep + length b) by (rewrite E, !app_length; lia).
  apply IH; lia.
Qed.

(* the model's reference split, unfolded once, in terms of the specification's cut *)
Lemma py_split_unfold sep s m : sep <> [] ->
  py_split s sep m =
  if (m =? 0)%Z then [s] else
  match cut_first sep s with
  | None => [s]
  | Some (a, b) => a :: py_split b sep (m - 1)
  end.
Proof.
  intros Hsep. unfold py_split. rewrite split_fuel_step. destruct (m =? 0)%Z; auto.
  destruct (cut_first sep s) as [[a b]|] eqn:E; auto.
  apply cut_first_parts in E as [E _]. f_equal. apply nonempty_length in Hsep as Hl.
  assert (length s = length a + length sep + length b) by (rewrite E, !app_length; lia).
  apply split_fuel_irrel; auto; lia.
Qed.

Lemma py_split_nonempty s sep m : py_split s sep m <> [].
Proof.
  unfold py_split. cbn [split_fuel]. destruct (m =? 0)%Z; [discriminate|].
  destruct (find_from s sep 0); discriminate.
Qed.

Lemma join_cons sep x l : l <> [] -> join sep (x :: l) = x ++ sep ++ join sep l.
Proof. destruct l; [congruence|reflexivity]. Qed.

(* split is lossless, whatever maxsplit *)
Theorem py_split_join sep s m : sep <> [] -> join sep (py_split s sep m) = s.
Proof.
  intros Hsep. apply nonempty_length in Hsep as Hl.
  assert (H : forall n s m, length s < n -> join sep (py_split s sep m) = s).
  { induction n as [|n IH]; intros s0 m0 Hn; [lia|].
    rewrite py_split_unfold by exact Hsep. destruct (m0 =? 0)%Z; auto.
    destruct (cut_first sep s0) as [[a b]|] eqn:E; auto.
    apply cut_first_parts in E as [E _].
    assert (length s0 = length a + length sep + length b) by (rewrite E, !app_length; lia).
    rewrite join_cons by apply py_split_nonempty. rewrite IH by lia. now symmetry. }
  apply (H (S (length s))). lia.
Qed.

(* --- the specification's one-pass scan computes the cumulative offsets of the pieces --- *)
Fixpoint cum_offs (seplen off : nat) (pieces : list str) : list (nat * nat) :=
  match pieces with
  | [] => []
  | p :: r => (off, length p) :: cum_offs seplen (off + length p + seplen) r
  end.

Lemma scan_skip sep m : forall pre r off len, 
  split_scan sep m (pre ++ r) off len (length pre) = split_scan sep m r off len 0.
Proof. induction pre as [|c pre IH]; intros r off len; [reflexivity|]. simpl. apply IH. Qed.

Lemma scan_m0 sep : forall s off len, split_scan sep 0 s off len 0 = [(off, len + length s)].
Proof.
  induction s as [|c s IH]; intros off len; cbn [split_scan]; [simpl; f_equal; f_equal; lia|].
  cbn [Z.eqb negb andb]. rewrite IH. simpl. f_equal. f_equal. lia.
Qed.

Lemma scan_none sep m : forall s off len, cut_first sep s = None ->
  split_scan sep m s off len 0 = [(off, len + length s)].
Proof.
  induction s as [|c s IH]; intros off len E; cbn [split_scan]; [simpl; f_equal; f_equal; lia|].
  cbn [cut_first] in E. destruct (starts_with (c :: s) sep) eqn:Es; [discriminate|].
  rewrite andb_false_r. rewrite IH by (destruct (cut_first sep s) as [[? ?]|]; [discriminate|reflexivity]).
  simpl. f_equal. f_equal. lia.
Qed.

Lemma scan_to_first sep m : sep <> [] -> (m =? 0)%Z = false -> forall s a b off len,
  cut_first sep s = Some (a, b) ->
  split_scan sep m s off len 0
  = (off, len + length a) :: split_scan sep (m - 1) b (off + len + length a + length sep) 0 0.
Proof.
  intros Hsep Hm. induction s as [|c s IH]; intros a b off len E.
  - cbn [cut_first] in E. destruct (starts_with [] sep) eqn:Es; [|discriminate].
    destruct sep; [congruence|discriminate].
  - cbn [cut_first] in E. cbn [split_scan]. rewrite Hm. cbn [negb andb].
    destruct (starts_with (c :: s) sep) eqn:Es.
    + inversion E; subst a b. clear E. cbn [length]. rewrite !Nat.add_0_r.
      apply starts_with_app in Es. destruct sep as [|y sep']; [congruence|].
      simpl in Es. inversion Es as [[Hc Hs']]. f_equal.
      cbn [length]. rewrite Nat.sub_succ, Nat.sub_0_r.
      rewrite Hs' at 1. rewrite scan_skip. reflexivity.
    + destruct (cut_first sep s) as [[a' b']|] eqn:E'; [|discriminate].
      inversion E; subst a b. clear E. rewrite (IH a' b' off (S len) eq_refl).
      cbn [length]. f_equal; [f_equal; lia|]. f_equal. lia.
Qed.

Lemma scan_cum sep : sep <> [] -> forall n s m off len, length s < n ->
  split_scan sep m s off len 0 =
  match py_split s sep m with
  | p0 :: rest => (off, len + length p0) :: cum_offs (length sep) (off + len + length p0 + length sep) rest
  | [] => []
  end.
Proof.
  intros Hsep. apply nonempty_length in Hsep as Hl.
  induction n as [|n IH]; intros s m off len Hn; [lia|].
  rewrite py_split_unfold by exact Hsep. destruct (m =? 0)%Z eqn:Hm.
  - apply Z.eqb_eq in Hm. subst m. now rewrite scan_m0.
  - destruct (cut_first sep s) as [[a b]|] eqn:E.
    + rewrite (scan_to_first sep m Hsep Hm s a b off len E). f_equal.
      apply cut_first_parts in E as [E _].
      assert (length s = length a + length sep + length b) by (rewrite E, !app_length; lia).
      rewrite IH by lia. destruct (py_split b sep (m - 1)) as [|p0 rest]; [reflexivity|].
      cbn [cum_offs]. rewrite !Nat.add_0_r. reflexivity.
    + now rewrite scan_none.
Qed.

Theorem py_split_offsets_cum sep m s : sep <> [] ->
  py_split_offsets sep m s = cum_offs (length sep) 0 (py_split s sep m).
Proof.
  intros Hsep. unfold py_split_offsets. rewrite (scan_cum sep Hsep (S (length s))) by lia.
  destruct (py_split s sep m) as [|p0 rest]; reflexivity.
Qed.

(* --- pieces located cumulatively are the slices at their true offsets --- *)
Lemma cum_offs_cons seplen off p r :
  cum_offs seplen off (p :: r) = (off, length p) :: cum_offs seplen (off + length p + seplen) r.
Proof. reflexivity. Qed.

Definition text_at (t : str) (ol : nat * nat) (p : str) : Prop :=
  snd ol = length p /\ fst ol + snd ol <= length t /\ str_slice t (fst ol) (fst ol + snd ol) = p.

Lemma cum_texts sep : forall pieces pre t, pieces <> [] -> t = pre ++ join sep pieces ->
  Forall2 (text_at t) (cum_offs (length sep) (length pre) pieces) pieces.
Proof.
  induction pieces as [|p r IH]; intros pre t Hne E; [congruence|]. destruct r as [|q r].
  - cbn [join] in E. constructor; [|constructor]. unfold text_at. cbn [fst snd]. subst t.
    split; auto. split; [rewrite app_length; lia|].
    pose proof (str_slice_mid pre p []) as H. now rewrite app_nil_r in H.
  - change (join sep (p :: q :: r)) with (p ++ sep ++ join sep (q :: r)) in E.
    rewrite cum_offs_cons. constructor.
    + unfold text_at. cbn [fst snd]. subst t. split; auto. split; [rewrite !app_length; lia|].
      apply str_slice_mid.
    + replace (length pre + length p + length sep) with (length (pre ++ p ++ sep)) by (rewrite !app_length; lia).
      apply IH; [discriminate|]. rewrite E, <- !app_assoc. reflexivity.
Qed.

(* piece p of the result is s[off : off+len], has that text, and keeps the settings *)
Definition slice_of (s : astr) (ol : nat * nat) (p : astr) : Prop :=
  p = getitem_slice s (Some (Z.of_nat (fst ol))) (Some (Z.of_nat (fst ol + snd ol))) /\
  length (base p) = snd ol /\ piece_at s (fst ol) p.

Definition slice_fn (s : astr) (ol : nat * nat) : astr :=
  getitem_slice s (Some (Z.of_nat (fst ol))) (Some (Z.of_nat (fst ol + snd ol))).

Lemma slices_cumulative_eq s seplen : forall pieces idx,
  slices_cumulative s pieces seplen idx = map (slice_fn s) (cum_offs seplen idx pieces).
Proof. induction pieces as [|p r IH]; intros idx; simpl; [reflexivity|]. now rewrite IH. Qed.

Lemma slice_fn_text s ol p : text_at (base s) ol p -> base (slice_fn s ol) = p.
Proof.
  intros (H1 & H2 & H3). unfold slice_fn. rewrite api_text, !slice_idx_nat, !Nat.min_l by lia. exact H3.
Qed.

Lemma slice_fn_of s ol p : ssorted (tbl s) -> text_at (base s) ol p -> slice_of s ol (slice_fn s ol).
Proof.
  intros Hs Ht. pose proof (slice_fn_text s ol p Ht) as Hb. destruct Ht as (H1 & H2 & H3).
  unfold slice_of. split; [reflexivity|]. split; [rewrite Hb; auto|].
  pose proof (slice_piece s (Some (Z.of_nat (fst ol))) (Some (Z.of_nat (fst ol + snd ol))) Hs) as Hp.
  rewrite slice_idx_nat, Nat.min_l in Hp by lia. exact Hp.
Qed.

Lemma located_slices s offs pieces : ssorted (tbl s) -> Forall2 (text_at (base s)) offs pieces ->
  map base (map (slice_fn s) offs) = pieces /\ Forall2 (slice_of s) offs (map (slice_fn s) offs).
Proof.
  intros Hs. induction 1 as [|ol p offs pieces Hh Ht IH]; simpl; [split; constructor|].
  destruct IH as [IH1 IH2]. split.
  - f_equal; auto. now apply slice_fn_text.
  - constructor; auto. now apply (slice_fn_of s ol p).
Qed.

Theorem slices_cumulative_spec s sep pieces : ssorted (tbl s) -> pieces <> [] -> join sep pieces = base s ->
  map base (slices_cumulative s pieces (length sep) 0) = pieces /\
  Forall2 (slice_of s) (cum_offs (length sep) 0 pieces) (slices_cumulative s pieces (length sep) 0).
Proof.
  intros Hs Hne Hj. rewrite slices_cumulative_eq. apply located_slices; auto.
  apply (cum_texts sep pieces [] (base s) Hne). now rewrite Hj.
Qed.

Lemma slices_cumulative_wf s seplen : ssorted (tbl s) -> nodup_active s -> forall pieces idx,
  Forall wf_piece (slices_cumulative s pieces seplen idx).
Proof.
  intros Hs Hn. induction pieces as [|p r IH]; intros idx; simpl; constructor; auto. now apply slice_wf.
Qed.

(* --- rsplit: the reversed split is lossless too --- *)
Lemma join_snoc sep : forall l z, l <> [] -> join sep (l ++ [z]) = join sep l ++ sep ++ z.
Proof.
  induction l as [|x l IH]; intros z Hne; [congruence|]. destruct l as [|y l].
  - reflexivity.
  - change ((x :: y :: l) ++ [z]) with (x :: ((y :: l) ++ [z])).
    rewrite join_cons by (simpl; discriminate). rewrite IH by discriminate.
    rewrite (join_cons sep x (y :: l)) by discriminate. now rewrite <- !app_assoc.
Qed.

Lemma join_rev sep : forall l, l <> [] -> rev (join sep l) = join (rev sep) (rev (map (@rev char) l)).
Proof.
  induction l as [|x l IH]; intros Hne; [congruence|]. destruct l as [|y l].
  - reflexivity.
  - rewrite (join_cons sep x (y :: l)) by discriminate. rewrite !rev_app_distr, IH by discriminate.
    change (map (@rev char) (x :: y :: l)) with (rev x :: map (@rev char) (y :: l)).
    change (rev (rev x :: map (@rev char) (y :: l))) with (rev (map (@rev char) (y :: l)) ++ [rev x]).
    rewrite join_snoc; [now rewrite <- app_assoc|].
    simpl. intros H. apply app_eq_nil in H as [_ H]. discriminate.
Qed.

Lemma rev_nonempty (x : str) : x <> [] -> rev x <> [].
Proof. destruct x; [congruence|]. simpl. intros _ H. apply app_eq_nil in H as [_ H]. discriminate. Qed.

Theorem py_rsplit_join sep s m : sep <> [] -> join sep (py_rsplit s sep m) = s.
Proof.
  intros Hsep. unfold py_rsplit.
  pose proof (py_split_join (rev sep) (rev s) m (rev_nonempty sep Hsep)) as H.
  apply (f_equal (@rev char)) in H. rewrite join_rev in H by apply py_split_nonempty.
  now rewrite !rev_involutive in H.
Qed.

Lemma py_rsplit_nonempty s sep m : py_rsplit s sep m <> [].
Proof.
  unfold py_rsplit. pose proof (py_split_nonempty (rev s) (rev sep) m) as H.
  destruct (py_split (rev s) (rev sep) m); [congruence|]. simpl. intros H1. apply app_eq_nil in H1 as [_ H1]. discriminate.
Qed.

(* --- the method --- *)
Definition split_texts (right : bool) (t sep : str) (m : Z) : list str :=
  (if right then py_rsplit else py_split) t sep m.

Lemma split_sep_ok s sep m right : split_sep s sep m right =
  if is_nil sep then Err ValueError
  else OK (slices_cumulative s (split_texts right (base s) sep m) (length sep) 0).
Proof. reflexivity. Qed.

Theorem split_sep_empty s m right : split_sep s [] m right = Err ValueError.
Proof. reflexivity. Qed.

Theorem split_sep_spec s sep m right : ssorted (tbl s) -> sep <> [] ->
  exists ps, split_sep s sep m right = OK ps /\
    let texts := split_texts right (base s) sep m in
    map base ps = texts /\
    join sep texts = base s /\
    Forall2 (slice_of s) (cum_offs (length sep) 0 texts) ps.
Proof.
  intros Hs Hsep. rewrite split_sep_ok. destruct sep as [|c sep']; [congruence|]. cbn [is_nil].
  eexists. split; [reflexivity|]. cbv zeta.
  assert (Hj : join (c :: sep') (split_texts right (base s) (c :: sep') m) = base s).
  { unfold split_texts. destruct right; [now apply py_rsplit_join|now apply py_split_join]. }
  assert (Hne : split_texts right (base s) (c :: sep') m <> []).
  { unfold split_texts. destruct right; [apply py_rsplit_nonempty|apply py_split_nonempty]. }
  destruct (slices_cumulative_spec s (c :: sep') _ Hs Hne Hj) as [H1 H2]. auto.
Qed.

Theorem split_sep_wf s sep m right ps : ssorted (tbl s) -> nodup_active s ->
  split_sep s sep m right = OK ps -> Forall wf_piece ps.
Proof.
  intros Hs Hn. rewrite split_sep_ok. destruct (is_nil sep); [discriminate|]. intros H. inversion H.
  now apply slices_cumulative_wf.
Qed.

(* the left split against the specification: offsets and texts *)
Lemma text_at_map t offs pieces : Forall2 (text_at t) offs pieces ->
  map (fun ol => str_slice t (fst ol) (fst ol + snd ol)) offs = pieces.
Proof.
  induction 1 as [|ol p offs pieces Hh Ht IH]; simpl; [reflexivity|]. f_equal; auto.
  now destruct Hh as (_ & _ & Hh).
Qed.

Corollary py_split_texts_eq sep m t : sep <> [] -> py_split_texts sep m t = py_split t sep m.
Proof.
  intros Hsep. unfold py_split_texts. rewrite py_split_offsets_cum by exact Hsep.
  apply text_at_map.
  apply (cum_texts sep (py_split t sep m) [] t (py_split_nonempty _ _ _)).
  cbn [app]. symmetry. now apply py_split_join.
Qed.

Theorem split_left_offsets s sep m : ssorted (tbl s) -> sep <> [] ->
  exists ps, split_sep s sep m false = OK ps /\
    map base ps = py_split_texts sep m (base s) /\
    Forall2 (slice_of s) (py_split_offsets sep m (base s)) ps.
Proof.
  intros Hs Hsep. destruct (split_sep_spec s sep m false Hs Hsep) as (ps & E & H1 & H2 & H3).
  exists ps. split; auto. unfold split_texts in *.
  rewrite py_split_offsets_cum, py_split_texts_eq by exact Hsep. auto.
Qed.

(* --- the right split against the specification --- *)
Fixpoint sumlen (ls : nat) (L : list str) : nat :=
  match L with [] => 0 | p :: r => length p + ls + sumlen ls r end.

Lemma cum_offs_snoc ls : forall M off z,
  cum_offs ls off (M ++ [z]) = cum_offs ls off M ++ [(off + sumlen ls M, length z)].
Proof.
  induction M as [|x M IH]; intros off z; simpl.
  - now rewrite Nat.add_0_r.
  - f_equal. rewrite IH. f_equal. f_equal. f_equal. lia.
Qed.

Lemma sumlen_snoc ls M z : sumlen ls (M ++ [z]) = sumlen ls M + length z + ls.
Proof. induction M as [|x M IH]; simpl; lia. Qed.

Lemma sumlen_revmap ls L : sumlen ls (rev (map (@rev char) L)) = sumlen ls L.
Proof. induction L as [|x L IH]; simpl; auto. rewrite sumlen_snoc, rev_length. lia. Qed.

Lemma join_length sp : forall L, L <> [] -> length (join sp L) + length sp = sumlen (length sp) L.
Proof.
  induction L as [|x L IH]; intros Hne; [congruence|]. destruct L as [|y L].
  - simpl. lia.
  - rewrite (join_cons sp x (y :: L)) by discriminate. rewrite !app_length.
    change (sumlen (length sp) (x :: y :: L)) with (length x + length sp + sumlen (length sp) (y :: L)).
    rewrite <- IH by discriminate. lia.
Qed.

Lemma cum_offs_mirror ls T : forall L off, T + ls = off + sumlen ls L ->
  rev (map (fun ol => (T - (fst ol + snd ol), snd ol)) (cum_offs ls off L))
  = cum_offs ls 0 (rev (map (@rev char) L)).
Proof.
  induction L as [|p L IH]; intros off HT; [reflexivity|].
  cbn [cum_offs map rev fst snd]. cbn [sumlen] in HT.
  rewrite (IH (off + length p + ls)) by lia.
  rewrite cum_offs_snoc, sumlen_revmap, rev_length. f_equal. f_equal. f_equal. lia.
Qed.

Theorem py_rsplit_offsets_cum sep m s : sep <> [] ->
  py_rsplit_offsets sep m s = cum_offs (length sep) 0 (py_rsplit s sep m).
Proof.
  intros Hsep. pose proof (rev_nonempty sep Hsep) as Hr.
  unfold py_rsplit_offsets, py_rsplit. rewrite py_split_offsets_cum by exact Hr.
  rewrite rev_length. apply cum_offs_mirror.
  pose proof (join_length (rev sep) _ (py_split_nonempty (rev s) (rev sep) m)) as H.
  rewrite py_split_join in H by exact Hr. rewrite !rev_length in H. lia.
Qed.

Corollary py_rsplit_texts_eq sep m t : sep <> [] -> py_rsplit_texts sep m t = py_rsplit t sep m.
Proof.
  intros Hsep. unfold py_rsplit_texts. rewrite py_rsplit_offsets_cum by exact Hsep.
  apply text_at_map.
  apply (cum_texts sep (py_rsplit t sep m) [] t (py_rsplit_nonempty _ _ _)).
  cbn [app]. symmetry. now apply py_rsplit_join.
Qed.

Theorem split_right_offsets s sep m : ssorted (tbl s) -> sep <> [] ->
  exists ps, split_sep s sep m true = OK ps /\
    map base ps = py_rsplit_texts sep m (base s) /\
    Forall2 (slice_of s) (py_rsplit_offsets sep m (base s)) ps.
Proof.
  intros Hs Hsep. destruct (split_sep_spec s sep m true Hs Hsep) as (ps & E & H1 & H2 & H3).
  exists ps. split; auto. unfold split_texts in *.
  rewrite py_rsplit_offsets_cum, py_rsplit_texts_eq by exact Hsep. auto.
Qed.

Definition t_show (r : res (list astr)) : list (str * list (list nat)) :=
  match r with OK ps => map (fun p => (base p, t_sets p)) ps | Err _ => [] end.
(* separators at both ends and doubled *)
Example ex_split_ends : t_show (split_sep (t_mk ",a,,b,") (tS ",") (-1) false)
  = [([], []); (tS "a", [[1]]); ([], []); (tS "b", [[2]]); ([], [])].
Proof. reflexivity. Qed.
Example ex_rsplit_max : t_show (split_sep (t_mk ",a,,b,") (tS ",") 2 true)
  = [(tS ",a,", [[]; [1]; [1]]); (tS "b", [[2]]); ([], [])].
Proof. reflexivity. Qed.
(* a separator that overlaps itself: split scans from the left, rsplit from the right *)
Example ex_split_overlap : t_show (split_sep (t_mk "aaaaa") (tS "aa") (-1) false) = [([], []); ([], []); (tS "a", [[2]])]
  /\ t_show (split_sep (t_mk "aaaaa") (tS "aa") (-1) true) = [(tS "a", [[]]); ([], []); ([], [])].
Proof. split; reflexivity. Qed.
Example ex_split_offsets : py_split_offsets (tS "aa") (-1) (tS "aaaaa") = [(0, 0); (2, 0); (4, 1)]. Proof. reflexivity. Qed.
Lemma t_sep_nonempty : tS "aa" <> []. Proof. discriminate. Qed.
Example ex_split_spec := split_sep_spec (t_mk "aaaaa") (tS "aa") (-1) true t_tbl_sorted t_sep_nonempty.
Example ex_rsplit_offsets : py_rsplit_offsets (tS "aa") (-1) (tS "aaaaa") = [(0, 1); (3, 0); (5, 0)]. Proof. reflexivity. Qed.
Example ex_split_right := split_right_offsets (t_mk "aaaaa") (tS "aa") (-1) t_tbl_sorted t_sep_nonempty.
Example ex_split_left := split_left_offsets (t_mk "aaaaa") (tS "aa") (-1) t_tbl_sorted t_sep_nonempty.

(* ================================================================== *)
(* 5. pieces located with find (split(None), splitlines)              *)
(* ================================================================== *)
Lemma occurs_at_iff p t o : occurs_at p t o <-> o <= length t /\ starts_with (skipn o t) p = true.
Proof.
  split.
  - intros (a & b & E & Hl). subst t o. split; [rewrite app_length; lia|].
    rewrite skipn_len_app. apply starts_with_prefix.
  - intros [Hl H]. apply starts_with_app in H.
    exists (firstn o t), (skipn (length p) (skipn o t)). split.
    + rewrite <- H. symmetry. apply firstn_skipn.
    + apply firstn_length_le. exact Hl.
Qed.

Lemma occurs_at_text p t o : occurs_at p t o -> text_at t (o, length p) p.
Proof.
  intros (a & b & E & Hl). subst t o. unfold text_at. cbn [fst snd]. split; auto.
  split; [rewrite !app_length; lia|apply str_slice_mid].
Qed.

Lemma skipn_add {A} (l : list A) : forall b a, skipn a (skipn b l) = skipn (a + b) l.
Proof.
  induction l as [|x l IH]; intros [|b] a; rewrite ?Nat.add_0_r; auto.
  - now rewrite !skipn_nil.
  - rewrite Nat.add_succ_r. simpl. apply IH.
Qed.

Lemma find_at_first p : forall u pos o, o <= length u ->
  starts_with (skipn o u) p = true ->
  (forall o', o' < o -> starts_with (skipn o' u) p = false) ->
  find_at u p pos = Some (pos + o).
Proof.
  induction u as [|c u IH]; intros pos o Hl Ho Hbefore.
  - simpl in Hl. assert (o = 0) by lia. subst o. cbn [skipn] in Ho. cbn [find_at]. rewrite Ho. f_equal. lia.
  - destruct o as [|o].
    + cbn [skipn] in Ho. cbn [find_at]. rewrite Ho. f_equal. lia.
    + pose proof (Hbefore 0 ltac:(lia)) as H0. cbn [skipn] in H0. cbn [find_at]. rewrite H0.
      rewrite (IH (S pos) o); [f_equal; lia|simpl in Hl; lia|exact Ho|].
      intros o' Ho'. apply (Hbefore (S o')). lia.
Qed.

(* str.find(p, idx) returns the first occurrence at or after idx *)
Lemma find_from_first t p idx o : idx <= o -> occurs_at p t o ->
  (forall o', idx <= o' < o -> ~ occurs_at p t o') ->
  find_from t p idx = Some o.
Proof.
  intros Hio Ho Hbefore. apply occurs_at_iff in Ho as [Hl Ho]. unfold find_from.
  replace (length t <? idx) with false by (symmetry; apply Nat.ltb_ge; lia).
  replace o with (idx + (o - idx)) at 1 by lia. apply find_at_first.
  - rewrite skipn_length. lia.
  - rewrite skipn_add. now replace (o - idx + idx) with o by lia.
  - intros o' Ho'. rewrite skipn_add.
    destruct (starts_with (skipn (o' + idx) t) p) eqn:E; auto.
    exfalso. apply (Hbefore (o' + idx)); [lia|]. apply occurs_at_iff. split; [lia|exact E].
Qed.

(* pieces are consecutive, non-overlapping substrings of t in order, every one starting at the
   first occurrence of its text at or after the end of the previous one (idx): the text between
   the end of the previous piece and the start of this one contains no start of an occurrence *)
Inductive located (t : str) : nat -> list str -> list (nat * nat) -> Prop :=
| loc_nil idx : located t idx [] []
| loc_cons idx p r o offs :
    idx <= o -> occurs_at p t o ->
    (forall o', idx <= o' < o -> ~ occurs_at p t o') ->
    located t (o + length p) r offs ->
    located t idx (p :: r) ((o, length p) :: offs).

(* the usual reason (split(None): pieces start with a non-blank, gaps are blank; splitlines:
   pieces do not start with a line break, gaps are line breaks): the first character of the
   piece does not occur in the gap *)
Lemma gap_first_char t c p' idx o :
  (forall o', idx <= o' < o -> nth_error t o' <> Some c) ->
  forall o', idx <= o' < o -> ~ occurs_at (c :: p') t o'.
Proof.
  intros Hgap o' Ho' (a & b & E & Hl). apply (Hgap o' Ho'). subst t o'.
  rewrite nth_error_app2 by lia. now rewrite Nat.sub_diag.
Qed.

Lemma slices_by_find_located s : forall pieces idx offs, located (base s) idx pieces offs ->
  slices_by_find s pieces idx = map (slice_fn s) offs /\ Forall2 (text_at (base s)) offs pieces.
Proof.
  intros pieces idx offs H. induction H as [idx|idx p r o offs Hio Ho Hbefore Hr [IH1 IH2]].
  - split; [reflexivity|constructor].
  - cbn [slices_by_find]. rewrite (find_from_first _ _ _ _ Hio Ho Hbefore). split.
    + cbn [map]. now rewrite IH1.
    + constructor; auto. now apply occurs_at_text.
Qed.

Theorem slices_by_find_spec s pieces offs : ssorted (tbl s) -> located (base s) 0 pieces offs ->
  map base (slices_by_find s pieces 0) = pieces /\
  Forall2 (slice_of s) offs (slices_by_find s pieces 0).
Proof.
  intros Hs H. apply slices_by_find_located in H as [H1 H2]. rewrite H1. now apply located_slices.
Qed.

(* an empty piece (an empty line of splitlines) is the empty value wherever find puts it *)
Lemma empty_slice s o : slice_fn s (o, 0) = mkA [] [].
Proof.
  unfold slice_fn, getitem_slice, slice_core. cbn [fst snd]. rewrite Nat.add_0_r, !slice_idx_nat.
  now rewrite Nat.leb_refl.
Qed.

Theorem slices_by_find_wf s : ssorted (tbl s) -> nodup_active s -> forall pieces idx,
  Forall wf_piece (slices_by_find s pieces idx).
Proof.
  intros Hs Hn. induction pieces as [|p r IH]; intros idx; cbn [slices_by_find]; [constructor|].
  destruct (find_from (base s) p idx); constructor; auto; now apply slice_wf.
Qed.

(* "a  b a".split() = ['a', 'b', 'a'] *)
Example ex_located : located (tS "a  b a") 0 [tS "a"; tS "b"; tS "a"] [(0, 1); (3, 1); (5, 1)].
Proof.
  apply (loc_cons _ 0 (tS "a") _ 0); [lia|now exists [], (tS "  b a")|intros; lia|].
  apply (loc_cons _ 1 (tS "b") _ 3); [lia|now exists (tS "a  "), (tS " a")| |].
  { apply gap_first_char. intros o' Ho'. assert (H : o' = 1 \/ o' = 2) by lia. destruct H as [->| ->]; discriminate. }
  apply (loc_cons _ 4 (tS "a") _ 5); [lia|now exists (tS "a  b "), []| |constructor].
  apply gap_first_char. intros o' Ho'. assert (H : o' = 4) by lia. subst. discriminate.
Qed.
Example ex_by_find : map (fun p => (base p, t_sets p)) (slices_by_find (t_mk "a  b a") [tS "a"; tS "b"; tS "a"] 0)
  = [(tS "a", [[]]); (tS "b", [[2]]); (tS "a", [[]])].
Proof. reflexivity. Qed.
Example ex_by_find_spec := slices_by_find_spec (t_mk "a  b a") _ _ t_tbl_sorted ex_located.

Print Assumptions strip_text.
Print Assumptions strip_piece.
Print Assumptions strip_wf.
Print Assumptions removeprefix_text.
Print Assumptions removeprefix_piece.
Print Assumptions removesuffix_text.
Print Assumptions removesuffix_piece.
Print Assumptions partition_text.
Print Assumptions rpartition_text.
Print Assumptions partition_pieces.
Print Assumptions rpartition_pieces.
Print Assumptions partition_wf.
Print Assumptions py_split_join.
Print Assumptions py_rsplit_join.
Print Assumptions py_split_offsets_cum.
Print Assumptions split_sep_spec.
Print Assumptions split_sep_wf.
Print Assumptions split_left_offsets.
Print Assumptions py_split_texts_eq.
Print Assumptions slices_by_find_spec.
Print Assumptions slices_by_find_wf.
Print Assumptions strip_piece_at.
Print Assumptions removeprefix_wf.
Print Assumptions removesuffix_wf.
Print Assumptions rpartition_wf.
Print Assumptions partition_concat.
Print Assumptions rpartition_concat.
Print Assumptions slices_cumulative_spec.
Print Assumptions py_rsplit_offsets_cum.
Print Assumptions split_right_offsets.
