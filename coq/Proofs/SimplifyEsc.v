(* C03, simplify() with embedded control sequences that are not SGR.
   RoundTripProofs.C03_simplify is proved under no_esc (base s).  Here the hypothesis is weakened to
   RoundTripEsc.cuts_closed s: the base text is closed (every ESC [ in it starts a complete sequence whose final
   byte is not m, no trailing ESC) and so is its prefix up to every change point of the table.
     1. simplify_esc           - text, exact style, parsable / valid / well formed         (required)
     2. parse_cuts_closed, simplify_cuts_closed - the result satisfies cuts_closed again    (S1)
     3. canonical', canonical_fixed_point', parse_canonical', simplify_idempotent_esc,
        simplify_fixed_point_esc, reparse_fixed_point_esc, C03_simplify_esc                 (S2)          *)
From AS Require Import Base Effects.
From AS.Spec Require Import Terminal.
From AS.Model Require Import Sgr Tokenizer Table Ops Render Parse.
From AS.Proofs Require Import TableProofs SliceProofs PadProofs DecProofs GenCodeTable TokenizerProofs
  SgrProofs SgrAlgebra BasicProofs ApplyProofs RemoveProofs RenderProofs FlagsProofs ParseBasics ParseProofs
  ParsePosition RoundTripProofs RoundTripEsc.
Local Open Scope nat_scope.

(* ====================================================================================== *)
(* 1. simplify under cuts_closed                                                            *)
(* ====================================================================================== *)
(* drop_invalid keeps the keys (it filters the two lists of every point) *)
Lemma drop_invalid_keys t : map fst (drop_invalid t) = map fst t.
Proof. unfold drop_invalid. rewrite map_map. reflexivity. Qed.

Lemma drop_invalid_key_in t k p : In (k, p) (drop_invalid t) -> exists q, In (k, q) t.
Proof.
  intros H. apply (in_map fst) in H. rewrite drop_invalid_keys in H. cbn [fst] in H.
  apply in_map_iff in H as ([k' q] & E & Hin). cbn [fst] in E. subst k'. eauto.
Qed.

Lemma cuts_closed_drop s : cuts_closed s = true -> cuts_closed (mkA (base s) (drop_invalid (tbl s))) = true.
Proof.
  intros H. apply cuts_closed_spec in H as [Hb Hk]. apply cuts_closed_spec. cbn [base tbl]. split; [exact Hb|].
  intros k p Hin. destruct (drop_invalid_key_in _ _ _ Hin) as (q & Hq). eauto.
Qed.

Theorem simplify_esc : forall s n1,
  ssorted (tbl s) -> cuts_closed s = true -> valid_adds_wf (tbl s) ->
  let s1 := fst (simplify s n1) in
  base s1 = base s
  /\ (forall i, i < length (base s) -> teq (style s1 i) (style_of (map stxt (active_at (drop_invalid (tbl s)) i))))
  /\ (coh_marks (tbl s) -> forall i, i < length (base s) -> teq (style s1 i) (style_valid s i))
  /\ is_parsable_tbl (tbl s1) = true /\ is_valid_tbl (tbl s1) = true /\ rm_wf s1.
Proof.
  intros s n1 Hs Hcc Hwf s1. unfold s1. rewrite simplify_def.
  set (s0 := mkA (base s) (drop_invalid (tbl s))).
  assert (H0 : ssorted (tbl s0)) by (apply drop_invalid_sorted; exact Hs).
  assert (H1 : adds_wf (tbl s0)) by (apply drop_invalid_wf; exact Hwf).
  assert (H2 : cuts_closed s0 = true) by (apply cuts_closed_drop; exact Hcc).
  destruct (roundtrip_esc_render s0 n1 H0 H1 H2) as (B & S & W & P & V).
  cbn [base] in B, S. split; [exact B|]. split; [exact S|]. split.
  - intros Hc i Hi. unfold style_valid. rewrite <- drop_invalid_active by exact Hc. now apply S.
  - auto.
Qed.

(* it covers the theorem under no_esc (first six clauses of RoundTripProofs.C03_simplify) *)
Corollary simplify_esc_covers_no_esc : forall s n1,
  ssorted (tbl s) -> no_esc (base s) = true -> valid_adds_wf (tbl s) ->
  let s1 := fst (simplify s n1) in
  base s1 = base s
  /\ (forall i, i < length (base s) -> teq (style s1 i) (style_of (map stxt (active_at (drop_invalid (tbl s)) i))))
  /\ (coh_marks (tbl s) -> forall i, i < length (base s) -> teq (style s1 i) (style_valid s i))
  /\ is_parsable_tbl (tbl s1) = true /\ is_valid_tbl (tbl s1) = true /\ rm_wf s1.
Proof. intros s n1 Hs He Hwf. apply simplify_esc; auto. now apply no_esc_cuts_closed. Qed.

(* ---------- non-vacuity ---------- *)
(* "A" ESC [ 2 J "B": bold (valid) and "1A" (INVALID) on "A", both end right in front of the embedded sequence;
   italic on "B", starting right after it *)
Definition ex_ei : astr :=
  mkA [65; 27; 91; 50; 74; 66]%N
      [(0, mkP [mkS 1 [49]%N; mkS 2 [49; 65]%N] []);
       (1, mkP [] [mkS 1 [49]%N; mkS 2 [49; 65]%N]);
       (5, mkP [mkS 3 [51]%N] []);
       (6, mkP [] [mkS 3 [51]%N])].

Example ex_ei_hyps :
  ssorted (tbl ex_ei) /\ cuts_closed ex_ei = true /\ valid_adds_wf (tbl ex_ei) /\ coh_marks (tbl ex_ei)
  /\ no_esc (base ex_ei) = false /\ is_valid_tbl (tbl ex_ei) = false
  /\ drop_invalid (tbl ex_ei) <> tbl ex_ei.
Proof.
  split; [apply ssorted_check; reflexivity|]. split; [reflexivity|]. split.
  { intros x H Hv. cbn in H.
    repeat (destruct H as [<-|H]; [first [reflexivity | (exfalso; vm_compute in Hv; discriminate)]|]). destruct H. }
  split; [apply cohL_check; vm_compute; reflexivity|].
  split; [reflexivity|]. split; [vm_compute; reflexivity|]. vm_compute. discriminate.
Qed.

Example ex_ei_simplify :
  base (fst (simplify ex_ei 10)) = base ex_ei
  /\ tbl (fst (simplify ex_ei 10))
     = [(0, mkP [mkS 11 [49]%N] []);
        (1, mkP [] [mkS 11 [49]%N]);
        (5, mkP [mkS 14 [51]%N] []);
        (6, mkP [] [mkS 14 [51]%N])]
  /\ render (fst (simplify ex_ei 10))
     = [27; 91; 49; 109; 65; 27; 91; 109; 27; 91; 50; 74; 27; 91; 51; 109; 66; 27; 91; 109]%N
  /\ map (fun i => tstate_obs (style (fst (simplify ex_ei 10)) i)) [0; 1; 2; 3; 4; 5]
     = map (fun i => tstate_obs (style_valid ex_ei i)) [0; 1; 2; 3; 4; 5]
  /\ cuts_closed (fst (simplify ex_ei 10)) = true
  /\ render (fst (simplify (fst (simplify ex_ei 10)) 20)) = render (fst (simplify ex_ei 10))
  /\ render (fst (parse (render (fst (simplify ex_ei 10))) 20)) = render (fst (simplify ex_ei 10)).
Proof.
  split; [vm_compute; reflexivity|]. split; [vm_compute; reflexivity|]. split; [vm_compute; reflexivity|].
  split; [vm_compute; reflexivity|]. split; [vm_compute; reflexivity|]. split; vm_compute; reflexivity.
Qed.

(* ====================================================================================== *)
(* 2. (S1) the change points of a parsed value are positions of SGR sequences               *)
(* ====================================================================================== *)
Lemma keys_in_refl t a b : keys_in t t a b.
Proof. intros kp Hin. right. right. now apply in_map. Qed.

Lemma step_remove_keys s sel key : rm_wf s -> key < length (base s) ->
  let r := if is_nil sel then s else remove_fmt s (Some sel) (Some (Z.of_nat key)) None in
  keys_in (tbl r) (tbl s) key (length (base s)).
Proof.
  intros Hwf Hkey. destruct sel as [|a sel]; cbn [is_nil]; [apply keys_in_refl|].
  destruct (remove_fmt_core s (Some (a :: sel)) (Some (Z.of_nat key)) None (range_ok _ _ Hkey)) as (Er & _).
  rewrite (slice_idx_nat _ _ Hkey) in Er.
  change (slice_idx (length (base s)) None (length (base s))) with (length (base s)) in Er.
  rewrite Er. apply remove_core_keys_in.
Qed.

Lemma step_apply_keys s news key : rm_wf s -> key < length (base s) ->
  keys_in (tbl (apply_fmt s news (Some (Z.of_nat key)) None true)) (tbl s) key (length (base s)).
Proof.
  intros (Hs & _) Hkey.
  destruct (apply_fmt_cases s news (Some (Z.of_nat key)) None true) as [E|(E & H1 & H2)].
  - rewrite E. apply keys_in_refl.
  - rewrite (slice_idx_nat _ _ Hkey) in E, H1.
    change (slice_idx (length (base s)) None (length (base s))) with (length (base s)) in E, H1.
    rewrite E. now apply apply_core_keys_in.
Qed.

(* one parse step creates change points only at its own position and at the end of the text *)
Lemma parse_step_keys s cur key body nid : PInv s cur key nid -> key < length (base s) ->
  keys_in (tbl (fst (fst (parse_step s cur key body nid)))) (tbl s) key (length (base s)).
Proof.
  intros (Hwf & Hids & Hcur & Hrep & Hmid) Hkey.
  destruct (pgs_str_ok body) as (texts & Hp).
  rewrite (parse_step_unfold _ _ _ _ _ _ Hp). cbv zeta. cbn [fst snd].
  set (to_rem := step_rem cur nid texts). set (to_app := step_app cur nid texts).
  pose proof (step_remove s to_rem key Hwf Hkey) as H1. cbv zeta in H1.
  pose proof (step_remove_keys s to_rem key Hwf Hkey) as K1. cbv zeta in K1.
  set (s1 := if is_nil to_rem then s else remove_fmt s (Some to_rem) (Some (Z.of_nat key)) None) in *.
  destruct H1 as (Hb1 & Hwf1 & _).
  set (news := fst (fresh to_app (nid + length texts))).
  assert (Hkey1 : key < length (base s1)) by (rewrite Hb1; auto).
  pose proof (step_apply_keys s1 news key Hwf1 Hkey1) as K2. rewrite Hb1 in K2.
  intros kp Hin. destruct (K2 kp Hin) as [E|[E|Hi]]; [now left|right; now left|].
  apply in_map_iff in Hi as (kp' & E & Hin'). rewrite <- E. now apply K1.
Qed.

(* all change points of the value lie at closed prefixes of the text *)
Definition KC (text : str) (s : astr) : Prop :=
  forall kp, In kp (tbl s) -> closed_text (firstn (fst kp) text) = true.

Lemma closed_txt_of l : Forall tok_ok' l -> closed_text (txt_of l) = true.
Proof.
  induction 1 as [|k l Hk Hl IH]; [reflexivity|].
  change (txt_of (k :: l)) with ((match k with OText s => s | OSgr _ => [] end) ++ txt_of l).
  destruct k as [x|c]; [|exact IH]. now apply closed_text_app.
Qed.

Lemma parse_keys_loop text : closed_text text = true -> forall toks pos sx cur nid,
  PInv sx cur pos nid -> base sx = text -> Forall tok_ok' toks ->
  closed_text (firstn pos text) = true -> skipn pos text = txt_of toks -> KC text sx ->
  KC text (fst (fst (parse_fold text (seqs_flat (toks_of toks) pos) (sx, cur, nid)))).
Proof.
  intros Htext. induction toks as [|[x|b] toks IH]; intros pos sx cur nid Hinv Hb Hok Hpre Hskip HK.
  - exact HK.
  - inversion Hok as [|? ? Hx Hok']; subst. cbn [tok_ok'] in Hx.
    unfold toks_of. cbn [flat_map tok_of]. fold (toks_of toks). rewrite seqs_flat_chars.
    change (txt_of (OText x :: toks)) with (x ++ txt_of toks) in Hskip.
    apply IH; auto.
    + eapply PInv_mono; eauto. lia.
    + rewrite firstn_add, Hskip. rewrite firstn_app, Nat.sub_diag, firstn_all, firstn_O, app_nil_r.
      now apply closed_text_app.
    + rewrite <- skipn_add, Hskip. rewrite skipn_app, Nat.sub_diag, skipn_all. reflexivity.
  - inversion Hok as [|? ? _ Hok']; subst.
    unfold toks_of. cbn [flat_map tok_of app seqs_flat]. fold (toks_of toks). rewrite parse_fold_cons. cbn [fst snd cs_body].
    change (txt_of (OSgr b :: toks)) with (txt_of toks) in Hskip.
    destruct (length (base sx) <=? pos) eqn:E; [now apply IH|]. apply Nat.leb_gt in E.
    pose proof (parse_step_inv sx cur pos b nid Hinv E) as Hst. cbv zeta in Hst.
    pose proof (parse_step_keys sx cur pos b nid Hinv E) as Hkeys.
    destruct (parse_step sx cur pos b nid) as [[s1 cur1] nid1]. cbn [fst snd] in Hst, Hkeys.
    destruct Hst as (Hinv1 & Hn1 & Hb1 & Hlo1).
    apply IH; auto.
    intros kp Hin. destruct (Hkeys kp Hin) as [->|[->|Hi]].
    + exact Hpre.
    + now rewrite firstn_all.
    + apply in_map_iff in Hi as (kp' & <- & Hin'). now apply HK.
Qed.

(* parsing the bytes of a token list whose text pieces are closed gives a value with closed cuts *)
Theorem parse_cuts_closed toks nid : Forall tok_ok' toks -> cuts_closed (fst (parse (bytes_of toks) nid)) = true.
Proof.
  intros Hok.
  assert (Htk : tkz (bytes_of toks) = toks_of toks) by now apply tokenize_bytes'.
  assert (Hbase : base (fst (parse (bytes_of toks) nid)) = txt_of toks).
  { rewrite parse_base. fold (tkz (bytes_of toks)). rewrite Htk. apply unformatted_toks_of. }
  pose proof (closed_txt_of toks Hok) as Hcl.
  apply cuts_closed_spec. rewrite Hbase. split; [exact Hcl|].
  intros k p Hin. revert Hin. rewrite parse_eq. cbv zeta. cbn [fst]. fold (tkz (bytes_of toks)).
  rewrite Htk, unformatted_toks_of. intros Hin.
  exact (parse_keys_loop (txt_of toks) Hcl toks 0 (mkA (txt_of toks) []) [] nid (PInv_init _ _) eq_refl Hok
           eq_refl eq_refl ltac:(intros kp []) (k, p) Hin).
Qed.

Theorem parse_to_str_cuts_closed s opt rs re nid : cuts_closed s = true -> adds_wf (tbl s) ->
  cuts_closed (fst (parse (to_str s opt rs re) nid)) = true.
Proof. intros Hcc Hwf. unfold to_str. apply parse_cuts_closed. now apply to_str_toks_ok'. Qed.

(* (S1) *)
Theorem simplify_cuts_closed s n1 : cuts_closed s = true -> valid_adds_wf (tbl s) ->
  cuts_closed (fst (simplify s n1)) = true.
Proof.
  intros Hcc Hwf. rewrite simplify_def. apply parse_to_str_cuts_closed.
  - now apply cuts_closed_drop.
  - cbn [tbl]. now apply drop_invalid_wf.
Qed.


(* ====================================================================================== *)
(* 3. (S2) the canonical-form argument with closed texts in place of ESC-free ones          *)
(* ====================================================================================== *)
(* ---------- 3a. the list of active texts changes only at a change point ---------- *)
Lemma AT_no_key c k : ssorted (tbl c) -> (forall kp, In kp (tbl c) -> fst kp <> k) -> AT c k = Ap (AT c) k.
Proof.
  intros Hs Hk. unfold AT. destruct k as [|j]; cbn [Ap].
  - rewrite active_at_run by exact Hs. unfold upto. rewrite filter_none; [reflexivity|].
    intros kp Hin. apply Nat.leb_gt. specialize (Hk kp Hin). lia.
  - rewrite !active_at_run by exact Hs. f_equal. f_equal. unfold upto. apply filter_ext_in.
    intros kp Hin. specialize (Hk kp Hin).
    destruct (Nat.leb_spec (fst kp) (S j)); destruct (Nat.leb_spec (fst kp) j); try reflexivity; lia.
Qed.

Lemma emc_at_key c k b : ssorted (tbl c) -> canonL (AT c k) ->
  emc (Ap (AT c) k) (AT c k) = Some b -> exists p, In (k, p) (tbl c).
Proof.
  intros Hs Hc Hb. destruct (in_dec Nat.eq_dec k (map fst (tbl c))) as [H|H].
  - apply in_map_iff in H as ([k' p] & E & Hin). cbn [fst] in E. subst k'. eauto.
  - exfalso. rewrite <- (AT_no_key c k Hs) in Hb.
    + rewrite emc_same in Hb by exact Hc. discriminate.
    + intros kp Hin E. apply H. rewrite <- E. now apply in_map.
Qed.

(* what the canonical rendering emits is a numeric body (from the proof of RoundTripProofs.ptoks_ok) *)
Lemma emc_numeric Lp Ln b : nfL Ln -> emc Lp Ln = Some b -> numeric b = true.
Proof.
  intros Hn Eb. unfold emc, em in Eb. cbv zeta in Eb.
  assert (HnD : nfL (dcodes Lp Ln)) by (apply nfL_app; [apply nfL_clears|now apply nfL_news]).
  destruct (is_nil (jn (dcodes Lp Ln))); [discriminate|]. inversion Eb as [Eb']. clear Eb.
  destruct (_ <? _); [now apply numeric_jn_nf|].
  destruct (negb (is_nil Lp) && negb (is_nil Ln)) eqn:E; [|now apply numeric_jn_nf].
  apply andb_true_iff in E as [_ E]. apply negb_true_iff in E.
  rewrite jn_cons by (intros E'; rewrite E' in E; discriminate). cbn [app].
  apply numeric_zero_prefix. now apply numeric_jn_nf.
Qed.

(* ---------- 3b. the canonical rendering, with the text in pieces between the sequences ---------- *)
(* ptoks emits one text token per character; a single character of an embedded sequence is not closed, so the
   same bytes are produced here with the text accumulated up to the next sequence *)
Fixpoint ctoks (s : str) (k : nat) (Lp : list str) (A : nat -> list str) (acc : str) : list otok :=
  match s with
  | [] => (if is_nil acc then [] else [OText acc]) ++ (if is_nil Lp then [] else [OSgr []])
  | ch :: s' => match emc Lp (A k) with
                | Some b => (if is_nil acc then [] else [OText acc]) ++ OSgr b :: ctoks s' (S k) (A k) A [ch]
                | None => ctoks s' (S k) (A k) A (acc ++ [ch])
                end
  end.

Lemma ctoks_bytes A : forall s k Lp acc, bytes_of (ctoks s k Lp A acc) = acc ++ prender s k Lp A.
Proof.
  induction s as [|ch s IH]; intros k Lp acc; cbn [ctoks prender].
  - rewrite bytes_of_app, bytes_opt_text. now destruct (is_nil Lp).
  - destruct (emc Lp (A k)) as [b|].
    + rewrite bytes_of_app, bytes_opt_text.
      change (bytes_of (OSgr b :: ctoks s (S k) (A k) A [ch]))
        with ((ESC :: LBR :: b ++ [CH_m]) ++ bytes_of (ctoks s (S k) (A k) A [ch])).
      rewrite IH. cbn [emit]. reflexivity.
    + rewrite IH, <- app_assoc. reflexivity.
Qed.

Lemma toks_of_app a b : toks_of (a ++ b) = toks_of a ++ toks_of b.
Proof. unfold toks_of. apply flat_map_app. Qed.

Lemma toks_opt_text x : toks_of (if is_nil x then [] else [OText x]) = map TChar x.
Proof. destruct x; [reflexivity|]. cbn [is_nil toks_of flat_map tok_of]. now rewrite app_nil_r. Qed.

Lemma ctoks_toks A : forall s k Lp acc, toks_of (ctoks s k Lp A acc) = map TChar acc ++ toks_of (ptoks s k Lp A).
Proof.
  induction s as [|ch s IH]; intros k Lp acc; cbn [ctoks ptoks].
  - now rewrite toks_of_app, toks_opt_text.
  - destruct (emc Lp (A k)) as [b|].
    + rewrite toks_of_app, toks_opt_text. f_equal.
      change (toks_of (OSgr b :: ctoks s (S k) (A k) A [ch]))
        with (tok_of (OSgr b) ++ toks_of (ctoks s (S k) (A k) A [ch])).
      rewrite IH. reflexivity.
    + rewrite IH, map_app, <- app_assoc. reflexivity.
Qed.

Lemma ctoks_ok T A : closed_text T = true ->
  (forall k b, k < length T -> emc (Ap A k) (A k) = Some b ->
     closed_text (firstn k T) = true /\ nonfinal b = true) ->
  forall s k a Lp, s = skipn k T -> a <= k -> k <= length T -> closed_text (firstn a T) = true -> Lp = Ap A k ->
  Forall tok_ok' (ctoks s k Lp A (str_slice T a k)).
Proof.
  intros HT Hem. induction s as [|ch s IH]; intros k a Lp Es Hak Hk Ha ELp; cbn [ctoks].
  - assert (k = length T).
    { pose proof (skipn_length k T) as Hl. rewrite <- Es in Hl. cbn [length] in Hl. lia. }
    subst k. rewrite slice_to_end. apply Forall_app. split.
    + apply tok_ok'_opt_text. now apply closed_tail.
    + destruct (is_nil Lp); repeat constructor.
  - assert (Hlt : k < length T).
    { pose proof (skipn_length k T) as Hl. rewrite <- Es in Hl. cbn [length] in Hl. lia. }
    destruct (skipn_S_nth T k Hlt) as (ch' & E). rewrite E in Es. inversion Es; subst ch' s.
    pose proof (slice_S T k ch E) as Hsl.
    destruct (emc Lp (A k)) as [b|] eqn:Eb.
    + rewrite ELp in Eb. destruct (Hem k b Hlt Eb) as [Hck Hnb].
      apply Forall_app. split; [apply tok_ok'_opt_text; now apply closed_slice|].
      constructor; [exact Hnb|]. rewrite <- Hsl. apply (IH (S k) k (A k)); auto; lia.
    + rewrite <- Hsl, slice_cat by lia. apply (IH (S k) a (A k)); auto; lia.
Qed.

(* ---------- 3c. canonical values and the fixed point ---------- *)
Definition canonical' (c : astr) : Prop :=
  rm_wf c /\ adds_parsable (tbl c) /\ cuts_closed c = true
  /\ (forall k, canonL (AT c k)) /\ (forall k, nfL (AT c k))
  /\ (forall k, k < length (base c) -> K3 (Ap (AT c) k) (AT c k)).

Lemma canonical_canonical' c : canonical c -> canonical' c.
Proof.
  intros (H1 & H2 & H3 & H4). split; [exact H1|]. split; [exact H2|]. split; [now apply no_esc_cuts_closed|exact H4].
Qed.

Lemma canonical_render' c : canonical' c -> render c = prender (base c) 0 [] (AT c).
Proof.
  intros ((Hs & _ & Hst & _) & Hp & _ & Hc & _). destruct c as [s tb]. cbn [base tbl] in *.
  unfold render. apply (render_prender s tb Hs Hst Hc). now apply adds_parsable_tbl.
Qed.

Lemma canonical_ctoks c : canonical' c ->
  render c = bytes_of (ctoks (base c) 0 [] (AT c) [])
  /\ Forall tok_ok' (ctoks (base c) 0 [] (AT c) [])
  /\ tkz (render c) = toks_of (ptoks (base c) 0 [] (AT c)).
Proof.
  intros Hcan. pose proof Hcan as (Hwf & Hp & Hcc & Hc & Hn & Hk3).
  assert (Hr : render c = bytes_of (ctoks (base c) 0 [] (AT c) [])).
  { rewrite ctoks_bytes. cbn [app]. now apply canonical_render'. }
  assert (Hok : Forall tok_ok' (ctoks (base c) 0 [] (AT c) [])).
  { apply cuts_closed_spec in Hcc as [Hb Hkeys].
    pose proof (ctoks_ok (base c) (AT c) Hb) as H. rewrite <- (slice_empty (base c) 0).
    apply H; try reflexivity; try lia.
    intros k b Hk Eb. split.
    - destruct (emc_at_key c k b ltac:(apply Hwf) (Hc k) Eb) as (p & Hin). eauto.
    - apply dsc_nonfinal. exact (emc_numeric _ _ b (Hn k) Eb). }
  split; [exact Hr|]. split; [exact Hok|].
  rewrite Hr, (tokenize_bytes' _ Hok), ctoks_toks. reflexivity.
Qed.

Theorem canonical_fixed_point' c n : canonical' c ->
  let c' := fst (parse (render c) n) in
  render c' = render c /\ canonical' c' /\ base c' = base c /\ forall k, AT c' k = AT c k.
Proof.
  intros Hcan c'. pose proof Hcan as (Hwf & Hp & Hcc & Hc & Hn & Hk3).
  destruct (canonical_ctoks c Hcan) as (Hr & Hok & Htk).
  set (text := base c) in *. set (A := AT c) in *.
  assert (Hbase : base c' = text).
  { unfold c'. rewrite parse_base, Htk, unformatted_toks_of. apply ptoks_text. }
  assert (HAT : forall k, AT c' k = A k).
  { intros k. destruct (lt_dec k (length text)) as [Hlt|Hge].
    - unfold c'. rewrite parse_eq. cbv zeta. cbn [fst]. rewrite Htk, unformatted_toks_of, ptoks_text.
      pose proof (reparse_loop text A Hc Hn Hk3 text 0 [] (mkA text []) [] n (PInv_init _ _) eq_refl eq_refl
                 ltac:(intros j _; reflexivity) eq_refl k Hlt) as Hrp.
      cbv zeta in Hrp. etransitivity; [exact Hrp|reflexivity].
    - unfold A. rewrite (AT_beyond c k Hwf) by (fold text; lia).
      apply AT_beyond; [apply parse_wf|]. rewrite Hbase. lia. }
  assert (Hcan' : canonical' c').
  { split; [apply parse_wf|]. split; [apply parse_adds_parsable|]. split.
    { unfold c'. rewrite Hr. now apply parse_cuts_closed. }
    split; [intros k; rewrite HAT; apply Hc|]. split; [intros k; rewrite HAT; apply Hn|].
    intros k Hk. rewrite Hbase in Hk. rewrite HAT. replace (Ap (AT c') k) with (Ap A k).
    - now apply Hk3.
    - destruct k; [reflexivity|]. cbn [Ap]. now rewrite HAT. }
  split; [|split; [exact Hcan'|split; [exact Hbase|exact HAT]]].
  rewrite (canonical_render' c' Hcan'), (canonical_render' c Hcan), Hbase. fold text. now apply prender_ext.
Qed.

(* ---------- 3d. parsing a rendering gives a canonical value ---------- *)
Theorem parse_canonical' toks nid : Forall tok_ok' toks -> Forall tok_num toks -> sep true toks ->
  canonical' (fst (parse (bytes_of toks) nid)) /\ base (fst (parse (bytes_of toks) nid)) = txt_of toks.
Proof.
  intros Hok Hnum Hsep.
  assert (Htk : tkz (bytes_of toks) = toks_of toks) by now apply tokenize_bytes'.
  assert (Hbase : base (fst (parse (bytes_of toks) nid)) = txt_of toks).
  { rewrite parse_base, Htk. apply unformatted_toks_of. }
  split; [|exact Hbase]. split; [apply parse_wf|]. split; [apply parse_adds_parsable|]. split.
  { now apply parse_cuts_closed. }
  rewrite Hbase. rewrite parse_eq. cbv zeta. cbn [fst]. rewrite Htk, unformatted_toks_of.
  apply (parse_sep_loop (txt_of toks) toks 0 (mkA (txt_of toks) []) [] nid true); auto.
  split; [apply PInv_init|]. split; [reflexivity|]. split; [intros k; apply canonL_nil|]. split; [intros k t []|].
  split; [intros k Hk; lia|]. intros _. split; [reflexivity|discriminate].
Qed.

Theorem parse_to_str_canonical' s opt rs re nid :
  ssorted (tbl s) -> cuts_closed s = true -> adds_wf (tbl s) ->
  canonical' (fst (parse (to_str s opt rs re) nid)).
Proof.
  intros Hs Hcc Hwf. unfold to_str.
  apply parse_canonical'; [now apply to_str_toks_ok'|now apply to_str_toks_num|now apply to_str_toks_sep].
Qed.

Theorem simplify_canonical' s nid :
  ssorted (tbl s) -> cuts_closed s = true -> valid_adds_wf (tbl s) -> canonical' (fst (simplify s nid)).
Proof.
  intros Hs Hcc Hwf. rewrite simplify_def. apply parse_to_str_canonical'; cbn [tbl].
  - now apply drop_invalid_sorted.
  - now apply cuts_closed_drop.
  - now apply drop_invalid_wf.
Qed.

(* ---------- 3e. stability ---------- *)
Theorem simplify_fixed_point_esc s n1 n :
  ssorted (tbl s) -> cuts_closed s = true -> valid_adds_wf (tbl s) ->
  let s1 := fst (simplify s n1) in
  render (fst (parse (render s1) n)) = render s1.
Proof. intros Hs Hcc Hwf s1. apply canonical_fixed_point'. now apply simplify_canonical'. Qed.

Theorem reparse_fixed_point_esc s nid n :
  ssorted (tbl s) -> cuts_closed s = true -> adds_wf (tbl s) ->
  let c := fst (parse (render s) nid) in
  render (fst (parse (render c) n)) = render c.
Proof. intros Hs Hcc Hwf c. apply canonical_fixed_point'. now apply parse_to_str_canonical'. Qed.

Theorem simplify_idempotent_esc s n1 n2 :
  ssorted (tbl s) -> cuts_closed s = true -> valid_adds_wf (tbl s) ->
  render (fst (simplify (fst (simplify s n1)) n2)) = render (fst (simplify s n1)).
Proof.
  intros Hs Hcc Hwf. rewrite (simplify_def s n1) at 1. rewrite simplify_of_parse. rewrite <- simplify_def.
  now apply simplify_fixed_point_esc.
Qed.

(* ====================================================================================== *)
(* 4. Assembled: C03_simplify and C03_roundtrip with cuts_closed in place of no_esc         *)
(* ====================================================================================== *)
Theorem C03_simplify_esc : forall s n1,
  ssorted (tbl s) -> cuts_closed s = true -> valid_adds_wf (tbl s) ->
  let s1 := fst (simplify s n1) in
  base s1 = base s
  /\ (forall i, i < length (base s) -> teq (style s1 i) (style_of (map stxt (active_at (drop_invalid (tbl s)) i))))
  /\ (coh_marks (tbl s) -> forall i, i < length (base s) -> teq (style s1 i) (style_valid s i))
  /\ is_parsable_tbl (tbl s1) = true /\ is_valid_tbl (tbl s1) = true /\ rm_wf s1
  /\ (forall n2, render (fst (simplify s1 n2)) = render s1)
  /\ (forall n, render (fst (parse (render s1) n)) = render s1)
  /\ cuts_closed s1 = true /\ valid_adds_wf (tbl s1) /\ ssorted (tbl s1).
Proof.
  intros s n1 Hs Hcc Hwf s1.
  destruct (simplify_esc s n1 Hs Hcc Hwf) as (B & S1 & S2 & P & V & W).
  split; [exact B|]. split; [exact S1|]. split; [exact S2|]. split; [exact P|]. split; [exact V|]. split; [exact W|].
  split; [intros n2; now apply simplify_idempotent_esc|]. split; [intros n; now apply simplify_fixed_point_esc|].
  split; [now apply simplify_cuts_closed|]. split; [|apply W].
  intros x Hx _. apply parsable_wf. unfold s1 in Hx. rewrite simplify_def in Hx.
  exact (parse_adds_parsable _ _ x Hx).
Qed.

Theorem C03_roundtrip_esc_full : forall s nid,
  ssorted (tbl s) -> cuts_closed s = true -> adds_wf (tbl s) ->
  let s' := fst (parse (render s) nid) in
  base s' = base s
  /\ (forall i, i < length (base s) -> teq (style s' i) (style s i))
  /\ rm_wf s' /\ is_parsable_tbl (tbl s') = true /\ is_valid_tbl (tbl s') = true
  /\ (forall n, render (fst (parse (render s') n)) = render s')
  /\ cuts_closed s' = true.
Proof.
  intros s nid Hs Hcc Hwf s'. destruct (roundtrip_esc_render s nid Hs Hwf Hcc) as (B & S & W & P & V).
  split; [exact B|]. split; [exact S|]. split; [exact W|]. split; [exact P|]. split; [exact V|].
  split; [intros n; now apply reparse_fixed_point_esc|]. now apply parse_to_str_cuts_closed.
Qed.

(* ====================================================================================== *)
(* 5. Non-vacuity of sections 2-4, and the hypothesis is needed                              *)
(* ====================================================================================== *)
(* a canonical' value that is not canonical (its text contains ESC) *)
Example canonical'_ex :
  canonical' (fst (simplify ex_ei 10)) /\ ~ canonical (fst (simplify ex_ei 10))
  /\ tbl (fst (simplify ex_ei 10)) <> [].
Proof.
  destruct ex_ei_hyps as (H1 & H2 & H3 & _).
  split; [now apply simplify_canonical'|]. split; [|vm_compute; discriminate].
  intros (_ & _ & He & _). vm_compute in He. discriminate He.
Qed.

(* the pieces: ESC[1m  A  ESC[m  ESC [ 2 J  ESC[3m  B  ESC[m  - the embedded sequence is ONE text token of ctoks
   (closed), while ptoks has it as four single characters, the first of which (ESC alone) is not closed *)
Example ctoks_ex :
  let c := fst (simplify ex_ei 10) in
  ctoks (base c) 0 [] (AT c) []
  = [OSgr [49]%N; OText [65]%N; OSgr []; OText [27; 91; 50; 74]%N; OSgr [51]%N; OText [66]%N; OSgr []]
  /\ Forall tok_ok' (ctoks (base c) 0 [] (AT c) [])
  /\ ~ Forall tok_ok' (ptoks (base c) 0 [] (AT c))
  /\ bytes_of (ctoks (base c) 0 [] (AT c) []) = render c
  /\ toks_of (ctoks (base c) 0 [] (AT c) []) = toks_of (ptoks (base c) 0 [] (AT c)).
Proof.
  cbv zeta. split; [vm_compute; reflexivity|]. split.
  { destruct (canonical_ctoks _ (proj1 canonical'_ex)) as (_ & H & _). exact H. }
  split; [|split; vm_compute; reflexivity].
  intros H. rewrite Forall_forall in H. specialize (H (OText [27]%N)).
  assert (Hin : In (OText [27]%N) (ptoks (base (fst (simplify ex_ei 10))) 0 [] (AT (fst (simplify ex_ei 10))))).
  { vm_compute. tauto. }
  specialize (H Hin). clear Hin. cbn [tok_ok'] in H. vm_compute in H. discriminate H.
Qed.

(* a token list for parse_cuts_closed / parse_canonical' *)
Example parse_canonical'_ex :
  let l := [OSgr [49; 59; 51]%N; OText [65; 27; 91; 50; 74]%N; OSgr []; OText [67]%N; OSgr [52]%N] in
  Forall tok_ok' l /\ Forall tok_num l /\ sep true l /\ ~ Forall tok_ok l
  /\ cuts_closed (fst (parse (bytes_of l) 7)) = true
  /\ map fst (tbl (fst (parse (bytes_of l) 7))) = [0; 5].
Proof.
  cbv zeta. split; [repeat constructor|]. split; [repeat constructor|]. split; [cbn; auto|]. split.
  { intros H. inversion H as [|? ? _ H2]; subst. inversion H2 as [|? ? H3 _]; subst.
    cbn [tok_ok] in H3. vm_compute in H3. discriminate. }
  split; vm_compute; reflexivity.
Qed.

(* hypotheses of C03_roundtrip_esc_full: RoundTripEsc.ex_e_hyps; its fixed point, computed *)
Example roundtrip_full_ex :
  ssorted (tbl ex_e) /\ adds_wf (tbl ex_e) /\ cuts_closed ex_e = true /\ no_esc (base ex_e) = false
  /\ let c := fst (parse (render ex_e) 7) in
     render (fst (parse (render c) 30)) = render c /\ cuts_closed c = true.
Proof.
  destruct ex_e_hyps as (H1 & H2 & H3 & H4).
  split; [exact H1|]. split; [exact H2|]. split; [exact H3|]. split; [exact H4|].
  cbv zeta. split; vm_compute; reflexivity.
Qed.

(* cuts_closed is needed: with a change point strictly inside ESC [ 2 J (RoundTripEsc.ex_inside) simplify()
   changes the TEXT (known finding K1) *)
Example simplify_cut_inside_breaks :
  ssorted (tbl ex_inside) /\ valid_adds_wf (tbl ex_inside) /\ closed_text (base ex_inside) = true
  /\ cuts_closed ex_inside = false
  /\ base (fst (simplify ex_inside 7)) = [65; 27; 91; 27; 91; 109; 50; 74; 66]%N
  /\ base (fst (simplify ex_inside 7)) <> base ex_inside.
Proof.
  destruct cut_inside_breaks as (H1 & H2 & H3 & H4 & _).
  split; [exact H1|]. split; [intros x Hx _; now apply H2|]. split; [exact H3|]. split; [exact H4|].
  split; [vm_compute; reflexivity|]. vm_compute. discriminate.
Qed.

Print Assumptions simplify_esc.
Print Assumptions parse_cuts_closed.
Print Assumptions simplify_cuts_closed.
Print Assumptions canonical_fixed_point'.
Print Assumptions parse_canonical'.
Print Assumptions simplify_canonical'.
Print Assumptions simplify_fixed_point_esc.
Print Assumptions reparse_fixed_point_esc.
Print Assumptions simplify_idempotent_esc.
Print Assumptions C03_simplify_esc.
Print Assumptions C03_roundtrip_esc_full.
