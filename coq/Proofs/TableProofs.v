(* Basic facts about the change-point table: sortedness, dictionary operations, replay. *)
From AS Require Import Base.
From AS.Model Require Import Table.

(* keys strictly increasing *)
Inductive ssorted : fmts -> Prop :=
| ss_nil : ssorted []
| ss_cons k p t : (forall kp, In kp t -> k < fst kp) -> ssorted t -> ssorted ((k, p) :: t).

Lemma ssorted_tail k p t : ssorted ((k, p) :: t) -> ssorted t.
Proof. inversion 1; auto. Qed.

Definition stepf (a : list setting) (kp : nat * point) : list setting := step a (snd kp).
Definition run (act : list setting) (t : fmts) : list setting := fold_left stepf t act.
Definition upto (i : nat) (t : fmts) : fmts := filter (fun kp => fst kp <=? i) t.

Lemma run_app a t1 t2 : run a (t1 ++ t2) = run (run a t1) t2.
Proof. unfold run. now rewrite fold_left_app. Qed.

Lemma upto_all_gt i k t : (forall kp, In kp t -> k < fst kp) -> i < k -> upto i t = [].
Proof.
  intros H Hi. unfold upto. induction t as [|kp t IH]; simpl; auto.
  assert (k < fst kp) by (apply H; now left).
  replace (fst kp <=? i) with false by (symmetry; apply Nat.leb_gt; lia).
  apply IH. intros; apply H; now right.
Qed.

(* the early-exit replay equals replaying the filtered table when keys are sorted *)
Lemma active_upto_run t : ssorted t -> forall i act, active_upto t i act = run act (upto i t).
Proof.
  induction 1 as [|k p t Hk Hs IH]; intros i act; simpl; auto.
  destruct (k <=? i) eqn:E.
  - simpl. rewrite IH. reflexivity.
  - apply Nat.leb_gt in E. rewrite (upto_all_gt i k t Hk E). reflexivity.
Qed.

Corollary active_at_run t i : ssorted t -> active_at t i = run [] (upto i t).
Proof. intros H. unfold active_at. now apply active_upto_run. Qed.

Lemma final_active_run t : final_active t = run [] t.
Proof. reflexivity. Qed.

Lemma upto_split t : ssorted t -> forall a b, a <= b ->
  upto b t = upto a t ++ filter (fun kp => (a <? fst kp) && (fst kp <=? b)) t.
Proof.
  induction 1 as [|k p t Hk Hs IH]; intros a b Hab; simpl; auto.
  destruct (k <=? a) eqn:Ea.
  - apply Nat.leb_le in Ea. assert (Eb : k <=? b = true) by (apply Nat.leb_le; lia). rewrite Eb.
    assert (En : a <? k = false) by (apply Nat.ltb_ge; lia). rewrite En. simpl. f_equal. now apply IH.
  - apply Nat.leb_gt in Ea. assert (En : a <? k = true) by (apply Nat.ltb_lt; lia). rewrite En. simpl.
    rewrite (upto_all_gt a k t Hk Ea). simpl. destruct (k <=? b) eqn:Eb.
    + f_equal. rewrite (IH a b Hab), (upto_all_gt a k t Hk Ea). reflexivity.
    + rewrite (IH a b Hab), (upto_all_gt a k t Hk Ea). reflexivity.
Qed.

Lemma filter_filter {A} (f g : A -> bool) l : filter f (filter g l) = filter (fun x => f x && g x) l.
Proof.
  induction l as [|a l IH]; simpl; auto. destruct (g a) eqn:E; simpl.
  - rewrite andb_true_r. destruct (f a); now rewrite IH.
  - rewrite andb_false_r. apply IH.
Qed.

(* ---------- dictionary operations ---------- *)
Lemma tget_In k t p : ssorted t -> tget k t = Some p -> In (k, p) t.
Proof.
  induction 1 as [|k' p' t Hk Hs IH]; simpl; [discriminate|].
  destruct (Nat.eqb k k') eqn:E.
  - apply Nat.eqb_eq in E; subst. intros H; inversion H; subst. now left.
  - destruct (k <? k'); [discriminate|]. intros H. right. now apply IH.
Qed.

Lemma tget_filter k t : ssorted t ->
  tget k t = match filter (fun kp => Nat.eqb (fst kp) k) t with (_, p) :: _ => Some p | [] => None end.
Proof.
  induction 1 as [|k' p' t Hk Hs IH]; simpl; auto.
  rewrite (Nat.eqb_sym k' k). destruct (Nat.eqb k k') eqn:E; auto.
  destruct (k <? k') eqn:E2; auto.
  apply Nat.ltb_lt in E2.
  assert (Hn : filter (fun kp => Nat.eqb (fst kp) k) t = []).
  { clear -Hk E2. induction t as [|kp t IHt]; simpl; auto.
    assert (k' < fst kp) by (apply Hk; now left).
    replace (Nat.eqb (fst kp) k) with false by (symmetry; apply Nat.eqb_neq; lia).
    apply IHt. intros; apply Hk; now right. }
  now rewrite Hn.
Qed.

Lemma tget_none_notin k t : ssorted t -> tget k t = None -> forall kp, In kp t -> fst kp <> k.
Proof.
  induction 1 as [|k' p' t Hk Hs IH]; simpl; [intros _ kp []|].
  destruct (Nat.eqb k k') eqn:E; [discriminate|]. apply Nat.eqb_neq in E.
  destruct (k <? k') eqn:E2.
  - apply Nat.ltb_lt in E2. intros _ kp [<-|Hin]; simpl; auto. specialize (Hk kp Hin). lia.
  - intros H kp [<-|Hin]; simpl; auto.
Qed.

(* ---------- removal by reference ---------- *)
Lemma remove_ref_notin x l : in_ref x l = false -> remove_ref x l = l.
Proof.
  unfold in_ref. induction l as [|y l IH]; simpl; auto.
  destruct (same_ref x y) eqn:E; [discriminate|]. intros H.
  destruct (find_ref x l); simpl in *; [discriminate|]. now rewrite IH.
Qed.

Lemma in_ref_spec x l : in_ref x l = true <-> exists y, In y l /\ sid y = sid x.
Proof.
  unfold in_ref. induction l as [|y l IH]; simpl.
  - split; [discriminate|intros (y & [] & _)].
  - destruct (same_ref x y) eqn:E.
    + unfold same_ref in E. apply Nat.eqb_eq in E. split; auto. intros _. exists y. split; auto.
    + unfold same_ref in E. apply Nat.eqb_neq in E. destruct (find_ref x l) eqn:F; simpl.
      * split; auto. intros _. destruct IH as [IH _]. destruct (IH eq_refl) as (z & Hz & Hs). exists z. split; auto.
      * split; [discriminate|]. intros (z & [<-|Hz] & Hs); [congruence|].
        destruct IH as [_ IH]. assert (H : None = Some 0 -> False) by discriminate.
        enough (Hc : match @None nat with Some _ => true | None => false end = true) by discriminate.
        apply IH. exists z; auto.
Qed.

Lemma in_ref_false x l : in_ref x l = false <-> forall y, In y l -> sid y <> sid x.
Proof.
  split.
  - intros H y Hy Hs. assert (in_ref x l = true) by (apply in_ref_spec; exists y; auto). congruence.
  - intros H. destruct (in_ref x l) eqn:E; auto. apply in_ref_spec in E as (y & Hy & Hs). exfalso. eapply H; eauto.
Qed.
