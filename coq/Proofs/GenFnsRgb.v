(* Obligation tying the component arithmetic of the model's rgb builders (Scrub.rgb3 / rgb1: clamping to
   0..255, 24-bit split) to the Gallina text REGENERATED from the body of _AnsiControlFn.rgb
   (tools/translate_fns.py -> Gen/Fns.v). *)
From Coq Require Import ZArith List Bool Lia ZifyBool.
From AS Require Import Base.
From AS.Gen Require Import Fns.
Import ListNotations.

(* _AnsiControlFn.rgb: the component arithmetic of the model's builders (Scrub.rgb3 / rgb1) is the code's *)
From AS.Model Require Scrub.
Lemma pair_eq {A B} (a a' : A) (b b' : B) : a = a' -> b = b' -> (a, b) = (a', b').
Proof. intros -> ->. reflexivity. Qed.

Lemma rgb_clamp_is_code : forall r g b : Z,
  gen_rgb_clamp r g b = (Scrub.clamp255 r, Scrub.clamp255 g, Scrub.clamp255 b).
Proof.
  (* shape-independent: any arrangement of min / max / comparisons that clamps to 0..255 satisfies it *)
  intros r g b. unfold gen_rgb_clamp, Scrub.clamp255.
  repeat match goal with |- context [if ?c then _ else _] => destruct c eqn:? end;
  repeat match goal with |- (_, _) = (_, _) => apply pair_eq end; lia.
Qed.

Lemma rgb3_uses_code : forall r g b comp,
  Scrub.rgb3 r g b comp =
  let '(r', g', b') := gen_rgb_clamp r g b in Scrub.color_texts comp [2; r'; g'; b']%Z.
Proof. intros r g b comp. rewrite rgb_clamp_is_code. reflexivity. Qed.

Lemma rgb1_uses_code : forall v comp,
  Scrub.rgb1 v comp =
  let '(r', g', b') := gen_rgb_split v in Scrub.color_texts comp [2; r'; g'; b']%Z.
Proof. reflexivity. Qed.
