(* C03 with embedded control sequences that are not SGR.
   The round trip AnsiString(str(s)) of Proofs/RoundTripProofs.v is proved there under no_esc (base s).  Here the
   hypothesis is weakened to what is really needed: the base text is "closed" (it tokenises to its own characters
   in any context: no lone trailing ESC, no unterminated ESC [ ..., nothing that spells ESC [ ... m) and no change
   point of the table lies strictly inside one of the embedded sequences (every prefix of the text cut at a key of
   the table is closed as well).  The route is the TOKEN level one: ParsePosition.parse_style_tokens reads the
   styles off tk_run over the token list, and the rendering theorems of RenderProofs.v are about tok_run over
   to_str_toks; neither needs only_sgr / no_esc. *)
From AS Require Import Base Effects.
From AS.Spec Require Import Terminal.
From AS.Model Require Import Sgr Tokenizer Table Ops Render Parse.
From AS.Proofs Require Import TableProofs SliceProofs PadProofs DecProofs GenCodeTable TokenizerProofs
  SgrProofs SgrAlgebra BasicProofs ApplyProofs RemoveProofs RenderProofs FlagsProofs ParseBasics ParseProofs
  ParsePosition RoundTripProofs.
Local Open Scope nat_scope.

(* ====================================================================================== *)
(* 1. Closed texts                                                                          *)
(* ====================================================================================== *)
(* a three-state reader: normal / just after an ESC / inside the body of ESC [ *)
Inductive cst := CNorm | CEsc | CBody.

Fixpoint closed_st (st : cst) (x : str) : bool :=
  match x with
  | [] => match st with CNorm => true | _ => false end
  | c :: r =>
    match st with
    | CNorm => if (c =? ESC)%N then closed_st CEsc r else closed_st CNorm r
    | CEsc => if (c =? LBR)%N then closed_st CBody r
              else if (c =? ESC)%N then closed_st CEsc r else closed_st CNorm r
    | CBody => if is_final c then negb (c =? CH_m)%N && closed_st CNorm r else closed_st CBody r
    end
  end.

Definition closed_text (x : str) : bool := closed_st CNorm x.

Lemma closed_body_inv : forall y, closed_st CBody y = true ->
  exists b t r, y = b ++ t :: r /\ nonfinal b = true /\ is_final t = true /\ (t =? CH_m)%N = false
                /\ closed_text r = true.
Proof.
  induction y as [|c y IH]; cbn [closed_st]; [discriminate|].
  destruct (is_final c) eqn:Ef; intros H.
  - apply andb_true_iff in H as [H1 H2]. apply negb_true_iff in H1.
    exists [], c, y. repeat split; auto.
  - destruct (IH H) as (b & t & r & -> & Hb & Ht & Hm & Hr).
    exists (c :: b), t, r. repeat split; auto.
    unfold nonfinal in *. cbn [forallb]. now rewrite Ef, Hb.
Qed.

(* concatenation and cancellation *)
Lemma closed_st_app : forall x st y, closed_st st x = true -> closed_st st (x ++ y) = closed_st CNorm y.
Proof.
  induction x as [|c x IH]; intros st y H.
  - destruct st; cbn [closed_st] in H; try discriminate. reflexivity.
  - cbn [app]. destruct st; cbn [closed_st] in *.
    + destruct (c =? ESC)%N; now apply IH.
    + destruct (c =? LBR)%N; [now apply IH|]. destruct (c =? ESC)%N; now apply IH.
    + destruct (is_final c); [|now apply IH].
      apply andb_true_iff in H as [H1 H2]. rewrite H1. cbn [andb]. now apply IH.
Qed.

Lemma closed_text_app x y : closed_text x = true -> closed_text y = true -> closed_text (x ++ y) = true.
Proof. intros Hx Hy. unfold closed_text in *. now rewrite closed_st_app. Qed.

Lemma closed_text_cancel x y : closed_text x = true -> closed_text (x ++ y) = true -> closed_text y = true.
Proof. intros Hx Hxy. unfold closed_text in *. now rewrite closed_st_app in Hxy. Qed.

(* the old hypothesis is a special case *)
Lemma no_esc_closed x : no_esc x = true -> closed_text x = true.
Proof.
  unfold RenderProofs.no_esc, closed_text. induction x as [|c x IH]; [reflexivity|]. cbn [forallb closed_st].
  intros H. apply andb_true_iff in H as [H1 H2]. apply negb_true_iff in H1. rewrite H1. now apply IH.
Qed.

(* a complete sequence with another final byte than m is closed *)
Lemma closed_rejected b f : nonfinal b = true -> is_final f = true -> (f =? CH_m)%N = false ->
  closed_text (ESC :: LBR :: b ++ [f]) = true.
Proof.
  intros Hb Hf Hm. unfold closed_text. cbn [closed_st].
  change (ESC =? ESC)%N with true. change (LBR =? LBR)%N with true. cbv iota.
  unfold nonfinal in Hb. induction b as [|c b IH]; cbn [app closed_st].
  - now rewrite Hf, Hm.
  - cbn [forallb] in Hb. apply andb_true_iff in Hb as [H1 H2]. apply negb_true_iff in H1. rewrite H1. now apply IH.
Qed.

(* ---------- the tokenizer on a closed text ---------- *)
Lemma tkz_nonseq ae acc c1 c2 r : ((c1 =? ESC)%N && (c2 =? LBR)%N) = false ->
  tokenize ae acc (c1 :: c2 :: r) = TChar c1 :: tokenize ae acc (c2 :: r).
Proof. intros H. unfold tokenize. cbn [length tokenize_fuel]. rewrite H. reflexivity. Qed.

Lemma tkz_rejected b t rest : nonfinal b = true -> is_final t = true -> (t =? CH_m)%N = false ->
  tkz (ESC :: LBR :: b ++ t :: rest) = map TChar (ESC :: LBR :: b ++ [t]) ++ tkz rest.
Proof.
  intros Hb Ht Hm. unfold tokenize.
  assert (Hn : exists n, length (ESC :: LBR :: b ++ t :: rest) = S n /\ length rest <= n).
  { cbn [length]. rewrite app_length. cbn [length]. eexists; split; [reflexivity|lia]. }
  destruct Hn as (n & -> & Hn). cbn [tokenize_fuel].
  change ((ESC =? ESC)%N && (LBR =? LBR)%N) with true. cbv iota.
  rewrite (span_body_exact b t rest Hb Ht).
  unfold accept, mem_char. cbn [existsb andb]. rewrite Hm. cbn [orb]. cbn [term_chars].
  f_equal. apply tkz_fuel_more; lia.
Qed.

Lemma tkz_closed_len : forall n x, length x <= n -> closed_text x = true ->
  forall rest, tkz (x ++ rest) = map TChar x ++ tkz rest.
Proof.
  unfold closed_text.
  induction n as [|n IH]; intros x Hl Hx rest.
  { destruct x; [reflexivity|cbn [length] in Hl; lia]. }
  destruct x as [|c r]; [reflexivity|]. cbn [length] in Hl. cbn [closed_st] in Hx.
  destruct (c =? ESC)%N eqn:Ec.
  - destruct r as [|c2 r2]; [discriminate|]. cbn [closed_st] in Hx. cbn [length] in Hl.
    destruct (c2 =? LBR)%N eqn:El.
    + apply N.eqb_eq in Ec, El. subst c c2.
      destruct (closed_body_inv r2 Hx) as (b & t & r4 & -> & Hb & Ht & Hm & Hr).
      cbn [app]. rewrite <- app_assoc. cbn [app]. rewrite (tkz_rejected b t (r4 ++ rest) Hb Ht Hm).
      rewrite (IH r4) by (try exact Hr; rewrite app_length in Hl; cbn [length] in Hl; lia).
      rewrite app_assoc, <- map_app. f_equal. f_equal. cbn [app]. rewrite <- app_assoc. reflexivity.
    + cbn [app]. rewrite tkz_nonseq by (rewrite El; apply andb_false_r).
      change (map TChar (c :: c2 :: r2) ++ tkz rest) with (TChar c :: (map TChar (c2 :: r2) ++ tkz rest)).
      f_equal. change (c2 :: r2 ++ rest) with ((c2 :: r2) ++ rest).
      apply IH; [cbn [length]; lia|]. cbn [closed_st]. exact Hx.
  - cbn [app]. rewrite (tkz_plain _ _ c _ Ec).
    change (map TChar (c :: r) ++ tkz rest) with (TChar c :: (map TChar r ++ tkz rest)).
    f_equal. apply IH; [lia|exact Hx].
Qed.

Lemma tkz_closed x rest : closed_text x = true -> tkz (x ++ rest) = map TChar x ++ tkz rest.
Proof. intros H. now apply (tkz_closed_len (length x) x (le_n _)). Qed.

Corollary tkz_closed_alone x : closed_text x = true -> tkz x = map TChar x.
Proof. intros H. pose proof (tkz_closed x [] H) as E. now rewrite !app_nil_r in E. Qed.

(* the converse fails only for an unterminated sequence / lone ESC at the very end: those tokenise to their own
   characters when nothing follows, but not in every context *)
Example unterminated_not_closed :
  closed_text [65; 27; 91; 50]%N = false /\ tkz [65; 27; 91; 50]%N = map TChar [65; 27; 91; 50]%N
  /\ tkz ([65; 27; 91; 50]%N ++ [74]%N) = map TChar [65; 27; 91; 50; 74]%N
  /\ tkz ([65; 27; 91; 50]%N ++ [109]%N) = [TChar 65%N; TSeq {| cs_body := [50%N]; cs_term := Some CH_m |}]
  /\ closed_text [27]%N = false /\ closed_text [27; 27; 91; 50; 74]%N = true /\ closed_text [27; 27]%N = false
  /\ closed_text [27; 91; 49; 109]%N = false.
Proof. repeat split. Qed.

(* ====================================================================================== *)
(* 2. Tokenising the bytes of a token list whose text pieces are closed                     *)
(* ====================================================================================== *)
Definition tok_ok' (k : otok) : Prop :=
  match k with OText s => closed_text s = true | OSgr c => nonfinal c = true end.

Lemma tok_ok_tok_ok' k : tok_ok k -> tok_ok' k.
Proof. destruct k as [s|c]; cbn [tok_ok tok_ok']; [apply no_esc_closed|auto]. Qed.

Theorem tokenize_bytes' : forall toks, Forall tok_ok' toks -> tkz (bytes_of toks) = toks_of toks.
Proof.
  induction toks as [|k toks IH]; intros Hok; [reflexivity|].
  inversion Hok as [|? ? Hk Hr]; subst. destruct k as [s|c]; cbn [tok_ok'] in Hk.
  - unfold bytes_of, toks_of. cbn [flat_map bytes_of_tok tok_of]. fold (bytes_of toks) (toks_of toks).
    rewrite (tkz_closed s _ Hk). f_equal. now apply IH.
  - unfold bytes_of, toks_of. cbn [flat_map bytes_of_tok tok_of]. fold (bytes_of toks) (toks_of toks).
    cbn [app]. rewrite <- app_assoc. cbn [app]. rewrite (tkz_sgr c _ Hk). f_equal. now apply IH.
Qed.

Example tokenize_bytes'_ex :                       (* ESC[1m  A ESC[2J  ESC[m  B *)
  let l := [OSgr [49]%N; OText [65; 27; 91; 50; 74]%N; OSgr []; OText [66]%N] in
  Forall tok_ok' l /\ ~ Forall tok_ok l /\ tkz (bytes_of l) = toks_of l
  /\ unformatted (tkz (bytes_of l)) = [65; 27; 91; 50; 74; 66]%N.
Proof.
  cbv zeta. split; [repeat constructor|]. split; [|split; reflexivity].
  intros H. inversion H as [|? ? _ H2]; subst. inversion H2 as [|? ? H3 _]; subst.
  cbn [tok_ok] in H3. vm_compute in H3. discriminate.
Qed.

(* ====================================================================================== *)
(* 3. The rendering of a value whose cut points respect the embedded sequences              *)
(* ====================================================================================== *)
(* the text is closed, and so is its prefix up to every change point: no change point strictly inside an
   embedded sequence (keys at or beyond the length are harmless: firstn gives the whole text) *)
Definition cuts_closed (s : astr) : bool :=
  closed_text (base s) && forallb (fun kp => closed_text (firstn (fst kp) (base s))) (tbl s).

Lemma cuts_closed_spec s : cuts_closed s = true <->
  closed_text (base s) = true /\ forall k p, In (k, p) (tbl s) -> closed_text (firstn k (base s)) = true.
Proof.
  unfold cuts_closed. rewrite andb_true_iff, forallb_forall. split; intros [H1 H2]; split; auto.
  - intros k p Hin. exact (H2 (k, p) Hin).
  - intros [k p] Hin. exact (H2 k p Hin).
Qed.

Lemma no_esc_cuts_closed s : no_esc (base s) = true -> cuts_closed s = true.
Proof.
  intros H. apply cuts_closed_spec. split; [now apply no_esc_closed|].
  intros k p _. apply no_esc_closed. unfold RenderProofs.no_esc. now apply forallb_firstn.
Qed.

(* every slice between two closed prefixes is closed *)
Lemma closed_slice (s : str) a b : closed_text (firstn a s) = true -> closed_text (firstn b s) = true ->
  closed_text (str_slice s a b) = true.
Proof.
  intros Ha Hb. destruct (le_lt_dec a b) as [Hab|Hab].
  - rewrite (firstn_slice s a b Hab) in Hb. now apply closed_text_cancel with (firstn a s).
  - unfold str_slice. replace (b - a) with 0 by lia. reflexivity.
Qed.

Lemma closed_tail (s : str) a : closed_text (firstn a s) = true -> closed_text s = true ->
  closed_text (skipn a s) = true.
Proof. intros Ha Hs. apply closed_text_cancel with (firstn a s); [exact Ha|]. now rewrite firstn_skipn. Qed.

(* the equivalent reading in terms of the pieces the renderer emits: cut at the keys below the length *)
Lemma cuts_closed_pieces s : cuts_closed s = true ->
  forall k1 p1 k2 p2, In (k1, p1) (tbl s) -> In (k2, p2) (tbl s) ->
  closed_text (str_slice (base s) 0 k1) = true /\ closed_text (str_slice (base s) k1 k2) = true
  /\ closed_text (skipn k1 (base s)) = true.
Proof.
  intros H k1 p1 k2 p2 H1 H2. apply cuts_closed_spec in H as [Hb Hk].
  split; [|split].
  - apply closed_slice; [reflexivity|eauto].
  - apply closed_slice; eauto.
  - apply closed_tail; eauto.
Qed.

Lemma tok_ok'_opt_text x : closed_text x = true -> Forall tok_ok' (if is_nil x then [] else [OText x]).
Proof. intros H. destruct (is_nil x); repeat constructor. exact H. Qed.

(* loop invariant: the output so far is fine and the text emitted so far is a closed prefix *)
Definition G (s : str) (st : rstate) : Prop :=
  Forall tok_ok' (r_out st) /\ closed_text (firstn (r_last st) s) = true.

Lemma render_point_unopt_toks' s rs st idx p cur : closed_text (firstn idx s) = true -> set_nonfinal cur ->
  G s st -> G s (render_point s false rs st idx p cur).
Proof.
  intros Hi Hc [Ho Hl]. rewrite render_point_unopt. unfold G. cbn [r_out r_last]. split; [|exact Hi].
  apply Forall_app. split; auto. apply Forall_app. split.
  { destruct (r_first st && (0 <? idx) && rs); repeat constructor. }
  apply Forall_app. split. { apply tok_ok'_opt_text. now apply closed_slice. }
  repeat constructor. cbn [tok_ok']. now apply nonfinal_rs_codes, nonfinal_pt_codes.
Qed.

Lemma render_point_opt_toks' s rs st idx p cur : closed_text (firstn idx s) = true -> set_parsable cur ->
  G s st -> G s (render_point s true rs st idx p cur).
Proof.
  intros Hi Hc [Ho Hl]. rewrite render_point_opt. cbv zeta. unfold G. cbn [r_out r_last]. split; [|exact Hi].
  apply Forall_app. split; auto. apply Forall_app. split.
  { destruct (r_first st && (0 <? idx) && rs); repeat constructor. }
  apply Forall_app. split. { apply tok_ok'_opt_text. now apply closed_slice. }
  destruct (fst _); [|constructor]. repeat constructor. cbn [tok_ok'].
  now apply rs_wrap_nonfinal, opt_pick_nonfinal.
Qed.

Lemma render_loop_G s opt rs (Q : list setting -> Prop)
  (Hpoint : forall st idx p cur, closed_text (firstn idx s) = true -> Q cur -> G s st ->
            G s (render_point s opt rs st idx p cur)) :
  forall states st,
  (forall idx p cur, In (idx, p, cur) states -> closed_text (firstn idx s) = true /\ Q cur) ->
  G s st -> G s (render_loop s opt rs states st).
Proof.
  induction states as [|[[idx p] cur] states IH]; intros st Hc Ho; cbn [render_loop]; auto.
  destruct (length s <=? idx); auto. apply IH.
  - intros; eapply Hc; right; eauto.
  - destruct (Hc idx p cur (or_introl eq_refl)) as [H1 H2]. now apply Hpoint.
Qed.

Lemma iter_states_key t : forall act idx p cur, In (idx, p, cur) (iter_states t act) -> In (idx, p) t.
Proof.
  induction t as [|[k q] t IH]; intros act idx p cur; cbn [iter_states]; [intros []|].
  intros [Heq|Hin]; [inversion Heq; subst; now left|right; eauto].
Qed.

Lemma G_init s : G s {| r_out := []; r_last := 0; r_dict := []; r_exist := false; r_first := true |}.
Proof. split; [constructor|reflexivity]. Qed.

Lemma to_str_toks_tail_ok' s (st : rstate) rs re : closed_text s = true -> G s st ->
  Forall tok_ok' (r_out st
    ++ (if r_first st && rs then [OSgr []] else [])
    ++ (if is_nil (skipn (r_last st) s) then [] else [OText (skipn (r_last st) s)])
    ++ (if r_exist st && re then [OSgr []] else [])).
Proof.
  intros Hs [Ho Hl]. apply Forall_app. split; [exact Ho|].
  apply Forall_app. split. { destruct (_ && rs); repeat constructor. }
  apply Forall_app. split. { apply tok_ok'_opt_text. now apply closed_tail. }
  destruct (_ && re); repeat constructor.
Qed.

Theorem to_str_toks_unopt_ok' s rs re : cuts_closed s = true ->
  (forall x, In x (all_adds (tbl s)) -> nonfinal (stxt x) = true) ->
  Forall tok_ok' (to_str_toks s false rs re).
Proof.
  intros Hcc Hn. apply cuts_closed_spec in Hcc as [Hs Hk].
  unfold to_str_toks. destruct (is_nil (tbl s) && negb rs).
  - now apply tok_ok'_opt_text.
  - cbn [andb]. apply to_str_toks_tail_ok'; [exact Hs|].
    apply (render_loop_G _ _ _ set_nonfinal).
    + intros; now apply render_point_unopt_toks'.
    + intros idx p cur Hin. split; [apply (Hk idx p); eapply iter_states_key; eauto|].
      intros x Hx. destruct (iter_states_in _ _ _ _ _ x Hin Hx) as [[]|H]. now apply Hn.
    + apply G_init.
Qed.

Theorem to_str_toks_ok' s opt rs re : cuts_closed s = true -> adds_wf (tbl s) ->
  Forall tok_ok' (to_str_toks s opt rs re).
Proof.
  intros Hcc Hwf.
  assert (Hun : Forall tok_ok' (to_str_toks s false rs re)).
  { apply to_str_toks_unopt_ok'; auto. intros x Hx. apply wf_nonfinal. now apply Hwf. }
  destruct opt; [|exact Hun]. destruct (is_parsable_tbl (tbl s)) eqn:Ep.
  2:{ replace (to_str_toks s true rs re) with (to_str_toks s false rs re); [exact Hun|].
      unfold to_str_toks. now rewrite Ep. }
  apply cuts_closed_spec in Hcc as [Hs Hk].
  unfold to_str_toks. rewrite Ep. destruct (is_nil (tbl s) && negb rs).
  - now apply tok_ok'_opt_text.
  - cbn [andb]. apply to_str_toks_tail_ok'; [exact Hs|].
    apply (render_loop_G _ _ _ set_parsable).
    + intros; now apply render_point_opt_toks'.
    + intros idx p cur Hin. split; [apply (Hk idx p); eapply iter_states_key; eauto|].
      intros x Hx. destruct (iter_states_in _ _ _ _ _ x Hin Hx) as [[]|H].
      now apply (is_parsable_tbl_spec _ Ep).
    + apply G_init.
Qed.

(* the tokens of such a rendering: the obvious ones (the embedded sequences stay characters) *)
Theorem tokenize_to_str_esc s opt rs re : cuts_closed s = true -> adds_wf (tbl s) ->
  let toks := tkz (to_str s opt rs re) in
  toks = toks_of (to_str_toks s opt rs re) /\ numeric_toks toks = true
  /\ unformatted toks = txt_of (to_str_toks s opt rs re).
Proof.
  intros Hcc Hwf toks. pose proof (to_str_toks_ok' s opt rs re Hcc Hwf) as Hok.
  assert (E : toks = toks_of (to_str_toks s opt rs re)) by (apply tokenize_bytes'; exact Hok).
  split; [exact E|]. rewrite E. split; [apply numeric_toks_of; now apply to_str_toks_num|].
  apply unformatted_toks_of.
Qed.

(* ====================================================================================== *)
(* 4. The round trip                                                                        *)
(* ====================================================================================== *)
Theorem roundtrip_esc : forall s opt rs re nid,
  ssorted (tbl s) -> adds_wf (tbl s) -> cuts_closed s = true ->
  let s' := fst (parse (to_str s opt rs re) nid) in
  base s' = base s /\ forall i, i < length (base s) -> teq (style s' i) (style s i).
Proof.
  intros s opt rs re nid Hs Hwf Hcc s'.
  destruct (tokenize_to_str_esc s opt rs re Hcc Hwf) as (E & Hnum & _).
  pose proof (parse_style_tokens (to_str s opt rs re) nid) as P. cbv zeta in P.
  specialize (P Hnum). destruct P as [P1 P2]. fold s' in P1, P2.
  rewrite E, tk_run_toks_of in P1, P2.
  assert (D : exists disp tfin,
    tok_run tdefault (to_str_toks s opt rs re) = (disp, tfin)
    /\ map fst disp = base s
    /\ (forall i, i < length (base s) -> exists st, nth_error (map snd disp) i = Some st /\
          teq st (style_of (map stxt (active_at (tbl s) i))))
    /\ (re = true -> teq tfin tdefault)).
  { destruct opt; [apply render_opt_display_strong_exact|apply render_unopt_display_strong]; auto. }
  destruct D as (disp & tfin & Hrun & Htxt & Hsty & _).
  rewrite Hrun in P1, P2. cbn [fst] in P1, P2.
  split; [congruence|].
  intros i Hi. destruct (Hsty i Hi) as (st & Hn & Hst).
  destruct (nth_error_map_snd _ _ _ Hn) as (c & Hc).
  unfold style. eapply teq_trans; [apply teq_sym; exact (P2 i c st Hc)|exact Hst].
Qed.

(* str(s) = render s; with the facts that hold of every parse output *)
Theorem roundtrip_esc_render : forall s nid,
  ssorted (tbl s) -> adds_wf (tbl s) -> cuts_closed s = true ->
  let s' := fst (parse (render s) nid) in
  base s' = base s
  /\ (forall i, i < length (base s) -> teq (style s' i) (style s i))
  /\ rm_wf s' /\ is_parsable_tbl (tbl s') = true /\ is_valid_tbl (tbl s') = true.
Proof.
  intros s nid Hs Hwf Hcc s'. destruct (roundtrip_esc s true false true nid Hs Hwf Hcc) as [B S].
  split; [exact B|]. split; [exact S|]. split; [apply parse_wf|]. split; apply parse_parsable.
Qed.

(* the theorem of RoundTripProofs.v is the special case without ESC *)
Corollary roundtrip_esc_covers_no_esc : forall s opt rs re nid,
  ssorted (tbl s) -> no_esc (base s) = true -> adds_wf (tbl s) ->
  let s' := fst (parse (to_str s opt rs re) nid) in
  base s' = base s /\ forall i, i < length (base s) -> teq (style s' i) (style s i).
Proof. intros s opt rs re nid Hs He Hwf. apply roundtrip_esc; auto. now apply no_esc_cuts_closed. Qed.

(* ====================================================================================== *)
(* 5. Non-vacuity, and the hypothesis is needed                                             *)
(* ====================================================================================== *)
(* "A" ESC [ 2 J "B": bold on "A" (ends right in front of the sequence), italic from "B" (starts right after) *)
Definition ex_e : astr :=
  mkA [65; 27; 91; 50; 74; 66]%N
      [(0, mkP [mkS 1 [49]%N] []);
       (1, mkP [] [mkS 1 [49]%N]);
       (5, mkP [mkS 2 [51]%N] [])].

Example ex_e_hyps :
  ssorted (tbl ex_e) /\ adds_wf (tbl ex_e) /\ cuts_closed ex_e = true /\ no_esc (base ex_e) = false.
Proof.
  split.
  { repeat constructor; cbn [In fst]; intros kp H;
    repeat (destruct H as [<-|H]; [cbn [fst]; lia|]); destruct H. }
  split; [|split; reflexivity].
  intros x H. cbn in H. repeat (destruct H as [<-|H]; [reflexivity|]). destruct H.
Qed.

Example ex_e_roundtrip :
  to_str_toks ex_e true false true
  = [OSgr [49]%N; OText [65]%N; OSgr []; OText [27; 91; 50; 74]%N; OSgr [51]%N; OText [66]%N; OSgr []]
  /\ base (fst (parse (render ex_e) 7)) = base ex_e
  /\ map (fun i => map stxt (active_at (tbl (fst (parse (render ex_e) 7))) i)) [0; 1; 2; 3; 4; 5]
     = map (fun i => map stxt (active_at (tbl ex_e) i)) [0; 1; 2; 3; 4; 5]
  /\ map (fun i => tstate_obs (style (fst (parse (render ex_e) 7)) i)) [0; 1; 2; 3; 4; 5]
     = map (fun i => tstate_obs (style ex_e i)) [0; 1; 2; 3; 4; 5]
  /\ base (fst (parse (to_str ex_e false true true) 7)) = base ex_e
  /\ map (fun i => tstate_obs (style (fst (parse (to_str ex_e false true true) 7)) i)) [0; 1; 2; 3; 4; 5]
     = map (fun i => tstate_obs (style ex_e i)) [0; 1; 2; 3; 4; 5].
Proof. repeat split; vm_compute; reflexivity. Qed.

(* a change point strictly inside ESC [ 2 J: bold on "A" ESC [, off from "2".  The rendering
   ESC[1m A ESC [ ESC[m 2 J B  re-parses to another text (the inserted ESC [ m is swallowed into the text:
   ESC [ ESC [ is read as a rejected sequence with body ESC and final byte [) *)
Definition ex_inside : astr :=
  mkA [65; 27; 91; 50; 74; 66]%N
      [(0, mkP [mkS 1 [49]%N] []);
       (3, mkP [] [mkS 1 [49]%N])].

Example cut_inside_breaks :
  ssorted (tbl ex_inside) /\ adds_wf (tbl ex_inside) /\ closed_text (base ex_inside) = true
  /\ cuts_closed ex_inside = false
  /\ base (fst (parse (render ex_inside) 7)) = [65; 27; 91; 27; 91; 109; 50; 74; 66]%N
  /\ base (fst (parse (render ex_inside) 7)) <> base ex_inside.
Proof.
  split.
  { repeat constructor; cbn [In fst]; intros kp H;
    repeat (destruct H as [<-|H]; [cbn [fst]; lia|]); destruct H. }
  split. { intros x H. cbn in H. repeat (destruct H as [<-|H]; [reflexivity|]). destruct H. }
  split; [reflexivity|]. split; [reflexivity|]. split; [vm_compute; reflexivity|].
  vm_compute. discriminate.
Qed.

(* an unterminated ESC [ at the end of the text: the reset that str() appends completes it *)
Definition ex_open : astr :=
  mkA [65; 27; 91]%N [(0, mkP [mkS 1 [49]%N] [])].

Example open_end_breaks :
  ssorted (tbl ex_open) /\ adds_wf (tbl ex_open) /\ cuts_closed ex_open = false
  /\ base (fst (parse (render ex_open) 7)) <> base ex_open.
Proof.
  split.
  { repeat constructor; cbn [In fst]; intros kp H;
    repeat (destruct H as [<-|H]; [cbn [fst]; lia|]); destruct H. }
  split. { intros x H. cbn in H. repeat (destruct H as [<-|H]; [reflexivity|]). destruct H. }
  split; [reflexivity|]. vm_compute. discriminate.
Qed.

Print Assumptions tkz_closed.
Print Assumptions tokenize_bytes'.
Print Assumptions to_str_toks_ok'.
Print Assumptions tokenize_to_str_esc.
Print Assumptions roundtrip_esc.
Print Assumptions roundtrip_esc_render.
Print Assumptions roundtrip_esc_covers_no_esc.
