(* Equality (AnsiString.__eq__ as repaired, finding F58): values that compare equal cannot be told apart
   by what they report - the same texts in effect at every character, the same style, the same rendering.

   Contents
     1. what the three checks of astr_eqb mean ("text views"), astr_eqb_spec
     2. eq_same_texts, eq_same_style (and versions that do not need sorted keys)
     3. the old definition (without states_eqb) was not enough: concrete tables
     4. reflexivity, copies with fresh identities
     5. eq_same_render: equal values render identically, for every option combination, no invariant needed *)
From AS Require Import Base Effects.
From AS.Spec Require Import Terminal.
From AS.Model Require Import Sgr Table Render.
From AS.Proofs Require Import TableProofs RoundTripProofs.
Local Open Scope nat_scope.

(* ====================================================================================== *)
(* 1. The text views                                                                        *)
(* ====================================================================================== *)
Lemma same_val_texts l1 l2 : list_eqb same_val l1 l2 = true <-> map stxt l1 = map stxt l2.
Proof.
  revert l2; induction l1 as [|x l1 IH]; destruct l2 as [|y l2]; cbn [list_eqb map]; split; intros H;
    try discriminate; auto.
  - apply andb_true_iff in H as [H1 H2]. unfold same_val in H1. apply str_eqb_eq in H1. apply IH in H2. congruence.
  - inversion H as [[H1 H2]]. apply andb_true_iff; split.
    + unfold same_val. now apply str_eqb_eq.
    + now apply IH.
Qed.

Lemma same_val_texts2 L1 L2 :
  list_eqb (list_eqb same_val) L1 L2 = true <-> map (map stxt) L1 = map (map stxt) L2.
Proof.
  revert L2; induction L1 as [|x L1 IH]; destruct L2 as [|y L2]; cbn [list_eqb map]; split; intros H;
    try discriminate; auto.
  - apply andb_true_iff in H as [H1 H2]. apply same_val_texts in H1. apply IH in H2. congruence.
  - inversion H as [[H1 H2]]. apply andb_true_iff; split.
    + now apply same_val_texts.
    + now apply IH.
Qed.

(* what fmts_eqb sees: the keys and the texts of the markers *)
Definition pview (p : point) : list str * list str := (map stxt (padd p), map stxt (prem p)).
Definition tview (t : fmts) : list (nat * (list str * list str)) := map (fun kp => (fst kp, pview (snd kp))) t.
(* what states_eqb sees: the texts in effect after every point *)
Definition states_from (t : fmts) (act : list setting) : list (list str) :=
  map (fun x => map stxt (snd x)) (iter_states t act).
Definition sview (t : fmts) : list (list str) := states_from t [].

Lemma point_eqb_view p q : point_eqb p q = true <-> pview p = pview q.
Proof.
  unfold point_eqb, pview. rewrite andb_true_iff, !same_val_texts. split.
  - intros [H1 H2]. congruence.
  - intros H. inversion H. auto.
Qed.

Lemma fmts_eqb_view a b : fmts_eqb a b = true <-> tview a = tview b.
Proof.
  unfold fmts_eqb, tview.
  revert b; induction a as [|[k p] a IH]; destruct b as [|[k' q] b]; cbn [list_eqb map fst snd]; split; intros H;
    try discriminate; auto.
  - apply andb_true_iff in H as [H1 H2]. apply andb_true_iff in H1 as [H0 H1].
    apply Nat.eqb_eq in H0. apply point_eqb_view in H1. apply IH in H2. congruence.
  - inversion H as [[H0 H1 H2 H3]]. rewrite Nat.eqb_refl. cbn [andb]. apply andb_true_iff; split.
    + apply point_eqb_view. unfold pview. congruence.
    + now apply IH.
Qed.

Lemma states_eqb_view a b : states_eqb a b = true <-> sview a = sview b.
Proof.
  unfold states_eqb, sview, states_from. rewrite same_val_texts2, !map_map. reflexivity.
Qed.

(* the meaning of == *)
Theorem astr_eqb_spec a b :
  astr_eqb a b = true <-> base a = base b /\ tview (tbl a) = tview (tbl b) /\ sview (tbl a) = sview (tbl b).
Proof.
  unfold astr_eqb. rewrite !andb_true_iff, str_eqb_eq, fmts_eqb_view, states_eqb_view. tauto.
Qed.

Lemma tview_keys t : map fst (tview t) = map fst t.
Proof. unfold tview. rewrite map_map. reflexivity. Qed.

Lemma is_nil_map {A B} (f : A -> B) l : is_nil (map f l) = is_nil l.
Proof. now destruct l. Qed.

(* ====================================================================================== *)
(* 2. Equal values report the same texts                                                    *)
(* ====================================================================================== *)
(* the replay with early exit only ever returns the starting list or one of the states *)
Lemma active_upto_texts : forall ta tb acta actb,
  map fst ta = map fst tb -> map stxt acta = map stxt actb ->
  states_from ta acta = states_from tb actb ->
  forall i, map stxt (active_upto ta i acta) = map stxt (active_upto tb i actb).
Proof.
  unfold states_from.
  induction ta as [|[k p] ta IH]; intros [|[k' q] tb] acta actb Hk Ha Hs i;
    cbn [map fst snd iter_states active_upto] in *; try discriminate; auto.
  inversion Hk as [[Hk0 Hk1]]. subst k'. inversion Hs as [[Hs0 Hs1]].
  destruct (k <=? i); auto.
Qed.

(* no invariant is needed *)
Theorem eq_same_texts_gen a b : astr_eqb a b = true ->
  base a = base b /\ forall i, map stxt (active_at (tbl a) i) = map stxt (active_at (tbl b) i).
Proof.
  intros H. apply astr_eqb_spec in H as (Hb & Ht & Hs). split; auto. intros i.
  unfold active_at. apply active_upto_texts; auto.
  rewrite <- (tview_keys (tbl a)), <- (tview_keys (tbl b)). now rewrite Ht.
Qed.

(* the statement as asked for (the hypotheses on the keys turn out not to be used) *)
Theorem eq_same_texts : forall a b, ssorted (tbl a) -> ssorted (tbl b) -> astr_eqb a b = true ->
  base a = base b /\ forall i, map stxt (active_at (tbl a) i) = map stxt (active_at (tbl b) i).
Proof. intros a b _ _ H. now apply eq_same_texts_gen. Qed.

Corollary eq_same_style : forall a b, ssorted (tbl a) -> ssorted (tbl b) -> astr_eqb a b = true ->
  forall i, style a i = style b i.
Proof.
  intros a b Ha Hb H i. unfold style. destruct (eq_same_texts a b Ha Hb H) as [_ E]. now rewrite E.
Qed.

(* ansi_settings_at reports the same texts (identities may of course differ) *)
Corollary eq_same_settings_at a b : astr_eqb a b = true ->
  forall i, map stxt (settings_at a i) = map stxt (settings_at b i).
Proof.
  intros H i. destruct (eq_same_texts_gen a b H) as [Hb E]. unfold settings_at. rewrite Hb.
  destruct ((0 <=? i)%Z && (i <? Z.of_nat (length (base b)))%Z); auto.
Qed.

Corollary eq_same_settings_at_nat a b : astr_eqb a b = true ->
  forall i, map stxt (settings_at_nat a i) = map stxt (settings_at_nat b i).
Proof.
  intros H i. destruct (eq_same_texts_gen a b H) as [Hb E]. unfold settings_at_nat. rewrite Hb.
  destruct (i <? length (base b)); auto.
Qed.

(* ====================================================================================== *)
(* 3. The old definition (fmts_eqb only) was not enough                                     *)
(* ====================================================================================== *)
Definition t31 : str := [51; 49]%N.      (* "31" red  *)
Definition t34 : str := [51; 52]%N.      (* "34" blue *)
Definition abcde : str := [97; 98; 99; 100; 101]%N.

Definition red1 := mkS 1 t31.
Definition blue2 := mkS 2 t34.
Definition red3 := mkS 3 t31.

(* red on [0,3), blue on [1,5), red on [2,4) *)
Definition tblA : fmts :=
  [(0, mkP [red1] []); (1, mkP [blue2] []); (2, mkP [red3] []);
   (3, mkP [] [red1]); (4, mkP [] [red3]); (5, mkP [] [blue2])].
(* red on [0,4), blue on [1,5), red on [2,3) *)
Definition tblB : fmts :=
  [(0, mkP [red1] []); (1, mkP [blue2] []); (2, mkP [red3] []);
   (3, mkP [] [red3]); (4, mkP [] [red1]); (5, mkP [] [blue2])].
Definition valA := mkA abcde tblA.
Definition valB := mkA abcde tblB.

Lemma ssorted_by_keys t : (fix chk (l : fmts) : bool :=
    match l with
    | [] => true
    | (k, _) :: r => forallb (fun kp => k <? fst kp) r && chk r
    end) t = true -> ssorted t.
Proof.
  induction t as [|[k p] t IH]; intros H; constructor.
  - apply andb_true_iff in H as [H _]. intros kp Hin.
    rewrite forallb_forall in H. apply Nat.ltb_lt. now apply H.
  - apply IH. now apply andb_true_iff in H as [_ H].
Qed.

Example tblA_sorted : ssorted tblA. Proof. apply ssorted_by_keys. vm_compute. reflexivity. Qed.
Example tblB_sorted : ssorted tblB. Proof. apply ssorted_by_keys. vm_compute. reflexivity. Qed.
Example tblA_strict : strict_ok tblA = true /\ final_active tblA = []. Proof. vm_compute. auto. Qed.
Example tblB_strict : strict_ok tblB = true /\ final_active tblB = []. Proof. vm_compute. auto. Qed.

(* the marker texts agree point by point ... *)
Example old_eq_holds : str_eqb (base valA) (base valB) && fmts_eqb (tbl valA) (tbl valB) = true.
Proof. vm_compute. reflexivity. Qed.
(* ... but the stop markers pair up with different objects *)
Example old_eq_states_differ : states_eqb tblA tblB = false.
Proof. vm_compute. reflexivity. Qed.
Example new_eq_rejects : astr_eqb valA valB = false.
Proof. vm_compute. reflexivity. Qed.
(* character 3 ('d') reports blue,red in one and red,blue in the other *)
Example old_eq_texts_differ :
  map stxt (active_at tblA 3) = [t34; t31] /\ map stxt (active_at tblB 3) = [t31; t34].
Proof. vm_compute. auto. Qed.
Example old_eq_texts_differ' : map stxt (active_at tblA 3) <> map stxt (active_at tblB 3).
Proof. vm_compute. discriminate. Qed.
(* and so do ansi_settings_at and the rendering, with and without the optimiser *)
Example old_eq_settings_at_differ : map stxt (settings_at valA 3) <> map stxt (settings_at valB 3).
Proof. vm_compute. discriminate. Qed.
Example old_eq_style_differ : style valA 3 FG_COLOR = Some [31%N] /\ style valB 3 FG_COLOR = Some [34%N].
Proof. vm_compute. auto. Qed.
Example old_eq_style_differ' : style valA 3 <> style valB 3.
Proof. intros E. assert (H : style valA 3 FG_COLOR = style valB 3 FG_COLOR) by now rewrite E. vm_compute in H. discriminate. Qed.
Example old_eq_render_differ : render valA <> render valB.
Proof. vm_compute. discriminate. Qed.
Example old_eq_render_differ_unopt : to_str valA false false true <> to_str valB false false true.
Proof. vm_compute. discriminate. Qed.

(* ====================================================================================== *)
(* 4. Reflexivity; copies with fresh identities                                             *)
(* ====================================================================================== *)
Lemma list_eqb_refl {A} (e : A -> A -> bool) : (forall x, e x x = true) -> forall l, list_eqb e l l = true.
Proof. intros H l. induction l as [|x l IH]; cbn [list_eqb]; auto. now rewrite H, IH. Qed.

Theorem astr_eqb_refl a : astr_eqb a a = true.
Proof. apply astr_eqb_spec. auto. Qed.

Theorem astr_eqb_sym a b : astr_eqb a b = astr_eqb b a.
Proof.
  destruct (astr_eqb a b) eqn:E1, (astr_eqb b a) eqn:E2; auto.
  - apply astr_eqb_spec in E1 as (H1 & H2 & H3).
    assert (astr_eqb b a = true) by (apply astr_eqb_spec; auto). congruence.
  - apply astr_eqb_spec in E2 as (H1 & H2 & H3).
    assert (astr_eqb a b = true) by (apply astr_eqb_spec; auto). congruence.
Qed.

Theorem astr_eqb_trans a b c : astr_eqb a b = true -> astr_eqb b c = true -> astr_eqb a c = true.
Proof.
  rewrite !astr_eqb_spec. intros (H1 & H2 & H3) (H4 & H5 & H6). repeat split; congruence.
Qed.

Example eq_refl_example : astr_eqb valA valA = true /\ astr_eqb valB valB = true.
Proof. vm_compute. auto. Qed.

(* the same table as tblA with every object replaced by a fresh one (1 -> 11, 2 -> 12, 3 -> 13) *)
Definition rename_setting (f : nat -> nat) (x : setting) : setting := mkS (f (sid x)) (stxt x).
Definition rename_point (f : nat -> nat) (p : point) : point :=
  mkP (map (rename_setting f) (padd p)) (map (rename_setting f) (prem p)).
Definition rename_tbl (f : nat -> nat) (t : fmts) : fmts := map (fun kp => (fst kp, rename_point f (snd kp))) t.
Definition valA' := mkA abcde (rename_tbl (fun n => n + 10) tblA).

Example fresh_copy_table : tbl valA' =
  [(0, mkP [mkS 11 t31] []); (1, mkP [mkS 12 t34] []); (2, mkP [mkS 13 t31] []);
   (3, mkP [] [mkS 11 t31]); (4, mkP [] [mkS 13 t31]); (5, mkP [] [mkS 12 t34])].
Proof. vm_compute. reflexivity. Qed.
Example fresh_copy_equal : astr_eqb valA valA' = true /\ astr_eqb valA' valA = true.
Proof. vm_compute. auto. Qed.
Example fresh_copy_sorted : ssorted (tbl valA'). Proof. apply ssorted_by_keys. vm_compute. reflexivity. Qed.
(* all hypotheses of eq_same_texts / eq_same_style hold for (valA, valA'), and the identities really differ *)
Example eq_same_texts_nonvacuous :
  ssorted (tbl valA) /\ ssorted (tbl valA') /\ astr_eqb valA valA' = true
  /\ active_at (tbl valA) 3 <> active_at (tbl valA') 3
  /\ map stxt (active_at (tbl valA) 3) = map stxt (active_at (tbl valA') 3).
Proof.
  split; [exact tblA_sorted|]. split; [exact fresh_copy_sorted|].
  split; [vm_compute; reflexivity|]. split; [vm_compute; discriminate|]. vm_compute. reflexivity.
Qed.
(* an injective renaming of the identities on an unsorted, non-strict table still gives an equal value: equality is
   about texts only *)
Example fresh_copy_equal_odd :
  let t := [(4, mkP [red1; blue2] [red3]); (2, mkP [red3] [blue2; red1]); (2, mkP [] [red3])] in
  astr_eqb (mkA abcde t) (mkA abcde (rename_tbl (fun n => 7 * n + 1) t)) = true.
Proof. vm_compute. reflexivity. Qed.

(* ====================================================================================== *)
(* 5. Equal values render identically                                                       *)
(* ====================================================================================== *)
(* 5a. the renderer looks at a state (idx, point, current settings) only through this view *)
Definition rv (x : nat * point * list setting) : nat * bool * list str :=
  (fst (fst x), is_nil (prem (snd (fst x))), map stxt (snd x)).

Lemma render_point_view s o rs st k p p' c c' :
  is_nil (prem p) = is_nil (prem p') -> map stxt c = map stxt c' ->
  render_point s o rs st k p c = render_point s o rs st k p' c'.
Proof.
  intros H1 H2.
  assert (H3 : is_nil c = is_nil c') by (rewrite <- (is_nil_map stxt c), H2; apply is_nil_map).
  unfold render_point. rewrite H1, H2, H3. reflexivity.
Qed.

Lemma render_loop_view s o rs : forall sa sb, map rv sa = map rv sb ->
  forall st, render_loop s o rs sa st = render_loop s o rs sb st.
Proof.
  induction sa as [|[[k p] c] sa IH]; intros [|[[k' p'] c'] sb] H st; cbn [map render_loop] in *;
    try discriminate; auto.
  unfold rv in H at 1 3. cbn [fst snd] in H. inversion H as [[H0 H1 H2 H3]]. subst k'.
  destruct (length s <=? k); auto.
  rewrite (render_point_view s o rs st k p p' c c' H1 H2). now apply IH.
Qed.

(* 5b. the two checks of == fix that view *)
Lemma rview_eq : forall ta tb acta actb,
  tview ta = tview tb -> states_from ta acta = states_from tb actb ->
  map rv (iter_states ta acta) = map rv (iter_states tb actb).
Proof.
  unfold tview, states_from.
  induction ta as [|[k p] ta IH]; intros [|[k' q] tb] acta actb Ht Hs;
    cbn [map fst snd iter_states] in *; try discriminate; auto.
  inversion Ht as [[Hk Hp1 Hp2 Ht']]. inversion Hs as [[Hs0 Hs1]]. subst k'.
  f_equal.
  - unfold rv. cbn [fst snd]. rewrite Hs0. f_equal. f_equal.
    rewrite <- (is_nil_map stxt (prem p)), Hp2. apply is_nil_map.
  - now apply IH.
Qed.

Lemma all_adds_view : forall ta tb, tview ta = tview tb -> map stxt (all_adds ta) = map stxt (all_adds tb).
Proof.
  unfold tview, all_adds.
  induction ta as [|[k p] ta IH]; intros [|[k' q] tb] Ht; cbn [map fst snd flat_map] in *; try discriminate; auto.
  inversion Ht as [[Hk Hp1 Hp2 Ht']].
  rewrite !map_app, Hp1. f_equal. now apply IH.
Qed.

Lemma forallb_map {A B} (f : A -> B) (g : B -> bool) l : forallb g (map f l) = forallb (fun x => g (f x)) l.
Proof. induction l as [|x l IH]; cbn [map forallb]; auto. now rewrite IH. Qed.

Lemma is_parsable_view ta tb : tview ta = tview tb -> is_parsable_tbl ta = is_parsable_tbl tb.
Proof.
  intros H. unfold is_parsable_tbl.
  rewrite <- (forallb_map stxt parsable (all_adds ta)), <- (forallb_map stxt parsable (all_adds tb)).
  now rewrite (all_adds_view ta tb H).
Qed.

Lemma is_valid_view ta tb : tview ta = tview tb -> is_valid_tbl ta = is_valid_tbl tb.
Proof.
  intros H. unfold is_valid_tbl.
  rewrite <- (forallb_map stxt valid (all_adds ta)), <- (forallb_map stxt valid (all_adds tb)).
  now rewrite (all_adds_view ta tb H).
Qed.

Lemma is_nil_view ta tb : tview ta = tview tb -> is_nil ta = is_nil tb.
Proof.
  intros H. rewrite <- (is_nil_map (fun kp => (fst kp, pview (snd kp))) ta). fold (tview ta). rewrite H.
  apply is_nil_map.
Qed.

(* 5c. the theorem: every option combination, no invariant on the tables *)
Theorem eq_same_toks : forall a b opt rs re, astr_eqb a b = true -> to_str_toks a opt rs re = to_str_toks b opt rs re.
Proof.
  intros a b opt rs re H. apply astr_eqb_spec in H as (Hb & Ht & Hs).
  unfold to_str_toks. cbv zeta.
  rewrite Hb, (is_nil_view _ _ Ht), (is_parsable_view _ _ Ht).
  rewrite (render_loop_view (base b) (opt && is_parsable_tbl (tbl b)) rs
             (iter_states (tbl a) []) (iter_states (tbl b) []) (rview_eq _ _ [] [] Ht Hs)).
  reflexivity.
Qed.

Theorem eq_same_render : forall a b opt rs re, astr_eqb a b = true -> to_str a opt rs re = to_str b opt rs re.
Proof. intros a b opt rs re H. unfold to_str. now rewrite (eq_same_toks a b opt rs re H). Qed.

Corollary eq_same_str a b : astr_eqb a b = true -> render a = render b.
Proof. intros H. unfold render. now apply eq_same_render. Qed.

Corollary eq_same_flags a b : astr_eqb a b = true ->
  is_valid_tbl (tbl a) = is_valid_tbl (tbl b) /\ is_parsable_tbl (tbl a) = is_parsable_tbl (tbl b).
Proof.
  intros H. apply astr_eqb_spec in H as (Hb & Ht & Hs). split.
  - now apply is_valid_view.
  - now apply is_parsable_view.
Qed.

(* non-vacuous: the fresh copy renders as the original, byte for byte, and the rendering is not trivial *)
Example eq_same_render_nonvacuous :
  astr_eqb valA valA' = true /\ render valA = render valA' /\ length (render valA) = 28
  /\ to_str valA false true true = to_str valA' false true true.
Proof. vm_compute. auto. Qed.

(* both checks are needed for eq_same_render: with states_eqb alone two values may render differently
   (a stop marker that matches nothing changes the unoptimised output: "0;" is emitted) ... *)
Example states_only_not_enough :
  let a := mkA abcde [(0, mkP [red1] []); (2, mkP [] [])] in
  let b := mkA abcde [(0, mkP [red1] []); (2, mkP [] [blue2])] in
  states_eqb (tbl a) (tbl b) = true /\ fmts_eqb (tbl a) (tbl b) = false
  /\ to_str a false false true <> to_str b false false true.
Proof. vm_compute. repeat split; discriminate. Qed.
(* ... and with fmts_eqb alone as well (section 3) *)

Print Assumptions astr_eqb_spec.
Print Assumptions eq_same_texts_gen.
Print Assumptions eq_same_texts.
Print Assumptions eq_same_style.
Print Assumptions eq_same_settings_at.
Print Assumptions astr_eqb_refl.
Print Assumptions astr_eqb_sym.
Print Assumptions astr_eqb_trans.
Print Assumptions eq_same_toks.
Print Assumptions eq_same_render.
Print Assumptions eq_same_str.
Print Assumptions eq_same_flags.
