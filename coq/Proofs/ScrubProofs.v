(* The settings scrubber: every spelling of an AnsiFormat name gives the member's settings. *)
From Coq Require Import String.
From AS Require Import Base Effects.
From AS.Gen Require Import Formats.
From AS.Model Require Import Sgr Scrub.
From AS.Proofs Require Import DecProofs.
Local Open Scope N_scope.

Definition names : list str := map (fun ne => str_of_string (fst ne)) gen_formats.

(* facts about the generated member table, by computation *)
Lemma names_canonical : forallb (fun n => str_eqb (norm_name n) n) names = true.
Proof. vm_compute. reflexivity. Qed.
Lemma names_no_sep : forallb (fun n => negb (mem_char SEMI n)) names = true.
Proof. vm_compute. reflexivity. Qed.
Lemma names_no_bracket : forallb (fun n => match n with [] => false | c :: _ => negb (c =? LBR) end) names = true.
Proof. vm_compute. reflexivity. Qed.
Lemma names_resolve : forallb (fun n => match member_texts n with Some _ => true | None => false end) names = true.
Proof. vm_compute. reflexivity. Qed.

Lemma norm_char_semi c : (norm_name_char c =? SEMI) = (c =? SEMI).
Proof.
  unfold norm_name_char, SEMI.
  destruct ((97 <=? c) && (c <=? 122)) eqn:E1.
  - apply andb_true_iff in E1 as [A B]. apply N.leb_le in A, B.
    destruct (c - 32 =? 59) eqn:E; [apply N.eqb_eq in E; lia|]. symmetry. apply N.eqb_neq. lia.
  - destruct ((c =? 32) || (c =? 45)) eqn:E2; [|reflexivity].
    apply orb_true_iff in E2 as [A|A]; apply N.eqb_eq in A; subst; reflexivity.
Qed.
Lemma norm_char_lbr c : (norm_name_char c =? LBR) = (c =? LBR).
Proof.
  unfold norm_name_char, LBR.
  destruct ((97 <=? c) && (c <=? 122)) eqn:E1.
  - apply andb_true_iff in E1 as [A B]. apply N.leb_le in A, B.
    destruct (c - 32 =? 91) eqn:E; [apply N.eqb_eq in E; lia|]. symmetry. apply N.eqb_neq. lia.
  - destruct ((c =? 32) || (c =? 45)) eqn:E2; [|reflexivity].
    apply orb_true_iff in E2 as [A|A]; apply N.eqb_eq in A; subst; reflexivity.
Qed.

Lemma mem_semi_norm s : mem_char SEMI (norm_name s) = mem_char SEMI s.
Proof.
  unfold mem_char, norm_name. induction s as [|c s IH]; [reflexivity|]. cbn [map existsb].
  rewrite IH. f_equal. rewrite (N.eqb_sym SEMI), (N.eqb_sym SEMI c). apply norm_char_semi.
Qed.

Lemma In_names_forallb (f : str -> bool) n : forallb f names = true -> In n names -> f n = true.
Proof. intros H Hin. rewrite forallb_forall in H. now apply H. Qed.

(* A name given as a string, in any letter case and with spaces or hyphens for underscores, is
   scrubbed to exactly what the enum member is scrubbed to. *)
Theorem scrub_name_spelling name spelling :
  In name names -> norm_name spelling = name -> scrub (FStr spelling) = scrub (FMember name).
Proof.
  intros Hin Hn.
  pose proof (In_names_forallb _ name names_no_sep Hin) as Hsep. apply negb_true_iff in Hsep.
  pose proof (In_names_forallb _ name names_no_bracket Hin) as Hbr.
  pose proof (In_names_forallb _ name names_resolve Hin) as Hres. cbv beta in Hsep, Hbr, Hres.
  destruct (member_texts name) as [ts|] eqn:Em; [|discriminate].
  assert (Hsp : mem_char SEMI spelling = false) by (rewrite <- mem_semi_norm, Hn; exact Hsep).
  assert (Hss : scrub_string spelling = scrub_names [spelling]).
  { destruct spelling as [|c r].
    { cbn [norm_name map] in Hn. subst name. cbn in Hbr. discriminate. }
    assert (Hc : (c =? LBR) = false).
    { cbn [norm_name map] in Hn. subst name. cbn [negb] in Hbr. apply negb_true_iff in Hbr. now rewrite norm_char_lbr in Hbr. }
    unfold scrub_string. rewrite split_char_no_sep by exact Hsp.
    unfold LBR in Hc. apply N.eqb_neq in Hc.
    destruct c as [|p]; [reflexivity|].
    do 7 (destruct p as [p|p|]; try reflexivity). exfalso. apply Hc. reflexivity. }
  unfold scrub. cbn [scrub_form bind]. rewrite Hss. cbn [scrub_names]. rewrite Hn, Em. cbn [bind].
  rewrite app_nil_r. reflexivity.
Qed.
