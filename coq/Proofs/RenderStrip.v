(* C15, last sentence: when is_formatting_valid() holds and the base text has no ESC, removing every
   "ESC [ parameter-bytes m" sequence from any rendering leaves exactly the base text, and every
   verbatim setting in use appears intact inside such a sequence.

   1. tokenize_bytes_of      : the control-sequence parser applied to the bytes of a well-formed token
                               list gives back the text tokens and exactly the SGR sequences.
   2. render_strips_to_base  : all eight flag combinations of to_str.
   3. render_intact(_at)     : the renderings that do not go through the optimiser carry every active
                               setting text as a whole ';'-delimited item of an emitted sequence. *)
From Coq Require Import List Arith NArith Bool Lia.
Import ListNotations.
From AS Require Import Base Effects.
From AS.Model Require Import Sgr Tokenizer Table Render.
From AS.Proofs Require Import TableProofs PadProofs RenderProofs.
From AS.Proofs Require InvariantProofs.
Local Open Scope nat_scope.

(* ====================================================================================== *)
(* 1. Token level                                                                          *)
(* ====================================================================================== *)
Definition texts_of (l : list otok) : str :=
  flat_map (fun t => match t with OText s => s | OSgr _ => [] end) l.
Definition codes_of (l : list otok) : list str :=
  flat_map (fun t => match t with OSgr c => [c] | OText _ => [] end) l.
Definition seqs_of (l : list tok) : list cseq :=
  flat_map (fun t => match t with TSeq q => [q] | TChar _ => [] end) l.
Definition sgr_seq (c : str) : cseq := {| cs_body := c; cs_term := Some CH_m |}.
Definition toks_of_otok (t : otok) : list tok :=
  match t with OText s => map TChar s | OSgr c => [TSeq (sgr_seq c)] end.

(* Model/Tokenizer.v has its own copy of span_body (the lemmas of RenderProofs.v are about the
   specification terminal's copy) *)
Lemma tk_span_body_shorter s : forall b r, span_body s = (b, r) -> length r <= length s.
Proof.
  induction s as [|c s IH]; intros b r; cbn [span_body].
  - intros H; inversion H; simpl; lia.
  - destruct (is_final c). { intros H; inversion H; simpl; lia. }
    destruct (span_body s) as [b' r'] eqn:E. intros H; inversion H; subst.
    specialize (IH b' r eq_refl). simpl; lia.
Qed.
Lemma tk_span_body_stop b f r : nonfinal b = true -> is_final f = true -> span_body (b ++ f :: r) = (b, f :: r).
Proof.
  unfold nonfinal. induction b as [|c b IH]; intros Hb Hf.
  - cbn [app span_body]. now rewrite Hf.
  - cbn [forallb] in Hb. apply andb_true_iff in Hb as [H1 H2]. apply negb_true_iff in H1.
    cbn [app span_body]. rewrite H1, (IH H2 Hf). reflexivity.
Qed.

Lemma tokenize_fuel_more ae acc : forall f s f', length s <= f -> length s <= f' ->
  tokenize_fuel f ae acc s = tokenize_fuel f' ae acc s.
Proof.
  induction f as [|f IH]; intros s f' Hf Hf'.
  - destruct s; simpl in Hf; [|lia]. destruct f'; reflexivity.
  - destruct s as [|c1 r1]. { destruct f'; reflexivity. }
    destruct f' as [|f']; [simpl in Hf'; lia|]. cbn [tokenize_fuel].
    destruct r1 as [|c2 r2]; [reflexivity|].
    destruct ((c1 =? ESC)%N && (c2 =? LBR)%N).
    + destruct (span_body r2) as [b r3] eqn:E.
      pose proof (tk_span_body_shorter r2 b r3 E) as Hl.
      destruct r3 as [|t r4].
      * rewrite (IH [] f') by (simpl; lia). reflexivity.
      * rewrite (IH r4 f') by (simpl in *; lia). reflexivity.
    + rewrite (IH (c2 :: r2) f') by (simpl in *; lia). reflexivity.
Qed.

Lemma tokenize_plain ae acc c r : (c =? ESC)%N = false ->
  tokenize ae acc (c :: r) = TChar c :: tokenize ae acc r.
Proof.
  intros Hc. unfold tokenize. cbn [length tokenize_fuel]. destruct r as [|c2 r2]; [reflexivity|].
  rewrite Hc. cbn [andb]. reflexivity.
Qed.

Lemma tokenize_sgr ae codes rest : nonfinal codes = true ->
  tokenize ae (Some [CH_m]) (ESC :: LBR :: codes ++ CH_m :: rest)
  = TSeq (sgr_seq codes) :: tokenize ae (Some [CH_m]) rest.
Proof.
  intros Hc. unfold tokenize.
  assert (Hn : exists n, length (ESC :: LBR :: codes ++ CH_m :: rest) = S n /\ length rest <= n).
  { cbn [length]. rewrite app_length. cbn [length]. eexists; split; [reflexivity|lia]. }
  destruct Hn as (n & -> & Hn). cbn [tokenize_fuel].
  change ((ESC =? ESC)%N && (LBR =? LBR)%N) with true. cbv iota.
  rewrite (tk_span_body_stop codes CH_m rest Hc eq_refl).
  change (accept ae (Some [CH_m]) (Some CH_m)) with true. cbv iota.
  unfold sgr_seq. f_equal. apply tokenize_fuel_more; lia.
Qed.

(* the parser recovers the token list itself *)
Lemma tokenize_bytes_of_toks : forall toks ae, Forall tok_ok toks ->
  tokenize ae (Some [CH_m]) (bytes_of toks) = flat_map toks_of_otok toks.
Proof.
  induction toks as [|k toks IH]; intros ae Hok; [reflexivity|].
  inversion Hok as [|? ? Hk Hr]; subst. destruct k as [s|c]; cbn [tok_ok] in Hk.
  - unfold bytes_of. cbn [flat_map bytes_of_tok toks_of_otok]. fold (bytes_of toks).
    clear Hok. induction s as [|x s IHs].
    + cbn [app map]. apply IH. exact Hr.
    + unfold no_esc in Hk. cbn [forallb] in Hk. apply andb_true_iff in Hk as [H1 H2].
      apply negb_true_iff in H1. cbn [app map]. rewrite (tokenize_plain ae _ x _ H1).
      f_equal. apply IHs. exact H2.
  - unfold bytes_of. cbn [flat_map bytes_of_tok toks_of_otok]. fold (bytes_of toks).
    cbn [app]. rewrite <- app_assoc. cbn [app]. rewrite (tokenize_sgr ae c _ Hk). f_equal. apply IH. exact Hr.
Qed.

Lemma unformatted_app a b : unformatted (a ++ b) = unformatted a ++ unformatted b.
Proof. unfold unformatted. apply flat_map_app. Qed.
Lemma seqs_of_app a b : seqs_of (a ++ b) = seqs_of a ++ seqs_of b.
Proof. unfold seqs_of. apply flat_map_app. Qed.
Lemma unformatted_chars s : unformatted (map TChar s) = s.
Proof. unfold unformatted. induction s as [|c s IH]; cbn [map flat_map app]; [reflexivity|now rewrite IH]. Qed.
Lemma seqs_of_chars s : seqs_of (map TChar s) = [].
Proof. unfold seqs_of. induction s as [|c s IH]; cbn [map flat_map app]; auto. Qed.

Lemma unformatted_toks toks : unformatted (flat_map toks_of_otok toks) = texts_of toks.
Proof.
  induction toks as [|k toks IH]; [reflexivity|]. cbn [flat_map]. rewrite unformatted_app, IH.
  unfold texts_of. cbn [flat_map]. f_equal. destruct k as [s|c]; cbn [toks_of_otok].
  - apply unformatted_chars.
  - reflexivity.
Qed.
Lemma seqs_of_toks toks : seqs_of (flat_map toks_of_otok toks) = map sgr_seq (codes_of toks).
Proof.
  induction toks as [|k toks IH]; [reflexivity|]. cbn [flat_map]. rewrite seqs_of_app, IH.
  unfold codes_of. cbn [flat_map]. rewrite map_app. f_equal. destruct k as [s|c]; cbn [toks_of_otok].
  - apply seqs_of_chars.
  - reflexivity.
Qed.

Theorem tokenize_bytes_of : forall toks ae, Forall tok_ok toks ->
  unformatted (tokenize ae (Some [CH_m]) (bytes_of toks)) = texts_of toks
  /\ flat_map (fun t => match t with TSeq q => [q] | TChar _ => [] end) (tokenize ae (Some [CH_m]) (bytes_of toks))
     = map (fun c => {| cs_body := c; cs_term := Some CH_m |}) (codes_of toks).
Proof.
  intros toks ae Hok. rewrite (tokenize_bytes_of_toks toks ae Hok). split.
  - apply unformatted_toks.
  - exact (seqs_of_toks toks).
Qed.

Example tokenize_bytes_of_ex :
  let toks := [OSgr [48; 59; 49; 59; 51; 49]%N; OText [65; 66]%N; OSgr [52; 58; 51]%N; OText [67]%N; OSgr []] in
  Forall tok_ok toks
  /\ unformatted (tokenize false (Some [CH_m]) (bytes_of toks)) = [65; 66; 67]%N
  /\ seqs_of (tokenize false (Some [CH_m]) (bytes_of toks))
     = [sgr_seq [48; 59; 49; 59; 51; 49]%N; sgr_seq [52; 58; 51]%N; sgr_seq []].
Proof. split; [repeat constructor|]. split; vm_compute; reflexivity. Qed.

(* both hypotheses of tok_ok are needed: a text with ESC [ swallows what follows, a code string with
   a final byte ends the sequence early *)
Example tok_ok_needed :
  unformatted (tokenize false (Some [CH_m]) (bytes_of [OText [27; 91; 49]%N; OText [109; 67]%N])) = [67]%N
  /\ unformatted (tokenize false (Some [CH_m]) (bytes_of [OSgr [49; 109; 50]%N; OText [65]%N])) = [50; 109; 65]%N.
Proof. split; vm_compute; reflexivity. Qed.

(* ====================================================================================== *)
(* 2. Every rendering of a valid value strips to the base text                              *)
(* ====================================================================================== *)
Lemma valid_nonfinal t : valid t = true -> nonfinal t = true.
Proof.
  unfold valid, nonfinal. induction t as [|c t IH]; [reflexivity|]. cbn [existsb forallb].
  destruct (is_final c); cbn [orb negb andb]; [discriminate|exact IH].
Qed.
Lemma nonfinal_valid t : nonfinal t = true -> valid t = true.
Proof.
  unfold valid, nonfinal. induction t as [|c t IH]; [reflexivity|]. cbn [existsb forallb].
  destruct (is_final c); cbn [orb negb andb]; [discriminate|exact IH].
Qed.

Lemma is_valid_tbl_spec t : is_valid_tbl t = true -> forall x, In x (all_adds t) -> valid (stxt x) = true.
Proof. unfold is_valid_tbl. intros H x Hx. exact (proj1 (forallb_forall _ _) H x Hx). Qed.

Lemma to_str_toks_unopt_eq a o rs re : (o = false \/ is_parsable_tbl (tbl a) = false) ->
  to_str_toks a o rs re = to_str_toks a false rs re.
Proof. intros [->|H]; [reflexivity|]. unfold to_str_toks. rewrite H, andb_false_r. reflexivity. Qed.

(* every emitted token is well formed: texts are ESC-free, code strings have no final byte *)
Theorem to_str_toks_valid_ok a o rs re : is_valid_tbl (tbl a) = true -> no_esc (base a) = true ->
  Forall tok_ok (to_str_toks a o rs re).
Proof.
  intros Hv He.
  assert (Hun : Forall tok_ok (to_str_toks a false rs re)).
  { apply to_str_toks_unopt_ok; auto. intros x Hx. apply valid_nonfinal. now apply (is_valid_tbl_spec _ Hv). }
  destruct o; [|exact Hun]. destruct (is_parsable_tbl (tbl a)) eqn:Ep.
  - apply to_str_toks_ok; auto. apply adds_parsable_wf. now apply is_parsable_tbl_spec.
  - rewrite to_str_toks_unopt_eq by now right. exact Hun.
Qed.

(* ---------- the text tokens concatenate to the base text ---------- *)
Lemma texts_of_app a b : texts_of (a ++ b) = texts_of a ++ texts_of b.
Proof. unfold texts_of. apply flat_map_app. Qed.
Lemma texts_of_reset (b : bool) : texts_of (if b then [OSgr []] else []) = [].
Proof. destruct b; reflexivity. Qed.
Lemma texts_of_opt_text x : texts_of (if is_nil x then [] else [OText x]) = x.
Proof. destruct x; cbn [is_nil]; [reflexivity|]. unfold texts_of. cbn [flat_map]. apply app_nil_r. Qed.

(* what one iteration appends, whatever the optimiser flag *)
Lemma render_point_shape s opt rs st idx p cur :
  exists sg,
    r_out (render_point s opt rs st idx p cur)
    = r_out st ++ (if r_first st && (0 <? idx) && rs then [OSgr []] else [])
        ++ (if is_nil (str_slice s (r_last st) idx) then [] else [OText (str_slice s (r_last st) idx)]) ++ sg
    /\ texts_of sg = []
    /\ r_last (render_point s opt rs st idx p cur) = idx.
Proof.
  unfold render_point. cbv zeta.
  match goal with |- context [match ?X with (a, b) => _ end] => destruct X as [ap1 c1] end.
  match goal with |- context [match ?X with (a, b) => _ end] => destruct X as [ap2 c2] end.
  cbn [r_out r_last]. eexists. split; [reflexivity|]. split; [|reflexivity]. destruct ap2; reflexivity.
Qed.

(* keys of the remaining states do not decrease, starting from n *)
Fixpoint mono (n : nat) (states : list (nat * point * list setting)) : Prop :=
  match states with
  | [] => True
  | (idx, _, _) :: r => n <= idx /\ mono idx r
  end.

Lemma iter_states_mono t : ssorted t -> forall n act, (forall kp, In kp t -> n <= fst kp) ->
  mono n (iter_states t act).
Proof.
  induction 1 as [|k p t Hk Hs IH]; intros n act Hn; cbn [iter_states mono]; auto. split.
  - apply (Hn (k, p)). now left.
  - apply IH. intros kp Hin. specialize (Hk kp Hin). lia.
Qed.

Lemma mono_in : forall states n idx p cur, mono n states -> In (idx, p, cur) states -> n <= idx.
Proof.
  induction states as [|[[k q] c] r IH]; intros n idx p cur Hm Hin; [destruct Hin|].
  cbn [mono] in Hm. destruct Hm as [H1 H2]. destruct Hin as [E|Hin].
  - inversion E; subst; lia.
  - specialize (IH _ _ _ _ H2 Hin). lia.
Qed.

Lemma render_loop_texts s opt rs : forall states st, mono (r_last st) states ->
  texts_of (r_out st) = firstn (r_last st) s ->
  texts_of (r_out (render_loop s opt rs states st)) = firstn (r_last (render_loop s opt rs states st)) s.
Proof.
  induction states as [|[[k q] c] r IH]; intros st Hm Ht; cbn [render_loop]; auto.
  destruct (length s <=? k); auto. cbn [mono] in Hm. destruct Hm as [H1 H2].
  destruct (render_point_shape s opt rs st k q c) as (sg & Ho & Hsg & Hl). apply IH.
  - rewrite Hl. exact H2.
  - rewrite Ho, Hl. rewrite !texts_of_app, Ht, Hsg, texts_of_reset, texts_of_opt_text, app_nil_r.
    cbn [app]. symmetry. apply firstn_slice. exact H1.
Qed.

Theorem to_str_toks_texts a o rs re : ssorted (tbl a) -> texts_of (to_str_toks a o rs re) = base a.
Proof.
  intros Hs. unfold to_str_toks. destruct (is_nil (tbl a) && negb rs).
  - apply texts_of_opt_text.
  - cbv zeta. set (st := render_loop _ _ _ _ _).
    assert (H : texts_of (r_out st) = firstn (r_last st) (base a)).
    { apply render_loop_texts; cbn [r_last r_out]; [|reflexivity].
      apply iter_states_mono; auto. intros; lia. }
    rewrite !texts_of_app, H, texts_of_reset, texts_of_opt_text, texts_of_reset, app_nil_r.
    apply firstn_skipn.
Qed.

(* sortedness is needed: with the keys out of order a piece of the text is emitted twice *)
Definition ex_unsorted : astr := mkA [65; 66; 67]%N [(2, mkP [mkS 1 [49]%N] []); (1, mkP [mkS 2 [51]%N] [])].
Example sorted_needed :
  is_valid_tbl (tbl ex_unsorted) = true /\ no_esc (base ex_unsorted) = true
  /\ texts_of (to_str_toks ex_unsorted false false true) = [65; 66; 66; 67]%N.
Proof. repeat split; vm_compute; reflexivity. Qed.

Theorem render_strips_to_base : forall a o rs re ae,
  ssorted (tbl a) -> is_valid_tbl (tbl a) = true -> no_esc (base a) = true ->
  unformatted (tokenize ae (Some [CH_m]) (to_str a o rs re)) = base a.
Proof.
  intros a o rs re ae Hs Hv He. unfold to_str.
  destruct (tokenize_bytes_of _ ae (to_str_toks_valid_ok a o rs re Hv He)) as [H _].
  rewrite H. now apply to_str_toks_texts.
Qed.

(* the removed sequences are exactly the emitted SGR sequences, each ended by m *)
Theorem render_sequences : forall a o rs re ae,
  is_valid_tbl (tbl a) = true -> no_esc (base a) = true ->
  seqs_of (tokenize ae (Some [CH_m]) (to_str a o rs re)) = map sgr_seq (codes_of (to_str_toks a o rs re)).
Proof.
  intros a o rs re ae Hv He. unfold to_str.
  destruct (tokenize_bytes_of _ ae (to_str_toks_valid_ok a o rs re Hv He)) as [_ H]. exact H.
Qed.

(* the same under the value invariants used elsewhere *)
Corollary render_strips_to_base_wf : forall a o rs re ae,
  PadProofs.wf a -> is_valid_tbl (tbl a) = true -> no_esc (base a) = true ->
  unformatted (tokenize ae (Some [CH_m]) (to_str a o rs re)) = base a.
Proof. intros a o rs re ae (Hs & _) Hv He. now apply render_strips_to_base. Qed.
Corollary render_strips_to_base_WFv : forall a o rs re ae,
  InvariantProofs.WFv a -> is_valid_tbl (tbl a) = true -> no_esc (base a) = true ->
  unformatted (tokenize ae (Some [CH_m]) (to_str a o rs re)) = base a.
Proof. intros a o rs re ae (Hs & _) Hv He. now apply render_strips_to_base. Qed.

(* ---------- non-vacuity ---------- *)
(* "ABCD": verbatim "1;31" on 0..3, verbatim (valid, not parsable) "4:3" on 1..4 *)
Definition S131 : setting := mkS 1 [49; 59; 51; 49]%N.
Definition S43 : setting := mkS 2 [52; 58; 51]%N.
Definition ex_v : astr :=
  mkA [65; 66; 67; 68]%N
      [(0, mkP [S131] []); (1, mkP [S43] []); (3, mkP [] [S131]); (4, mkP [] [S43])].
(* "ABCD": "38;5;196" on 0..3, "4" on 1..4 -- parsable, so the optimiser runs *)
Definition S38 : setting := mkS 1 [51; 56; 59; 53; 59; 49; 57; 54]%N.
Definition S4 : setting := mkS 2 [52]%N.
Definition ex_p : astr :=
  mkA [65; 66; 67; 68]%N
      [(0, mkP [S38] []); (1, mkP [S4] []); (3, mkP [] [S38]); (4, mkP [] [S4])].

Lemma ex_v_sorted : ssorted (tbl ex_v).
Proof.
  repeat constructor; cbn [In fst]; intros kp H;
    repeat (destruct H as [<-|H]; [cbn [fst]; lia|]); destruct H.
Qed.
Lemma ex_p_sorted : ssorted (tbl ex_p).
Proof.
  repeat constructor; cbn [In fst]; intros kp H;
    repeat (destruct H as [<-|H]; [cbn [fst]; lia|]); destruct H.
Qed.

Example ex_v_hyps :
  ssorted (tbl ex_v) /\ keys_le (tbl ex_v) (length (base ex_v))
  /\ is_valid_tbl (tbl ex_v) = true /\ is_parsable_tbl (tbl ex_v) = false /\ no_esc (base ex_v) = true.
Proof.
  split; [exact ex_v_sorted|]. split.
  { intros kp H. cbn in H. repeat (destruct H as [<-|H]; [cbn; lia|]). destruct H. }
  repeat split; vm_compute; reflexivity.
Qed.
Example ex_p_hyps :
  ssorted (tbl ex_p) /\ is_valid_tbl (tbl ex_p) = true /\ is_parsable_tbl (tbl ex_p) = true
  /\ no_esc (base ex_p) = true.
Proof. split; [exact ex_p_sorted|]. repeat split; vm_compute; reflexivity. Qed.

Example ex_v_rendered :
  to_str_toks ex_v true true true
  = [OSgr [48; 59; 49; 59; 51; 49]%N; OText [65]%N; OSgr [49; 59; 51; 49; 59; 52; 58; 51]%N; OText [66; 67]%N;
     OSgr [48; 59; 52; 58; 51]%N; OText [68]%N; OSgr []]
  /\ unformatted (tokenize false (Some [CH_m]) (to_str ex_v true true true)) = base ex_v
  /\ unformatted (tokenize true (Some [CH_m]) (to_str ex_v false true false)) = base ex_v.
Proof. repeat split; vm_compute; reflexivity. Qed.

Example ex_p_rendered :
  unformatted (tokenize false (Some [CH_m]) (to_str ex_p true true true)) = base ex_p
  /\ to_str_toks ex_p true true true <> to_str_toks ex_p false true true.
Proof. split; [vm_compute; reflexivity|]. vm_compute. discriminate. Qed.

(* ====================================================================================== *)
(* 3. Intactness: the renderings that do not go through the optimiser                       *)
(* ====================================================================================== *)
Definition item_in (t codes : str) : Prop :=
  exists pre post, codes = pre ++ t ++ post
    /\ (pre = [] \/ exists p, pre = p ++ [SEMI])
    /\ (post = [] \/ exists q, post = SEMI :: q).

Lemma item_in_join t : forall l, In t l -> item_in t (join [SEMI] l).
Proof.
  induction l as [|x l IH]; intros Hin; [destruct Hin|].
  destruct l as [|y r].
  - destruct Hin as [->|[]]. exists [], []. cbn [join app]. rewrite app_nil_r. auto.
  - change (join [SEMI] (x :: y :: r)) with (x ++ SEMI :: join [SEMI] (y :: r)).
    destruct Hin as [->|Hin].
    + exists [], (SEMI :: join [SEMI] (y :: r)). cbn [app]. split; [reflexivity|]. split; [now left|].
      right. eexists; reflexivity.
    + destruct (IH Hin) as (pre & post & E & Hpre & Hpost).
      exists (x ++ SEMI :: pre), post. split.
      { rewrite E. rewrite <- app_assoc. reflexivity. }
      split; [|exact Hpost]. right. destruct Hpre as [->|[p ->]].
      * exists x. reflexivity.
      * exists (x ++ SEMI :: p). rewrite <- app_assoc. reflexivity.
Qed.

Lemma item_in_reset t c : item_in t c -> item_in t (CH_0 :: SEMI :: c).
Proof.
  intros (pre & post & E & Hpre & Hpost). exists (CH_0 :: SEMI :: pre), post. split.
  { rewrite E. reflexivity. }
  split; [|exact Hpost]. right. destruct Hpre as [->|[p ->]].
  - exists [CH_0]. reflexivity.
  - exists (CH_0 :: SEMI :: p). reflexivity.
Qed.

Lemma item_in_pt_codes p cur x : In x cur -> item_in (stxt x) (pt_codes p cur).
Proof.
  intros Hx. unfold pt_codes. apply item_in_join.
  assert (H : In (stxt x) (map stxt cur)) by now apply in_map.
  destruct (negb (is_nil (prem p)) && negb (is_nil (map stxt cur))); [now right|exact H].
Qed.

Lemma pt_codes_nonempty p cur : cur <> [] -> map stxt cur <> [[]] -> pt_codes p cur <> [].
Proof.
  intros Hne Hm. unfold pt_codes. destruct cur as [|y [|z r]]; [congruence| |].
  - cbn [map]. destruct (negb (is_nil (prem p)) && negb (is_nil [stxt y])).
    + cbn [join app]. discriminate.
    + cbn [join]. intros E. apply Hm. cbn [map]. now rewrite E.
  - cbn [map]. destruct (negb (is_nil (prem p)) && negb (is_nil (stxt y :: stxt z :: map stxt r))).
    + change (join [SEMI] ([CH_0] :: stxt y :: stxt z :: map stxt r))
        with (CH_0 :: SEMI :: join [SEMI] (stxt y :: stxt z :: map stxt r)). discriminate.
    + change (join [SEMI] (stxt y :: stxt z :: map stxt r))
        with (stxt y ++ SEMI :: join [SEMI] (stxt z :: map stxt r)).
      destruct (stxt y); discriminate.
Qed.

Lemma item_in_rs_codes idx rs t c : item_in t c -> (rs = true -> idx = 0 -> c <> []) ->
  item_in t (rs_codes idx rs c).
Proof.
  intros Hi Hne. unfold rs_codes. destruct (Nat.eqb idx 0 && rs) eqn:E; [|exact Hi].
  apply andb_true_iff in E as [E1 E2]. apply Nat.eqb_eq in E1.
  destruct c as [|c0 c]; [exfalso; now apply (Hne E2 E1)|]. cbn [is_nil negb]. now apply item_in_reset.
Qed.

(* the unoptimised loop reaches every state below the text length and emits its sequence *)
Lemma render_loop_keeps s opt rs k states st : In k (r_out st) -> In k (r_out (render_loop s opt rs states st)).
Proof.
  intros H. destruct (render_loop_prefix s opt rs states st) as [ext ->]. apply in_or_app. now left.
Qed.

Lemma render_loop_emits s rs : forall states n st idx p cur,
  mono n states -> In (idx, p, cur) states -> idx < length s ->
  In (OSgr (rs_codes idx rs (pt_codes p cur))) (r_out (render_loop s false rs states st)).
Proof.
  induction states as [|[[k q] c] r IH]; intros n st idx p cur Hm Hin Hl; [destruct Hin|].
  cbn [mono] in Hm. destruct Hm as [H1 H2]. cbn [render_loop].
  assert (Hk : k <= idx).
  { destruct Hin as [E|Hin]; [inversion E; subst; lia|]. eapply mono_in; eauto. }
  assert (Eb : (length s <=? k) = false) by (apply Nat.leb_gt; lia). rewrite Eb.
  destruct Hin as [E|Hin].
  - inversion E; subst. apply render_loop_keeps. rewrite render_point_unopt. cbn [r_out].
    apply in_or_app; right. apply in_or_app; right. apply in_or_app; right. now left.
  - eapply IH; eauto.
Qed.

(* general form: the only exception is the lone empty setting text under the leading reset *)
Theorem render_intact_gen : forall a o rs re idx p cur x,
  ssorted (tbl a) -> (o = false \/ is_parsable_tbl (tbl a) = false) ->
  In (idx, p, cur) (iter_states (tbl a) []) -> idx < length (base a) -> In x cur ->
  (rs = true -> idx = 0 -> map stxt cur <> [[]]) ->
  exists codes, In (OSgr codes) (to_str_toks a o rs re) /\ item_in (stxt x) codes.
Proof.
  intros a o rs re idx p cur x Hs Ho Hin Hl Hx Hne.
  rewrite (to_str_toks_unopt_eq a o rs re Ho).
  exists (rs_codes idx rs (pt_codes p cur)). split.
  - unfold to_str_toks. destruct (is_nil (tbl a) && negb rs) eqn:E0.
    + apply andb_true_iff in E0 as [En _]. destruct (tbl a); [destruct Hin|discriminate].
    + cbn [andb]. cbv zeta. apply in_or_app. left.
      apply (render_loop_emits (base a) rs (iter_states (tbl a) []) 0); auto.
      apply iter_states_mono; auto. intros; lia.
  - apply item_in_rs_codes; [now apply item_in_pt_codes|].
    intros Hr Hi. apply pt_codes_nonempty; auto. intros ->. destruct Hx.
Qed.

Theorem render_intact : forall a o rs re idx p cur x,
  ssorted (tbl a) -> (o = false \/ is_parsable_tbl (tbl a) = false) ->
  In (idx, p, cur) (iter_states (tbl a) []) -> idx < length (base a) -> In x cur ->
  stxt x <> [] ->
  exists codes, In (OSgr codes) (to_str_toks a o rs re) /\ item_in (stxt x) codes.
Proof.
  intros a o rs re idx p cur x Hs Ho Hin Hl Hx Hne.
  apply (render_intact_gen a o rs re idx p cur x); auto.
  intros _ _ E. destruct cur as [|y [|z r]]; [destruct Hx| |discriminate].
  destruct Hx as [->|[]]. cbn [map] in E. inversion E. congruence.
Qed.

Lemma item_in_length t c : item_in t c -> length t <= length c /\ (length t = length c -> c = t).
Proof.
  intros (pre & post & -> & _). rewrite !app_length. split; [lia|]. intros H.
  destruct pre; [|simpl in H; lia]. destruct post; [|simpl in H; lia]. cbn [app]. apply app_nil_r.
Qed.

(* the statement without the extra hypothesis is false: one setting with the empty text at 0,
   reset_start, no reset_end -- the only emitted sequence is "0", in which the empty text is not a
   ';'-delimited item *)
Definition S_empty : setting := mkS 1 [].
Definition ex_empty : astr := mkA [65]%N [(0, mkP [S_empty] []); (1, mkP [] [S_empty])].
Example render_intact_counterexample :
  ssorted (tbl ex_empty) /\ is_valid_tbl (tbl ex_empty) = true /\ no_esc (base ex_empty) = true
  /\ In (0, mkP [S_empty] [], [S_empty]) (iter_states (tbl ex_empty) [])
  /\ 0 < length (base ex_empty) /\ In S_empty [S_empty]
  /\ to_str_toks ex_empty false true false = [OSgr [CH_0]; OText [65]%N]
  /\ ~ (exists codes, In (OSgr codes) (to_str_toks ex_empty false true false) /\ item_in (stxt S_empty) codes).
Proof.
  split.
  { repeat constructor; cbn [In fst]; intros kp H;
      repeat (destruct H as [<-|H]; [cbn [fst]; lia|]); destruct H. }
  split; [reflexivity|]. split; [reflexivity|]. split; [left; reflexivity|]. split; [cbn; lia|].
  split; [now left|]. split; [vm_compute; reflexivity|].
  intros (codes & Hin & pre & post & E & Hpre & Hpost).
  change (to_str_toks ex_empty false true false) with [OSgr [CH_0]; OText [65]%N] in Hin.
  destruct Hin as [Hc|[Hc|[]]]; [|discriminate]. injection Hc as Hc. rewrite <- Hc in E. clear Hc.
  cbn [stxt S_empty app] in E. destruct Hpre as [->|[p ->]].
  - cbn [app] in E. subst post. destruct Hpost as [H|[q H]]; discriminate.
  - destruct p as [|c0 p]; cbn [app] in E; [discriminate|].
    inversion E as [[E1 E2]]. destruct p; discriminate.
Qed.

(* per character: every setting active on a character of the text *)
Lemma active_upto_state t : forall act i,
  active_upto t i act = act
  \/ exists k p, In (k, p, active_upto t i act) (iter_states t act) /\ k <= i.
Proof.
  induction t as [|[k p] t IH]; intros act i; cbn [active_upto iter_states]; [now left|].
  destruct (k <=? i) eqn:E; [|now left]. apply Nat.leb_le in E. right.
  destruct (IH (step act p) i) as [H|(k' & p' & Hin & Hle)].
  - exists k, p. rewrite H. split; [now left|exact E].
  - exists k', p'. split; [now right|exact Hle].
Qed.

Theorem render_intact_at : forall a o rs re i x,
  ssorted (tbl a) -> (o = false \/ is_parsable_tbl (tbl a) = false) ->
  i < length (base a) -> In x (active_at (tbl a) i) -> stxt x <> [] ->
  exists codes, In (OSgr codes) (to_str_toks a o rs re) /\ item_in (stxt x) codes.
Proof.
  intros a o rs re i x Hs Ho Hi Hx Hne. unfold active_at in Hx.
  destruct (active_upto_state (tbl a) [] i) as [E|(k & p & Hin & Hle)].
  - rewrite E in Hx. destruct Hx.
  - eapply render_intact; eauto. lia.
Qed.

(* non-vacuity: on "C" of ex_v both verbatim texts are active, and both sit whole in "1;31;4:3" *)
Example ex_v_intact :
  active_at (tbl ex_v) 2 = [S131; S43]
  /\ In (1, mkP [S43] [], [S131; S43]) (iter_states (tbl ex_v) [])
  /\ (forall x, In x [S131; S43] ->
        exists codes, In (OSgr codes) (to_str_toks ex_v true true true) /\ item_in (stxt x) codes)
  /\ In (OSgr [49; 59; 51; 49; 59; 52; 58; 51]%N) (to_str_toks ex_v true true true)
  /\ item_in (stxt S131) [49; 59; 51; 49; 59; 52; 58; 51]%N
  /\ item_in (stxt S43) [49; 59; 51; 49; 59; 52; 58; 51]%N
  /\ item_in (stxt S131) [48; 59; 49; 59; 51; 49]%N.
Proof.
  split; [reflexivity|]. split; [right; left; reflexivity|]. split.
  { intros x Hx. apply (render_intact_at ex_v true true true 2 x).
    - exact ex_v_sorted.
    - right. reflexivity.
    - cbn. lia.
    - exact Hx.
    - destruct Hx as [<-|[<-|[]]]; discriminate. }
  split. { vm_compute. right. right. left. reflexivity. }
  split. { exists [], [59; 52; 58; 51]%N. split; [reflexivity|]. split; [now left|]. right. eexists; reflexivity. }
  split. { exists [49; 59; 51; 49; 59]%N, []. split; [reflexivity|]. split; [|now left].
           right. exists [49; 59; 51; 49]%N. reflexivity. }
  exists [48; 59]%N, []. split; [reflexivity|]. split; [|now left]. right. exists [48]%N. reflexivity.
Qed.

(* why (3) is restricted to the renderings that bypass the optimiser: with parsable settings the
   optimiser emits only what changes the display, so a setting that is active but overridden by a
   later one on the same effect ("31" under "32") is never written *)
Definition ex_over : astr :=
  mkA [65]%N [(0, mkP [mkS 1 [51; 49]%N; mkS 2 [51; 50]%N] []); (1, mkP [] [mkS 1 [51; 49]%N; mkS 2 [51; 50]%N])].
Example optimiser_drops_overridden :
  ssorted (tbl ex_over) /\ is_parsable_tbl (tbl ex_over) = true
  /\ active_at (tbl ex_over) 0 = [mkS 1 [51; 49]%N; mkS 2 [51; 50]%N]
  /\ to_str_toks ex_over true false true = [OSgr [51; 50]%N; OText [65]%N; OSgr []]
  /\ ~ (exists codes, In (OSgr codes) (to_str_toks ex_over true false true) /\ item_in [51; 49]%N codes)
  /\ to_str_toks ex_over false false true = [OSgr [51; 49; 59; 51; 50]%N; OText [65]%N; OSgr []].
Proof.
  split.
  { repeat constructor; cbn [In fst]; intros kp H;
      repeat (destruct H as [<-|H]; [cbn [fst]; lia|]); destruct H. }
  split; [vm_compute; reflexivity|]. split; [reflexivity|]. split; [vm_compute; reflexivity|].
  split; [|vm_compute; reflexivity].
  intros (codes & Hin & Hit).
  change (to_str_toks ex_over true false true) with [OSgr [51; 50]%N; OText [65]%N; OSgr []] in Hin.
  destruct (item_in_length _ _ Hit) as [Hle Heq].
  destruct Hin as [Hc|[Hc|[Hc|[]]]]; try discriminate; inversion Hc; subst codes.
  - specialize (Heq eq_refl). discriminate.
  - cbn in Hle. lia.
Qed.

(* ==== FOOTER ==== *)
Print Assumptions tokenize_bytes_of.
Print Assumptions to_str_toks_valid_ok.
Print Assumptions to_str_toks_texts.
Print Assumptions render_strips_to_base.
Print Assumptions render_sequences.
Print Assumptions render_strips_to_base_wf.
Print Assumptions render_strips_to_base_WFv.
Print Assumptions render_intact_gen.
Print Assumptions render_intact.
Print Assumptions render_intact_at.
