(* C02, position clause without the hypothesis only_sgr: control sequences that are NOT accepted (another final
   byte than m, or unterminated at the end of the input) stay in the text as characters, and every character of
   the text - theirs included - reports the style reached by the SGR sequences in front of it, in order.
   tk_run is the specification terminal run over the token list: a character token is displayed with the
   current state, a sequence token moves the state by its body (Proofs/ParseProofs.v section 11).  With
   only_sgr the token run IS the terminal run on the raw input (term_tok_bridge'), which gives C02_style;
   without it the terminal would swallow the other control sequences, so the statement is about the tokens. *)
From AS Require Import Base Effects.
From AS.Spec Require Import Terminal.
From AS.Model Require Import Sgr Tokenizer Table Ops Render Parse.
From AS.Proofs Require Import TokenizerProofs ParseBasics ParseProofs.
Local Open Scope nat_scope.

Theorem parse_style_tokens w nid :
  let toks := tokenize false (Some [CH_m]) w in
  numeric_toks toks = true ->
  let s := fst (parse w nid) in
  let disp := fst (tk_run tdefault toks) in
  map fst disp = base s
  /\ forall i c ti, nth_error disp i = Some (c, ti) ->
       teq ti (style_of (map stxt (active_at (tbl s) i))).
Proof.
  intros toks Hnum s disp. unfold disp. split.
  - rewrite tk_run_text. unfold s. now rewrite parse_base.
  - unfold s. rewrite parse_eq. cbv zeta. cbn [fst]. fold toks. intros i c ti Hi.
    apply (parse_loop_style (unformatted toks) toks 0 (mkA (unformatted toks) []) [] nid tdefault Hnum
             (PInv_init _ _) eq_refl eq_refl) with (j := i) (c := c); auto.
    intros _ e. reflexivity.
Qed.

(* the state a character token is displayed with does not depend on WHICH characters stand in front of it, only
   on how many and on the sequences: replacing every character token by another character leaves all states *)
Definition blank (c0 : char) (k : tok) : tok := match k with TChar _ => TChar c0 | TSeq q => TSeq q end.

Lemma tk_run_blank c0 l : forall t,
  map snd (fst (tk_run t (map (blank c0) l))) = map snd (fst (tk_run t l))
  /\ snd (tk_run t (map (blank c0) l)) = snd (tk_run t l).
Proof.
  induction l as [|[c|q] l IH]; intros t; [split; reflexivity| |].
  - cbn [map blank tk_run]. destruct (IH t) as [H1 H2].
    destruct (tk_run t (map (blank c0) l)) as [d1 f1]. destruct (tk_run t l) as [d2 f2].
    cbn [fst snd map] in *. split; congruence.
  - cbn [map blank tk_run]. apply IH.
Qed.

(* an accepted sequence after rejected ones applies from the character it stands in front of: the rejected
   sequence ESC [ 1 A counts as four characters *)
Module PositionExamples.
Import ParseExamples.
Import String.
Local Open Scope string_scope.
Local Open Scope list_scope.
Example rejected_counts_as_text :
  numeric_toks (toks wc) = true /\ only_sgr (toks wc) = false
  /\ base (fst (parse wc 0)) = esc "1Aab"
  /\ map (fun i => map stxt (active_at (tbl (fst (parse wc 0))) i)) [0; 3; 4; 5] = [[]; []; []; [s_ "3"]].
Proof. vm_compute. repeat split. Qed.
End PositionExamples.

Print Assumptions parse_style_tokens.
Print Assumptions tk_run_blank.
