(* Obligations tying the constants hard-wired in Base.v / the model to the constants regenerated from
   /repo/src/ansi_string/ansi_format.py and ansi_string.py.  Re-checked whenever Gen/Consts.v changes. *)
From AS Require Import Base.
From AS.Gen Require Import Consts.

Lemma consts_escape : gen_ansi_escape = [ESC]. Proof. reflexivity. Qed.
Lemma consts_csi : gen_ansi_control_sequence_introducer = [ESC; LBR]. Proof. reflexivity. Qed.
Lemma consts_sep : gen_ansi_sep = [SEMI]. Proof. reflexivity. Qed.
Lemma consts_sgr_end : gen_ansi_graphic_rendition_code_end = [CH_m] /\ gen_ansi_graphic_rendition_code_terminator = [CH_m].
Proof. split; reflexivity. Qed.
Lemma consts_sgr_format : gen_ansi_graphic_rendition_format = [ESC; LBR; 123; 125; CH_m]%N. Proof. reflexivity. Qed.
Lemma consts_clear : gen_ansi_escape_clear = [ESC; LBR; CH_m]. Proof. reflexivity. Qed.
Lemma consts_final_range : forall c, is_final c = ((gen_term_lo <=? c) && (c <=? gen_term_hi))%N. Proof. reflexivity. Qed.
Lemma consts_whitespace : gen_whitespace_chars = [32; 9; 10; 13; 11; 12]%N. Proof. reflexivity. Qed.
