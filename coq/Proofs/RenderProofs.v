(* The rendering theorem: what AnsiString.to_str emits is displayed, by the specification
   terminal of Spec/Terminal.v, as the base text with on every character the style of the settings
   that are active at that character. *)
From AS Require Import Base Effects.
From AS.Model Require Import Sgr Table Render.
From AS.Proofs Require Import TableProofs PadProofs.
From AS.Spec Require Import Terminal.
From AS.Proofs Require Import SgrAlgebra.
Local Open Scope nat_scope.

Notation trun := TableProofs.run.

(* ====================================================================================== *)
(* Token level: what a terminal does with a token list                                     *)
(* ====================================================================================== *)
Definition sgr_move (t : tstate) (codes : str) : tstate :=
  match params_of codes with Some p => sgr spec_class t p | None => t end.

Fixpoint tok_run (t : tstate) (l : list otok) : list (char * tstate) * tstate :=
  match l with
  | [] => ([], t)
  | OText s :: r => let '(d, tf) := tok_run t r in (map (fun c => (c, t)) s ++ d, tf)
  | OSgr codes :: r => tok_run (sgr_move t codes) r
  end.

Lemma tok_run_app a : forall t b,
  tok_run t (a ++ b) = let '(d1, t1) := tok_run t a in let '(d2, t2) := tok_run t1 b in (d1 ++ d2, t2).
Proof.
  induction a as [|k a IH]; intros t b.
  - cbn [app tok_run]. destruct (tok_run t b); reflexivity.
  - destruct k as [s|c]; cbn [app tok_run].
    + rewrite IH. destruct (tok_run t a) as [d1 t1]. destruct (tok_run t1 b) as [d2 t2]. now rewrite app_assoc.
    + apply IH.
Qed.

Definition no_esc (s : str) : bool := forallb (fun c => negb (c =? ESC)%N) s.
Definition nonfinal (s : str) : bool := forallb (fun c => negb (is_final c)) s.
Definition tok_ok (k : otok) : Prop :=
  match k with OText s => no_esc s = true | OSgr c => nonfinal c = true end.

(* ---------- the byte-level terminal: fuel and equations ---------- *)
Lemma span_body_shorter s : forall b r, span_body s = (b, r) -> length r <= length s.
Proof.
  induction s as [|c s IH]; intros b r; cbn [span_body].
  - intros H; inversion H; simpl; lia.
  - destruct (is_final c). { intros H; inversion H; simpl; lia. }
    destruct (span_body s) as [b' r'] eqn:E. intros H; inversion H; subst.
    specialize (IH b' r eq_refl). simpl; lia.
Qed.

Lemma span_body_stop b f r : nonfinal b = true -> is_final f = true -> span_body (b ++ f :: r) = (b, f :: r).
Proof.
  unfold nonfinal. induction b as [|c b IH]; intros Hb Hf.
  - cbn [app span_body]. now rewrite Hf.
  - cbn [forallb] in Hb. apply andb_true_iff in Hb as [H1 H2]. apply negb_true_iff in H1.
    cbn [app span_body]. rewrite H1, (IH H2 Hf). reflexivity.
Qed.

Lemma term_fuel_more : forall f s t f', length s <= f -> length s <= f' ->
  term_run_fuel f t s = term_run_fuel f' t s.
Proof.
  induction f as [|f IH]; intros s t f' Hf Hf'.
  - destruct s; simpl in Hf; [|lia]. destruct f'; reflexivity.
  - destruct s as [|c1 r1]. { destruct f'; reflexivity. }
    destruct f' as [|f']; [simpl in Hf'; lia|]. cbn [term_run_fuel].
    destruct r1 as [|c2 r2]; [reflexivity|].
    destruct ((c1 =? ESC)%N && (c2 =? LBR)%N).
    + destruct (span_body r2) as [b r3] eqn:E. destruct r3 as [|fin r4]; [reflexivity|].
      pose proof (span_body_shorter r2 b (fin :: r4) E) as Hl. apply IH; simpl in *; lia.
    + rewrite (IH (c2 :: r2) t f') by (simpl in *; lia). reflexivity.
Qed.

Lemma term_run_plain t c r : (c =? ESC)%N = false ->
  term_run t (c :: r) = let '(d, tf) := term_run t r in ((c, t) :: d, tf).
Proof.
  intros Hc. unfold term_run. cbn [length term_run_fuel]. destruct r as [|c2 r2]; [reflexivity|].
  rewrite Hc. cbn [andb]. reflexivity.
Qed.

Lemma term_run_sgr t codes rest : nonfinal codes = true ->
  term_run t (ESC :: LBR :: codes ++ CH_m :: rest) = term_run (sgr_move t codes) rest.
Proof.
  intros Hc. unfold term_run.
  assert (Hn : exists n, length (ESC :: LBR :: codes ++ CH_m :: rest) = S n /\ length rest <= n).
  { cbn [length]. rewrite app_length. cbn [length]. eexists; split; [reflexivity|lia]. }
  destruct Hn as (n & -> & Hn). cbn [term_run_fuel].
  change ((ESC =? ESC)%N && (LBR =? LBR)%N) with true. cbv iota.
  rewrite (span_body_stop codes CH_m rest Hc eq_refl).
  change (CH_m =? CH_m)%N with true. cbv iota. fold (sgr_move t codes).
  apply term_fuel_more; lia.
Qed.

(* ---------- the bridge ---------- *)
Theorem term_tok_bridge : forall toks t, Forall tok_ok toks -> term_run t (bytes_of toks) = tok_run t toks.
Proof.
  induction toks as [|k toks IH]; intros t Hok; [reflexivity|].
  inversion Hok as [|? ? Hk Hr]; subst. destruct k as [s|c]; cbn [tok_ok] in Hk.
  - unfold bytes_of. cbn [flat_map bytes_of_tok tok_run]. fold (bytes_of toks).
    clear Hok. induction s as [|x s IHs].
    + cbn [app map]. rewrite (IH t Hr). destruct (tok_run t toks); reflexivity.
    + unfold no_esc in Hk. cbn [forallb] in Hk. apply andb_true_iff in Hk as [H1 H2].
      apply negb_true_iff in H1. cbn [app]. rewrite (term_run_plain t x _ H1).
      rewrite (IHs H2).
      destruct (tok_run t toks) as [d tf]. reflexivity.
  - unfold bytes_of. cbn [flat_map bytes_of_tok tok_run]. fold (bytes_of toks).
    cbn [app]. rewrite <- app_assoc. cbn [app]. rewrite (term_run_sgr t c _ Hk). apply IH. exact Hr.
Qed.

Example bridge_ex :
  let toks := [OSgr [49; 59; 51]%N; OText [65; 66]%N; OSgr []; OText [67]%N] in     (* ESC[1;3m AB ESC[m C *)
  Forall tok_ok toks /\ map fst (fst (term_run tdefault (bytes_of toks))) = [65; 66; 67]%N.
Proof. split; [repeat constructor|reflexivity]. Qed.

(* ====================================================================================== *)
(* Facts about the table replay                                                             *)
(* ====================================================================================== *)
Definition sty (l : list setting) : tstate := style_of (map stxt l).
Definition adds_wf (t : fmts) : Prop := forall x, In x (all_adds t) -> wf_setting (stxt x) = true.
Definition set_wf (l : list setting) : Prop := forall x, In x l -> wf_setting (stxt x) = true.

Lemma set_wf_texts l : set_wf l -> Forall (fun t => wf_setting t = true) (map stxt l).
Proof.
  intros H. apply Forall_forall. intros t Ht. apply in_map_iff in Ht as (x & <- & Hx). now apply H.
Qed.

Lemma all_adds_app a b : all_adds (a ++ b) = all_adds a ++ all_adds b.
Proof. unfold all_adds. apply flat_map_app. Qed.

Lemma in_remove_ref x s l : In x (remove_ref s l) -> In x l.
Proof.
  induction l as [|y l IH]; cbn [remove_ref]; auto. destruct (same_ref s y); cbn [In]; auto.
  intros [H|H]; auto.
Qed.

Lemma in_remove_all x rems : forall l, In x (fold_left (fun a s => remove_ref s a) rems l) -> In x l.
Proof.
  induction rems as [|s rems IH]; intros l; cbn [fold_left]; auto.
  intros H. apply IH in H. eapply in_remove_ref; eauto.
Qed.

Lemma in_step x act p : In x (step act p) -> In x act \/ In x (padd p).
Proof. unfold step. intros H. apply in_app_or in H as [H|H]; auto. left. eapply in_remove_all; eauto. Qed.

Lemma step_no_rem act p : prem p = [] -> step act p = act ++ padd p.
Proof. unfold step. now intros ->. Qed.

Lemma in_trun x t : forall act, In x (trun act t) -> In x act \/ In x (all_adds t).
Proof.
  induction t as [|[k p] t IH]; intros act; cbn [TableProofs.run fold_left]; auto.
  unfold trun. cbn [fold_left]. fold (trun (stepf act (k, p)) t). intros H.
  apply IH in H as [H|H].
  - unfold stepf in H. cbn [snd] in H. apply in_step in H as [H|H]; auto.
    right. unfold all_adds. cbn [flat_map snd]. apply in_or_app. now left.
  - right. unfold all_adds. cbn [flat_map]. apply in_or_app. now right.
Qed.

Lemma trun_snoc act t k p : trun act (t ++ [(k, p)]) = step (trun act t) p.
Proof. rewrite TableProofs.run_app. reflexivity. Qed.

Lemma ssorted_app_r a : forall b, ssorted (a ++ b) -> ssorted b.
Proof. induction a as [|[k p] a IH]; intros b H; auto. apply IH. cbn [app] in H. eapply ssorted_tail; eauto. Qed.

Lemma filter_all {A} (f : A -> bool) l : (forall x, In x l -> f x = true) -> filter f l = l.
Proof.
  induction l as [|a l IH]; intros H; cbn [filter]; auto. rewrite (H a (or_introl eq_refl)).
  f_equal. apply IH. intros; apply H; now right.
Qed.
Lemma filter_none {A} (f : A -> bool) l : (forall x, In x l -> f x = false) -> filter f l = [].
Proof.
  induction l as [|a l IH]; intros H; cbn [filter]; auto. rewrite (H a (or_introl eq_refl)).
  apply IH. intros; apply H; now right.
Qed.

(* between two change points the active list is constant *)
Lemma active_at_between done rest i : ssorted (done ++ rest) ->
  (forall kp, In kp done -> fst kp <= i) -> (forall kp, In kp rest -> i < fst kp) ->
  active_at (done ++ rest) i = trun [] done.
Proof.
  intros Hs Hd Hr. rewrite active_at_run by exact Hs. unfold upto. rewrite filter_app.
  rewrite filter_all, filter_none, app_nil_r; auto.
  - intros kp Hin. apply Nat.leb_gt. now apply Hr.
  - intros kp Hin. apply Nat.leb_le. now apply Hd.
Qed.

(* ====================================================================================== *)
(* The codes emitted at one change point (unoptimised)                                     *)
(* ====================================================================================== *)
Definition pt_codes (p : point) (cur : list setting) : str :=
  join [SEMI] (if negb (is_nil (prem p)) && negb (is_nil (map stxt cur))
               then [CH_0] :: map stxt cur else map stxt cur).
Definition rs_codes (idx : nat) (rs : bool) (codes : str) : str :=
  if Nat.eqb idx 0 && rs then (if negb (is_nil codes) then CH_0 :: SEMI :: codes else [CH_0]) else codes.

Lemma wf_params_some l : Forall (fun t => wf_setting t = true) l -> Forall (fun t => params_of t <> None) l.
Proof.
  intros H. eapply Forall_impl; [|exact H]. cbv beta. intros t Ht.
  destruct (wf_setting_inv t Ht) as (p & -> & _). discriminate.
Qed.

(* how the terminal reads the codes of one point *)
Lemma pt_codes_params p cur : set_wf cur ->
  params_of (pt_codes p cur) =
    Some (if is_nil cur then [0%N]
          else if is_nil (prem p) then codes_of_texts (map stxt cur)
          else 0%N :: codes_of_texts (map stxt cur)).
Proof.
  intros Hwf. unfold pt_codes. pose proof (wf_params_some _ (set_wf_texts _ Hwf)) as Hp.
  destruct cur as [|x cur].
  - cbn [map is_nil negb]. rewrite andb_false_r. reflexivity.
  - cbn [is_nil]. change (is_nil (map stxt (x :: cur))) with false. cbn [negb]. rewrite andb_true_r.
    destruct (prem p) as [|r rs]; cbn [is_nil negb].
    + apply params_of_join; [discriminate|exact Hp].
    + rewrite params_of_join; [reflexivity|discriminate|]. constructor; [discriminate|exact Hp].
Qed.

Lemma sgr_move_teq t t' c : teq t t' -> teq (sgr_move t c) (sgr_move t' c).
Proof. intros H. unfold sgr_move. destruct (params_of c); auto. now apply sgr_teq. Qed.

(* the state after the point's sequence is the style of the new active list *)
Lemma pt_codes_style t act p : set_wf act -> set_wf (padd p) ->
  teq t (sty act) \/ teq t tdefault ->
  teq (sgr_move t (pt_codes p (step act p))) (sty (step act p)).
Proof.
  intros Ha Hp Ht.
  assert (Hc : set_wf (step act p)). { intros x Hx. apply in_step in Hx as [Hx|Hx]; auto. }
  unfold sgr_move. rewrite (pt_codes_params p _ Hc).
  destruct (step act p) as [|x cur] eqn:Es.
  - cbn [is_nil]. intros e. reflexivity.
  - cbn [is_nil]. destruct (prem p) as [|r rs] eqn:Er; cbn [is_nil].
    + rewrite <- Es. rewrite (step_no_rem act p Er). unfold sty. rewrite map_app.
      destruct Ht as [Ht|Ht].
      * eapply teq_trans; [apply sgr_teq; exact Ht|]. unfold sty. apply style_replay. now apply set_wf_texts.
      * eapply teq_trans; [apply sgr_teq; exact Ht|]. apply teq_refl.
    + rewrite sgr_reset. apply teq_refl.
Qed.

(* the reset prefix of the very first sequence *)
Lemma rs_codes_reset t codes P : params_of codes = Some P ->
  sgr_move t (rs_codes 0 true codes) = sgr_move tdefault codes.
Proof.
  intros HP. unfold rs_codes. cbn [Nat.eqb andb]. destruct codes as [|c codes]; cbn [is_nil negb].
  - reflexivity.
  - unfold sgr_move. rewrite HP.
    rewrite (params_of_zero_prefix (c :: codes) P HP : params_of (CH_0 :: SEMI :: c :: codes) = Some (0%N :: P)).
    apply sgr_reset.
Qed.

(* ====================================================================================== *)
(* One iteration of the unoptimised loop                                                    *)
(* ====================================================================================== *)
Lemma render_point_unopt s rs st idx p cur :
  render_point s false rs st idx p cur =
  {| r_out := r_out st
              ++ (if r_first st && (0 <? idx) && rs then [OSgr []] else [])
              ++ (if is_nil (str_slice s (r_last st) idx) then [] else [OText (str_slice s (r_last st) idx)])
              ++ [OSgr (rs_codes idx rs (pt_codes p cur))];
     r_last := idx; r_dict := r_dict st; r_exist := negb (is_nil cur); r_first := false |}.
Proof.
  unfold render_point, rs_codes, pt_codes. set (c := join [SEMI] _).
  destruct (Nat.eqb idx 0 && rs); [|reflexivity].
  cbn [andb]. destruct (negb (is_nil c)); reflexivity.
Qed.

Lemma tok_run_opt_text t x r : tok_run t ((if is_nil x then [] else [OText x]) ++ r) = tok_run t (OText x :: r).
Proof. destruct x; cbn [is_nil app tok_run map]; destruct (tok_run t r); reflexivity. Qed.

(* styles shown on a displayed chunk that starts at character offset off *)
Definition disp_ok (tb : fmts) (off : nat) (disp : list (char * tstate)) : Prop :=
  forall i c st, nth_error disp i = Some (c, st) -> teq st (sty (active_at tb (off + i))).

Lemma disp_ok_app tb d1 d2 : disp_ok tb 0 d1 -> disp_ok tb (length d1) d2 -> disp_ok tb 0 (d1 ++ d2).
Proof.
  intros H1 H2 i c st Hn. destruct (Nat.lt_ge_cases i (length d1)) as [Hl|Hl].
  - rewrite nth_error_app1 in Hn by exact Hl. eapply H1; eauto.
  - rewrite nth_error_app2 in Hn by exact Hl. apply H2 in Hn.
    replace (0 + i) with (length d1 + (i - length d1)) by lia. exact Hn.
Qed.

Lemma disp_ok_chunk tb off t text :
  (forall j, j < length text -> teq t (sty (active_at tb (off + j)))) ->
  disp_ok tb off (map (fun c => (c, t)) text).
Proof.
  intros H i c st Hn. assert (Hi : i < length text).
  { rewrite <- (map_length (fun c => (c, t)) text). apply nth_error_Some. congruence. }
  rewrite nth_error_map in Hn. destruct (nth_error text i); [|discriminate]. inversion Hn; subst. now apply H.
Qed.

Lemma map_fst_chunk (t : tstate) (text : str) : map fst (map (fun c => (c, t)) text) = text.
Proof. rewrite map_map. cbn [fst]. apply map_id. Qed.

Lemma firstn_slice (s : str) a b : a <= b -> firstn b s = firstn a s ++ str_slice s a b.
Proof.
  unfold str_slice. revert s b. induction a as [|a IH]; intros s b Hab.
  - cbn [firstn skipn app]. now rewrite Nat.sub_0_r.
  - destruct b as [|b]; [lia|]. destruct s as [|x s]; [cbn [skipn]; now rewrite !firstn_nil|].
    cbn [firstn skipn app]. rewrite (IH s b) by lia. reflexivity.
Qed.

Lemma str_slice_len (s : str) a b : length (str_slice s a b) <= b - a.
Proof. unfold str_slice. rewrite firstn_length. lia. Qed.

Section Loop.
Variable s : str.
Variable tb : fmts.
Variable t0 : tstate.
Variable rs : bool.
Hypothesis Hsorted : ssorted tb.
Hypothesis Hwf : adds_wf tb.
Hypothesis Ht0 : rs = false -> t0 = tdefault.

(* the loop invariant: `done` are the points processed so far, `rest` the others *)
Definition Inv (done rest : fmts) (st : rstate) : Prop :=
  exists disp t,
    tok_run t0 (r_out st) = (disp, t)
    /\ map fst disp = firstn (r_last st) s
    /\ disp_ok tb 0 disp
    /\ r_last st <= length s
    /\ (forall kp, In kp done -> fst kp <= r_last st)
    /\ (forall kp, In kp rest -> r_last st <= fst kp)
    /\ (r_first st = false -> teq t (sty (trun [] done)) /\ r_exist st = negb (is_nil (trun [] done)))
    /\ (r_first st = true -> done = [] /\ r_out st = [] /\ r_last st = 0 /\ r_exist st = false).

Lemma trun_wf done rest : tb = done ++ rest -> set_wf (trun [] done).
Proof.
  intros E x Hx. apply in_trun in Hx as [[]|Hx]. apply Hwf. rewrite E, all_adds_app. apply in_or_app. now left.
Qed.

Lemma Inv_point done k p rest st : tb = done ++ (k, p) :: rest -> k < length s ->
  Inv done ((k, p) :: rest) st ->
  Inv (done ++ [(k, p)]) rest (render_point s false rs st k p (step (trun [] done) p)).
Proof.
  intros E Hk (disp & t & Hrun & Hfst & Hdisp & Hlast & Hdone & Hrest & Hnf & Hf).
  assert (Hs' : ssorted (done ++ (k, p) :: rest)) by (rewrite <- E; exact Hsorted).
  assert (Hgt : forall kp, In kp rest -> k < fst kp).
  { apply ssorted_app_r in Hs'. inversion Hs'; subst; auto. }
  assert (Hlk : r_last st <= k) by (apply (Hrest (k, p)); now left).
  assert (Hact : set_wf (trun [] done)) by (eapply trun_wf; eauto).
  assert (Hpadd : set_wf (padd p)).
  { intros x Hx. apply Hwf. rewrite E, all_adds_app. apply in_or_app. right.
    unfold all_adds. cbn [flat_map snd]. apply in_or_app. now left. }
  assert (Hlen : length disp = r_last st).
  { rewrite <- (map_length fst), Hfst, firstn_length. lia. }
  rewrite render_point_unopt. set (act := trun [] done) in *. set (cur := step act p).
  set (text := str_slice s (r_last st) k).
  (* state after the optional leading reset *)
  set (t1 := if r_first st && (0 <? k) && rs then tdefault else t).
  assert (Ht1 : teq t1 (sty act) \/ (k = 0 /\ rs = true)).
  { unfold t1. destruct (r_first st) eqn:Ef.
    - destruct (Hf eq_refl) as (Hd & Ho & Hl & He). rewrite Ho in Hrun. cbn [tok_run] in Hrun.
      inversion Hrun; subst disp t. unfold act. rewrite Hd. cbn [TableProofs.run fold_left].
      change (sty []) with tdefault. cbn [andb].
      destruct rs eqn:Ers.
      + destruct k as [|k']; [right; auto|]. left. cbn. apply teq_refl.
      + rewrite andb_false_r. left. rewrite (Ht0 eq_refl). apply teq_refl.
    - cbn [andb]. left. apply (Hnf eq_refl). }
  assert (Hpre : tok_run t0 (r_out st ++ (if r_first st && (0 <? k) && rs then [OSgr []] else []))
                 = (disp, t1)).
  { rewrite tok_run_app, Hrun. unfold t1. destruct (r_first st && (0 <? k) && rs); cbn [tok_run].
    - now rewrite app_nil_r.
    - now rewrite app_nil_r. }
  (* the chunk of text *)
  assert (Hchunk : disp_ok tb (r_last st) (map (fun c => (c, t1)) text)).
  { apply disp_ok_chunk. intros j Hj. pose proof (str_slice_len s (r_last st) k) as Hsl. fold text in Hsl.
    destruct Ht1 as [Ht1|[Hk0 _]]; [|lia].
    rewrite E. rewrite (active_at_between done ((k, p) :: rest)); auto.
    - intros kp Hin. specialize (Hdone kp Hin). lia.
    - intros kp [<-|Hin]; cbn [fst]; [lia|]. specialize (Hgt kp Hin). lia. }
  (* the state after the point's sequence *)
  set (t2 := sgr_move t1 (rs_codes k rs (pt_codes p cur))).
  assert (Ht2 : teq t2 (sty cur)).
  { unfold t2. destruct (Nat.eqb k 0 && rs) eqn:Ec.
    - apply andb_true_iff in Ec as [Ek Er]. apply Nat.eqb_eq in Ek. subst k. rewrite Er.
      assert (Hc : set_wf cur). { intros x Hx. apply in_step in Hx as [Hx|Hx]; auto. }
      erewrite rs_codes_reset by (apply pt_codes_params; exact Hc).
      apply pt_codes_style; auto. right. apply teq_refl.
    - unfold rs_codes. rewrite Ec. destruct Ht1 as [Ht1|[Hk0 Hr]].
      + apply pt_codes_style; auto.
      + subst k. rewrite Hr in Ec. discriminate. }
  exists (disp ++ map (fun c => (c, t1)) text), t2. cbn [r_out r_last r_first r_exist].
  split.
  { rewrite app_assoc, tok_run_app, Hpre, tok_run_opt_text. cbn [tok_run]. now rewrite app_nil_r. }
  split. { rewrite map_app, map_fst_chunk, Hfst. symmetry. apply firstn_slice. exact Hlk. }
  split. { apply disp_ok_app; auto. now rewrite Hlen. }
  split. { lia. }
  split. { intros kp Hin. apply in_app_or in Hin as [Hin|[<-|[]]]; cbn [fst]; auto. specialize (Hdone kp Hin). lia. }
  split. { intros kp Hin. specialize (Hgt kp Hin). lia. }
  split. { intros _. rewrite trun_snoc. split; auto. }
  discriminate.
Qed.

Lemma Inv_loop : forall rest done st, tb = done ++ rest -> Inv done rest st ->
  exists done' rest', tb = done' ++ rest'
    /\ Inv done' rest' (render_loop s false rs (iter_states rest (trun [] done)) st)
    /\ (forall kp, In kp rest' -> length s <= fst kp).
Proof.
  induction rest as [|[k p] rest IH]; intros done st E HI.
  - exists done, []. cbn [iter_states render_loop]. repeat split; auto. intros kp [].
  - cbn [iter_states render_loop]. destruct (length s <=? k) eqn:Ek.
    + apply Nat.leb_le in Ek. exists done, ((k, p) :: rest). repeat split; auto.
      assert (Hs' : ssorted (done ++ (k, p) :: rest)) by (rewrite <- E; exact Hsorted).
      apply ssorted_app_r in Hs'. inversion Hs'; subst.
      intros kp [<-|Hin]; cbn [fst]; auto. specialize (H1 kp Hin). lia.
    + apply Nat.leb_gt in Ek.
      pose proof (IH (done ++ [(k, p)]) (render_point s false rs st k p (step (trun [] done) p))) as IH'.
      rewrite trun_snoc in IH'. apply IH'. { rewrite <- app_assoc. exact E. }
      apply Inv_point; auto.
Qed.
End Loop.

(* after the loop: the optional reset, the tail of the text, the optional final reset *)
Lemma Inv_final s tb t0 rs re done rest st :
  ssorted tb -> (rs = false -> t0 = tdefault) -> tb = done ++ rest ->
  Inv s tb t0 done rest st -> (forall kp, In kp rest -> length s <= fst kp) ->
  exists disp tfin,
    tok_run t0 (r_out st
                ++ (if r_first st && rs then [OSgr []] else [])
                ++ (if is_nil (skipn (r_last st) s) then [] else [OText (skipn (r_last st) s)])
                ++ (if r_exist st && re then [OSgr []] else [])) = (disp, tfin)
    /\ map fst disp = s
    /\ disp_ok tb 0 disp
    /\ (re = true -> teq tfin tdefault).
Proof.
  intros Hsorted Ht0 E (disp & t & Hrun & Hfst & Hdisp & Hlast & Hdone & Hrest & Hnf & Hf) Hbeyond.
  assert (Hlen : length disp = r_last st).
  { rewrite <- (map_length fst), Hfst, firstn_length. lia. }
  set (act := trun [] done) in *.
  set (t1 := if r_first st && rs then tdefault else t).
  assert (Ht1 : teq t1 (sty act)).
  { unfold t1. destruct (r_first st) eqn:Ef.
    - destruct (Hf eq_refl) as (Hd & Ho & Hl & He). rewrite Ho in Hrun. cbn [tok_run] in Hrun.
      inversion Hrun; subst disp t. unfold act. rewrite Hd. cbn [TableProofs.run fold_left].
      change (sty []) with tdefault. cbn [andb]. destruct rs; [apply teq_refl|].
      rewrite (Ht0 eq_refl). apply teq_refl.
    - cbn [andb]. apply (Hnf eq_refl). }
  assert (Hnil : r_exist st = false -> act = []).
  { intros He. destruct (r_first st) eqn:Ef.
    - destruct (Hf eq_refl) as (Hd & _). unfold act. now rewrite Hd.
    - destruct (Hnf eq_refl) as [_ Hx]. rewrite He in Hx. destruct act; [reflexivity|discriminate]. }
  set (tail := skipn (r_last st) s).
  assert (Hchunk : disp_ok tb (r_last st) (map (fun c => (c, t1)) tail)).
  { apply disp_ok_chunk. intros j Hj. unfold tail in Hj. rewrite skipn_length in Hj.
    rewrite E. rewrite (active_at_between done rest); auto.
    - rewrite <- E. exact Hsorted.
    - intros kp Hin. specialize (Hdone kp Hin). lia.
    - intros kp Hin. specialize (Hbeyond kp Hin). lia. }
  set (tfin := if r_exist st && re then tdefault else t1).
  exists (disp ++ map (fun c => (c, t1)) tail), tfin.
  split.
  { rewrite tok_run_app, Hrun. rewrite tok_run_app.
    assert (Hp : tok_run t (if r_first st && rs then [OSgr []] else []) = ([], t1)).
    { unfold t1. destruct (r_first st && rs); reflexivity. }
    rewrite Hp. rewrite tok_run_opt_text. cbn [tok_run].
    assert (Hq : tok_run t1 (if r_exist st && re then [OSgr []] else []) = ([], tfin)).
    { unfold tfin. destruct (r_exist st && re); reflexivity. }
    rewrite Hq. cbn [app]. now rewrite app_nil_r. }
  split. { rewrite map_app, map_fst_chunk, Hfst. apply firstn_skipn. }
  split. { apply disp_ok_app; auto. now rewrite Hlen. }
  intros Hre. unfold tfin. rewrite Hre, andb_true_r. destruct (r_exist st) eqn:Ee; [apply teq_refl|].
  rewrite (Hnil eq_refl) in Ht1. exact Ht1.
Qed.

Lemma disp_ok_styles tb disp n : length disp = n -> disp_ok tb 0 disp ->
  forall i, i < n -> exists st, nth_error (map snd disp) i = Some st
                                /\ teq st (style_of (map stxt (active_at tb i))).
Proof.
  intros Hl Hd i Hi. destruct (nth_error disp i) as [[c st]|] eqn:En.
  - exists st. split. { rewrite nth_error_map, En. reflexivity. } exact (Hd i c st En).
  - apply nth_error_None in En. lia.
Qed.

(* ====================================================================================== *)
(* Main theorem, unoptimised renderer                                                       *)
(* ====================================================================================== *)
Theorem render_unopt_display_strong : forall s rs re t0,
  ssorted (tbl s) -> adds_wf (tbl s) -> (rs = false -> t0 = tdefault) ->
  exists disp tfin,
    tok_run t0 (to_str_toks s false rs re) = (disp, tfin)
    /\ map fst disp = base s
    /\ (forall i, i < length (base s) -> exists st, nth_error (map snd disp) i = Some st /\
          teq st (style_of (map stxt (active_at (tbl s) i))))
    /\ (re = true -> teq tfin tdefault).
Proof.
  intros s rs re t0 Hs Hwf Ht0. unfold to_str_toks.
  destruct (is_nil (tbl s) && negb rs) eqn:E0.
  - apply andb_true_iff in E0 as [En Er]. apply negb_true_iff in Er.
    destruct (tbl s) as [|kp tb'] eqn:Etb; [|discriminate].
    rewrite (Ht0 Er). exists (map (fun c => (c, tdefault)) (base s)), tdefault. split.
    { rewrite <- (app_nil_r (if is_nil (base s) then [] else [OText (base s)])).
      rewrite tok_run_opt_text. cbn [tok_run]. now rewrite app_nil_r. }
    split. { apply map_fst_chunk. }
    split. 2:{ intros _. apply teq_refl. }
    apply disp_ok_styles. { now rewrite map_length. }
    apply disp_ok_chunk. intros j _. apply teq_refl.
  - cbn [andb].
    set (init := {| r_out := []; r_last := 0; r_dict := []; r_exist := false; r_first := true |}).
    assert (HI : Inv (base s) (tbl s) t0 [] (tbl s) init).
    { exists [], t0. cbn [r_out r_last r_first r_exist init]. repeat split; auto; try discriminate.
      - intros i c st Hn. destruct i; discriminate.
      - lia.
      - intros kp [].
      - intros; lia. }
    destruct (Inv_loop (base s) (tbl s) t0 rs Hs Hwf Ht0 (tbl s) [] init eq_refl HI)
      as (done' & rest' & E & HI' & Hb).
    change (trun [] []) with (@nil setting) in HI'.
    destruct (Inv_final (base s) (tbl s) t0 rs re done' rest' _ Hs Ht0 E HI' Hb)
      as (disp & tfin & Hrun & Hfst & Hd & Hfin).
    exists disp, tfin. split; [exact Hrun|]. split; [exact Hfst|]. split; [|exact Hfin].
    apply disp_ok_styles; auto. rewrite <- (map_length fst), Hfst. reflexivity.
Qed.

(* the statement in the form that was asked for (its extra hypotheses are not needed) *)
Theorem render_unopt_display : forall s rs re t0,
  ssorted (tbl s) -> keys_le (tbl s) (length (base s)) -> no_esc (base s) = true ->
  adds_wf (tbl s) -> strict_ok (tbl s) = true -> (rs = false -> t0 = tdefault) ->
  let '(disp, tfin) := tok_run t0 (to_str_toks s false rs re) in
     map fst disp = base s
  /\ (forall i, i < length (base s) -> exists st, nth_error (map snd disp) i = Some st /\
        teq st (style_of (map stxt (active_at (tbl s) i))))
  /\ (re = true -> (exists c, In (OSgr c) (to_str_toks s false rs re)) -> teq tfin tdefault).
Proof.
  intros s rs re t0 Hs _ _ Hwf _ Ht0.
  destruct (render_unopt_display_strong s rs re t0 Hs Hwf Ht0) as (disp & tfin & -> & H1 & H2 & H3).
  repeat split; auto.
Qed.

(* ====================================================================================== *)
(* The emitted tokens are well-formed, hence the byte-level corollary                       *)
(* ====================================================================================== *)
Definition dsc (c : char) : bool := is_digit c || (c =? SEMI)%N.

Lemma dsc_nonfinal t : forallb dsc t = true -> nonfinal t = true.
Proof.
  unfold nonfinal. induction t as [|c t IH]; [reflexivity|]. cbn [forallb]. intros H.
  apply andb_true_iff in H as [H1 H2]. rewrite (IH H2), andb_true_r. apply negb_true_iff.
  unfold dsc in H1. apply orb_true_iff in H1 as [H1|H1].
  - unfold is_digit in H1. apply andb_true_iff in H1 as [Ha Hb]. apply N.leb_le in Ha, Hb.
    unfold is_final. apply andb_false_iff. left. apply N.leb_gt. lia.
  - apply N.eqb_eq in H1. subst c. reflexivity.
Qed.

Lemma wf_nonfinal t : wf_setting t = true -> nonfinal t = true.
Proof.
  intros H. destruct (wf_setting_inv t H) as (p & Hp & _). apply dsc_nonfinal. exact (params_of_chars t p Hp).
Qed.

Lemma nonfinal_app a b : nonfinal (a ++ b) = nonfinal a && nonfinal b.
Proof. apply forallb_app. Qed.

Lemma nonfinal_join ts : Forall (fun t => nonfinal t = true) ts -> nonfinal (join [SEMI] ts) = true.
Proof.
  induction 1 as [|t ts Ht Hts IH]; [reflexivity|]. destruct ts as [|t' ts']; [exact Ht|].
  change (join [SEMI] (t :: t' :: ts')) with (t ++ SEMI :: join [SEMI] (t' :: ts')).
  rewrite nonfinal_app, Ht. cbn [andb]. change (SEMI :: ?x) with ([SEMI] ++ x).
  change (nonfinal ([SEMI] ++ join [SEMI] (t' :: ts'))) with (nonfinal (join [SEMI] (t' :: ts'))). exact IH.
Qed.

Lemma forallb_firstn {A} (f : A -> bool) n : forall l, forallb f l = true -> forallb f (firstn n l) = true.
Proof.
  induction n as [|n IH]; intros [|x l]; cbn [firstn forallb]; auto. intros H.
  apply andb_true_iff in H as [H1 H2]. now rewrite H1, IH.
Qed.
Lemma forallb_skipn {A} (f : A -> bool) n : forall l, forallb f l = true -> forallb f (skipn n l) = true.
Proof.
  induction n as [|n IH]; intros [|x l]; cbn [skipn forallb]; auto. intros H.
  apply andb_true_iff in H as [H1 H2]. now apply IH.
Qed.
Lemma no_esc_slice s a b : no_esc s = true -> no_esc (str_slice s a b) = true.
Proof. intros H. unfold str_slice, no_esc. apply forallb_firstn, forallb_skipn. exact H. Qed.

Lemma tok_ok_opt_text x : no_esc x = true -> Forall tok_ok (if is_nil x then [] else [OText x]).
Proof. intros H. destruct (is_nil x); repeat constructor. exact H. Qed.

Definition set_nonfinal (l : list setting) : Prop := forall x, In x l -> nonfinal (stxt x) = true.

Lemma nonfinal_pt_codes p cur : set_nonfinal cur -> nonfinal (pt_codes p cur) = true.
Proof.
  intros H. unfold pt_codes. apply nonfinal_join.
  assert (Hc : Forall (fun t => nonfinal t = true) (map stxt cur)).
  { apply Forall_forall. intros t Ht. apply in_map_iff in Ht as (x & <- & Hx). now apply H. }
  destruct (negb (is_nil (prem p)) && negb (is_nil (map stxt cur))); auto.
Qed.

Lemma nonfinal_rs_codes idx rs c : nonfinal c = true -> nonfinal (rs_codes idx rs c) = true.
Proof.
  intros H. unfold rs_codes. destruct (Nat.eqb idx 0 && rs); auto. destruct (negb (is_nil c)); auto.
Qed.

Lemma render_point_unopt_toks s rs st idx p cur : no_esc s = true -> set_nonfinal cur ->
  Forall tok_ok (r_out st) -> Forall tok_ok (r_out (render_point s false rs st idx p cur)).
Proof.
  intros Hs Hc Ho. rewrite render_point_unopt. cbn [r_out].
  apply Forall_app. split; auto. apply Forall_app. split.
  { destruct (r_first st && (0 <? idx) && rs); repeat constructor. }
  apply Forall_app. split. { apply tok_ok_opt_text. now apply no_esc_slice. }
  repeat constructor. cbn [tok_ok]. now apply nonfinal_rs_codes, nonfinal_pt_codes.
Qed.

Lemma iter_states_in t : forall act idx p cur x,
  In (idx, p, cur) (iter_states t act) -> In x cur -> In x act \/ In x (all_adds t).
Proof.
  induction t as [|[k q] t IH]; intros act idx p cur x; cbn [iter_states]; [intros []|].
  intros [Heq|Hin] Hx.
  - inversion Heq; subst. apply in_step in Hx as [Hx|Hx]; auto. right.
    unfold all_adds. cbn [flat_map snd]. apply in_or_app. now left.
  - destruct (IH _ _ _ _ _ Hin Hx) as [H|H].
    + apply in_step in H as [H|H]; auto. right. unfold all_adds. cbn [flat_map snd]. apply in_or_app. now left.
    + right. unfold all_adds. cbn [flat_map]. apply in_or_app. now right.
Qed.

Lemma render_loop_toks s opt rs
  (Hpoint : forall st idx p cur, set_nonfinal cur -> Forall tok_ok (r_out st) ->
            Forall tok_ok (r_out (render_point s opt rs st idx p cur))) :
  forall states st, (forall idx p cur, In (idx, p, cur) states -> set_nonfinal cur) ->
  Forall tok_ok (r_out st) -> Forall tok_ok (r_out (render_loop s opt rs states st)).
Proof.
  induction states as [|[[idx p] cur] states IH]; intros st Hc Ho; cbn [render_loop]; auto.
  destruct (length s <=? idx); auto. apply IH.
  - intros; eapply Hc; right; eauto.
  - apply Hpoint; auto. eapply Hc. left; reflexivity.
Qed.

Theorem to_str_toks_unopt_ok s rs re : no_esc (base s) = true ->
  (forall x, In x (all_adds (tbl s)) -> nonfinal (stxt x) = true) ->
  Forall tok_ok (to_str_toks s false rs re).
Proof.
  intros Hs Hn. unfold to_str_toks. destruct (is_nil (tbl s) && negb rs).
  - now apply tok_ok_opt_text.
  - cbn [andb]. apply Forall_app. split.
    + apply render_loop_toks.
      * intros; now apply render_point_unopt_toks.
      * intros idx p cur Hin x Hx. destruct (iter_states_in _ _ _ _ _ x Hin Hx) as [[]|H]. now apply Hn.
      * constructor.
    + apply Forall_app. split. { destruct (_ && rs); repeat constructor. }
      apply Forall_app. split. { apply tok_ok_opt_text. unfold no_esc. now apply forallb_skipn. }
      destruct (_ && re); repeat constructor.
Qed.

(* the same on the emitted characters *)
Theorem render_unopt_display_bytes : forall s rs re t0,
  ssorted (tbl s) -> no_esc (base s) = true -> adds_wf (tbl s) -> (rs = false -> t0 = tdefault) ->
  exists disp tfin,
    term_run t0 (to_str s false rs re) = (disp, tfin)
    /\ map fst disp = base s
    /\ (forall i, i < length (base s) -> exists st, nth_error (map snd disp) i = Some st /\
          teq st (style_of (map stxt (active_at (tbl s) i))))
    /\ (re = true -> teq tfin tdefault).
Proof.
  intros s rs re t0 Hs He Hwf Ht0. unfold to_str. rewrite term_tok_bridge.
  - now apply render_unopt_display_strong.
  - apply to_str_toks_unopt_ok; auto. intros x Hx. apply wf_nonfinal. now apply Hwf.
Qed.

(* ====================================================================================== *)
(* reset_start: the output begins with a reset                                              *)
(* ====================================================================================== *)
Lemma render_point_prefix s opt rs st idx p cur :
  exists ext, r_out (render_point s opt rs st idx p cur) = r_out st ++ ext.
Proof.
  unfold render_point. cbv zeta.
  match goal with |- context [match ?X with (a, b) => _ end] => destruct X as [ap1 c1] end.
  match goal with |- context [match ?X with (a, b) => _ end] => destruct X as [ap2 c2] end.
  cbn [r_out]. eexists. reflexivity.
Qed.

Lemma render_loop_prefix s opt rs : forall states st,
  exists ext, r_out (render_loop s opt rs states st) = r_out st ++ ext.
Proof.
  induction states as [|[[idx p] cur] states IH]; intros st; cbn [render_loop].
  - exists []. now rewrite app_nil_r.
  - destruct (length s <=? idx). { exists []. now rewrite app_nil_r. }
    destruct (IH (render_point s opt rs st idx p cur)) as [e1 H1].
    destruct (render_point_prefix s opt rs st idx p cur) as [e2 H2].
    exists (e2 ++ e1). now rewrite H1, H2, app_assoc.
Qed.

Theorem render_unopt_starts_reset s re : adds_wf (tbl s) ->
  exists codes r p, to_str_toks s false true re = OSgr codes :: r /\ params_of codes = Some (0%N :: p).
Proof.
  intros Hwf. unfold to_str_toks. rewrite andb_false_r. cbn [andb].
  set (init := {| r_out := []; r_last := 0; r_dict := []; r_exist := false; r_first := true |}).
  assert (Hbrk : exists codes r p,
    r_out init ++ (if r_first init && true then [OSgr []] else []) ++
    (if is_nil (skipn (r_last init) (base s)) then [] else [OText (skipn (r_last init) (base s))]) ++
    (if r_exist init && re then [OSgr []] else []) = OSgr codes :: r /\ params_of codes = Some (0%N :: p)).
  { cbn [init r_out r_first r_last r_exist andb app]. exists []. eexists. exists []. split; reflexivity. }
  destruct (tbl s) as [|[k p] t] eqn:Et.
  - cbn [iter_states render_loop]. exact Hbrk.
  - cbn [iter_states render_loop]. destruct (length (base s) <=? k); [exact Hbrk|].
    match goal with |- context [render_loop ?a ?b ?c ?d ?e] => destruct (render_loop_prefix a b c d e) as [ext ->] end.
    rewrite render_point_unopt. cbn [r_out r_first r_last init andb app].
    destruct k as [|k'].
    + change (0 <? 0) with false. cbn [andb app].
      replace (str_slice (base s) 0 0) with (@nil char) by (unfold str_slice; reflexivity). cbn [is_nil app].
      assert (Hc : set_wf (step [] p)).
      { intros x Hx. apply in_step in Hx as [[]|Hx]. apply Hwf. unfold all_adds. cbn [flat_map snd].
        apply in_or_app. now left. }
      pose proof (pt_codes_params p _ Hc) as HP. set (c := pt_codes p (step [] p)) in *.
      unfold rs_codes. cbn [Nat.eqb andb]. destruct c as [|c0 c]; cbn [is_nil negb].
      * exists [CH_0]. eexists. exists []. split; reflexivity.
      * eexists. eexists. eexists. split; [reflexivity|]. exact (params_of_zero_prefix _ _ HP).
    + change (0 <? S k') with true. cbn [andb app]. exists []. eexists. exists []. split; reflexivity.
Qed.

(* ====================================================================================== *)
(* Non-vacuity: a concrete string satisfying every hypothesis                               *)
(* ====================================================================================== *)
Definition ex_s : astr :=                                   (* "ABCD", bold on 0..2, colour on 2..3 *)
  mkA [65; 66; 67; 68]%N
      [(0, mkP [mkS 1 [49]%N] []);
       (2, mkP [mkS 2 [51; 56; 59; 53; 59; 50; 48; 48]%N] [mkS 1 [49]%N]);
       (3, mkP [] [mkS 2 [51; 56; 59; 53; 59; 50; 48; 48]%N])].

Example ex_s_hyps :
  ssorted (tbl ex_s) /\ keys_le (tbl ex_s) (length (base ex_s)) /\ no_esc (base ex_s) = true
  /\ adds_wf (tbl ex_s) /\ strict_ok (tbl ex_s) = true /\ is_parsable_tbl (tbl ex_s) = true.
Proof.
  split.
  { repeat constructor; cbn [In fst]; intros kp H;
    repeat (destruct H as [<-|H]; [cbn [fst]; lia|]); destruct H. }
  split. { intros kp H. cbn in H. repeat (destruct H as [<-|H]; [cbn; lia|]). destruct H. }
  split; [reflexivity|]. split; [|split; reflexivity].
  intros x H. cbn in H. repeat (destruct H as [<-|H]; [reflexivity|]). destruct H.
Qed.

Example ex_s_rendered :
  to_str_toks ex_s false false true
  = [OSgr [49]%N; OText [65; 66]%N; OSgr [48; 59; 51; 56; 59; 53; 59; 50; 48; 48]%N; OText [67]%N;
     OSgr []; OText [68]%N]
  /\ map (fun x => tstate_obs (snd x)) (fst (term_run tdefault (to_str ex_s false false true)))
     = map (fun i => tstate_obs (style_of (map stxt (active_at (tbl ex_s) i)))) [0; 1; 2; 3].
Proof. split; vm_compute; reflexivity. Qed.

(* ==== FOOTER ==== *)
Print Assumptions term_tok_bridge.
Print Assumptions render_unopt_display_strong.
Print Assumptions render_unopt_display.
Print Assumptions render_unopt_display_bytes.
Print Assumptions render_unopt_starts_reset.
