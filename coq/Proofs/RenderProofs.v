(* The rendering theorem: what AnsiString.to_str emits is displayed, by the specification
   terminal of Spec/Terminal.v, as the base text with on every character the style of the settings
   that are active at that character. *)
From AS Require Import Base Effects.
From AS.Model Require Import Sgr Table Render.
From AS.Proofs Require Import TableProofs PadProofs DecProofs GenCodeTable SgrProofs.
From AS.Spec Require Import Terminal.
From AS.Proofs Require Import SgrAlgebra.
Local Open Scope nat_scope.

Notation trun := TableProofs.run.

(* ====================================================================================== *)
(* Token level: what a terminal does with a token list                                     *)
(* ====================================================================================== *)
Definition sgr_move (t : tstate) (codes : str) : tstate :=
  match params_of codes with Some p => sgr spec_class t p | None => t end.

Fixpoint tok_run (t : tstate) (l : list otok) : list (char * tstate) * tstate :=
  match l with
  | [] => ([], t)
  | OText s :: r => let '(d, tf) := tok_run t r in (map (fun c => (c, t)) s ++ d, tf)
  | OSgr codes :: r => tok_run (sgr_move t codes) r
  end.

Lemma tok_run_app a : forall t b,
  tok_run t (a ++ b) = let '(d1, t1) := tok_run t a in let '(d2, t2) := tok_run t1 b in (d1 ++ d2, t2).
Proof.
  induction a as [|k a IH]; intros t b.
  - cbn [app tok_run]. destruct (tok_run t b); reflexivity.
  - destruct k as [s|c]; cbn [app tok_run].
    + rewrite IH. destruct (tok_run t a) as [d1 t1]. destruct (tok_run t1 b) as [d2 t2]. now rewrite app_assoc.
    + apply IH.
Qed.

Definition no_esc (s : str) : bool := forallb (fun c => negb (c =? ESC)%N) s.
Definition nonfinal (s : str) : bool := forallb (fun c => negb (is_final c)) s.
Definition tok_ok (k : otok) : Prop :=
  match k with OText s => no_esc s = true | OSgr c => nonfinal c = true end.

(* ---------- the byte-level terminal: fuel and equations ---------- *)
Lemma span_body_shorter s : forall b r, span_body s = (b, r) -> length r <= length s.
Proof.
  induction s as [|c s IH]; intros b r; cbn [span_body].
  - intros H; inversion H; simpl; lia.
  - destruct (is_final c). { intros H; inversion H; simpl; lia. }
    destruct (span_body s) as [b' r'] eqn:E. intros H; inversion H; subst.
    specialize (IH b' r eq_refl). simpl; lia.
Qed.

Lemma span_body_stop b f r : nonfinal b = true -> is_final f = true -> span_body (b ++ f :: r) = (b, f :: r).
Proof.
  unfold nonfinal. induction b as [|c b IH]; intros Hb Hf.
  - cbn [app span_body]. now rewrite Hf.
  - cbn [forallb] in Hb. apply andb_true_iff in Hb as [H1 H2]. apply negb_true_iff in H1.
    cbn [app span_body]. rewrite H1, (IH H2 Hf). reflexivity.
Qed.

Lemma term_fuel_more : forall f s t f', length s <= f -> length s <= f' ->
  term_run_fuel f t s = term_run_fuel f' t s.
Proof.
  induction f as [|f IH]; intros s t f' Hf Hf'.
  - destruct s; simpl in Hf; [|lia]. destruct f'; reflexivity.
  - destruct s as [|c1 r1]. { destruct f'; reflexivity. }
    destruct f' as [|f']; [simpl in Hf'; lia|]. cbn [term_run_fuel].
    destruct r1 as [|c2 r2]; [reflexivity|].
    destruct ((c1 =? ESC)%N && (c2 =? LBR)%N).
    + destruct (span_body r2) as [b r3] eqn:E. destruct r3 as [|fin r4]; [reflexivity|].
      pose proof (span_body_shorter r2 b (fin :: r4) E) as Hl. apply IH; simpl in *; lia.
    + rewrite (IH (c2 :: r2) t f') by (simpl in *; lia). reflexivity.
Qed.

Lemma term_run_plain t c r : (c =? ESC)%N = false ->
  term_run t (c :: r) = let '(d, tf) := term_run t r in ((c, t) :: d, tf).
Proof.
  intros Hc. unfold term_run. cbn [length term_run_fuel]. destruct r as [|c2 r2]; [reflexivity|].
  rewrite Hc. cbn [andb]. reflexivity.
Qed.

Lemma term_run_sgr t codes rest : nonfinal codes = true ->
  term_run t (ESC :: LBR :: codes ++ CH_m :: rest) = term_run (sgr_move t codes) rest.
Proof.
  intros Hc. unfold term_run.
  assert (Hn : exists n, length (ESC :: LBR :: codes ++ CH_m :: rest) = S n /\ length rest <= n).
  { cbn [length]. rewrite app_length. cbn [length]. eexists; split; [reflexivity|lia]. }
  destruct Hn as (n & -> & Hn). cbn [term_run_fuel].
  change ((ESC =? ESC)%N && (LBR =? LBR)%N) with true. cbv iota.
  rewrite (span_body_stop codes CH_m rest Hc eq_refl).
  change (CH_m =? CH_m)%N with true. cbv iota. fold (sgr_move t codes).
  apply term_fuel_more; lia.
Qed.

(* ---------- the bridge ---------- *)
Theorem term_tok_bridge : forall toks t, Forall tok_ok toks -> term_run t (bytes_of toks) = tok_run t toks.
Proof.
  induction toks as [|k toks IH]; intros t Hok; [reflexivity|].
  inversion Hok as [|? ? Hk Hr]; subst. destruct k as [s|c]; cbn [tok_ok] in Hk.
  - unfold bytes_of. cbn [flat_map bytes_of_tok tok_run]. fold (bytes_of toks).
    clear Hok. induction s as [|x s IHs].
    + cbn [app map]. rewrite (IH t Hr). destruct (tok_run t toks); reflexivity.
    + unfold no_esc in Hk. cbn [forallb] in Hk. apply andb_true_iff in Hk as [H1 H2].
      apply negb_true_iff in H1. cbn [app]. rewrite (term_run_plain t x _ H1).
      rewrite (IHs H2).
      destruct (tok_run t toks) as [d tf]. reflexivity.
  - unfold bytes_of. cbn [flat_map bytes_of_tok tok_run]. fold (bytes_of toks).
    cbn [app]. rewrite <- app_assoc. cbn [app]. rewrite (term_run_sgr t c _ Hk). apply IH. exact Hr.
Qed.

Example bridge_ex :
  let toks := [OSgr [49; 59; 51]%N; OText [65; 66]%N; OSgr []; OText [67]%N] in     (* ESC[1;3m AB ESC[m C *)
  Forall tok_ok toks /\ map fst (fst (term_run tdefault (bytes_of toks))) = [65; 66; 67]%N.
Proof. split; [repeat constructor|reflexivity]. Qed.

(* ====================================================================================== *)
(* Facts about the table replay                                                             *)
(* ====================================================================================== *)
Definition sty (l : list setting) : tstate := style_of (map stxt l).
Definition adds_wf (t : fmts) : Prop := forall x, In x (all_adds t) -> wf_setting (stxt x) = true.
Definition set_wf (l : list setting) : Prop := forall x, In x l -> wf_setting (stxt x) = true.

Lemma set_wf_texts l : set_wf l -> Forall (fun t => wf_setting t = true) (map stxt l).
Proof.
  intros H. apply Forall_forall. intros t Ht. apply in_map_iff in Ht as (x & <- & Hx). now apply H.
Qed.

Lemma all_adds_app a b : all_adds (a ++ b) = all_adds a ++ all_adds b.
Proof. unfold all_adds. apply flat_map_app. Qed.

Lemma in_remove_ref x s l : In x (remove_ref s l) -> In x l.
Proof.
  induction l as [|y l IH]; cbn [remove_ref]; auto. destruct (same_ref s y); cbn [In]; auto.
  intros [H|H]; auto.
Qed.

Lemma in_remove_all x rems : forall l, In x (fold_left (fun a s => remove_ref s a) rems l) -> In x l.
Proof.
  induction rems as [|s rems IH]; intros l; cbn [fold_left]; auto.
  intros H. apply IH in H. eapply in_remove_ref; eauto.
Qed.

Lemma in_step x act p : In x (step act p) -> In x act \/ In x (padd p).
Proof. unfold step. intros H. apply in_app_or in H as [H|H]; auto. left. eapply in_remove_all; eauto. Qed.

Lemma step_no_rem act p : prem p = [] -> step act p = act ++ padd p.
Proof. unfold step. now intros ->. Qed.

Lemma in_trun x t : forall act, In x (trun act t) -> In x act \/ In x (all_adds t).
Proof.
  induction t as [|[k p] t IH]; intros act; cbn [TableProofs.run fold_left]; auto.
  unfold trun. cbn [fold_left]. fold (trun (stepf act (k, p)) t). intros H.
  apply IH in H as [H|H].
  - unfold stepf in H. cbn [snd] in H. apply in_step in H as [H|H]; auto.
    right. unfold all_adds. cbn [flat_map snd]. apply in_or_app. now left.
  - right. unfold all_adds. cbn [flat_map]. apply in_or_app. now right.
Qed.

Lemma trun_snoc act t k p : trun act (t ++ [(k, p)]) = step (trun act t) p.
Proof. rewrite TableProofs.run_app. reflexivity. Qed.

Lemma ssorted_app_r a : forall b, ssorted (a ++ b) -> ssorted b.
Proof. induction a as [|[k p] a IH]; intros b H; auto. apply IH. cbn [app] in H. eapply ssorted_tail; eauto. Qed.

Lemma filter_all {A} (f : A -> bool) l : (forall x, In x l -> f x = true) -> filter f l = l.
Proof.
  induction l as [|a l IH]; intros H; cbn [filter]; auto. rewrite (H a (or_introl eq_refl)).
  f_equal. apply IH. intros; apply H; now right.
Qed.
Lemma filter_none {A} (f : A -> bool) l : (forall x, In x l -> f x = false) -> filter f l = [].
Proof.
  induction l as [|a l IH]; intros H; cbn [filter]; auto. rewrite (H a (or_introl eq_refl)).
  apply IH. intros; apply H; now right.
Qed.

(* between two change points the active list is constant *)
Lemma active_at_between done rest i : ssorted (done ++ rest) ->
  (forall kp, In kp done -> fst kp <= i) -> (forall kp, In kp rest -> i < fst kp) ->
  active_at (done ++ rest) i = trun [] done.
Proof.
  intros Hs Hd Hr. rewrite active_at_run by exact Hs. unfold upto. rewrite filter_app.
  rewrite filter_all, filter_none, app_nil_r; auto.
  - intros kp Hin. apply Nat.leb_gt. now apply Hr.
  - intros kp Hin. apply Nat.leb_le. now apply Hd.
Qed.

(* ====================================================================================== *)
(* The codes emitted at one change point (unoptimised)                                     *)
(* ====================================================================================== *)
Definition pt_codes (p : point) (cur : list setting) : str :=
  join [SEMI] (if negb (is_nil (prem p)) && negb (is_nil (map stxt cur))
               then [CH_0] :: map stxt cur else map stxt cur).
Definition rs_codes (idx : nat) (rs : bool) (codes : str) : str :=
  if Nat.eqb idx 0 && rs then (if negb (is_nil codes) then CH_0 :: SEMI :: codes else [CH_0]) else codes.

Lemma wf_params_some l : Forall (fun t => wf_setting t = true) l -> Forall (fun t => params_of t <> None) l.
Proof.
  intros H. eapply Forall_impl; [|exact H]. cbv beta. intros t Ht.
  destruct (wf_setting_inv t Ht) as (p & -> & _). discriminate.
Qed.

(* how the terminal reads the codes of one point *)
Lemma pt_codes_params p cur : set_wf cur ->
  params_of (pt_codes p cur) =
    Some (if is_nil cur then [0%N]
          else if is_nil (prem p) then codes_of_texts (map stxt cur)
          else 0%N :: codes_of_texts (map stxt cur)).
Proof.
  intros Hwf. unfold pt_codes. pose proof (wf_params_some _ (set_wf_texts _ Hwf)) as Hp.
  destruct cur as [|x cur].
  - cbn [map is_nil negb]. rewrite andb_false_r. reflexivity.
  - cbn [is_nil]. change (is_nil (map stxt (x :: cur))) with false. cbn [negb]. rewrite andb_true_r.
    destruct (prem p) as [|r rs]; cbn [is_nil negb].
    + apply params_of_join; [discriminate|exact Hp].
    + rewrite params_of_join; [reflexivity|discriminate|]. constructor; [discriminate|exact Hp].
Qed.

Lemma sgr_move_teq t t' c : teq t t' -> teq (sgr_move t c) (sgr_move t' c).
Proof. intros H. unfold sgr_move. destruct (params_of c); auto. now apply sgr_teq. Qed.

(* the state after the point's sequence is the style of the new active list *)
Lemma pt_codes_style t act p : set_wf act -> set_wf (padd p) ->
  teq t (sty act) \/ teq t tdefault ->
  teq (sgr_move t (pt_codes p (step act p))) (sty (step act p)).
Proof.
  intros Ha Hp Ht.
  assert (Hc : set_wf (step act p)). { intros x Hx. apply in_step in Hx as [Hx|Hx]; auto. }
  unfold sgr_move. rewrite (pt_codes_params p _ Hc).
  destruct (step act p) as [|x cur] eqn:Es.
  - cbn [is_nil]. intros e. reflexivity.
  - cbn [is_nil]. destruct (prem p) as [|r rs] eqn:Er; cbn [is_nil].
    + rewrite <- Es. rewrite (step_no_rem act p Er). unfold sty. rewrite map_app.
      destruct Ht as [Ht|Ht].
      * eapply teq_trans; [apply sgr_teq; exact Ht|]. unfold sty. apply style_replay. now apply set_wf_texts.
      * eapply teq_trans; [apply sgr_teq; exact Ht|]. apply teq_refl.
    + rewrite sgr_reset. apply teq_refl.
Qed.

(* the reset prefix of the very first sequence *)
Lemma rs_codes_reset t codes P : params_of codes = Some P ->
  sgr_move t (rs_codes 0 true codes) = sgr_move tdefault codes.
Proof.
  intros HP. unfold rs_codes. cbn [Nat.eqb andb]. destruct codes as [|c codes]; cbn [is_nil negb].
  - reflexivity.
  - unfold sgr_move. rewrite HP.
    rewrite (params_of_zero_prefix (c :: codes) P HP : params_of (CH_0 :: SEMI :: c :: codes) = Some (0%N :: P)).
    apply sgr_reset.
Qed.

(* ====================================================================================== *)
(* One iteration of the loop: what render_point appends                                     *)
(* ====================================================================================== *)
Lemma render_point_unopt s rs st idx p cur :
  render_point s false rs st idx p cur =
  {| r_out := r_out st
              ++ (if r_first st && (0 <? idx) && rs then [OSgr []] else [])
              ++ (if is_nil (str_slice s (r_last st) idx) then [] else [OText (str_slice s (r_last st) idx)])
              ++ [OSgr (rs_codes idx rs (pt_codes p cur))];
     r_last := idx; r_dict := r_dict st; r_exist := negb (is_nil cur); r_first := false |}.
Proof.
  unfold render_point, rs_codes, pt_codes. set (c := join [SEMI] _).
  destruct (Nat.eqb idx 0 && rs); [|reflexivity].
  cbn [andb]. destruct (negb (is_nil c)); reflexivity.
Qed.

(* the optimiser's choice between the difference and the full re-emission *)
Definition opt_pick (old new : sdict) (codes0 : str) : bool * str :=
  let opt := join [SEMI] (diff_codes old new) in
  if is_nil opt then (false, codes0)
  else if length opt <? length codes0 then (true, opt) else (true, codes0).
Definition rs_wrap (idx : nat) (rs : bool) (ac : bool * str) : bool * str :=
  if Nat.eqb idx 0 && rs
  then (if fst ac && negb (is_nil (snd ac)) then (true, CH_0 :: SEMI :: snd ac) else (true, [CH_0]))
  else ac.

Lemma pick_wrap_eq {A} (F : bool -> str -> A) idx rs (o c : str) :
  (let '(ap, co) := if is_nil o then (false, c) else if length o <? length c then (true, o) else (true, c) in
   let '(ap2, co2) := if Nat.eqb idx 0 && rs
                      then (if ap && negb (is_nil co) then (true, CH_0 :: SEMI :: co) else (true, [CH_0]))
                      else (ap, co) in
   F ap2 co2)
  = let ac := rs_wrap idx rs (if is_nil o then (false, c)
                              else if length o <? length c then (true, o) else (true, c)) in
    F (fst ac) (snd ac).
Proof.
  unfold rs_wrap. destruct (is_nil o); [|destruct (length o <? length c)];
    destruct (Nat.eqb idx 0 && rs); cbn [fst snd andb]; try reflexivity;
    destruct (negb (is_nil _)); reflexivity.
Qed.

Lemma render_point_opt s rs st idx p cur :
  render_point s true rs st idx p cur =
  let nd := s2d (fun x => x) (map stxt cur) [] in
  let ac := rs_wrap idx rs (opt_pick (r_dict st) nd (pt_codes p cur)) in
  {| r_out := r_out st
              ++ (if r_first st && (0 <? idx) && rs then [OSgr []] else [])
              ++ (if is_nil (str_slice s (r_last st) idx) then [] else [OText (str_slice s (r_last st) idx)])
              ++ (if fst ac then [OSgr (snd ac)] else []);
     r_last := idx; r_dict := nd; r_exist := negb (is_nil cur); r_first := false |}.
Proof.
  unfold render_point, opt_pick, pt_codes. cbv zeta.
  exact (pick_wrap_eq
           (fun ap2 co2 =>
              {| r_out := r_out st
                          ++ (if r_first st && (0 <? idx) && rs then [OSgr []] else [])
                          ++ (if is_nil (str_slice s (r_last st) idx) then []
                              else [OText (str_slice s (r_last st) idx)])
                          ++ (if ap2 then [OSgr co2] else []);
                 r_last := idx; r_dict := s2d (fun x => x) (map stxt cur) [];
                 r_exist := negb (is_nil cur); r_first := false |}) idx rs _ _).
Qed.

Lemma tok_run_opt_text t x r : tok_run t ((if is_nil x then [] else [OText x]) ++ r) = tok_run t (OText x :: r).
Proof. destruct x; cbn [is_nil app tok_run map]; destruct (tok_run t r); reflexivity. Qed.

Lemma map_fst_chunk (t : tstate) (text : str) : map fst (map (fun c => (c, t)) text) = text.
Proof. rewrite map_map. cbn [fst]. apply map_id. Qed.

Lemma firstn_slice (s : str) a b : a <= b -> firstn b s = firstn a s ++ str_slice s a b.
Proof.
  unfold str_slice. revert s b. induction a as [|a IH]; intros s b Hab.
  - cbn [firstn skipn app]. now rewrite Nat.sub_0_r.
  - destruct b as [|b]; [lia|]. destruct s as [|x s]; [cbn [skipn]; now rewrite !firstn_nil|].
    cbn [firstn skipn app]. rewrite (IH s b) by lia. reflexivity.
Qed.

Lemma str_slice_len (s : str) a b : length (str_slice s a b) <= b - a.
Proof. unfold str_slice. rewrite firstn_length. lia. Qed.

Lemma ssorted_app_lt a : forall b, ssorted (a ++ b) -> forall x y, In x a -> In y b -> fst x < fst y.
Proof.
  induction a as [|[k p] a IH]; intros b H x y Hx Hy; [destruct Hx|]. cbn [app] in H.
  inversion H as [|? ? ? Hk Hs]; subst. destruct Hx as [<-|Hx].
  - cbn [fst]. apply Hk. apply in_or_app. now right.
  - eapply IH; eauto.
Qed.

(* ====================================================================================== *)
(* The loop invariant, generic in the renderer variant and in the relation on states        *)
(* (teq gives the exact theorems, teq_disp the weaker display-equivalence forms)           *)
(* ====================================================================================== *)
Section Generic.
Variable R : tstate -> tstate -> Prop.
Hypothesis HR : rel_ok R.

(* styles shown on a displayed chunk that starts at character offset off *)
Definition disp_ok (tb : fmts) (off : nat) (disp : list (char * tstate)) : Prop :=
  forall i c st, nth_error disp i = Some (c, st) -> R st (sty (active_at tb (off + i))).

Lemma disp_ok_app tb d1 d2 : disp_ok tb 0 d1 -> disp_ok tb (length d1) d2 -> disp_ok tb 0 (d1 ++ d2).
Proof.
  intros H1 H2 i c st Hn. destruct (Nat.lt_ge_cases i (length d1)) as [Hl|Hl].
  - rewrite nth_error_app1 in Hn by exact Hl. eapply H1; eauto.
  - rewrite nth_error_app2 in Hn by exact Hl. apply H2 in Hn.
    replace (0 + i) with (length d1 + (i - length d1)) by lia. exact Hn.
Qed.

Lemma disp_ok_chunk tb off t text :
  (forall j, j < length text -> R t (sty (active_at tb (off + j)))) ->
  disp_ok tb off (map (fun c => (c, t)) text).
Proof.
  intros H i c st Hn. assert (Hi : i < length text).
  { rewrite <- (map_length (fun c => (c, t)) text). apply nth_error_Some. congruence. }
  rewrite nth_error_map in Hn. destruct (nth_error text i); [|discriminate]. inversion Hn; subst. now apply H.
Qed.

Lemma disp_ok_styles tb disp n : length disp = n -> disp_ok tb 0 disp ->
  forall i, i < n -> exists st, nth_error (map snd disp) i = Some st
                                /\ R st (style_of (map stxt (active_at tb i))).
Proof.
  intros Hl Hd i Hi. destruct (nth_error disp i) as [[c st]|] eqn:En.
  - exists st. split. { rewrite nth_error_map, En. reflexivity. } exact (Hd i c st En).
  - apply nth_error_None in En. lia.
Qed.

Lemma sgr_move_R t t' c : R t t' -> R (sgr_move t c) (sgr_move t' c).
Proof. intros H. unfold sgr_move. destruct (params_of c); auto. now apply (R_sgr R HR). Qed.

(* the state after the full re-emission is the style of the new active list *)
Lemma pt_codes_style_R t act p : set_wf act -> set_wf (padd p) ->
  R t (sty act) \/ R t tdefault ->
  R (sgr_move t (pt_codes p (step act p))) (sty (step act p)).
Proof.
  intros Ha Hp [Ht|Ht].
  - eapply (R_trans R HR); [apply sgr_move_R; exact Ht|]. apply (R_teq R HR).
    apply pt_codes_style; auto. left. apply teq_refl.
  - eapply (R_trans R HR); [apply sgr_move_R; exact Ht|]. apply (R_teq R HR).
    apply pt_codes_style; auto. right. apply teq_refl.
Qed.

(* the early exit: no table, no reset_start *)
Lemma display_early (s : str) (t : tstate) :
  exists disp tfin,
    tok_run t (if is_nil s then [] else [OText s]) = (disp, tfin)
    /\ map fst disp = s
    /\ (forall i, i < length s -> exists st, nth_error (map snd disp) i = Some st /\ R st t)
    /\ R tfin t.
Proof.
  exists (map (fun c => (c, t)) s), t. split.
  { rewrite <- (app_nil_r (if is_nil s then [] else [OText s])).
    rewrite tok_run_opt_text. cbn [tok_run]. now rewrite app_nil_r. }
  split. { apply map_fst_chunk. }
  split. 2:{ apply (R_refl R HR). }
  intros i Hi. destruct (nth_error s i) as [c|] eqn:En.
  - exists t. split; [|apply (R_refl R HR)]. rewrite map_map. cbn [snd]. rewrite nth_error_map, En. reflexivity.
  - apply nth_error_None in En. lia.
Qed.
Variable s : str.
Variable tb : fmts.
Variable t0 : tstate.
Variable rs : bool.
Variable opt : bool.
Hypothesis Hsorted : ssorted tb.
Hypothesis Ht0 : rs = false -> t0 = tdefault.

(* `done` are the points processed so far, `rest` the others *)
Definition Inv (done rest : fmts) (st : rstate) : Prop :=
  exists disp t,
    tok_run t0 (r_out st) = (disp, t)
    /\ map fst disp = firstn (r_last st) s
    /\ disp_ok tb 0 disp
    /\ r_last st <= length s
    /\ (forall kp, In kp done -> fst kp <= r_last st)
    /\ (forall kp, In kp rest -> r_last st <= fst kp)
    /\ (r_first st = false -> R t (sty (trun [] done)) /\ r_exist st = negb (is_nil (trun [] done)))
    /\ (r_first st = true -> done = [] /\ r_out st = [] /\ r_last st = 0 /\ r_exist st = false)
    /\ (opt = true -> r_dict st = s2d (fun x => x) (map stxt (trun [] done)) []).

(* one iteration, given what the point's own sequence `sg` does to the terminal *)
Lemma Inv_step done k p rest st st' sg :
  tb = done ++ (k, p) :: rest -> k < length s ->
  Inv done ((k, p) :: rest) st ->
  r_out st' = r_out st ++ (if r_first st && (0 <? k) && rs then [OSgr []] else [])
              ++ (if is_nil (str_slice s (r_last st) k) then [] else [OText (str_slice s (r_last st) k)])
              ++ sg ->
  r_last st' = k -> r_first st' = false -> r_exist st' = negb (is_nil (step (trun [] done) p)) ->
  (opt = true -> r_dict st' = s2d (fun x => x) (map stxt (step (trun [] done) p)) []) ->
  (forall t1, R t1 (sty (trun [] done)) \/ (k = 0 /\ rs = true) ->
     exists t2, tok_run t1 sg = ([], t2) /\ R t2 (sty (step (trun [] done) p))) ->
  Inv (done ++ [(k, p)]) rest st'.
Proof.
  intros E Hk (disp & t & Hrun & Hfst & Hdisp & Hlast & Hdone & Hrest & Hnf & Hf & Hdict)
         Hout Hl' Hf' He' Hd' Hsg.
  assert (Hs' : ssorted (done ++ (k, p) :: rest)) by (rewrite <- E; exact Hsorted).
  assert (Hgt : forall kp, In kp rest -> k < fst kp).
  { apply ssorted_app_r in Hs'. inversion Hs'; subst; auto. }
  assert (Hlk : r_last st <= k) by (apply (Hrest (k, p)); now left).
  assert (Hlen : length disp = r_last st).
  { rewrite <- (map_length fst), Hfst, firstn_length. lia. }
  set (act := trun [] done) in *. set (cur := step act p) in *.
  set (text := str_slice s (r_last st) k) in *.
  (* state after the optional leading reset *)
  set (t1 := if r_first st && (0 <? k) && rs then tdefault else t).
  assert (Ht1 : R t1 (sty act) \/ (k = 0 /\ rs = true)).
  { unfold t1. destruct (r_first st) eqn:Ef.
    - destruct (Hf eq_refl) as (Hd & Ho & Hl & He). rewrite Ho in Hrun. cbn [tok_run] in Hrun.
      inversion Hrun; subst disp t. unfold act. rewrite Hd. cbn [TableProofs.run fold_left].
      change (sty []) with tdefault. cbn [andb].
      destruct rs eqn:Ers.
      + destruct k as [|k']; [right; auto|]. left. cbn. apply (R_refl R HR).
      + rewrite andb_false_r. left. rewrite (Ht0 eq_refl). apply (R_refl R HR).
    - cbn [andb]. left. apply (Hnf eq_refl). }
  assert (Hpre : tok_run t0 (r_out st ++ (if r_first st && (0 <? k) && rs then [OSgr []] else []))
                 = (disp, t1)).
  { rewrite tok_run_app, Hrun. unfold t1. destruct (r_first st && (0 <? k) && rs); cbn [tok_run].
    - now rewrite app_nil_r.
    - now rewrite app_nil_r. }
  (* the chunk of text *)
  assert (Hchunk : disp_ok tb (r_last st) (map (fun c => (c, t1)) text)).
  { apply disp_ok_chunk. intros j Hj. pose proof (str_slice_len s (r_last st) k) as Hsl. fold text in Hsl.
    destruct Ht1 as [Ht1|[Hk0 _]]; [|lia].
    rewrite E. rewrite (active_at_between done ((k, p) :: rest)); auto.
    - intros kp Hin. specialize (Hdone kp Hin). lia.
    - intros kp [<-|Hin]; cbn [fst]; [lia|]. specialize (Hgt kp Hin). lia. }
  destruct (Hsg t1 Ht1) as (t2 & Hsg2 & Ht2).
  exists (disp ++ map (fun c => (c, t1)) text), t2. rewrite Hout, Hl', Hf', He'.
  split.
  { rewrite app_assoc, tok_run_app, Hpre, tok_run_opt_text. cbn [tok_run]. rewrite Hsg2. now rewrite app_nil_r. }
  split. { rewrite map_app, map_fst_chunk, Hfst. symmetry. apply firstn_slice. exact Hlk. }
  split. { apply disp_ok_app; auto. now rewrite Hlen. }
  split. { lia. }
  split. { intros kp Hin. apply in_app_or in Hin as [Hin|[<-|[]]]; cbn [fst]; auto. specialize (Hdone kp Hin). lia. }
  split. { intros kp Hin. specialize (Hgt kp Hin). lia. }
  split. { intros _. rewrite trun_snoc. split; auto. }
  split. { discriminate. }
  intros Ho. rewrite trun_snoc. now apply Hd'.
Qed.

Hypothesis Hpoint : forall done k p rest st, tb = done ++ (k, p) :: rest -> k < length s ->
  Inv done ((k, p) :: rest) st ->
  Inv (done ++ [(k, p)]) rest (render_point s opt rs st k p (step (trun [] done) p)).

Lemma Inv_loop : forall rest done st, tb = done ++ rest -> Inv done rest st ->
  exists done' rest', tb = done' ++ rest'
    /\ Inv done' rest' (render_loop s opt rs (iter_states rest (trun [] done)) st)
    /\ (forall kp, In kp rest' -> length s <= fst kp).
Proof.
  induction rest as [|[k p] rest IH]; intros done st E HI.
  - exists done, []. cbn [iter_states render_loop]. repeat split; auto. intros kp [].
  - cbn [iter_states render_loop]. destruct (length s <=? k) eqn:Ek.
    + apply Nat.leb_le in Ek. exists done, ((k, p) :: rest). repeat split; auto.
      assert (Hs' : ssorted (done ++ (k, p) :: rest)) by (rewrite <- E; exact Hsorted).
      apply ssorted_app_r in Hs'. inversion Hs'; subst.
      intros kp [<-|Hin]; cbn [fst]; auto. specialize (H1 kp Hin). lia.
    + apply Nat.leb_gt in Ek.
      pose proof (IH (done ++ [(k, p)]) (render_point s opt rs st k p (step (trun [] done) p))) as IH'.
      rewrite trun_snoc in IH'. apply IH'. { rewrite <- app_assoc. exact E. }
      apply Hpoint; auto.
Qed.

(* after the loop: the optional reset, the tail of the text, the optional final reset *)
Lemma Inv_final re done rest st :
  tb = done ++ rest -> Inv done rest st -> (forall kp, In kp rest -> length s <= fst kp) ->
  exists disp tfin,
    tok_run t0 (r_out st
                ++ (if r_first st && rs then [OSgr []] else [])
                ++ (if is_nil (skipn (r_last st) s) then [] else [OText (skipn (r_last st) s)])
                ++ (if r_exist st && re then [OSgr []] else [])) = (disp, tfin)
    /\ map fst disp = s
    /\ disp_ok tb 0 disp
    /\ (re = true -> R tfin tdefault).
Proof.
  intros E (disp & t & Hrun & Hfst & Hdisp & Hlast & Hdone & Hrest & Hnf & Hf & _) Hbeyond.
  assert (Hlen : length disp = r_last st).
  { rewrite <- (map_length fst), Hfst, firstn_length. lia. }
  set (act := trun [] done) in *.
  set (t1 := if r_first st && rs then tdefault else t).
  assert (Ht1 : R t1 (sty act)).
  { unfold t1. destruct (r_first st) eqn:Ef.
    - destruct (Hf eq_refl) as (Hd & Ho & Hl & He). rewrite Ho in Hrun. cbn [tok_run] in Hrun.
      inversion Hrun; subst disp t. unfold act. rewrite Hd. cbn [TableProofs.run fold_left].
      change (sty []) with tdefault. cbn [andb]. destruct rs; [apply (R_refl R HR)|].
      rewrite (Ht0 eq_refl). apply (R_refl R HR).
    - cbn [andb]. apply (Hnf eq_refl). }
  assert (Hnil : r_exist st = false -> act = []).
  { intros He. destruct (r_first st) eqn:Ef.
    - destruct (Hf eq_refl) as (Hd & _). unfold act. now rewrite Hd.
    - destruct (Hnf eq_refl) as [_ Hx]. rewrite He in Hx. destruct act; [reflexivity|discriminate]. }
  set (tail := skipn (r_last st) s).
  assert (Hchunk : disp_ok tb (r_last st) (map (fun c => (c, t1)) tail)).
  { apply disp_ok_chunk. intros j Hj. unfold tail in Hj. rewrite skipn_length in Hj.
    rewrite E. rewrite (active_at_between done rest); auto.
    - rewrite <- E. exact Hsorted.
    - intros kp Hin. specialize (Hdone kp Hin). lia.
    - intros kp Hin. specialize (Hbeyond kp Hin). lia. }
  set (tfin := if r_exist st && re then tdefault else t1).
  exists (disp ++ map (fun c => (c, t1)) tail), tfin.
  split.
  { rewrite tok_run_app, Hrun. rewrite tok_run_app.
    assert (Hp : tok_run t (if r_first st && rs then [OSgr []] else []) = ([], t1)).
    { unfold t1. destruct (r_first st && rs); reflexivity. }
    rewrite Hp. rewrite tok_run_opt_text. cbn [tok_run].
    assert (Hq : tok_run t1 (if r_exist st && re then [OSgr []] else []) = ([], tfin)).
    { unfold tfin. destruct (r_exist st && re); reflexivity. }
    rewrite Hq. cbn [app]. now rewrite app_nil_r. }
  split. { rewrite map_app, map_fst_chunk, Hfst. apply firstn_skipn. }
  split. { apply disp_ok_app; auto. now rewrite Hlen. }
  intros Hre. unfold tfin. rewrite Hre, andb_true_r. destruct (r_exist st) eqn:Ee; [apply (R_refl R HR)|].
  rewrite (Hnil eq_refl) in Ht1. exact Ht1.
Qed.

Definition rinit : rstate := {| r_out := []; r_last := 0; r_dict := []; r_exist := false; r_first := true |}.

(* the whole main path of to_str *)
Theorem display_generic re :
  let st := render_loop s opt rs (iter_states tb []) rinit in
  exists disp tfin,
    tok_run t0 (r_out st
                ++ (if r_first st && rs then [OSgr []] else [])
                ++ (if is_nil (skipn (r_last st) s) then [] else [OText (skipn (r_last st) s)])
                ++ (if r_exist st && re then [OSgr []] else [])) = (disp, tfin)
    /\ map fst disp = s
    /\ (forall i, i < length s -> exists st, nth_error (map snd disp) i = Some st /\
          R st (style_of (map stxt (active_at tb i))))
    /\ (re = true -> R tfin tdefault).
Proof.
  intros st.
  assert (HI : Inv [] tb rinit).
  { exists [], t0. cbn [r_out r_last r_first r_exist r_dict rinit]. repeat split; auto; try discriminate.
    - intros i c x Hn. destruct i; discriminate.
    - lia.
    - intros kp [].
    - intros; lia. }
  destruct (Inv_loop tb [] rinit eq_refl HI) as (done' & rest' & E & HI' & Hb).
  change (trun [] []) with (@nil setting) in HI'. fold st in HI'.
  destruct (Inv_final re done' rest' st E HI' Hb) as (disp & tfin & Hrun & Hfst & Hd & Hfin).
  exists disp, tfin. split; [exact Hrun|]. split; [exact Hfst|]. split; [|exact Hfin].
  apply disp_ok_styles; auto. rewrite <- (map_length fst), Hfst. reflexivity.
Qed.

End Generic.

(* ====================================================================================== *)
(* Main theorem, unoptimised renderer                                                       *)
(* ====================================================================================== *)
Lemma trun_wf tb done rest : adds_wf tb -> tb = done ++ rest -> set_wf (trun [] done).
Proof.
  intros Hwf E x Hx. apply in_trun in Hx as [[]|Hx]. apply Hwf. rewrite E, all_adds_app. apply in_or_app. now left.
Qed.
Lemma padd_wf tb done k p rest : adds_wf tb -> tb = done ++ (k, p) :: rest -> set_wf (padd p).
Proof.
  intros Hwf E x Hx. apply Hwf. rewrite E, all_adds_app. apply in_or_app. right.
  unfold all_adds. cbn [flat_map snd]. apply in_or_app. now left.
Qed.

Lemma Inv_point_unopt s tb t0 rs : ssorted tb -> adds_wf tb -> (rs = false -> t0 = tdefault) ->
  forall done k p rest st, tb = done ++ (k, p) :: rest -> k < length s ->
  Inv teq s tb t0 false done ((k, p) :: rest) st ->
  Inv teq s tb t0 false (done ++ [(k, p)]) rest (render_point s false rs st k p (step (trun [] done) p)).
Proof.
  intros Hsorted Hwf Ht0 done k p rest st E Hk HI.
  assert (Hact : set_wf (trun [] done)) by (eapply trun_wf; eauto).
  assert (Hpadd : set_wf (padd p)) by (eapply padd_wf; eauto).
  apply (Inv_step teq teq_rel_ok s tb t0 rs false Hsorted Ht0 done k p rest st
                  (render_point s false rs st k p (step (trun [] done) p))
                  [OSgr (rs_codes k rs (pt_codes p (step (trun [] done) p)))] E Hk HI);
    try rewrite render_point_unopt; cbn [r_out r_last r_first r_exist r_dict]; try reflexivity; try discriminate.
  intros t1 Ht1. eexists. split; [reflexivity|].
  set (act := trun [] done) in *. set (cur := step act p).
  destruct (Nat.eqb k 0 && rs) eqn:Ec.
  - apply andb_true_iff in Ec as [Ek Er]. apply Nat.eqb_eq in Ek. subst k. rewrite Er.
    assert (Hc : set_wf cur). { intros x Hx. apply in_step in Hx as [Hx|Hx]; auto. }
    erewrite rs_codes_reset by (apply pt_codes_params; exact Hc).
    apply pt_codes_style; auto. right. apply teq_refl.
  - unfold rs_codes. rewrite Ec. destruct Ht1 as [Ht1|[Hk0 Hr]].
    + apply pt_codes_style; auto.
    + subst k. rewrite Hr in Ec. discriminate.
Qed.

Theorem render_unopt_display_strong : forall s rs re t0,
  ssorted (tbl s) -> adds_wf (tbl s) -> (rs = false -> t0 = tdefault) ->
  exists disp tfin,
    tok_run t0 (to_str_toks s false rs re) = (disp, tfin)
    /\ map fst disp = base s
    /\ (forall i, i < length (base s) -> exists st, nth_error (map snd disp) i = Some st /\
          teq st (style_of (map stxt (active_at (tbl s) i))))
    /\ (re = true -> teq tfin tdefault).
Proof.
  intros s rs re t0 Hs Hwf Ht0. unfold to_str_toks.
  destruct (is_nil (tbl s) && negb rs) eqn:E0.
  - apply andb_true_iff in E0 as [En Er]. apply negb_true_iff in Er.
    destruct (tbl s) as [|kp tb'] eqn:Etb; [|discriminate].
    rewrite (Ht0 Er).
    destruct (display_early teq teq_rel_ok (base s) tdefault) as (disp & tfin & H1 & H2 & H3 & H4).
    exists disp, tfin. repeat split; auto.
  - cbn [andb].
    exact (display_generic teq teq_rel_ok (base s) (tbl s) t0 rs false Hs Ht0
             (Inv_point_unopt (base s) (tbl s) t0 rs Hs Hwf Ht0) re).
Qed.

(* the statement in the form that was asked for (its extra hypotheses are not needed) *)
Theorem render_unopt_display : forall s rs re t0,
  ssorted (tbl s) -> keys_le (tbl s) (length (base s)) -> no_esc (base s) = true ->
  adds_wf (tbl s) -> strict_ok (tbl s) = true -> (rs = false -> t0 = tdefault) ->
  let '(disp, tfin) := tok_run t0 (to_str_toks s false rs re) in
     map fst disp = base s
  /\ (forall i, i < length (base s) -> exists st, nth_error (map snd disp) i = Some st /\
        teq st (style_of (map stxt (active_at (tbl s) i))))
  /\ (re = true -> (exists c, In (OSgr c) (to_str_toks s false rs re)) -> teq tfin tdefault).
Proof.
  intros s rs re t0 Hs _ _ Hwf _ Ht0.
  destruct (render_unopt_display_strong s rs re t0 Hs Hwf Ht0) as (disp & tfin & -> & H1 & H2 & H3).
  repeat split; auto.
Qed.

(* ====================================================================================== *)
(* The emitted tokens are well-formed, hence the byte-level corollary                       *)
(* ====================================================================================== *)
Definition dsc (c : char) : bool := is_digit c || (c =? SEMI)%N.

Lemma dsc_nonfinal t : forallb dsc t = true -> nonfinal t = true.
Proof.
  unfold nonfinal. induction t as [|c t IH]; [reflexivity|]. cbn [forallb]. intros H.
  apply andb_true_iff in H as [H1 H2]. rewrite (IH H2), andb_true_r. apply negb_true_iff.
  unfold dsc in H1. apply orb_true_iff in H1 as [H1|H1].
  - unfold is_digit in H1. apply andb_true_iff in H1 as [Ha Hb]. apply N.leb_le in Ha, Hb.
    unfold is_final. apply andb_false_iff. left. apply N.leb_gt. lia.
  - apply N.eqb_eq in H1. subst c. reflexivity.
Qed.

Lemma wf_nonfinal t : wf_setting t = true -> nonfinal t = true.
Proof.
  intros H. destruct (wf_setting_inv t H) as (p & Hp & _). apply dsc_nonfinal. exact (params_of_chars t p Hp).
Qed.

Lemma nonfinal_app a b : nonfinal (a ++ b) = nonfinal a && nonfinal b.
Proof. apply forallb_app. Qed.

Lemma nonfinal_join ts : Forall (fun t => nonfinal t = true) ts -> nonfinal (join [SEMI] ts) = true.
Proof.
  induction 1 as [|t ts Ht Hts IH]; [reflexivity|]. destruct ts as [|t' ts']; [exact Ht|].
  change (join [SEMI] (t :: t' :: ts')) with (t ++ SEMI :: join [SEMI] (t' :: ts')).
  rewrite nonfinal_app, Ht. cbn [andb]. change (SEMI :: ?x) with ([SEMI] ++ x).
  change (nonfinal ([SEMI] ++ join [SEMI] (t' :: ts'))) with (nonfinal (join [SEMI] (t' :: ts'))). exact IH.
Qed.

Lemma forallb_firstn {A} (f : A -> bool) n : forall l, forallb f l = true -> forallb f (firstn n l) = true.
Proof.
  induction n as [|n IH]; intros [|x l]; cbn [firstn forallb]; auto. intros H.
  apply andb_true_iff in H as [H1 H2]. now rewrite H1, IH.
Qed.
Lemma forallb_skipn {A} (f : A -> bool) n : forall l, forallb f l = true -> forallb f (skipn n l) = true.
Proof.
  induction n as [|n IH]; intros [|x l]; cbn [skipn forallb]; auto. intros H.
  apply andb_true_iff in H as [H1 H2]. now apply IH.
Qed.
Lemma no_esc_slice s a b : no_esc s = true -> no_esc (str_slice s a b) = true.
Proof. intros H. unfold str_slice, no_esc. apply forallb_firstn, forallb_skipn. exact H. Qed.

Lemma tok_ok_opt_text x : no_esc x = true -> Forall tok_ok (if is_nil x then [] else [OText x]).
Proof. intros H. destruct (is_nil x); repeat constructor. exact H. Qed.

Definition set_nonfinal (l : list setting) : Prop := forall x, In x l -> nonfinal (stxt x) = true.

Lemma nonfinal_pt_codes p cur : set_nonfinal cur -> nonfinal (pt_codes p cur) = true.
Proof.
  intros H. unfold pt_codes. apply nonfinal_join.
  assert (Hc : Forall (fun t => nonfinal t = true) (map stxt cur)).
  { apply Forall_forall. intros t Ht. apply in_map_iff in Ht as (x & <- & Hx). now apply H. }
  destruct (negb (is_nil (prem p)) && negb (is_nil (map stxt cur))); auto.
Qed.

Lemma nonfinal_rs_codes idx rs c : nonfinal c = true -> nonfinal (rs_codes idx rs c) = true.
Proof.
  intros H. unfold rs_codes. destruct (Nat.eqb idx 0 && rs); auto. destruct (negb (is_nil c)); auto.
Qed.

Lemma render_point_unopt_toks s rs st idx p cur : no_esc s = true -> set_nonfinal cur ->
  Forall tok_ok (r_out st) -> Forall tok_ok (r_out (render_point s false rs st idx p cur)).
Proof.
  intros Hs Hc Ho. rewrite render_point_unopt. cbn [r_out].
  apply Forall_app. split; auto. apply Forall_app. split.
  { destruct (r_first st && (0 <? idx) && rs); repeat constructor. }
  apply Forall_app. split. { apply tok_ok_opt_text. now apply no_esc_slice. }
  repeat constructor. cbn [tok_ok]. now apply nonfinal_rs_codes, nonfinal_pt_codes.
Qed.

Lemma iter_states_in t : forall act idx p cur x,
  In (idx, p, cur) (iter_states t act) -> In x cur -> In x act \/ In x (all_adds t).
Proof.
  induction t as [|[k q] t IH]; intros act idx p cur x; cbn [iter_states]; [intros []|].
  intros [Heq|Hin] Hx.
  - inversion Heq; subst. apply in_step in Hx as [Hx|Hx]; auto. right.
    unfold all_adds. cbn [flat_map snd]. apply in_or_app. now left.
  - destruct (IH _ _ _ _ _ Hin Hx) as [H|H].
    + apply in_step in H as [H|H]; auto. right. unfold all_adds. cbn [flat_map snd]. apply in_or_app. now left.
    + right. unfold all_adds. cbn [flat_map]. apply in_or_app. now right.
Qed.

Lemma render_loop_toks s opt rs (Q : list setting -> Prop)
  (Hpoint : forall st idx p cur, Q cur -> Forall tok_ok (r_out st) ->
            Forall tok_ok (r_out (render_point s opt rs st idx p cur))) :
  forall states st, (forall idx p cur, In (idx, p, cur) states -> Q cur) ->
  Forall tok_ok (r_out st) -> Forall tok_ok (r_out (render_loop s opt rs states st)).
Proof.
  induction states as [|[[idx p] cur] states IH]; intros st Hc Ho; cbn [render_loop]; auto.
  destruct (length s <=? idx); auto. apply IH.
  - intros; eapply Hc; right; eauto.
  - apply Hpoint; auto. eapply Hc. left; reflexivity.
Qed.

Theorem to_str_toks_unopt_ok s rs re : no_esc (base s) = true ->
  (forall x, In x (all_adds (tbl s)) -> nonfinal (stxt x) = true) ->
  Forall tok_ok (to_str_toks s false rs re).
Proof.
  intros Hs Hn. unfold to_str_toks. destruct (is_nil (tbl s) && negb rs).
  - now apply tok_ok_opt_text.
  - cbn [andb]. apply Forall_app. split.
    + apply (render_loop_toks _ _ _ set_nonfinal).
      * intros; now apply render_point_unopt_toks.
      * intros idx p cur Hin x Hx. destruct (iter_states_in _ _ _ _ _ x Hin Hx) as [[]|H]. now apply Hn.
      * constructor.
    + apply Forall_app. split. { destruct (_ && rs); repeat constructor. }
      apply Forall_app. split. { apply tok_ok_opt_text. unfold no_esc. now apply forallb_skipn. }
      destruct (_ && re); repeat constructor.
Qed.

(* the same on the emitted characters *)
Theorem render_unopt_display_bytes : forall s rs re t0,
  ssorted (tbl s) -> no_esc (base s) = true -> adds_wf (tbl s) -> (rs = false -> t0 = tdefault) ->
  exists disp tfin,
    term_run t0 (to_str s false rs re) = (disp, tfin)
    /\ map fst disp = base s
    /\ (forall i, i < length (base s) -> exists st, nth_error (map snd disp) i = Some st /\
          teq st (style_of (map stxt (active_at (tbl s) i))))
    /\ (re = true -> teq tfin tdefault).
Proof.
  intros s rs re t0 Hs He Hwf Ht0. unfold to_str. rewrite term_tok_bridge.
  - now apply render_unopt_display_strong.
  - apply to_str_toks_unopt_ok; auto. intros x Hx. apply wf_nonfinal. now apply Hwf.
Qed.

(* ====================================================================================== *)
(* reset_start: the output begins with a reset                                              *)
(* ====================================================================================== *)
Lemma render_point_prefix s opt rs st idx p cur :
  exists ext, r_out (render_point s opt rs st idx p cur) = r_out st ++ ext.
Proof.
  unfold render_point. cbv zeta.
  match goal with |- context [match ?X with (a, b) => _ end] => destruct X as [ap1 c1] end.
  match goal with |- context [match ?X with (a, b) => _ end] => destruct X as [ap2 c2] end.
  cbn [r_out]. eexists. reflexivity.
Qed.

Lemma render_loop_prefix s opt rs : forall states st,
  exists ext, r_out (render_loop s opt rs states st) = r_out st ++ ext.
Proof.
  induction states as [|[[idx p] cur] states IH]; intros st; cbn [render_loop].
  - exists []. now rewrite app_nil_r.
  - destruct (length s <=? idx). { exists []. now rewrite app_nil_r. }
    destruct (IH (render_point s opt rs st idx p cur)) as [e1 H1].
    destruct (render_point_prefix s opt rs st idx p cur) as [e2 H2].
    exists (e2 ++ e1). now rewrite H1, H2, app_assoc.
Qed.

Theorem render_unopt_starts_reset s re : adds_wf (tbl s) ->
  exists codes r p, to_str_toks s false true re = OSgr codes :: r /\ params_of codes = Some (0%N :: p).
Proof.
  intros Hwf. unfold to_str_toks. rewrite andb_false_r. cbn [andb].
  set (init := {| r_out := []; r_last := 0; r_dict := []; r_exist := false; r_first := true |}).
  assert (Hbrk : exists codes r p,
    r_out init ++ (if r_first init && true then [OSgr []] else []) ++
    (if is_nil (skipn (r_last init) (base s)) then [] else [OText (skipn (r_last init) (base s))]) ++
    (if r_exist init && re then [OSgr []] else []) = OSgr codes :: r /\ params_of codes = Some (0%N :: p)).
  { cbn [init r_out r_first r_last r_exist andb app]. exists []. eexists. exists []. split; reflexivity. }
  destruct (tbl s) as [|[k p] t] eqn:Et.
  - cbn [iter_states render_loop]. exact Hbrk.
  - cbn [iter_states render_loop]. destruct (length (base s) <=? k); [exact Hbrk|].
    match goal with |- context [render_loop ?a ?b ?c ?d ?e] => destruct (render_loop_prefix a b c d e) as [ext ->] end.
    rewrite render_point_unopt. cbn [r_out r_first r_last init andb app].
    destruct k as [|k'].
    + change (0 <? 0) with false. cbn [andb app].
      replace (str_slice (base s) 0 0) with (@nil char) by (unfold str_slice; reflexivity). cbn [is_nil app].
      assert (Hc : set_wf (step [] p)).
      { intros x Hx. apply in_step in Hx as [[]|Hx]. apply Hwf. unfold all_adds. cbn [flat_map snd].
        apply in_or_app. now left. }
      pose proof (pt_codes_params p _ Hc) as HP. set (c := pt_codes p (step [] p)) in *.
      unfold rs_codes. cbn [Nat.eqb andb]. destruct c as [|c0 c]; cbn [is_nil negb].
      * exists [CH_0]. eexists. exists []. split; reflexivity.
      * eexists. eexists. eexists. split; [reflexivity|]. exact (params_of_zero_prefix _ _ HP).
    + change (0 <? S k') with true. cbn [andb app]. exists []. eexists. exists []. split; reflexivity.
Qed.

(* ====================================================================================== *)
(* Non-vacuity: a concrete string satisfying every hypothesis                               *)
(* ====================================================================================== *)
Definition ex_s : astr :=                                   (* "ABCD", bold on 0..2, colour on 2..3 *)
  mkA [65; 66; 67; 68]%N
      [(0, mkP [mkS 1 [49]%N] []);
       (2, mkP [mkS 2 [51; 56; 59; 53; 59; 50; 48; 48]%N] [mkS 1 [49]%N]);
       (3, mkP [] [mkS 2 [51; 56; 59; 53; 59; 50; 48; 48]%N])].

Example ex_s_hyps :
  ssorted (tbl ex_s) /\ keys_le (tbl ex_s) (length (base ex_s)) /\ no_esc (base ex_s) = true
  /\ adds_wf (tbl ex_s) /\ strict_ok (tbl ex_s) = true /\ is_parsable_tbl (tbl ex_s) = true.
Proof.
  split.
  { repeat constructor; cbn [In fst]; intros kp H;
    repeat (destruct H as [<-|H]; [cbn [fst]; lia|]); destruct H. }
  split. { intros kp H. cbn in H. repeat (destruct H as [<-|H]; [cbn; lia|]). destruct H. }
  split; [reflexivity|]. split; [|split; reflexivity].
  intros x H. cbn in H. repeat (destruct H as [<-|H]; [reflexivity|]). destruct H.
Qed.

Example ex_s_rendered :
  to_str_toks ex_s false false true
  = [OSgr [49]%N; OText [65; 66]%N; OSgr [48; 59; 51; 56; 59; 53; 59; 50; 48; 48]%N; OText [67]%N;
     OSgr []; OText [68]%N]
  /\ map (fun x => tstate_obs (snd x)) (fst (term_run tdefault (to_str ex_s false false true)))
     = map (fun i => tstate_obs (style_of (map stxt (active_at (tbl ex_s) i)))) [0; 1; 2; 3].
Proof. split; vm_compute; reflexivity. Qed.


(* ====================================================================================== *)
(* The optimised renderer                                                                   *)
(* ====================================================================================== *)
(* ---------- parsable texts ---------- *)
Lemma split_char_nonnil c s : split_char c s <> [].
Proof.
  destruct s as [|x s]; cbn [split_char]; [discriminate|]. destruct (x =? c)%N; [discriminate|].
  destruct (split_char c s); discriminate.
Qed.

Lemma split_digits t : forallb dsc t = true -> forallb all_digits (split_char SEMI t) = true.
Proof.
  induction t as [|x t IH]; [reflexivity|]. cbn [forallb split_char]. intros H.
  apply andb_true_iff in H as [H1 H2]. specialize (IH H2). destruct (x =? SEMI)%N eqn:Ex.
  - cbn [forallb all_digits]. exact IH.
  - unfold dsc in H1. rewrite Ex, orb_false_r in H1.
    destruct (split_char SEMI t) as [|h tl] eqn:Es; [exfalso; eapply split_char_nonnil; eauto|].
    change (forallb all_digits (h :: tl)) with (forallb is_digit h && forallb all_digits tl) in IH.
    change (forallb all_digits ((x :: h) :: tl)) with ((is_digit x && forallb is_digit h) && forallb all_digits tl).
    apply andb_true_iff in IH as [Ha Hb]. now rewrite H1, Ha, Hb.
Qed.

Lemma parse_int_digits d : forallb is_digit d = true -> d <> [] -> parse_int d = Some (Z.of_N (num_of d)).
Proof.
  intros Hd Hne. unfold parse_int. rewrite (strip_ws_digits _ Hd).
  destruct d as [|c r] eqn:E; [congruence|].
  assert (Hc : is_digit c = true) by (simpl in Hd; now apply andb_true_iff in Hd as [? _]).
  apply is_digit_spec in Hc.
  replace (c =? CH_MINUS)%N with false by (symmetry; apply N.eqb_neq; unfold CH_MINUS; lia).
  replace (c =? CH_PLUS)%N with false by (symmetry; apply N.eqb_neq; unfold CH_PLUS; lia).
  rewrite (digits_val_digits (c :: r) 0%N Hd Hne false). reflexivity.
Qed.

Lemma all_codes_digits l : forallb all_digits l = true -> forall g,
  all_codes (map (fun s => norm_item (IStr (strip_ws s))) l) = Some g ->
  g = map num_of l /\ ok255 g = true /\ Forall (fun it => it <> []) l.
Proof.
  induction l as [|it l IH]; intros Hl g; cbn [map all_codes].
  - intros H; inversion H; subst. repeat split; constructor.
  - cbn [forallb] in Hl. apply andb_true_iff in Hl as [H1 H2]. unfold all_digits in H1.
    rewrite (strip_ws_digits _ H1). destruct it as [|c it'].
    + cbn. discriminate.
    + unfold norm_item. rewrite (parse_int_digits (c :: it') H1) by discriminate.
      rewrite item_code_N. destruct (num_of (c :: it') <=? 255)%N eqn:E; [|discriminate].
      destruct (all_codes _) as [cs|] eqn:Ec; [|discriminate]. intros H; inversion H; subst.
      destruct (IH H2 cs eq_refl) as (-> & Hk & Hn). repeat split.
      * unfold ok255 in *. cbn [forallb]. now rewrite E, Hk.
      * constructor; auto. discriminate.
Qed.

Lemma parsable_inv t : parsable t = true ->
  exists v r, params_of t = Some (v :: r) /\ group_ok (v :: r) = true /\ ok255 (v :: r) = true
              /\ initial_code t = (if is_param v then Some v else None) /\ t <> [].
Proof.
  unfold parsable. intros H. apply andb_true_iff in H as [H H3]. apply andb_true_iff in H as [H1 H2].
  pose proof (split_digits t H2) as Hd. unfold to_list in H3.
  destruct (all_codes _) as [g|] eqn:Ec; [|discriminate].
  destruct (all_codes_digits _ Hd g Ec) as (Hg & Hk & Hne).
  destruct g as [|v r]; [discriminate|]. exists v, r.
  assert (Hp : params_of t = Some (v :: r)). { unfold params_of. now rewrite Hd, Hg. }
  repeat split; auto.
  - unfold initial_code. destruct (split_char SEMI t) as [|it l]; [discriminate|].
    cbn [map] in Hg. inversion Hg; subst. inversion Hne; subst.
    cbn [forallb] in Hd. apply andb_true_iff in Hd as [Hd1 _]. cbv zeta.
    rewrite (DecProofs.strip_ws_digits it Hd1). change (all_digits it) with (forallb is_digit it) in Hd1. rewrite Hd1.
    assert (Hn : is_nil it = false) by (destruct it; [contradiction|reflexivity]).
    rewrite Hn. cbn [negb andb].
    rewrite (parse_int_digits it Hd1) by assumption. rewrite N2Z.id.
    replace (0 <=? Z.of_N (num_of it))%Z with true by (symmetry; apply Z.leb_le; lia). reflexivity.
  - intros ->. cbn in Hp. inversion Hp; subst. cbn in H3. discriminate.
Qed.

(* the terminal's reading of one parsable group *)
Lemma acts_group g : group_ok g = true -> ok255 g = true ->
  acts spec_class g = [act_of_group g] /\ complete spec_class g = true.
Proof.
  unfold group_ok, act_of_group. destruct g as [|v [|x r]]; [discriminate| |].
  - rewrite gen_class_spec. intros H _. unfold acts, complete. cbn [length acts_fuel next_act].
    destruct (spec_class v); try discriminate; split; reflexivity.
  - rewrite gen_class_spec. intros H Hk.
    assert (Hx : (x = 5 \/ x = 2)%N).
    { destruct x as [|p]; [discriminate|]. destruct p as [p|p|]; try discriminate;
      destruct p as [p|p|]; try discriminate; try destruct p as [p|p|]; try discriminate; auto. }
    destruct Hx as [-> | ->].
    + destruct r as [|n [|? ?]]; try discriminate. destruct (spec_class v) eqn:Ec; try discriminate.
      unfold acts, complete. cbn [length acts_fuel next_act]. rewrite Ec.
      unfold ok255 in *. cbn [forallb] in *. apply andb_true_iff in Hk as [_ Hk]. apply andb_true_iff in Hk as [_ Hk].
      rewrite Hk. split; reflexivity.
    + destruct r as [|a [|b [|d [|? ?]]]]; try discriminate. destruct (spec_class v) eqn:Ec; try discriminate.
      unfold acts, complete. cbn [length acts_fuel next_act]. rewrite Ec.
      unfold ok255 in *. cbn [forallb] in *. apply andb_true_iff in Hk as [_ Hk]. apply andb_true_iff in Hk as [_ Hk].
      rewrite Hk. split; reflexivity.
Qed.

(* ---------- settings_to_dict on parsable texts ---------- *)
Definition txt_act (t : str) (a : act) : Prop :=
  exists g, params_of t = Some g /\ acts spec_class g = [a] /\ complete spec_class g = true /\ t <> [].

Definition entries_ok (d : dict str) : Prop :=
  forall e v, In (e, v) d -> exists g, params_of v = Some g /\ txt_act v (ASet e g) /\ v <> [].

Lemma in_dset {V} (d : dict V) e0 v0 e v : In (e, v) (dset d e0 v0) -> (e, v) = (e0, v0) \/ In (e, v) d.
Proof.
  induction d as [|[e' v'] r IH]; cbn [dset In].
  - intros [H|[]]; auto.
  - destruct (effect_beq e0 e'); cbn [In]; intros [H|H]; auto. destruct (IH H); auto.
Qed.
Lemma in_ddel {V} (d : dict V) e0 e v : In (e, v) (ddel d e0) -> In (e, v) d.
Proof.
  induction d as [|[e' v'] r IH]; cbn [ddel In]; auto.
  destruct (effect_beq e0 e'); cbn [In]; intros; auto. destruct H; auto.
Qed.

Lemma s2d_step_parsable d t : parsable t = true -> nodupk d -> entries_ok d ->
  exists a, txt_act t a
    /\ teq (as_t (s2d_step (fun x => x) d t)) (apply_act (as_t d) a)
    /\ nodupk (s2d_step (fun x => x) d t) /\ entries_ok (s2d_step (fun x => x) d t).
Proof.
  intros Hp Hd He. destruct (parsable_inv t Hp) as (v & r & Hpar & Hg & Hk & Hi & Hne).
  destruct (acts_group _ Hg Hk) as [Ha Hc].
  exists (act_of_group (v :: r)). split. { exists (v :: r). auto. }
  unfold s2d_step. rewrite Hi. unfold act_of_group in *.
  destruct (is_param v) eqn:Ep.
  - destruct (gen_class v) eqn:Ecl; cbn [apply_act].
    + split; [intros e; reflexivity|]. split; [constructor|]. intros e x [].
    + split. { intros x. unfold as_t, tset. rewrite dget_dset. destruct (effect_beq e x); auto. }
      split; [now apply nodup_dset|]. intros e' x Hin. apply in_dset in Hin as [Heq|Hin]; [|now apply He].
      inversion Heq; subst. exists (v :: r). repeat split; auto. exists (v :: r). auto.
    + split. { intros x. unfold as_t, tset. rewrite dget_ddel by exact Hd. destruct (effect_beq e x); auto. }
      split; [now apply nodup_ddel|]. intros e' x Hin. apply in_ddel in Hin. now apply He.
    + split. { intros x. unfold as_t, tset. rewrite dget_dset. destruct (effect_beq e x); auto. }
      split; [now apply nodup_dset|]. intros e' x Hin. apply in_dset in Hin as [Heq|Hin]; [|now apply He].
      inversion Heq; subst. exists (v :: r). repeat split; auto. exists (v :: r). auto.
    + split; [intros e; reflexivity|]. split; auto.
  - rewrite (gen_class_not_param v Ep). split; [intros e; reflexivity|]. split; auto.
Qed.

Lemma txt_act_codes t a l : txt_act t a ->
  acts spec_class (codes_of_texts (t :: l)) = a :: acts spec_class (codes_of_texts l).
Proof.
  intros (g & Hp & Ha & Hc & _). rewrite codes_of_texts_cons, Hp. rewrite acts_app by exact Hc. now rewrite Ha.
Qed.

Lemma s2d_run texts : Forall (fun t => parsable t = true) texts -> forall d, nodupk d -> entries_ok d ->
  teq (as_t (s2d (fun x => x) texts d)) (run (as_t d) (acts spec_class (codes_of_texts texts)))
  /\ nodupk (s2d (fun x => x) texts d) /\ entries_ok (s2d (fun x => x) texts d).
Proof.
  induction 1 as [|t texts Ht Hts IH]; intros d Hd He.
  - cbn. repeat split; auto. 
  - unfold s2d. cbn [fold_left]. fold (s2d (fun x : str => x) texts (s2d_step (fun x => x) d t)).
    destruct (s2d_step_parsable d t Ht Hd He) as (a & Hta & Hteq & Hd' & He').
    destruct (IH _ Hd' He') as (IH1 & IH2 & IH3). repeat split; auto.
    rewrite (txt_act_codes t a texts Hta). change (run (as_t d) (a :: acts spec_class (codes_of_texts texts)))
      with (run (apply_act (as_t d) a) (acts spec_class (codes_of_texts texts))).
    eapply teq_trans; [exact IH1|]. apply run_teq_l. exact Hteq.
Qed.

(* (a): the optimiser's dictionary of a list of parsable settings IS their style *)
Theorem s2d_style texts : Forall (fun t => parsable t = true) texts ->
  teq (as_t (s2d (fun x => x) texts [])) (style_of texts)
  /\ nodupk (s2d (fun x => x) texts []) /\ entries_ok (s2d (fun x => x) texts []).
Proof.
  intros H. destruct (s2d_run texts H []) as (H1 & H2 & H3); [constructor|intros e v []|].
  repeat split; auto.
Qed.

Lemma parsable_wf t : parsable t = true -> wf_setting t = true.
Proof.
  intros Hp. destruct (parsable_inv t Hp) as (v & r & Hpar & Hg & Hk & Hi & Hne).
  destruct (acts_group _ Hg Hk) as [Ha Hc]. unfold wf_setting. rewrite Hpar, Hc.
  destruct t; [congruence|reflexivity].
Qed.

(* ---------- (b): the optimiser's difference ---------- *)
Definition clr_act (e : effect) : act := AClr e.

(* obligation on the GENERATED clear table: every effect has a clear code, and the specification
   terminal reads it as clearing that effect (since F28 also for FONT_TYPE, whose clear code is 10) *)
Lemma clear_spec e : exists c, clear_code e = Some c /\ txt_act (decN c) (clr_act e).
Proof.
  destruct e; (eexists; split; [reflexivity|]); eexists; (split; [lazy; reflexivity|]);
    (split; [lazy; reflexivity|]); (split; [lazy; reflexivity|]); lazy; discriminate.
Qed.

Definition set_act (kv : effect * str) : act :=
  match params_of (snd kv) with Some g => ASet (fst kv) g | None => ANone end.
Definition Acl (old new : sdict) : list act :=
  flat_map (fun kv => match dget new (fst kv) with Some _ => [] | None => [clr_act (fst kv)] end) old.
Definition Aset (old new : sdict) : list act :=
  flat_map (fun kv => match dget old (fst kv) with
                      | Some v => if str_eqb v (snd kv) then [] else [set_act kv]
                      | None => [set_act kv] end) new.

Lemma Forall2_flat_map {A B C} (R : B -> C -> Prop) (f : A -> list B) (g : A -> list C) l :
  (forall x, In x l -> Forall2 R (f x) (g x)) -> Forall2 R (flat_map f l) (flat_map g l).
Proof.
  induction l as [|x l IH]; intros H; cbn [flat_map]; [constructor|].
  apply Forall2_app. { apply H. now left. } apply IH. intros; apply H; now right.
Qed.

Lemma diff_txt_acts old new : entries_ok new -> Forall2 txt_act (diff_codes old new) (Acl old new ++ Aset old new).
Proof.
  intros He. unfold diff_codes, Acl, Aset. apply Forall2_app.
  - apply Forall2_flat_map. intros [e v] _. cbn [fst]. destruct (dget new e); [constructor|].
    destruct (clear_spec e) as (c & -> & Hc). constructor; [exact Hc|constructor].
  - apply Forall2_flat_map. intros [e v] Hin. cbn [fst snd].
    assert (Hs : Forall2 txt_act [v] [set_act (e, v)]).
    { destruct (He e v Hin) as (g & Hp & Ht & _). unfold set_act. cbn [fst snd]. rewrite Hp. constructor; [exact Ht|constructor]. }
    destruct (dget old e); auto. destruct (str_eqb s v); auto.
Qed.

Lemma acts_of_txt_acts l al : Forall2 txt_act l al ->
  acts spec_class (codes_of_texts l) = al /\ Forall (fun t => params_of t <> None) l /\ Forall (fun t => t <> []) l.
Proof.
  induction 1 as [|t a l al Hta Hl IH]. { repeat split; constructor. }
  destruct IH as (IH1 & IH2 & IH3). rewrite (txt_act_codes t a l Hta), IH1.
  destruct Hta as (g & Hp & _ & _ & Hne). repeat split; constructor; auto. congruence.
Qed.

Lemma lw_flat_none {A} (f : A -> list act) x l :
  (forall kv, In kv l -> last_write (f kv) x = None) -> last_write (flat_map f l) x = None.
Proof.
  induction l as [|k l IH]; intros H; cbn [flat_map]; [reflexivity|].
  rewrite last_write_app, IH by (intros; apply H; now right). apply H. now left.
Qed.

Lemma lw_flat_cases {A} (f : A -> list act) x w l :
  (forall kv, In kv l -> last_write (f kv) x = None \/ last_write (f kv) x = Some w) ->
  last_write (flat_map f l) x = None \/ last_write (flat_map f l) x = Some w.
Proof.
  induction l as [|k l IH]; intros H; cbn [flat_map]; [now left|].
  rewrite last_write_app. destruct IH as [-> | ->]; [intros; apply H; now right| |now right].
  apply H. now left.
Qed.

Lemma lw_flat_some {A} (f : A -> list act) x w l kv : In kv l -> last_write (f kv) x = Some w ->
  (forall kv', In kv' l -> last_write (f kv') x = None \/ last_write (f kv') x = Some w) ->
  last_write (flat_map f l) x = Some w.
Proof.
  induction l as [|k l IH]; intros Hin Hkv H; [destruct Hin|]. cbn [flat_map]. rewrite last_write_app.
  assert (Hl : forall kv', In kv' l -> last_write (f kv') x = None \/ last_write (f kv') x = Some w)
    by (intros; apply H; now right).
  destruct Hin as [->|Hin].
  - destruct (lw_flat_cases f x w l Hl) as [-> | ->]; auto.
  - now rewrite (IH Hin Hkv Hl).
Qed.

Lemma dget_in {V} (d : dict V) e v : dget d e = Some v -> In (e, v) d.
Proof.
  induction d as [|[e' v'] r IH]; cbn [dget]; [discriminate|]. destruct (effect_beq e' e) eqn:E.
  - apply effect_beq_eq in E; subst. intros H; inversion H; subst. now left.
  - intros H. right. now apply IH.
Qed.
Lemma dget_none_key {V} (d : dict V) x e v : dget d x = None -> In (e, v) d -> e <> x.
Proof.
  induction d as [|[e' v'] r IH]; cbn [dget]; [intros _ []|]. destruct (effect_beq e' x) eqn:E; [discriminate|].
  intros H [Heq|Hin]; [|now apply IH]. inversion Heq; subst. now apply effect_beq_neq.
Qed.
Lemma nodupk_unique {V} (d : dict V) e v1 v2 : nodupk d -> In (e, v1) d -> In (e, v2) d -> v1 = v2.
Proof.
  unfold nodupk. induction d as [|[e' v'] r IH]; cbn [map fst]; intros Hn H1 H2; [destruct H1|].
  inversion Hn as [|? ? Hni Hn']; subst. destruct H1 as [H1|H1], H2 as [H2|H2].
  - congruence.
  - inversion H1; subst. exfalso. apply Hni. apply in_map_iff. exists (e, v2). auto.
  - inversion H2; subst. exfalso. apply Hni. apply in_map_iff. exists (e, v1). auto.
  - now apply IH.
Qed.

Lemma lw_clr e x : last_write [clr_act e] x =
  if effect_beq e x then Some None else None.
Proof. unfold clr_act. cbn [last_write]. destruct (effect_beq e x); reflexivity. Qed.
Lemma lw_set kv x : last_write [set_act kv] x =
  match params_of (snd kv) with Some g => if effect_beq (fst kv) x then Some (Some g) else None | None => None end.
Proof. unfold set_act. destruct (params_of (snd kv)); reflexivity. Qed.

Theorem diff_sound old new : nodupk new -> entries_ok new ->
  teq (sgr spec_class (as_t old) (codes_of_texts (diff_codes old new))) (as_t new).
Proof.
  intros Hn He x. unfold sgr.
  rewrite (proj1 (acts_of_txt_acts _ _ (diff_txt_acts old new He))).
  rewrite run_last, last_write_app. unfold Aset, Acl.
  set (fs := fun kv : effect * str => match dget old (fst kv) with
                      | Some v => if str_eqb v (snd kv) then [] else [set_act kv]
                      | None => [set_act kv] end).
  set (fc := fun kv : effect * str => match dget new (fst kv) with Some _ => [] | None => [clr_act (fst kv)] end).
  destruct (dget new x) as [v|] eqn:Dn.
  - (* x is set in the new dictionary *)
    pose proof (dget_in _ _ _ Dn) as Hin. destruct (He x v Hin) as (g & Hp & _ & _).
    assert (Hnew : as_t new x = Some g) by (unfold as_t; now rewrite Dn).
    assert (Hothers : forall kv', In kv' new -> kv' <> (x, v) -> last_write (fs kv') x = None).
    { intros [e' v'] Hin' Hne. unfold fs. cbn [fst snd].
      assert (Hex : effect_beq e' x = false).
      { destruct (effect_beq e' x) eqn:E; auto. apply effect_beq_eq in E; subst.
        exfalso. apply Hne. f_equal. eapply nodupk_unique; eauto. }
      assert (Hs : last_write [set_act (e', v')] x = None).
      { rewrite lw_set. cbn [fst snd]. rewrite Hex. destruct (params_of v'); reflexivity. }
      destruct (dget old e'); auto. destruct (str_eqb s v'); auto. }
    assert (Hclr : last_write (flat_map fc old) x = None).
    { apply lw_flat_none. intros [e' v'] Hin'. unfold fc. cbn [fst].
      destruct (dget new e') eqn:D; [reflexivity|]. rewrite lw_clr.
      destruct (effect_beq e' x) eqn:E; auto. apply effect_beq_eq in E; subst. congruence. }
    rewrite Hclr, Hnew.
    destruct (last_write (fs (x, v)) x) as [w|] eqn:Ew.
    + (* the setting is emitted *)
      assert (Hw : w = Some g).
      { unfold fs in Ew. cbn [fst snd] in Ew.
        assert (Hs : last_write [set_act (x, v)] x = Some (Some g)).
        { rewrite lw_set. cbn [fst snd]. now rewrite Hp, effect_beq_refl. }
        destruct (dget old x) as [s0|]; [destruct (str_eqb s0 v)|];
          [discriminate Ew|rewrite Hs in Ew; congruence|rewrite Hs in Ew; congruence]. }
      subst w. rewrite (lw_flat_some fs x (Some g) new (x, v) Hin Ew); [reflexivity|].
      intros kv' Hin'. destruct (effect_beq (fst kv') x) eqn:E.
      * right. destruct kv' as [e' v']. cbn [fst] in E. apply effect_beq_eq in E; subst.
        rewrite (nodupk_unique new x v' v Hn Hin' Hin). exact Ew.
      * left. apply Hothers; auto. intros ->. cbn [fst] in E. now rewrite effect_beq_refl in E.
    + (* unchanged: not emitted, the old value stays *)
      rewrite lw_flat_none.
      2:{ intros kv' Hin'. destruct kv' as [e' v']. destruct (effect_beq e' x) eqn:E.
          - apply effect_beq_eq in E; subst. rewrite (nodupk_unique new x v' v Hn Hin' Hin). exact Ew.
          - apply Hothers; auto. intros Heq; inversion Heq; subst. now rewrite effect_beq_refl in E. }
      unfold fs in Ew. cbn [fst snd] in Ew. unfold as_t.
      assert (Hs : last_write [set_act (x, v)] x = Some (Some g)).
      { rewrite lw_set. cbn [fst snd]. now rewrite Hp, effect_beq_refl. }
      destruct (dget old x) as [v0|]; [|congruence].
      destruct (str_eqb v0 v) eqn:Es; [|congruence]. apply str_eqb_eq in Es; subst. now rewrite Hp.
  - (* x is not set in the new dictionary *)
    assert (Hnew : as_t new x = None) by (unfold as_t; now rewrite Dn). rewrite Hnew.
    rewrite lw_flat_none.
    2:{ intros [e' v'] Hin'. pose proof (dget_none_key new x e' v' Dn Hin') as Hne. unfold fs. cbn [fst snd].
        assert (Hs : last_write [set_act (e', v')] x = None).
        { rewrite lw_set. cbn [fst snd]. destruct (effect_beq e' x) eqn:E.
          - apply effect_beq_eq in E. congruence.
          - destruct (params_of v'); reflexivity. }
        destruct (dget old e'); auto. destruct (str_eqb s v'); auto. }
    set (w := @None (list N)).
    assert (Hcases : forall kv', In kv' old -> last_write (fc kv') x = None \/ last_write (fc kv') x = Some w).
    { intros [e' v'] _. unfold fc. cbn [fst]. destruct (dget new e'); [now left|]. rewrite lw_clr.
      destruct (effect_beq e' x); [now right|now left]. }
    destruct (dget old x) as [v0|] eqn:Do.
    + pose proof (dget_in _ _ _ Do) as Hin0.
      rewrite (lw_flat_some fc x w old (x, v0) Hin0); [reflexivity| |exact Hcases].
      unfold fc. cbn [fst]. rewrite Dn, lw_clr, effect_beq_refl. reflexivity.
    + rewrite lw_flat_none. { unfold as_t. now rewrite Do. }
      intros [e' v'] Hin'. pose proof (dget_none_key old x e' v' Do Hin') as Hne. unfold fc. cbn [fst].
      destruct (dget new e'); [reflexivity|]. rewrite lw_clr.
      destruct (effect_beq e' x) eqn:E; auto. apply effect_beq_eq in E. congruence.
Qed.

(* ---------- one iteration of the optimised loop ---------- *)
Definition set_parsable (l : list setting) : Prop := forall x, In x l -> parsable (stxt x) = true.
Definition adds_parsable (t : fmts) : Prop := forall x, In x (all_adds t) -> parsable (stxt x) = true.

Lemma set_parsable_texts l : set_parsable l -> Forall (fun t => parsable t = true) (map stxt l).
Proof. intros H. apply Forall_forall. intros t Ht. apply in_map_iff in Ht as (x & <- & Hx). now apply H. Qed.
Lemma set_parsable_wf l : set_parsable l -> set_wf l.
Proof. intros H x Hx. apply parsable_wf. now apply H. Qed.
Lemma adds_parsable_wf t : adds_parsable t -> adds_wf t.
Proof. intros H x Hx. apply parsable_wf. now apply H. Qed.
Lemma is_parsable_tbl_spec t : is_parsable_tbl t = true -> adds_parsable t.
Proof. unfold is_parsable_tbl. intros H x Hx. rewrite forallb_forall in H. now apply H. Qed.

Lemma join_nil l : Forall (fun t : str => t <> []) l -> join [SEMI] l = [] -> l = [].
Proof.
  intros H. destruct H as [|t l Ht Hl]; auto. destruct l as [|t' l'].
  - cbn [join]. intros; congruence.
  - change (join [SEMI] (t :: t' :: l')) with (t ++ SEMI :: join [SEMI] (t' :: l')).
    destruct t; discriminate.
Qed.

Lemma s2d_of_set l : set_parsable l ->
  teq (as_t (s2d (fun x => x) (map stxt l) [])) (sty l)
  /\ nodupk (s2d (fun x => x) (map stxt l) []) /\ entries_ok (s2d (fun x => x) (map stxt l) []).
Proof. intros H. apply s2d_style. now apply set_parsable_texts. Qed.

(* what the optimiser emits (or omits) moves the terminal to the style of the new active list *)
Lemma opt_pick_sound R (HR : rel_ok R) t1 act p : set_parsable act -> set_parsable (padd p) -> R t1 (sty act) ->
  let cur := step act p in
  let ac := opt_pick (s2d (fun x => x) (map stxt act) []) (s2d (fun x => x) (map stxt cur) []) (pt_codes p cur) in
  R (if fst ac then sgr_move t1 (snd ac) else t1) (sty cur) /\ exists P, params_of (snd ac) = Some P.
Proof.
  intros Ha Hp Ht cur.
  assert (Hc : set_parsable cur). { intros x Hx. apply in_step in Hx as [Hx|Hx]; auto. }
  destruct (s2d_of_set act Ha) as (Hold & _ & _).
  destruct (s2d_of_set cur Hc) as (Hnew & Hnd & Hne).
  set (old := s2d (fun x => x) (map stxt act) []) in *.
  set (new := s2d (fun x => x) (map stxt cur) []) in *.
  pose proof (diff_sound old new Hnd Hne) as Hdiff.
  destruct (acts_of_txt_acts _ _ (diff_txt_acts old new Hne)) as (_ & Hpar & Hnn).
  pose proof (pt_codes_params p cur (set_parsable_wf _ Hc)) as Hcodes.
  assert (Hfull : R (sgr_move t1 (pt_codes p cur)) (sty cur)).
  { apply (pt_codes_style_R R HR); auto using set_parsable_wf. }
  assert (Ht_old : R t1 (as_t old)).
  { eapply (R_trans R HR); [exact Ht|]. apply (R_teq R HR), teq_sym, Hold. }
  unfold opt_pick. cbv zeta. set (o := join [SEMI] (diff_codes old new)).
  destruct (is_nil o) eqn:En.
  - cbn [fst snd]. split; [|eauto].
    assert (Hd : diff_codes old new = []). { apply join_nil; auto. fold o. destruct o; [reflexivity|discriminate]. }
    rewrite Hd in Hdiff. change (sgr spec_class (as_t old) (codes_of_texts [])) with (as_t old) in Hdiff.
    eapply (R_trans R HR); [exact Ht_old|]. apply (R_teq R HR). eapply teq_trans; [exact Hdiff|exact Hnew].
  - assert (Hdn : diff_codes old new <> []). { intros Hd. unfold o in En. rewrite Hd in En. discriminate. }
    assert (Ho : params_of o = Some (codes_of_texts (diff_codes old new))) by (apply params_of_join; auto).
    destruct (length o <? length (pt_codes p cur)); cbn [fst snd]; [|split; eauto].
    split; [|eauto]. unfold sgr_move. rewrite Ho.
    eapply (R_trans R HR); [apply (R_sgr R HR); exact Ht_old|].
    apply (R_teq R HR). eapply teq_trans; [exact Hdiff|exact Hnew].
Qed.

Lemma rs_wrap_move t ac P : params_of (snd ac) = Some P ->
  fst (rs_wrap 0 true ac) = true
  /\ sgr_move t (snd (rs_wrap 0 true ac)) = (if fst ac then sgr_move tdefault (snd ac) else tdefault).
Proof.
  destruct ac as [ap c]. cbn [fst snd]. intros HP. unfold rs_wrap. cbn [Nat.eqb andb fst snd].
  destruct ap; cbn [andb]; [|split; reflexivity].
  destruct c as [|c0 c]; cbn [is_nil negb fst snd]; [split; reflexivity|]. split; [reflexivity|].
  unfold sgr_move. rewrite HP.
  rewrite (params_of_zero_prefix (c0 :: c) P HP : params_of (CH_0 :: SEMI :: c0 :: c) = Some (0%N :: P)).
  apply sgr_reset.
Qed.

Lemma Inv_point_opt R (HR : rel_ok R) s tb t0 rs :
  ssorted tb -> adds_parsable tb -> (rs = false -> t0 = tdefault) ->
  forall done k p rest st, tb = done ++ (k, p) :: rest -> k < length s ->
  Inv R s tb t0 true done ((k, p) :: rest) st ->
  Inv R s tb t0 true (done ++ [(k, p)]) rest (render_point s true rs st k p (step (trun [] done) p)).
Proof.
  intros Hsorted Hpars Ht0 done k p rest st E Hk HI.
  assert (Hact : set_parsable (trun [] done)).
  { intros x Hx. apply in_trun in Hx as [[]|Hx]. apply Hpars. rewrite E, all_adds_app. apply in_or_app. now left. }
  assert (Hpadd : set_parsable (padd p)).
  { intros x Hx. apply Hpars. rewrite E, all_adds_app. apply in_or_app. right.
    unfold all_adds. cbn [flat_map snd]. apply in_or_app. now left. }
  assert (Hdict : r_dict st = s2d (fun x => x) (map stxt (trun [] done)) []).
  { destruct HI as (? & ? & _ & _ & _ & _ & _ & _ & _ & _ & Hd). now apply Hd. }
  set (act := trun [] done) in *. set (cur := step act p).
  set (ac0 := opt_pick (r_dict st) (s2d (fun x => x) (map stxt cur) []) (pt_codes p cur)).
  apply (Inv_step R HR s tb t0 rs true Hsorted Ht0 done k p rest st
                  (render_point s true rs st k p cur)
                  (if fst (rs_wrap k rs ac0) then [OSgr (snd (rs_wrap k rs ac0))] else []) E Hk HI);
    try (rewrite render_point_opt; cbv zeta; cbn [r_out r_last r_first r_exist r_dict]; reflexivity).
  intros t1 Ht1. unfold ac0. rewrite Hdict.
  destruct (Nat.eqb k 0 && rs) eqn:Ec.
  - apply andb_true_iff in Ec as [Ek Er]. apply Nat.eqb_eq in Ek. subst k. rewrite Er.
    assert (Hd0 : done = []).
    { destruct done as [|kp0 d0]; auto. exfalso.
      assert (Hs' : ssorted ((kp0 :: d0) ++ (0, p) :: rest)) by (rewrite <- E; exact Hsorted).
      pose proof (ssorted_app_lt _ _ Hs' kp0 (0, p) (or_introl eq_refl) (or_introl eq_refl)) as Hlt.
      cbn [fst] in Hlt. lia. }
    assert (Hact0 : act = []) by (unfold act; now rewrite Hd0). 
    assert (Ht00 : R tdefault (sty act)) by (rewrite Hact0; apply (R_refl R HR)).
    destruct (opt_pick_sound R HR tdefault act p Hact Hpadd Ht00) as (Hsound & P & HP). fold cur in Hsound, HP.
    destruct (rs_wrap_move t1 _ P HP) as (Hfst & Hmove).
    rewrite Hfst. eexists. split; [reflexivity|]. rewrite Hmove.
    destruct (fst _); exact Hsound.
  - unfold rs_wrap. rewrite Ec. destruct Ht1 as [Ht1|[Hk0 Hr]].
    2:{ subst k. rewrite Hr in Ec. discriminate. }
    destruct (opt_pick_sound R HR t1 act p Hact Hpadd Ht1) as (Hsound & _). fold cur in Hsound.
    destruct (fst _); eexists; (split; [reflexivity|exact Hsound]).
Qed.

(* generic in the relation: teq (exact, since F28) and teq_disp are both instances *)
Lemma render_opt_display_R R (HR : rel_ok R) : forall s rs re t0,
  ssorted (tbl s) -> adds_wf (tbl s) -> (rs = false -> t0 = tdefault) ->
  exists disp tfin,
    tok_run t0 (to_str_toks s true rs re) = (disp, tfin)
    /\ map fst disp = base s
    /\ (forall i, i < length (base s) -> exists st, nth_error (map snd disp) i = Some st /\
          R st (style_of (map stxt (active_at (tbl s) i))))
    /\ (re = true -> R tfin tdefault).
Proof.
  intros s rs re t0 Hs Hwf Ht0.
  destruct (is_parsable_tbl (tbl s)) eqn:Ep.
  - unfold to_str_toks. destruct (is_nil (tbl s) && negb rs) eqn:E0.
    + apply andb_true_iff in E0 as [En Er]. apply negb_true_iff in Er.
      destruct (tbl s) as [|kp tb'] eqn:Etb; [|discriminate].
      rewrite (Ht0 Er).
      destruct (display_early R HR (base s) tdefault) as (disp & tfin & H1 & H2 & H3 & H4).
      exists disp, tfin. repeat split; auto.
    + rewrite Ep. cbn [andb].
      exact (display_generic R HR (base s) (tbl s) t0 rs true Hs Ht0
               (Inv_point_opt R HR (base s) (tbl s) t0 rs Hs (is_parsable_tbl_spec _ Ep) Ht0) re).
  - (* not parsable: the optimiser is switched off *)
    assert (Heq : to_str_toks s true rs re = to_str_toks s false rs re).
    { unfold to_str_toks. rewrite Ep. reflexivity. }
    rewrite Heq.
    destruct (render_unopt_display_strong s rs re t0 Hs Hwf Ht0) as (disp & tfin & H1 & H2 & H3 & H4).
    exists disp, tfin. repeat split; auto.
    + intros i Hi. destruct (H3 i Hi) as (st & Hn & Hst). exists st. split; auto. now apply (R_teq R HR).
    + intros Hre. now apply (R_teq R HR), H4.
Qed.

(* the optimised renderer, exactly (teq): possible since F28 made 10 the clear code of FONT_TYPE *)
Theorem render_opt_display_strong_exact : forall s rs re t0,
  ssorted (tbl s) -> adds_wf (tbl s) -> (rs = false -> t0 = tdefault) ->
  exists disp tfin,
    tok_run t0 (to_str_toks s true rs re) = (disp, tfin)
    /\ map fst disp = base s
    /\ (forall i, i < length (base s) -> exists st, nth_error (map snd disp) i = Some st /\
          teq st (style_of (map stxt (active_at (tbl s) i))))
    /\ (re = true -> teq tfin tdefault).
Proof. exact (render_opt_display_R teq teq_rel_ok). Qed.

Theorem render_opt_display_exact : forall s rs re t0,
  ssorted (tbl s) -> keys_le (tbl s) (length (base s)) -> no_esc (base s) = true ->
  adds_wf (tbl s) -> strict_ok (tbl s) = true -> (rs = false -> t0 = tdefault) ->
  let '(disp, tfin) := tok_run t0 (to_str_toks s true rs re) in
     map fst disp = base s
  /\ (forall i, i < length (base s) -> exists st, nth_error (map snd disp) i = Some st /\
        teq st (style_of (map stxt (active_at (tbl s) i))))
  /\ (re = true -> (exists c, In (OSgr c) (to_str_toks s true rs re)) -> teq tfin tdefault).
Proof.
  intros s rs re t0 Hs _ _ Hwf _ Ht0.
  destruct (render_opt_display_strong_exact s rs re t0 Hs Hwf Ht0) as (disp & tfin & -> & H1 & H2 & H3).
  repeat split; auto.
Qed.

(* the display-equivalence forms (weaker; kept under their original names) *)
Theorem render_opt_display_strong : forall s rs re t0,
  ssorted (tbl s) -> adds_wf (tbl s) -> (rs = false -> t0 = tdefault) ->
  exists disp tfin,
    tok_run t0 (to_str_toks s true rs re) = (disp, tfin)
    /\ map fst disp = base s
    /\ (forall i, i < length (base s) -> exists st, nth_error (map snd disp) i = Some st /\
          teq_disp st (style_of (map stxt (active_at (tbl s) i))))
    /\ (re = true -> teq_disp tfin tdefault).
Proof. exact (render_opt_display_R teq_disp teq_disp_rel_ok). Qed.

Theorem render_opt_display : forall s rs re t0,
  ssorted (tbl s) -> keys_le (tbl s) (length (base s)) -> no_esc (base s) = true ->
  adds_wf (tbl s) -> strict_ok (tbl s) = true -> (rs = false -> t0 = tdefault) ->
  let '(disp, tfin) := tok_run t0 (to_str_toks s true rs re) in
     map fst disp = base s
  /\ (forall i, i < length (base s) -> exists st, nth_error (map snd disp) i = Some st /\
        teq_disp st (style_of (map stxt (active_at (tbl s) i))))
  /\ (re = true -> (exists c, In (OSgr c) (to_str_toks s true rs re)) -> teq_disp tfin tdefault).
Proof.
  intros s rs re t0 Hs _ _ Hwf _ Ht0.
  destruct (render_opt_display_strong s rs re t0 Hs Hwf Ht0) as (disp & tfin & -> & H1 & H2 & H3).
  repeat split; auto.
Qed.

(* optimised and unoptimised output display the same *)
Lemma Forall2_nth {A B} (P : A -> B -> Prop) : forall l1 l2, length l1 = length l2 ->
  (forall i a b, nth_error l1 i = Some a -> nth_error l2 i = Some b -> P a b) -> Forall2 P l1 l2.
Proof.
  induction l1 as [|a l1 IH]; intros [|b l2] Hl H; try discriminate; constructor.
  - exact (H 0 a b eq_refl eq_refl).
  - apply IH; [simpl in Hl; lia|]. intros i x y Hx Hy. exact (H (S i) x y Hx Hy).
Qed.

Theorem render_opt_equiv_exact : forall s rs re t0,
  ssorted (tbl s) -> adds_wf (tbl s) -> (rs = false -> t0 = tdefault) ->
  exists d1 f1 d2 f2,
    tok_run t0 (to_str_toks s true rs re) = (d1, f1)
    /\ tok_run t0 (to_str_toks s false rs re) = (d2, f2)
    /\ map fst d1 = map fst d2
    /\ Forall2 teq (map snd d1) (map snd d2)
    /\ (re = true -> teq f1 f2).
Proof.
  intros s rs re t0 Hs Hwf Ht0.
  destruct (render_opt_display_strong_exact s rs re t0 Hs Hwf Ht0) as (d1 & f1 & A1 & A2 & A3 & A4).
  destruct (render_unopt_display_strong s rs re t0 Hs Hwf Ht0) as (d2 & f2 & B1 & B2 & B3 & B4).
  exists d1, f1, d2, f2. split; [exact A1|]. split; [exact B1|]. split; [congruence|]. split.
  - assert (L1 : length d1 = length (base s)) by (rewrite <- A2; now rewrite map_length).
    assert (L2 : length d2 = length (base s)) by (rewrite <- B2; now rewrite map_length).
    apply Forall2_nth. { rewrite !map_length. congruence. }
    intros i a b Ha Hb.
    assert (Hi : i < length (base s)).
    { rewrite <- L1, <- (map_length snd). apply nth_error_Some. congruence. }
    destruct (A3 i Hi) as (x & Hx & Hxs). destruct (B3 i Hi) as (y & Hy & Hys).
    rewrite Ha in Hx. rewrite Hb in Hy. inversion Hx; inversion Hy; subst.
    eapply teq_trans; [exact Hxs|]. now apply teq_sym.
  - intros Hre. eapply teq_trans; [now apply A4|]. apply teq_sym. now apply B4.
Qed.

Theorem render_opt_equiv : forall s rs re t0,
  ssorted (tbl s) -> adds_wf (tbl s) -> (rs = false -> t0 = tdefault) ->
  exists d1 f1 d2 f2,
    tok_run t0 (to_str_toks s true rs re) = (d1, f1)
    /\ tok_run t0 (to_str_toks s false rs re) = (d2, f2)
    /\ map fst d1 = map fst d2
    /\ Forall2 teq_disp (map snd d1) (map snd d2)
    /\ (re = true -> teq_disp f1 f2).
Proof.
  intros s rs re t0 Hs Hwf Ht0.
  destruct (render_opt_equiv_exact s rs re t0 Hs Hwf Ht0) as (d1 & f1 & d2 & f2 & H1 & H2 & H3 & H4 & H5).
  exists d1, f1, d2, f2. repeat split; auto.
  - clear -H4. induction H4; constructor; auto. now apply teq_teq_disp.
  - intros Hre. now apply teq_teq_disp, H5.
Qed.


(* ---------- well-formed tokens and the byte level, optimised renderer ---------- *)
Lemma opt_pick_nonfinal old cur p : set_parsable cur ->
  nonfinal (snd (opt_pick old (s2d (fun x => x) (map stxt cur) []) (pt_codes p cur))) = true.
Proof.
  intros Hc. destruct (s2d_of_set cur Hc) as (_ & _ & Hne).
  destruct (acts_of_txt_acts _ _ (diff_txt_acts old _ Hne)) as (_ & Hpar & _).
  assert (Hfull : nonfinal (pt_codes p cur) = true).
  { apply nonfinal_pt_codes. intros x Hx. apply wf_nonfinal, parsable_wf. now apply Hc. }
  assert (Hdiff : nonfinal (join [SEMI] (diff_codes old (s2d (fun x => x) (map stxt cur) []))) = true).
  { apply nonfinal_join. eapply Forall_impl; [|exact Hpar]. cbv beta. intros t Ht.
    destruct (params_of t) as [P|] eqn:E; [|congruence]. apply dsc_nonfinal. exact (params_of_chars t P E). }
  unfold opt_pick. cbv zeta. destruct (is_nil _); [exact Hfull|]. destruct (_ <? _); assumption.
Qed.

Lemma rs_wrap_nonfinal k rs ac : nonfinal (snd ac) = true -> nonfinal (snd (rs_wrap k rs ac)) = true.
Proof.
  intros H. unfold rs_wrap. destruct (Nat.eqb k 0 && rs); auto.
  destruct (fst ac && negb (is_nil (snd ac))); cbn [snd]; auto.
Qed.

Lemma render_point_opt_toks s rs st idx p cur : no_esc s = true -> set_parsable cur ->
  Forall tok_ok (r_out st) -> Forall tok_ok (r_out (render_point s true rs st idx p cur)).
Proof.
  intros Hs Hc Ho. rewrite render_point_opt. cbv zeta. cbn [r_out].
  apply Forall_app. split; auto. apply Forall_app. split.
  { destruct (r_first st && (0 <? idx) && rs); repeat constructor. }
  apply Forall_app. split. { apply tok_ok_opt_text. now apply no_esc_slice. }
  destruct (fst _); [|constructor]. repeat constructor. cbn [tok_ok].
  now apply rs_wrap_nonfinal, opt_pick_nonfinal.
Qed.

Theorem to_str_toks_ok s opt rs re : no_esc (base s) = true -> adds_wf (tbl s) ->
  Forall tok_ok (to_str_toks s opt rs re).
Proof.
  intros Hs Hwf.
  assert (Hun : Forall tok_ok (to_str_toks s false rs re)).
  { apply to_str_toks_unopt_ok; auto. intros x Hx. apply wf_nonfinal. now apply Hwf. }
  destruct opt; [|exact Hun]. destruct (is_parsable_tbl (tbl s)) eqn:Ep.
  2:{ replace (to_str_toks s true rs re) with (to_str_toks s false rs re); [exact Hun|].
      unfold to_str_toks. now rewrite Ep. }
  unfold to_str_toks. rewrite Ep. destruct (is_nil (tbl s) && negb rs).
  - now apply tok_ok_opt_text.
  - cbn [andb]. apply Forall_app. split.
    + apply (render_loop_toks _ _ _ set_parsable).
      * intros; now apply render_point_opt_toks.
      * intros idx p cur Hin x Hx. destruct (iter_states_in _ _ _ _ _ x Hin Hx) as [[]|H].
        now apply (is_parsable_tbl_spec _ Ep).
      * constructor.
    + apply Forall_app. split. { destruct (_ && rs); repeat constructor. }
      apply Forall_app. split. { apply tok_ok_opt_text. unfold no_esc. now apply forallb_skipn. }
      destruct (_ && re); repeat constructor.
Qed.

Theorem render_opt_display_bytes_exact : forall s rs re t0,
  ssorted (tbl s) -> no_esc (base s) = true -> adds_wf (tbl s) -> (rs = false -> t0 = tdefault) ->
  exists disp tfin,
    term_run t0 (to_str s true rs re) = (disp, tfin)
    /\ map fst disp = base s
    /\ (forall i, i < length (base s) -> exists st, nth_error (map snd disp) i = Some st /\
          teq st (style_of (map stxt (active_at (tbl s) i))))
    /\ (re = true -> teq tfin tdefault).
Proof.
  intros s rs re t0 Hs He Hwf Ht0. unfold to_str. rewrite term_tok_bridge.
  - now apply render_opt_display_strong_exact.
  - now apply to_str_toks_ok.
Qed.

(* str(s) / format(s) : render = to_str with optimize, no reset_start, reset_end *)
Corollary render_display_exact : forall s,
  ssorted (tbl s) -> no_esc (base s) = true -> adds_wf (tbl s) ->
  exists disp tfin,
    term_run tdefault (render s) = (disp, tfin)
    /\ map fst disp = base s
    /\ (forall i, i < length (base s) -> exists st, nth_error (map snd disp) i = Some st /\
          teq st (style_of (map stxt (active_at (tbl s) i))))
    /\ teq tfin tdefault.
Proof.
  intros s Hs He Hwf.
  destruct (render_opt_display_bytes_exact s false true tdefault Hs He Hwf (fun _ => eq_refl))
    as (disp & tfin & H1 & H2 & H3 & H4).
  exists disp, tfin. repeat split; auto.
Qed.

(* the display-equivalence forms, kept under their original names *)
Theorem render_opt_display_bytes : forall s rs re t0,
  ssorted (tbl s) -> no_esc (base s) = true -> adds_wf (tbl s) -> (rs = false -> t0 = tdefault) ->
  exists disp tfin,
    term_run t0 (to_str s true rs re) = (disp, tfin)
    /\ map fst disp = base s
    /\ (forall i, i < length (base s) -> exists st, nth_error (map snd disp) i = Some st /\
          teq_disp st (style_of (map stxt (active_at (tbl s) i))))
    /\ (re = true -> teq_disp tfin tdefault).
Proof.
  intros s rs re t0 Hs He Hwf Ht0. unfold to_str. rewrite term_tok_bridge.
  - now apply render_opt_display_strong.
  - now apply to_str_toks_ok.
Qed.

(* str(s) / format(s) : render = to_str with optimize, no reset_start, reset_end *)
Corollary render_display : forall s,
  ssorted (tbl s) -> no_esc (base s) = true -> adds_wf (tbl s) ->
  exists disp tfin,
    term_run tdefault (render s) = (disp, tfin)
    /\ map fst disp = base s
    /\ (forall i, i < length (base s) -> exists st, nth_error (map snd disp) i = Some st /\
          teq_disp st (style_of (map stxt (active_at (tbl s) i))))
    /\ teq_disp tfin tdefault.
Proof.
  intros s Hs He Hwf.
  destruct (render_opt_display_bytes s false true tdefault Hs He Hwf (fun _ => eq_refl))
    as (disp & tfin & H1 & H2 & H3 & H4).
  exists disp, tfin. repeat split; auto.
Qed.

(* reset_start, any renderer variant: the output begins with a reset *)
Theorem render_starts_reset s opt re : adds_wf (tbl s) ->
  exists codes r p, to_str_toks s opt true re = OSgr codes :: r /\ params_of codes = Some (0%N :: p).
Proof.
  intros Hwf. pose proof (render_unopt_starts_reset s re Hwf) as Hun.
  destruct opt; [|exact Hun]. destruct (is_parsable_tbl (tbl s)) eqn:Ep.
  2:{ replace (to_str_toks s true true re) with (to_str_toks s false true re); [exact Hun|].
      unfold to_str_toks. now rewrite Ep. }
  clear Hun. pose proof (is_parsable_tbl_spec _ Ep) as Hpars.
  unfold to_str_toks. rewrite Ep, andb_false_r. cbn [andb].
  set (init := {| r_out := []; r_last := 0; r_dict := []; r_exist := false; r_first := true |}).
  assert (Hbrk : exists codes r p,
    r_out init ++ (if r_first init && true then [OSgr []] else []) ++
    (if is_nil (skipn (r_last init) (base s)) then [] else [OText (skipn (r_last init) (base s))]) ++
    (if r_exist init && re then [OSgr []] else []) = OSgr codes :: r /\ params_of codes = Some (0%N :: p)).
  { cbn [init r_out r_first r_last r_exist andb app]. exists []. eexists. exists []. split; reflexivity. }
  destruct (tbl s) as [|[k p] t] eqn:Et.
  - cbn [iter_states render_loop]. exact Hbrk.
  - cbn [iter_states render_loop]. destruct (length (base s) <=? k); [exact Hbrk|].
    match goal with |- context [render_loop ?a ?b ?c ?d ?e] => destruct (render_loop_prefix a b c d e) as [ext ->] end.
    rewrite render_point_opt. cbv zeta. cbn [r_out r_first r_last r_dict init andb app].
    destruct k as [|k'].
    + change (0 <? 0) with false. cbn [andb app].
      replace (str_slice (base s) 0 0) with (@nil char) by (unfold str_slice; reflexivity). cbn [is_nil app].
      assert (Hp : set_parsable (padd p)).
      { intros x Hx. apply Hpars. unfold all_adds. cbn [flat_map snd]. apply in_or_app. now left. }
      assert (Hnil : set_parsable []) by (intros x []).
      destruct (opt_pick_sound teq teq_rel_ok tdefault [] p Hnil Hp (teq_refl _)) as (_ & P & HP).
      change (s2d (fun x : str => x) (map stxt []) []) with (@nil (effect * str)) in HP.
      set (ac := opt_pick [] _ _) in *.
      unfold rs_wrap. cbn [Nat.eqb andb]. destruct ac as [ap c]. cbn [fst snd] in *.
      destruct (ap && negb (is_nil c)) eqn:Ea; cbn [fst snd app].
      * eexists. eexists. eexists. split; [reflexivity|]. exact (params_of_zero_prefix _ _ HP).
      * exists [CH_0]. eexists. exists []. split; reflexivity.
    + change (0 <? S k') with true. cbn [andb app]. exists []. eexists. exists []. split; reflexivity.
Qed.

(* the hypothesis on the setting texts is needed: a non-numeric text (here "4:3") makes the
   specification terminal ignore the whole joined sequence, so "1" is lost with it *)
Definition ex_bad : astr := mkA [65]%N [(0, mkP [mkS 1 [49]%N; mkS 2 [52; 58; 51]%N] [])].
Example wf_hypothesis_needed :
  wf_setting [52; 58; 51]%N = false
  /\ to_str_toks ex_bad false false true = [OSgr [49; 59; 52; 58; 51]%N; OText [65]%N; OSgr []]
  /\ (exists st, nth_error (map snd (fst (tok_run tdefault (to_str_toks ex_bad false false true)))) 0 = Some st
                 /\ st BOLDNESS = None
                 /\ style_of (map stxt (active_at (tbl ex_bad) 0)) BOLDNESS = Some [1%N]).
Proof.
  split; [reflexivity|]. split; [vm_compute; reflexivity|].
  eexists. split; [reflexivity|]. split; reflexivity.
Qed.

(* ---------- non-vacuity for the optimiser ---------- *)
Definition ex_o : astr :=                                   (* "ABC": bold from 0, italic added at 1, bold off at 2 *)
  mkA [65; 66; 67]%N
      [(0, mkP [mkS 1 [49]%N] []);
       (1, mkP [mkS 2 [51]%N] []);
       (2, mkP [] [mkS 1 [49]%N])].

Example ex_o_hyps :
  ssorted (tbl ex_o) /\ no_esc (base ex_o) = true /\ adds_wf (tbl ex_o) /\ is_parsable_tbl (tbl ex_o) = true.
Proof.
  split.
  { repeat constructor; cbn [In fst]; intros kp H;
    repeat (destruct H as [<-|H]; [cbn [fst]; lia|]); destruct H. }
  split; [reflexivity|]. split; [|reflexivity].
  intros x H. cbn in H. repeat (destruct H as [<-|H]; [reflexivity|]). destruct H.
Qed.

(* the optimiser really takes the difference: "3" instead of "1;3", "22" instead of "0;3" *)
Example ex_o_rendered :
  to_str_toks ex_o true false true
  = [OSgr [49]%N; OText [65]%N; OSgr [51]%N; OText [66]%N; OSgr [50; 50]%N; OText [67]%N; OSgr []]
  /\ to_str_toks ex_o false false true
  = [OSgr [49]%N; OText [65]%N; OSgr [49; 59; 51]%N; OText [66]%N; OSgr [48; 59; 51]%N; OText [67]%N; OSgr []]
  /\ map (fun x => tstate_obs (snd x)) (fst (term_run tdefault (to_str ex_o true false true)))
     = map (fun i => tstate_obs (style_of (map stxt (active_at (tbl ex_o) i)))) [0; 1; 2].
Proof. repeat split; vm_compute; reflexivity. Qed.

(* since F28, 10 is the clear code of FONT_TYPE: the optimiser clears font 11 by emitting "10",
   and the terminal state is then exactly the style of the remaining settings *)
Definition ex_f : astr :=
  mkA [65; 66]%N [(0, mkP [mkS 1 [49; 49]%N; mkS 2 [49]%N] []); (1, mkP [] [mkS 1 [49; 49]%N])].
Example ex_f_font :
  to_str_toks ex_f true false true = [OSgr [49; 49; 59; 49]%N; OText [65]%N; OSgr [49; 48]%N; OText [66]%N; OSgr []]
  /\ (exists st0 st1,
        map snd (fst (tok_run tdefault (to_str_toks ex_f true false true))) = [st0; st1]
        /\ st0 FONT_TYPE = Some [11%N]
        /\ st1 FONT_TYPE = None /\ st1 BOLDNESS = Some [1%N]
        /\ style_of (map stxt (active_at (tbl ex_f) 1)) FONT_TYPE = None).
Proof. split; [vm_compute; reflexivity|]. eexists. eexists. split; [reflexivity|]. repeat split; reflexivity. Qed.

(* ==== FOOTER ==== *)
Print Assumptions term_tok_bridge.
Print Assumptions render_unopt_display_strong.
Print Assumptions render_unopt_display.
Print Assumptions render_unopt_display_bytes.
Print Assumptions render_unopt_starts_reset.
Print Assumptions clear_spec.
Print Assumptions s2d_style.
Print Assumptions diff_sound.
Print Assumptions render_opt_display_strong.
Print Assumptions render_opt_display.
Print Assumptions render_opt_equiv.
Print Assumptions to_str_toks_ok.
Print Assumptions render_opt_display_bytes.
Print Assumptions render_display.
Print Assumptions render_starts_reset.
Print Assumptions render_opt_display_strong_exact.
Print Assumptions render_opt_display_exact.
Print Assumptions render_opt_equiv_exact.
Print Assumptions render_opt_display_bytes_exact.
Print Assumptions render_display_exact.
