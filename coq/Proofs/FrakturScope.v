(* Known finding K7, delimited by proof.  ECMA-48 8.3.117 defines SGR 23 as "not italicized, not fraktur"; the
   specification terminal of this development (Spec/Terminal.v) - like the library's table - files 20 (Fraktur)
   under FONT_TYPE, which only 10 clears.  sgr_ecma below is the specification terminal with that one difference
   repaired: clearing ITALICS (the action of code 23 and of nothing else) also ends a Fraktur font.  The theorems
   show that the two readings differ ONLY when Fraktur is in effect when a 23 is read: if the state the sequence
   starts from has no Fraktur and the sequence selects none (fraktur_free), or if it contains no 23 at all, both
   terminals reach the same state.  So every theorem of C01 / C02 / C18 stated with `sgr spec_class` holds for the
   ECMA reading on every input outside that class; inside it the difference is real (Example k7_witness). *)
From AS Require Import Base Effects.
From AS.Spec Require Import Terminal.
Local Open Scope N_scope.

Definition fraktur : option (list N) := Some [20].
Definition is_fraktur (g : option (list N)) : bool :=
  match g with Some [c] => c =? 20 | _ => false end.

Definition apply_act_ecma (t : tstate) (a : act) : tstate :=
  match a with
  | AClr ITALICS => let t' := tset t ITALICS None in
                    if is_fraktur (t FONT_TYPE) then tset t' FONT_TYPE None else t'
  | _ => apply_act t a
  end.
Definition run_ecma (t : tstate) (l : list act) : tstate := fold_left apply_act_ecma l t.
Definition sgr_ecma (t : tstate) (p : list N) : tstate := run_ecma t (acts spec_class p).

(* an action list that never selects Fraktur / never clears italics *)
Definition selects_fraktur (a : act) : bool :=
  match a with ASet FONT_TYPE g => is_fraktur (Some g) | _ => false end.
Definition clears_italics (a : act) : bool := match a with AClr ITALICS => true | _ => false end.
Definition fraktur_free (l : list act) : bool := forallb (fun a => negb (selects_fraktur a)) l.
Definition no_23 (l : list act) : bool := forallb (fun a => negb (clears_italics a)) l.

Lemma tset_same t e g : tset t e g e = g.
Proof. unfold tset. now rewrite effect_beq_refl. Qed.
Lemma tset_other t e g e' : e <> e' -> tset t e g e' = t e'.
Proof.
  intros H. unfold tset. destruct (effect_beq e e') eqn:E; [|reflexivity].
  apply effect_beq_eq in E. contradiction.
Qed.

(* one step: without Fraktur in the state both terminals do the same, and no Fraktur appears unless selected *)
Lemma step_same t a : is_fraktur (t FONT_TYPE) = false -> selects_fraktur a = false ->
  apply_act_ecma t a = apply_act t a /\ is_fraktur (apply_act t a FONT_TYPE) = false.
Proof.
  intros Ht Ha. split.
  - destruct a as [|e g|e|]; try reflexivity. destruct e; try reflexivity.
    cbn [apply_act_ecma apply_act]. now rewrite Ht.
  - destruct a as [|e g|e|]; cbn [apply_act]; try assumption; try reflexivity.
    + destruct (effect_beq e FONT_TYPE) eqn:E.
      * apply effect_beq_eq in E. subst e. rewrite tset_same. exact Ha.
      * rewrite tset_other by (now apply effect_beq_neq). exact Ht.
    + destruct (effect_beq e FONT_TYPE) eqn:E.
      * apply effect_beq_eq in E. subst e. rewrite tset_same. reflexivity.
      * rewrite tset_other by (now apply effect_beq_neq). exact Ht.
Qed.

Theorem run_ecma_fraktur_free l : forall t, is_fraktur (t FONT_TYPE) = false -> fraktur_free l = true ->
  run_ecma t l = run t l.
Proof.
  induction l as [|a l IH]; intros t Ht Hl; [reflexivity|].
  cbn [fraktur_free forallb] in Hl. apply andb_true_iff in Hl as [Ha Hl]. apply negb_true_iff in Ha.
  destruct (step_same t a Ht Ha) as [E1 E2].
  unfold run_ecma, run in *. cbn [fold_left]. rewrite E1. now apply IH.
Qed.

Theorem run_ecma_no_23 l : forall t, no_23 l = true -> run_ecma t l = run t l.
Proof.
  induction l as [|a l IH]; intros t Hl; [reflexivity|].
  cbn [no_23 forallb] in Hl. apply andb_true_iff in Hl as [Ha Hl]. apply negb_true_iff in Ha.
  unfold run_ecma, run in *. cbn [fold_left].
  assert (E : apply_act_ecma t a = apply_act t a).
  { destruct a as [|e g|e|]; try reflexivity. destruct e; try reflexivity. discriminate Ha. }
  rewrite E. now apply IH.
Qed.

(* the statements on parameter lists *)
Theorem K7_scope_no_fraktur t p :
  is_fraktur (t FONT_TYPE) = false -> fraktur_free (acts spec_class p) = true ->
  sgr_ecma t p = sgr spec_class t p.
Proof. intros. now apply run_ecma_fraktur_free. Qed.

Theorem K7_scope_no_23 t p : no_23 (acts spec_class p) = true -> sgr_ecma t p = sgr spec_class t p.
Proof. intros. now apply run_ecma_no_23. Qed.

(* from the default state, in particular for style_of: a list of codes that never selects Fraktur *)
Corollary K7_scope_default p : fraktur_free (acts spec_class p) = true ->
  sgr_ecma tdefault p = sgr spec_class tdefault p.
Proof. intros. now apply K7_scope_no_fraktur. Qed.

(* non-vacuity, and the difference inside the class *)
Example k7_scope_examples :
  fraktur_free (acts spec_class [1; 3; 38; 5; 20; 23; 11]) = true          (* the 20 is a palette index here *)
  /\ no_23 (acts spec_class [20; 3; 22; 38; 2; 23; 23; 23]) = true          (* the 23s are colour components *)
  /\ fraktur_free (acts spec_class [20; 23]) = false /\ no_23 (acts spec_class [20; 23]) = false.
Proof. vm_compute. repeat split. Qed.

Example k7_witness :
  sgr spec_class tdefault [20; 23] FONT_TYPE = Some [20] /\ sgr_ecma tdefault [20; 23] FONT_TYPE = None
  /\ sgr spec_class tdefault [20; 3; 23] ITALICS = None /\ sgr_ecma tdefault [20; 3; 23] ITALICS = None
  /\ sgr_ecma tdefault [11; 23] FONT_TYPE = Some [11].
Proof. vm_compute. repeat split. Qed.

Print Assumptions K7_scope_no_fraktur.
Print Assumptions K7_scope_no_23.
