(* Simple facts shared by several property files: operations that never change the text,
   no-op cases, text of a concatenation. *)
From AS Require Import Base.
From AS.Model Require Import Table Ops.
From AS.Proofs Require Import TableProofs.

Lemma apply_core_base s new st en top : base (apply_core s new st en top) = base s.
Proof. reflexivity. Qed.

Lemma apply_fmt_base s new st en top : base (apply_fmt s new st en top) = base s.
Proof. unfold apply_fmt. destruct (_ || _); [reflexivity | apply apply_core_base]. Qed.

Lemma apply_fmt_noop_settings s st en top : apply_fmt s [] st en top = s.
Proof. unfold apply_fmt. cbn [is_nil]. now rewrite orb_true_r. Qed.

Lemma apply_fmt_noop_range s new st en top :
  range_empty (length (base s)) (slice_idx (length (base s)) st 0) (slice_idx (length (base s)) en (length (base s))) = true ->
  apply_fmt s new st en top = s.
Proof. intros H. unfold apply_fmt. now rewrite H. Qed.

Lemma remove_core_base s sel st en : base (remove_core s sel st en) = base s.
Proof. reflexivity. Qed.

Lemma remove_fmt_base s sel st en : base (remove_fmt s sel st en) = base s.
Proof. unfold remove_fmt. destruct (range_empty _ _ _); [reflexivity | apply remove_core_base]. Qed.

Lemma remove_fmt_noop_range s sel st en :
  range_empty (length (base s)) (slice_idx (length (base s)) st 0) (slice_idx (length (base s)) en (length (base s))) = true ->
  remove_fmt s sel st en = s.
Proof. intros H. unfold remove_fmt. now rewrite H. Qed.

Lemma clear_fmt_spec s : base (clear_fmt s) = base s /\ forall k, active_at (tbl (clear_fmt s)) k = [].
Proof. split; reflexivity. Qed.

Lemma range_empty_spec len start en : range_empty len start en = true <-> (len <= start \/ en <= start).
Proof.
  unfold range_empty. rewrite orb_true_iff, !Nat.leb_le. tauto.
Qed.

Lemma iadd_base a b c : iadd a b = OK c -> base c = base a ++ base b.
Proof.
  unfold iadd. destruct (iadd_loop _ _ _ _ _ _) as [t|e]; cbn [bind]; [|discriminate].
  intros H. inversion H. reflexivity.
Qed.

Lemma add_is_iadd a b : add a b = iadd a b. Proof. reflexivity. Qed.

Lemma join_astr_fold x xs :
  join_astr (x :: xs) = fold_left (fun acc y => do a <- acc; iadd a y) xs (OK x).
Proof.
  cbn [join_astr]. revert x. induction xs as [|y ys IH]; intros x; cbn [join_from fold_left]; [reflexivity|].
  cbn [bind]. destruct (iadd x y) as [c|e]; cbn [bind].
  - apply IH.
  - clear. induction ys as [|z zs IHz]; cbn [fold_left bind]; auto.
Qed.

Lemma join_astr_nil : join_astr [] = OK (mkA [] []). Proof. reflexivity. Qed.
