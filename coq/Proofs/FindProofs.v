(* find_settings / ansi_settings_at: the per-position query and the range search.
   Model: settings_at, settings_at_nat (Model/Table.v), find_settings (Model/Ops.v).
   Python: AnsiString.ansi_settings_at, AnsiString.find_settings (ansi_string.py). *)
From AS Require Import Base.
From AS.Model Require Import Table Ops.
From AS.Proofs Require Import TableProofs SliceProofs PadProofs.

(* ---------- concrete strings used by the non-vacuity examples ---------- *)
Definition exA  : setting := mkS 1 [65%N].
Definition exB  : setting := mkS 2 [66%N].
Definition exA' : setting := mkS 3 [65%N].
(* "abcd" with A on [1,3) *)
Definition ex1 : astr := mkA [97;98;99;100]%N [(1, mkP [exA] []); (3, mkP [] [exA])].
(* "abcd" with A on [0,2) and B on [1,4): overlapping, closing marker at key = len *)
Definition ex2 : astr :=
  mkA [97;98;99;100]%N [(0, mkP [exA] []); (1, mkP [exB] []); (2, mkP [] [exA]); (4, mkP [] [exB])].
(* six characters, A on [1,2), B on [2,4), another object with the text of A on [3,6) *)
Definition ex3 : astr :=
  mkA [1;2;3;4;5;6]%N
      [(1, mkP [exA] []); (2, mkP [exB] [exA]); (3, mkP [exA'] []); (4, mkP [] [exB]); (6, mkP [] [exA'])].

Lemma ex1_sorted : ssorted (tbl ex1).
Proof. repeat constructor; cbn; intros kp H; repeat (destruct H as [<-|H]; [cbn; lia|]); destruct H. Qed.
Lemma ex2_sorted : ssorted (tbl ex2).
Proof. repeat constructor; cbn; intros kp H; repeat (destruct H as [<-|H]; [cbn; lia|]); destruct H. Qed.
Lemma ex3_sorted : ssorted (tbl ex3).
Proof. repeat constructor; cbn; intros kp H; repeat (destruct H as [<-|H]; [cbn; lia|]); destruct H. Qed.
Lemma ex1_keys : keys_le (tbl ex1) (length (base ex1)).
Proof. intros kp H; cbn in H; repeat (destruct H as [<-|H]; [cbn; lia|]); destruct H. Qed.
Lemma ex2_keys : keys_le (tbl ex2) (length (base ex2)).
Proof. intros kp H; cbn in H; repeat (destruct H as [<-|H]; [cbn; lia|]); destruct H. Qed.
Lemma ex3_keys : keys_le (tbl ex3) (length (base ex3)).
Proof. intros kp H; cbn in H; repeat (destruct H as [<-|H]; [cbn; lia|]); destruct H. Qed.

(* ====================================================================== *)
(* 1. ansi_settings_at                                                    *)
(* ====================================================================== *)
Theorem settings_at_out_of_range (s : astr) (k : Z) :
  (k < 0 \/ Z.of_nat (length (base s)) <= k)%Z -> settings_at s k = [].
Proof.
  intros H. unfold settings_at.
  destruct (0 <=? k)%Z eqn:E1; cbn [andb]; auto.
  destruct (k <? Z.of_nat (length (base s)))%Z eqn:E2; auto.
  apply Z.leb_le in E1. apply Z.ltb_lt in E2. lia.
Qed.

Theorem settings_at_in_range (s : astr) (k : Z) :
  (0 <= k < Z.of_nat (length (base s)))%Z -> settings_at s k = active_at (tbl s) (Z.to_nat k).
Proof.
  intros [H1 H2]. unfold settings_at.
  apply Z.leb_le in H1. apply Z.ltb_lt in H2. now rewrite H1, H2.
Qed.

Theorem settings_at_nat_Z (s : astr) (k : nat) : settings_at_nat s k = settings_at s (Z.of_nat k).
Proof.
  unfold settings_at_nat, settings_at.
  replace (0 <=? Z.of_nat k)%Z with true by (symmetry; apply Z.leb_le; lia). cbn [andb].
  rewrite Nat2Z.id.
  destruct (k <? length (base s)) eqn:E.
  - apply Nat.ltb_lt in E. replace (Z.of_nat k <? Z.of_nat (length (base s)))%Z with true; auto.
    symmetry. apply Z.ltb_lt. lia.
  - apply Nat.ltb_ge in E. replace (Z.of_nat k <? Z.of_nat (length (base s)))%Z with false; auto.
    symmetry. apply Z.ltb_ge. lia.
Qed.

Example settings_at_ex :
  settings_at ex2 1 = [exA; exB] /\ settings_at ex2 3 = [exB] /\ settings_at ex2 4 = [] /\
  settings_at ex2 (-1) = [] /\ settings_at_nat ex2 1 = [exA; exB] /\ settings_at_nat ex2 4 = [].
Proof. vm_compute. repeat split. Qed.

(* ====================================================================== *)
(* 2. the active list only changes at change points                        *)
(* ====================================================================== *)
Theorem active_at_const_between (t : fmts) (a b : nat) :
  ssorted t -> a <= b -> (forall kp, In kp t -> ~ (a < fst kp <= b)) ->
  active_at t b = active_at t a.
Proof.
  intros Hs Hab Hno.
  rewrite (active_at_run t b Hs), (active_at_run t a Hs), (upto_split t Hs a b Hab).
  assert (E : filter (fun kp => (a <? fst kp) && (fst kp <=? b)) t = []).
  { clear Hs. induction t as [|kp t IH]; cbn [filter]; auto.
    destruct ((a <? fst kp) && (fst kp <=? b)) eqn:E.
    - apply andb_true_iff in E as [E1 E2]. apply Nat.ltb_lt in E1. apply Nat.leb_le in E2.
      exfalso. apply (Hno kp); [now left|lia].
    - apply IH. intros kp' Hin. apply Hno. now right. }
  now rewrite E, app_nil_r.
Qed.

Example active_at_const_between_ex :
  ssorted (tbl ex1) /\ 1 <= 2 /\ (forall kp, In kp (tbl ex1) -> ~ (1 < fst kp <= 2)) /\
  active_at (tbl ex1) 2 = [exA].
Proof.
  split; [apply ex1_sorted|]. split; [lia|]. split; [|reflexivity].
  intros kp H; cbn in H; repeat (destruct H as [<-|H]; [cbn; lia|]); destruct H.
Qed.

(* the hypothesis a <= b is needed: read backwards, "no key in (a, b]" is vacuous *)
Example active_at_const_between_needs_le :
  (forall kp, In kp (tbl ex1) -> ~ (2 < fst kp <= 0)) /\ active_at (tbl ex1) 0 <> active_at (tbl ex1) 2.
Proof. split; [intros; lia|vm_compute; discriminate]. Qed.

(* ====================================================================== *)
(* 3. find_settings                                                       *)
(* ====================================================================== *)

(* ---------- list helpers ---------- *)
Lemma map_filter_comm {A B} (g : A -> B) (F : B -> bool) l :
  map g (filter (fun x => F (g x)) l) = filter F (map g l).
Proof.
  induction l as [|x l IH]; cbn [filter map]; auto.
  destruct (F (g x)); cbn [map]; now rewrite IH.
Qed.

Lemma existsb_map {A B} (g : A -> B) (f : B -> bool) l :
  existsb f (map g l) = existsb (fun x => f (g x)) l.
Proof. induction l as [|x l IH]; cbn [existsb map]; auto. now rewrite IH. Qed.

Lemma find_map {A B} (g : A -> B) (f : B -> bool) l :
  find f (map g l) = option_map g (find (fun x => f (g x)) l).
Proof. induction l as [|x l IH]; cbn [find map]; auto. destruct (f (g x)); auto. Qed.

(* on a key-sorted list, `find` returns the match with the least key *)
Lemma find_sorted_first (f : nat * point -> bool) l x : ssorted l -> find f l = Some x ->
  In x l /\ f x = true /\ forall y, In y l -> fst y < fst x -> f y = false.
Proof.
  induction 1 as [|k p r Hk Hs IH]; cbn [find]; [discriminate|].
  destruct (f (k, p)) eqn:E.
  - intros H; inversion H; subst x. split; [now left|]. split; auto.
    intros y [<-|Hy] Hlt; cbn [fst] in Hlt; [lia|]. specialize (Hk y Hy). lia.
  - intros H. destruct (IH H) as (Hin & Hf & Hmin). split; [now right|]. split; auto.
    intros y [<-|Hy] Hlt; auto.
Qed.

(* ---------- what the iterator yields ---------- *)
Lemma active_upto_all_gt t k a : (forall kp, In kp t -> k < fst kp) -> active_upto t k a = a.
Proof.
  destruct t as [|[k' p'] r]; cbn [active_upto]; auto. intros H.
  assert (Hlt : k < k') by (apply (H (k', p')); now left).
  replace (k' <=? k) with false by (symmetry; apply Nat.leb_gt; lia). reflexivity.
Qed.

Definition proj (x : nat * point * list setting) : nat * list setting := (fst (fst x), snd x).

(* _AnsiSettingsIterator yields, at every change point, the list active at that position *)
Lemma iter_states_samples t : ssorted t -> forall a,
  map proj (iter_states t a) = map (fun kp => (fst kp, active_upto t (fst kp) a)) t.
Proof.
  induction 1 as [|k p t Hk Hs IH]; intros a; cbn [iter_states map]; auto.
  f_equal.
  - unfold proj; cbn [fst snd active_upto]. rewrite Nat.leb_refl. now rewrite active_upto_all_gt.
  - rewrite IH. apply map_ext_in. intros kp Hin. cbn [active_upto]. specialize (Hk kp Hin).
    replace (k <=? fst kp) with true by (symmetry; apply Nat.leb_le; lia). reflexivity.
Qed.

Corollary iter_states_active t : ssorted t ->
  map proj (iter_states t []) = map (fun kp => (fst kp, active_at t (fst kp))) t.
Proof. intros H. now apply iter_states_samples. Qed.

Example iter_states_ex :
  map proj (iter_states (tbl ex2) []) = [(0, [exA]); (1, [exA; exB]); (2, [exB]); (4, [])].
Proof. reflexivity. Qed.

(* ---------- a normal form of the model function over the table itself ---------- *)
Definition inr (i j : nat) (kp : nat * point) : bool := (i <=? fst kp) && (fst kp <=? j).

Definition fcore (t : fmts) (want : list str) (len i j : nat) (rv : bool) : option nat * option nat :=
  let tf := filter (inr i j) t in
  let hk c := has_all want (active_at t c) in
  let found0 :=
    if existsb (fun kp => Nat.eqb (fst kp) i) tf then None
    else if has_all want (if i <? len then active_at t i else []) then Some i else None in
  let found :=
    match found0 with
    | Some a => Some a
    | None => option_map fst (find (fun kp => hk (fst kp)) (if rv then rev tf else tf))
    end in
  match found with
  | None => (None, None)
  | Some a => (Some a, option_map fst (find (fun kp => (a <? fst kp) && negb (hk (fst kp))) tf))
  end.

Lemma option_map_fst_g {A B C} (g : A * B -> A * C) (o : option (A * B)) :
  (forall x, fst (g x) = fst x) -> option_map fst (option_map g o) = option_map fst o.
Proof. intros H. destruct o; cbn [option_map]; auto. now rewrite H. Qed.

Lemma find_settings_nf (s : astr) (want : list str) (st en : option Z) (rv : bool) :
  ssorted (tbl s) ->
  let len := length (base s) in
  let i := slice_idx len st 0 in
  let j := slice_idx len en len in
  find_settings s want st en rv =
    if j <? i then (None, None)
    else if is_nil want then (Some i, Some j)
    else fcore (tbl s) want len i j rv.
Proof.
  intros Hs len i j. unfold find_settings. fold len. fold i. fold j.
  destruct (j <? i); auto. destruct (is_nil want); auto.
  set (g := fun kp : nat * point => (fst kp, active_at (tbl s) (fst kp))).
  assert (Eidx : map (fun x : nat * point * list setting => (fst (fst x), snd x))
                  (filter (fun x => (i <=? fst (fst x)) && (fst (fst x) <=? j)) (iter_states (tbl s) []))
                 = map g (filter (inr i j) (tbl s))).
  { change (fun x : nat * point * list setting => (fst (fst x), snd x)) with proj.
    rewrite (map_filter_comm proj (fun y => (i <=? fst y) && (fst y <=? j))).
    rewrite (iter_states_active _ Hs). fold g.
    rewrite <- (map_filter_comm g (fun y => (i <=? fst y) && (fst y <=? j))). reflexivity. }
  rewrite Eidx. clear Eidx. unfold fcore.
  set (tf := filter (inr i j) (tbl s)).
  rewrite existsb_map. cbn [g fst].
  unfold settings_at_nat. fold len.
  assert (Efind : option_map fst (find (fun x => has_all want (snd x)) (if rv then rev (map g tf) else map g tf))
          = option_map fst (find (fun kp => has_all want (active_at (tbl s) (fst kp))) (if rv then rev tf else tf))).
  { destruct rv; [rewrite <- map_rev|]; rewrite find_map; now rewrite option_map_fst_g. }
  rewrite Efind. clear Efind.
  assert (Eend : forall a, option_map fst (find (fun x => (a <? fst x) && negb (has_all want (snd x))) (map g tf))
          = option_map fst (find (fun kp => (a <? fst kp) && negb (has_all want (active_at (tbl s) (fst kp)))) tf)).
  { intros a. rewrite find_map. now rewrite option_map_fst_g. }
  destruct (existsb (fun x => Nat.eqb (fst x) i) tf).
  - destruct (option_map fst (find _ _)); auto. now rewrite Eend.
  - destruct (has_all want (if i <? len then active_at (tbl s) i else [])).
    + now rewrite Eend.
    + destruct (option_map fst (find _ _)); auto. now rewrite Eend.
Qed.

(* ---------- the search over the table ---------- *)
Lemma has_all_nil want : want <> [] -> has_all want [] = false.
Proof. destruct want as [|w r]; [congruence|reflexivity]. Qed.

Lemma tf_In (t : fmts) (i j : nat) kp : In kp (filter (inr i j) t) <-> In kp t /\ i <= fst kp <= j.
Proof.
  rewrite filter_In. unfold inr. rewrite andb_true_iff, !Nat.leb_le. tauto.
Qed.

Section Core.
Variable t : fmts.
Variable want : list str.
Variables len i j : nat.
Hypothesis Hs : ssorted t.
Hypothesis Hjl : j <= len.

Let tf := filter (inr i j) t.
Let hk (c : nat) : bool := has_all want (active_at t c).
Let has (k : nat) : bool := has_all want (if k <? len then active_at t k else []).

Lemma tf_sorted : ssorted tf.
Proof. apply ssorted_filter, Hs. Qed.

Lemma has_hk k : k < len -> has k = hk k.
Proof. intros H. unfold has, hk. apply Nat.ltb_lt in H. now rewrite H. Qed.

(* every position k of [lo, j] either has a change point of [lo, k] with the same active list,
   or no change point of [lo, k] at all and then the active list of lo *)
Lemma cover lo : i <= lo -> forall d, lo + d <= j ->
  (exists kp, In kp tf /\ lo <= fst kp <= lo + d /\ active_at t (lo + d) = active_at t (fst kp)) \/
  ((forall kp, In kp tf -> ~ (lo <= fst kp <= lo + d)) /\ active_at t (lo + d) = active_at t lo).
Proof.
  intros Hlo. induction d as [|d IH]; intros Hd.
  - rewrite Nat.add_0_r. destruct (tget lo t) as [p|] eqn:E.
    + left. exists (lo, p). cbn [fst]. split; [|split; [lia|reflexivity]].
      apply tf_In. cbn [fst]. split; [now apply tget_In|lia].
    + right. split; auto. intros kp Hin Hr. apply tf_In in Hin as [Hin _].
      apply (tget_none_notin lo t Hs E kp Hin). lia.
  - destruct (tget (lo + S d) t) as [p|] eqn:E.
    + left. exists (lo + S d, p). cbn [fst]. split; [|split; [lia|reflexivity]].
      apply tf_In. cbn [fst]. split; [now apply tget_In|lia].
    + assert (Ec : active_at t (lo + S d) = active_at t (lo + d)).
      { apply active_at_const_between; auto; [lia|]. intros kp Hin Hr.
        apply (tget_none_notin _ t Hs E kp Hin). lia. }
      rewrite Ec. destruct IH as [(kp & Hin & Hr & Ea)|[Hno Ea]]; [lia| |].
      * left. exists kp. split; auto. split; [lia|auto].
      * right. split; auto. intros kp Hin Hr. pose proof Hin as Hin'. apply tf_In in Hin' as [Hin' _].
        destruct (Nat.eq_dec (fst kp) (lo + S d)) as [Eq|Ne].
        -- apply (tget_none_notin _ t Hs E kp Hin'). auto.
        -- apply (Hno kp Hin). lia.
Qed.

(* what holds at the change points of [lo, hi) and, when lo is not one, at lo, holds on all of [lo, hi) *)
Lemma transfer (b : bool) lo hi : i <= lo -> hi <= S j ->
  (forall kp, In kp tf -> lo <= fst kp < hi -> hk (fst kp) = b) ->
  ((forall kp, In kp tf -> fst kp <> lo) -> lo < len -> hk lo = b) ->
  forall k, lo <= k < hi -> k < len -> has k = b.
Proof.
  intros Hlo Hhi Hpts Hat k Hk Hkl. rewrite (has_hk k Hkl).
  replace k with (lo + (k - lo)) by lia.
  destruct (cover lo Hlo (k - lo)) as [(kp & Hin & Hr & Ea)|[Hno Ea]]; [lia| |].
  - unfold hk. rewrite Ea. apply Hpts; auto. lia.
  - unfold hk. rewrite Ea. apply Hat; [|lia]. intros kp Hin Eq. apply (Hno kp Hin). lia.
Qed.

Lemma existsb_key_false : existsb (fun kp => Nat.eqb (fst kp) i) tf = false ->
  forall kp, In kp tf -> fst kp <> i.
Proof.
  intros E kp Hin Eq.
  assert (existsb (fun kp => Nat.eqb (fst kp) i) tf = true); [|congruence].
  apply existsb_exists. exists kp. split; auto. now apply Nat.eqb_eq.
Qed.

Lemma existsb_key_true : existsb (fun kp => Nat.eqb (fst kp) i) tf = true ->
  exists kp, In kp tf /\ fst kp = i.
Proof.
  intros E. apply existsb_exists in E as (kp & Hin & Eq). exists kp. split; auto. now apply Nat.eqb_eq.
Qed.

Lemma find_dir (f : nat * point -> bool) (rv : bool) :
  (forall x, find f (if rv then rev tf else tf) = Some x -> In x tf /\ f x = true) /\
  (find f (if rv then rev tf else tf) = None -> forall x, In x tf -> f x = false).
Proof.
  split.
  - intros x H. apply find_some in H as [Hin Hf]. split; auto. destruct rv; auto. now apply in_rev.
  - intros H x Hin. apply (find_none _ _ H). destruct rv; auto. now apply in_rev in Hin.
Qed.

Hypothesis Hij : i <= j.
Hypothesis Hw : want <> [].

Theorem fcore_spec (rv : bool) :
  let '(fs, fe) := fcore t want len i j rv in
  (fs = None -> fe = None /\ forall k, i <= k <= j -> k < len -> has k = false) /\
  (forall a, fs = Some a ->
     i <= a <= j /\
     (a < len -> has a = true) /\
     (rv = false -> forall k, i <= k < a -> has k = false) /\
     (fe = None -> forall k, a <= k <= j -> k < len -> has k = true) /\
     (forall e, fe = Some e ->
        a < e <= j /\ (forall k, a <= k < e -> k < len -> has k = true) /\ (e < len -> has e = false))).
Proof.
  unfold fcore. fold tf. fold hk. change (has_all want (if i <? len then active_at t i else [])) with (has i).
  (* the end search, for a start a whose state is known *)
  assert (Hend : forall a, i <= a <= j ->
     (forall kp, In kp tf -> fst kp = a -> hk a = true) ->
     ((forall kp, In kp tf -> fst kp <> a) -> a < len -> hk a = true) ->
     let fe := option_map fst (find (fun kp => (a <? fst kp) && negb (hk (fst kp))) tf) in
     (fe = None -> forall k, a <= k <= j -> k < len -> has k = true) /\
     (forall e, fe = Some e ->
        a < e <= j /\ (forall k, a <= k < e -> k < len -> has k = true) /\ (e < len -> has e = false))).
  { intros a Ha Hkey Hnokey fe. subst fe.
    destruct (find (fun kp => (a <? fst kp) && negb (hk (fst kp))) tf) as [y|] eqn:F; cbn [option_map].
    - split; [discriminate|]. intros e He. inversion He; subst e. clear He.
      destruct (find_sorted_first _ _ _ tf_sorted F) as (Hin & Hf & Hmin).
      apply andb_true_iff in Hf as [Hf1 Hf2]. apply Nat.ltb_lt in Hf1. apply negb_true_iff in Hf2.
      pose proof Hin as Hr. apply tf_In in Hr as [_ Hr].
      split; [lia|]. split.
      + apply (transfer true a (fst y)); [lia|lia| |auto].
        intros kp Hkp Hrange. destruct (Nat.eq_dec (fst kp) a) as [Eq|Ne].
        * rewrite Eq. now apply (Hkey kp).
        * assert (Hm : (a <? fst kp) && negb (hk (fst kp)) = false) by (apply Hmin; auto; lia).
          replace (a <? fst kp) with true in Hm by (symmetry; apply Nat.ltb_lt; lia).
          cbn [andb] in Hm. now apply negb_false_iff in Hm.
      + intros Hl. now rewrite has_hk.
    - split; [|discriminate]. intros _ k Hk Hkl.
      apply (transfer true a (S j)); [lia|lia| |auto|lia|auto].
      intros kp Hkp Hrange. destruct (Nat.eq_dec (fst kp) a) as [Eq|Ne].
      + rewrite Eq. now apply (Hkey kp).
      + assert (Hm : (a <? fst kp) && negb (hk (fst kp)) = false) by (apply (find_none _ _ F); auto).
        replace (a <? fst kp) with true in Hm by (symmetry; apply Nat.ltb_lt; lia).
        cbn [andb] in Hm. now apply negb_false_iff in Hm. }
  (* the start search through the change points *)
  assert (Hscan : ((forall kp, In kp tf -> fst kp <> i) -> i < len -> hk i = false) ->
     let '(fs, fe) :=
       match option_map fst (find (fun kp => hk (fst kp)) (if rv then rev tf else tf)) with
       | None => (None, None)
       | Some a => (Some a, option_map fst (find (fun kp => (a <? fst kp) && negb (hk (fst kp))) tf))
       end in
     (fs = None -> fe = None /\ forall k, i <= k <= j -> k < len -> has k = false) /\
     (forall a, fs = Some a ->
        i <= a <= j /\ (a < len -> has a = true) /\
        (rv = false -> forall k, i <= k < a -> has k = false) /\
        (fe = None -> forall k, a <= k <= j -> k < len -> has k = true) /\
        (forall e, fe = Some e ->
           a < e <= j /\ (forall k, a <= k < e -> k < len -> has k = true) /\ (e < len -> has e = false)))).
  { intros Hi.
    destruct (find (fun kp => hk (fst kp)) (if rv then rev tf else tf)) as [x|] eqn:F; cbn [option_map].
    - split; [discriminate|]. intros a Ha. inversion Ha; subst a. clear Ha.
      destruct (proj1 (find_dir _ rv) x F) as [Hin Hx].
      pose proof Hin as Hr. apply tf_In in Hr as [_ Hr].
      split; [lia|]. split; [intros Hl; now rewrite has_hk|]. split.
      + intros -> k Hk. cbn in F.
        destruct (find_sorted_first _ _ _ tf_sorted F) as (_ & _ & Hmin).
        apply (transfer false i (fst x)); [lia|lia| |auto|lia|lia].
        intros kp Hkp Hrange. apply Hmin; auto. lia.
      + apply (Hend (fst x)); [lia| |].
        * intros kp _ _. exact Hx.
        * intros Hno. exfalso. now apply (Hno x).
    - split; [|discriminate]. intros _. split; auto. intros k Hk Hkl.
      apply (transfer false i (S j)); [lia|lia| |auto|lia|auto].
      intros kp Hkp _. now apply (proj2 (find_dir _ rv) F). }
  destruct (existsb (fun kp => Nat.eqb (fst kp) i) tf) eqn:Ex.
  - apply Hscan. intros Hno. exfalso. destruct (existsb_key_true Ex) as (kp & Hin & Eq). now apply (Hno kp).
  - destruct (has i) eqn:Hi.
    + split; [discriminate|]. intros a Ha. inversion Ha; subst a. clear Ha.
      assert (Hil : i < len).
      { destruct (Nat.lt_ge_cases i len) as [|Hge]; auto. exfalso.
        unfold has in Hi. replace (i <? len) with false in Hi by (symmetry; apply Nat.ltb_ge; lia).
        rewrite has_all_nil in Hi; auto. discriminate. }
      split; [lia|]. split; [auto|]. split; [intros _ k Hk; lia|].
      apply (Hend i); [lia| |].
      * intros kp Hin Eq. exfalso. now apply (existsb_key_false Ex kp).
      * intros _ _. now rewrite <- has_hk.
    + apply Hscan. intros _ Hil. now rewrite <- has_hk.
Qed.

End Core.

Example fcore_spec_ex :
  ssorted (tbl ex3) /\ 6 <= 6 /\ 2 <= 6 /\ [[65%N]] <> [] /\
  fcore (tbl ex3) [[65%N]] 6 2 6 false = (Some 3, Some 6) /\
  fcore (tbl ex3) [[65%N]; [66%N]] 6 0 6 true = (Some 3, Some 4) /\
  fcore (tbl ex3) [[67%N]] 6 0 6 false = (None, None).
Proof. split; [apply ex3_sorted|]. repeat split; try lia. discriminate. Qed.

(* ---------- the specification of find_settings ---------- *)
(* The range [i, j] is read inclusively at j (the code examines the change point at `end`).
   `has k` is "every wanted text occurs in ansi_settings_at(k)"; it is false for k >= len when
   want <> [] because ansi_settings_at returns [] there, hence the guards `k < len`.
   The last clause needs want <> []: see find_settings_empty_want_* below. *)
Theorem find_settings_spec (s : astr) (want : list str) (st en : option Z) (rv : bool) :
  ssorted (tbl s) ->
  let len := length (base s) in
  let i := slice_idx len st 0 in
  let j := slice_idx len en len in
  let has := fun k => has_all want (settings_at_nat s k) in
  let '(fs, fe) := find_settings s want st en rv in
  (j < i -> (fs, fe) = (None, None)) /\
  (i <= j -> want = [] -> (fs, fe) = (Some i, Some j)) /\
  (fs = None -> fe = None /\ forall k, i <= k <= j -> k < len -> has k = false) /\
  (want <> [] -> forall a, fs = Some a ->
     i <= a <= j /\
     (a < len -> has a = true) /\
     (rv = false -> forall k, i <= k < a -> has k = false) /\
     (fe = None -> forall k, a <= k <= j -> k < len -> has k = true) /\
     (forall e, fe = Some e ->
        a < e <= j /\ (forall k, a <= k < e -> k < len -> has k = true) /\ (e < len -> has e = false))).
Proof.
  intros Hs len i j has.
  assert (Hjl : j <= len) by (apply slice_idx_le; lia).
  pose proof (find_settings_nf s want st en rv Hs) as Enf. cbv zeta in Enf. fold len i j in Enf.
  rewrite Enf. clear Enf.
  destruct (j <? i) eqn:Eji.
  - apply Nat.ltb_lt in Eji. split; auto. split; [intros; lia|]. split; [|intros _ a; discriminate].
    intros _. split; auto. intros; lia.
  - apply Nat.ltb_ge in Eji. destruct (is_nil want) eqn:Ew.
    + destruct want; [|discriminate]. split; [intros; lia|]. split; auto.
      split; [discriminate|]. intros Hw. congruence.
    + assert (Hw : want <> []) by (intros ->; discriminate).
      pose proof (fcore_spec (tbl s) want len i j Hs Hjl Eji Hw rv) as Hc.
      destruct (fcore (tbl s) want len i j rv) as [fs fe].
      destruct Hc as [Hnone Hsome].
      split; [intros; lia|]. split; [intros _ E; congruence|]. split.
      * exact Hnone.
      * intros _. exact Hsome.
Qed.

(* the clause as first written, with `a <= k < j`, is a special case *)
Corollary find_settings_end_none (s : astr) (want : list str) (st en : option Z) (rv : bool) a :
  ssorted (tbl s) -> want <> [] ->
  let len := length (base s) in
  let j := slice_idx len en len in
  find_settings s want st en rv = (Some a, None) ->
  forall k, a <= k < j -> k < len -> has_all want (settings_at_nat s k) = true.
Proof.
  intros Hs Hw len j E k Hk Hkl.
  pose proof (find_settings_spec s want st en rv Hs) as H. cbv zeta in H. rewrite E in H.
  destruct H as (_ & _ & _ & H). destruct (H Hw a eq_refl) as (_ & _ & _ & Hn & _).
  apply Hn; auto. fold len j. lia.
Qed.

(* concrete instances: every case of the theorem occurs *)
Example find_ex1_fwd : find_settings ex1 [[65%N]] None None false = (Some 1, Some 3).
Proof. reflexivity. Qed.
Example find_ex1_inside : find_settings ex1 [[65%N]] (Some 2%Z) None false = (Some 2, Some 3).
Proof. reflexivity. Qed.
Example find_ex1_end_before : find_settings ex1 [[65%N]] (Some 2%Z) (Some 2%Z) false = (Some 2, None).
Proof. reflexivity. Qed.
Example find_ex1_end_on : find_settings ex1 [[65%N]] None (Some 3%Z) false = (Some 1, Some 3).
Proof. reflexivity. Qed.
Example find_ex1_absent : find_settings ex1 [[66%N]] None None false = (None, None).
Proof. reflexivity. Qed.
Example find_ex1_inverted : find_settings ex1 [[65%N]] (Some 3%Z) (Some 1%Z) false = (None, None).
Proof. reflexivity. Qed.
Example find_ex2_two : find_settings ex2 [[65%N]; [66%N]] None None false = (Some 1, Some 2).
Proof. reflexivity. Qed.
Example find_ex2_two_rev : find_settings ex2 [[65%N]; [66%N]] None None true = (Some 1, Some 2).
Proof. reflexivity. Qed.
Example find_ex2_to_len : find_settings ex2 [[66%N]] None None false = (Some 1, Some 4).
Proof. reflexivity. Qed.
Example find_ex3_fwd : find_settings ex3 [[65%N]] None None false = (Some 1, Some 2).
Proof. reflexivity. Qed.
(* reverse search returns the LAST CHANGE POINT at which the texts are present (4), not the start of
   the last run (3): position 3 carries the text too *)
Example find_ex3_rev : find_settings ex3 [[65%N]] None None true = (Some 4, Some 6)
  /\ has_all [[65%N]] (settings_at_nat ex3 3) = true.
Proof. split; reflexivity. Qed.
(* reverse search still prefers `start` when start lies between change points *)
Example find_ex3_rev_start : find_settings ex3 [[65%N]] (Some 5%Z) None true = (Some 5, Some 6).
Proof. reflexivity. Qed.

Example find_settings_spec_hyps :
  ssorted (tbl ex3) /\ [[65%N]] <> [] /\ exists a e, find_settings ex3 [[65%N]] None None false = (Some a, Some e).
Proof. split; [apply ex3_sorted|]. split; [discriminate|]. exists 1, 2. reflexivity. Qed.

(* COUNTEREXAMPLES for the last clause when want = []: the result is (start, end) and nothing is
   "no longer present" at end.  (a < e) fails when start = end; (has e = false) fails always. *)
Example find_settings_empty_want_eq :
  find_settings ex1 [] None (Some 0%Z) false = (Some 0, Some 0) /\ ~ (0 < 0).
Proof. split; [reflexivity|lia]. Qed.
Example find_settings_empty_want_has :
  find_settings ex1 [] None (Some 2%Z) false = (Some 0, Some 2) /\ 2 < length (base ex1) /\
  has_all [] (settings_at_nat ex1 2) = true.
Proof. split; [reflexivity|split; [cbn; lia|reflexivity]]. Qed.

(* ====================================================================== *)
(* 4. additional facts: the states at the returned change points, reverse search, closed strings *)
(* ====================================================================== *)
Lemma find_app_ {A} (f : A -> bool) l1 l2 :
  find f (l1 ++ l2) = match find f l1 with Some x => Some x | None => find f l2 end.
Proof. induction l1 as [|x l1 IH]; cbn [find app]; auto. destruct (f x); auto. Qed.

(* on a key-sorted list, `find` over the reversed list returns the match with the greatest key *)
Lemma find_rev_sorted_last (f : nat * point -> bool) l x : ssorted l -> find f (rev l) = Some x ->
  forall y, In y l -> fst x < fst y -> f y = false.
Proof.
  induction 1 as [|k p r Hk Hs IH]; cbn [rev]; [intros _ y []|].
  rewrite find_app_. destruct (find f (rev r)) as [x'|] eqn:F.
  - intros E; inversion E; subst x'. intros y [<-|Hy] Hlt.
    + exfalso. apply find_some in F as [Hin _]. apply in_rev in Hin. specialize (Hk x Hin). cbn [fst] in Hlt. lia.
    + now apply IH.
  - intros E y [<-|Hy] Hlt.
    + cbn [find] in E. destruct (f (k, p)) eqn:E2; auto.
      inversion E; subst x. cbn [fst] in Hlt. lia.
    + apply (find_none _ _ F). now apply in_rev in Hy.
Qed.

Section Points.
Variable t : fmts.
Variable want : list str.
Variables len i j : nat.
Hypothesis Hs : ssorted t.
Hypothesis Hw : want <> [].

Let tf := filter (inr i j) t.
Let hk (c : nat) : bool := has_all want (active_at t c).

(* the states at the returned positions themselves (no `< len` guard), and what reverse search selects *)
Theorem fcore_points (rv : bool) :
  let '(fs, fe) := fcore t want len i j rv in
  forall a, fs = Some a ->
    hk a = true /\
    ((tget i t = None /\ a = i /\ i < len) \/ (exists p, In (a, p) t)) /\
    (forall e, fe = Some e -> (exists p, In (e, p) t) /\ hk e = false) /\
    (rv = true -> (tget i t = None /\ a = i) \/
                  (forall c p, In (c, p) t -> a < c <= j -> hk c = false)).
Proof.
  unfold fcore. fold tf. fold hk.
  assert (Hend : forall a e,
     option_map fst (find (fun kp => (a <? fst kp) && negb (hk (fst kp))) tf) = Some e ->
     (exists p, In (e, p) t) /\ hk e = false).
  { intros a e E. destruct (find _ tf) as [y|] eqn:F; cbn [option_map] in E; [|discriminate].
    inversion E; subst e. apply find_some in F as [Hin Hf].
    apply andb_true_iff in Hf as [_ Hf]. apply negb_true_iff in Hf. split; auto.
    apply tf_In in Hin as [Hin _]. exists (snd y). now rewrite <- surjective_pairing. }
  assert (Hnokey : existsb (fun kp => Nat.eqb (fst kp) i) tf = false -> i <= j -> tget i t = None).
  { intros Ex Hij. destruct (tget i t) as [p|] eqn:E; auto. exfalso.
    apply (existsb_key_false t i j Ex (i, p)); auto. apply tf_In. cbn [fst]. split; [now apply tget_In|lia]. }
  assert (Hscan :
     let '(fs, fe) :=
       match option_map fst (find (fun kp => hk (fst kp)) (if rv then rev tf else tf)) with
       | None => (None, None)
       | Some a => (Some a, option_map fst (find (fun kp => (a <? fst kp) && negb (hk (fst kp))) tf))
       end in
     forall a, fs = Some a ->
       hk a = true /\
       ((tget i t = None /\ a = i /\ i < len) \/ (exists p, In (a, p) t)) /\
       (forall e, fe = Some e -> (exists p, In (e, p) t) /\ hk e = false) /\
       (rv = true -> (tget i t = None /\ a = i) \/
                     (forall c p, In (c, p) t -> a < c <= j -> hk c = false))).
  { destruct (find (fun kp => hk (fst kp)) (if rv then rev tf else tf)) as [x|] eqn:F; cbn [option_map];
      [|intros a; discriminate].
    intros a Ha. inversion Ha; subst a. clear Ha.
    destruct (proj1 (find_dir t i j _ rv) x F) as [Hin Hx]. fold tf in Hin.
    pose proof Hin as Hr. apply tf_In in Hr as [Hxt Hr].
    split; auto. split; [right; exists (snd x); now rewrite <- surjective_pairing|].
    split; [apply Hend|].
    intros ->. right. intros c p Hcp Hc.
    apply (find_rev_sorted_last _ _ _ (tf_sorted t i j Hs) F (c, p)); [|cbn [fst]; lia].
    apply tf_In. cbn [fst]. split; auto. lia. }
  destruct (existsb (fun kp => Nat.eqb (fst kp) i) tf) eqn:Ex; [exact Hscan|].
  destruct (has_all want (if i <? len then active_at t i else [])) eqn:Hi; [|exact Hscan].
  intros a Ha. inversion Ha; subst a. clear Ha.
  assert (Hil : i < len).
  { destruct (Nat.lt_ge_cases i len) as [|Hge]; auto. exfalso.
    replace (i <? len) with false in Hi by (symmetry; apply Nat.ltb_ge; lia).
    rewrite has_all_nil in Hi; auto. discriminate. }
  rewrite has_hk in Hi by auto. fold hk in Hi.
  destruct (Nat.le_gt_cases i j) as [Hij|Hji].
  - split; auto. split; [left; auto|]. split; [apply Hend|]. intros _. left. auto.
  - (* i > j: tf is empty; still i is not a key of tf; the model never calls fcore here, but the
       statement is total *)
    split; auto.
    destruct (tget i t) as [p|] eqn:E.
    + split; [right; exists p; now apply tget_In|]. split; [apply Hend|].
      intros _. right. intros c p' _ Hc. lia.
    + split; [left; auto|]. split; [apply Hend|]. intros _. left; auto.
Qed.

End Points.

Theorem find_settings_points (s : astr) (want : list str) (st en : option Z) (rv : bool) :
  ssorted (tbl s) -> want <> [] ->
  let len := length (base s) in
  let i := slice_idx len st 0 in
  let j := slice_idx len en len in
  let hk := fun c => has_all want (active_at (tbl s) c) in
  let '(fs, fe) := find_settings s want st en rv in
  forall a, fs = Some a ->
    hk a = true /\
    ((tget i (tbl s) = None /\ a = i /\ i < len) \/ (exists p, In (a, p) (tbl s))) /\
    (forall e, fe = Some e -> (exists p, In (e, p) (tbl s)) /\ hk e = false) /\
    (rv = true -> (tget i (tbl s) = None /\ a = i) \/
                  (forall c p, In (c, p) (tbl s) -> a < c <= j -> hk c = false)).
Proof.
  intros Hs Hw len i j hk.
  pose proof (find_settings_nf s want st en rv Hs) as Enf. cbv zeta in Enf. fold len i j in Enf.
  rewrite Enf. clear Enf.
  destruct (j <? i); [intros a; discriminate|].
  destruct (is_nil want) eqn:Ew; [destruct want; [congruence|discriminate]|].
  exact (fcore_points (tbl s) want len i j Hs Hw rv).
Qed.

Example find_settings_points_ex :
  ssorted (tbl ex3) /\ [[65%N]] <> [] /\
  find_settings ex3 [[65%N]] None None true = (Some 4, Some 6) /\
  has_all [[65%N]] (active_at (tbl ex3) 4) = true /\ has_all [[65%N]] (active_at (tbl ex3) 6) = false /\
  find_settings ex3 [[65%N]] (Some 5%Z) None true = (Some 5, Some 6) /\ tget 5 (tbl ex3) = None.
Proof. split; [apply ex3_sorted|]. split; [discriminate|]. repeat split. Qed.

(* on a closed string (nothing active after the last change point, all keys within the text) the
   start returned is a real character position *)
Corollary find_settings_start_lt_len (s : astr) (want : list str) (st en : option Z) (rv : bool) a fe :
  ssorted (tbl s) -> keys_le (tbl s) (length (base s)) -> final_active (tbl s) = [] -> want <> [] ->
  find_settings s want st en rv = (Some a, fe) ->
  a < length (base s) /\ has_all want (settings_at_nat s a) = true.
Proof.
  intros Hs Hk Hf Hw E.
  pose proof (find_settings_spec s want st en rv Hs) as H1. cbv zeta in H1. rewrite E in H1.
  destruct H1 as (_ & _ & _ & H1). destruct (H1 Hw a eq_refl) as (Hr & Hhas & _).
  pose proof (find_settings_points s want st en rv Hs Hw) as H2. cbv zeta in H2. rewrite E in H2.
  destruct (H2 a eq_refl) as (Hka & _).
  assert (Hjl : slice_idx (length (base s)) en (length (base s)) <= length (base s))
    by (apply slice_idx_le; lia).
  assert (Hlt : a < length (base s)).
  { destruct (Nat.lt_ge_cases a (length (base s))) as [|Hge]; auto. exfalso.
    assert (a = length (base s)) by lia. subst a.
    rewrite (active_beyond _ Hs _ Hk), Hf, has_all_nil in Hka; auto. discriminate. }
  split; auto.
Qed.

Example find_settings_start_lt_len_ex :
  ssorted (tbl ex2) /\ keys_le (tbl ex2) (length (base ex2)) /\ final_active (tbl ex2) = [] /\
  find_settings ex2 [[66%N]] None None true = (Some 2, Some 4).
Proof. split; [apply ex2_sorted|]. split; [apply ex2_keys|]. split; reflexivity. Qed.

(* without closedness the guard `a < len` of find_settings_spec is needed: a setting opened at
   key = len is found at a position where ansi_settings_at reports nothing *)
Definition ex5 : astr := mkA [97;98;99;100]%N [(1, mkP [exA] []); (4, mkP [exB] [])].
Example find_settings_start_at_len :
  find_settings ex5 [[66%N]] None None false = (Some 4, None) /\
  has_all [[66%N]] (settings_at_nat ex5 4) = false /\ final_active (tbl ex5) = [exA; exB].
Proof. repeat split. Qed.

Print Assumptions settings_at_out_of_range.
Print Assumptions settings_at_in_range.
Print Assumptions settings_at_nat_Z.
Print Assumptions active_at_const_between.
Print Assumptions find_settings_nf.
Print Assumptions find_settings_spec.
Print Assumptions find_settings_end_none.
Print Assumptions find_settings_points.
Print Assumptions find_settings_start_lt_len.
