(* Padding: ljust / rjust / center.  Text, per-character settings of the original characters and of
   the fill characters, sortedness, key bound and closedness of the result. *)
From AS Require Import Base.
From AS.Model Require Import Table Ops.
From AS.Proofs Require Import TableProofs SliceProofs.

Definition keys_le (t : fmts) (n : nat) : Prop := forall kp, In kp t -> fst kp <= n.
Definition wf (s : astr) : Prop :=
  ssorted (tbl s) /\ keys_le (tbl s) (length (base s)) /\ final_active (tbl s) = []
  /\ (forall p, tget 0 (tbl s) = Some p -> prem p = []).

Definition keys_lt (t : fmts) (n : nat) : Prop := forall kp, In kp t -> fst kp < n.

(* ---------- dictionary facts ---------- *)
Lemma tget_notin k t : (forall kp, In kp t -> fst kp <> k) -> tget k t = None.
Proof.
  induction t as [|[k' p'] t IH]; intros H; cbn [tget]; auto.
  assert (Hne : k' <> k) by (apply (H (k', p')); now left).
  replace (Nat.eqb k k') with false by (symmetry; apply Nat.eqb_neq; lia).
  destruct (k <? k'); auto. apply IH. intros kp Hin. apply H. now right.
Qed.

Lemma In_tget k p t : ssorted t -> In (k, p) t -> tget k t = Some p.
Proof.
  induction 1 as [|k' p' t Hk Hs IH]; intros Hin; [destruct Hin|].
  cbn [tget]. destruct Hin as [E|Hin].
  - inversion E; subst. now rewrite Nat.eqb_refl.
  - pose proof (Hk _ Hin) as Hlt. cbn [fst] in Hlt.
    replace (Nat.eqb k k') with false by (symmetry; apply Nat.eqb_neq; lia).
    replace (k <? k') with false by (symmetry; apply Nat.ltb_ge; lia). auto.
Qed.

Lemma keys_lt_tail kp t L : keys_lt (kp :: t) L -> keys_lt t L.
Proof. intros H x Hin. apply H. now right. Qed.

Lemma tget_snoc L p t0 : keys_lt t0 L -> tget L (t0 ++ [(L, p)]) = Some p.
Proof.
  induction t0 as [|[k' p'] t0 IH]; intros H; cbn [app tget].
  - now rewrite Nat.eqb_refl.
  - assert (Hlt : k' < L) by (apply (H (k', p')); now left).
    replace (Nat.eqb L k') with false by (symmetry; apply Nat.eqb_neq; lia).
    replace (L <? k') with false by (symmetry; apply Nat.ltb_ge; lia).
    apply IH. eapply keys_lt_tail; eauto.
Qed.

Lemma tdel_snoc L p t0 : keys_lt t0 L -> tdel L (t0 ++ [(L, p)]) = t0.
Proof.
  induction t0 as [|[k' p'] t0 IH]; intros H; cbn [app tdel].
  - now rewrite Nat.eqb_refl.
  - assert (Hlt : k' < L) by (apply (H (k', p')); now left).
    replace (Nat.eqb L k') with false by (symmetry; apply Nat.eqb_neq; lia).
    f_equal. apply IH. eapply keys_lt_tail; eauto.
Qed.

Lemma tput_snoc M p t0 : keys_lt t0 M -> tput M p t0 = t0 ++ [(M, p)].
Proof.
  induction t0 as [|[k' p'] t0 IH]; intros H; cbn [app tput]; auto.
  assert (Hlt : k' < M) by (apply (H (k', p')); now left).
  replace (Nat.eqb M k') with false by (symmetry; apply Nat.eqb_neq; lia).
  replace (M <? k') with false by (symmetry; apply Nat.ltb_ge; lia).
  f_equal. apply IH. eapply keys_lt_tail; eauto.
Qed.

Lemma tmove_snoc L M p t0 : keys_lt t0 L -> L <= M -> tmove L M (t0 ++ [(L, p)]) = t0 ++ [(M, p)].
Proof.
  intros H HLM. unfold tmove. rewrite tget_snoc, tdel_snoc by exact H.
  apply tput_snoc. intros kp Hin. specialize (H kp Hin). lia.
Qed.

(* a sorted table whose keys are bounded by L either has no key L, or ends with the point at L *)
Lemma last_decomp t L : ssorted t -> keys_le t L ->
  keys_lt t L \/ (exists t0 p, t = t0 ++ [(L, p)] /\ ssorted t0 /\ keys_lt t0 L).
Proof.
  induction 1 as [|k p t Hk Hs IH]; intros Hle.
  - left. intros kp [].
  - assert (Hle' : keys_le t L) by (intros kp Hin; apply Hle; now right).
    assert (HkL : k <= L) by (apply (Hle (k, p)); now left).
    destruct (IH Hle') as [Hlt | (t0 & q & E & Hs0 & Hlt)].
    + destruct (Nat.eq_dec k L) as [Ek|Hne].
      * right. subst k. exists [], p. destruct t as [|kp t].
        -- split; [reflexivity|]. split; [constructor|]. intros kp [].
        -- exfalso. pose proof (Hk kp (or_introl eq_refl)) as H1.
           pose proof (Hlt kp (or_introl eq_refl)) as H2. lia.
      * left. intros kp [<-|Hin]; cbn [fst]; [lia|auto].
    + right. subst t. exists ((k, p) :: t0), q. split; [reflexivity|]. split.
      * constructor; auto. intros kp Hin. apply Hk. apply in_or_app. now left.
      * intros kp [<-|Hin]; cbn [fst]; auto.
        assert (H1 : k < fst (L, q)) by (apply Hk; apply in_or_app; right; now left).
        cbn [fst] in H1. exact H1.
Qed.

Lemma upto_snoc_lt k X p t0 : k < X -> upto k (t0 ++ [(X, p)]) = upto k t0.
Proof.
  intros H. unfold upto. rewrite filter_app. cbn [filter fst].
  replace (X <=? k) with false by (symmetry; apply Nat.leb_gt; lia). apply app_nil_r.
Qed.

Lemma upto_all k t : keys_le t k -> upto k t = t.
Proof. intros H. unfold upto. apply filter_all_true. intros kp Hin. apply Nat.leb_le. auto. Qed.

Lemma ssorted_snoc t0 M p : ssorted t0 -> keys_lt t0 M -> ssorted (t0 ++ [(M, p)]).
Proof.
  intros Hs Hlt. apply ssorted_app; auto.
  - constructor; [intros kp []|constructor].
  - intros a b Ha [<-|[]]. cbn [fst]. auto.
Qed.

Lemma tget0_snoc X Y p t0 : 0 < X -> 0 < Y -> tget 0 (t0 ++ [(X, p)]) = tget 0 (t0 ++ [(Y, p)]).
Proof.
  intros HX HY. destruct t0 as [|[k q] r]; cbn [app tget].
  - destruct X; [lia|]. destruct Y; [lia|]. reflexivity.
  - destruct k; reflexivity.
Qed.

(* everything we need about moving the end marker *)
Lemma tmove_props t L M : ssorted t -> keys_le t L -> 0 < L -> L <= M ->
  ssorted (tmove L M t) /\ keys_le (tmove L M t) M
  /\ final_active (tmove L M t) = final_active t
  /\ tget 0 (tmove L M t) = tget 0 t
  /\ (forall k, k < L -> active_at (tmove L M t) k = active_at t k)
  /\ (forall k, L <= k < M -> active_at (tmove L M t) k = active_at t (L - 1)).
Proof.
  intros Hs Hle HL HLM.
  destruct (last_decomp t L Hs Hle) as [Hlt | (t0 & p & E & Hs0 & Hlt)].
  - assert (En : tget L t = None).
    { apply tget_notin. intros kp Hin. specialize (Hlt kp Hin). lia. }
    assert (Et : tmove L M t = t) by (unfold tmove; now rewrite En).
    rewrite Et. split; [exact Hs|]. split; [|split; [reflexivity|split; [reflexivity|split; [reflexivity|]]]].
    + intros kp Hin. specialize (Hle kp Hin). lia.
    + intros k Hk. rewrite (active_beyond t Hs k), (active_beyond t Hs (L - 1)); auto.
      * intros kp Hin. specialize (Hlt kp Hin). lia.
      * intros kp Hin. specialize (Hlt kp Hin). lia.
  - subst t. rewrite (tmove_snoc L M p t0 Hlt HLM).
    assert (HltM : keys_lt t0 M) by (intros kp Hin; specialize (Hlt kp Hin); lia).
    assert (Hs' : ssorted (t0 ++ [(M, p)])) by now apply ssorted_snoc.
    split; [exact Hs'|]. split; [|split; [|split; [|split]]].
    + intros kp Hin. apply in_app_or in Hin as [Hin|[<-|[]]]; cbn [fst]; auto.
      specialize (HltM kp Hin). lia.
    + change (run [] (t0 ++ [(M, p)]) = run [] (t0 ++ [(L, p)])). rewrite !run_app. reflexivity.
    + apply tget0_snoc; lia.
    + intros k Hk. rewrite !active_at_run by assumption.
      rewrite !upto_snoc_lt by lia. reflexivity.
    + intros k Hk. rewrite !active_at_run by assumption.
      rewrite !upto_snoc_lt by lia. rewrite !upto_all; auto.
      * intros kp Hin. specialize (Hlt kp Hin). lia.
      * intros kp Hin. specialize (Hlt kp Hin). lia.
Qed.

(* ---------- shifting keys ---------- *)
Definition sh (n : nat) (b : bool) (kp : nat * point) : nat * point :=
  if b && Nat.eqb (fst kp) 0 then kp else (fst kp + n, snd kp).

Lemma shift_idx_map n b t : shift_idx n b t = map (sh n b) t.
Proof. reflexivity. Qed.

Lemma sh_snd n b kp : snd (sh n b kp) = snd kp.
Proof. unfold sh. destruct (b && Nat.eqb (fst kp) 0); reflexivity. Qed.

Lemma sh_fst_mono n b x y : fst x < fst y -> fst (sh n b x) < fst (sh n b y).
Proof.
  intros H. unfold sh. destruct b; cbn [andb]; [|cbn [fst]; lia].
  destruct (Nat.eqb_spec (fst x) 0), (Nat.eqb_spec (fst y) 0); cbn [fst]; lia.
Qed.

Lemma sh_fst_le_iff n b kp k : fst (sh n b kp) <= n + k <-> fst kp <= k.
Proof.
  unfold sh. destruct b; cbn [andb]; [|cbn [fst]; lia].
  destruct (Nat.eqb_spec (fst kp) 0); cbn [fst]; lia.
Qed.

Lemma sh_fst_bounds n b kp : fst kp <= fst (sh n b kp) <= fst kp + n.
Proof.
  unfold sh. destruct b; cbn [andb]; [|cbn [fst]; lia].
  destruct (Nat.eqb_spec (fst kp) 0); cbn [fst]; lia.
Qed.

Lemma sh_fst_low n b kp k : k < n -> (fst (sh n b kp) <=? k) = b && (fst kp <=? 0).
Proof.
  intros Hk. unfold sh. destruct b; cbn [andb].
  - destruct (Nat.eqb_spec (fst kp) 0) as [E|E]; cbn [fst].
    + rewrite E. reflexivity.
    + replace (fst kp <=? 0) with false by (symmetry; apply Nat.leb_gt; lia).
      apply Nat.leb_gt. lia.
  - cbn [fst]. apply Nat.leb_gt. lia.
Qed.

Lemma shift_sorted n b t : ssorted t -> ssorted (shift_idx n b t).
Proof.
  rewrite shift_idx_map. induction 1 as [|k p t Hk Hs IH]; [constructor|].
  cbn [map]. destruct (sh n b (k, p)) as [k' p'] eqn:E. constructor; auto.
  intros kp Hin. apply in_map_iff in Hin as (kp0 & <- & Hin0).
  replace k' with (fst (sh n b (k, p))) by now rewrite E.
  apply sh_fst_mono. cbn [fst]. auto.
Qed.

Lemma upto_shift n b t k : upto (n + k) (shift_idx n b t) = shift_idx n b (upto k t).
Proof.
  rewrite !shift_idx_map. unfold upto. induction t as [|kp t IH]; [reflexivity|].
  cbn [map filter]. rewrite IH.
  assert (E : (fst (sh n b kp) <=? n + k) = (fst kp <=? k)).
  { apply Bool.eq_iff_eq_true. rewrite !Nat.leb_le. apply sh_fst_le_iff. }
  rewrite E. destruct (fst kp <=? k); reflexivity.
Qed.

Lemma upto_shift_low n b t k : k < n ->
  upto k (shift_idx n b t) = shift_idx n b (if b then upto 0 t else []).
Proof.
  intros Hk. rewrite !shift_idx_map. unfold upto.
  induction t as [|kp t IH]; [destruct b; reflexivity|].
  cbn [map filter]. rewrite IH, (sh_fst_low n b kp k Hk). destruct b; cbn [andb]; [|reflexivity].
  destruct (fst kp <=? 0); reflexivity.
Qed.

Lemma run_shift_idx a n b t : run a (shift_idx n b t) = run a t.
Proof.
  rewrite shift_idx_map. revert a. induction t as [|kp t IH]; intros a; [reflexivity|].
  cbn [map]. unfold run in *. cbn [fold_left]. rewrite IH. f_equal. unfold stepf. now rewrite sh_snd.
Qed.

Lemma shift_active n b t k : ssorted t -> active_at (shift_idx n b t) (n + k) = active_at t k.
Proof.
  intros Hs. rewrite (active_at_run (shift_idx n b t)) by now apply shift_sorted.
  rewrite (active_at_run t k Hs), upto_shift, run_shift_idx. reflexivity.
Qed.

Lemma shift_active_low n b t k : ssorted t -> k < n ->
  active_at (shift_idx n b t) k = if b then active_at t 0 else [].
Proof.
  intros Hs Hk. rewrite (active_at_run (shift_idx n b t)) by now apply shift_sorted.
  rewrite (upto_shift_low n b t k Hk), run_shift_idx.
  destruct b; [now rewrite (active_at_run t 0 Hs)|reflexivity].
Qed.

Lemma shift_keys n b t L : keys_le t L -> keys_le (shift_idx n b t) (L + n).
Proof.
  intros H kp Hin. rewrite shift_idx_map in Hin. apply in_map_iff in Hin as (kp0 & <- & Hin0).
  specialize (H kp0 Hin0). pose proof (sh_fst_bounds n b kp0) as Hb. lia.
Qed.

Lemma shift_final n b t : final_active (shift_idx n b t) = final_active t.
Proof. change (run [] (shift_idx n b t) = run [] t). apply run_shift_idx. Qed.

Lemma shift_tget0 n b t : ssorted t -> (forall p, tget 0 t = Some p -> prem p = []) ->
  forall p, tget 0 (shift_idx n b t) = Some p -> prem p = [].
Proof.
  intros Hs H0 p Hg. apply tget_In in Hg; [|now apply shift_sorted].
  rewrite shift_idx_map in Hg. apply in_map_iff in Hg as (kp0 & E & Hin0).
  pose proof (sh_fst_bounds n b kp0) as Hb. pose proof (sh_snd n b kp0) as Hsnd.
  rewrite E in Hb, Hsnd. cbn [fst snd] in Hb, Hsnd.
  apply H0. apply In_tget; auto. destruct kp0 as [k0 p0]. cbn [fst snd] in *.
  replace k0 with 0 in Hin0 by lia. now subst p.
Qed.

(* ---------- ljust ---------- *)
Lemma ljust_noop s width fill ext :
  (width <= Z.of_nat (length (base s)))%Z -> ljust s width fill ext = s.
Proof.
  intros H. unfold ljust.
  replace (0 <? width - Z.of_nat (length (base s)))%Z with false by (symmetry; apply Z.ltb_ge; lia).
  reflexivity.
Qed.

Theorem ljust_spec (s : astr) (width : Z) (fill : char) (ext : bool) :
  wf s -> 0 < length (base s) -> (Z.of_nat (length (base s)) < width)%Z ->
  let len := length (base s) in
  let n := Z.to_nat (width - Z.of_nat len) in
  let r := ljust s width fill ext in
  base r = base s ++ repeat fill n
  /\ (forall k, k < len -> active_at (tbl r) k = active_at (tbl s) k)
  /\ (forall k, len <= k < len + n ->
        active_at (tbl r) k = if ext then active_at (tbl s) (len - 1) else [])
  /\ ssorted (tbl r) /\ keys_le (tbl r) (len + n) /\ final_active (tbl r) = []
  /\ wf r.
Proof.
  intros (Hs & Hk & Hf & H0) Hlen Hw len n r.
  assert (Hn : 0 < n) by (unfold n, len; lia).
  assert (Er : r = mkA (base s ++ repeat fill n)
                       (if ext then tmove len (len + n) (tbl s) else tbl s)).
  { unfold r, ljust. fold len.
    replace (0 <? width - Z.of_nat len)%Z with true by (symmetry; apply Z.ltb_lt; lia).
    reflexivity. }
  rewrite Er. clear Er. unfold wf. cbn [base tbl]. rewrite app_length, repeat_length. fold len.
  destruct ext.
  - destruct (tmove_props (tbl s) len (len + n) Hs Hk Hlen ltac:(lia)) as (Ts & Tk & Tf & T0 & Ta & Tb).
    rewrite Tf, T0. repeat split; auto.
  - repeat split; auto.
    + intros k Hkk. rewrite active_beyond; auto. intros kp Hin. specialize (Hk kp Hin). fold len in Hk. lia.
    + intros kp Hin. specialize (Hk kp Hin). fold len in Hk. lia.
    + intros kp Hin. specialize (Hk kp Hin). fold len in Hk. lia.
Qed.

(* ---------- rjust ---------- *)
Lemma rjust_noop s width fill ext :
  (width <= Z.of_nat (length (base s)))%Z -> rjust s width fill ext = s.
Proof.
  intros H. unfold rjust.
  replace (0 <? width - Z.of_nat (length (base s)))%Z with false by (symmetry; apply Z.ltb_ge; lia).
  reflexivity.
Qed.

Theorem rjust_spec (s : astr) (width : Z) (fill : char) (ext : bool) :
  wf s -> 0 < length (base s) -> (Z.of_nat (length (base s)) < width)%Z ->
  let len := length (base s) in
  let n := Z.to_nat (width - Z.of_nat len) in
  let r := rjust s width fill ext in
  base r = repeat fill n ++ base s
  /\ (forall k, k < len -> active_at (tbl r) (n + k) = active_at (tbl s) k)
  /\ (forall k, k < n -> active_at (tbl r) k = if ext then active_at (tbl s) 0 else [])
  /\ ssorted (tbl r) /\ keys_le (tbl r) (len + n) /\ final_active (tbl r) = []
  /\ wf r.
Proof.
  intros (Hs & Hk & Hf & H0) Hlen Hw len n r.
  assert (Hn : 0 < n) by (unfold n, len; lia).
  assert (Er : r = mkA (repeat fill n ++ base s) (shift_idx n ext (tbl s))).
  { unfold r, rjust. fold len.
    replace (0 <? width - Z.of_nat len)%Z with true by (symmetry; apply Z.ltb_lt; lia).
    reflexivity. }
  rewrite Er. clear Er. unfold wf. cbn [base tbl]. rewrite app_length, repeat_length. fold len.
  assert (Ts : ssorted (shift_idx n ext (tbl s))) by now apply shift_sorted.
  assert (Tk : keys_le (shift_idx n ext (tbl s)) (len + n)) by now apply shift_keys.
  assert (Tk' : keys_le (shift_idx n ext (tbl s)) (n + len)) by (replace (n + len) with (len + n) by lia; exact Tk).
  assert (Tf : final_active (shift_idx n ext (tbl s)) = []) by now rewrite shift_final.
  assert (T0 : forall p, tget 0 (shift_idx n ext (tbl s)) = Some p -> prem p = []) by now apply shift_tget0.
  repeat split; auto.
  - intros k Hkk. now apply shift_active.
  - intros k Hkk. now apply shift_active_low.
Qed.

(* ---------- center ---------- *)
Lemma center_noop s width fill ext :
  (width <= Z.of_nat (length (base s)))%Z -> center s width fill ext = s.
Proof.
  intros H. unfold center.
  replace (0 <? width - Z.of_nat (length (base s)))%Z with false by (symmetry; apply Z.ltb_ge; lia).
  reflexivity.
Qed.

Lemma div2_lt n : 0 < n -> Nat.div2 n < n.
Proof. intros H. apply Nat.lt_div2. exact H. Qed.

Theorem center_spec (s : astr) (width : Z) (fill : char) (ext : bool) :
  wf s -> 0 < length (base s) -> (Z.of_nat (length (base s)) < width)%Z ->
  let len := length (base s) in
  let n := Z.to_nat (width - Z.of_nat len) in
  let left := Nat.div2 n in
  let right := n - left in
  let r := center s width fill ext in
  base r = repeat fill left ++ base s ++ repeat fill right
  /\ (forall k, k < len -> active_at (tbl r) (left + k) = active_at (tbl s) k)
  /\ (forall k, k < left -> active_at (tbl r) k = if ext then active_at (tbl s) 0 else [])
  /\ (forall k, left + len <= k < len + n ->
        active_at (tbl r) k = if ext then active_at (tbl s) (len - 1) else [])
  /\ ssorted (tbl r) /\ keys_le (tbl r) (len + n) /\ final_active (tbl r) = []
  /\ wf r.
Proof.
  intros (Hs & Hk & Hf & H0) Hlen Hw len n left right r.
  assert (Hn : 0 < n) by (unfold n, len; lia).
  assert (Hl : left < n) by (apply div2_lt; exact Hn).
  assert (Er : r = mkA (repeat fill left ++ base s ++ repeat fill right)
                       (if ext then tmove (len + left) (len + n) (shift_idx left ext (tbl s))
                        else shift_idx left ext (tbl s))).
  { unfold r, center. fold len.
    replace (0 <? width - Z.of_nat len)%Z with true by (symmetry; apply Z.ltb_lt; lia).
    reflexivity. }
  rewrite Er. clear Er. unfold wf. cbn [base tbl]. rewrite !app_length, !repeat_length. fold len.
  replace (left + (len + right)) with (len + n) by (unfold right; lia).
  set (t1 := shift_idx left ext (tbl s)).
  assert (Ts : ssorted t1) by now apply shift_sorted.
  assert (Tk : keys_le t1 (len + left)) by now apply shift_keys.
  assert (Tf : final_active t1 = []) by (unfold t1; now rewrite shift_final).
  assert (T0 : forall p, tget 0 t1 = Some p -> prem p = []) by now apply shift_tget0.
  destruct ext.
  - destruct (tmove_props t1 (len + left) (len + n) Ts Tk ltac:(lia) ltac:(lia))
      as (Ms & Mk & Mf & M0 & Ma & Mb).
    rewrite Mf, M0.
    assert (A1 : forall k, k < len -> active_at (tmove (len + left) (len + n) t1) (left + k) = active_at (tbl s) k).
    { intros k Hkk. rewrite Ma by lia. unfold t1. now apply shift_active. }
    assert (A2 : forall k, k < left -> active_at (tmove (len + left) (len + n) t1) k = active_at (tbl s) 0).
    { intros k Hkk. rewrite Ma by lia. unfold t1. now rewrite shift_active_low. }
    assert (A3 : forall k, left + len <= k < len + n ->
                 active_at (tmove (len + left) (len + n) t1) k = active_at (tbl s) (len - 1)).
    { intros k Hkk. rewrite Mb by lia. replace (len + left - 1) with (left + (len - 1)) by lia.
      unfold t1. now apply shift_active. }
    repeat split; auto.
  - assert (A1 : forall k, k < len -> active_at t1 (left + k) = active_at (tbl s) k).
    { intros k Hkk. unfold t1. now apply shift_active. }
    assert (A2 : forall k, k < left -> active_at t1 k = []).
    { intros k Hkk. unfold t1. now rewrite shift_active_low. }
    assert (A3 : forall k, left + len <= k < len + n -> active_at t1 k = []).
    { intros k Hkk. rewrite active_beyond; auto. intros kp Hin. specialize (Tk kp Hin). lia. }
    assert (Tk' : keys_le t1 (len + n)) by (intros kp Hin; specialize (Tk kp Hin); lia).
    repeat split; auto.
Qed.

Print Assumptions ljust_spec.
Print Assumptions rjust_spec.
Print Assumptions center_spec.
