(* C16: format_matching / unformat_matching -- characters outside all matches keep their settings
   (the same setting objects in the same order); inside a match the new settings are put on top
   (apply) resp. the selected settings disappear (remove); for disjoint matches each match gets
   what the single application of its span gives. *)
From AS Require Import Base Effects.
From AS.Model Require Import Sgr Table Ops Scrub Parse Exec.
From AS.Proofs Require Import TableProofs BasicProofs MatchProofs ApplyProofs InvariantProofs.
From AS.Proofs Require RemoveProofs.

(* ====================================================================== *)
(* 0. Spans, their normalised range, "outside"                             *)
(* ====================================================================== *)
Definition span_lo (len : nat) (sp : Z * Z) : nat := slice_idx len (Some (fst sp)) 0.
Definition span_hi (len : nat) (sp : Z * Z) : nat := slice_idx len (Some (snd sp)) len.

Definition outside (len : nat) (spans : list (Z * Z)) (k : nat) : Prop :=
  forall sp, In sp spans ->
    let i := slice_idx len (Some (fst sp)) 0 in
    let j := slice_idx len (Some (snd sp)) len in
    k < i \/ j <= k.

Definition inside (len : nat) (sp : Z * Z) (k : nat) : Prop := span_lo len sp <= k < span_hi len sp.

(* spans as Python's re produces them: 0 <= s <= e <= len; their normalised range is (s, e) itself *)
Definition re_span (len : nat) (sp : Z * Z) : Prop := (0 <= fst sp <= snd sp)%Z /\ (snd sp <= Z.of_nat len)%Z.

Lemma re_span_idx len sp : re_span len sp ->
  span_lo len sp = Z.to_nat (fst sp) /\ span_hi len sp = Z.to_nat (snd sp).
Proof.
  intros ((H1 & H2) & H3). unfold span_lo, span_hi, slice_idx.
  destruct (Z.ltb_spec (fst sp) 0); [lia|]. destruct (Z.ltb_spec (snd sp) 0); [lia|].
  split; f_equal; lia.
Qed.

Lemma re_span_range len sp : re_span len sp -> span_lo len sp <= span_hi len sp <= len.
Proof. intros H. destruct (re_span_idx len sp H) as [-> ->]. destruct H as ((H1 & H2) & H3). lia. Qed.

Lemma outside_nil len k : outside len [] k.
Proof. intros sp []. Qed.
Lemma outside_cons len sp spans k :
  outside len (sp :: spans) k <-> (k < span_lo len sp \/ span_hi len sp <= k) /\ outside len spans k.
Proof.
  split.
  - intros H. split; [apply (H sp); now left|]. intros q Hq. apply H. now right.
  - intros [H1 H2] q [<-|Hq]; [exact H1|now apply H2].
Qed.
Lemma outside_app len l1 l2 k : outside len (l1 ++ l2) k <-> outside len l1 k /\ outside len l2 k.
Proof.
  split.
  - intros H. split; intros q Hq; apply H; apply in_or_app; auto.
  - intros [H1 H2] q Hq. apply in_app_or in Hq as [Hq|Hq]; [now apply H1|now apply H2].
Qed.
(* an empty match (s = e, as "a*" produces) has nothing inside *)
Lemma outside_empty_span len sp k : span_hi len sp <= span_lo len sp -> k < span_lo len sp \/ span_hi len sp <= k.
Proof. lia. Qed.

(* ====================================================================== *)
(* 1. One step of the loops                                                *)
(* ====================================================================== *)
Lemma do_apply_cases a fm st en top nid a' nid' : do_apply a fm st en top nid = OK (a', nid') ->
  (a' = a /\ nid' = nid)
  \/ exists texts, scrub fm = OK texts /\ form_falsy fm = false
       /\ range_empty (length (base a)) (slice_idx (length (base a)) st 0)
                      (slice_idx (length (base a)) en (length (base a))) = false
       /\ a' = apply_fmt a (fst (fresh texts nid)) st en top /\ nid' = nid + length texts.
Proof.
  unfold do_apply. destruct (form_falsy fm) eqn:Ef; cbn [orb].
  - intros E; inversion E; auto.
  - destruct (range_empty _ _ _) eqn:Er.
    + intros E; inversion E; auto.
    + destruct (scrub fm) as [texts|e]; cbn [bind]; [|discriminate].
      destruct (fresh texts nid) as [news n2] eqn:Efr. intros E; inversion E; subst.
      right. exists texts. repeat split; auto.
      * now rewrite Efr.
      * pose proof (fresh_snd texts nid) as Q. now rewrite Efr in Q.
Qed.

Definition sel_of (fm : option form) (sel : option (list str)) : Prop :=
  match fm with
  | None => sel = None
  | Some f => exists texts, scrub f = OK texts /\ sel = Some texts
  end.
Definition optform_falsy (fm : option form) : bool := match fm with Some f => form_falsy f | None => false end.

Lemma do_remove_cases a fm st en a' : do_remove a fm st en = OK a' ->
  a' = a
  \/ exists sel, sel_of fm sel /\ optform_falsy fm = false
       /\ range_empty (length (base a)) (slice_idx (length (base a)) st 0)
                      (slice_idx (length (base a)) en (length (base a))) = false
       /\ a' = remove_fmt a sel st en.
Proof.
  unfold do_remove. fold (optform_falsy fm). destruct (optform_falsy fm) eqn:Ef; cbn [orb].
  - intros E; inversion E; auto.
  - destruct (range_empty _ _ _) eqn:Er.
    + intros E; inversion E; auto.
    + destruct fm as [f|].
      * destruct (scrub f) as [texts|e] eqn:Es; cbn [bind]; [|discriminate]. intros E; inversion E; subst.
        right. exists (Some texts). repeat split; auto. cbn [sel_of]. rewrite Es. now exists texts.
      * intros E; inversion E; subst. right. exists None. repeat split; auto.
Qed.

(* the frame of one apply step *)
Lemma do_apply_outside f nid a fm st en top a' nid' :
  good f nid a -> do_apply a fm st en top nid = OK (a', nid') ->
  forall k, k < slice_idx (length (base a)) st 0 \/ slice_idx (length (base a)) en (length (base a)) <= k ->
  active_at (tbl a') k = active_at (tbl a) k.
Proof.
  intros (W & B & C) E k Hk. apply do_apply_cases in E as [[-> ->]|(texts & Es & Ef & Er & -> & ->)]; [reflexivity|].
  destruct W as (Hs & Hk' & Hst & Hnd & Hfin).
  apply apply_fmt_outside; auto. now apply fresh_fresh_for.
Qed.

(* the frame of one remove step *)
Lemma do_remove_outside a fm st en a' :
  WFv a -> do_remove a fm st en = OK a' ->
  forall k, k < slice_idx (length (base a)) st 0 \/ slice_idx (length (base a)) en (length (base a)) <= k ->
  active_at (tbl a') k = active_at (tbl a) k.
Proof.
  intros W E k Hk. apply do_remove_cases in E as [->|(sel & Hsel & Ef & Er & ->)]; [reflexivity|].
  apply WFv_rm_wf in W.
  destruct (RemoveProofs.remove_fmt_spec a sel st en W Er) as (_ & H1 & _ & H3 & _).
  destruct Hk as [Hk|Hk]; [now apply H1|now apply H3].
Qed.

(* ====================================================================== *)
(* 2. The loops split over concatenation                                   *)
(* ====================================================================== *)
Lemma apply_spans_cons a fm sp spans nid :
  apply_spans a fm (sp :: spans) nid
  = (do (a1, n1) <- do_apply a fm (Some (fst sp)) (Some (snd sp)) true nid; apply_spans a1 fm spans n1).
Proof.
  unfold apply_spans. cbn [fold_left bind].
  destruct (do_apply a fm (Some (fst sp)) (Some (snd sp)) true nid) as [[a1 n1]|e]; [reflexivity|].
  now rewrite MatchProofs.fold_err.
Qed.

Lemma remove_spans_cons a fm sp spans :
  remove_spans a fm (sp :: spans)
  = (do a1 <- do_remove a fm (Some (fst sp)) (Some (snd sp)); remove_spans a1 fm spans).
Proof.
  unfold remove_spans. cbn [fold_left bind].
  destruct (do_remove a fm (Some (fst sp)) (Some (snd sp))) as [a1|e]; [reflexivity|].
  now rewrite MatchProofs.fold_err.
Qed.

Lemma apply_spans_app fm l1 : forall l2 a nid,
  apply_spans a fm (l1 ++ l2) nid = (do (a1, n1) <- apply_spans a fm l1 nid; apply_spans a1 fm l2 n1).
Proof.
  induction l1 as [|sp l1 IH]; intros l2 a nid.
  - reflexivity.
  - cbn [app]. rewrite !apply_spans_cons.
    destruct (do_apply a fm (Some (fst sp)) (Some (snd sp)) true nid) as [[a1 n1]|e]; cbn [bind]; [apply IH|reflexivity].
Qed.

Lemma remove_spans_app fm l1 : forall l2 a,
  remove_spans a fm (l1 ++ l2) = (do a1 <- remove_spans a fm l1; remove_spans a1 fm l2).
Proof.
  induction l1 as [|sp l1 IH]; intros l2 a.
  - reflexivity.
  - cbn [app]. rewrite !remove_spans_cons.
    destruct (do_remove a fm (Some (fst sp)) (Some (snd sp))) as [a1|e]; cbn [bind]; [apply IH|reflexivity].
Qed.

(* ====================================================================== *)
(* 3. Theorem 1: format_matching leaves everything outside the matches     *)
(* ====================================================================== *)
Theorem apply_spans_alloc fm : forall spans f a nid a' nid',
  good f nid a -> apply_spans a fm spans nid = OK (a', nid') -> alloc f nid a' nid'.
Proof.
  induction spans as [|sp spans IH]; intros f a nid a' nid' G E.
  - inversion E; subst. now apply alloc_refl.
  - rewrite apply_spans_cons in E.
    destruct (do_apply a fm (Some (fst sp)) (Some (snd sp)) true nid) as [[a1 n1]|e] eqn:E1; cbn [bind] in E; [|discriminate].
    destruct (do_apply_alloc _ _ _ _ _ _ _ _ _ G E1) as (f1 & X1 & L1 & G1).
    apply (alloc_trans f nid n1). exists f1. split; [exact X1|]. split; [exact L1|]. eapply IH; eauto.
Qed.

Theorem apply_spans_outside fm : forall spans f a nid a' nid',
  good f nid a -> apply_spans a fm spans nid = OK (a', nid') ->
  forall k, outside (length (base a)) spans k -> active_at (tbl a') k = active_at (tbl a) k.
Proof.
  induction spans as [|sp spans IH]; intros f a nid a' nid' G E k Ho.
  - inversion E; subst. reflexivity.
  - rewrite apply_spans_cons in E.
    destruct (do_apply a fm (Some (fst sp)) (Some (snd sp)) true nid) as [[a1 n1]|e] eqn:E1; cbn [bind] in E; [|discriminate].
    apply outside_cons in Ho as [Ho1 Ho2].
    destruct (do_apply_alloc _ _ _ _ _ _ _ _ _ G E1) as (f1 & X1 & L1 & G1).
    assert (Eb : base a1 = base a) by (eapply do_apply_base; eauto).
    rewrite (IH f1 a1 n1 a' nid' G1 E k) by (now rewrite Eb).
    eapply do_apply_outside; eauto.
Qed.

(* the three parts together *)
Theorem format_matching_outside f nid a fm spans a' nid' :
  good f nid a -> apply_spans a fm spans nid = OK (a', nid') ->
  base a' = base a
  /\ (exists f', ext nid f f' /\ nid <= nid' /\ good f' nid' a')
  /\ forall k, outside (length (base a)) spans k -> active_at (tbl a') k = active_at (tbl a) k.
Proof.
  intros G E. split; [eapply apply_spans_base; eauto|].
  split; [eapply apply_spans_alloc; eauto|]. eapply apply_spans_outside; eauto.
Qed.

(* ====================================================================== *)
(* 4. Theorem 2: unformat_matching leaves everything outside the matches   *)
(* ====================================================================== *)
Theorem remove_spans_good fm f n : forall spans a a',
  good f n a -> remove_spans a fm spans = OK a' -> good f n a'.
Proof.
  induction spans as [|sp spans IH]; intros a a' G E.
  - inversion E; subst. exact G.
  - rewrite remove_spans_cons in E.
    destruct (do_remove a fm (Some (fst sp)) (Some (snd sp))) as [a1|e] eqn:E1; cbn [bind] in E; [|discriminate].
    eapply IH; [|exact E]. eapply do_remove_good; eauto.
Qed.

Theorem remove_spans_outside fm f n : forall spans a a',
  good f n a -> remove_spans a fm spans = OK a' ->
  forall k, outside (length (base a)) spans k -> active_at (tbl a') k = active_at (tbl a) k.
Proof.
  induction spans as [|sp spans IH]; intros a a' G E k Ho.
  - inversion E; subst. reflexivity.
  - rewrite remove_spans_cons in E.
    destruct (do_remove a fm (Some (fst sp)) (Some (snd sp))) as [a1|e] eqn:E1; cbn [bind] in E; [|discriminate].
    apply outside_cons in Ho as [Ho1 Ho2].
    assert (G1 : good f n a1) by (eapply do_remove_good; eauto).
    assert (Eb : base a1 = base a) by (eapply do_remove_base; eauto).
    rewrite (IH a1 a' G1 E k) by (now rewrite Eb).
    eapply do_remove_outside; eauto. apply G.
Qed.

Theorem unformat_matching_outside f n a fm spans a' :
  good f n a -> remove_spans a fm spans = OK a' ->
  base a' = base a /\ good f n a'
  /\ forall k, outside (length (base a)) spans k -> active_at (tbl a') k = active_at (tbl a) k.
Proof.
  intros G E. split; [eapply remove_spans_base; eauto|].
  split; [eapply remove_spans_good; eauto|]. eapply remove_spans_outside; eauto.
Qed.

(* ====================================================================== *)
(* 5. Theorem 3: inside a single match                                     *)
(* ====================================================================== *)
Lemma apply_spans_one a fm sp nid : apply_spans a fm [sp] nid = do_apply a fm (Some (fst sp)) (Some (snd sp)) true nid.
Proof. unfold apply_spans. cbn [fold_left bind]. now destruct (do_apply _ _ _ _ _ _) as [[? ?]|?]. Qed.
Lemma remove_spans_one a fm sp : remove_spans a fm [sp] = do_remove a fm (Some (fst sp)) (Some (snd sp)).
Proof. unfold remove_spans. cbn [fold_left bind]. now destruct (do_remove _ _ _ _) as [?|?]. Qed.

(* a single successful application with a truthy form and a non-empty range is apply_fmt with
   fresh objects *)
Lemma apply_span_value a fm sp nid texts a' nid' :
  form_falsy fm = false -> scrub fm = OK texts ->
  range_empty (length (base a)) (span_lo (length (base a)) sp) (span_hi (length (base a)) sp) = false ->
  apply_spans a fm [sp] nid = OK (a', nid') ->
  a' = apply_fmt a (fst (fresh texts nid)) (Some (fst sp)) (Some (snd sp)) true /\ nid' = nid + length texts.
Proof.
  intros Hf Hs Hr E. rewrite apply_spans_one in E. unfold span_lo, span_hi in Hr.
  unfold do_apply in E. rewrite Hf, Hr, Hs in E. cbn [orb bind] in E.
  destruct (fresh texts nid) as [news n2] eqn:Efr. inversion E; subst. split; [reflexivity|].
  pose proof (fresh_snd texts nid) as Q. now rewrite Efr in Q.
Qed.

Theorem apply_span_inside f nid a fm sp texts a' nid' :
  good f nid a -> form_falsy fm = false -> scrub fm = OK texts -> texts <> [] ->
  range_empty (length (base a)) (span_lo (length (base a)) sp) (span_hi (length (base a)) sp) = false ->
  apply_spans a fm [sp] nid = OK (a', nid') ->
  let new := fst (fresh texts nid) in
  map stxt new = texts /\ nid' = nid + length texts /\
  forall k, inside (length (base a)) sp k ->
  exists l1 l2,
    active_at (tbl a) k = l1 ++ l2
    /\ active_at (tbl a') k = l1 ++ new ++ l2
    /\ (forall x, In x l1 -> In x (active_at (tbl a) (span_lo (length (base a)) sp)))
    /\ (k = span_lo (length (base a)) sp -> l2 = [])
    /\ ((forall kp, In kp (tbl a) -> span_lo (length (base a)) sp < fst kp <= k -> padd (snd kp) = []) -> l2 = []).
Proof.
  intros (W & B & C) Hf Hs Hne Hr E new.
  destruct (apply_span_value _ _ _ _ _ _ _ Hf Hs Hr E) as [-> ->].
  split; [apply fresh_txts|]. split; [reflexivity|]. intros k Hk.
  destruct W as (Hso & _).
  apply (apply_fmt_inside_top a new (Some (fst sp)) (Some (snd sp)) true); auto.
  - now apply fresh_fresh_for.
  - unfold new. intros H. apply fresh_is_nil in H. contradiction.
Qed.

(* the first character of the match, and every character when no setting starts strictly inside
   the match before it: the new settings are the last (topmost) ones *)
Corollary apply_span_inside_first f nid a fm sp texts a' nid' :
  good f nid a -> form_falsy fm = false -> scrub fm = OK texts -> texts <> [] ->
  range_empty (length (base a)) (span_lo (length (base a)) sp) (span_hi (length (base a)) sp) = false ->
  apply_spans a fm [sp] nid = OK (a', nid') ->
  active_at (tbl a') (span_lo (length (base a)) sp)
  = active_at (tbl a) (span_lo (length (base a)) sp) ++ fst (fresh texts nid).
Proof.
  intros G Hf Hs Hne Hr E.
  destruct (apply_span_inside _ _ _ _ _ _ _ _ G Hf Hs Hne Hr E) as (_ & _ & H).
  assert (Hin : inside (length (base a)) sp (span_lo (length (base a)) sp)).
  { unfold inside. unfold range_empty in Hr. apply orb_false_iff in Hr as [_ Hr]. apply Nat.leb_gt in Hr. lia. }
  destruct (H _ Hin) as (l1 & l2 & E1 & E2 & _ & E4 & _). rewrite (E4 eq_refl) in *.
  rewrite E2, E1. now rewrite !app_nil_r.
Qed.

Theorem remove_span_inside f n a fm sel sp a' :
  good f n a -> optform_falsy fm = false -> sel_of fm sel ->
  range_empty (length (base a)) (span_lo (length (base a)) sp) (span_hi (length (base a)) sp) = false ->
  remove_spans a fm [sp] = OK a' ->
  a' = remove_fmt a sel (Some (fst sp)) (Some (snd sp))
  /\ forall k, inside (length (base a)) sp k ->
       active_at (tbl a') k = RemoveProofs.keep sel (active_at (tbl a) k).
Proof.
  intros (W & _) Hf Hsel Hr E. rewrite remove_spans_one in E. unfold span_lo, span_hi in Hr.
  assert (Ea : a' = remove_fmt a sel (Some (fst sp)) (Some (snd sp))).
  { unfold do_remove in E. fold (optform_falsy fm) in E. rewrite Hf, Hr in E. cbn [orb] in E.
    destruct fm as [fm|]; cbn [sel_of] in Hsel.
    - destruct Hsel as (texts & Hs & ->). rewrite Hs in E. cbn [bind] in E. now inversion E.
    - subst sel. now inversion E. }
  split; [exact Ea|]. subst a'. intros k Hk.
  apply WFv_rm_wf in W.
  destruct (RemoveProofs.remove_fmt_spec a sel (Some (fst sp)) (Some (snd sp)) W Hr) as (_ & _ & H2 & _).
  now apply H2.
Qed.

(* a falsy form or an empty match changes nothing at all *)
Lemma apply_span_noop a fm sp nid :
  form_falsy fm = true \/ range_empty (length (base a)) (span_lo (length (base a)) sp) (span_hi (length (base a)) sp) = true ->
  apply_spans a fm [sp] nid = OK (a, nid).
Proof.
  intros H. rewrite apply_spans_one. unfold do_apply. unfold span_lo, span_hi in H.
  destruct H as [->| ->]; [reflexivity|]. now rewrite orb_true_r.
Qed.
Lemma remove_span_noop a fm sp :
  optform_falsy fm = true \/ range_empty (length (base a)) (span_lo (length (base a)) sp) (span_hi (length (base a)) sp) = true ->
  remove_spans a fm [sp] = OK a.
Proof.
  intros H. rewrite remove_spans_one. unfold do_remove. fold (optform_falsy fm). unfold span_lo, span_hi in H.
  destruct H as [->| ->]; [reflexivity|]. now rewrite orb_true_r.
Qed.

(* how many identities the loop allocates: one batch per non-empty match *)
Definition nonempty_count (len : nat) (spans : list (Z * Z)) : nat :=
  length (filter (fun sp => negb (range_empty len (span_lo len sp) (span_hi len sp))) spans).

Lemma apply_spans_nid fm texts : form_falsy fm = false -> scrub fm = OK texts ->
  forall spans a nid a' nid', apply_spans a fm spans nid = OK (a', nid') ->
  nid' = nid + length texts * nonempty_count (length (base a)) spans.
Proof.
  intros Hf Hs. induction spans as [|sp spans IH]; intros a nid a' nid' E.
  - inversion E; subst. unfold nonempty_count. cbn [filter length]. lia.
  - rewrite apply_spans_cons in E.
    destruct (do_apply a fm (Some (fst sp)) (Some (snd sp)) true nid) as [[a1 n1]|e] eqn:E1; cbn [bind] in E; [|discriminate].
    pose proof (do_apply_base _ _ _ _ _ _ _ _ E1) as B1.
    apply IH in E. rewrite B1 in E. subst nid'.
    unfold nonempty_count. cbn [filter]. fold (nonempty_count (length (base a)) spans).
    unfold do_apply in E1. rewrite Hf, Hs in E1. cbn [orb bind] in E1.
    fold (span_lo (length (base a)) sp) (span_hi (length (base a)) sp) in E1.
    destruct (range_empty _ _ _); cbn [negb length].
    + inversion E1; subst. unfold nonempty_count. lia.
    + destruct (fresh texts nid) as [news n2] eqn:Efr. inversion E1; subst.
      pose proof (fresh_snd texts nid) as Q. rewrite Efr in Q. cbn [snd] in Q. unfold nonempty_count. lia.
Qed.

(* ====================================================================== *)
(* 6. Theorem 4: pairwise disjoint matches                                 *)
(* ====================================================================== *)
(* as re.finditer yields them: increasing and non-overlapping *)
Fixpoint ordered (len : nat) (spans : list (Z * Z)) : Prop :=
  match spans with
  | [] => True
  | sp :: rest => (forall q, In q rest -> span_hi len sp <= span_lo len q) /\ ordered len rest
  end.

Lemma ordered_app len l1 : forall l2, ordered len (l1 ++ l2) ->
  ordered len l1 /\ ordered len l2 /\ forall p q, In p l1 -> In q l2 -> span_hi len p <= span_lo len q.
Proof.
  induction l1 as [|sp l1 IH]; intros l2 H; cbn [app ordered] in *.
  - repeat split; auto. intros p q [].
  - destruct H as [H1 H2]. apply IH in H2 as (I1 & I2 & I3). split; [split; auto|].
    + intros q Hq. apply H1. apply in_or_app; auto.
    + split; auto. intros p q [<-|Hp] Hq; [apply H1; apply in_or_app; auto|now apply I3].
Qed.

Lemma ordered_outside len pre sp post k :
  ordered len (pre ++ sp :: post) -> inside len sp k -> outside len pre k /\ outside len post k.
Proof.
  intros H [Hk1 Hk2]. apply ordered_app in H as (_ & H2 & H3). cbn [ordered] in H2. destruct H2 as [H2 _].
  split; intros q Hq; cbv zeta; fold (span_lo len q) (span_hi len q).
  - right. specialize (H3 q sp Hq (or_introl eq_refl)). lia.
  - left. specialize (H2 q Hq). lia.
Qed.

(* the general form: whatever happens inside span m, the other spans (those that do not contain
   k) do not contribute *)
Theorem apply_spans_only f nid a fm pre sp post a' nid' k :
  good f nid a -> apply_spans a fm (pre ++ sp :: post) nid = OK (a', nid') ->
  outside (length (base a)) pre k -> outside (length (base a)) post k ->
  exists a1 n1 a2 n2,
    apply_spans a fm pre nid = OK (a1, n1) /\ apply_spans a1 fm [sp] n1 = OK (a2, n2)
    /\ alloc f nid a1 n1 /\ base a1 = base a
    /\ active_at (tbl a1) k = active_at (tbl a) k
    /\ active_at (tbl a') k = active_at (tbl a2) k.
Proof.
  intros G E Hpre Hpost. rewrite apply_spans_app in E.
  destruct (apply_spans a fm pre nid) as [[a1 n1]|e] eqn:E1; cbn [bind] in E; [|discriminate].
  change (sp :: post) with ([sp] ++ post) in E. rewrite apply_spans_app in E.
  destruct (apply_spans a1 fm [sp] n1) as [[a2 n2]|e] eqn:E2; cbn [bind] in E; [|discriminate].
  exists a1, n1, a2, n2.
  pose proof (apply_spans_alloc _ _ _ _ _ _ _ G E1) as A1.
  pose proof (apply_spans_base _ _ _ _ _ _ E1) as B1.
  pose proof (apply_spans_base _ _ _ _ _ _ E2) as B2.
  split; [reflexivity|]. split; [exact E2|]. split; [exact A1|]. split; [exact B1|].
  split; [eapply apply_spans_outside; eauto|].
  destruct A1 as (f1 & X1 & L1 & G1).
  destruct (apply_spans_alloc _ _ _ _ _ _ _ G1 E2) as (f2 & X2 & L2 & G2).
  eapply apply_spans_outside; eauto. now rewrite B2, B1.
Qed.

Theorem remove_spans_only f n a fm pre sp post a' k :
  good f n a -> remove_spans a fm (pre ++ sp :: post) = OK a' ->
  outside (length (base a)) pre k -> outside (length (base a)) post k ->
  exists a1 a2,
    remove_spans a fm pre = OK a1 /\ remove_spans a1 fm [sp] = OK a2
    /\ good f n a1 /\ base a1 = base a
    /\ active_at (tbl a1) k = active_at (tbl a) k
    /\ active_at (tbl a') k = active_at (tbl a2) k.
Proof.
  intros G E Hpre Hpost. rewrite remove_spans_app in E.
  destruct (remove_spans a fm pre) as [a1|e] eqn:E1; cbn [bind] in E; [|discriminate].
  change (sp :: post) with ([sp] ++ post) in E. rewrite remove_spans_app in E.
  destruct (remove_spans a1 fm [sp]) as [a2|e] eqn:E2; cbn [bind] in E; [|discriminate].
  exists a1, a2.
  pose proof (remove_spans_good _ _ _ _ _ _ G E1) as G1.
  pose proof (remove_spans_good _ _ _ _ _ _ G1 E2) as G2.
  pose proof (remove_spans_base _ _ _ _ E1) as B1.
  pose proof (remove_spans_base _ _ _ _ E2) as B2.
  split; [reflexivity|]. split; [exact E2|]. split; [exact G1|]. split; [exact B1|].
  split; [eapply remove_spans_outside; eauto|].
  eapply remove_spans_outside; eauto. now rewrite B2, B1.
Qed.

(* format_matching over disjoint matches: inside match m every character has the original
   settings with the fresh settings of this match inserted (on top of everything that was active
   at the start of the match) *)
Theorem format_matching_inside f nid a fm texts pre sp post a' nid' :
  good f nid a -> form_falsy fm = false -> scrub fm = OK texts -> texts <> [] ->
  ordered (length (base a)) (pre ++ sp :: post) ->
  range_empty (length (base a)) (span_lo (length (base a)) sp) (span_hi (length (base a)) sp) = false ->
  apply_spans a fm (pre ++ sp :: post) nid = OK (a', nid') ->
  let n1 := nid + length texts * nonempty_count (length (base a)) pre in
  let new := fst (fresh texts n1) in
  n1 + length texts <= nid' /\ map stxt new = texts /\
  forall k, inside (length (base a)) sp k ->
  exists l1 l2,
    active_at (tbl a) k = l1 ++ l2
    /\ active_at (tbl a') k = l1 ++ new ++ l2
    /\ (forall x, In x l1 -> In x (active_at (tbl a) (span_lo (length (base a)) sp)))
    /\ (k = span_lo (length (base a)) sp -> l2 = []).
Proof.
  intros G Hf Hs Hne Hord Hr E.
  (* split the run once, independently of k *)
  pose proof E as E0. rewrite apply_spans_app in E0.
  destruct (apply_spans a fm pre nid) as [[a1 n1]|e] eqn:E1; cbn [bind] in E0; [|discriminate].
  change (sp :: post) with ([sp] ++ post) in E0. rewrite apply_spans_app in E0.
  destruct (apply_spans a1 fm [sp] n1) as [[a2 n2]|e] eqn:E2; cbn [bind] in E0; [|discriminate].
  pose proof (apply_spans_alloc _ _ _ _ _ _ _ G E1) as (f1 & X1 & L1 & G1).
  pose proof (apply_spans_base _ _ _ _ _ _ E1) as B1.
  pose proof (apply_spans_base _ _ _ _ _ _ E2) as B2.
  rewrite <- B1 in Hr.
  destruct (apply_span_inside _ _ _ _ _ _ _ _ G1 Hf Hs Hne Hr E2) as (T1 & T2 & T3).
  destruct (apply_spans_alloc _ _ _ _ _ _ _ G1 E2) as (f2 & X2 & L2 & G2).
  destruct (apply_spans_alloc _ _ _ _ _ _ _ G2 E0) as (f3 & X3 & L3 & G3).
  rewrite <- (apply_spans_nid _ _ Hf Hs _ _ _ _ _ E1). cbv zeta. split; [lia|]. split; [exact T1|].
  intros k Hk.
  destruct (ordered_outside _ _ _ _ _ Hord Hk) as [Hpre Hpost].
  assert (Hlo_out : outside (length (base a)) pre (span_lo (length (base a)) sp)).
  { apply (ordered_outside _ _ _ _ _ Hord). unfold inside.
    unfold range_empty in Hr. apply orb_false_iff in Hr as [_ Hr]. apply Nat.leb_gt in Hr. rewrite B1 in Hr. lia. }
  rewrite B1 in T3. destruct (T3 k Hk) as (l1 & l2 & Q1 & Q2 & Q3 & Q4 & _).
  exists l1, l2.
  rewrite <- (apply_spans_outside _ _ _ _ _ _ _ G E1 k Hpre).
  rewrite <- (apply_spans_outside _ _ _ _ _ _ _ G E1 _ Hlo_out).
  rewrite (apply_spans_outside _ _ _ _ _ _ _ G2 E0 k) by (now rewrite B2, B1).
  auto.
Qed.

(* unformat_matching over disjoint matches: inside match m exactly the selected settings go *)
Theorem unformat_matching_inside f n a fm sel pre sp post a' :
  good f n a -> optform_falsy fm = false -> sel_of fm sel ->
  ordered (length (base a)) (pre ++ sp :: post) ->
  range_empty (length (base a)) (span_lo (length (base a)) sp) (span_hi (length (base a)) sp) = false ->
  remove_spans a fm (pre ++ sp :: post) = OK a' ->
  forall k, inside (length (base a)) sp k ->
  active_at (tbl a') k = RemoveProofs.keep sel (active_at (tbl a) k).
Proof.
  intros G Hf Hsel Hord Hr E k Hk.
  destruct (ordered_outside _ _ _ _ _ Hord Hk) as [Hpre Hpost].
  destruct (remove_spans_only _ _ _ _ _ _ _ _ _ G E Hpre Hpost) as (a1 & a2 & E1 & E2 & G1 & B1 & Q1 & Q2).
  rewrite <- B1 in Hr, Hk.
  destruct (remove_span_inside _ _ _ _ _ _ _ G1 Hf Hsel Hr E2) as (_ & H).
  now rewrite Q2, (H k Hk), Q1.
Qed.

(* ====================================================================== *)
(* 7. Concrete instances                                                   *)
(* ====================================================================== *)
Module MatchExamples.
Import InvExamples.

(* ex_v = "abcd", bold (object b1) on [0,4), red (object r1) on [1,3); good ex_f 2 ex_v *)
Definition fm_ul : form := FList [FInt 4].                 (* format_matching(..., 4): underline *)
Definition spans2 : list (Z * Z) := [(0, 1); (2, 3)]%Z.    (* two one-character matches *)
Definition u2 := mkS 2 [52%N].
Definition u3 := mkS 3 [52%N].

Example ex_re_span : re_span 4 (2, 3)%Z /\ span_lo 4 (2, 3)%Z = 2 /\ span_hi 4 (2, 3)%Z = 3.
Proof. split; [unfold re_span; cbn; lia|]. split; reflexivity. Qed.

Example ex_outside : outside 4 spans2 1 /\ outside 4 spans2 3 /\ ~ outside 4 spans2 2.
Proof.
  split; [|split].
  - intros sp [<-|[<-|[]]]; vm_compute; lia.
  - intros sp [<-|[<-|[]]]; vm_compute; lia.
  - intros H. specialize (H (2, 3)%Z (or_intror (or_introl eq_refl))). vm_compute in H. lia.
Qed.

Example ex_ordered : ordered 4 ([(0, 1)%Z] ++ (2, 3)%Z :: []).
Proof. cbn [app ordered]. split; [|split; [|exact I]]; intros q Hq; [destruct Hq as [<-|[]]; vm_compute; lia|destruct Hq]. Qed.

Example ex_apply_spans :
  exists a', apply_spans ex_v fm_ul spans2 2 = OK (a', 4)
  /\ map (active_at (tbl a')) [0; 1; 2; 3] = [[b1; u2]; [b1; r1]; [b1; r1; u3]; [b1]]
  /\ map (active_at (tbl ex_v)) [0; 1; 2; 3] = [[b1]; [b1; r1]; [b1; r1]; [b1]].
Proof. eexists. split; [vm_compute; reflexivity|]. split; vm_compute; reflexivity. Qed.

Example ex_format_matching_outside := format_matching_outside ex_f 2 ex_v fm_ul spans2 _ 4 ex_v_good eq_refl.

Example ex_apply_span_inside :=
  apply_span_inside ex_f 2 ex_v fm_ul (1, 3)%Z [[52%N]] _ 3 ex_v_good eq_refl eq_refl
    ltac:(discriminate) eq_refl eq_refl.
Example ex_apply_span_inside_first :=
  apply_span_inside_first ex_f 2 ex_v fm_ul (1, 3)%Z [[52%N]] _ 3 ex_v_good eq_refl eq_refl
    ltac:(discriminate) eq_refl eq_refl.

Example ex_format_matching_inside :=
  format_matching_inside ex_f 2 ex_v fm_ul [[52%N]] [(0, 1)%Z] (2, 3)%Z [] _ 4 ex_v_good eq_refl eq_refl
    ltac:(discriminate) ex_ordered eq_refl eq_refl.

Example ex_apply_spans_only :=
  apply_spans_only ex_f 2 ex_v fm_ul [(0, 1)%Z] (2, 3)%Z [] _ 4 2 ex_v_good eq_refl
    ltac:(intros sp [<-|[]]; vm_compute; lia) (outside_nil 4 2).

Example ex_apply_spans_outside := apply_spans_outside fm_ul spans2 ex_f ex_v 2 _ 4 ex_v_good eq_refl 1 (proj1 ex_outside).
Example ex_apply_spans_alloc := apply_spans_alloc fm_ul spans2 ex_f ex_v 2 _ 4 ex_v_good eq_refl.
Example ex_apply_spans_nid := apply_spans_nid fm_ul [[52%N]] eq_refl eq_refl spans2 ex_v 2 _ 4 eq_refl.
Example ex_nonempty_count : nonempty_count 4 [(0, 1); (1, 1); (2, 3); (4, 4)]%Z = 2.
Proof. reflexivity. Qed.
Example ex_do_apply_outside :=
  do_apply_outside ex_f 2 ex_v fm_ul (Some 1%Z) (Some 3%Z) true _ 3 ex_v_good eq_refl 0 ltac:(vm_compute; lia).
Example ex_do_remove_outside :=
  do_remove_outside ex_v (Some (FList [FInt 1])) (Some 1%Z) (Some 3%Z) _ ex_v_WFv eq_refl 3 ltac:(vm_compute; lia).
Example ex_ordered_outside := ordered_outside 4 [(0, 1)%Z] (2, 3)%Z [] 2 ex_ordered ltac:(vm_compute; lia).
Example ex_apply_span_noop := apply_span_noop ex_v fm_ul (2, 2)%Z 2 (or_intror eq_refl).
Example ex_remove_span_noop := remove_span_noop ex_v None (3, 1)%Z (or_intror eq_refl).

(* unformat_matching(..., "bold") on the same matches *)
Definition fm_bold : option form := Some (FList [FInt 1]).
Example ex_sel : sel_of fm_bold (Some [[49%N]]).
Proof. exists [[49%N]]. split; reflexivity. Qed.

Example ex_remove_spans :
  exists a', remove_spans ex_v fm_bold spans2 = OK a'
  /\ map (active_at (tbl a')) [0; 1; 2; 3] = [[]; [b1; r1]; [r1]; [b1]].
Proof. eexists. split; [vm_compute; reflexivity|]. vm_compute; reflexivity. Qed.

Example ex_unformat_matching_outside := unformat_matching_outside ex_f 2 ex_v fm_bold spans2 _ ex_v_good eq_refl.
Example ex_remove_span_inside :=
  remove_span_inside ex_f 2 ex_v fm_bold (Some [[49%N]]) (1, 3)%Z _ ex_v_good eq_refl ex_sel eq_refl eq_refl.
Example ex_unformat_matching_inside :=
  unformat_matching_inside ex_f 2 ex_v fm_bold (Some [[49%N]]) [(0, 1)%Z] (2, 3)%Z [] _ ex_v_good eq_refl ex_sel
    ex_ordered eq_refl eq_refl.
Example ex_remove_spans_only :=
  remove_spans_only ex_f 2 ex_v fm_bold [(0, 1)%Z] (2, 3)%Z [] _ 2 ex_v_good eq_refl
    ltac:(intros sp [<-|[]]; vm_compute; lia) (outside_nil 4 2).
(* unformat_matching(...) without a format / with None removes everything inside *)
Example ex_remove_all :
  exists a', remove_spans ex_v None spans2 = OK a'
  /\ map (active_at (tbl a')) [0; 1; 2; 3] = [[]; [b1; r1]; []; [b1]].
Proof. eexists. split; [vm_compute; reflexivity|]. vm_compute; reflexivity. Qed.

(* why "form_falsy fm = false" is a separate hypothesis of the inside theorems: an empty string / list is falsy and
   apply_formatting returns early.  The bare integer 0 used to be falsy too (apply_formatting(0, ...) did nothing although
   0 scrubs to the text "0"); as repaired (known_findings F45) it is the reset code like [0].
   (format_matching itself always passes a tuple, FList [...], which is truthy when not empty.) *)
Example ex_zero_is_a_code :
  scrub (FInt 0) = OK [[48%N]] /\ form_falsy (FInt 0) = false /\ form_falsy (FStr []) = true /\ form_falsy (FList []) = true
  /\ apply_spans ex_v (FStr []) [(1, 3)%Z] 2 = OK (ex_v, 2)
  /\ exists a', apply_spans ex_v (FInt 0) [(1, 3)%Z] 2 = OK (a', 3) /\ a' <> ex_v
              /\ apply_spans ex_v (FList [FInt 0]) [(1, 3)%Z] 2 = OK (a', 3).
Proof.
  split; [reflexivity|]. split; [reflexivity|]. split; [reflexivity|]. split; [reflexivity|]. split; [reflexivity|].
  eexists. split; [vm_compute; reflexivity|]. split; [discriminate|]. vm_compute; reflexivity.
Qed.

(* overlapping spans (never produced by re.finditer): theorem 1 still holds, but inside the
   overlap both applications are seen *)
Example ex_overlap :
  exists a', apply_spans ex_v fm_ul [(0, 2); (1, 3)]%Z 2 = OK (a', 4)
  /\ map (active_at (tbl a')) [0; 1; 2; 3] = [[b1; u2]; [b1; u2; r1; u3]; [b1; r1; u3]; [b1]].
Proof. eexists. split; vm_compute; reflexivity. Qed.
End MatchExamples.

Print Assumptions re_span_idx.
Print Assumptions apply_spans_outside.
Print Assumptions apply_spans_alloc.
Print Assumptions format_matching_outside.
Print Assumptions remove_spans_outside.
Print Assumptions remove_spans_good.
Print Assumptions unformat_matching_outside.
Print Assumptions apply_span_inside.
Print Assumptions apply_span_inside_first.
Print Assumptions remove_span_inside.
Print Assumptions apply_spans_nid.
Print Assumptions apply_spans_only.
Print Assumptions remove_spans_only.
Print Assumptions format_matching_inside.
Print Assumptions unformat_matching_inside.
