(* assign_str and replace / expandtabs (C11): text and per-character settings of the result.
   A. assign        B. replace, text (str.replace)      C. replace, styles
   D. replace, no-op cases       E. replace with an empty pattern. *)
From AS Require Import Base.
From AS.Model Require Import Table Ops Parse StrOps.
From AS.Proofs Require Import TableProofs SliceProofs PadProofs ApplyProofs ConcatProofs ParseBasics.
From AS.Proofs Require StrOpsProofs.
From AS.Spec Require Import PyStr.

(* texts of the settings every character reports, in precedence order *)
Definition styles (s : astr) : list (list str) :=
  map (fun k => map stxt (active_at (tbl s) k)) (seq 0 (length (base s))).

(* ====================================================================== *)
(* 0. Slices of well-formed values are well formed                         *)
(* ====================================================================== *)
Lemma e_sok_snd t1 : forall t2 a, map snd t1 = map snd t2 -> strict_ok_from t1 a = strict_ok_from t2 a.
Proof.
  induction t1 as [|[k p] t1 IH]; intros [|[k2 p2] t2] a E; try discriminate; auto.
  cbn [map snd] in E. inversion E; subst. rewrite !ApplyProofs.sok_cons. f_equal. now apply IH.
Qed.
Lemma e_run_snd t1 : forall t2 a, map snd t1 = map snd t2 -> run a t1 = run a t2.
Proof.
  induction t1 as [|[k p] t1 IH]; intros [|[k2 p2] t2] a E; try discriminate; auto.
  cbn [map snd] in E. inversion E; subst. rewrite !(ConcatProofs.run_cons). now apply IH.
Qed.
Lemma e_shift_down_snd d t : map snd (shift_down d t) = map snd t.
Proof. unfold shift_down. rewrite map_map. reflexivity. Qed.

Definition tge (k : nat) (t : fmts) : fmts := filter (fun kp => k <=? fst kp) t.

Lemma e_between_all_ge st en t : (forall kp, In kp t -> en <= fst kp) -> between st en t = [].
Proof.
  intros H. unfold between. apply filter_all_false. intros kp Hin. specialize (H kp Hin).
  apply andb_false_iff. right. apply Nat.ltb_ge. lia.
Qed.
Lemma e_tge_all_ge en t : (forall kp, In kp t -> en <= fst kp) -> tge en t = t.
Proof. intros H. unfold tge. apply filter_all_true. intros kp Hin. apply Nat.leb_le. auto. Qed.

Lemma e_three_way t : ssorted t -> forall st en, st < en ->
  t = upto st t ++ between st en t ++ tge en t.
Proof.
  induction 1 as [|k p t Hk Hs IH]; intros st en Hlt; [reflexivity|].
  specialize (IH st en Hlt). unfold upto, between, tge in *. cbn [filter fst].
  destruct (k <=? st) eqn:E1.
  - apply Nat.leb_le in E1.
    replace (st <? k) with false by (symmetry; apply Nat.ltb_ge; lia).
    replace (en <=? k) with false by (symmetry; apply Nat.leb_gt; lia).
    cbn [andb app]. f_equal. exact IH.
  - apply Nat.leb_gt in E1. replace (st <? k) with true by (symmetry; apply Nat.ltb_lt; lia). cbn [andb].
    fold (upto st t). rewrite (upto_all_gt st k t Hk E1). cbn [app].
    destruct (k <? en) eqn:E2.
    + apply Nat.ltb_lt in E2. replace (en <=? k) with false by (symmetry; apply Nat.leb_gt; lia).
      cbn [app]. f_equal. fold (upto st t) in IH. rewrite (upto_all_gt st k t Hk E1) in IH. exact IH.
    + apply Nat.ltb_ge in E2. replace (en <=? k) with true by (symmetry; apply Nat.leb_le; lia).
      fold (between st en t). rewrite (e_between_all_ge st en t) by (intros kp Hin; specialize (Hk kp Hin); lia).
      cbn [app]. f_equal. fold (tge en t). symmetry. apply e_tge_all_ge. intros kp Hin. specialize (Hk kp Hin). lia.
Qed.

Lemma e_upto_pred_between t st en : ssorted t -> st < en -> upto (en - 1) t = upto st t ++ between st en t.
Proof.
  intros Hs Hlt. rewrite (upto_split t Hs st (en - 1)) by lia. f_equal. unfold between.
  apply filter_ext. intros kp. f_equal.
  apply Bool.eq_iff_eq_true. rewrite Nat.leb_le, Nat.ltb_lt. lia.
Qed.

Lemma e_strict_point t : ssorted t -> forall a k p, strict_ok_from t a = true -> tget k t = Some p ->
  srok (prem p) (run a (tlt k t)) = true.
Proof.
  induction 1 as [|k' p' t Hk Hs IH]; intros a k p H G; [discriminate|].
  rewrite ApplyProofs.sok_cons in H. apply andb_true_iff in H as [H1 H2]. cbn [tget] in G. unfold tlt. cbn [filter fst].
  destruct (Nat.eqb k k') eqn:E.
  - apply Nat.eqb_eq in E. subst k'. inversion G; subst p'. rewrite Nat.ltb_irrefl.
    fold (tlt k t). rewrite (lt_all_gt k t Hk). exact H1.
  - apply Nat.eqb_neq in E. destruct (k <? k') eqn:E2; [discriminate|]. apply Nat.ltb_ge in E2.
    replace (k' <? k) with true by (symmetry; apply Nat.ltb_lt; lia).
    rewrite ConcatProofs.run_cons. fold (tlt k t). now apply IH.
Qed.

Lemma e_tlt_upto k t : 0 < k -> tlt k t = upto (k - 1) t.
Proof.
  intros H. unfold tlt, upto. apply filter_ext. intros kp.
  apply Bool.eq_iff_eq_true. rewrite Nat.leb_le, Nat.ltb_lt. lia.
Qed.

Lemma e_filter_remove_ref x r : forall a, NoDup (ids a) ->
  filter (fun y => negb (in_ref y (x :: r))) a = filter (fun y => negb (in_ref y r)) (remove_ref x a).
Proof.
  induction a as [|y a IH]; intros N; [reflexivity|].
  cbn [ids map] in N. inversion N as [|? ? Hn Hd]; subst.
  cbn [filter remove_ref]. rewrite ApplyProofs.in_ref_cons. destruct (same_ref x y) eqn:E.
  - unfold same_ref in *. rewrite Nat.eqb_sym, E. cbn [orb negb].
    apply Nat.eqb_eq in E. apply filter_ext_in. intros z Hz. rewrite ApplyProofs.in_ref_cons. unfold same_ref.
    replace (Nat.eqb (sid z) (sid x)) with false; [reflexivity|].
    symmetry. apply Nat.eqb_neq. intros Ez. apply Hn. rewrite <- E, <- Ez. unfold ids. now apply in_map.
  - unfold same_ref in *. rewrite Nat.eqb_sym, E. cbn [orb filter].
    rewrite IH by exact Hd. reflexivity.
Qed.

Lemma e_rm_filter rems : forall a, srok rems a = true -> NoDup (ids a) ->
  rm rems a = filter (fun y => negb (in_ref y rems)) a.
Proof.
  induction rems as [|x r IH]; intros a H N.
  - cbn. symmetry. apply filter_all_true. reflexivity.
  - rewrite srok_cons in H. apply andb_true_iff in H as [H1 H2]. rewrite rm_cons.
    rewrite IH; auto using remove_ref_nodup. symmetry. now apply e_filter_remove_ref.
Qed.

Lemma slice_tbl_strict t st en : ssorted t -> st < en -> strict_ok t = true -> nodup_active t ->
  strict_ok (slice_tbl t st en) = true.
Proof.
  intros Hs Hlt Hst Hnd. unfold strict_ok in *.
  pose proof (e_three_way t Hs st en Hlt) as E3.
  pose proof Hst as Hst0.
  rewrite E3 in Hst. rewrite !ApplyProofs.sok_app in Hst. apply andb_true_iff in Hst as [_ Hst].
  apply andb_true_iff in Hst as [Hmid _].
  rewrite <- (active_at_run t st Hs) in Hmid.
  unfold slice_tbl. set (seed := active_at t st) in *. set (prev := active_at t (en - 1)).
  set (rem_en := match tget en t with Some p => prem p | None => [] end).
  rewrite !ApplyProofs.sok_app. apply andb_true_iff. split; [destruct seed; reflexivity|].
  assert (Hseed : run [] (match seed return list (nat * point) with [] => [] | _ => [(0, mkP seed [])] end) = seed)
    by (destruct seed; reflexivity).
  rewrite Hseed. apply andb_true_iff. split.
  - rewrite (e_sok_snd _ (between st en t)); auto using e_shift_down_snd.
  - rewrite (e_run_snd _ (between st en t)) by apply e_shift_down_snd.
    assert (Hprev : run seed (between st en t) = prev).
    { unfold seed, prev. rewrite !active_at_run by exact Hs. rewrite <- run_app. f_equal. symmetry.
      now apply e_upto_pred_between. }
    rewrite Hprev. destruct (rem_en ++ _) eqn:Ec; [reflexivity|]. rewrite <- Ec. rewrite ApplyProofs.sok_cons.
    cbn [prem strict_ok_from]. rewrite andb_true_r. rewrite srok_app.
    assert (Hr : srok rem_en prev = true).
    { unfold rem_en. destruct (tget en t) as [p|] eqn:G; [|reflexivity].
      pose proof (e_strict_point t Hs [] en p Hst0 G) as Q.
      rewrite e_tlt_upto in Q by lia. rewrite <- active_at_run in Q by exact Hs. exact Q. }
    rewrite Hr. cbn [andb]. rewrite e_rm_filter; auto; [|apply Hnd]. apply srok_self.
Qed.

Lemma WF_plain b : WF (mkA b []).
Proof.
  unfold WF. cbn [tbl base]. split; [constructor|]. split; [intros kp []|]. split; [reflexivity|].
  split; [intros k; constructor|reflexivity].
Qed.

Lemma slice_core_WF s st en : WF s -> en <= length (base s) -> WF (slice_core s st en).
Proof.
  intros (Ss & Ks & Os & Ns & Fs) Hen. unfold slice_core. destruct (en <=? st) eqn:E; [apply WF_plain|].
  apply Nat.leb_gt in E.
  assert (Sc : ssorted (slice_tbl (tbl s) st en)) by now apply slice_tbl_sorted.
  assert (Fc : final_active (slice_tbl (tbl s) st en) = []) by (apply slice_closed; auto).
  assert (Kc : keys_le (slice_tbl (tbl s) st en) (en - st)) by (intros kp Hin; now apply (slice_tbl_keys (tbl s) st en E)).
  unfold WF. cbn [tbl base]. rewrite str_slice_length by exact Hen.
  repeat split; auto.
  - now apply slice_tbl_strict.
  - intros k. destruct (Nat.lt_ge_cases k (en - st)) as [Hk|Hk].
    + rewrite slice_active by auto. apply Ns.
    + rewrite (active_beyond _ Sc k) by (intros kp Hin; specialize (Kc kp Hin); lia). rewrite Fc. constructor.
Qed.

Lemma getitem_slice_WF s a b : WF s -> WF (getitem_slice s a b).
Proof. intros W. unfold getitem_slice. apply slice_core_WF; auto. apply slice_idx_le. lia. Qed.

(* ====================================================================== *)
(* A. assign_str                                                           *)
(* ====================================================================== *)
Theorem assign_base s t : base (assign s t) = t.
Proof. unfold assign. destruct (_ <? _); [reflexivity|]. destruct (_ <? _); reflexivity. Qed.

(* characters present before and after keep their settings (same objects, same order) *)
Theorem assign_keep s t k :
  ssorted (tbl s) -> keys_le (tbl s) (length (base s)) ->
  k < Nat.min (length (base s)) (length t) ->
  active_at (tbl (assign s t)) k = active_at (tbl s) k.
Proof.
  intros Hs Hk Hlt. unfold assign.
  destruct (length (base s) <? length t) eqn:E1; cbn [tbl].
  - apply Nat.ltb_lt in E1.
    destruct (tmove_props (tbl s) (length (base s)) (length t) Hs Hk) as (_ & _ & _ & _ & H & _); try lia.
    apply H. lia.
  - destruct (length t <? length (base s)) eqn:E2; cbn [tbl]; [|reflexivity].
    apply Nat.ltb_lt in E2. unfold slice_core.
    replace (length t <=? 0) with false by (symmetry; apply Nat.leb_gt; lia). cbn [tbl].
    rewrite slice_active; auto; lia.
Qed.

(* added characters report the settings of the last old character *)
Theorem assign_extend s t k :
  ssorted (tbl s) -> keys_le (tbl s) (length (base s)) ->
  0 < length (base s) -> length (base s) <= k < length t ->
  active_at (tbl (assign s t)) k = active_at (tbl s) (length (base s) - 1).
Proof.
  intros Hs Hk H0 Hlt. unfold assign.
  replace (length (base s) <? length t) with true by (symmetry; apply Nat.ltb_lt; lia). cbn [tbl].
  destruct (tmove_props (tbl s) (length (base s)) (length t) Hs Hk) as (_ & _ & _ & _ & _ & H); try lia.
  apply H. lia.
Qed.

(* shrinking: the table is that of the slice [0, new) *)
Theorem assign_shrink s t : length t < length (base s) ->
  tbl (assign s t) = tbl (getitem_slice s None (Some (Z.of_nat (length t))))
  /\ tbl (assign s t) = match length t with O => [] | _ => slice_tbl (tbl s) 0 (length t) end.
Proof.
  intros Hlt. unfold assign.
  replace (length (base s) <? length t) with false by (symmetry; apply Nat.ltb_ge; lia).
  replace (length t <? length (base s)) with true by (symmetry; apply Nat.ltb_lt; lia). cbn [tbl].
  split.
  - unfold getitem_slice. rewrite StrOpsProofs.slice_idx_nat. change (slice_idx (length (base s)) None 0) with 0.
    now replace (Nat.min (length t) (length (base s))) with (length t) by lia.
  - unfold slice_core. destruct (length t) as [|n]; reflexivity.
Qed.

(* ... and nothing stays open after the new end *)
Theorem assign_shrink_closed s t : ssorted (tbl s) -> nodup_active (tbl s) ->
  length t < length (base s) -> forall k, length t <= k -> active_at (tbl (assign s t)) k = [].
Proof.
  intros Hs Hn Hlt k Hk. destruct (assign_shrink s t Hlt) as [_ E]. rewrite E.
  destruct (length t) as [|n] eqn:El; [reflexivity|].
  assert (Sc : ssorted (slice_tbl (tbl s) 0 (S n))) by (apply slice_tbl_sorted; auto; lia).
  rewrite (active_beyond _ Sc k).
  - apply slice_closed; [exact Hs | lia | apply Hn].
  - intros kp Hin. pose proof (slice_tbl_keys (tbl s) 0 (S n) ltac:(lia) kp Hin). lia.
Qed.

(* moving the end marker preserves well-formedness (any L, including the empty string) *)
Lemma tmove_WF t L M b b' : length b = L -> length b' = M -> L < M -> WF (mkA b t) -> WF (mkA b' (tmove L M t)).
Proof.
  intros Eb Eb' HLM (Ss & Ks & Os & Ns & Fs). cbn [tbl base] in *. rewrite Eb in Ks.
  unfold WF. cbn [tbl base]. rewrite Eb'.
  destruct (last_decomp t L Ss Ks) as [Hlt | (t0 & p & E & Hs0 & Hlt)].
  - assert (En : tget L t = None).
    { apply tget_notin. intros kp Hin. specialize (Hlt kp Hin). lia. }
    assert (Et : tmove L M t = t) by (unfold tmove; now rewrite En).
    rewrite Et. repeat split; auto. intros kp Hin. specialize (Ks kp Hin). lia.
  - subst t. rewrite (tmove_snoc L M p t0 Hlt) by lia.
    assert (HltM : keys_lt t0 M) by (intros kp Hin; specialize (Hlt kp Hin); lia).
    assert (Sc : ssorted (t0 ++ [(M, p)])) by now apply ssorted_snoc.
    assert (Kc : keys_le (t0 ++ [(M, p)]) M).
    { intros kp Hin. apply in_app_or in Hin as [Hin|[<-|[]]]; cbn [fst]; auto. specialize (HltM kp Hin). lia. }
    assert (Fc : final_active (t0 ++ [(M, p)]) = []).
    { rewrite <- Fs. change (run [] (t0 ++ [(M, p)]) = run [] (t0 ++ [(L, p)])). now rewrite !run_app. }
    repeat split; auto.
    + unfold strict_ok in *. rewrite ApplyProofs.sok_app in *. rewrite !ApplyProofs.sok_cons in *. exact Os.
    + intros k. destruct (Nat.lt_ge_cases k M) as [HkM|HkM].
      * rewrite (active_at_run _ k Sc). rewrite upto_snoc_lt by exact HkM.
        destruct (Nat.lt_ge_cases k L) as [HkL|HkL].
        -- specialize (Ns k). rewrite (active_at_run _ k Ss), upto_snoc_lt in Ns by exact HkL. exact Ns.
        -- destruct L as [|L'].
           ++ destruct t0 as [|kp t0]; [constructor|]. specialize (Hlt kp (or_introl eq_refl)). lia.
           ++ specialize (Ns L'). rewrite (active_at_run _ L' Ss), upto_snoc_lt in Ns by lia.
              rewrite (upto_all k t0) by (intros kp Hin; specialize (Hlt kp Hin); lia).
              rewrite (upto_all L' t0) in Ns by (intros kp Hin; specialize (Hlt kp Hin); lia). exact Ns.
      * rewrite (active_beyond _ Sc k) by (intros kp Hin; specialize (Kc kp Hin); lia). rewrite Fc. constructor.
Qed.

Theorem assign_WF s t : WF s -> WF (assign s t).
Proof.
  intros W. unfold assign.
  destruct (length (base s) <? length t) eqn:E1.
  - apply Nat.ltb_lt in E1. apply (tmove_WF (tbl s) (length (base s)) (length t) (base s) t); auto.
  - destruct (length t <? length (base s)) eqn:E2.
    + apply Nat.ltb_lt in E2.
      pose proof (slice_core_WF s 0 (length t) W ltac:(lia)) as Wc.
      destruct Wc as (S1 & K1 & O1 & N1 & F1). unfold WF. cbn [tbl base]. repeat split; auto.
      intros kp Hin. specialize (K1 kp Hin). unfold slice_core in K1, Hin.
      destruct (length t <=? 0) eqn:E3; cbn [base tbl] in K1, Hin; [destruct Hin|].
      rewrite str_slice_length in K1 by lia. lia.
    + apply Nat.ltb_ge in E1, E2. destruct W as (S1 & K1 & O1 & N1 & F1).
      unfold WF. cbn [tbl base]. replace (length t) with (length (base s)) by lia. repeat split; auto.
Qed.

(* the empty string: a well-formed empty value has no settings at all, and assigning a longer text
   gives unformatted text *)
Theorem assign_empty s t k : WF s -> base s = [] -> active_at (tbl (assign s t)) k = [].
Proof.
  intros (Ss & Ks & Os & Ns & Fs) E. rewrite E in Ks. cbn [length] in Ks.
  unfold assign. rewrite E. cbn [length].
  destruct (0 <? length t) eqn:E1; cbn [tbl].
  - apply Nat.ltb_lt in E1.
    destruct (last_decomp (tbl s) 0 Ss Ks) as [Hlt | (t0 & p & Et & Hs0 & Hlt)].
    + destruct (tbl s) as [|kp r]; [reflexivity|]. specialize (Hlt kp (or_introl eq_refl)). lia.
    + assert (t0 = []) by (destruct t0 as [|kp r]; auto; specialize (Hlt kp (or_introl eq_refl)); lia). subst t0.
      cbn [app] in Et. unfold final_active in Fs. rewrite Et in Fs |- *. cbn [fold_left snd] in Fs.
      pose proof (tmove_snoc 0 (length t) p [] Hlt ltac:(lia)) as Em. cbn [app] in Em. rewrite Em.
      unfold active_at. cbn [active_upto]. destruct (length t <=? k); [exact Fs|reflexivity].
  - replace (length t <? 0) with false by (symmetry; apply Nat.ltb_ge; lia). cbn [tbl].
    rewrite (active_beyond _ Ss k) by (intros kp Hin; specialize (Ks kp Hin); lia). exact Fs.
Qed.

(* ====================================================================== *)
(* B. replace: the text is what str.replace gives                          *)
(* ====================================================================== *)
(* str.replace(old, new, count) for a non-empty old: cut at the leftmost occurrence (PyStr.cut_first),
   put new there, go on in the rest; at most count times when count >= 0, always when count < 0 *)
Fixpoint replace_fuel (fuel : nat) (old new : str) (count : Z) (s : str) : str :=
  match fuel with
  | O => s
  | S f => if (count =? 0)%Z then s
           else match cut_first old s with
                | None => s
                | Some (a, b) => a ++ new ++ replace_fuel f old new (count - 1) b
                end
  end.
Definition py_replace (s old new : str) (count : Z) : str := replace_fuel (S (length s)) old new count s.

(* the same function as one structural left-to-right scan (skip: characters of a match still to pass) *)
Fixpoint replace_scan (old new : str) (m : Z) (s : str) (skip : nat) : str :=
  match s with
  | [] => []
  | c :: r =>
    match skip with
    | S k => replace_scan old new m r k
    | O => if negb (m =? 0)%Z && starts_with s old
           then new ++ replace_scan old new (m - 1) r (length old - 1)
           else c :: replace_scan old new m r 0
    end
  end.

Import String.StringSyntax.
Local Open Scope string_scope.
Local Definition tS (x : String.string) : str := str_of_string x.
Example ex_py_replace_overlap : py_replace (tS "aaaa") (tS "aa") (tS "b") (-1) = tS "bb". Proof. reflexivity. Qed.
Example ex_py_replace_odd : py_replace (tS "aaaaa") (tS "aa") (tS "b") (-1) = tS "bba". Proof. reflexivity. Qed.
Example ex_py_replace_count : py_replace (tS "xaaaay") (tS "a") (tS "bc") 2 = tS "xbcbcaay". Proof. reflexivity. Qed.
Example ex_py_replace_grow : py_replace (tS "xaaaay") (tS "aa") (tS "aaa") (-1) = tS "xaaaaaay". Proof. reflexivity. Qed.
Example ex_py_replace_zero : py_replace (tS "xaaaay") (tS "a") (tS "b") 0 = tS "xaaaay". Proof. reflexivity. Qed.
Example ex_py_replace_absent : py_replace (tS "xaaaay") (tS "q") (tS "b") (-1) = tS "xaaaay". Proof. reflexivity. Qed.
Example ex_py_replace_del : py_replace (tS "xaaaay") (tS "aa") [] (-1) = tS "xy". Proof. reflexivity. Qed.
Example ex_scan_overlap : replace_scan (tS "aa") (tS "b") (-1) (tS "aaaaa") 0 = tS "bba". Proof. reflexivity. Qed.
Local Close Scope string_scope.

Lemma nonempty_length (x : str) : x <> [] -> 0 < length x.
Proof. destruct x; [congruence|simpl; lia]. Qed.

Lemma cut_first_parts sep s a b : cut_first sep s = Some (a, b) -> s = a ++ sep ++ b.
Proof.
  intros E. pose proof (StrOpsProofs.find_at_cut sep s 0) as H. rewrite E in H.
  destruct (find_at s sep 0); [|contradiction]. tauto.
Qed.

Lemma replace_fuel_irrel old new : old <> [] -> forall f1 f2 s m, length s < f1 -> length s < f2 ->
  replace_fuel f1 old new m s = replace_fuel f2 old new m s.
Proof.
  intros Ho. apply nonempty_length in Ho.
  induction f1 as [|f1 IH]; intros [|f2] s m H1 H2; try lia.
  cbn [replace_fuel]. destruct (m =? 0)%Z; auto.
  destruct (cut_first old s) as [[a b]|] eqn:E; auto.
  apply cut_first_parts in E. do 2 f_equal.
  assert (length s = length a + length old + length b) by (rewrite E, !app_length; lia).
  apply IH; lia.
Qed.

Lemma replace_fuel_S f old new m s :
  replace_fuel (S f) old new m s =
  if (m =? 0)%Z then s else
  match cut_first old s with
  | None => s
  | Some (a, b) => a ++ new ++ replace_fuel f old new (m - 1) b
  end.
Proof. reflexivity. Qed.

Lemma py_replace_unfold s old new m : old <> [] ->
  py_replace s old new m =
  if (m =? 0)%Z then s else
  match cut_first old s with
  | None => s
  | Some (a, b) => a ++ new ++ py_replace b old new (m - 1)
  end.
Proof.
  intros Ho. unfold py_replace. rewrite replace_fuel_S. destruct (m =? 0)%Z; auto.
  destruct (cut_first old s) as [[a b]|] eqn:E; auto.
  apply cut_first_parts in E. do 2 f_equal. apply nonempty_length in Ho as Hl.
  assert (length s = length a + length old + length b) by (rewrite E, !app_length; lia).
  apply replace_fuel_irrel; auto; lia.
Qed.

(* a negative count means "all", whatever its value *)
Lemma replace_fuel_neg old new : forall f s m1 m2, (m1 < 0)%Z -> (m2 < 0)%Z ->
  replace_fuel f old new m1 s = replace_fuel f old new m2 s.
Proof.
  induction f as [|f IH]; intros s m1 m2 H1 H2; [reflexivity|]. cbn [replace_fuel].
  replace (m1 =? 0)%Z with false by (symmetry; apply Z.eqb_neq; lia).
  replace (m2 =? 0)%Z with false by (symmetry; apply Z.eqb_neq; lia).
  destruct (cut_first old s) as [[a b]|]; auto. do 2 f_equal. apply IH; lia.
Qed.
Lemma py_replace_neg s old new m1 m2 : (m1 < 0)%Z -> (m2 < 0)%Z -> py_replace s old new m1 = py_replace s old new m2.
Proof. apply replace_fuel_neg. Qed.

(* the scan and the cut-based definition agree *)
Lemma scan_skip old new m : forall pre r, replace_scan old new m (pre ++ r) (length pre) = replace_scan old new m r 0.
Proof. induction pre as [|c pre IH]; intros r; [destruct r; reflexivity|]. cbn [app length replace_scan]. apply IH. Qed.

Lemma scan_m0 old new : forall s, replace_scan old new 0 s 0 = s.
Proof. induction s as [|c s IH]; [reflexivity|]. cbn [replace_scan Z.eqb negb andb]. now rewrite IH. Qed.

Lemma scan_none old new m : forall s, cut_first old s = None -> replace_scan old new m s 0 = s.
Proof.
  induction s as [|c s IH]; intros E; [reflexivity|]. cbn [cut_first] in E. cbn [replace_scan].
  destruct (starts_with (c :: s) old); [discriminate|]. rewrite andb_false_r.
  destruct (cut_first old s) as [[a b]|]; [discriminate|]. now rewrite IH.
Qed.

Lemma scan_to_first old new m : old <> [] -> (m =? 0)%Z = false -> forall s a b,
  cut_first old s = Some (a, b) ->
  replace_scan old new m s 0 = a ++ new ++ replace_scan old new (m - 1) b 0.
Proof.
  intros Ho Hm. induction s as [|c s IH]; intros a b E.
  - cbn [cut_first] in E. destruct old; [congruence|discriminate].
  - cbn [cut_first] in E. cbn [replace_scan]. rewrite Hm. cbn [negb andb].
    destruct (starts_with (c :: s) old) eqn:Es.
    + inversion E; subst a b. cbn [app]. f_equal.
      apply StrOpsProofs.starts_with_app in Es. destruct old as [|o old']; [congruence|].
      cbn [app length skipn] in Es |- *. inversion Es as [[Ec Es']]. replace (S (length old') - 1) with (length old') by lia.
      rewrite Es' at 1. rewrite <- Es'. apply scan_skip.
    + destruct (cut_first old s) as [[a' b']|] eqn:E'; [|discriminate]. inversion E; subst a b.
      cbn [app]. f_equal. now apply IH.
Qed.

Theorem py_replace_scan s old new m : old <> [] -> py_replace s old new m = replace_scan old new m s 0.
Proof.
  intros Ho. apply nonempty_length in Ho as Hl.
  assert (H : forall n s m, length s < n -> py_replace s old new m = replace_scan old new m s 0).
  { induction n as [|n IH]; intros s0 m0 Hn; [lia|].
    rewrite py_replace_unfold by exact Ho. destruct (m0 =? 0)%Z eqn:Em.
    - apply Z.eqb_eq in Em. subst m0. now rewrite scan_m0.
    - destruct (cut_first old s0) as [[a b]|] eqn:E.
      + rewrite (scan_to_first old new m0 Ho Em s0 a b E). apply cut_first_parts in E.
        assert (length s0 = length a + length old + length b) by (rewrite E, !app_length; lia).
        rewrite IH by lia. reflexivity.
      + now rewrite scan_none. }
  apply (H (S (length s))). lia.
Qed.
