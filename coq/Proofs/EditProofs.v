(* assign_str and replace / expandtabs (C11): text and per-character settings of the result.
   A. assign        B. replace, text (str.replace)      C. replace, styles
   D. replace, no-op cases       E. replace with an empty pattern. *)
From AS Require Import Base.
From AS.Model Require Import Tokenizer Table Ops Parse StrOps.
From AS.Proofs Require Import TableProofs SliceProofs PadProofs ApplyProofs ConcatProofs ParseBasics.
From AS.Proofs Require StrOpsProofs.
From AS.Spec Require Import PyStr.

(* texts of the settings every character reports, in precedence order *)
Definition styles (s : astr) : list (list str) :=
  map (fun k => map stxt (active_at (tbl s) k)) (seq 0 (length (base s))).

(* ====================================================================== *)
(* 0. Slices of well-formed values are well formed                         *)
(*    (strictness of a slice: the e_ lemmas follow the proof of the same    *)
(*    fact in the C09 development; they are restated here so that this file *)
(*    depends only on the frozen proof files)                               *)
(* ====================================================================== *)
Lemma e_sok_snd t1 : forall t2 a, map snd t1 = map snd t2 -> strict_ok_from t1 a = strict_ok_from t2 a.
Proof.
  induction t1 as [|[k p] t1 IH]; intros [|[k2 p2] t2] a E; try discriminate; auto.
  cbn [map snd] in E. inversion E; subst. rewrite !ApplyProofs.sok_cons. f_equal. now apply IH.
Qed.
Lemma e_run_snd t1 : forall t2 a, map snd t1 = map snd t2 -> run a t1 = run a t2.
Proof.
  induction t1 as [|[k p] t1 IH]; intros [|[k2 p2] t2] a E; try discriminate; auto.
  cbn [map snd] in E. inversion E; subst. rewrite !(ConcatProofs.run_cons). now apply IH.
Qed.
Lemma e_shift_down_snd d t : map snd (shift_down d t) = map snd t.
Proof. unfold shift_down. rewrite map_map. reflexivity. Qed.

Definition tge (k : nat) (t : fmts) : fmts := filter (fun kp => k <=? fst kp) t.

Lemma e_between_all_ge st en t : (forall kp, In kp t -> en <= fst kp) -> between st en t = [].
Proof.
  intros H. unfold between. apply filter_all_false. intros kp Hin. specialize (H kp Hin).
  apply andb_false_iff. right. apply Nat.ltb_ge. lia.
Qed.
Lemma e_tge_all_ge en t : (forall kp, In kp t -> en <= fst kp) -> tge en t = t.
Proof. intros H. unfold tge. apply filter_all_true. intros kp Hin. apply Nat.leb_le. auto. Qed.

Lemma e_three_way t : ssorted t -> forall st en, st < en ->
  t = upto st t ++ between st en t ++ tge en t.
Proof.
  induction 1 as [|k p t Hk Hs IH]; intros st en Hlt; [reflexivity|].
  specialize (IH st en Hlt). unfold upto, between, tge in *. cbn [filter fst].
  destruct (k <=? st) eqn:E1.
  - apply Nat.leb_le in E1.
    replace (st <? k) with false by (symmetry; apply Nat.ltb_ge; lia).
    replace (en <=? k) with false by (symmetry; apply Nat.leb_gt; lia).
    cbn [andb app]. f_equal. exact IH.
  - apply Nat.leb_gt in E1. replace (st <? k) with true by (symmetry; apply Nat.ltb_lt; lia). cbn [andb].
    fold (upto st t). rewrite (upto_all_gt st k t Hk E1). cbn [app].
    destruct (k <? en) eqn:E2.
    + apply Nat.ltb_lt in E2. replace (en <=? k) with false by (symmetry; apply Nat.leb_gt; lia).
      cbn [app]. f_equal. fold (upto st t) in IH. rewrite (upto_all_gt st k t Hk E1) in IH. exact IH.
    + apply Nat.ltb_ge in E2. replace (en <=? k) with true by (symmetry; apply Nat.leb_le; lia).
      fold (between st en t). rewrite (e_between_all_ge st en t) by (intros kp Hin; specialize (Hk kp Hin); lia).
      cbn [app]. f_equal. fold (tge en t). symmetry. apply e_tge_all_ge. intros kp Hin. specialize (Hk kp Hin). lia.
Qed.

Lemma e_upto_pred_between t st en : ssorted t -> st < en -> upto (en - 1) t = upto st t ++ between st en t.
Proof.
  intros Hs Hlt. rewrite (upto_split t Hs st (en - 1)) by lia. f_equal. unfold between.
  apply filter_ext. intros kp. f_equal.
  apply Bool.eq_iff_eq_true. rewrite Nat.leb_le, Nat.ltb_lt. lia.
Qed.

Lemma e_strict_point t : ssorted t -> forall a k p, strict_ok_from t a = true -> tget k t = Some p ->
  srok (prem p) (run a (tlt k t)) = true.
Proof.
  induction 1 as [|k' p' t Hk Hs IH]; intros a k p H G; [discriminate|].
  rewrite ApplyProofs.sok_cons in H. apply andb_true_iff in H as [H1 H2]. cbn [tget] in G. unfold tlt. cbn [filter fst].
  destruct (Nat.eqb k k') eqn:E.
  - apply Nat.eqb_eq in E. subst k'. inversion G; subst p'. rewrite Nat.ltb_irrefl.
    fold (tlt k t). rewrite (lt_all_gt k t Hk). exact H1.
  - apply Nat.eqb_neq in E. destruct (k <? k') eqn:E2; [discriminate|]. apply Nat.ltb_ge in E2.
    replace (k' <? k) with true by (symmetry; apply Nat.ltb_lt; lia).
    rewrite ConcatProofs.run_cons. fold (tlt k t). now apply IH.
Qed.

Lemma e_tlt_upto k t : 0 < k -> tlt k t = upto (k - 1) t.
Proof.
  intros H. unfold tlt, upto. apply filter_ext. intros kp.
  apply Bool.eq_iff_eq_true. rewrite Nat.leb_le, Nat.ltb_lt. lia.
Qed.

Lemma e_filter_remove_ref x r : forall a, NoDup (ids a) ->
  filter (fun y => negb (in_ref y (x :: r))) a = filter (fun y => negb (in_ref y r)) (remove_ref x a).
Proof.
  induction a as [|y a IH]; intros N; [reflexivity|].
  cbn [ids map] in N. inversion N as [|? ? Hn Hd]; subst.
  cbn [filter remove_ref]. rewrite ApplyProofs.in_ref_cons. destruct (same_ref x y) eqn:E.
  - unfold same_ref in *. rewrite Nat.eqb_sym, E. cbn [orb negb].
    apply Nat.eqb_eq in E. apply filter_ext_in. intros z Hz. rewrite ApplyProofs.in_ref_cons. unfold same_ref.
    replace (Nat.eqb (sid z) (sid x)) with false; [reflexivity|].
    symmetry. apply Nat.eqb_neq. intros Ez. apply Hn. rewrite <- E, <- Ez. unfold ids. now apply in_map.
  - unfold same_ref in *. rewrite Nat.eqb_sym, E. cbn [orb filter].
    rewrite IH by exact Hd. reflexivity.
Qed.

Lemma e_rm_filter rems : forall a, srok rems a = true -> NoDup (ids a) ->
  rm rems a = filter (fun y => negb (in_ref y rems)) a.
Proof.
  induction rems as [|x r IH]; intros a H N.
  - cbn. symmetry. apply filter_all_true. reflexivity.
  - rewrite srok_cons in H. apply andb_true_iff in H as [H1 H2]. rewrite rm_cons.
    rewrite IH; auto using remove_ref_nodup. symmetry. now apply e_filter_remove_ref.
Qed.

Lemma slice_tbl_strict t st en : ssorted t -> st < en -> strict_ok t = true -> nodup_active t ->
  strict_ok (slice_tbl t st en) = true.
Proof.
  intros Hs Hlt Hst Hnd. unfold strict_ok in *.
  pose proof (e_three_way t Hs st en Hlt) as E3.
  pose proof Hst as Hst0.
  rewrite E3 in Hst. rewrite !ApplyProofs.sok_app in Hst. apply andb_true_iff in Hst as [_ Hst].
  apply andb_true_iff in Hst as [Hmid _].
  rewrite <- (active_at_run t st Hs) in Hmid.
  unfold slice_tbl. set (seed := active_at t st) in *. set (prev := active_at t (en - 1)).
  set (rem_en := match tget en t with Some p => prem p | None => [] end).
  rewrite !ApplyProofs.sok_app. apply andb_true_iff. split; [destruct seed; reflexivity|].
  assert (Hseed : run [] (match seed return list (nat * point) with [] => [] | _ => [(0, mkP seed [])] end) = seed)
    by (destruct seed; reflexivity).
  rewrite Hseed. apply andb_true_iff. split.
  - rewrite (e_sok_snd _ (between st en t)); auto using e_shift_down_snd.
  - rewrite (e_run_snd _ (between st en t)) by apply e_shift_down_snd.
    assert (Hprev : run seed (between st en t) = prev).
    { unfold seed, prev. rewrite !active_at_run by exact Hs. rewrite <- run_app. f_equal. symmetry.
      now apply e_upto_pred_between. }
    rewrite Hprev. destruct (rem_en ++ _) eqn:Ec; [reflexivity|]. rewrite <- Ec. rewrite ApplyProofs.sok_cons.
    cbn [prem strict_ok_from]. rewrite andb_true_r. rewrite srok_app.
    assert (Hr : srok rem_en prev = true).
    { unfold rem_en. destruct (tget en t) as [p|] eqn:G; [|reflexivity].
      pose proof (e_strict_point t Hs [] en p Hst0 G) as Q.
      rewrite e_tlt_upto in Q by lia. rewrite <- active_at_run in Q by exact Hs. exact Q. }
    rewrite Hr. cbn [andb]. rewrite e_rm_filter; auto; [|apply Hnd]. apply srok_self.
Qed.

Lemma WF_plain b : WF (mkA b []).
Proof.
  unfold WF. cbn [tbl base]. split; [constructor|]. split; [intros kp []|]. split; [reflexivity|].
  split; [intros k; constructor|reflexivity].
Qed.

Lemma slice_core_WF s st en : WF s -> en <= length (base s) -> WF (slice_core s st en).
Proof.
  intros (Ss & Ks & Os & Ns & Fs) Hen. unfold slice_core. destruct (en <=? st) eqn:E; [apply WF_plain|].
  apply Nat.leb_gt in E.
  assert (Sc : ssorted (slice_tbl (tbl s) st en)) by now apply slice_tbl_sorted.
  assert (Fc : final_active (slice_tbl (tbl s) st en) = []) by (apply slice_closed; auto).
  assert (Kc : keys_le (slice_tbl (tbl s) st en) (en - st)) by (intros kp Hin; now apply (slice_tbl_keys (tbl s) st en E)).
  unfold WF. cbn [tbl base]. rewrite str_slice_length by exact Hen.
  repeat split; auto.
  - now apply slice_tbl_strict.
  - intros k. destruct (Nat.lt_ge_cases k (en - st)) as [Hk|Hk].
    + rewrite slice_active by auto. apply Ns.
    + rewrite (active_beyond _ Sc k) by (intros kp Hin; specialize (Kc kp Hin); lia). rewrite Fc. constructor.
Qed.

Lemma getitem_slice_WF s a b : WF s -> WF (getitem_slice s a b).
Proof. intros W. unfold getitem_slice. apply slice_core_WF; auto. apply slice_idx_le. lia. Qed.

(* ====================================================================== *)
(* A. assign_str                                                           *)
(* ====================================================================== *)
Theorem assign_base s t : base (assign s t) = t.
Proof. unfold assign. destruct (_ <? _); [reflexivity|]. destruct (_ <? _); reflexivity. Qed.

(* characters present before and after keep their settings (same objects, same order) *)
Theorem assign_keep s t k :
  ssorted (tbl s) -> keys_le (tbl s) (length (base s)) ->
  k < Nat.min (length (base s)) (length t) ->
  active_at (tbl (assign s t)) k = active_at (tbl s) k.
Proof.
  intros Hs Hk Hlt. unfold assign.
  destruct (length (base s) <? length t) eqn:E1; cbn [tbl].
  - apply Nat.ltb_lt in E1.
    destruct (tmove_props (tbl s) (length (base s)) (length t) Hs Hk) as (_ & _ & _ & _ & H & _); try lia.
    apply H. lia.
  - destruct (length t <? length (base s)) eqn:E2; cbn [tbl]; [|reflexivity].
    apply Nat.ltb_lt in E2. unfold slice_core.
    replace (length t <=? 0) with false by (symmetry; apply Nat.leb_gt; lia). cbn [tbl].
    rewrite slice_active; auto; lia.
Qed.

(* added characters report the settings of the last old character *)
Theorem assign_extend s t k :
  ssorted (tbl s) -> keys_le (tbl s) (length (base s)) ->
  0 < length (base s) -> length (base s) <= k < length t ->
  active_at (tbl (assign s t)) k = active_at (tbl s) (length (base s) - 1).
Proof.
  intros Hs Hk H0 Hlt. unfold assign.
  replace (length (base s) <? length t) with true by (symmetry; apply Nat.ltb_lt; lia). cbn [tbl].
  destruct (tmove_props (tbl s) (length (base s)) (length t) Hs Hk) as (_ & _ & _ & _ & _ & H); try lia.
  apply H. lia.
Qed.

(* shrinking: the table is that of the slice [0, new) *)
Theorem assign_shrink s t : length t < length (base s) ->
  tbl (assign s t) = tbl (getitem_slice s None (Some (Z.of_nat (length t))))
  /\ tbl (assign s t) = match length t with O => [] | _ => slice_tbl (tbl s) 0 (length t) end.
Proof.
  intros Hlt. unfold assign.
  replace (length (base s) <? length t) with false by (symmetry; apply Nat.ltb_ge; lia).
  replace (length t <? length (base s)) with true by (symmetry; apply Nat.ltb_lt; lia). cbn [tbl].
  split.
  - unfold getitem_slice. rewrite StrOpsProofs.slice_idx_nat. change (slice_idx (length (base s)) None 0) with 0.
    now replace (Nat.min (length t) (length (base s))) with (length t) by lia.
  - unfold slice_core. destruct (length t) as [|n]; reflexivity.
Qed.

(* ... and nothing stays open after the new end *)
Theorem assign_shrink_closed s t : ssorted (tbl s) -> nodup_active (tbl s) ->
  length t < length (base s) -> forall k, length t <= k -> active_at (tbl (assign s t)) k = [].
Proof.
  intros Hs Hn Hlt k Hk. destruct (assign_shrink s t Hlt) as [_ E]. rewrite E.
  destruct (length t) as [|n] eqn:El; [reflexivity|].
  assert (Sc : ssorted (slice_tbl (tbl s) 0 (S n))) by (apply slice_tbl_sorted; auto; lia).
  rewrite (active_beyond _ Sc k).
  - apply slice_closed; [exact Hs | lia | apply Hn].
  - intros kp Hin. pose proof (slice_tbl_keys (tbl s) 0 (S n) ltac:(lia) kp Hin). lia.
Qed.

(* moving the end marker preserves well-formedness (any L, including the empty string) *)
Lemma tmove_WF t L M b b' : length b = L -> length b' = M -> L < M -> WF (mkA b t) -> WF (mkA b' (tmove L M t)).
Proof.
  intros Eb Eb' HLM (Ss & Ks & Os & Ns & Fs). cbn [tbl base] in *. rewrite Eb in Ks.
  unfold WF. cbn [tbl base]. rewrite Eb'.
  destruct (last_decomp t L Ss Ks) as [Hlt | (t0 & p & E & Hs0 & Hlt)].
  - assert (En : tget L t = None).
    { apply tget_notin. intros kp Hin. specialize (Hlt kp Hin). lia. }
    assert (Et : tmove L M t = t) by (unfold tmove; now rewrite En).
    rewrite Et. repeat split; auto. intros kp Hin. specialize (Ks kp Hin). lia.
  - subst t. rewrite (tmove_snoc L M p t0 Hlt) by lia.
    assert (HltM : keys_lt t0 M) by (intros kp Hin; specialize (Hlt kp Hin); lia).
    assert (Sc : ssorted (t0 ++ [(M, p)])) by now apply ssorted_snoc.
    assert (Kc : keys_le (t0 ++ [(M, p)]) M).
    { intros kp Hin. apply in_app_or in Hin as [Hin|[<-|[]]]; cbn [fst]; auto. specialize (HltM kp Hin). lia. }
    assert (Fc : final_active (t0 ++ [(M, p)]) = []).
    { rewrite <- Fs. change (run [] (t0 ++ [(M, p)]) = run [] (t0 ++ [(L, p)])). now rewrite !run_app. }
    repeat split; auto.
    + unfold strict_ok in *. rewrite ApplyProofs.sok_app in *. rewrite !ApplyProofs.sok_cons in *. exact Os.
    + intros k. destruct (Nat.lt_ge_cases k M) as [HkM|HkM].
      * rewrite (active_at_run _ k Sc). rewrite upto_snoc_lt by exact HkM.
        destruct (Nat.lt_ge_cases k L) as [HkL|HkL].
        -- specialize (Ns k). rewrite (active_at_run _ k Ss), upto_snoc_lt in Ns by exact HkL. exact Ns.
        -- destruct L as [|L'].
           ++ destruct t0 as [|kp t0]; [constructor|]. specialize (Hlt kp (or_introl eq_refl)). lia.
           ++ specialize (Ns L'). rewrite (active_at_run _ L' Ss), upto_snoc_lt in Ns by lia.
              rewrite (upto_all k t0) by (intros kp Hin; specialize (Hlt kp Hin); lia).
              rewrite (upto_all L' t0) in Ns by (intros kp Hin; specialize (Hlt kp Hin); lia). exact Ns.
      * rewrite (active_beyond _ Sc k) by (intros kp Hin; specialize (Kc kp Hin); lia). rewrite Fc. constructor.
Qed.

Theorem assign_WF s t : WF s -> WF (assign s t).
Proof.
  intros W. unfold assign.
  destruct (length (base s) <? length t) eqn:E1.
  - apply Nat.ltb_lt in E1. apply (tmove_WF (tbl s) (length (base s)) (length t) (base s) t); auto.
  - destruct (length t <? length (base s)) eqn:E2.
    + apply Nat.ltb_lt in E2.
      pose proof (slice_core_WF s 0 (length t) W ltac:(lia)) as Wc.
      destruct Wc as (S1 & K1 & O1 & N1 & F1). unfold WF. cbn [tbl base]. repeat split; auto.
      intros kp Hin. specialize (K1 kp Hin). unfold slice_core in K1, Hin.
      destruct (length t <=? 0) eqn:E3; cbn [base tbl] in K1, Hin; [destruct Hin|].
      rewrite str_slice_length in K1 by lia. lia.
    + apply Nat.ltb_ge in E1, E2. destruct W as (S1 & K1 & O1 & N1 & F1).
      unfold WF. cbn [tbl base]. replace (length t) with (length (base s)) by lia. repeat split; auto.
Qed.

(* the empty string: a well-formed empty value has no settings at all, and assigning a longer text
   gives unformatted text *)
Theorem assign_empty s t k : WF s -> base s = [] -> active_at (tbl (assign s t)) k = [].
Proof.
  intros (Ss & Ks & Os & Ns & Fs) E. rewrite E in Ks. cbn [length] in Ks.
  unfold assign. rewrite E. cbn [length].
  destruct (0 <? length t) eqn:E1; cbn [tbl].
  - apply Nat.ltb_lt in E1.
    destruct (last_decomp (tbl s) 0 Ss Ks) as [Hlt | (t0 & p & Et & Hs0 & Hlt)].
    + destruct (tbl s) as [|kp r]; [reflexivity|]. specialize (Hlt kp (or_introl eq_refl)). lia.
    + assert (t0 = []) by (destruct t0 as [|kp r]; auto; specialize (Hlt kp (or_introl eq_refl)); lia). subst t0.
      cbn [app] in Et. unfold final_active in Fs. rewrite Et in Fs |- *. cbn [fold_left snd] in Fs.
      pose proof (tmove_snoc 0 (length t) p [] Hlt ltac:(lia)) as Em. cbn [app] in Em. rewrite Em.
      unfold active_at. cbn [active_upto]. destruct (length t <=? k); [exact Fs|reflexivity].
  - replace (length t <? 0) with false by (symmetry; apply Nat.ltb_ge; lia). cbn [tbl].
    rewrite (active_beyond _ Ss k) by (intros kp Hin; specialize (Ks kp Hin); lia). exact Fs.
Qed.

(* ====================================================================== *)
(* B. replace: the text is what str.replace gives                          *)
(* ====================================================================== *)
(* str.replace(old, new, count) for a non-empty old: cut at the leftmost occurrence (PyStr.cut_first),
   put new there, go on in the rest; at most count times when count >= 0, always when count < 0 *)
Fixpoint replace_fuel (fuel : nat) (old new : str) (count : Z) (s : str) : str :=
  match fuel with
  | O => s
  | S f => if (count =? 0)%Z then s
           else match cut_first old s with
                | None => s
                | Some (a, b) => a ++ new ++ replace_fuel f old new (count - 1) b
                end
  end.
Definition py_replace (s old new : str) (count : Z) : str := replace_fuel (S (length s)) old new count s.

(* the same function as one structural left-to-right scan (skip: characters of a match still to pass) *)
Fixpoint replace_scan (old new : str) (m : Z) (s : str) (skip : nat) : str :=
  match s with
  | [] => []
  | c :: r =>
    match skip with
    | S k => replace_scan old new m r k
    | O => if negb (m =? 0)%Z && starts_with s old
           then new ++ replace_scan old new (m - 1) r (length old - 1)
           else c :: replace_scan old new m r 0
    end
  end.

Import String.StringSyntax.
Local Open Scope string_scope.
Local Definition tS (x : String.string) : str := str_of_string x.
Example ex_py_replace_overlap : py_replace (tS "aaaa") (tS "aa") (tS "b") (-1) = tS "bb". Proof. reflexivity. Qed.
Example ex_py_replace_odd : py_replace (tS "aaaaa") (tS "aa") (tS "b") (-1) = tS "bba". Proof. reflexivity. Qed.
Example ex_py_replace_count : py_replace (tS "xaaaay") (tS "a") (tS "bc") 2 = tS "xbcbcaay". Proof. reflexivity. Qed.
Example ex_py_replace_grow : py_replace (tS "xaaaay") (tS "aa") (tS "aaa") (-1) = tS "xaaaaaay". Proof. reflexivity. Qed.
Example ex_py_replace_zero : py_replace (tS "xaaaay") (tS "a") (tS "b") 0 = tS "xaaaay". Proof. reflexivity. Qed.
Example ex_py_replace_absent : py_replace (tS "xaaaay") (tS "q") (tS "b") (-1) = tS "xaaaay". Proof. reflexivity. Qed.
Example ex_py_replace_del : py_replace (tS "xaaaay") (tS "aa") [] (-1) = tS "xy". Proof. reflexivity. Qed.
Example ex_scan_overlap : replace_scan (tS "aa") (tS "b") (-1) (tS "aaaaa") 0 = tS "bba". Proof. reflexivity. Qed.
Local Close Scope string_scope.

Lemma nonempty_length (x : str) : x <> [] -> 0 < length x.
Proof. destruct x; [congruence|simpl; lia]. Qed.

Lemma cut_first_parts sep s a b : cut_first sep s = Some (a, b) -> s = a ++ sep ++ b.
Proof.
  intros E. pose proof (StrOpsProofs.find_at_cut sep s 0) as H. rewrite E in H.
  destruct (find_at s sep 0); [|contradiction]. tauto.
Qed.

Lemma replace_fuel_irrel old new : old <> [] -> forall f1 f2 s m, length s < f1 -> length s < f2 ->
  replace_fuel f1 old new m s = replace_fuel f2 old new m s.
Proof.
  intros Ho. apply nonempty_length in Ho.
  induction f1 as [|f1 IH]; intros [|f2] s m H1 H2; try lia.
  cbn [replace_fuel]. destruct (m =? 0)%Z; auto.
  destruct (cut_first old s) as [[a b]|] eqn:E; auto.
  apply cut_first_parts in E. do 2 f_equal.
  assert (length s = length a + length old + length b) by (rewrite E, !app_length; lia).
  apply IH; lia.
Qed.

Lemma replace_fuel_S f old new m s :
  replace_fuel (S f) old new m s =
  if (m =? 0)%Z then s else
  match cut_first old s with
  | None => s
  | Some (a, b) => a ++ new ++ replace_fuel f old new (m - 1) b
  end.
Proof. reflexivity. Qed.

Lemma py_replace_unfold s old new m : old <> [] ->
  py_replace s old new m =
  if (m =? 0)%Z then s else
  match cut_first old s with
  | None => s
  | Some (a, b) => a ++ new ++ py_replace b old new (m - 1)
  end.
Proof.
  intros Ho. unfold py_replace. rewrite replace_fuel_S. destruct (m =? 0)%Z; auto.
  destruct (cut_first old s) as [[a b]|] eqn:E; auto.
  apply cut_first_parts in E. do 2 f_equal. apply nonempty_length in Ho as Hl.
  assert (length s = length a + length old + length b) by (rewrite E, !app_length; lia).
  apply replace_fuel_irrel; auto; lia.
Qed.

(* a negative count means "all", whatever its value *)
Lemma replace_fuel_neg old new : forall f s m1 m2, (m1 < 0)%Z -> (m2 < 0)%Z ->
  replace_fuel f old new m1 s = replace_fuel f old new m2 s.
Proof.
  induction f as [|f IH]; intros s m1 m2 H1 H2; [reflexivity|]. cbn [replace_fuel].
  replace (m1 =? 0)%Z with false by (symmetry; apply Z.eqb_neq; lia).
  replace (m2 =? 0)%Z with false by (symmetry; apply Z.eqb_neq; lia).
  destruct (cut_first old s) as [[a b]|]; auto. do 2 f_equal. apply IH; lia.
Qed.
Lemma py_replace_neg s old new m1 m2 : (m1 < 0)%Z -> (m2 < 0)%Z -> py_replace s old new m1 = py_replace s old new m2.
Proof. apply replace_fuel_neg. Qed.

(* the scan and the cut-based definition agree *)
Lemma scan_skip old new m : forall pre r, replace_scan old new m (pre ++ r) (length pre) = replace_scan old new m r 0.
Proof. induction pre as [|c pre IH]; intros r; [destruct r; reflexivity|]. cbn [app length replace_scan]. apply IH. Qed.

Lemma scan_m0 old new : forall s, replace_scan old new 0 s 0 = s.
Proof. induction s as [|c s IH]; [reflexivity|]. cbn [replace_scan Z.eqb negb andb]. now rewrite IH. Qed.

Lemma scan_none old new m : forall s, cut_first old s = None -> replace_scan old new m s 0 = s.
Proof.
  induction s as [|c s IH]; intros E; [reflexivity|]. cbn [cut_first] in E. cbn [replace_scan].
  destruct (starts_with (c :: s) old); [discriminate|]. rewrite andb_false_r.
  destruct (cut_first old s) as [[a b]|]; [discriminate|]. now rewrite IH.
Qed.

Lemma scan_to_first old new m : old <> [] -> (m =? 0)%Z = false -> forall s a b,
  cut_first old s = Some (a, b) ->
  replace_scan old new m s 0 = a ++ new ++ replace_scan old new (m - 1) b 0.
Proof.
  intros Ho Hm. induction s as [|c s IH]; intros a b E.
  - cbn [cut_first] in E. destruct old; [congruence|discriminate].
  - cbn [cut_first] in E. cbn [replace_scan]. rewrite Hm. cbn [negb andb].
    destruct (starts_with (c :: s) old) eqn:Es.
    + inversion E; subst a b. cbn [app]. f_equal.
      apply StrOpsProofs.starts_with_app in Es. destruct old as [|o old']; [congruence|].
      cbn [app length skipn] in Es |- *. inversion Es as [[Ec Es']]. replace (S (length old') - 1) with (length old') by lia.
      rewrite Es' at 1. rewrite <- Es'. apply scan_skip.
    + destruct (cut_first old s) as [[a' b']|] eqn:E'; [|discriminate]. inversion E; subst a b.
      cbn [app]. f_equal. now apply IH.
Qed.

Theorem py_replace_scan s old new m : old <> [] -> py_replace s old new m = replace_scan old new m s 0.
Proof.
  intros Ho. apply nonempty_length in Ho as Hl.
  assert (H : forall n s m, length s < n -> py_replace s old new m = replace_scan old new m s 0).
  { induction n as [|n IH]; intros s0 m0 Hn; [lia|].
    rewrite py_replace_unfold by exact Ho. destruct (m0 =? 0)%Z eqn:Em.
    - apply Z.eqb_eq in Em. subst m0. now rewrite scan_m0.
    - destruct (cut_first old s0) as [[a b]|] eqn:E.
      + rewrite (scan_to_first old new m0 Ho Em s0 a b E). apply cut_first_parts in E.
        assert (length s0 = length a + length old + length b) by (rewrite E, !app_length; lia).
        rewrite IH by lia. reflexivity.
      + now rewrite scan_none. }
  apply (H (S (length s))). lia.
Qed.

(* ---------- the model's loop ---------- *)
(* the text a replacement contributes: a str is parsed first (its SGR sequences are not text) *)
Definition repl_text (r : repl) : str :=
  match r with RStr raw => unformatted (tokenize false (Some [CH_m]) raw) | RObj a => base a end.
(* a plain-str replacement without escape sequences (so that AnsiString(raw) is raw, unformatted) *)
Definition repl_plain (r : repl) : Prop := match r with RStr raw => no_esc raw = true | RObj _ => True end.

Lemma repl_text_plain raw : no_esc raw = true -> repl_text (RStr raw) = raw.
Proof. intros H. cbn [repl_text]. rewrite <- (parse_base raw 0), (parse_plain raw 0 H). reflexivity. Qed.

Lemma repl_len_text r : repl_plain r -> repl_len r = length (repl_text r).
Proof. destruct r as [raw|a]; cbn [repl_plain]; intros H; [now rewrite repl_text_plain|reflexivity]. Qed.

(* whatever the replacement: the value put in has the text repl_text r *)
Lemma repl_value_base obj i r nid : base (fst (repl_value obj i r nid)) = repl_text r.
Proof.
  destruct r as [raw|a]; cbn [repl_value repl_text]; [|reflexivity].
  rewrite <- (parse_base raw nid). destruct (parse raw nid) as [p nid0]. cbn [fst].
  destruct (is_nil _); [reflexivity|].
  destruct (Parse.fresh _ _) as [news nid']. cbn [fst]. now rewrite ApplyProofs.apply_fmt_base.
Qed.

(* concatenation can only fail with IndexError (and does not fail at all on well-formed operands) *)
Lemma retarget_err : forall pairs rems fnd rp e, retarget pairs rems fnd rp = Err e -> e = IndexError.
Proof.
  induction pairs as [|[fi ai] pairs IH]; intros rems fnd rp e H; [discriminate|]. cbn [retarget] in H.
  destruct (nth_error rp fi); [|congruence]. destruct (_ && _); [eauto|congruence].
Qed.
Lemma iadd_loop_err shift seam : forall inc t fnd rp e, iadd_loop inc shift seam t fnd rp = Err e -> e = IndexError.
Proof.
  induction inc as [|[k0 ip] rest IH]; intros t fnd rp e H; [discriminate|]. cbn [iadd_loop] in H.
  destruct (tget (k0 + shift) t) as [mine|].
  - destruct (_ && _); eauto.
  - destruct (retarget _ _ _ _) as [[[rems f'] r']|e'] eqn:E; [eauto|].
    inversion H; subst. eapply retarget_err; eauto.
Qed.
Lemma iadd_err a b e : iadd a b = Err e -> e = IndexError.
Proof.
  unfold iadd. destruct (iadd_loop _ _ _ _ _ _) as [t|e'] eqn:E; cbn [bind]; [discriminate|].
  intros H. inversion H; subst. eapply iadd_loop_err; eauto.
Qed.
Lemma iadd_text a b c : iadd a b = OK c -> base c = base a ++ base b.
Proof.
  unfold iadd. destruct (iadd_loop _ _ _ _ _ _) as [t|e]; cbn [bind]; [|discriminate].
  intros H. inversion H. reflexivity.
Qed.

Lemma slice_prefix_base obj i : i <= length (base obj) ->
  base (getitem_slice obj None (Some (Z.of_nat i))) = firstn i (base obj).
Proof.
  intros Hi. rewrite api_text. rewrite StrOpsProofs.slice_idx_nat.
  change (slice_idx (length (base obj)) None 0) with 0. unfold str_slice. cbn [skipn].
  f_equal. lia.
Qed.
Lemma slice_suffix_base obj j : j <= length (base obj) ->
  base (getitem_slice obj (Some (Z.of_nat j)) None) = skipn j (base obj).
Proof.
  intros Hj. rewrite api_text. rewrite StrOpsProofs.slice_idx_nat.
  change (slice_idx (length (base obj)) None (length (base obj))) with (length (base obj)).
  unfold str_slice. replace (Nat.min j (length (base obj))) with j by lia.
  apply firstn_all2. rewrite skipn_length. lia.
Qed.

Lemma find_from_app (D b old : str) : find_from (D ++ b) old (length D) = find_at b old (length D).
Proof.
  unfold find_from. rewrite app_length.
  replace (length D + length b <? length D) with false by (symmetry; apply Nat.ltb_ge; lia).
  now rewrite StrOpsProofs.skipn_len_app.
Qed.

Definition dec_count (count : Z) : Z := if (0 <? count)%Z then (count - 1)%Z else count.

Lemma replace_loop_S f obj old r count idx nid :
  replace_loop (S f) obj old r count idx nid =
  match idx with
  | None => OK (obj, nid)
  | Some i =>
    if (count =? 0)%Z then OK (obj, nid)
    else
      let '(rv, nid) := repl_value obj i r nid in
      do lft <- add (getitem_slice obj None (Some (Z.of_nat i))) rv;
      do obj' <- add lft (getitem_slice obj (Some (Z.of_nat (i + length old))) None);
      replace_loop f obj' old r (dec_count count)
                   (find_from (base obj') old (i + length (base rv) + (if is_nil old then 1 else 0))) nid
  end.
Proof. reflexivity. Qed.

(* one iteration, on the text: [done] is finished, [rest] is a suffix of the original *)
Lemma replace_step_text obj old r done a b i nid rv nid1 lft obj' :
  base obj = done ++ a ++ old ++ b -> i = length done + length a ->
  repl_value obj i r nid = (rv, nid1) ->
  add (getitem_slice obj None (Some (Z.of_nat i))) rv = OK lft ->
  add lft (getitem_slice obj (Some (Z.of_nat (i + length old))) None) = OK obj' ->
  base rv = repl_text r /\ base obj' = (done ++ a ++ repl_text r) ++ b.
Proof.
  intros Eb Ei Erv El Eo.
  assert (Hlen : length (base obj) = length done + length a + length old + length b)
    by (rewrite Eb, !app_length; lia).
  apply iadd_text in El. apply iadd_text in Eo.
  pose proof (repl_value_base obj i r nid) as Hrv. rewrite Erv in Hrv. cbn [fst] in Hrv.
  rewrite slice_prefix_base in El by lia. rewrite slice_suffix_base in Eo by lia.
  assert (E1 : firstn i (base obj) = done ++ a).
  { rewrite Eb, app_assoc. subst i. rewrite <- app_length. apply StrOpsProofs.firstn_len_app. }
  assert (E2 : skipn (i + length old) (base obj) = b).
  { rewrite Eb. subst i. rewrite !app_assoc. rewrite <- !app_length. apply StrOpsProofs.skipn_len_app. }
  rewrite E1, Hrv in El. rewrite E2 in Eo. rewrite <- app_assoc in El. split; [exact Hrv|]. now rewrite Eo, El.
Qed.

Lemma py_replace_dec b old new count : (count =? 0)%Z = false ->
  py_replace b old new (dec_count count) = py_replace b old new (count - 1).
Proof.
  intros H. apply Z.eqb_neq in H. unfold dec_count. destruct (0 <? count)%Z eqn:E; [reflexivity|].
  apply Z.ltb_ge in E. apply py_replace_neg; lia.
Qed.

Lemma replace_loop_text old r : old <> [] ->
  forall fuel obj done rest count nid,
  base obj = done ++ rest -> length rest < fuel ->
  match replace_loop fuel obj old r count (find_at rest old (length done)) nid with
  | OK (o, _) => base o = done ++ py_replace rest old (repl_text r) count
  | Err e => e = IndexError
  end.
Proof.
  intros Ho. apply nonempty_length in Ho as Hl.
  induction fuel as [|f IH]; intros obj done rest count nid Eb Hf; [lia|].
  rewrite replace_loop_S, (py_replace_unfold rest old (repl_text r) count Ho).
  pose proof (StrOpsProofs.find_at_cut old rest (length done)) as Hc.
  destruct (find_at rest old (length done)) as [i|], (cut_first old rest) as [[a b]|]; try contradiction.
  2:{ destruct (count =? 0)%Z; exact Eb. }
  destruct Hc as [Ei Er]. destruct (count =? 0)%Z eqn:Ec; [exact Eb|].
  destruct (repl_value obj i r nid) as [rv nid1] eqn:Erv.
  destruct (add _ rv) as [lft|e] eqn:El; cbn [bind]; [|now apply iadd_err in El].
  destruct (add lft _) as [obj'|e] eqn:Eo; cbn [bind]; [|now apply iadd_err in Eo].
  rewrite Er in Eb.
  destruct (replace_step_text obj old r done a b i nid rv nid1 lft obj' Eb Ei Erv El Eo) as [Hrv Eo'].
  replace (is_nil old) with false by (destruct old; [congruence|reflexivity]).
  rewrite Nat.add_0_r, Hrv, Eo'.
  replace (i + length (repl_text r)) with (length (done ++ a ++ repl_text r)) by (rewrite !app_length; lia).
  rewrite find_from_app.
  assert (Hb : length b < f) by (rewrite Er, !app_length in Hf; lia).
  specialize (IH obj' (done ++ a ++ repl_text r) b (dec_count count) nid1 Eo' Hb).
  destruct (replace_loop f obj' old r (dec_count count) _ nid1) as [[o n]|e]; [|exact IH].
  rewrite IH, py_replace_dec by exact Ec. now rewrite <- !app_assoc.
Qed.

(* B1. the text of the result *)
Theorem replace_text s old r count nid s' nid' : old <> [] ->
  replace s old r count nid = OK (s', nid') ->
  base s' = py_replace (base s) old (repl_text r) count.
Proof.
  intros Ho E. unfold replace in E. rewrite StrOpsProofs.find_from_0 in E.
  pose proof (replace_loop_text old r Ho (length (base s) + 2) s [] (base s) count nid eq_refl ltac:(lia)) as H.
  cbn [length] in H. rewrite E in H. exact H.
Qed.

(* B2. the fuel is always sufficient: the out-of-fuel answer (ValueError) is never given *)
Theorem replace_fuel_enough s old r count nid e : old <> [] ->
  replace s old r count nid = Err e -> e = IndexError.
Proof.
  intros Ho E. unfold replace in E. rewrite StrOpsProofs.find_from_0 in E.
  pose proof (replace_loop_text old r Ho (length (base s) + 2) s [] (base s) count nid eq_refl ltac:(lia)) as H.
  cbn [length] in H. rewrite E in H. exact H.
Qed.

(* ====================================================================== *)
(* D. replace that replaces nothing: count = 0, pattern absent             *)
(*    (the Python returns a copy, never the receiver; at the level of      *)
(*    values this is equality)                                             *)
(* ====================================================================== *)
Theorem replace_count_zero s old r nid : replace s old r 0 nid = OK (s, nid).
Proof.
  unfold replace. replace (length (base s) + 2) with (S (length (base s) + 1)) by lia.
  rewrite replace_loop_S. destruct (find_from (base s) old 0); reflexivity.
Qed.

Theorem replace_not_found s old r count nid : find_from (base s) old 0 = None ->
  replace s old r count nid = OK (s, nid).
Proof.
  intros H. unfold replace. replace (length (base s) + 2) with (S (length (base s) + 1)) by lia.
  rewrite replace_loop_S, H. reflexivity.
Qed.

(* "absent" in the sense of the specification *)
Theorem replace_absent s old r count nid : (forall i, ~ occurs_at old (base s) i) ->
  replace s old r count nid = OK (s, nid).
Proof.
  intros H. apply replace_not_found. rewrite StrOpsProofs.find_from_0.
  pose proof (StrOpsProofs.find_at_cut old (base s) 0) as Hc.
  pose proof (cut_first_spec old (base s)) as Hs.
  destruct (find_at (base s) old 0) as [i|]; [|reflexivity].
  destruct (cut_first old (base s)) as [[a b]|]; [|contradiction].
  destruct Hs as [E _]. exfalso. apply (H (length a)). now exists a, b.
Qed.

(* and the specification agrees: nothing to replace, nothing changes *)
Lemma py_replace_zero s old new : py_replace s old new 0 = s.
Proof. reflexivity. Qed.
Lemma py_replace_absent s old new m : (forall i, ~ occurs_at old s i) -> py_replace s old new m = s.
Proof.
  intros H. unfold py_replace. rewrite replace_fuel_S. destruct (m =? 0)%Z; auto.
  pose proof (cut_first_spec old s) as Hs. destruct (cut_first old s) as [[a b]|]; auto.
  destruct Hs as [E _]. exfalso. apply (H (length a)). now exists a, b.
Qed.

(* ====================================================================== *)
(* C. replace: the styles of the result                                    *)
(* ====================================================================== *)
(* ---------- list helpers ---------- *)
Lemma firstn_app_len {A} (l1 l2 : list A) : firstn (length l1) (l1 ++ l2) = l1.
Proof. induction l1; simpl; congruence. Qed.
Lemma skipn_app_len {A} (l1 l2 : list A) : skipn (length l1) (l1 ++ l2) = l2.
Proof. induction l1; simpl; auto. Qed.
Lemma seq_shift_add n : forall st len, seq (n + st) len = map (fun k => n + k) (seq st len).
Proof.
  intros st len. revert st. induction len as [|len IH]; intros st; [reflexivity|].
  cbn [seq map]. f_equal. rewrite <- IH. f_equal. lia.
Qed.
Lemma firstn_app_exact {A} n (l1 l2 : list A) : length l1 = n -> firstn n (l1 ++ l2) = l1.
Proof. intros <-. apply firstn_app_len. Qed.
Lemma skipn_app_exact {A} n (l1 l2 : list A) : length l1 = n -> skipn n (l1 ++ l2) = l2.
Proof. intros <-. apply skipn_app_len. Qed.
Lemma firstn_map_seq {B} (g : nat -> B) n i : i <= n -> firstn i (map g (seq 0 n)) = map g (seq 0 i).
Proof.
  intros H. replace n with (i + (n - i)) by lia. rewrite seq_app, map_app.
  apply firstn_app_exact. now rewrite map_length, seq_length.
Qed.
Lemma skipn_map_seq {B} (g : nat -> B) n i : i <= n -> skipn i (map g (seq 0 n)) = map g (seq i (n - i)).
Proof.
  intros H. replace n with (i + (n - i)) at 1 by lia. rewrite seq_app, map_app.
  apply skipn_app_exact. now rewrite map_length, seq_length.
Qed.

Lemma nth_map_seq {B} (g : nat -> B) n k d : k < n -> nth k (map g (seq 0 n)) d = g k.
Proof.
  intros H. rewrite (nth_indep _ d (g 0)) by (now rewrite map_length, seq_length).
  rewrite map_nth, seq_nth by exact H. reflexivity.
Qed.

Lemma styles_length s : length (styles s) = length (base s).
Proof. unfold styles. now rewrite map_length, seq_length. Qed.

Lemma styles_nth s k : k < length (base s) -> nth k (styles s) [] = map stxt (active_at (tbl s) k).
Proof.
  intros H. unfold styles. exact (nth_map_seq (fun k => map stxt (active_at (tbl s) k)) _ k [] H).
Qed.

Lemma skipn_map_seq' {B} (g : nat -> B) n i : i <= n ->
  skipn i (map g (seq 0 n)) = map (fun k => g (i + k)) (seq 0 (n - i)).
Proof.
  intros H. rewrite skipn_map_seq by exact H.
  replace (seq i (n - i)) with (seq (i + 0) (n - i)) by (f_equal; lia).
  now rewrite seq_shift_add, map_map.
Qed.

(* ---------- styles of slices ---------- *)
Lemma styles_slice s i j : ssorted (tbl s) -> i <= j <= length (base s) ->
  styles (getitem_slice s (Some (Z.of_nat i)) (Some (Z.of_nat j))) = firstn (j - i) (skipn i (styles s)).
Proof.
  intros Hs Hij. unfold styles at 1. rewrite api_text, !StrOpsProofs.slice_idx_nat.
  replace (Nat.min i (length (base s))) with i by lia. replace (Nat.min j (length (base s))) with j by lia.
  rewrite str_slice_length by lia.
  unfold styles. rewrite skipn_map_seq' by lia. rewrite firstn_map_seq by lia.
  apply map_ext_in. intros k Hk. apply in_seq in Hk. f_equal.
  unfold getitem_slice, slice_core. rewrite !StrOpsProofs.slice_idx_nat.
  replace (Nat.min i (length (base s))) with i by lia. replace (Nat.min j (length (base s))) with j by lia.
  replace (j <=? i) with false by (symmetry; apply Nat.leb_gt; lia). cbn [tbl].
  apply slice_active; auto; lia.
Qed.

Lemma getitem_none_l s b : getitem_slice s None b = getitem_slice s (Some (Z.of_nat 0)) b.
Proof. unfold getitem_slice. now rewrite StrOpsProofs.slice_idx_nat. Qed.
Lemma getitem_none_r s a :
  getitem_slice s a None = getitem_slice s a (Some (Z.of_nat (length (base s)))).
Proof. unfold getitem_slice. now rewrite StrOpsProofs.slice_idx_nat, Nat.min_id. Qed.

Lemma styles_prefix s i : ssorted (tbl s) -> i <= length (base s) ->
  styles (getitem_slice s None (Some (Z.of_nat i))) = firstn i (styles s).
Proof. intros Hs Hi. rewrite getitem_none_l, styles_slice by (auto; lia). cbn [skipn]. f_equal. lia. Qed.

Lemma styles_suffix s j : ssorted (tbl s) -> j <= length (base s) ->
  styles (getitem_slice s (Some (Z.of_nat j)) None) = skipn j (styles s).
Proof.
  intros Hs Hj. rewrite getitem_none_r, styles_slice by (auto; lia).
  apply firstn_all2. rewrite skipn_length, styles_length. lia.
Qed.

(* ---------- the markers of a slice are markers of the source ---------- *)
Lemma slice_tbl_occurs t st en x : ssorted t -> occurs x (slice_tbl t st en) -> occurs x t.
Proof.
  intros Hs (kp & Hin & Hx). unfold slice_tbl in Hin.
  assert (Hact : forall k y, In y (active_at t k) -> occurs y t).
  { intros k y Hy. unfold active_at in Hy. apply active_upto_occurs in Hy as [[]|Hy]. exact Hy. }
  apply in_app_or in Hin as [Hin|Hin]; [|apply in_app_or in Hin as [Hin|Hin]].
  - destruct (active_at t st) eqn:Ea; [destruct Hin|]. destruct Hin as [<-|[]]. cbn [snd padd prem] in Hx.
    destruct Hx as [Hx|[]]. apply (Hact st). now rewrite Ea.
  - unfold shift_down, between in Hin. apply in_map_iff in Hin as (kp0 & <- & Hin0).
    apply filter_In in Hin0 as [Hin0 _]. cbn [snd] in Hx. now exists kp0.
  - destruct (_ ++ _) eqn:Ec in Hin; [destruct Hin|]. destruct Hin as [<-|[]]. cbn [snd padd prem] in Hx.
    destruct Hx as [[]|Hx]. rewrite <- Ec in Hx. apply in_app_or in Hx as [Hx|Hx].
    + destruct (tget en t) as [p|] eqn:G; [|destruct Hx]. exists (en, p). split; [now apply tget_In|now right].
    + apply filter_In in Hx as [Hx _]. now apply (Hact (en - 1)).
Qed.

Lemma getitem_slice_occurs s a b x : ssorted (tbl s) -> occurs x (tbl (getitem_slice s a b)) -> occurs x (tbl s).
Proof.
  intros Hs. unfold getitem_slice, slice_core. destruct (_ <=? _); cbn [tbl].
  - intros (kp & [] & _).
  - now apply slice_tbl_occurs.
Qed.

(* ---------- styles of a concatenation ---------- *)
Lemma styles_iadd a b c : WF a -> WF b -> coherent (tbl a) -> iadd a b = OK c ->
  styles c = styles a ++ styles b.
Proof.
  intros Wa Wb Ca E. unfold styles. rewrite (iadd_text a b c E), app_length, seq_app, map_app. f_equal.
  - apply map_ext_in. intros k Hk. apply in_seq in Hk. f_equal. apply (iadd_left a b Wa Wb c E). lia.
  - cbn [Nat.add]. replace (seq (length (base a)) (length (base b))) with (seq (length (base a) + 0) (length (base b)))
      by (f_equal; lia).
    rewrite seq_shift_add, map_map. apply map_ext. intros k. apply (iadd_right a b Wa Wb c Ca E).
Qed.

(* ---------- putting a value in the place of obj[i : i+n] ---------- *)
Definition sub_occurs (t' t : fmts) : Prop := forall x, occurs x t' -> occurs x t.

Lemma splice obj rv i n :
  WF obj -> WF rv -> coherent (tbl obj ++ tbl rv) -> i + n <= length (base obj) ->
  exists lft obj',
    add (getitem_slice obj None (Some (Z.of_nat i))) rv = OK lft
    /\ add lft (getitem_slice obj (Some (Z.of_nat (i + n))) None) = OK obj'
    /\ WF obj'
    /\ base obj' = firstn i (base obj) ++ base rv ++ skipn (i + n) (base obj)
    /\ styles obj' = firstn i (styles obj) ++ styles rv ++ skipn (i + n) (styles obj)
    /\ sub_occurs (tbl obj') (tbl obj ++ tbl rv).
Proof.
  intros Wo Wr Co Hin. pose proof Wo as (So & _).
  set (A := getitem_slice obj None (Some (Z.of_nat i))).
  set (B := getitem_slice obj (Some (Z.of_nat (i + n))) None).
  assert (WA : WF A) by now apply getitem_slice_WF.
  assert (WB : WF B) by now apply getitem_slice_WF.
  assert (OA : sub_occurs (tbl A) (tbl obj ++ tbl rv)).
  { intros x Hx. apply occurs_app. left. eapply getitem_slice_occurs; eauto. }
  assert (OB : sub_occurs (tbl B) (tbl obj ++ tbl rv)).
  { intros x Hx. apply occurs_app. left. eapply getitem_slice_occurs; eauto. }
  assert (OR : sub_occurs (tbl rv) (tbl obj ++ tbl rv)) by (intros x Hx; apply occurs_app; now right).
  assert (CA : coherent (tbl A)) by (eapply coherent_sub; eauto).
  unfold add. destruct (iadd_ok A rv WA Wr) as [lft El]. exists lft.
  assert (OL : sub_occurs (tbl lft) (tbl obj ++ tbl rv)).
  { intros x Hx. apply (iadd_occurs A rv lft El) in Hx as [Hx|Hx]; auto. }
  assert (WL : WF lft) by (eapply (iadd_WF A rv); eauto).
  assert (CL : coherent (tbl lft)) by (eapply coherent_sub; eauto).
  destruct (iadd_ok lft B WL WB) as [obj' Eo]. exists obj'.
  split; [exact El|]. split; [exact Eo|]. split; [eapply (iadd_WF lft B); eauto|].
  split; [|split].
  - rewrite (iadd_text _ _ _ Eo), (iadd_text _ _ _ El). unfold A, B.
    rewrite slice_prefix_base, slice_suffix_base by lia. now rewrite <- app_assoc.
  - rewrite (styles_iadd lft B obj' WL WB CL Eo), (styles_iadd A rv lft WA Wr CA El). unfold A, B.
    rewrite styles_prefix, styles_suffix by (auto; lia). now rewrite <- app_assoc.
  - intros x Hx. apply (iadd_occurs lft B obj' Eo) in Hx as [Hx|Hx]; auto.
Qed.

(* ---------- the value put in place of a match ---------- *)
Lemma fresh_props texts nid :
  let news := fst (Parse.fresh texts nid) in
  snd (Parse.fresh texts nid) = nid + length texts
  /\ map stxt news = texts /\ ids news = seq nid (length texts) /\ NoDup (ids news)
  /\ (forall x, In x news -> nid <= sid x < nid + length texts).
Proof.
  unfold Parse.fresh. cbn [fst snd].
  set (news := map (fun it : nat * str => mkS (nid + fst it) (snd it)) (combine (seq 0 (length texts)) texts)).
  assert (Hl : length (seq 0 (length texts)) = length texts) by apply seq_length.
  assert (E1 : map stxt news = texts).
  { unfold news. rewrite map_map. cbn [stxt]. now apply map_snd_combine. }
  assert (E2 : ids news = seq nid (length texts)).
  { unfold news, ids. rewrite map_map. cbn [sid].
    rewrite <- (map_map fst (fun k => nid + k)). rewrite map_fst_combine by exact Hl.
    rewrite <- (seq_shift_add nid 0). f_equal. lia. }
  split; [reflexivity|]. split; [exact E1|]. split; [exact E2|]. split.
  - rewrite E2. apply seq_NoDup.
  - intros x Hx. assert (H : In (sid x) (ids news)) by (unfold ids; now apply in_map).
    rewrite E2 in H. apply in_seq in H. lia.
Qed.

Lemma slice_idx_zero len d : slice_idx len (Some 0%Z) d = 0.
Proof. change 0%Z with (Z.of_nat 0). now rewrite StrOpsProofs.slice_idx_nat. Qed.

(* AnsiString(raw, settings) for text without escapes: the settings span the whole text *)
Lemma styled_plain c raw x news :
  apply_fmt (mkA (c :: raw) []) (x :: news) (Some 0%Z) None true
  = mkA (c :: raw) [(0, mkP (x :: news) []); (length (c :: raw), mkP [] (x :: news))].
Proof.
  unfold apply_fmt. cbn [base tbl]. rewrite slice_idx_zero.
  change (slice_idx (length (c :: raw)) None (length (c :: raw))) with (length (c :: raw)).
  cbn [length range_empty Nat.leb orb is_nil]. generalize (length raw) as n. intros n.
  unfold apply_core. cbn [base tbl].
  assert (E1 : tensure 0 [] = [(0, empty_point)]) by reflexivity. rewrite E1.
  assert (E2 : tget_or_empty 0 [(0, empty_point)] = empty_point) by reflexivity. rewrite E2.
  cbn [padd prem empty_point app].
  assert (E3 : forall p, tput 0 p [(0, empty_point)] = [(0, p)]) by reflexivity. rewrite E3.
  assert (E4 : forall p, tensure (S n) [(0, p)] = [(0, p); (S n, empty_point)]) by reflexivity. rewrite E4.
  assert (E5 : forall p, tget_or_empty (S n) [(0, p); (S n, empty_point)] = empty_point).
  { intros p. unfold tget_or_empty. cbn [tget Nat.eqb Nat.ltb Nat.leb]. now rewrite Nat.eqb_refl. }
  rewrite E5. cbn [padd prem empty_point app].
  assert (E6 : forall p q, tput (S n) q [(0, p); (S n, empty_point)] = [(0, p); (S n, q)]).
  { intros p q. cbn [tput Nat.eqb Nat.ltb Nat.leb]. now rewrite Nat.eqb_refl. }
  rewrite E6. reflexivity.
Qed.

Lemma span_active news len k : 0 < len ->
  active_at [(0, mkP news []); (len, mkP [] news)] k = if k <? len then news else [].
Proof.
  intros H. unfold active_at. cbn [active_upto Nat.leb]. unfold step at 2. cbn [fold_left prem padd app].
  destruct (k <? len) eqn:E.
  - apply Nat.ltb_lt in E. now replace (len <=? k) with false by (symmetry; apply Nat.leb_gt; lia).
  - apply Nat.ltb_ge in E. replace (len <=? k) with true by (symmetry; apply Nat.leb_le; lia).
    unfold step. cbn [prem padd]. rewrite app_nil_r. apply rm_self.
Qed.

Lemma span_WF b news : b <> [] -> NoDup (ids news) ->
  WF (mkA b [(0, mkP news []); (length b, mkP [] news)]).
Proof.
  intros Hb Hn. apply nonempty_length in Hb. unfold WF. cbn [base tbl]. split; [|split; [|split; [|split]]].
  - constructor; [|constructor; [intros kp []|constructor]]. intros kp [<-|[]]. exact Hb.
  - intros kp [<-|[<-|[]]]; cbn [fst]; lia.
  - unfold strict_ok. rewrite !ApplyProofs.sok_cons. cbn [prem padd]. unfold step. cbn [fold_left prem padd app].
    rewrite !srok_self. reflexivity.
  - intros k. rewrite span_active by exact Hb. destruct (k <? length b); [exact Hn|constructor].
  - unfold final_active. cbn [fold_left snd]. unfold step. cbn [fold_left prem padd app].
    rewrite app_nil_r. apply rm_self.
Qed.

Lemma map_const_seq {B} (x : B) n : forall st, map (fun _ : nat => x) (seq st n) = repeat x n.
Proof. induction n as [|n IH]; intros st; [reflexivity|]. cbn [seq map repeat]. now rewrite IH. Qed.

Lemma span_styles b news : b <> [] ->
  styles (mkA b [(0, mkP news []); (length b, mkP [] news)]) = repeat (map stxt news) (length b).
Proof.
  intros Hb. apply nonempty_length in Hb. unfold styles. cbn [base tbl].
  transitivity (map (fun _ : nat => map stxt news) (seq 0 (length b))).
  - apply map_ext_in. intros k Hk. apply in_seq in Hk. rewrite span_active by exact Hb.
    now replace (k <? length b) with true by (symmetry; apply Nat.ltb_lt; lia).
  - apply map_const_seq.
Qed.

Lemma plain_styles b : styles (mkA b []) = repeat [] (length b).
Proof.
  unfold styles. cbn [base tbl]. apply (map_const_seq (@nil str)).
Qed.

(* ---------- the specification of the styles ---------- *)
(* styles of the replacement, given the styles [first] of the first character of the match *)
Definition repl_styles (r : repl) (first : list str) : list (list str) :=
  match r with
  | RStr raw => repeat first (length raw)
  | RObj a => styles a
  end.

(* text [s] and its per-character styles [st] are walked together: unmatched stretches keep their
   styles, every match gets the styles of the replacement *)
Fixpoint replace_styles_fuel (fuel : nat) (old : str) (r : repl) (count : Z) (s : str) (st : list (list str))
  : list (list str) :=
  match fuel with
  | O => st
  | S f => if (count =? 0)%Z then st
           else match cut_first old s with
                | None => st
                | Some (a, b) =>
                  firstn (length a) st
                  ++ repl_styles r (nth (length a) st [])
                  ++ replace_styles_fuel f old r (count - 1) b (skipn (length a + length old) st)
                end
  end.
Definition replace_styles (s : str) (st : list (list str)) (old : str) (r : repl) (count : Z) : list (list str) :=
  replace_styles_fuel (S (length s)) old r count s st.

Lemma replace_styles_fuel_S f old r m s st :
  replace_styles_fuel (S f) old r m s st =
  if (m =? 0)%Z then st
  else match cut_first old s with
       | None => st
       | Some (a, b) =>
         firstn (length a) st ++ repl_styles r (nth (length a) st [])
         ++ replace_styles_fuel f old r (m - 1) b (skipn (length a + length old) st)
       end.
Proof. reflexivity. Qed.

Lemma replace_styles_fuel_irrel old r : old <> [] -> forall f1 f2 s m st, length s < f1 -> length s < f2 ->
  replace_styles_fuel f1 old r m s st = replace_styles_fuel f2 old r m s st.
Proof.
  intros Ho. apply nonempty_length in Ho.
  induction f1 as [|f1 IH]; intros [|f2] s m st H1 H2; try lia.
  rewrite !replace_styles_fuel_S. destruct (m =? 0)%Z; auto.
  destruct (cut_first old s) as [[a b]|] eqn:E; auto.
  apply cut_first_parts in E. do 2 f_equal.
  assert (length s = length a + length old + length b) by (rewrite E, !app_length; lia).
  apply IH; lia.
Qed.

Lemma replace_styles_unfold s st old r m : old <> [] ->
  replace_styles s st old r m =
  if (m =? 0)%Z then st
  else match cut_first old s with
       | None => st
       | Some (a, b) =>
         firstn (length a) st ++ repl_styles r (nth (length a) st [])
         ++ replace_styles b (skipn (length a + length old) st) old r (m - 1)
       end.
Proof.
  intros Ho. unfold replace_styles. rewrite replace_styles_fuel_S. destruct (m =? 0)%Z; auto.
  destruct (cut_first old s) as [[a b]|] eqn:E; auto.
  apply cut_first_parts in E. do 2 f_equal. apply nonempty_length in Ho as Hl.
  assert (length s = length a + length old + length b) by (rewrite E, !app_length; lia).
  apply replace_styles_fuel_irrel; auto; lia.
Qed.

Lemma replace_styles_fuel_neg old r : forall f s st m1 m2, (m1 < 0)%Z -> (m2 < 0)%Z ->
  replace_styles_fuel f old r m1 s st = replace_styles_fuel f old r m2 s st.
Proof.
  induction f as [|f IH]; intros s st m1 m2 H1 H2; [reflexivity|]. rewrite !replace_styles_fuel_S.
  replace (m1 =? 0)%Z with false by (symmetry; apply Z.eqb_neq; lia).
  replace (m2 =? 0)%Z with false by (symmetry; apply Z.eqb_neq; lia).
  destruct (cut_first old s) as [[a b]|]; auto. do 2 f_equal. apply IH; lia.
Qed.

Lemma replace_styles_dec b st old r count : (count =? 0)%Z = false ->
  replace_styles b st old r (dec_count count) = replace_styles b st old r (count - 1).
Proof.
  intros H. apply Z.eqb_neq in H. unfold dec_count. destruct (0 <? count)%Z eqn:E; [reflexivity|].
  apply Z.ltb_ge in E. apply replace_styles_fuel_neg; lia.
Qed.

Lemma repl_styles_length r x : length (repl_styles r x) = repl_len r.
Proof. destruct r; cbn [repl_styles repl_len]; [apply repeat_length|apply styles_length]. Qed.

(* ---------- hypotheses ---------- *)
Definition ids_below (n : nat) (t : fmts) : Prop := forall x, occurs x t -> sid x < n.

(* the replacement: a plain str without escapes, or a well-formed object *)
Definition repl_ok (r : repl) : Prop := match r with RStr raw => no_esc raw = true | RObj a => WF a end.

(* the receiver: well formed; an identity has one text (across receiver and replacement object);
   for a str replacement the identities handed out from nid on are new *)
Definition repl_inv (r : repl) (obj : astr) (nid : nat) : Prop :=
  WF obj /\ match r with
            | RObj a => coherent (tbl obj ++ tbl a)
            | RStr _ => coherent (tbl obj) /\ ids_below nid (tbl obj)
            end.

Lemma repl_ok_plain r : repl_ok r -> repl_plain r.
Proof. destruct r; cbn; auto. Qed.

Lemma rstr_coherent obj rv news nid n :
  coherent (tbl obj) -> ids_below nid (tbl obj) -> NoDup (ids news) ->
  (forall x, In x news -> nid <= sid x < nid + n) -> (forall y, occurs y (tbl rv) -> In y news) ->
  coherent (tbl obj ++ tbl rv) /\ ids_below (nid + n) (tbl obj ++ tbl rv).
Proof.
  intros Co Ib Nd Hr Ho. split.
  - intros x y Ox Oy E. apply occurs_app in Ox, Oy. destruct Ox as [Ox|Ox], Oy as [Oy|Oy].
    + now apply Co.
    + apply Ib in Ox. apply Ho, Hr in Oy. lia.
    + apply Ib in Oy. apply Ho, Hr in Ox. lia.
    + apply Ho in Ox, Oy. now rewrite (nodup_ids_inj news x y Nd Ox Oy E).
  - intros x Ox. apply occurs_app in Ox as [Ox|Ox].
    + apply Ib in Ox. lia.
    + apply Ho, Hr in Ox. lia.
Qed.

Lemma no_occurs_nil x : ~ occurs x [].
Proof. intros (kp & [] & _). Qed.

Lemma styles_nth_gen s i : nth i (styles s) [] = map stxt (settings_at_nat s i).
Proof.
  unfold settings_at_nat. destruct (i <? length (base s)) eqn:E.
  - apply Nat.ltb_lt in E. now apply styles_nth.
  - apply Nat.ltb_ge in E. apply nth_overflow. now rewrite styles_length.
Qed.

(* (for i = len(obj), the position of the empty match at the end, both sides are "no settings") *)
Lemma repl_value_props obj i r nid rv nid1 :
  repl_ok r -> repl_inv r obj nid ->
  repl_value obj i r nid = (rv, nid1) ->
  WF rv /\ base rv = repl_text r /\ styles rv = repl_styles r (nth i (styles obj) [])
  /\ coherent (tbl obj ++ tbl rv)
  /\ (forall obj', WF obj' -> sub_occurs (tbl obj') (tbl obj ++ tbl rv) -> repl_inv r obj' nid1).
Proof.
  intros Hok [Wo Hinv] E. rewrite styles_nth_gen.
  destruct r as [raw|a]; cbn [repl_ok repl_styles] in *.
  - rewrite (repl_text_plain raw Hok). destruct Hinv as [Co Ib].
    (* all cases end the same way *)
    assert (Fin : forall news n, NoDup (ids news) -> (forall x, In x news -> nid <= sid x < nid + n) ->
              (forall y, occurs y (tbl rv) -> In y news) -> nid1 = nid + n ->
              coherent (tbl obj ++ tbl rv)
              /\ (forall obj', WF obj' -> sub_occurs (tbl obj') (tbl obj ++ tbl rv) -> repl_inv (RStr raw) obj' nid1)).
    { intros news n Nd Hr Ho ->. destruct (rstr_coherent obj rv news nid n Co Ib Nd Hr Ho) as [C1 I1].
      split; [exact C1|]. intros obj' W' Hsub. split; [exact W'|]. split.
      - eapply coherent_sub; eauto.
      - intros x Hx. apply I1. now apply Hsub. }
    cbn [repl_value] in E. rewrite (parse_plain raw nid Hok) in E.
    set (texts := map stxt (settings_at_nat obj i)) in *.
    destruct (is_nil texts) eqn:En.
    + inversion E; subst rv nid1. apply is_nil_true in En. rewrite En.
      split; [apply WF_plain|]. split; [reflexivity|]. split; [apply plain_styles|].
      apply (Fin [] 0); [constructor|intros x []| |lia]. cbn [tbl]. intros y Hy. now apply no_occurs_nil in Hy.
    + pose proof (fresh_props texts nid) as (P1 & P2 & P3 & P4 & P5).
      destruct (Parse.fresh texts nid) as [news nid'] eqn:Ef. cbn [fst snd] in *. subst nid'.
      inversion E; subst nid1. clear E. subst rv.
      destruct raw as [|c raw'].
      * change (apply_fmt (mkA [] []) news (Some 0%Z) None true) with (mkA (@nil char) []) in *.
        split; [apply WF_plain|]. split; [reflexivity|]. split; [reflexivity|].
        apply (Fin news (length texts)); auto. cbn [tbl]. intros y Hy. now apply no_occurs_nil in Hy.
      * destruct news as [|x news']; [destruct texts; [discriminate En|discriminate P2]|].
        rewrite styled_plain in *.
        split; [apply span_WF; [discriminate|exact P4]|]. split; [reflexivity|].
        split; [rewrite span_styles by discriminate; now rewrite P2|].
        apply (Fin (x :: news') (length texts)); auto. cbn [tbl].
        intros y (kp & [<-|[<-|[]]] & [Hy|Hy]); cbn [snd padd prem] in Hy; auto; destruct Hy.
  - cbn [repl_value] in E. inversion E; subst rv nid1.
    split; [exact Hok|]. split; [reflexivity|]. split; [reflexivity|]. split; [exact Hinv|].
    intros obj' W' Hsub. split; [exact W'|]. eapply coherent_sub; [|exact Hinv].
    intros x Hx. apply occurs_app in Hx as [Hx|Hx]; [now apply Hsub|]. apply occurs_app. now right.
Qed.

Lemma firstn_add {A} : forall n m (l : list A), firstn (n + m) l = firstn n l ++ firstn m (skipn n l).
Proof.
  induction n as [|n IH]; intros m l; [reflexivity|]. destruct l as [|x l]; cbn [Nat.add firstn skipn app].
  - now rewrite firstn_nil.
  - now rewrite IH.
Qed.
Lemma nth_skipn {A} : forall n m (l : list A) d, nth m (skipn n l) d = nth (n + m) l d.
Proof.
  induction n as [|n IH]; intros m l d; [reflexivity|]. destruct l as [|x l]; cbn [Nat.add skipn nth].
  - now destruct m.
  - apply IH.
Qed.

(* the loop: [done] is finished; [rest] is a suffix of the original text whose characters still report
   what they reported in the original (the tail of the current styles) *)
Lemma replace_loop_styles old r : old <> [] -> repl_ok r ->
  forall fuel obj done rest count nid,
  repl_inv r obj nid -> base obj = done ++ rest -> length rest < fuel ->
  exists o n,
    replace_loop fuel obj old r count (find_at rest old (length done)) nid = OK (o, n)
    /\ repl_inv r o n
    /\ styles o = firstn (length done) (styles obj)
                  ++ replace_styles rest (skipn (length done) (styles obj)) old r count.
Proof.
  intros Ho Hok. apply nonempty_length in Ho as Hl. pose proof (repl_ok_plain r Hok) as Hp.
  induction fuel as [|f IH]; intros obj done rest count nid Inv Eb Hf; [lia|].
  rewrite replace_loop_S, (replace_styles_unfold rest _ old r count Ho).
  pose proof (StrOpsProofs.find_at_cut old rest (length done)) as Hc.
  destruct (find_at rest old (length done)) as [i|], (cut_first old rest) as [[a b]|]; try contradiction.
  2:{ exists obj, nid. split; [reflexivity|]. split; [exact Inv|]. destruct (count =? 0)%Z; now rewrite firstn_skipn. }
  destruct Hc as [Ei Er]. destruct (count =? 0)%Z eqn:Ec.
  { exists obj, nid. split; [reflexivity|]. split; [exact Inv|]. now rewrite firstn_skipn. }
  rewrite Er in Eb.
  assert (Hlen : length (base obj) = length done + length a + length old + length b)
    by (rewrite Eb, !app_length; lia).
  destruct (repl_value obj i r nid) as [rv nid1] eqn:Erv.
  destruct (repl_value_props obj i r nid rv nid1 Hok Inv Erv) as (Wr & Br & Sr & Cr & Next).
  destruct Inv as [Wo _].
  destruct (splice obj rv i (length old) Wo Wr Cr ltac:(lia)) as (lft & obj' & El & Eo & W' & _ & S' & Sub).
  rewrite El. cbn [bind]. rewrite Eo. cbn [bind].
  destruct (replace_step_text obj old r done a b i nid rv nid1 lft obj' Eb Ei Erv El Eo) as [_ Eo'].
  replace (is_nil old) with false by (destruct old; [congruence|reflexivity]).
  rewrite Nat.add_0_r, Br, Eo'.
  replace (i + length (repl_text r)) with (length (done ++ a ++ repl_text r)) by (rewrite !app_length; lia).
  rewrite find_from_app.
  assert (Hb : length b < f) by (rewrite Er, !app_length in Hf; lia).
  destruct (IH obj' (done ++ a ++ repl_text r) b (dec_count count) nid1 (Next obj' W' Sub) Eo' Hb)
    as (o & n & E1 & Inv1 & S1).
  exists o, n. split; [exact E1|]. split; [exact Inv1|].
  rewrite S1, replace_styles_dec by exact Ec. rewrite S'.
  set (ST := styles obj) in *. set (RS := styles rv) in *.
  assert (LST : length ST = length (base obj)) by apply styles_length.
  assert (LRS : length RS = length (repl_text r)) by (unfold RS; now rewrite styles_length, Br).
  assert (L1 : length (firstn i ST ++ RS) = length (done ++ a ++ repl_text r)).
  { rewrite !app_length, firstn_length, LRS. lia. }
  rewrite (app_assoc (firstn i ST) RS (skipn (i + length old) ST)).
  rewrite (firstn_app_exact _ _ _ L1), (skipn_app_exact _ _ _ L1).
  rewrite Ei, firstn_add, <- !app_assoc. do 2 f_equal.
  rewrite nth_skipn. rewrite Sr, <- Ei. f_equal.
  rewrite StrOpsProofs.skipn_add. do 2 f_equal. lia.
Qed.

(* C. every character of the result reports: outside the matches what the corresponding original
   character reported; inside a match the styles of the replacement (its own for an object, those of
   the first character of the match for a plain str).  The call cannot fail. *)
Theorem replace_spec s old r count nid : old <> [] -> repl_ok r -> repl_inv r s nid ->
  exists s' nid',
    replace s old r count nid = OK (s', nid')
    /\ base s' = py_replace (base s) old (repl_text r) count
    /\ styles s' = replace_styles (base s) (styles s) old r count
    /\ repl_inv r s' nid'.
Proof.
  intros Ho Hok Inv.
  destruct (replace_loop_styles old r Ho Hok (length (base s) + 2) s [] (base s) count nid Inv eq_refl ltac:(lia))
    as (o & n & E & Inv' & S').
  cbn [length firstn skipn app] in *. exists o, n.
  assert (E' : replace s old r count nid = OK (o, n)) by (unfold replace; now rewrite StrOpsProofs.find_from_0).
  split; [exact E'|]. split; [|split; [exact S'|exact Inv']].
  eapply replace_text; eauto.
Qed.

(* the two cases spelled out *)
Corollary replace_str_spec s old raw count nid :
  old <> [] -> no_esc raw = true -> WF s -> coherent (tbl s) -> ids_below nid (tbl s) ->
  exists s' nid',
    replace s old (RStr raw) count nid = OK (s', nid')
    /\ base s' = py_replace (base s) old raw count
    /\ styles s' = replace_styles (base s) (styles s) old (RStr raw) count
    /\ WF s' /\ coherent (tbl s') /\ ids_below nid' (tbl s').
Proof.
  intros Ho Hn W C I. destruct (replace_spec s old (RStr raw) count nid Ho Hn (conj W (conj C I)))
    as (s' & nid' & E & B & S' & W' & C' & I').
  rewrite (repl_text_plain raw Hn) in B. exists s', nid'. auto 10.
Qed.

Corollary replace_obj_spec s old a count nid :
  old <> [] -> WF s -> WF a -> coherent (tbl s ++ tbl a) ->
  exists s',
    replace s old (RObj a) count nid = OK (s', nid)
    /\ base s' = py_replace (base s) old (base a) count
    /\ styles s' = replace_styles (base s) (styles s) old (RObj a) count
    /\ WF s' /\ coherent (tbl s' ++ tbl a).
Proof.
  intros Ho W Wa C. destruct (replace_spec s old (RObj a) count nid Ho Wa (conj W C))
    as (s' & nid' & E & B & S' & W' & C').
  assert (nid' = nid).
  { clear -E. unfold replace in E. revert E. generalize (find_from (base s) old 0) as idx.
    generalize (length (base s) + 2) as fuel. intros fuel. revert s count.
    induction fuel as [|f IH]; intros s count idx E; [discriminate|]. rewrite replace_loop_S in E.
    destruct idx as [i|]; [|now inversion E]. destruct (count =? 0)%Z; [now inversion E|].
    cbn [repl_value] in E. destruct (add _ a) as [lft|]; cbn [bind] in E; [|discriminate].
    destruct (add lft _) as [obj'|]; cbn [bind] in E; [|discriminate]. eapply IH; eauto. }
  subst nid'. exists s'. auto 10.
Qed.

(* ====================================================================== *)
(* Examples: the hypotheses are satisfiable, the statements say what they should *)
(* ====================================================================== *)
Definition ids_belowb (n : nat) (t : fmts) : bool := forallb (fun x => sid x <? n) (all_marks t).
Lemma ids_below_check n t : ids_belowb n t = true -> ids_below n t.
Proof.
  unfold ids_belowb. rewrite forallb_forall. intros H x Ox. apply occurs_marks in Ox.
  apply Nat.ltb_lt. now apply H.
Qed.

Module EditExamples.
Local Open Scope string_scope.
Definition tS_red := tS "red".
Definition tS_bold := tS "bold".
Definition red := mkS 1 (tS "red").
Definition bold := mkS 2 (tS "bold").
Definition blue := mkS 7 (tS "blue").
(* "xaaaay": x plain, a a red, a red+bold, a bold, y plain *)
Definition s1 : astr :=
  mkA (tS "xaaaay") [(1, mkP [red] []); (3, mkP [bold] []); (4, mkP [] [red]); (5, mkP [] [bold])].
(* the same with bold running to the very end *)
Definition s2 : astr :=
  mkA (tS "xaaaay") [(1, mkP [red] []); (3, mkP [bold] []); (4, mkP [] [red]); (6, mkP [] [bold])].
(* a replacement object "ZW" whose first character is blue *)
Definition ob : astr := mkA (tS "ZW") [(0, mkP [blue] []); (1, mkP [] [blue])].

Example s1_WF : WF s1. Proof. apply wfb_sound. reflexivity. Qed.
Example s2_WF : WF s2. Proof. apply wfb_sound. reflexivity. Qed.
Example ob_WF : WF ob. Proof. apply wfb_sound. reflexivity. Qed.
Example s1_styles : styles s1 = [[]; [tS "red"]; [tS "red"]; [tS "red"; tS "bold"]; [tS "bold"]; []].
Proof. reflexivity. Qed.

(* A *)
Example ex_assign_grow :
  styles (assign s2 (tS "0123456789"))
  = [[]; [tS "red"]; [tS "red"]; [tS "red"; tS "bold"]; [tS "bold"]; [tS "bold"];
     [tS "bold"]; [tS "bold"]; [tS "bold"]; [tS "bold"]]
  /\ styles (assign s1 (tS "01234567")) = styles s1 ++ [[]; []].
Proof. split; reflexivity. Qed.
Example ex_assign_shrink :
  styles (assign s2 (tS "0123")) = [[]; [tS "red"]; [tS "red"]; [tS "red"; tS "bold"]]
  /\ active_at (tbl (assign s2 (tS "0123"))) 4 = [] /\ tbl (assign s2 []) = [].
Proof. repeat split; reflexivity. Qed.
Example ex_assign_same : assign s2 (tS "XAAAAY") = mkA (tS "XAAAAY") (tbl s2). Proof. reflexivity. Qed.
Example ex_assign_hyps := (assign_WF s2 (tS "0123") s2_WF, assign_extend s2 (tS "0123456789") 8 (proj1 s2_WF)).
Example ex_assign_empty : WF (mkA [] [(0, mkP [] [])]) /\ tbl (assign (mkA [] [(0, mkP [] [])]) (tS "abc")) = [(3, mkP [] [])].
Proof. split; [apply wfb_sound|]; reflexivity. Qed.

(* B, C: hypotheses *)
Example s1_inv_str raw : repl_inv (RStr raw) s1 100.
Proof.
  split; [exact s1_WF|]. split; [apply coherent_check; reflexivity|apply ids_below_check; reflexivity].
Qed.
Example s1_inv_obj : repl_inv (RObj ob) s1 100.
Proof. split; [exact s1_WF|]. apply coherent_check. reflexivity. Qed.
Lemma aa_nonempty : tS "aa" <> []. Proof. discriminate. Qed.
Example ex_replace_spec_str := replace_spec s1 (tS "aa") (RStr (tS "bcd")) (-1) 100 aa_nonempty eq_refl (s1_inv_str _).
Example ex_replace_spec_obj := replace_spec s1 (tS "aa") (RObj ob) 1 100 aa_nonempty ob_WF s1_inv_obj.

(* what the model computes, and what the specification says *)
Definition run_replace (s : astr) (old : str) (r : repl) (count : Z) : option (str * list (list str)) :=
  match replace s old r count 100 with OK (a, _) => Some (base a, styles a) | Err _ => None end.
Definition spec_replace (s : astr) (old : str) (r : repl) (count : Z) : option (str * list (list str)) :=
  Some (py_replace (base s) old (repl_text r) count, replace_styles (base s) (styles s) old r count).

(* self-overlapping pattern, shorter replacement: the two matches are [1,3) and [3,5) *)
Example ex_rep_short : run_replace s1 (tS "aa") (RStr (tS "b")) (-1)
  = Some (tS "xbby", [[]; [tS "red"]; [tS "red"; tS "bold"]; []]).
Proof. reflexivity. Qed.
(* longer replacement: every new character has the styles of the first character of its match *)
Example ex_rep_long : run_replace s1 (tS "aa") (RStr (tS "bcd")) (-1)
  = Some (tS "xbcdbcdy", [[]; [tS "red"]; [tS "red"]; [tS "red"];
                           [tS "red"; tS "bold"]; [tS "red"; tS "bold"]; [tS "red"; tS "bold"]; []]).
Proof. reflexivity. Qed.
(* the replacement contains the pattern: it is not scanned again *)
Example ex_rep_contains : run_replace s1 (tS "aa") (RStr (tS "aaa")) (-1)
  = Some (tS "xaaaaaay", [[]; [tS "red"]; [tS "red"]; [tS "red"];
                           [tS "red"; tS "bold"]; [tS "red"; tS "bold"]; [tS "red"; tS "bold"]; []]).
Proof. reflexivity. Qed.
(* count = 1: the rest keeps its own styles *)
Example ex_rep_count1 : run_replace s1 (tS "aa") (RStr (tS "aaa")) 1
  = Some (tS "xaaaaay", [[]; [tS "red"]; [tS "red"]; [tS "red"]; [tS "red"; tS "bold"]; [tS "bold"]; []]).
Proof. reflexivity. Qed.
(* one replacement object used for four matches: its own styles every time *)
Example ex_rep_obj : run_replace s1 (tS "a") (RObj ob) (-1)
  = Some (tS "xZWZWZWZWy", [[]; [tS "blue"]; []; [tS "blue"]; []; [tS "blue"]; []; [tS "blue"]; []; []]).
Proof. reflexivity. Qed.
Example ex_rep_delete : run_replace s1 (tS "aa") (RStr []) (-1) = Some (tS "xy", [[]; []]).
Proof. reflexivity. Qed.
Example ex_rep_agree :
  run_replace s1 (tS "aa") (RStr (tS "b")) (-1) = spec_replace s1 (tS "aa") (RStr (tS "b")) (-1)
  /\ run_replace s1 (tS "aa") (RStr (tS "bcd")) (-1) = spec_replace s1 (tS "aa") (RStr (tS "bcd")) (-1)
  /\ run_replace s1 (tS "aa") (RStr (tS "aaa")) 1 = spec_replace s1 (tS "aa") (RStr (tS "aaa")) 1
  /\ run_replace s1 (tS "a") (RObj ob) (-1) = spec_replace s1 (tS "a") (RObj ob) (-1)
  /\ run_replace s1 (tS "a") (RObj ob) 3 = spec_replace s1 (tS "a") (RObj ob) 3
  /\ run_replace s1 (tS "aaa") (RObj ob) (-1) = spec_replace s1 (tS "aaa") (RObj ob) (-1).
Proof. repeat split; reflexivity. Qed.

(* D *)
Example ex_rep_zero : replace s1 (tS "a") (RObj ob) 0 100 = OK (s1, 100). Proof. reflexivity. Qed.
Example ex_rep_absent : replace s1 (tS "q") (RObj ob) (-1) 100 = OK (s1, 100). Proof. reflexivity. Qed.
Example ex_rep_absent_hyp : forall i, ~ occurs_at (tS "q") (base s1) i.
Proof.
  pose proof (cut_first_spec (tS "q") (base s1)) as H.
  replace (cut_first (tS "q") (base s1)) with (@None (str * str)) in H by reflexivity. exact H.
Qed.

(* replace_fuel_enough is not vacuous: on an ill-formed replacement object (a stop marker listed twice)
   the concatenation inside replace fails -- with IndexError, the only error replace can give *)
Definition sx : astr := mkA (tS "xq") [(0, mkP [red] []); (2, mkP [] [red])].
Definition red5 := mkS 5 (tS "red").
Definition bad : astr := mkA (tS "cd") [(0, mkP [red5] []); (1, mkP [] [red5; red5])].
Example ex_rep_index_error : replace sx (tS "q") (RObj bad) (-1) 100 = Err IndexError /\ wfb bad = false.
Proof. split; reflexivity. Qed.
End EditExamples.

(* ====================================================================== *)
(* E. replace with an empty pattern                                        *)
(* ====================================================================== *)
(* str.replace('', new, count): new goes before every character and at the end, at most count times *)
Fixpoint py_replace_empty (new : str) (count : Z) (s : str) : str :=
  if (count =? 0)%Z then s
  else match s with
       | [] => new
       | c :: r => new ++ c :: py_replace_empty new (count - 1) r
       end.

Example ex_empty_all : py_replace_empty [45%N] (-1) [97; 98; 99]%N = [45; 97; 45; 98; 45; 99; 45]%N. Proof. reflexivity. Qed.
Example ex_empty_two : py_replace_empty [45%N] 2 [97; 98; 99]%N = [45; 97; 45; 98; 99]%N. Proof. reflexivity. Qed.
Example ex_empty_four : py_replace_empty [45%N] 4 [97; 98; 99]%N = [45; 97; 45; 98; 45; 99; 45]%N. Proof. reflexivity. Qed.
Example ex_empty_three : py_replace_empty [45%N] 3 [97; 98; 99]%N = [45; 97; 45; 98; 45; 99]%N. Proof. reflexivity. Qed.
Example ex_empty_nil : py_replace_empty [45%N] (-1) [] = [45%N] /\ py_replace_empty [45%N] 0 [] = []. Proof. split; reflexivity. Qed.

Lemma py_replace_empty_eq new count s :
  py_replace_empty new count s =
  if (count =? 0)%Z then s
  else match s with
       | [] => new
       | c :: r => new ++ c :: py_replace_empty new (count - 1) r
       end.
Proof. destruct s; reflexivity. Qed.

Lemma py_replace_empty_neg new : forall s m1 m2, (m1 < 0)%Z -> (m2 < 0)%Z ->
  py_replace_empty new m1 s = py_replace_empty new m2 s.
Proof.
  induction s as [|c s IH]; intros m1 m2 H1 H2; rewrite (py_replace_empty_eq new m1), (py_replace_empty_eq new m2);
    replace (m1 =? 0)%Z with false by (symmetry; apply Z.eqb_neq; lia);
    replace (m2 =? 0)%Z with false by (symmetry; apply Z.eqb_neq; lia); [reflexivity|].
  do 2 f_equal. apply IH; lia.
Qed.

Lemma py_replace_empty_dec new s count : (count =? 0)%Z = false ->
  py_replace_empty new (dec_count count) s = py_replace_empty new (count - 1) s.
Proof.
  intros H. apply Z.eqb_neq in H. unfold dec_count. destruct (0 <? count)%Z eqn:E; [reflexivity|].
  apply Z.ltb_ge in E. apply py_replace_empty_neg; lia.
Qed.

Lemma find_at_empty s pos : find_at s [] pos = Some pos.
Proof. destruct s; reflexivity. Qed.

Lemma replace_loop_empty_text r :
  forall fuel obj done rest count nid,
  base obj = done ++ rest -> length rest + 1 < fuel ->
  match replace_loop fuel obj [] r count (Some (length done)) nid with
  | OK (o, _) => base o = done ++ py_replace_empty (repl_text r) count rest
  | Err e => e = IndexError
  end.
Proof.
  induction fuel as [|f IH]; intros obj done rest count nid Eb Hf; [lia|].
  rewrite replace_loop_S, py_replace_empty_eq.
  destruct (count =? 0)%Z eqn:Ec; [exact Eb|].
  destruct (repl_value obj (length done) r nid) as [rv nid1] eqn:Erv.
  destruct (add _ rv) as [lft|e] eqn:El; cbn [bind]; [|now apply iadd_err in El].
  destruct (add lft _) as [obj'|e] eqn:Eo; cbn [bind]; [|now apply iadd_err in Eo].
  assert (Eb' : base obj = done ++ [] ++ [] ++ rest) by exact Eb.
  destruct (replace_step_text obj [] r done [] rest (length done) nid rv nid1 lft obj' Eb'
              ltac:(cbn [length]; lia) Erv El Eo) as [Hrv Eo'].
  cbn [app is_nil] in Eo'. rewrite Hrv.
  change (if is_nil (@nil char) then 1 else 0) with 1.
  destruct rest as [|c rest'].
  - rewrite app_nil_r in Eo'. unfold find_from. rewrite Eo', app_length.
    replace (length done + length (repl_text r) <? length done + length (repl_text r) + 1) with true
      by (symmetry; apply Nat.ltb_lt; lia).
    destruct f as [|f']; [cbn [length] in Hf; lia|]. rewrite replace_loop_S. exact Eo'.
  - assert (Eo2 : base obj' = ((done ++ repl_text r) ++ [c]) ++ rest') by (rewrite Eo', <- !app_assoc; reflexivity).
    rewrite Eo2.
    replace (length done + length (repl_text r) + 1) with (length ((done ++ repl_text r) ++ [c]))
      by (rewrite !app_length; cbn [length]; lia).
    rewrite find_from_app, find_at_empty.
    cbn [length] in Hf.
    specialize (IH obj' ((done ++ repl_text r) ++ [c]) rest' (dec_count count) nid1 Eo2 ltac:(lia)).
    destruct (replace_loop f obj' [] r (dec_count count) _ nid1) as [[o n]|e]; [|exact IH].
    rewrite IH, py_replace_empty_dec by exact Ec. rewrite <- !app_assoc. reflexivity.
Qed.

Theorem replace_empty_text s r count nid s' nid' :
  replace s [] r count nid = OK (s', nid') ->
  base s' = py_replace_empty (repl_text r) count (base s).
Proof.
  intros E. unfold replace in E. rewrite StrOpsProofs.find_from_0, find_at_empty in E.
  pose proof (replace_loop_empty_text r (length (base s) + 2) s [] (base s) count nid eq_refl ltac:(lia)) as H.
  cbn [length] in H. rewrite E in H. exact H.
Qed.

(* the repaired loop terminates for an empty pattern: the fuel is enough here too *)
Theorem replace_empty_fuel_enough s r count nid e :
  replace s [] r count nid = Err e -> e = IndexError.
Proof.
  intros E. unfold replace in E. rewrite StrOpsProofs.find_from_0, find_at_empty in E.
  pose proof (replace_loop_empty_text r (length (base s) + 2) s [] (base s) count nid eq_refl ltac:(lia)) as H.
  cbn [length] in H. rewrite E in H. exact H.
Qed.

(* styles: the inserted text gets the styles of the replacement; for a plain str those of the character
   it is put in front of (none at the very end) *)
Fixpoint replace_styles_empty (r : repl) (count : Z) (st : list (list str)) : list (list str) :=
  if (count =? 0)%Z then st
  else match st with
       | [] => repl_styles r []
       | x :: rest => repl_styles r x ++ x :: replace_styles_empty r (count - 1) rest
       end.

Lemma replace_styles_empty_eq r count st :
  replace_styles_empty r count st =
  if (count =? 0)%Z then st
  else match st with
       | [] => repl_styles r []
       | x :: rest => repl_styles r x ++ x :: replace_styles_empty r (count - 1) rest
       end.
Proof. destruct st; reflexivity. Qed.

Lemma replace_styles_empty_neg r : forall st m1 m2, (m1 < 0)%Z -> (m2 < 0)%Z ->
  replace_styles_empty r m1 st = replace_styles_empty r m2 st.
Proof.
  induction st as [|x st IH]; intros m1 m2 H1 H2;
    rewrite (replace_styles_empty_eq r m1), (replace_styles_empty_eq r m2);
    replace (m1 =? 0)%Z with false by (symmetry; apply Z.eqb_neq; lia);
    replace (m2 =? 0)%Z with false by (symmetry; apply Z.eqb_neq; lia); [reflexivity|].
  do 2 f_equal. apply IH; lia.
Qed.

Lemma replace_styles_empty_dec r st count : (count =? 0)%Z = false ->
  replace_styles_empty r (dec_count count) st = replace_styles_empty r (count - 1) st.
Proof.
  intros H. apply Z.eqb_neq in H. unfold dec_count. destruct (0 <? count)%Z eqn:E; [reflexivity|].
  apply Z.ltb_ge in E. apply replace_styles_empty_neg; lia.
Qed.

Lemma skipn_cons_nth {A} : forall n (l : list A) d, n < length l -> skipn n l = nth n l d :: skipn (S n) l.
Proof.
  induction n as [|n IH]; intros [|x l] d H; cbn [length] in H; try lia; [reflexivity|].
  cbn [skipn nth]. apply IH. lia.
Qed.

Lemma replace_loop_empty_styles r : repl_ok r ->
  forall fuel obj done rest count nid,
  repl_inv r obj nid -> base obj = done ++ rest -> length rest + 1 < fuel ->
  exists o n,
    replace_loop fuel obj [] r count (Some (length done)) nid = OK (o, n)
    /\ repl_inv r o n
    /\ styles o = firstn (length done) (styles obj)
                  ++ replace_styles_empty r count (skipn (length done) (styles obj)).
Proof.
  intros Hok. pose proof (repl_ok_plain r Hok) as Hp.
  induction fuel as [|f IH]; intros obj done rest count nid Inv Eb Hf; [lia|].
  rewrite replace_loop_S, replace_styles_empty_eq.
  destruct (count =? 0)%Z eqn:Ec.
  { exists obj, nid. split; [reflexivity|]. split; [exact Inv|]. now rewrite firstn_skipn. }
  assert (Hlen : length (base obj) = length done + length rest) by (rewrite Eb, app_length; lia).
  set (i := length done) in *.
  destruct (repl_value obj i r nid) as [rv nid1] eqn:Erv.
  destruct (repl_value_props obj i r nid rv nid1 Hok Inv Erv) as (Wr & Br & Sr & Cr & Next).
  destruct Inv as [Wo _].
  destruct (splice obj rv i 0 Wo Wr Cr ltac:(lia)) as (lft & obj' & El & Eo & W' & _ & S' & Sub).
  change (length (@nil char)) with 0. rewrite El. cbn [bind]. rewrite Eo. cbn [bind].
  assert (Eb' : base obj = done ++ [] ++ [] ++ rest) by exact Eb.
  destruct (replace_step_text obj [] r done [] rest i nid rv nid1 lft obj' Eb'
              ltac:(unfold i; cbn [length]; lia) Erv El Eo) as [_ Eo'].
  cbn [app] in Eo'. rewrite Br. change (if is_nil (@nil char) then 1 else 0) with 1.
  rewrite Nat.add_0_r in S'.
  set (ST := styles obj) in *. set (RS := styles rv) in *.
  assert (LST : length ST = length (base obj)) by apply styles_length.
  assert (LRS : length RS = length (repl_text r)) by (unfold RS; now rewrite styles_length, Br).
  destruct rest as [|c rest'].
  - cbn [length] in Hlen. rewrite app_nil_r in Eo'. unfold find_from. rewrite Eo', app_length. fold i.
    replace (i + length (repl_text r) <? i + length (repl_text r) + 1) with true
      by (symmetry; apply Nat.ltb_lt; lia).
    destruct f as [|f']; [cbn [length] in Hf; lia|]. rewrite replace_loop_S.
    exists obj', nid1. split; [reflexivity|]. split; [now apply Next|].
    rewrite S'. rewrite (skipn_all2 ST) by lia. rewrite app_nil_r, Sr, (nth_overflow ST) by lia. reflexivity.
  - cbn [length] in Hlen, Hf.
    assert (Eo2 : base obj' = ((done ++ repl_text r) ++ [c]) ++ rest') by (rewrite Eo', <- !app_assoc; reflexivity).
    rewrite Eo2.
    replace (i + length (repl_text r) + 1) with (length ((done ++ repl_text r) ++ [c]))
      by (rewrite !app_length; cbn [length]; fold i; lia).
    rewrite find_from_app, find_at_empty.
    destruct (IH obj' ((done ++ repl_text r) ++ [c]) rest' (dec_count count) nid1 (Next obj' W' Sub) Eo2 ltac:(lia))
      as (o & n & E1 & Inv1 & S1).
    exists o, n. split; [exact E1|]. split; [exact Inv1|].
    rewrite S1, replace_styles_empty_dec by exact Ec. rewrite S'.
    rewrite (skipn_cons_nth i ST []) by lia. rewrite <- Sr.
    set (x := nth i ST []). set (R' := skipn (S i) ST).
    assert (L1 : length (firstn i ST ++ RS ++ [x]) = length ((done ++ repl_text r) ++ [c])).
    { rewrite !app_length, firstn_length, LRS. cbn [length]. fold i. lia. }
    replace (firstn i ST ++ RS ++ x :: R') with ((firstn i ST ++ RS ++ [x]) ++ R')
      by (rewrite <- !app_assoc; reflexivity).
    rewrite (firstn_app_exact _ _ _ L1), (skipn_app_exact _ _ _ L1).
    rewrite <- !app_assoc. reflexivity.
Qed.

(* E2. the call succeeds, text and styles *)
Theorem replace_empty_spec s r count nid : repl_ok r -> repl_inv r s nid ->
  exists s' nid',
    replace s [] r count nid = OK (s', nid')
    /\ base s' = py_replace_empty (repl_text r) count (base s)
    /\ styles s' = replace_styles_empty r count (styles s)
    /\ repl_inv r s' nid'.
Proof.
  intros Hok Inv.
  destruct (replace_loop_empty_styles r Hok (length (base s) + 2) s [] (base s) count nid Inv eq_refl ltac:(lia))
    as (o & n & E & Inv' & S').
  cbn [length firstn skipn app] in *. exists o, n.
  assert (E' : replace s [] r count nid = OK (o, n))
    by (unfold replace; now rewrite StrOpsProofs.find_from_0, find_at_empty).
  split; [exact E'|]. split; [|split; [exact S'|exact Inv']].
  eapply replace_empty_text; eauto.
Qed.

Module EmptyExamples.
Import EditExamples.
Local Open Scope string_scope.
Example ex_rep_empty_all : run_replace s1 [] (RStr (tS "-")) (-1)
  = Some (tS "-x-a-a-a-a-y-",
          [[]; []; [tS "red"]; [tS "red"]; [tS "red"]; [tS "red"]; [tS "red"; tS "bold"]; [tS "red"; tS "bold"];
           [tS "bold"]; [tS "bold"]; []; []; []]).
Proof. reflexivity. Qed.
Example ex_rep_empty_two : option_map fst (run_replace s1 [] (RStr (tS "-")) 2) = Some (tS "-x-aaaay").
Proof. reflexivity. Qed.
Example ex_rep_empty_text_agree :
  option_map fst (run_replace s1 [] (RStr (tS "-")) (-1)) = Some (py_replace_empty (tS "-") (-1) (base s1))
  /\ option_map fst (run_replace s1 [] (RObj ob) 3) = Some (py_replace_empty (tS "ZW") 3 (base s1))
  /\ option_map fst (run_replace (mkA [] []) [] (RObj ob) (-1)) = Some (tS "ZW").
Proof. repeat split; reflexivity. Qed.
Example ex_rep_empty_styles_agree :
  option_map snd (run_replace s1 [] (RStr (tS "-")) (-1)) = Some (replace_styles_empty (RStr (tS "-")) (-1) (styles s1))
  /\ option_map snd (run_replace s1 [] (RObj ob) 3) = Some (replace_styles_empty (RObj ob) 3 (styles s1))
  /\ option_map snd (run_replace s1 [] (RStr (tS "--")) 4) = Some (replace_styles_empty (RStr (tS "--")) 4 (styles s1)).
Proof. repeat split; reflexivity. Qed.
Example ex_replace_empty_spec := replace_empty_spec s1 (RStr (tS "-")) (-1) 100 eq_refl (s1_inv_str _).
End EmptyExamples.

(* ====================================================================== *)
(* A str replacement with escape sequences (repaired, F27).  The loop used to resume   *)
(* its search at idx + len(new), the length of the RAW replacement, while the text put *)
(* into the string is the PARSED replacement, so that with "\x1b[1mb" (5 raw           *)
(* characters, 1 character of text) the second "a" of "xaa" was jumped over ('xba').   *)
(* It now resumes after the text actually inserted; the text theorems above hold for   *)
(* every raw replacement, with repl_text (RStr raw) = the text of AnsiString(raw).     *)
(* The styles theorems keep the hypothesis no_esc raw: with escapes the replacement    *)
(* carries its own parsed settings below those of the match's first character.         *)
(* ====================================================================== *)
Example esc_replacement_every_match :
  let raw := [27; 91; 49; 109; 98]%N in      (* ESC [ 1 m b *)
  no_esc raw = false
  /\ repl_text (RStr raw) = [98%N]
  /\ base (fst (parse raw 100)) = [98%N]
  /\ EditExamples.run_replace (mkA [120; 97; 97]%N []) [97%N] (RStr raw) (-1)
     = Some ([120; 98; 98]%N, [[]; [[49%N]]; [[49%N]]])
  /\ py_replace [120; 97; 97]%N [97%N] (repl_text (RStr raw)) (-1) = [120; 98; 98]%N
  /\ option_map fst (EditExamples.run_replace EditExamples.s1 [97; 97]%N (RStr raw) (-1))
     = Some (py_replace (base EditExamples.s1) [97; 97]%N (repl_text (RStr raw)) (-1))
  /\ option_map fst (EditExamples.run_replace EditExamples.s1 [] (RStr raw) 2)
     = Some (py_replace_empty (repl_text (RStr raw)) 2 (base EditExamples.s1)).
Proof. repeat split; reflexivity. Qed.
(* the match's own settings go on top of the replacement's parsed ones: bold(1) then red, red+bold *)
Example esc_replacement_styles :
  option_map snd (EditExamples.run_replace EditExamples.s1 [97; 97]%N (RStr [27; 91; 49; 109; 98]%N) (-1))
  = Some [[]; [[49%N]; EditExamples.tS_red]; [[49%N]; EditExamples.tS_red; EditExamples.tS_bold]; []].
Proof. reflexivity. Qed.

Print Assumptions assign_base.
Print Assumptions assign_keep.
Print Assumptions assign_extend.
Print Assumptions assign_shrink.
Print Assumptions assign_shrink_closed.
Print Assumptions assign_WF.
Print Assumptions assign_empty.
Print Assumptions py_replace_scan.
Print Assumptions replace_text.
Print Assumptions replace_fuel_enough.
Print Assumptions replace_count_zero.
Print Assumptions replace_not_found.
Print Assumptions replace_absent.
Print Assumptions replace_spec.
Print Assumptions replace_str_spec.
Print Assumptions replace_obj_spec.
Print Assumptions replace_empty_text.
Print Assumptions replace_empty_fuel_enough.
Print Assumptions replace_empty_spec.
