(* The format-spec recognisers of Model/FormatSpec.v (to_str / __format__ / _apply_string_format,
   ansi_string.py:653-721, 751-798) against the documented grammar

       format_spec   = [string_format[:ansi_format]]
       string_format = [[fill][+|-]align][width]     align in < > ^, width = decimal digits

   1. printer / parser round trip for string_format (print_sf, parse_print_sf)
   2. bare widths (parse_string_format_digits)
   3. completeness: SFok only on the grammar, SFerr (= ValueError) exactly outside it
   4. the colon split (split_spec) on the grammar, and its soundness
   5. the meaning of a parsed string_format as a composition of apply_spec_settings and padding
   6. nat_of_digits is the decimal value *)
From AS Require Import Base Effects.
From AS.Spec Require Import Terminal.
From AS.Model Require Import Sgr Table Ops Render Scrub Parse FormatSpec.
From AS.Proofs Require Import DecProofs.
Local Open Scope N_scope.

(* ---------------------------------------------------------------------------------------- *)
(* characters                                                                               *)
(* ---------------------------------------------------------------------------------------- *)
Definition digits (w : str) : Prop := forallb is_digit w = true.

Definition align_char (a : align) : char :=
  match a with ALeft => 60 | ARight => 62 | ACenter => 94 end.             (* < > ^ *)
Definition opt_str (o : option char) : str := match o with Some c => [c] | None => [] end.

(* fill, then flag, then the alignment character, then the width digits *)
Definition print_sf (fill flag : option char) (al : align) (width : str) : str :=
  opt_str fill ++ opt_str flag ++ align_char al :: width.

Definition flag_ok (flag : option char) : Prop :=
  flag = None \/ flag = Some CH_PLUS \/ flag = Some CH_MINUS.
Definition flag_okb (flag : option char) : bool :=
  match flag with None => true | Some c => is_sign c end.

Lemma is_sign_spec c : is_sign c = true <-> c = CH_PLUS \/ c = CH_MINUS.
Proof. unfold is_sign, CH_PLUS, CH_MINUS. rewrite orb_true_iff, !N.eqb_eq. tauto. Qed.

Lemma flag_okb_spec flag : flag_okb flag = true <-> flag_ok flag.
Proof.
  unfold flag_ok. destruct flag as [c|]; cbn [flag_okb].
  - rewrite is_sign_spec. split.
    + intros [-> | ->]; auto.
    + intros [H | [H | H]]; inversion H; auto.
  - split; auto.
Qed.

Lemma is_align_spec c : is_align c = true <-> exists a, c = align_char a.
Proof.
  unfold is_align. rewrite !orb_true_iff, !N.eqb_eq. split.
  - intros [[-> | ->] | ->]; [exists ALeft | exists ARight | exists ACenter]; reflexivity.
  - intros [[] ->]; cbn; auto.
Qed.
Lemma is_align_char a : is_align (align_char a) = true.
Proof. destruct a; reflexivity. Qed.
Lemma align_char_inj a b : align_char a = align_char b -> a = b.
Proof. destruct a, b; cbn; intros H; try reflexivity; discriminate. Qed.

Lemma digit_not_sign c : is_digit c = true -> is_sign c = false.
Proof.
  intros H. apply is_digit_spec in H. unfold is_sign.
  apply orb_false_iff; split; apply N.eqb_neq; lia.
Qed.
Lemma digit_not_align c : is_digit c = true -> is_align c = false.
Proof.
  intros H. apply is_digit_spec in H. unfold is_align.
  rewrite !orb_false_iff; repeat split; apply N.eqb_neq; lia.
Qed.
Lemma digit_not_colon c : is_digit c = true -> (c =? CH_COLON) = false.
Proof. intros H. apply is_digit_spec in H. apply N.eqb_neq. unfold CH_COLON. lia. Qed.
Lemma sign_not_digit c : is_sign c = true -> is_digit c = false.
Proof. intros H. apply is_sign_spec in H as [-> | ->]; reflexivity. Qed.
Lemma sign_not_align c : is_sign c = true -> is_align c = false.
Proof. intros H. apply is_sign_spec in H as [-> | ->]; reflexivity. Qed.
Lemma align_not_digit a : is_digit (align_char a) = false.
Proof. destruct a; reflexivity. Qed.
Lemma align_not_sign a : is_sign (align_char a) = false.
Proof. destruct a; reflexivity. Qed.

(* ---------------------------------------------------------------------------------------- *)
(* span_digits                                                                              *)
(* ---------------------------------------------------------------------------------------- *)
Lemma span_digits_spec s :
  s = fst (span_digits s) ++ snd (span_digits s) /\ digits (fst (span_digits s)) /\
  match snd (span_digits s) with [] => True | c :: _ => is_digit c = false end.
Proof.
  unfold digits. induction s as [|c r IH]; cbn [span_digits]; [cbn; auto|].
  destruct (is_digit c) eqn:E.
  - destruct (span_digits r) as [a b]. cbn [fst snd] in *. destruct IH as (H1 & H2 & H3).
    split; [cbn; congruence|]. split; [cbn [forallb]; now rewrite E, H2 | exact H3].
  - cbn [fst snd]. split; [reflexivity|]. split; [reflexivity | exact E].
Qed.

Lemma span_digits_app w rest :
  digits w -> match rest with [] => True | c :: _ => is_digit c = false end ->
  span_digits (w ++ rest) = (w, rest).
Proof.
  unfold digits. induction w as [|c w IH]; intros Hw Hr.
  - destruct rest as [|c r]; [reflexivity|]. cbn [app span_digits]. now rewrite Hr.
  - cbn [forallb] in Hw. apply andb_true_iff in Hw as [Hc Hw].
    cbn [app span_digits]. rewrite Hc, (IH Hw Hr). reflexivity.
Qed.

Lemma span_digits_digits w : digits w -> span_digits w = (w, []).
Proof. intros H. rewrite <- (app_nil_r w) at 1. now apply span_digits_app. Qed.

Lemma span_digits_colon w ansi : digits w -> span_digits (w ++ CH_COLON :: ansi) = (w, CH_COLON :: ansi).
Proof. intros H. now apply span_digits_app. Qed.

Lemma span_nil_iff s : is_nil (snd (span_digits s)) = true <-> digits s.
Proof.
  split.
  - intros H. destruct (span_digits_spec s) as (H1 & H2 & _).
    destruct (snd (span_digits s)); [|discriminate]. rewrite app_nil_r in H1. now rewrite H1.
  - intros H. now rewrite (span_digits_digits s H).
Qed.

Lemma span_nil_fst s : is_nil (snd (span_digits s)) = true -> fst (span_digits s) = s.
Proof. intros H. apply span_nil_iff in H. now rewrite (span_digits_digits s H). Qed.

Lemma not_digits_mid pre c r : is_digit c = false -> is_nil (snd (span_digits (pre ++ c :: r))) = false.
Proof.
  intros Hc. destruct (is_nil _) eqn:E; [|reflexivity]. apply span_nil_iff in E.
  unfold digits in E. rewrite forallb_app in E. cbn [forallb] in E. rewrite Hc in E.
  rewrite andb_false_r in E. discriminate.
Qed.

(* ---------------------------------------------------------------------------------------- *)
(* 6. nat_of_digits is the decimal value                                                    *)
(* ---------------------------------------------------------------------------------------- *)
Lemma nat_of_digits_num_of d : nat_of_digits d = Z.of_N (num_of d).
Proof. reflexivity. Qed.

Lemma nat_of_digits_dval d : nat_of_digits d = Z.of_N (dval d 0).
Proof. reflexivity. Qed.

(* the width printed in decimal is read back *)
Theorem nat_of_digits_decN n : nat_of_digits (decN n) = Z.of_N n.
Proof. rewrite nat_of_digits_dval, decN_val. reflexivity. Qed.

Lemma dval_zeros k d : dval (repeat CH_0 k ++ d) 0 = dval d 0.
Proof. induction k as [|k IH]; [reflexivity|]. cbn [repeat app]. unfold dval in *. cbn [fold_left]. exact IH. Qed.

(* leading zeros do not matter *)
Theorem nat_of_digits_leading_zeros k d : nat_of_digits (repeat CH_0 k ++ d) = nat_of_digits d.
Proof. rewrite !nat_of_digits_dval, dval_zeros. reflexivity. Qed.

Theorem nat_of_digits_snoc d c : nat_of_digits (d ++ [c]) = (nat_of_digits d * 10 + Z.of_N (digit_val c))%Z.
Proof. rewrite !nat_of_digits_dval, dval_app. unfold dval at 1. cbn [fold_left]. lia. Qed.

Theorem nat_of_digits_nonneg d : (0 <= nat_of_digits d)%Z.
Proof. unfold nat_of_digits. lia. Qed.

(* Python's int(num) on the digits the regex captured *)
Theorem parse_int_width d : digits d -> d <> [] -> parse_int d = Some (nat_of_digits d).
Proof.
  intros Hd Hne. unfold parse_int. rewrite (strip_ws_digits _ Hd).
  destruct d as [|c r]; [congruence|].
  assert (Hc : is_digit c = true) by (unfold digits in Hd; cbn in Hd; now apply andb_true_iff in Hd as [? _]).
  apply is_digit_spec in Hc.
  replace (c =? CH_MINUS) with false by (symmetry; apply N.eqb_neq; unfold CH_MINUS; lia).
  replace (c =? CH_PLUS) with false by (symmetry; apply N.eqb_neq; unfold CH_PLUS; lia).
  rewrite (digits_val_digits (c :: r) 0 Hd Hne false). reflexivity.
Qed.

Example nat_of_digits_ex : nat_of_digits [48; 48; 49; 50] = 12%Z /\ parse_int [48; 48; 49; 50] = Some 12%Z.
Proof. split; reflexivity. Qed.
Example parse_int_width_ex : digits [48; 55] /\ [48; 55] <> [].
Proof. split; [reflexivity | discriminate]. Qed.

(* ---------------------------------------------------------------------------------------- *)
(* 2. bare widths                                                                           *)
(* ---------------------------------------------------------------------------------------- *)
Definition bare (w : str) : sfmt := {| sf_fill := None; sf_flag := None; sf_align := ALeft; sf_width := w |}.

Theorem parse_string_format_digits w : digits w -> parse_string_format w = SFok (bare w).
Proof. intros H. unfold parse_string_format. apply span_nil_iff in H. now rewrite H. Qed.

Theorem parse_string_format_nil : parse_string_format [] = SFok (bare []).
Proof. reflexivity. Qed.

Example parse_string_format_digits_ex :
  digits [53] /\ parse_string_format [53] = SFok (bare [53]) /\
  digits [48; 49; 50] /\ parse_string_format [48; 49; 50] = SFok (bare [48; 49; 50]).
Proof. repeat split. Qed.

(* ---------------------------------------------------------------------------------------- *)
(* match_align in closed form                                                               *)
(* ---------------------------------------------------------------------------------------- *)
Definition okx (x : char) (s2 : str) : bool :=
  match s2 with c :: r => (c =? x) && is_nil (snd (span_digits r)) | [] => false end.

Lemma match_align_nil x : match_align x [] = None.
Proof. reflexivity. Qed.

Definition okp (x : char) (t : option char * option char * str) : bool := okx x (snd t).

Lemma find_ext' {A} (f g : A -> bool) l : (forall a, f a = g a) -> find f l = find g l.
Proof. intros H. induction l as [|a l IH]; [reflexivity|]. cbn [find]. now rewrite H, IH. Qed.

Lemma match_align_okp x s :
  match_align x s =
  match find (okp x) (flat_map (fun '(f, s1) => map (fun '(sg, s2) => (f, sg, s2)) (opt_take is_sign s1))
                               (opt_take (fun _ => true) s)) with
  | Some (f, sg, s2) => Some (f, sg, fst (span_digits (tl s2)))
  | None => None
  end.
Proof.
  unfold match_align. erewrite (find_ext' _ (okp x)); [reflexivity|]. intros [[f sg] s2]. reflexivity.
Qed.

Lemma match_align_cons x f r :
  match_align x (f :: r) =
  if (match r with sg :: r2 => is_sign sg && okx x r2 | [] => false end)
  then Some (Some f, hd_error r, fst (span_digits (tl (tl r))))
  else if okx x r then Some (Some f, None, fst (span_digits (tl r)))
  else if okx x (f :: r) then Some (None, None, fst (span_digits r))
  else None.
Proof.
  rewrite match_align_okp. cbn [opt_take flat_map app].
  destruct r as [|sg r2].
  - cbn [opt_take map app find]; unfold okp; cbn [snd]. replace (okx x []) with false by reflexivity.
    destruct (is_sign f); cbn [map app find]; unfold okp; cbn [snd]; replace (okx x []) with false by reflexivity;
      destruct (okx x [f]); reflexivity.
  - cbn [opt_take]. destruct (is_sign sg) eqn:Es; cbn [map app find andb hd_error tl]; unfold okp; cbn [snd].
    + destruct (okx x r2) eqn:E2; [reflexivity|].
      destruct (okx x (sg :: r2)) eqn:E1; [reflexivity|].
      destruct (is_sign f); cbn [map app find]; unfold okp; cbn [snd]; try rewrite E1;
        destruct (okx x (f :: sg :: r2)); reflexivity.
    + destruct (okx x (sg :: r2)) eqn:E1; [reflexivity|].
      destruct (is_sign f); cbn [map app find]; unfold okp; cbn [snd]; try rewrite E1;
        destruct (okx x (f :: sg :: r2)); reflexivity.
Qed.

Lemma okx_hit x w : digits w -> okx x (x :: w) = true.
Proof. intros H. cbn [okx]. rewrite N.eqb_refl. apply span_nil_iff in H. now rewrite H. Qed.
Lemma okx_ne x c r : (c =? x) = false -> okx x (c :: r) = false.
Proof. intros H. cbn [okx]. now rewrite H. Qed.
Lemma okx_bad x c pre d r : is_digit d = false -> okx x (c :: pre ++ d :: r) = false.
Proof. intros H. cbn [okx]. rewrite (not_digits_mid pre d r H). apply andb_false_r. Qed.

Lemma okx_bad0 x c d r : is_digit d = false -> okx x (c :: d :: r) = false.
Proof. apply (okx_bad x c []). Qed.

Definition align_beq (a b : align) : bool :=
  match a, b with ALeft, ALeft | ARight, ARight | ACenter, ACenter => true | _, _ => false end.
Lemma align_beq_eq a b : align_beq a b = true <-> a = b.
Proof. destruct a, b; cbn; split; intros H; try reflexivity; discriminate. Qed.
Lemma align_char_eqb a b : (align_char a =? align_char b) = align_beq a b.
Proof. destruct a, b; reflexivity. Qed.
Lemma sign_ne_align c a : is_sign c = true -> (c =? align_char a) = false.
Proof. intros H. apply is_sign_spec in H as [-> | ->]; destruct a; reflexivity. Qed.
Lemma digit_ne_align c a : is_digit c = true -> (c =? align_char a) = false.
Proof.
  intros H. apply digit_not_align in H. destruct (c =? align_char a) eqn:E; [|reflexivity].
  apply N.eqb_eq in E. subst c. now rewrite is_align_char in H.
Qed.

(* ---------------------------------------------------------------------------------------- *)
(* 1. the round trip                                                                        *)
(* ---------------------------------------------------------------------------------------- *)
(* the regex's greedy reading of (fill, flag): the first optional character is the fill, so a
   flag that is not preceded by a fill character is read as the fill *)
Definition greedy_fill (fill flag : option char) : option char :=
  match fill with Some _ => fill | None => flag end.
Definition greedy_flag (fill flag : option char) : option char :=
  match fill with Some _ => flag | None => None end.

Lemma match_align_print x fill flag al w :
  flag_okb flag = true -> digits w ->
  match_align (align_char x) (print_sf fill flag al w) =
  if align_beq al x then Some (greedy_fill fill flag, greedy_flag fill flag, w) else None.
Proof.
  intros Hf Hw. pose proof (span_digits_digits w Hw) as Hsp.
  destruct fill as [f|], flag as [sg|]; cbn [flag_okb] in Hf;
    cbn [print_sf opt_str app greedy_fill greedy_flag]; rewrite match_align_cons.
  - (* fill, flag *)
    rewrite Hf. cbn [andb hd_error tl].
    destruct (align_beq al x) eqn:E.
    + apply align_beq_eq in E. subst x. rewrite (okx_hit _ w Hw), Hsp. reflexivity.
    + rewrite (okx_ne _ (align_char al)) by (now rewrite align_char_eqb).
      rewrite (okx_ne _ sg) by (now apply sign_ne_align).
      rewrite (okx_bad0 _ f sg) by (now apply sign_not_digit). reflexivity.
  - (* fill only *)
    rewrite (align_not_sign al). cbn [andb tl].
    destruct (align_beq al x) eqn:E.
    + apply align_beq_eq in E. subst x. rewrite (okx_hit _ w Hw), Hsp. reflexivity.
    + rewrite (okx_ne _ (align_char al)) by (now rewrite align_char_eqb).
      rewrite (okx_bad0 _ f (align_char al)) by apply align_not_digit. reflexivity.
  - (* flag only: the flag is read as the fill *)
    rewrite (align_not_sign al). cbn [andb tl].
    destruct (align_beq al x) eqn:E.
    + apply align_beq_eq in E. subst x. rewrite (okx_hit _ w Hw), Hsp. reflexivity.
    + rewrite (okx_ne _ (align_char al)) by (now rewrite align_char_eqb).
      rewrite (okx_bad0 _ sg (align_char al)) by apply align_not_digit. reflexivity.
  - (* neither *)
    assert (H1 : match w with sg :: r2 => is_sign sg && okx (align_char x) r2 | [] => false end = false).
    { destruct w as [|d w']; [reflexivity|]. unfold digits in Hw. cbn [forallb] in Hw.
      apply andb_true_iff in Hw as [Hd _]. now rewrite (digit_not_sign d Hd). }
    assert (H2 : okx (align_char x) w = false).
    { destruct w as [|d w']; [reflexivity|]. unfold digits in Hw. cbn [forallb] in Hw.
      apply andb_true_iff in Hw as [Hd _]. apply okx_ne. now apply digit_ne_align. }
    rewrite H1, H2.
    destruct (align_beq al x) eqn:E.
    + apply align_beq_eq in E. subst x. rewrite (okx_hit _ w Hw), Hsp. reflexivity.
    + rewrite (okx_ne _ (align_char al)) by (now rewrite align_char_eqb). reflexivity.
Qed.

Theorem parse_print_sf fill flag al w :
  flag_ok flag -> digits w ->
  parse_string_format (print_sf fill flag al w) =
  SFok {| sf_fill := greedy_fill fill flag; sf_flag := greedy_flag fill flag; sf_align := al; sf_width := w |}.
Proof.
  intros Hf Hw. apply flag_okb_spec in Hf. unfold parse_string_format.
  replace (is_nil (snd (span_digits (print_sf fill flag al w)))) with false.
  2:{ unfold print_sf. rewrite app_assoc. symmetry. apply not_digits_mid, align_not_digit. }
  change 60 with (align_char ALeft). change 62 with (align_char ARight). change 94 with (align_char ACenter).
  rewrite !(match_align_print _ fill flag al w Hf Hw).
  destruct al; reflexivity.
Qed.

(* with a fill character present, the components are read back exactly *)
Corollary parse_print_sf_fill f flag al w :
  flag_ok flag -> digits w ->
  parse_string_format (print_sf (Some f) flag al w) =
  SFok {| sf_fill := Some f; sf_flag := flag; sf_align := al; sf_width := w |}.
Proof. intros Hf Hw. now rewrite parse_print_sf. Qed.

(* without fill and flag as well *)
Corollary parse_print_sf_plain al w :
  digits w ->
  parse_string_format (align_char al :: w) =
  SFok {| sf_fill := None; sf_flag := None; sf_align := al; sf_width := w |}.
Proof. intros Hw. apply (parse_print_sf None None al w); [left; reflexivity | exact Hw]. Qed.

(* THE exceptional reading: a flag that is not preceded by a fill is the fill; "-<5" pads with '-'
   and extends the formatting, it does not switch the extension off *)
Corollary parse_print_sf_flag_only sg al w :
  flag_ok (Some sg) -> digits w ->
  parse_string_format (print_sf None (Some sg) al w) =
  SFok {| sf_fill := Some sg; sf_flag := None; sf_align := al; sf_width := w |}.
Proof. intros Hf Hw. now rewrite parse_print_sf. Qed.

(* hence the printer is injective up to that identification *)
Corollary print_sf_inj f1 g1 a1 w1 f2 g2 a2 w2 :
  flag_ok g1 -> flag_ok g2 -> digits w1 -> digits w2 ->
  print_sf f1 g1 a1 w1 = print_sf f2 g2 a2 w2 ->
  greedy_fill f1 g1 = greedy_fill f2 g2 /\ greedy_flag f1 g1 = greedy_flag f2 g2 /\ a1 = a2 /\ w1 = w2.
Proof.
  intros H1 H2 H3 H4 E. pose proof (parse_print_sf f1 g1 a1 w1 H1 H3) as P1.
  rewrite E, (parse_print_sf f2 g2 a2 w2 H2 H4) in P1. inversion P1. auto.
Qed.

(* the special fill characters: none of them is an exception *)
Example rt_star   : parse_string_format [42; 60; 54] = SFok {| sf_fill := Some 42; sf_flag := None; sf_align := ALeft; sf_width := [54] |}.
Proof. reflexivity. Qed.                                                                     (* "*<6" *)
Example rt_colon  : parse_string_format [58; 60; 55] = SFok {| sf_fill := Some 58; sf_flag := None; sf_align := ALeft; sf_width := [55] |}.
Proof. reflexivity. Qed.                                                                     (* ":<7" *)
Example rt_lt_lt  : parse_string_format [60; 60; 51] = SFok {| sf_fill := Some 60; sf_flag := None; sf_align := ALeft; sf_width := [51] |}.
Proof. reflexivity. Qed.                                                                     (* "<<3" *)
Example rt_lt_gt  : parse_string_format [60; 62; 51] = SFok {| sf_fill := Some 60; sf_flag := None; sf_align := ARight; sf_width := [51] |}.
Proof. reflexivity. Qed.                                                                     (* "<>3": fill '<', right *)
Example rt_gt_lt  : parse_string_format [62; 60; 51] = SFok {| sf_fill := Some 62; sf_flag := None; sf_align := ALeft; sf_width := [51] |}.
Proof. reflexivity. Qed.                                                                     (* "><3": fill '>', left *)
Example rt_digit  : parse_string_format [48; 62; 52] = SFok {| sf_fill := Some 48; sf_flag := None; sf_align := ARight; sf_width := [52] |}.
Proof. reflexivity. Qed.                                                                     (* "0>4" *)
Example rt_digit2 : parse_string_format [53; 60; 53] = SFok {| sf_fill := Some 53; sf_flag := None; sf_align := ALeft; sf_width := [53] |}.
Proof. reflexivity. Qed.                                                                     (* "5<5" *)
Example rt_pp     : parse_string_format [43; 43; 60] = SFok {| sf_fill := Some 43; sf_flag := Some 43; sf_align := ALeft; sf_width := [] |}.
Proof. reflexivity. Qed.                                                                     (* "++<" *)
Example rt_mm     : parse_string_format [45; 45; 62; 51] = SFok {| sf_fill := Some 45; sf_flag := Some 45; sf_align := ARight; sf_width := [51] |}.
Proof. reflexivity. Qed.                                                                     (* "-->3" *)
Example rt_lt_m   : parse_string_format [60; 45; 60; 51] = SFok {| sf_fill := Some 60; sf_flag := Some 45; sf_align := ALeft; sf_width := [51] |}.
Proof. reflexivity. Qed.                                                                     (* "<-<3" *)
(* the exception: flag without fill *)
Example rt_minus_only : parse_string_format [45; 62; 55] = SFok {| sf_fill := Some 45; sf_flag := None; sf_align := ARight; sf_width := [55] |}.
Proof. reflexivity. Qed.                                                                     (* "->7" *)
Example rt_plus_only  : parse_string_format [43; 94; 53] = SFok {| sf_fill := Some 43; sf_flag := None; sf_align := ACenter; sf_width := [53] |}.
Proof. reflexivity. Qed.                                                                     (* "+^5" *)
Example rt_ambiguous_print : print_sf None (Some 45) ARight [55] = print_sf (Some 45) None ARight [55].
Proof. reflexivity. Qed.
Example parse_print_sf_ex : flag_ok (Some 45) /\ digits [49; 50] /\
  parse_string_format (print_sf (Some 58) (Some 45) ACenter [49; 50]) =
  SFok {| sf_fill := Some 58; sf_flag := Some 45; sf_align := ACenter; sf_width := [49; 50] |}.
Proof. split; [right; right; reflexivity|]. split; reflexivity. Qed.

(* ---------------------------------------------------------------------------------------- *)
(* 3. completeness: SFok only on the grammar                                                *)
(* ---------------------------------------------------------------------------------------- *)
Lemma opt_take_in p s o r :
  In (o, r) (opt_take p s) -> s = opt_str o ++ r /\ match o with Some c => p c = true | None => True end.
Proof.
  destruct s as [|c s']; cbn [opt_take].
  - intros [H | []]. inversion H. subst. split; [reflexivity | exact I].
  - destruct (p c) eqn:E.
    + intros [H | [H | []]]; inversion H; subst; split; auto.
    + intros [H | []]. inversion H; subst. split; [reflexivity | exact I].
Qed.

Lemma okx_true x s2 : okx x s2 = true -> exists w, s2 = x :: w /\ digits w /\ fst (span_digits (tl s2)) = w.
Proof.
  destruct s2 as [|c r]; cbn [okx]; [discriminate|]. intros H. apply andb_true_iff in H as [H1 H2].
  apply N.eqb_eq in H1. subst c. exists r. split; [reflexivity|]. split; [now apply span_nil_iff|].
  cbn [tl]. now apply span_nil_fst.
Qed.

Lemma match_align_sound x s f sg w :
  match_align x s = Some (f, sg, w) ->
  s = opt_str f ++ opt_str sg ++ x :: w /\ flag_ok sg /\ digits w.
Proof.
  rewrite match_align_okp.
  destruct (find _ _) as [[[f' sg'] s2]|] eqn:E; [|discriminate].
  intros H. inversion H; subst f' sg' w; clear H.
  apply find_some in E as [Hin Hok]. unfold okp in Hok. cbn [snd] in Hok.
  apply in_flat_map in Hin as [[f1 s1] [Hin1 Hin2]].
  apply in_map_iff in Hin2 as [[sg2 s3] [Heq Hin2]]. inversion Heq; subst f1 sg2 s3; clear Heq.
  apply opt_take_in in Hin1 as [E1 _]. apply opt_take_in in Hin2 as [E2 Hsg].
  apply okx_true in Hok as (w & E3 & Hw & E4). rewrite E4.
  split; [subst; reflexivity|]. split; [|exact Hw].
  apply flag_okb_spec. destruct sg; [exact Hsg | reflexivity].
Qed.

(* the grammar of string_format *)
Definition in_grammar (s : str) : Prop :=
  digits s \/
  exists fill flag al w, flag_ok flag /\ digits w /\ s = print_sf fill flag al w.

Theorem parse_string_format_complete s f :
  parse_string_format s = SFok f ->
  (digits s /\ f = bare s) \/
  (s = print_sf (sf_fill f) (sf_flag f) (sf_align f) (sf_width f) /\
   flag_ok (sf_flag f) /\ digits (sf_width f) /\ (sf_fill f = None -> sf_flag f = None)).
Proof.
  intros Hp. generalize Hp.
  unfold parse_string_format. destruct (is_nil (snd (span_digits s))) eqn:E0.
  - intros H. inversion H. left. split; [now apply span_nil_iff | reflexivity].
  - intros H. right.
    assert (G : s = print_sf (sf_fill f) (sf_flag f) (sf_align f) (sf_width f) /\
                flag_ok (sf_flag f) /\ digits (sf_width f)).
    { destruct (match_align 60 s) as [[[f1 sg1] w1]|] eqn:E1.
      { inversion H; subst f; cbn [sf_fill sf_flag sf_align sf_width]. now apply match_align_sound in E1. }
      destruct (match_align 62 s) as [[[f2 sg2] w2]|] eqn:E2.
      { inversion H; subst f; cbn [sf_fill sf_flag sf_align sf_width]. now apply match_align_sound in E2. }
      destruct (match_align 94 s) as [[[f3 sg3] w3]|] eqn:E3; [|discriminate].
      inversion H; subst f; cbn [sf_fill sf_flag sf_align sf_width]. now apply match_align_sound in E3. }
    destruct G as (G1 & G2 & G3). repeat split; try assumption.
    (* the greedy reading never returns a flag without a fill *)
    intros Hfill. destruct f as [fl fg al w]. cbn [sf_fill sf_flag sf_align sf_width] in *. subst fl.
    rewrite G1, (parse_print_sf None fg al w G2 G3) in Hp.
    cbn [greedy_fill greedy_flag] in Hp. inversion Hp. destruct fg; [discriminate | reflexivity].
Qed.

Theorem parse_string_format_grammar s :
  (exists f, parse_string_format s = SFok f) <-> in_grammar s.
Proof.
  split.
  - intros [f H]. apply parse_string_format_complete in H as [[H _] | (H1 & H2 & H3 & _)].
    + now left.
    + right. exists (sf_fill f), (sf_flag f), (sf_align f), (sf_width f). auto.
  - intros [H | (fill & flag & al & w & H1 & H2 & ->)].
    + eexists. now apply parse_string_format_digits.
    + eexists. now apply parse_print_sf.
Qed.

(* outside the grammar the recogniser fails, and _apply_string_format raises ValueError *)
Theorem parse_string_format_err s : parse_string_format s = SFerr <-> ~ in_grammar s.
Proof.
  rewrite <- parse_string_format_grammar. split.
  - intros H [f Hf]. congruence.
  - intros H. destruct (parse_string_format s) as [f|] eqn:E; [|reflexivity]. exfalso. apply H. now exists f.
Qed.

Theorem apply_string_format_outside_grammar s fmt settings nid :
  ~ in_grammar fmt -> apply_string_format s fmt settings nid = Err ValueError.
Proof. intros H. apply parse_string_format_err in H. unfold apply_string_format. now rewrite H. Qed.

(* the grammar is decidable, by the recogniser itself *)
Lemma in_grammar_dec s : {in_grammar s} + {~ in_grammar s}.
Proof.
  destruct (parse_string_format s) as [f|] eqn:E.
  - left. apply parse_string_format_grammar. now exists f.
  - right. now apply parse_string_format_err.
Qed.

Example outside_x5 : parse_string_format [120; 53] = SFerr.          (* "x5" *)
Proof. reflexivity. Qed.
Example outside_colon : parse_string_format [58] = SFerr.             (* ":" *)
Proof. reflexivity. Qed.
Example outside_3signs : parse_string_format [43; 43; 43; 60] = SFerr. (* "+++<" *)
Proof. reflexivity. Qed.
Example outside_two_fills : parse_string_format [48; 48; 60] = SFerr.  (* "00<" *)
Proof. reflexivity. Qed.
Example outside_lll : parse_string_format [60; 60; 60] = SFerr.        (* "<<<" *)
Proof. reflexivity. Qed.
Example outside_ex : ~ in_grammar [120; 53].
Proof. now apply parse_string_format_err. Qed.
Example complete_ex : exists f, parse_string_format [58; 43; 60; 49] = SFok f.
Proof. eexists. reflexivity. Qed.

(* ---------------------------------------------------------------------------------------- *)
(* 5. the meaning of a parsed string_format                                                 *)
(* ---------------------------------------------------------------------------------------- *)
Definition ext_of (flag : option char) : bool := match flag with Some c => (c =? CH_PLUS) | None => true end.
Definition fill_of (fill : option char) : char := match fill with Some c => c | None => SPACE end.
Definition pad (al : align) (s : astr) (w : Z) (fill : char) (ext : bool) : astr :=
  match al with ALeft => ljust s w fill ext | ARight => rjust s w fill ext | ACenter => center s w fill ext end.
(* "if num:" - an empty width does not pad *)
Definition pad_width (al : align) (s : astr) (w : str) (fill : char) (ext : bool) : astr :=
  if is_nil w then s else pad al s (nat_of_digits w) fill ext.

Lemma bind_ret {A} (r : res (A * nat)) : (do (a, n) <- r; OK (a, n)) = r.
Proof. destruct r as [[a n]|e]; reflexivity. Qed.

(* extension on: pad first, then apply the settings to the padded text;
   extension off ('-'): apply the settings to the text, then pad with unformatted fill *)
Theorem apply_string_format_sem s fmt f settings nid :
  parse_string_format fmt = SFok f ->
  apply_string_format s fmt settings nid =
  if ext_of (sf_flag f)
  then apply_spec_settings (pad_width (sf_align f) s (sf_width f) (fill_of (sf_fill f)) true) settings nid
  else do (s1, nid1) <- apply_spec_settings s settings nid;
       OK (pad_width (sf_align f) s1 (sf_width f) (fill_of (sf_fill f)) false, nid1).
Proof.
  intros H. unfold apply_string_format. rewrite H.
  unfold ext_of, fill_of, CH_PLUS.
  destruct (match sf_flag f with Some c => c =? 43 | None => true end).
  - cbn [bind]. unfold pad_width, pad. destruct (is_nil (sf_width f)); [reflexivity|].
    destruct (sf_align f); reflexivity.
  - destruct (apply_spec_settings s settings nid) as [[s1 nid1]|e]; [|reflexivity].
    cbn [bind]. unfold pad_width, pad. destruct (is_nil (sf_width f)); [reflexivity|].
    destruct (sf_align f); reflexivity.
Qed.

Lemma ext_of_cases flag : flag_ok flag -> ext_of flag = true /\ flag <> Some CH_MINUS \/ ext_of flag = false /\ flag = Some CH_MINUS.
Proof. intros [-> | [-> | ->]]; [left | left | right]; split; try reflexivity; discriminate. Qed.

(* on the syntactic forms; fill present *)
Theorem apply_sf_ext f flag al w s settings nid :
  (flag = None \/ flag = Some CH_PLUS) -> digits w ->
  apply_string_format s (print_sf (Some f) flag al w) settings nid =
  apply_spec_settings (pad_width al s w f true) settings nid.
Proof.
  intros Hf Hw. rewrite (apply_string_format_sem s _ _ settings nid (parse_print_sf_fill f flag al w
    ltac:(destruct Hf; [left | right; left]; assumption) Hw)).
  cbn [sf_fill sf_flag sf_align sf_width fill_of]. destruct Hf as [-> | ->]; reflexivity.
Qed.

Theorem apply_sf_noext f al w s settings nid :
  digits w ->
  apply_string_format s (print_sf (Some f) (Some CH_MINUS) al w) settings nid =
  do (s1, nid1) <- apply_spec_settings s settings nid; OK (pad_width al s1 w f false, nid1).
Proof.
  intros Hw. rewrite (apply_string_format_sem s _ _ settings nid (parse_print_sf_fill f (Some CH_MINUS) al w
    ltac:(right; right; reflexivity) Hw)). reflexivity.
Qed.

(* no fill: spaces, or - the exceptional reading - the sign itself, formatting always extended *)
Theorem apply_sf_nofill flag al w s settings nid :
  flag_ok flag -> digits w ->
  apply_string_format s (print_sf None flag al w) settings nid =
  apply_spec_settings (pad_width al s w (fill_of flag) true) settings nid.
Proof.
  intros Hf Hw. rewrite (apply_string_format_sem s _ _ settings nid (parse_print_sf None flag al w Hf Hw)).
  reflexivity.
Qed.

(* bare width: left-justify with spaces, formatting extended *)
Theorem apply_sf_bare w s settings nid :
  digits w ->
  apply_string_format s w settings nid = apply_spec_settings (pad_width ALeft s w SPACE true) settings nid.
Proof.
  intros Hw. rewrite (apply_string_format_sem s _ _ settings nid (parse_string_format_digits w Hw)). reflexivity.
Qed.

(* per alignment, with a non-empty width *)
Corollary apply_sf_ljust_ext f flag w s settings nid :
  (flag = None \/ flag = Some CH_PLUS) -> digits w -> w <> [] ->
  apply_string_format s (opt_str (Some f) ++ opt_str flag ++ 60 :: w) settings nid =
  apply_spec_settings (ljust s (nat_of_digits w) f true) settings nid.
Proof.
  intros Hf Hw Hne. change (opt_str (Some f) ++ opt_str flag ++ 60 :: w) with (print_sf (Some f) flag ALeft w).
  rewrite (apply_sf_ext f flag ALeft w s settings nid Hf Hw).
  unfold pad_width. destruct w; [congruence | reflexivity].
Qed.
Corollary apply_sf_rjust_ext f flag w s settings nid :
  (flag = None \/ flag = Some CH_PLUS) -> digits w -> w <> [] ->
  apply_string_format s (opt_str (Some f) ++ opt_str flag ++ 62 :: w) settings nid =
  apply_spec_settings (rjust s (nat_of_digits w) f true) settings nid.
Proof.
  intros Hf Hw Hne. change (opt_str (Some f) ++ opt_str flag ++ 62 :: w) with (print_sf (Some f) flag ARight w).
  rewrite (apply_sf_ext f flag ARight w s settings nid Hf Hw).
  unfold pad_width. destruct w; [congruence | reflexivity].
Qed.
Corollary apply_sf_center_ext f flag w s settings nid :
  (flag = None \/ flag = Some CH_PLUS) -> digits w -> w <> [] ->
  apply_string_format s (opt_str (Some f) ++ opt_str flag ++ 94 :: w) settings nid =
  apply_spec_settings (center s (nat_of_digits w) f true) settings nid.
Proof.
  intros Hf Hw Hne. change (opt_str (Some f) ++ opt_str flag ++ 94 :: w) with (print_sf (Some f) flag ACenter w).
  rewrite (apply_sf_ext f flag ACenter w s settings nid Hf Hw).
  unfold pad_width. destruct w; [congruence | reflexivity].
Qed.
Corollary apply_sf_ljust_noext f w s settings nid :
  digits w -> w <> [] ->
  apply_string_format s (f :: CH_MINUS :: 60 :: w) settings nid =
  do (s1, nid1) <- apply_spec_settings s settings nid; OK (ljust s1 (nat_of_digits w) f false, nid1).
Proof.
  intros Hw Hne. change (f :: CH_MINUS :: 60 :: w) with (print_sf (Some f) (Some CH_MINUS) ALeft w).
  rewrite (apply_sf_noext f ALeft w s settings nid Hw).
  unfold pad_width. destruct w; [congruence | reflexivity].
Qed.
Corollary apply_sf_rjust_noext f w s settings nid :
  digits w -> w <> [] ->
  apply_string_format s (f :: CH_MINUS :: 62 :: w) settings nid =
  do (s1, nid1) <- apply_spec_settings s settings nid; OK (rjust s1 (nat_of_digits w) f false, nid1).
Proof.
  intros Hw Hne. change (f :: CH_MINUS :: 62 :: w) with (print_sf (Some f) (Some CH_MINUS) ARight w).
  rewrite (apply_sf_noext f ARight w s settings nid Hw).
  unfold pad_width. destruct w; [congruence | reflexivity].
Qed.
Corollary apply_sf_center_noext f w s settings nid :
  digits w -> w <> [] ->
  apply_string_format s (f :: CH_MINUS :: 94 :: w) settings nid =
  do (s1, nid1) <- apply_spec_settings s settings nid; OK (center s1 (nat_of_digits w) f false, nid1).
Proof.
  intros Hw Hne. change (f :: CH_MINUS :: 94 :: w) with (print_sf (Some f) (Some CH_MINUS) ACenter w).
  rewrite (apply_sf_noext f ACenter w s settings nid Hw).
  unfold pad_width. destruct w; [congruence | reflexivity].
Qed.
Corollary apply_sf_bare_ljust w s settings nid :
  digits w -> w <> [] ->
  apply_string_format s w settings nid = apply_spec_settings (ljust s (nat_of_digits w) SPACE true) settings nid.
Proof.
  intros Hw Hne. rewrite (apply_sf_bare w s settings nid Hw).
  unfold pad_width. destruct w; [congruence | reflexivity].
Qed.

(* an empty width only applies the settings, whatever fill, flag and alignment say *)
Corollary apply_sf_no_width fill flag al s settings nid :
  flag_ok flag ->
  apply_string_format s (print_sf fill flag al []) settings nid = apply_spec_settings s settings nid.
Proof.
  intros Hf.
  rewrite (apply_string_format_sem s _ _ settings nid (parse_print_sf fill flag al [] Hf eq_refl)).
  cbn [sf_fill sf_flag sf_align sf_width pad_width is_nil].
  destruct (ext_of _); [reflexivity | apply bind_ret].
Qed.

(* without settings the flag is irrelevant except for where the table's last point goes *)
Corollary apply_sf_no_settings fmt f s nid :
  parse_string_format fmt = SFok f ->
  apply_string_format s fmt None nid =
  OK (pad_width (sf_align f) s (sf_width f) (fill_of (sf_fill f)) (ext_of (sf_flag f)), nid).
Proof.
  intros H. rewrite (apply_string_format_sem s fmt f None nid H). destruct (ext_of (sf_flag f)); reflexivity.
Qed.

Example apply_sf_ex_hyp : (Some CH_PLUS = None \/ Some CH_PLUS = Some CH_PLUS) /\ digits [54] /\ [54] <> [].
Proof. split; [right; reflexivity|]. split; [reflexivity | discriminate]. Qed.

(* ---------------------------------------------------------------------------------------- *)
(* to_str with a format spec                                                                *)
(* ---------------------------------------------------------------------------------------- *)
(* the model is pure: to_str_spec returns a string (or an exception) and nothing else, the
   receiver s is an argument that cannot be changed (Python: "obj = self.copy()").  What is
   rendered is spec_object: *)
Theorem to_str_spec_spec_object s sp optimize reset_start reset_end nid :
  sp <> [] ->
  to_str_spec s (Some sp) optimize reset_start reset_end nid =
  do (obj, _) <- spec_object s sp nid; OK (to_str obj optimize reset_start reset_end).
Proof.
  intros Hne. unfold to_str_spec. destruct sp as [|c sp]; [congruence|]. cbn [is_nil].
  destruct (spec_object s (c :: sp) nid) as [[obj n]|e]; [|reflexivity]. cbn [bind]. f_equal.
  unfold to_str, to_str_toks. destruct (is_nil (tbl obj) && negb reset_start); reflexivity.
Qed.

Theorem to_str_spec_none s optimize reset_start reset_end nid :
  to_str_spec s None optimize reset_start reset_end nid = OK (to_str s optimize reset_start reset_end) /\
  to_str_spec s (Some []) optimize reset_start reset_end nid = OK (to_str s optimize reset_start reset_end).
Proof. split; reflexivity. Qed.

(* ---------------------------------------------------------------------------------------- *)
(* 4. the colon split                                                                       *)
(* ---------------------------------------------------------------------------------------- *)
(* the suffixes at which the regex may start reading the width digits, in priority order *)
Definition cand2 (s2 : str) : list str :=
  match s2 with c :: s3 => if is_align c then [s3] else [] | [] => [] end.
Definition cand1 (s1 : str) : list str := flat_map (fun '(sg, s2) => cand2 s2) (opt_take is_sign s1).
Definition cands (spec : str) : list str :=
  flat_map (fun '(f, s1) => cand1 s1) (opt_take (fun _ => true) spec) ++ [spec].
(* after the digits: end of the spec, or the colon *)
Definition tailok (s3 : str) : bool :=
  match snd (span_digits s3) with [] => true | c :: _ => (c =? CH_COLON) end.
Definition colon_tail (o : option str) : str := match o with None => [] | Some a => CH_COLON :: a end.

Lemma flat_map_map {A B C} (g : B -> C) (h : A -> list B) (h' : A -> list C) l :
  (forall a, h' a = map g (h a)) -> flat_map h' l = map g (flat_map h l).
Proof. intros H. induction l as [|a l IH]; [reflexivity|]. cbn [flat_map]. now rewrite map_app, H, IH. Qed.

Lemma find_map_fs {A B} (p : B -> bool) (g : A -> B) l :
  find p (map g l) = option_map g (find (fun a => p (g a)) l).
Proof. induction l as [|a l IH]; [reflexivity|]. cbn [map find]. destruct (p (g a)); [reflexivity | exact IH]. Qed.

Definition finish (spec s3 : str) : nat * str :=
  let '(d, rest) := span_digits s3 in ((length spec - length rest)%nat, rest).
Definition accp (t : nat * str) : bool := match snd t with [] => true | c :: _ => (c =? CH_COLON) end.

Lemma split_spec_unfold spec :
  split_spec spec =
  match find accp
    (flat_map (fun '(f, s1) =>
       flat_map (fun '(sg, s2) => match s2 with c :: s3 => if is_align c then [finish spec s3] else [] | [] => [] end)
                (opt_take is_sign s1)) (opt_take (fun _ => true) spec) ++ [finish spec spec]) with
  | Some (n, rest) => Some (firstn n spec, match rest with [] => None | _ :: r => Some r end)
  | None => None
  end.
Proof.
  unfold split_spec. erewrite (find_ext' _ accp); [reflexivity|]. intros [n rest]. reflexivity.
Qed.

Lemma split_spec_cands spec :
  split_spec spec =
  match find tailok (cands spec) with
  | Some s3 => Some (firstn (length spec - length (snd (span_digits s3))) spec,
                     match snd (span_digits s3) with [] => None | _ :: r => Some r end)
  | None => None
  end.
Proof.
  rewrite split_spec_unfold.
  assert (E : flat_map (fun '(f, s1) =>
               flat_map (fun '(sg, s2) => match s2 with c :: s3 => if is_align c then [finish spec s3] else [] | [] => [] end)
                        (opt_take is_sign s1)) (opt_take (fun _ => true) spec) ++ [finish spec spec]
              = map (finish spec) (cands spec)).
  { unfold cands. rewrite map_app. cbn [map]. f_equal.
    apply flat_map_map. intros [f s1]. unfold cand1. apply flat_map_map. intros [sg s2].
    unfold cand2. destruct s2 as [|c s3]; [reflexivity|]. destruct (is_align c); reflexivity. }
  rewrite E, find_map_fs.
  rewrite (find_ext' (fun a => accp (finish spec a)) tailok).
  2:{ intros s3. unfold accp, finish, tailok. destruct (span_digits s3) as [d rest]. reflexivity. }
  destruct (find tailok (cands spec)) as [s3|]; [|reflexivity].
  cbn [option_map]. unfold finish. destruct (span_digits s3) as [d rest]. reflexivity.
Qed.

Lemma cands_nil : cands [] = [[]].
Proof. reflexivity. Qed.
Lemma cands_cons f r : cands (f :: r) = cand1 r ++ cand1 (f :: r) ++ [f :: r].
Proof. unfold cands. cbn [opt_take flat_map]. now rewrite app_nil_r, app_assoc. Qed.

Lemma cand1_align a r : cand1 (align_char a :: r) = [r].
Proof. unfold cand1. cbn [opt_take]. rewrite align_not_sign. cbn [flat_map cand2 app]. now rewrite is_align_char. Qed.
Lemma cand1_sign_align sg a r : is_sign sg = true -> cand1 (sg :: align_char a :: r) = [r].
Proof.
  intros H. unfold cand1. cbn [opt_take]. rewrite H. cbn [flat_map cand2 app].
  now rewrite is_align_char, (sign_not_align sg H).
Qed.
Lemma cand1_digits_tail w o : digits w -> cand1 (w ++ colon_tail o) = [].
Proof.
  intros Hw. destruct w as [|d w'].
  - destruct o as [a|]; reflexivity.
  - unfold digits in Hw. cbn [forallb] in Hw. apply andb_true_iff in Hw as [Hd _].
    unfold cand1. cbn [app opt_take]. rewrite (digit_not_sign d Hd). cbn [flat_map cand2 app].
    now rewrite (digit_not_align d Hd).
Qed.
Lemma cand1_digit d r : is_digit d = true -> cand1 (d :: r) = [].
Proof.
  intros Hd. unfold cand1. cbn [opt_take]. rewrite (digit_not_sign d Hd). cbn [flat_map cand2 app].
  now rewrite (digit_not_align d Hd).
Qed.

Lemma tailok_digits_tail w o : digits w -> tailok (w ++ colon_tail o) = true.
Proof.
  intros Hw. unfold tailok. rewrite span_digits_app; [|exact Hw|destruct o; [reflexivity | exact I]].
  cbn [snd]. destruct o; reflexivity.
Qed.

Lemma firstn_cut {A} (a b : list A) : firstn (length (a ++ b) - length b) (a ++ b) = a.
Proof.
  rewrite app_length. replace (length a + length b - length b)%nat with (length a + 0)%nat by lia.
  rewrite firstn_app_2. cbn [firstn]. apply app_nil_r.
Qed.

(* once the first accepted candidate is known, the split is known *)
Lemma split_spec_found pre w o rest :
  digits w ->
  find tailok (cands (pre ++ w ++ colon_tail o)) = Some (w ++ colon_tail o) ->
  rest = colon_tail o ->
  split_spec (pre ++ w ++ rest) = Some (pre ++ w, o).
Proof.
  intros Hw Hfind ->. rewrite split_spec_cands, Hfind.
  rewrite span_digits_app; [|exact Hw|destruct o; [reflexivity | exact I]]. cbn [snd].
  rewrite app_assoc, firstn_cut. destruct o; reflexivity.
Qed.

(* every string_format with an alignment character splits off unambiguously, whatever follows
   the colon - also with ':' as the fill character *)
Theorem split_spec_print_sf fill flag al w o :
  flag_ok flag -> digits w ->
  split_spec (print_sf fill flag al w ++ colon_tail o) = Some (print_sf fill flag al w, o).
Proof.
  intros Hf Hw. apply flag_okb_spec in Hf.
  pose proof (tailok_digits_tail w o Hw) as Hok.
  destruct fill as [f|], flag as [sg|]; cbn [flag_okb] in Hf; unfold print_sf; cbn [opt_str app].
  - change (f :: sg :: align_char al :: w ++ colon_tail o) with ([f; sg; align_char al] ++ w ++ colon_tail o).
    change (f :: sg :: align_char al :: w) with ([f; sg; align_char al] ++ w).
    apply split_spec_found; [exact Hw | | reflexivity].
    cbn [app]. rewrite cands_cons, (cand1_sign_align sg al _ Hf). cbn [app find]. now rewrite Hok.
  - change (f :: align_char al :: w ++ colon_tail o) with ([f; align_char al] ++ w ++ colon_tail o).
    change (f :: align_char al :: w) with ([f; align_char al] ++ w).
    apply split_spec_found; [exact Hw | | reflexivity].
    cbn [app]. rewrite cands_cons, cand1_align. cbn [app find]. now rewrite Hok.
  - change (sg :: align_char al :: w ++ colon_tail o) with ([sg; align_char al] ++ w ++ colon_tail o).
    change (sg :: align_char al :: w) with ([sg; align_char al] ++ w).
    apply split_spec_found; [exact Hw | | reflexivity].
    cbn [app]. rewrite cands_cons, cand1_align. cbn [app find]. now rewrite Hok.
  - change (align_char al :: w ++ colon_tail o) with ([align_char al] ++ w ++ colon_tail o).
    change (align_char al :: w) with ([align_char al] ++ w).
    apply split_spec_found; [exact Hw | | reflexivity].
    cbn [app]. rewrite cands_cons, (cand1_digits_tail w o Hw), cand1_align. cbn [app find]. now rewrite Hok.
Qed.

Corollary split_spec_print_sf_colon fill flag al w ansi :
  flag_ok flag -> digits w ->
  split_spec (print_sf fill flag al w ++ [CH_COLON] ++ ansi) = Some (print_sf fill flag al w, Some ansi).
Proof. intros Hf Hw. apply (split_spec_print_sf fill flag al w (Some ansi) Hf Hw). Qed.

Corollary split_spec_print_sf_alone fill flag al w :
  flag_ok flag -> digits w ->
  split_spec (print_sf fill flag al w) = Some (print_sf fill flag al w, None).
Proof.
  intros Hf Hw. pose proof (split_spec_print_sf fill flag al w None Hf Hw) as H.
  cbn [colon_tail] in H. now rewrite app_nil_r in H.
Qed.

(* a bare non-empty width splits off unambiguously *)
Theorem split_spec_width w o :
  digits w -> w <> [] -> split_spec (w ++ colon_tail o) = Some (w, o).
Proof.
  intros Hw Hne. destruct w as [|d w']; [congruence|].
  pose proof (tailok_digits_tail (d :: w') o Hw) as Hok.
  assert (Hd : is_digit d = true /\ digits w').
  { unfold digits in *. cbn [forallb] in Hw. now apply andb_true_iff in Hw. }
  destruct Hd as [Hd Hw'].
  apply (split_spec_found [] (d :: w') o _ Hw); [|reflexivity].
  cbn [app] in *. rewrite cands_cons, (cand1_digits_tail w' o Hw'), (cand1_digit d _ Hd). cbn [app find].
  now rewrite Hok.
Qed.

(* the empty spec and the all-digit spec, without colon *)
Theorem split_spec_digits w : digits w -> split_spec w = Some (w, None).
Proof.
  intros Hw. destruct w as [|d w']; [reflexivity|].
  pose proof (split_spec_width (d :: w') None Hw ltac:(discriminate)) as H.
  cbn [colon_tail] in H. now rewrite app_nil_r in H.
Qed.

(* so: every string_format of the grammar, alone, is its own first part *)
Theorem split_spec_in_grammar sf : in_grammar sf -> split_spec sf = Some (sf, None).
Proof.
  intros [H | (fill & flag & al & w & H1 & H2 & ->)].
  - now apply split_spec_digits.
  - now apply split_spec_print_sf_alone.
Qed.

(* ---------- soundness of the split: what comes out is always in the grammar ---------- *)
Lemma cand1_in s1 s3 :
  In s3 (cand1 s1) -> exists sg a, s1 = opt_str sg ++ align_char a :: s3 /\ flag_ok sg.
Proof.
  unfold cand1. intros H. apply in_flat_map in H as [[sg s2] [H1 H2]].
  apply opt_take_in in H1 as [E1 Hsg].
  destruct s2 as [|c s3']; cbn [cand2] in H2; [contradiction|].
  destruct (is_align c) eqn:Ea; [|contradiction]. destruct H2 as [<- | []].
  apply is_align_spec in Ea as [a ->]. exists sg, a. split; [exact E1|].
  apply flag_okb_spec. destruct sg; [exact Hsg | reflexivity].
Qed.

Lemma tailok_inv s3 : tailok s3 = true -> exists w o, digits w /\ s3 = w ++ colon_tail o.
Proof.
  unfold tailok. intros H. destruct (span_digits_spec s3) as (H1 & H2 & _).
  destruct (snd (span_digits s3)) as [|c r] eqn:E.
  - exists (fst (span_digits s3)), None. split; [exact H2 | exact H1].
  - apply N.eqb_eq in H. subst c. exists (fst (span_digits s3)), (Some r). split; [exact H2 | exact H1].
Qed.

Lemma cands_in spec s3 :
  In s3 (cands spec) ->
  s3 = spec \/ exists f sg a, spec = opt_str f ++ opt_str sg ++ align_char a :: s3 /\ flag_ok sg.
Proof.
  unfold cands. intros H. apply in_app_or in H as [H | [<- | []]]; [|now left].
  right. apply in_flat_map in H as [[f s1] [H1 H2]].
  apply opt_take_in in H1 as [E1 _]. apply cand1_in in H2 as (sg & a & E2 & Hsg).
  exists f, sg, a. subst. auto.
Qed.

Theorem split_spec_sound spec p0 o :
  split_spec spec = Some (p0, o) -> spec = p0 ++ colon_tail o /\ in_grammar p0.
Proof.
  intros H. pose proof H as H0. rewrite split_spec_cands in H0.
  destruct (find tailok (cands spec)) as [s3|] eqn:E; [|discriminate]. clear H0.
  pose proof E as E'. apply find_some in E' as [Hin Hok].
  apply tailok_inv in Hok as (w & o' & Hw & ->).
  apply cands_in in Hin as [Hs | (f & sg & a & Hs & Hsg)].
  - (* the optional group is skipped: a bare width *)
    subst spec. pose proof (split_spec_found [] w o' (colon_tail o') Hw E eq_refl) as G. cbn [app] in G.
    rewrite G in H. inversion H; subst p0 o.
    split; [reflexivity | left; exact Hw].
  - pose proof (split_spec_found (opt_str f ++ opt_str sg ++ [align_char a]) w o' (colon_tail o') Hw) as G.
    assert (Hs' : spec = (opt_str f ++ opt_str sg ++ [align_char a]) ++ w ++ colon_tail o').
    { rewrite Hs, <- !app_assoc. reflexivity. }
    rewrite <- Hs' in G. specialize (G E eq_refl). rewrite G in H. inversion H; subst p0 o.
    split; [rewrite <- app_assoc; exact Hs'|]. right. exists f, sg, a, w. split; [exact Hsg|]. split; [exact Hw|].
    unfold print_sf. rewrite <- !app_assoc. reflexivity.
Qed.

(* the string_format handed to _apply_string_format by to_str always parses *)
Corollary split_spec_part_parses spec p0 o :
  split_spec spec = Some (p0, o) -> exists f, parse_string_format p0 = SFok f.
Proof. intros H. apply split_spec_sound in H as [_ H]. now apply parse_string_format_grammar. Qed.

(* the colon regex fails only on specs that are no string_format either *)
Corollary split_spec_none spec : split_spec spec = None -> parse_string_format spec = SFerr.
Proof.
  intros H. apply parse_string_format_err. intros G. apply split_spec_in_grammar in G. congruence.
Qed.

(* the converse fails: ":" has an empty string_format and empty settings, but is no string_format *)
Example split_spec_colon_only : split_spec [58] = Some ([], Some []) /\ parse_string_format [58] = SFerr.
Proof. split; reflexivity. Qed.

(* ---------- a colon first: empty string_format, or the colon as fill character ---------- *)
Definition colon_fill (ansi : str) : bool := existsb tailok (cand1 ansi).

Lemma find_existsb_false {A} (p : A -> bool) l l' : existsb p l = false -> find p (l ++ l') = find p l'.
Proof.
  induction l as [|a l IH]; [reflexivity|]. cbn [existsb app find]. intros H.
  apply orb_false_iff in H as [H1 H2]. rewrite H1. now apply IH.
Qed.

Theorem split_spec_colon_first ansi :
  colon_fill ansi = false -> split_spec (CH_COLON :: ansi) = Some ([], Some ansi).
Proof.
  intros H. apply (split_spec_found [] [] (Some ansi) _ eq_refl); [|reflexivity].
  cbn [app colon_tail]. rewrite cands_cons. rewrite (find_existsb_false _ _ _ H). reflexivity.
Qed.

(* otherwise the settings part starts like [+-]?[<>^][0-9]*(:|$) and the colon is taken as the
   fill character of a string_format *)
Theorem split_spec_colon_fill ansi :
  colon_fill ansi = true ->
  exists flag al w o, flag_ok flag /\ digits w /\
    ansi = opt_str flag ++ align_char al :: w ++ colon_tail o /\
    split_spec (CH_COLON :: ansi) = Some (print_sf (Some CH_COLON) flag al w, o).
Proof.
  intros H. apply existsb_exists in H as (s3 & Hin & Hok).
  apply cand1_in in Hin as (sg & a & E & Hsg). apply tailok_inv in Hok as (w & o & Hw & ->).
  exists sg, a, w, o. split; [exact Hsg|]. split; [exact Hw|]. split; [exact E|].
  rewrite <- (split_spec_print_sf (Some CH_COLON) sg a w o Hsg Hw). f_equal.
  unfold print_sf. cbn [opt_str app]. rewrite E, <- !app_assoc. reflexivity.
Qed.

Example colon_red : colon_fill [114; 101; 100] = false /\
  split_spec (58 :: [114; 101; 100]) = Some ([], Some [114; 101; 100]).            (* ":red" *)
Proof. split; reflexivity. Qed.
Example colon_colon_red : colon_fill (58 :: [114; 101; 100]) = false /\
  split_spec (58 :: 58 :: [114; 101; 100]) = Some ([], Some (58 :: [114; 101; 100])).   (* "::red" *)
Proof. split; reflexivity. Qed.
Example lt_colon_red : split_spec (60 :: 58 :: [114; 101; 100]) = Some ([60], Some [114; 101; 100]).  (* "<:red" *)
Proof. reflexivity. Qed.
Example star_lt6_bold_red :
  split_spec ([42; 60; 54] ++ 58 :: [98; 111; 108; 100; 59; 114; 101; 100]) =
  Some ([42; 60; 54], Some [98; 111; 108; 100; 59; 114; 101; 100]).                 (* "*<6:bold;red" *)
Proof. reflexivity. Qed.
(* the ambiguity: ":+<5" is not "no string_format, settings +<5" but "fill ':', flag '+', left, 5" *)
Example colon_ambiguous : colon_fill [43; 60; 53] = true /\
  split_spec [58; 43; 60; 53] = Some ([58; 43; 60; 53], None).
Proof. split; reflexivity. Qed.
(* ":<:" is "fill ':', left, no width" with empty settings *)
Example colon_ambiguous2 : split_spec [58; 60; 58] = Some ([58; 60], Some []).
Proof. reflexivity. Qed.
(* and with ':' as fill the next colon still separates *)
Example colon_fill_colon : split_spec ([58; 60; 55] ++ 58 :: [114; 101; 100]) = Some ([58; 60; 55], Some [114; 101; 100]).
Proof. reflexivity. Qed.
Example split_none_x5 : split_spec [120; 53] = None.
Proof. reflexivity. Qed.
Example split_spec_sound_ex : split_spec [48; 62; 52; 58; 49] = Some ([48; 62; 52], Some [49]).
Proof. reflexivity. Qed.

(* ---------------------------------------------------------------------------------------- *)
(* the object rendered by to_str(format_spec)                                               *)
(* ---------------------------------------------------------------------------------------- *)
(* no match of the colon regex: ValueError *)
Theorem spec_object_no_match s spec nid : split_spec spec = None -> spec_object s spec nid = Err ValueError.
Proof.
  intros H. unfold spec_object. rewrite H. unfold apply_string_format. now rewrite (split_spec_none spec H).
Qed.

(* a match: the string_format part always parses, and the object is given by its components *)
Theorem spec_object_sem s spec p0 o nid :
  split_spec spec = Some (p0, o) ->
  exists f, parse_string_format p0 = SFok f /\
  spec_object s spec nid =
  if ext_of (sf_flag f)
  then apply_spec_settings (pad_width (sf_align f) s (sf_width f) (fill_of (sf_fill f)) true) o nid
  else do (s1, nid1) <- apply_spec_settings s o nid;
       OK (pad_width (sf_align f) s1 (sf_width f) (fill_of (sf_fill f)) false, nid1).
Proof.
  intros H. destruct (split_spec_part_parses spec p0 o H) as [f Hf]. exists f. split; [exact Hf|].
  unfold spec_object. rewrite H. destruct p0 as [|c p0']; cbn [is_nil negb].
  - cbn in Hf. inversion Hf. reflexivity.
  - now apply apply_string_format_sem.
Qed.

(* the documented forms *)
Corollary spec_object_print_sf s fill flag al w o nid :
  flag_ok flag -> digits w ->
  spec_object s (print_sf fill flag al w ++ colon_tail o) nid =
  apply_string_format s (print_sf fill flag al w) o nid.
Proof.
  intros Hf Hw. unfold spec_object. rewrite (split_spec_print_sf fill flag al w o Hf Hw).
  unfold print_sf. destruct fill, flag; reflexivity.
Qed.

Corollary spec_object_width s w o nid :
  digits w -> w <> [] ->
  spec_object s (w ++ colon_tail o) nid = apply_spec_settings (ljust s (nat_of_digits w) SPACE true) o nid.
Proof.
  intros Hw Hne. unfold spec_object. rewrite (split_spec_width w o Hw Hne).
  destruct w as [|d w']; [congruence|]. cbn [is_nil negb]. now apply apply_sf_bare_ljust.
Qed.

Corollary spec_object_settings_only s ansi nid :
  colon_fill ansi = false ->
  spec_object s (CH_COLON :: ansi) nid = apply_spec_settings s (Some ansi) nid.
Proof. intros H. unfold spec_object. now rewrite (split_spec_colon_first ansi H). Qed.

(* "fill - align width : settings": settings on the text only, unformatted fill *)
Corollary spec_object_noext s f al w ansi nid :
  digits w ->
  spec_object s (f :: CH_MINUS :: align_char al :: w ++ CH_COLON :: ansi) nid =
  do (s1, nid1) <- apply_spec_settings s (Some ansi) nid; OK (pad_width al s1 w f false, nid1).
Proof.
  intros Hw.
  change (f :: CH_MINUS :: align_char al :: w ++ CH_COLON :: ansi)
    with (print_sf (Some f) (Some CH_MINUS) al w ++ colon_tail (Some ansi)).
  rewrite spec_object_print_sf; [|right; right; reflexivity|exact Hw]. now apply apply_sf_noext.
Qed.

(* "fill [+] align width : settings": pad, then the settings on the padded text *)
Corollary spec_object_ext s f flag al w ansi nid :
  (flag = None \/ flag = Some CH_PLUS) -> digits w ->
  spec_object s (f :: opt_str flag ++ align_char al :: w ++ CH_COLON :: ansi) nid =
  apply_spec_settings (pad_width al s w f true) (Some ansi) nid.
Proof.
  intros Hf Hw.
  replace (f :: opt_str flag ++ align_char al :: w ++ CH_COLON :: ansi)
    with (print_sf (Some f) flag al w ++ colon_tail (Some ansi)).
  2:{ unfold print_sf. cbn [opt_str app colon_tail]. rewrite <- app_assoc. reflexivity. }
  rewrite spec_object_print_sf; [|destruct Hf; [left | right; left]; assumption|exact Hw].
  now apply apply_sf_ext.
Qed.

(* any non-empty string_format of the grammar splits off unambiguously *)
Theorem split_spec_grammar_colon sf o :
  in_grammar sf -> sf <> [] -> split_spec (sf ++ colon_tail o) = Some (sf, o).
Proof.
  intros [H | (fill & flag & al & w & H1 & H2 & ->)] Hne.
  - now apply split_spec_width.
  - now apply split_spec_print_sf.
Qed.

(* colon_fill in words *)
Theorem colon_fill_iff ansi :
  colon_fill ansi = true <->
  exists flag al w o, flag_ok flag /\ digits w /\ ansi = opt_str flag ++ align_char al :: w ++ colon_tail o.
Proof.
  split.
  - intros H. apply split_spec_colon_fill in H as (flag & al & w & o & H1 & H2 & H3 & _).
    exists flag, al, w, o. auto.
  - intros (flag & al & w & o & H1 & H2 & ->). unfold colon_fill.
    apply flag_okb_spec in H1. destruct flag as [sg|]; cbn [flag_okb opt_str app] in *.
    + rewrite (cand1_sign_align sg al _ H1). cbn [existsb]. now rewrite (tailok_digits_tail w o H2).
    + rewrite cand1_align. cbn [existsb]. now rewrite (tailok_digits_tail w o H2).
Qed.

(* ---------------------------------------------------------------------------------------- *)
(* witnesses for the hypotheses, and end-to-end instances (checked against CPython)         *)
(* ---------------------------------------------------------------------------------------- *)
Definition fs_ab : astr := mkA [97; 98] [].
Definition fs_red : str := [114; 101; 100].
Definition fs_bold_red : str := [98; 111; 108; 100; 59; 114; 101; 100].

Example sem_ex_hyp : parse_string_format [42; 45; 60; 54] =
  SFok {| sf_fill := Some 42; sf_flag := Some 45; sf_align := ALeft; sf_width := [54] |}.      (* "*-<6" *)
Proof. reflexivity. Qed.
Example split_print_sf_hyp : flag_ok (Some CH_PLUS) /\ digits [56] /\
  split_spec (print_sf (Some 58) (Some CH_PLUS) ACenter [56] ++ colon_tail (Some fs_red)) =
  Some ([58; 43; 94; 56], Some fs_red).
Proof. split; [right; left; reflexivity|]. split; reflexivity. Qed.
Example split_width_hyp : digits [48; 48; 55] /\ [48; 48; 55] <> [] /\
  split_spec ([48; 48; 55] ++ colon_tail (Some fs_red)) = Some ([48; 48; 55], Some fs_red).
Proof. split; [reflexivity|]. split; [discriminate | reflexivity]. Qed.
Example grammar_colon_hyp : in_grammar [60] /\ [60] <> [].
Proof. split; [|discriminate]. right. exists None, None, ALeft, []. repeat split. now left. Qed.
Example spec_object_sem_hyp : split_spec ([42; 45; 60; 54] ++ 58 :: fs_red) = Some ([42; 45; 60; 54], Some fs_red).
Proof. reflexivity. Qed.
Example to_str_spec_hyp : [53] <> ([] : str).
Proof. discriminate. Qed.

(* f"{AnsiString('ab'):*<6:bold;red}" == '\x1b[1;31mab****\x1b[m' *)
Example e2e_ext : to_str_spec fs_ab (Some ([42; 60; 54] ++ 58 :: fs_bold_red)) true false true 0 =
  OK ([27; 91; 49; 59; 51; 49; 109] ++ [97; 98; 42; 42; 42; 42] ++ [27; 91; 109]).
Proof. vm_compute. reflexivity. Qed.
(* f"{AnsiString('ab'):*-<6:red}" == '\x1b[31mab\x1b[m****' *)
Example e2e_noext : to_str_spec fs_ab (Some ([42; 45; 60; 54] ++ 58 :: fs_red)) true false true 0 =
  OK ([27; 91; 51; 49; 109] ++ [97; 98] ++ [27; 91; 109] ++ [42; 42; 42; 42]).
Proof. vm_compute. reflexivity. Qed.
(* f"{AnsiString('ab'):-<5:red}" == '\x1b[31mab---\x1b[m': the '-' is the fill, the formatting is extended *)
Example e2e_flag_only : to_str_spec fs_ab (Some ([45; 60; 53] ++ 58 :: fs_red)) true false true 0 =
  OK ([27; 91; 51; 49; 109] ++ [97; 98; 45; 45; 45] ++ [27; 91; 109]).
Proof. vm_compute. reflexivity. Qed.
(* f"{AnsiString('ab')::-^8:red}" == ':::\x1b[31mab\x1b[m:::' *)
Example e2e_colon_fill : to_str_spec fs_ab (Some ([58; 45; 94; 56] ++ 58 :: fs_red)) true false true 0 =
  OK ([58; 58; 58] ++ [27; 91; 51; 49; 109] ++ [97; 98] ++ [27; 91; 109] ++ [58; 58; 58]).
Proof. vm_compute. reflexivity. Qed.
(* "x5": ValueError('Invalid format specifier');  "::red": ValueError from the settings parser *)
Example e2e_err : to_str_spec fs_ab (Some [120; 53]) true false true 0 = Err ValueError /\
                  to_str_spec fs_ab (Some (58 :: 58 :: fs_red)) true false true 0 = Err ValueError.
Proof. split; vm_compute; reflexivity. Qed.
(* ":+<5" is the string_format "fill ':' flag '+' left 5": 'ab:::' *)
Example e2e_colon_ambiguous : to_str_spec fs_ab (Some [58; 43; 60; 53]) true false true 0 = OK [97; 98; 58; 58; 58].
Proof. vm_compute. reflexivity. Qed.

(* newline in a spec.  Before the repairs F29 / F30 (known_findings.json) CPython's '.' did not match a newline and '$'
   also matched before a trailing newline, so to_str("\n<5") raised ValueError and to_str("5\n") == 'ab   ' - the
   library deviated from the grammar exactly where these two examples sit (they used to be called "outside the
   model's domain"; an independent counterexample hunt showed they were defects).  The repaired code reads, like the model: *)
Example newline_fill_outside_domain : parse_string_format [10; 60; 53] =
  SFok {| sf_fill := Some 10; sf_flag := None; sf_align := ALeft; sf_width := [53] |}.
Proof. reflexivity. Qed.
Example trailing_newline_outside_domain : parse_string_format [53; 10] = SFerr /\ split_spec [53; 10] = None.
Proof. split; reflexivity. Qed.

Print Assumptions parse_print_sf.
Print Assumptions print_sf_inj.
Print Assumptions parse_string_format_digits.
Print Assumptions parse_string_format_complete.
Print Assumptions parse_string_format_grammar.
Print Assumptions parse_string_format_err.
Print Assumptions apply_string_format_outside_grammar.
Print Assumptions apply_string_format_sem.
Print Assumptions apply_sf_ext.
Print Assumptions apply_sf_noext.
Print Assumptions apply_sf_nofill.
Print Assumptions apply_sf_bare.
Print Assumptions apply_sf_ljust_ext.
Print Assumptions apply_sf_rjust_ext.
Print Assumptions apply_sf_center_ext.
Print Assumptions apply_sf_ljust_noext.
Print Assumptions apply_sf_rjust_noext.
Print Assumptions apply_sf_center_noext.
Print Assumptions apply_sf_no_width.
Print Assumptions to_str_spec_spec_object.
Print Assumptions split_spec_print_sf.
Print Assumptions split_spec_width.
Print Assumptions split_spec_in_grammar.
Print Assumptions split_spec_grammar_colon.
Print Assumptions split_spec_sound.
Print Assumptions split_spec_none.
Print Assumptions split_spec_colon_first.
Print Assumptions split_spec_colon_fill.
Print Assumptions colon_fill_iff.
Print Assumptions spec_object_no_match.
Print Assumptions spec_object_sem.
Print Assumptions spec_object_print_sf.
Print Assumptions spec_object_width.
Print Assumptions spec_object_settings_only.
Print Assumptions spec_object_noext.
Print Assumptions spec_object_ext.
Print Assumptions nat_of_digits_decN.
Print Assumptions nat_of_digits_leading_zeros.
Print Assumptions parse_int_width.
