(* Display corollaries of apply_formatting (C06): what "below everything" / "on top" mean for the
   style a terminal shows.  `touches B e` = some setting of B sets, clears or resets effect e. *)
From AS Require Import Base Effects.
From AS.Spec Require Import Terminal.
From AS.Proofs Require Import SgrAlgebra.

Definition touches (B : list str) (e : effect) : Prop :=
  last_write (acts spec_class (codes_of_texts B)) e <> None.

(* settings placed BELOW a list do not change the displayed value of any effect the list touches *)
Theorem style_below_hidden A B e : Forall (fun t => wf_setting t = true) A ->
  touches B e -> style_of (A ++ B) e = style_of B e.
Proof.
  intros HA Ht. rewrite (style_of_app A B HA). unfold style_of at 2, sgr. rewrite !run_last.
  unfold touches in Ht. destruct (last_write (acts spec_class (codes_of_texts B)) e); [reflexivity | congruence].
Qed.

(* ... and where the list above does not touch an effect, the new settings show *)
Theorem style_below_shows A B e : Forall (fun t => wf_setting t = true) A ->
  ~ touches B e -> style_of (A ++ B) e = style_of A e.
Proof.
  intros HA Ht. rewrite (style_of_app A B HA). unfold sgr. rewrite run_last.
  unfold touches in Ht. destruct (last_write (acts spec_class (codes_of_texts B)) e); [exfalso; apply Ht; discriminate | reflexivity].
Qed.

(* settings placed ON TOP determine the displayed value of every effect they touch *)
Theorem style_on_top A B e : Forall (fun t => wf_setting t = true) A ->
  touches B e -> style_of (A ++ B) e = style_of B e.
Proof. exact (style_below_hidden A B e). Qed.

Example touches_ex :
  touches [[51; 49]%N] FG_COLOR /\ ~ touches [[51; 49]%N] BOLDNESS
  /\ style_of ([[49]%N] ++ [[51; 49]%N]) FG_COLOR = style_of [[51; 49]%N] FG_COLOR.
Proof.
  split; [|split].
  - unfold touches. vm_compute. discriminate.
  - unfold touches. vm_compute. intros H. now apply H.
  - vm_compute. reflexivity.
Qed.
