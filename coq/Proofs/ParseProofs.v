(* set_ansi_str (C02, style clause): constructing a value from text with SGR escape sequences yields a
   value in which every character reports settings whose effective style is exactly the state the
   specification terminal has when it displays that character. *)
From AS Require Import Base Effects.
From AS.Spec Require Import Terminal.
From AS.Model Require Import Sgr Tokenizer Table Ops Render Parse.
From AS.Proofs Require Import TableProofs SliceProofs PadProofs DecProofs GenCodeTable TokenizerProofs
  SgrProofs SgrAlgebra BasicProofs ApplyProofs RemoveProofs RenderProofs FlagsProofs ParseBasics.
Local Open Scope nat_scope.

(* ====================================================================================== *)
(* 1. The sequence body: string input = list of its numeric parameters                     *)
(* ====================================================================================== *)
(* a body the terminal interprets: only digits and ';' *)
Definition numeric (body : str) : bool := forallb dsc body.

Lemma numeric_params body : numeric body = true ->
  params_of body = Some (map num_of (split_char SEMI body)).
Proof. intros H. unfold params_of. now rewrite (split_digits body H). Qed.

Lemma params_numeric body p : params_of body = Some p -> numeric body = true.
Proof. intros H. exact (params_of_chars body p H). Qed.

Lemma items_numeric l : forallb all_digits l = true ->
  map norm_item_pgs (map (fun s => IStr (if is_nil (strip_ws s) then [CH_0] else strip_ws s)) l)
  = itemsN (map num_of l).
Proof.
  intros H. unfold itemsN. rewrite !map_map. apply map_ext_in. intros d Hd.
  assert (Hdig : all_digits d = true) by (rewrite forallb_forall in H; now apply H).
  unfold all_digits in Hdig. rewrite (strip_ws_digits d Hdig).
  destruct d as [|c r]; [reflexivity|]. cbn [is_nil].
  unfold norm_item_pgs. rewrite (strip_ws_digits (c :: r) Hdig). rewrite Hdig. cbn [is_nil negb andb].
  unfold norm_item. now rewrite (parse_int_digits (c :: r) Hdig) by discriminate.
Qed.

(* parse_graphic_sequence on a numeric body = parse_graphic_sequence on its parameter list
   (an empty parameter is 0, leading zeros are harmless) *)
Theorem pgs_str_numeric body : numeric body = true ->
  pgs_str body false = OK (map textN (pgs_gN (map num_of (split_char SEMI body)) 0 [])).
Proof.
  intros H. destruct body as [|c r].
  - vm_compute. reflexivity.
  - unfold pgs_str, items_of_str. rewrite (items_numeric _ (split_digits _ H)).
    exact (pgs_loop_N (map num_of (split_char SEMI (c :: r))) 0 []).
Qed.

(* ====================================================================================== *)
(* 2. Dictionaries with identities against dictionaries of texts                           *)
(* ====================================================================================== *)
Definition dmap {V W} (f : V -> W) (d : dict V) : dict W := map (fun kv => (fst kv, f (snd kv))) d.

Lemma dmap_keys {V W} (f : V -> W) d : map fst (dmap f d) = map fst d.
Proof. unfold dmap. rewrite map_map. reflexivity. Qed.

Lemma nodupk_dmap {V W} (f : V -> W) d : nodupk d -> nodupk (dmap f d).
Proof. unfold nodupk. now rewrite dmap_keys. Qed.

Lemma dmap_dset {V W} (f : V -> W) d e v : dmap f (dset d e v) = dset (dmap f d) e (f v).
Proof.
  induction d as [|[e' v'] r IH]; [reflexivity|]. cbn [dset dmap map fst snd].
  destruct (effect_beq e e'); [reflexivity|]. cbn [map fst snd]. f_equal. exact IH.
Qed.

Lemma dmap_ddel {V W} (f : V -> W) d e : dmap f (ddel d e) = ddel (dmap f d) e.
Proof.
  induction d as [|[e' v'] r IH]; [reflexivity|]. cbn [ddel dmap map fst snd].
  destruct (effect_beq e e'); [reflexivity|]. cbn [map fst snd]. f_equal. exact IH.
Qed.

Lemma dget_dmap {V W} (f : V -> W) d e : dget (dmap f d) e = option_map f (dget d e).
Proof.
  induction d as [|[e' v'] r IH]; [reflexivity|]. cbn [dget dmap map fst snd].
  destruct (effect_beq e' e); [reflexivity|]. exact IH.
Qed.

Lemma s2d_step_dmap {V} (txt : V -> str) d v :
  dmap txt (s2d_step txt d v) = s2d_step (fun x => x) (dmap txt d) (txt v).
Proof.
  unfold s2d_step. destruct (initial_code (txt v)) as [c|]; [|reflexivity].
  destruct (gen_class c); auto using dmap_dset, dmap_ddel.
Qed.

Lemma s2d_dmap {V} (txt : V -> str) l : forall d,
  dmap txt (s2d txt l d) = s2d (fun x => x) (map txt l) (dmap txt d).
Proof.
  induction l as [|v l IH]; intros d; [reflexivity|].
  unfold s2d. cbn [map fold_left]. fold (s2d txt l (s2d_step txt d v)).
  fold (s2d (fun x : str => x) (map txt l) (s2d_step (fun x => x) (dmap txt d) (txt v))).
  rewrite IH, s2d_step_dmap. reflexivity.
Qed.

(* the terminal state a dictionary of (identity, text) values stands for *)
Definition as_t' (cur : dict vset) : tstate :=
  fun e => match dget cur e with Some (_, t) => params_of t | None => None end.

Lemma as_t'_dmap cur : teq (as_t' cur) (as_t (dmap (@snd nat str) cur)).
Proof.
  intros e. unfold as_t', as_t. rewrite dget_dmap. unfold vset in *.
  destruct (dget cur e) as [[i t]|]; reflexivity.
Qed.

Lemma map_snd_combine {A} (l : list A) : forall n, map snd (combine (seq n (length l)) l) = l.
Proof. induction l as [|x l IH]; intros n; [reflexivity|]. cbn [length seq combine map snd]. now rewrite IH. Qed.

Lemma map_fst_combine {A} (l : list A) : forall n, map fst (combine (seq n (length l)) l) = seq n (length l).
Proof. induction l as [|x l IH]; intros n; [reflexivity|]. cbn [length seq combine map fst]. now rewrite IH. Qed.

(* ====================================================================================== *)
(* 3. parse_step in a form without destructuring lets                                       *)
(* ====================================================================================== *)
Definition rem_of (new cur : dict vset) (sv : vset) : list str :=
  match effect_of (snd sv) with
  | Some e => match dget new e with
              | Some v => if Nat.eqb (fst v) (fst sv) then
                            match dget cur e with
                            | Some o => if str_eqb (snd o) (snd sv) then [] else [snd o]
                            | None => [] end
                          else []
              | None => [] end
  | None => [] end.
Definition app_of (new cur : dict vset) (sv : vset) : list str :=
  match effect_of (snd sv) with
  | Some e => match dget new e with
              | Some v => if Nat.eqb (fst v) (fst sv) then
                            match dget cur e with
                            | Some o => if str_eqb (snd o) (snd sv) then [] else [snd sv]
                            | None => [snd sv] end
                          else []
              | None => [] end
  | None => [] end.
Definition gone_of (new : dict vset) (kv : effect * vset) : list str :=
  match dget new (fst kv) with Some _ => [] | None => [snd (snd kv)] end.

Definition step_settings (nid : nat) (texts : list str) : list vset := combine (seq nid (length texts)) texts.
Definition step_new (cur : dict vset) (nid : nat) (texts : list str) : dict vset :=
  s2d (@snd nat str) (step_settings nid texts) cur.
Definition step_rem (cur : dict vset) (nid : nat) (texts : list str) : list str :=
  let new := step_new cur nid texts in
  flat_map (rem_of new cur) (step_settings nid texts) ++ flat_map (gone_of new) cur.
Definition step_app (cur : dict vset) (nid : nat) (texts : list str) : list str :=
  flat_map (app_of (step_new cur nid texts) cur) (step_settings nid texts).

Lemma fold_lists (new cur : dict vset) (l : list vset) : forall rm ap,
  fold_left (fun '(rm, ap) (sv : vset) =>
               match effect_of (snd sv) with
               | Some e =>
                 match dget new e with
                 | Some v => if Nat.eqb (fst v) (fst sv) then
                               match dget cur e with
                               | Some o => if str_eqb (snd o) (snd sv) then (rm, ap)
                                           else (rm ++ [snd o], ap ++ [snd sv])
                               | None => (rm, ap ++ [snd sv]) end
                             else (rm, ap)
                 | None => (rm, ap) end
               | None => (rm, ap) end) l (rm, ap)
  = (rm ++ flat_map (rem_of new cur) l, ap ++ flat_map (app_of new cur) l).
Proof.
  induction l as [|sv l IH]; intros rm ap.
  - cbn [fold_left flat_map]. now rewrite !app_nil_r.
  - cbn [fold_left flat_map]. unfold rem_of at 1, app_of at 1.
    destruct (effect_of (snd sv)) as [e|]; [|now rewrite IH].
    destruct (dget new e) as [v|]; [|now rewrite IH].
    destruct (Nat.eqb (fst v) (fst sv)); [|now rewrite IH].
    destruct (dget cur e) as [o|].
    + destruct (str_eqb (snd o) (snd sv)); rewrite IH; [reflexivity|]. now rewrite <- !app_assoc.
    + rewrite IH. now rewrite <- !app_assoc.
Qed.

Lemma fresh_spec texts : forall nid a,
  map stxt (map (fun it => mkS (nid + fst it) (snd it)) (combine (seq a (length texts)) texts)) = texts
  /\ ids (map (fun it => mkS (nid + fst it) (snd it)) (combine (seq a (length texts)) texts))
     = seq (nid + a) (length texts).
Proof.
  induction texts as [|t l IH]; intros nid a; [split; reflexivity|].
  cbn [length seq combine map stxt sid fst snd ids]. destruct (IH nid (S a)) as [H1 H2]. split.
  - now rewrite H1.
  - unfold ids in H2. rewrite H2. now rewrite Nat.add_succ_r.
Qed.

Lemma fresh_texts texts nid : map stxt (fst (fresh texts nid)) = texts.
Proof. unfold fresh. cbn [fst]. apply (fresh_spec texts nid 0). Qed.
Lemma fresh_ids texts nid : ids (fst (fresh texts nid)) = seq nid (length texts).
Proof. unfold fresh. cbn [fst]. destruct (fresh_spec texts nid 0) as [_ H]. now rewrite H, Nat.add_0_r. Qed.

Theorem parse_step_unfold s cur key body nid texts : pgs_str body false = OK texts ->
  let nid1 := nid + length texts in
  let to_rem := step_rem cur nid texts in
  let to_app := step_app cur nid texts in
  let s1 := if is_nil to_rem then s else remove_fmt s (Some to_rem) (Some (Z.of_nat key)) None in
  parse_step s cur key body nid
  = (apply_fmt s1 (fst (fresh to_app nid1)) (Some (Z.of_nat key)) None true,
     step_new cur nid texts, nid1 + length to_app).
Proof.
  intros H. cbv zeta. unfold parse_step. rewrite H.
  fold (step_settings nid texts). fold (step_new cur nid texts).
  rewrite fold_lists. cbn [app].
  fold (step_app cur nid texts).
  change (flat_map (rem_of (step_new cur nid texts) cur) (step_settings nid texts)
          ++ flat_map (fun kv => match dget (step_new cur nid texts) (fst kv) with
                                 | Some _ => [] | None => [snd (snd kv)] end) cur)
    with (step_rem cur nid texts).
  destruct (step_app cur nid texts) as [|a l] eqn:Ea.
  - cbn [is_nil length]. rewrite apply_fmt_noop_settings, Nat.add_0_r. reflexivity.
  - cbn [is_nil]. unfold fresh. cbn [fst]. reflexivity.
Qed.

Lemma pgs_str_ok body : exists texts, pgs_str body false = OK texts.
Proof.
  unfold pgs_str. destruct body as [|c r]; [eexists; reflexivity|].
  generalize (map norm_item_pgs (items_of_str (c :: r))). intros items.
  generalize 0 at 1. generalize (@nil Z).
  induction items as [|it items IH]; intros cur left.
  - eexists. reflexivity.
  - destruct it as [z|s0].
    + assert (Hgo : forall l, exists texts,
        (let cur' := cur ++ [z] in
         match l with
         | S (S l0) => pgs_loop items (S l0) cur' false
         | _ => do r <- pgs_loop items 0 [] false;
                OK ((if keep_group false cur' then [text_of_items cur'] else []) ++ r)
         end) = OK texts).
      { intros l. cbv zeta. destruct l as [|[|l0]]; try apply IH;
        destruct (IH [] 0) as [r0 Hr]; rewrite Hr; cbn [bind]; eexists; reflexivity. }
      cbn [pgs_loop]. destruct cur as [|c0 cur0].
      * destruct (intro_kind (IInt z :: items)) as [total| |]; [apply (Hgo total)|apply IH|apply (Hgo 1)].
      * apply (Hgo left).
    + cbn [pgs_loop]. apply IH.
Qed.

(* ====================================================================================== *)
(* 4. parse_step_dict: the dictionary moves exactly as the terminal state moves             *)
(* ====================================================================================== *)
Lemma step_new_texts cur nid texts :
  dmap (@snd nat str) (step_new cur nid texts) = s2d (fun x => x) texts (dmap (@snd nat str) cur).
Proof. unfold step_new, step_settings. rewrite s2d_dmap, map_snd_combine. reflexivity. Qed.

Theorem parse_step_dict s cur key body nid p :
  params_of body = Some p -> nodupk cur ->
  let new := snd (fst (parse_step s cur key body nid)) in
  teq (as_t' new) (sgr spec_class (as_t' cur) p) /\ nodupk new.
Proof.
  intros Hp Hnd new.
  pose proof (params_numeric body p Hp) as Hnum.
  pose proof (pgs_str_numeric body Hnum) as Hpgs.
  rewrite (numeric_params body Hnum) in Hp. injection Hp as Ep. rewrite Ep in Hpgs. clear Ep.
  unfold new. rewrite (parse_step_unfold s cur key body nid _ Hpgs). cbn [fst snd].
  set (gs := pgs_gN p 0 []).
  destruct (pgs_s2d_is_sgr (length p) p (dmap (@snd nat str) cur) (le_n _) (nodupk_dmap _ _ Hnd)) as [H1 H2].
  fold gs in H1, H2. unfold s2dN in H1, H2. rewrite <- (step_new_texts cur nid) in H1, H2. split.
  - eapply teq_trans; [apply as_t'_dmap|]. eapply teq_trans; [exact H1|].
    unfold sgr, acts. rewrite (acts_ext gen_class spec_class gen_class_spec).
    apply run_teq_l. apply teq_sym, as_t'_dmap.
  - unfold nodupk in *. now rewrite dmap_keys in H2.
Qed.

(* ====================================================================================== *)
(* 5. What a setting text does to the dictionary                                            *)
(* ====================================================================================== *)
Inductive tkind := KReset | KSet (e : effect) | KClr (e : effect) | KNone.
Definition tk (t : str) : tkind :=
  match initial_code t with
  | Some c => match gen_class c with
              | CSet e | CIntro e => KSet e
              | CClr e => KClr e
              | CReset => KReset
              | CUnknown => KNone end
  | None => KNone
  end.

Lemma s2d_step_tk {V} (txt : V -> str) d v :
  s2d_step txt d v = match tk (txt v) with KSet e => dset d e v | KClr e => ddel d e | KReset => [] | KNone => d end.
Proof. unfold s2d_step, tk. destruct (initial_code (txt v)) as [c|]; [|reflexivity]. destruct (gen_class c); reflexivity. Qed.

Lemma effect_of_tk t : effect_of t = match tk t with KSet e | KClr e => Some e | _ => None end.
Proof.
  unfold effect_of, to_effect, tk. destruct (initial_code t) as [c|]; [|reflexivity]. destruct (gen_class c); reflexivity.
Qed.

Lemma group_ok_class v r : group_ok (v :: r) = true ->
  exists e, gen_class v = CSet e \/ gen_class v = CClr e \/ gen_class v = CIntro e.
Proof.
  unfold group_ok. destruct (gen_class v) eqn:E; intros H; eauto; exfalso;
  repeat match type of H with context [match ?x with _ => _ end] => destruct x; try discriminate H end.
Qed.

Lemma parsable_tk t : parsable t = true -> exists e, tk t = KSet e \/ tk t = KClr e.
Proof.
  intros Hp. destruct (parsable_inv t Hp) as (v & r & _ & Hg & _ & Hi & _).
  destruct (group_ok_class v r Hg) as (e & Hc). unfold tk. rewrite Hi.
  destruct (is_param v) eqn:Ep.
  - exists e. destruct Hc as [-> | [-> | ->]]; auto.
  - rewrite (gen_class_not_param v Ep) in Hc. destruct Hc as [Hc | [Hc | Hc]]; discriminate.
Qed.

Lemma tk_zero : tk [CH_0] = KReset.
Proof. vm_compute. reflexivity. Qed.

(* every text parse_graphic_sequence emits is a parsable group or the reset *)
Definition text_ok (t : str) : Prop := parsable t = true \/ t = [CH_0].

Lemma pgs_loop_texts items : forall cur left texts,
  pgs_loop items left cur false = OK texts -> Forall text_ok texts.
Proof.
  induction items as [|it items IH]; intros cur left texts.
  - cbn [pgs_loop andb]. intros H. inversion H. constructor.
  - destruct it as [z|s0].
    + assert (Hgo : forall l texts,
        (let cur' := cur ++ [z] in
         match l with
         | S (S l0) => pgs_loop items (S l0) cur' false
         | _ => do r <- pgs_loop items 0 [] false;
                OK ((if keep_group false cur' then [text_of_items cur'] else []) ++ r)
         end) = OK texts -> Forall text_ok texts).
      { intros l tx. cbv zeta.
        assert (Hemit : (do r <- pgs_loop items 0 [] false;
                         OK ((if keep_group false (cur ++ [z]) then [text_of_items (cur ++ [z])] else []) ++ r)) = OK tx
                        -> Forall text_ok tx).
        { destruct (pgs_loop items 0 [] false) as [r0|] eqn:Er; cbn [bind]; [|discriminate].
          intros H. inversion H. apply Forall_app. split; [|eapply IH; eauto].
          destruct (keep_group false (cur ++ [z])) eqn:K; [|constructor]. constructor; [|constructor].
          unfold keep_group in K. cbn [orb] in K. apply orb_true_iff in K as [K|K]; [now left|right].
          destruct (cur ++ [z]) as [|z0 [|z1 l1]]; try discriminate K.
          apply Z.eqb_eq in K. subst z0. reflexivity. }
        destruct l as [|[|l0]]; auto. apply IH. }
      cbn [pgs_loop]. destruct cur as [|c0 cur0].
      * destruct (intro_kind (IInt z :: items)) as [total| |]; [apply (Hgo total)|apply IH|apply (Hgo 1)].
      * apply (Hgo left).
    + cbn [pgs_loop]. apply IH.
Qed.

Lemma pgs_str_texts body texts : pgs_str body false = OK texts -> Forall text_ok texts.
Proof.
  unfold pgs_str. destruct body as [|c r].
  - intros H. inversion H. constructor; [now right|constructor].
  - apply pgs_loop_texts.
Qed.

(* ---------- where the entries of the new dictionary come from ---------- *)
Section S2D.
Context {V : Type} (txt : V -> str).

Lemma s2d_cons v l d : s2d txt (v :: l) d = s2d txt l (s2d_step txt d v).
Proof. reflexivity. Qed.

Lemma s2d_step_nodupk d v : nodupk d -> nodupk (s2d_step txt d v).
Proof.
  intros H. rewrite s2d_step_tk. destruct (tk (txt v)); auto using nodup_dset, nodup_ddel. constructor.
Qed.

Lemma s2d_nodupk l : forall d, nodupk d -> nodupk (s2d txt l d).
Proof. induction l as [|v l IH]; intros d H; auto. rewrite s2d_cons. apply IH. now apply s2d_step_nodupk. Qed.

Lemma s2d_get l : forall d e v, nodupk d -> dget (s2d txt l d) e = Some v ->
  (In v l /\ tk (txt v) = KSet e)
  \/ (dget d e = Some v /\ forall sv, In sv l -> effect_of (txt sv) <> Some e).
Proof.
  induction l as [|sv l IH]; intros d e v Hd H.
  - right. split; [exact H|intros sv []].
  - rewrite s2d_cons in H. destruct (IH _ e v (s2d_step_nodupk d sv Hd) H) as [[Hin Hk]|[Hg Hno]].
    + left. split; auto. now right.
    + rewrite s2d_step_tk in Hg. destruct (tk (txt sv)) as [|e0|e0|] eqn:Ek.
      * discriminate Hg.
      * rewrite dget_dset in Hg. destruct (effect_beq e0 e) eqn:Ee.
        -- apply effect_beq_eq in Ee. subst e0. inversion Hg; subst. left. split; auto. now left.
        -- right. split; auto. intros sv' [<-|Hin]; [|now apply Hno].
           rewrite effect_of_tk, Ek. intros E. inversion E; subst. now rewrite effect_beq_refl in Ee.
      * rewrite dget_ddel in Hg by exact Hd. destruct (effect_beq e0 e) eqn:Ee; [discriminate|].
        right. split; auto. intros sv' [<-|Hin]; [|now apply Hno].
        rewrite effect_of_tk, Ek. intros E. inversion E; subst. now rewrite effect_beq_refl in Ee.
      * right. split; auto. intros sv' [<-|Hin]; [|now apply Hno]. rewrite effect_of_tk, Ek. discriminate.
Qed.

(* when every text sets an effect, an entry once present stays present *)
Lemma s2d_keeps l : (forall v, In v l -> exists e, tk (txt v) = KSet e) ->
  forall d e w, dget d e = Some w -> exists w', dget (s2d txt l d) e = Some w'.
Proof.
  induction l as [|v l IH]; intros Hall d e w H; [eauto|].
  rewrite s2d_cons. destruct (Hall v (or_introl eq_refl)) as (e0 & Ek).
  assert (Hall' : forall v', In v' l -> exists e, tk (txt v') = KSet e) by (intros; apply Hall; now right).
  rewrite s2d_step_tk, Ek. destruct (effect_beq e0 e) eqn:Ee.
  - apply (IH Hall' _ e v). rewrite dget_dset, Ee. reflexivity.
  - apply (IH Hall' _ e w). rewrite dget_dset, Ee. exact H.
Qed.

Lemma s2d_sets l : (forall v, In v l -> exists e, tk (txt v) = KSet e) ->
  forall d e v, In v l -> tk (txt v) = KSet e -> exists w, dget (s2d txt l d) e = Some w.
Proof.
  induction l as [|v0 l IH]; intros Hall d e v Hin Hk; [destruct Hin|].
  assert (Hall' : forall v', In v' l -> exists e, tk (txt v') = KSet e) by (intros; apply Hall; now right).
  rewrite s2d_cons. destruct Hin as [->|Hin]; [|now apply (IH Hall' _ e v)].
  rewrite s2d_step_tk, Hk. apply (s2d_keeps l Hall' _ e v). rewrite dget_dset, effect_beq_refl. reflexivity.
Qed.
End S2D.

(* ====================================================================================== *)
(* 6. The active settings represent the dictionary                                          *)
(* ====================================================================================== *)
(* entries are parsable and filed under the effect they set *)
Definition cur_ok (cur : dict vset) : Prop :=
  nodupk cur /\ forall e i t, dget cur e = Some (i, t) -> parsable t = true /\ tk t = KSet e.
(* every active setting is the entry of its effect, and every entry is active *)
Definition Rep (cur : dict vset) (L : list setting) : Prop :=
  (forall x, In x L -> exists e i, tk (stxt x) = KSet e /\ dget cur e = Some (i, stxt x))
  /\ (forall e i t, dget cur e = Some (i, t) -> In t (map stxt L)).

Lemma KSet_inj e e' : KSet e = KSet e' -> e = e'.
Proof. intros H. now inversion H. Qed.

(* (d): the effective style of the active settings is the state the dictionary stands for *)
Theorem Rep_style cur L : cur_ok cur -> Rep cur L -> teq (style_of (map stxt L)) (as_t' cur).
Proof.
  intros [Hnd Hok] [R1 R2].
  assert (Hpars : Forall (fun t => parsable t = true) (map stxt L)).
  { apply Forall_forall. intros t Ht. apply in_map_iff in Ht as (x & <- & Hx).
    destruct (R1 x Hx) as (e & i & _ & Hg). now apply (Hok e i). }
  assert (Hall : forall v, In v (map stxt L) -> exists e, tk ((fun x : str => x) v) = KSet e).
  { intros t Ht. apply in_map_iff in Ht as (x & <- & Hx). destruct (R1 x Hx) as (e & i & Hk & _). eauto. }
  destruct (s2d_style (map stxt L) Hpars) as (Hs & _ & _).
  assert (Hn0 : nodupk (@nil (effect * str))) by constructor.
  apply teq_sym. eapply teq_trans; [|exact Hs]. intros e. unfold as_t', as_t.
  destruct (dget cur e) as [[i t]|] eqn:Ec.
  - destruct (Hok e i t Ec) as [_ Hk].
    destruct (s2d_sets (fun x : str => x) (map stxt L) Hall [] e t (R2 e i t Ec) Hk) as (w & Hw).
    rewrite Hw. destruct (s2d_get (fun x : str => x) (map stxt L) [] e w Hn0 Hw) as [[Hin Hkw]|[Hg _]]; [|discriminate Hg].
    apply in_map_iff in Hin as (x & <- & Hx). destruct (R1 x Hx) as (e' & i' & Hk' & Hg').
    rewrite Hkw in Hk'. apply KSet_inj in Hk'. subst e'. rewrite Ec in Hg'. now inversion Hg'.
  - destruct (dget (s2d (fun x : str => x) (map stxt L) []) e) as [w|] eqn:Hw; [|reflexivity].
    destruct (s2d_get (fun x : str => x) (map stxt L) [] e w Hn0 Hw) as [[Hin Hkw]|[Hg _]]; [|discriminate Hg].
    apply in_map_iff in Hin as (x & <- & Hx). destruct (R1 x Hx) as (e' & i' & Hk' & Hg').
    rewrite Hkw in Hk'. apply KSet_inj in Hk'. subst e'. rewrite Ec in Hg'. discriminate.
Qed.

Lemma in_dget {V} (d : dict V) e v : nodupk d -> In (e, v) d -> dget d e = Some v.
Proof.
  unfold nodupk. induction d as [|[e' v'] r IH]; intros Hnd Hin; [destruct Hin|].
  cbn [map fst] in Hnd. inversion Hnd as [|? ? Hn Hd]; subst. cbn [dget].
  destruct Hin as [E|Hin].
  - inversion E; subst. now rewrite effect_beq_refl.
  - destruct (effect_beq e' e) eqn:Ee; [|now apply IH].
    apply effect_beq_eq in Ee. subst e'. exfalso. apply Hn. apply in_map_iff. exists (e, v). auto.
Qed.

Lemma selected_false l x : selected (Some l) x = false <-> ~ In (stxt x) l.
Proof.
  unfold selected. split.
  - intros H Hin. assert (existsb (str_eqb (stxt x)) l = true); [|congruence].
    apply existsb_exists. exists (stxt x). split; auto. apply str_eqb_refl.
  - intros H. destruct (existsb (str_eqb (stxt x)) l) eqn:E; auto.
    apply existsb_exists in E as (t & Hin & Et). apply str_eqb_eq in Et. subst t. tauto.
Qed.

Lemma str_eqb_neq a b : str_eqb a b = false <-> a <> b.
Proof.
  split.
  - intros H E. subst. rewrite str_eqb_refl in H. discriminate.
  - intros H. destruct (str_eqb a b) eqn:E; auto. apply str_eqb_eq in E. tauto.
Qed.

Lemma rem_of_in new cur sv t : In t (rem_of new cur sv) ->
  exists e v o, effect_of (snd sv) = Some e /\ dget new e = Some v /\ fst v = fst sv
                /\ dget cur e = Some o /\ snd o <> snd sv /\ t = snd o.
Proof.
  unfold rem_of. destruct (effect_of (snd sv)) as [e|] eqn:He; [|intros []].
  destruct (dget new e) as [v|] eqn:Hg; [|intros []].
  destruct (Nat.eqb (fst v) (fst sv)) eqn:Ei; [|intros []]. apply Nat.eqb_eq in Ei.
  destruct (dget cur e) as [o|] eqn:Hc; [|intros []].
  destruct (str_eqb (snd o) (snd sv)) eqn:Es; [intros []|]. apply str_eqb_neq in Es.
  intros [<-|[]]. exists e, v, o. repeat split; auto.
Qed.

Lemma rem_of_intro new cur sv e v o : effect_of (snd sv) = Some e -> dget new e = Some v -> fst v = fst sv ->
  dget cur e = Some o -> snd o <> snd sv -> In (snd o) (rem_of new cur sv).
Proof.
  intros H1 H2 H3 H4 H5. unfold rem_of, vset in *. rewrite H1. cbv iota beta. rewrite H2. cbv iota beta.
  rewrite H3, Nat.eqb_refl, H4. apply str_eqb_neq in H5. rewrite H5. now left.
Qed.

Lemma app_of_in new cur sv t : In t (app_of new cur sv) ->
  exists e v, effect_of (snd sv) = Some e /\ dget new e = Some v /\ fst v = fst sv /\ t = snd sv.
Proof.
  unfold app_of. destruct (effect_of (snd sv)) as [e|] eqn:He; [|intros []].
  destruct (dget new e) as [v|] eqn:Hg; [|intros []].
  destruct (Nat.eqb (fst v) (fst sv)) eqn:Ei; [|intros []]. apply Nat.eqb_eq in Ei.
  destruct (dget cur e) as [o|].
  - destruct (str_eqb (snd o) (snd sv)); [intros []|]. intros [<-|[]]. exists e, v. repeat split; auto.
  - intros [<-|[]]. exists e, v. repeat split; auto.
Qed.

Lemma app_of_intro new cur sv e v : effect_of (snd sv) = Some e -> dget new e = Some v -> fst v = fst sv ->
  (dget cur e = None \/ exists o, dget cur e = Some o /\ snd o <> snd sv) -> In (snd sv) (app_of new cur sv).
Proof.
  intros H1 H2 H3 H4. unfold app_of, vset in *. rewrite H1. cbv iota beta. rewrite H2. cbv iota beta.
  rewrite H3, Nat.eqb_refl.
  destruct H4 as [-> | (o & -> & H5)]; [now left|]. apply str_eqb_neq in H5. rewrite H5. now left.
Qed.

Lemma nodup_fst_eq {A B} (l : list (A * B)) a b : NoDup (map fst l) -> In a l -> In b l -> fst a = fst b -> a = b.
Proof.
  induction l as [|x l IH]; intros Hnd Ha Hb E; [destruct Ha|].
  cbn [map] in Hnd. inversion Hnd as [|? ? Hn Hd]; subst.
  destruct Ha as [->|Ha], Hb as [->|Hb]; auto.
  - exfalso. apply Hn. rewrite E. now apply in_map.
  - exfalso. apply Hn. rewrite <- E. now apply in_map.
Qed.

Section Step.
Variables (cur : dict vset) (nid : nat) (texts : list str).
Hypothesis Hcur : cur_ok cur.
Hypothesis Htexts : Forall text_ok texts.
Let S := step_settings nid texts.
Let new := step_new cur nid texts.

Lemma S_nodup : NoDup (map fst S).
Proof. unfold S, step_settings. rewrite map_fst_combine. apply seq_NoDup. Qed.

Lemma S_text sv : In sv S -> text_ok (snd sv).
Proof.
  intros H. rewrite Forall_forall in Htexts. apply Htexts.
  rewrite <- (map_snd_combine texts nid). fold (step_settings nid texts). now apply in_map.
Qed.

Lemma new_get e v : dget new e = Some v ->
  (In v S /\ tk (snd v) = KSet e) \/ (dget cur e = Some v /\ forall sv, In sv S -> effect_of (snd sv) <> Some e).
Proof. apply s2d_get. apply Hcur. Qed.

(* the entry of effect e is the LAST setting of the sequence that touches e *)
Lemma new_entry e v sv : dget new e = Some v -> In sv S -> effect_of (snd sv) = Some e -> fst v = fst sv ->
  v = sv /\ tk (snd v) = KSet e.
Proof.
  intros Hg Hin He Hi. destruct (new_get e v Hg) as [[Hv Hk]|[_ Hno]].
  - split; auto. exact (nodup_fst_eq S v sv S_nodup Hv Hin Hi).
  - exfalso. exact (Hno sv Hin He).
Qed.

Theorem cur_ok_step : cur_ok new.
Proof.
  destruct Hcur as [Hnd Hok]. split; [now apply s2d_nodupk|]. intros e i t Hg.
  destruct (new_get e (i, t) Hg) as [[Hv Hk]|[Hc _]]; [|now apply (Hok e i)].
  cbn [snd] in Hk. split; auto. destruct (S_text _ Hv) as [Hp|Hz]; auto.
  cbn [snd] in Hz. subst t. rewrite tk_zero in Hk. discriminate.
Qed.

Lemma not_removed e v t : dget new e = Some v -> tk t = KSet e ->
  ((In v S /\ snd v = t) \/ (forall sv, In sv S -> effect_of (snd sv) <> Some e)) ->
  ~ In t (step_rem cur nid texts).
Proof.
  intros Hg Hk Hcase Hin. destruct Hcur as [Hnd Hok]. unfold step_rem in Hin. cbv zeta in Hin.
  fold S new in Hin. apply in_app_or in Hin as [Hin|Hin].
  - apply in_flat_map in Hin as (sv & Hsv & Hin).
    apply rem_of_in in Hin as (e' & v' & o' & He & Hg' & Hi & Hc & Hne & Et).
    destruct o' as [io to]. cbn [snd] in *. subst to.
    destruct (Hok e' io t Hc) as [_ Hk']. rewrite Hk in Hk'. apply KSet_inj in Hk'. subst e'.
    rewrite Hg in Hg'. inversion Hg'; subst v'.
    destruct Hcase as [[Hv Et]|Hno]; [|exact (Hno sv Hsv He)].
    assert (v = sv) by exact (nodup_fst_eq S v sv S_nodup Hv Hsv Hi). subst sv. congruence.
  - apply in_flat_map in Hin as ([e' [i' t']] & Hkv & Hin). unfold gone_of in Hin. cbn [fst snd] in Hin.
    destruct (dget new e') eqn:En; [destruct Hin|]. destruct Hin as [<-|[]].
    pose proof (in_dget cur e' (i', t') Hnd Hkv) as Hc.
    destruct (Hok e' i' t' Hc) as [_ Hk']. rewrite Hk in Hk'. apply KSet_inj in Hk'. subst e'. congruence.
Qed.

Theorem Rep_step L l1 l2 news : Rep cur L ->
  keep (Some (step_rem cur nid texts)) L = l1 ++ l2 ->
  map stxt news = step_app cur nid texts ->
  Rep new (l1 ++ news ++ l2).
Proof.
  intros [R1 R2] Hkeep Hnews. destruct Hcur as [Hnd Hok].
  assert (HL1 : forall x, In x (l1 ++ l2) <-> In x L /\ ~ In (stxt x) (step_rem cur nid texts)).
  { intros x. rewrite <- Hkeep, keep_in, selected_false. tauto. }
  assert (Hmem : forall x, In x (l1 ++ news ++ l2) <-> In x (l1 ++ l2) \/ In x news).
  { intros x. rewrite !in_app_iff. tauto. }
  split.
  - intros x Hx. apply Hmem in Hx as [Hx|Hx].
    + apply HL1 in Hx as [HxL Hnr]. destruct (R1 x HxL) as (e & i & Hk & Hc).
      destruct (dget new e) as [v|] eqn:En.
      * destruct (new_get e v En) as [[Hv Hkv]|[Hc' _]].
        -- destruct (str_eqb (stxt x) (snd v)) eqn:Es.
           ++ apply str_eqb_eq in Es. exists e, (fst v). split; auto. rewrite Es. now destruct v.
           ++ apply str_eqb_neq in Es. exfalso. apply Hnr. unfold step_rem. cbv zeta. fold S new.
              apply in_or_app. left. apply in_flat_map. exists v. split; auto.
              apply (rem_of_intro new cur v e v (i, stxt x)); auto. rewrite effect_of_tk, Hkv. reflexivity.
        -- exists e, i. split; auto. congruence.
      * exfalso. apply Hnr. unfold step_rem. cbv zeta. fold S new. apply in_or_app. right.
        apply in_flat_map. exists (e, (i, stxt x)). split; [now apply dget_in|].
        unfold gone_of. cbn [fst snd]. rewrite En. now left.
    + assert (Ht : In (stxt x) (step_app cur nid texts)) by (rewrite <- Hnews; now apply in_map).
      unfold step_app in Ht. fold S new in Ht. apply in_flat_map in Ht as (sv & Hsv & Ht).
      apply app_of_in in Ht as (e & v & He & Hg & Hi & Et).
      destruct (new_entry e v sv Hg Hsv He Hi) as [-> Hk]. exists e, (fst sv). rewrite Et. split; auto.
      now destruct sv.
  - intros e i t Hg. rewrite !map_app. 
    assert (Hgoal : In t (map stxt news) \/ exists x, In x (l1 ++ l2) /\ stxt x = t).
    { assert (Hold : forall io, dget cur e = Some (io, t) -> tk t = KSet e ->
                ((In (i, t) S /\ snd (i, t) = t) \/ (forall sv, In sv S -> effect_of (snd sv) <> Some e)) ->
                exists x, In x (l1 ++ l2) /\ stxt x = t).
      { intros io Hc Hk Hcase. pose proof (R2 e io t Hc) as Hin. apply in_map_iff in Hin as (x & Ex & Hx).
        exists x. split; auto. apply HL1. split; auto. rewrite Ex.
        exact (not_removed e (i, t) t Hg Hk Hcase). }
      destruct (new_get e (i, t) Hg) as [[Hv Hk]|[Hc Hno]].
      - cbn [snd] in Hk.
        assert (Happ : (dget cur e = None \/ exists o, dget cur e = Some o /\ snd o <> snd (i, t)) ->
                       In t (map stxt news)).
        { intros Hc. rewrite Hnews. unfold step_app. fold S new. apply in_flat_map. exists (i, t). split; auto.
          apply (app_of_intro new cur (i, t) e (i, t)); auto. rewrite effect_of_tk. cbn [snd]. now rewrite Hk. }
        destruct (dget cur e) as [[io to]|] eqn:Ec; [|left; apply Happ; now left].
        destruct (str_eqb to t) eqn:Es.
        + apply str_eqb_eq in Es. subst to. right. apply (Hold io); auto.
        + apply str_eqb_neq in Es. left. apply Happ. right. exists (io, to). auto.
      - right. destruct (Hok e i t Hc) as [_ Hk]. apply (Hold i); auto. }
    destruct Hgoal as [H|(x & Hx & Ex)].
    + apply in_or_app. right. apply in_or_app. now left.
    + subst t. apply in_app_or in Hx as [Hx|Hx].
      * apply in_or_app. left. now apply in_map.
      * apply in_or_app. right. apply in_or_app. right. now apply in_map.
Qed.
End Step.

(* ====================================================================================== *)
(* 7. Identities: every marker of a well-formed table belongs to a setting that is active    *)
(*    somewhere, so a bound on the active identities bounds all identities                   *)
(* ====================================================================================== *)
Definition ids_lt (t : fmts) (n : nat) : Prop := forall k x, In x (active_at t k) -> sid x < n.

Lemma strict_rems_in r : forall A, strict_rems r A <> None -> forall x, In x r -> In (sid x) (ids A).
Proof.
  induction r as [|y r IH]; intros A H x Hx; [destruct Hx|]. cbn [strict_rems] in H.
  destruct (in_ref y A) eqn:E; [|congruence].
  destruct Hx as [<-|Hx]; [now apply in_ref_ids|]. eapply remove_ref_ids_subset. apply (IH _ H x Hx).
Qed.

Lemma all_ids_from (P : nat -> Prop) t : ssorted t -> forall A, strict_run t A ->
  (forall i x, In x (active_upto t i A) -> P (sid x)) -> (forall x, In x A -> P (sid x)) ->
  forall j, In j (all_ids t) -> P j.
Proof.
  induction 1 as [|k p t Hk Hs IH]; intros A Hst Hact HA j Hj; [destruct Hj|].
  cbn [strict_run] in Hst. destruct Hst as [Hst1 Hst2].
  assert (Hstep : forall x, In x (step A p) -> P (sid x)).
  { intros x Hx. apply (Hact k). cbn [active_upto]. rewrite Nat.leb_refl. rewrite active_upto_all_gt; auto. }
  unfold all_ids in Hj. cbn [flat_map snd] in Hj. apply in_app_or in Hj as [Hj|Hj].
  - apply in_app_or in Hj as [Hj|Hj].
    + apply in_ids_inv in Hj as (y & Hy & <-). apply Hstep. rewrite step_rmall. apply in_or_app. now right.
    + apply in_ids_inv in Hj as (y & Hy & <-). pose proof (strict_rems_in _ _ Hst1 y Hy) as Hin.
      apply in_ids_inv in Hin as (z & Hz & Ez). rewrite <- Ez. now apply HA.
  - apply (IH (step A p) Hst2); auto. intros i x Hx. destruct (k <=? i) eqn:E.
    + apply (Hact i). cbn [active_upto]. now rewrite E.
    + apply Nat.leb_gt in E. rewrite active_upto_all_gt in Hx; auto.
      intros kp Hin. specialize (Hk kp Hin). lia.
Qed.

(* every identity occurring anywhere in a well-formed table is the identity of a setting that is
   active at some index *)
Lemma all_ids_active (P : nat -> Prop) s : rm_wf s ->
  (forall k x, In x (active_at (tbl s) k) -> P (sid x)) -> forall j, In j (all_ids (tbl s)) -> P j.
Proof.
  intros (Hs & _ & Hst & _) Hids. apply (all_ids_from P (tbl s) Hs []).
  - now apply strict_ok_from_run.
  - intros i x Hx. exact (Hids i x Hx).
  - intros x [].
Qed.

Lemma all_ids_lt s n : rm_wf s -> ids_lt (tbl s) n -> forall j, In j (all_ids (tbl s)) -> j < n.
Proof. intros Hwf Hids. exact (all_ids_active (fun j => j < n) s Hwf Hids). Qed.

Lemma fresh_fresh s n texts m : rm_wf s -> ids_lt (tbl s) n -> n <= m -> fresh_for (fst (fresh texts m)) (tbl s).
Proof.
  intros Hwf Hids Hle. split.
  - rewrite fresh_ids. apply seq_NoDup.
  - intros x Hx Hin. pose proof (all_ids_lt s n Hwf Hids _ Hin) as Hlt.
    assert (Hs : In (sid x) (ids (fst (fresh texts m)))) by now apply in_ids.
    rewrite fresh_ids in Hs. apply in_seq in Hs. lia.
Qed.

(* ====================================================================================== *)
(* 8. The two table operations of one step, from [key] to the end of the text                *)
(* ====================================================================================== *)
Lemma slice_idx_nat len key : key < len -> slice_idx len (Some (Z.of_nat key)) 0 = key.
Proof.
  intros H. unfold slice_idx. destruct (Z.ltb_spec (Z.of_nat key) 0); [lia|].
  rewrite Z.min_l by lia. apply Nat2Z.id.
Qed.

Lemma range_ok len key : key < len ->
  range_empty len (slice_idx len (Some (Z.of_nat key)) 0) (slice_idx len None len) = false.
Proof.
  intros H. rewrite slice_idx_nat by exact H. unfold range_empty, slice_idx.
  apply orb_false_iff. split; apply Nat.leb_gt; lia.
Qed.

(* the two operations create change points only at the bounds of their range *)
Definition keys_in (t t0 : fmts) (a b : nat) : Prop :=
  forall kp, In kp t -> fst kp = a \/ fst kp = b \/ In (fst kp) (map fst t0).

Lemma remove_loop_keys states : forall len start en sel rd,
  map fst (remove_loop states len start en sel rd) = map (fun x => fst (fst x)) states.
Proof.
  induction states as [|[[k p] cur] r IH]; intros len start en sel rd; [reflexivity|].
  cbn [remove_loop map fst].
  destruct (k <? start); [cbn [map fst]; now rewrite IH|].
  destruct (en <? k). { cbn [map fst]. f_equal. rewrite map_map. reflexivity. }
  destruct (Nat.eqb k start).
  { destruct (remove_at_start sel cur p rd) as [p' rd']. cbn [map fst]. now rewrite IH. }
  destruct (rem_pass (prem p) rd) as [rem' rd1].
  destruct (Nat.eqb k en); [cbn [map fst]; now rewrite IH|].
  destruct (add_pass sel (padd p) rd1) as [add' rd2]. cbn [map fst]. now rewrite IH.
Qed.

Lemma iter_states_keys t : forall A, map (fun x => fst (fst x)) (iter_states t A) = map fst t.
Proof. induction t as [|[k p] r IH]; intros A; cbn [iter_states map fst]; [reflexivity|]. now rewrite IH. Qed.

Lemma tensure_keys k t x : In x (tensure k t) -> fst x = k \/ In x t.
Proof. unfold tensure. destruct (tmem k t); auto. intros H. apply In_tput in H as [->|H]; auto. Qed.

Lemma remove_core_keys_in s sel start en : keys_in (tbl (remove_core s sel start en)) (tbl s) start en.
Proof.
  intros kp Hin. unfold remove_core in Hin. cbn [tbl] in Hin. unfold cleanup in Hin. apply filter_In in Hin as [Hin _].
  apply (in_map fst) in Hin. rewrite remove_loop_keys, iter_states_keys in Hin.
  apply in_map_iff in Hin as (x & Ex & Hx). rewrite <- Ex.
  apply tensure_keys in Hx as [Hx|Hx]; [right; now left|]. apply tensure_keys in Hx as [Hx|Hx]; [now left|].
  right. right. now apply in_map.
Qed.

Lemma apply_core_keys_in s new start en top : ssorted (tbl s) -> start < en ->
  keys_in (tbl (apply_core s new start en top)) (tbl s) start en.
Proof.
  intros Hs Hlt kp Hin. rewrite apply_core_tbl in Hin by assumption. rewrite <- tput_tput_shape in Hin by assumption.
  apply In_tput in Hin as [->|Hin]; [right; now left|]. apply In_tput in Hin as [->|Hin]; [now left|].
  right. right. now apply in_map.
Qed.

(* no change point strictly between [key] and the end of the text *)
Definition no_mid (s : astr) (key : nat) : Prop :=
  forall kp, In kp (tbl s) -> fst kp <= key \/ length (base s) <= fst kp.

Lemma no_mid_keys_in s r key : base r = base s -> key < length (base s) ->
  keys_in (tbl r) (tbl s) key (length (base s)) -> no_mid s key -> no_mid r key.
Proof.
  intros Hb Hkey Hk Hn kp Hin. rewrite Hb. destruct (Hk kp Hin) as [E|[E|Hi]]; [lia|lia|].
  apply in_map_iff in Hi as (kp' & E & Hin'). rewrite <- E. now apply Hn.
Qed.

Lemma step_remove s sel key : rm_wf s -> key < length (base s) ->
  let r := if is_nil sel then s else remove_fmt s (Some sel) (Some (Z.of_nat key)) None in
  base r = base s /\ rm_wf r
  /\ (forall k, k < key -> active_at (tbl r) k = active_at (tbl s) k)
  /\ (forall k, key <= k < length (base s) -> active_at (tbl r) k = keep (Some sel) (active_at (tbl s) k))
  /\ (forall k, length (base s) <= k -> active_at (tbl r) k = active_at (tbl s) k)
  /\ (no_mid s key -> no_mid r key).
Proof.
  intros Hwf Hkey. destruct sel as [|a sel]; cbn [is_nil].
  - split; [reflexivity|]. split; [exact Hwf|]. split; [reflexivity|]. split; [|split; [reflexivity|auto]].
    intros k _. symmetry. apply keep_id. reflexivity.
  - pose proof (remove_fmt_spec s (Some (a :: sel)) (Some (Z.of_nat key)) None) as H. cbv zeta in H.
    specialize (H Hwf (range_ok _ _ Hkey)).
    destruct (remove_fmt_core s (Some (a :: sel)) (Some (Z.of_nat key)) None (range_ok _ _ Hkey)) as (Er & _).
    rewrite (slice_idx_nat _ _ Hkey) in H, Er.
    change (slice_idx (length (base s)) None (length (base s))) with (length (base s)) in H, Er.
    destruct H as (H1 & H2 & H3 & H4 & H5).
    split; [exact H1|]. split; [exact H5|]. split; [exact H2|]. split; [exact H3|]. split; [exact H4|].
    apply no_mid_keys_in; auto. rewrite Er. apply remove_core_keys_in.
Qed.

Lemma step_apply s news key : rm_wf s -> fresh_for news (tbl s) -> key < length (base s) ->
  let r := apply_fmt s news (Some (Z.of_nat key)) None true in
  base r = base s /\ rm_wf r
  /\ (forall k, k < key \/ length (base s) <= k -> active_at (tbl r) k = active_at (tbl s) k)
  /\ (forall k, key <= k < length (base s) ->
      exists l1 l2, active_at (tbl s) k = l1 ++ l2 /\ active_at (tbl r) k = l1 ++ news ++ l2
                    /\ ((forall kp, In kp (tbl s) -> key < fst kp <= k -> padd (snd kp) = []) -> l2 = []))
  /\ (no_mid s key -> no_mid r key).
Proof.
  intros (Hs & Hnd & Hst & Hk & Hf) Hfr Hkey r.
  assert (Hb : base r = base s) by apply apply_fmt_base.
  split; [exact Hb|]. split; [|split; [|split]].
  - split; [now apply apply_fmt_sorted|]. split; [now apply apply_fmt_nodup|].
    split; [now apply apply_fmt_strict|]. split.
    + rewrite Hb. now apply apply_fmt_keys.
    + unfold r. rewrite apply_fmt_final; auto.
  - intros k Hkk. apply apply_fmt_outside; auto.
    rewrite (slice_idx_nat _ _ Hkey). exact Hkk.
  - intros k Hkk. destruct news as [|x news].
    + exists (active_at (tbl s) k), []. unfold r. rewrite apply_fmt_noop_settings. now rewrite !app_nil_r.
    + destruct (apply_fmt_inside_top s (x :: news) (Some (Z.of_nat key)) None true Hs Hfr ltac:(discriminate)
                  (range_ok _ _ Hkey) eq_refl k) as (l1 & l2 & E1 & E2 & _ & _ & E5).
      { rewrite (slice_idx_nat _ _ Hkey). exact Hkk. }
      rewrite (slice_idx_nat _ _ Hkey) in E5. exists l1, l2. auto.
  - destruct (apply_fmt_cases s news (Some (Z.of_nat key)) None true) as [E|(E & H1 & H2)]; fold r in E.
    + now rewrite E.
    + rewrite (slice_idx_nat _ _ Hkey) in E, H1.
      change (slice_idx (length (base s)) None (length (base s))) with (length (base s)) in E, H1.
      apply no_mid_keys_in; auto. rewrite E. now apply apply_core_keys_in.
Qed.

(* ====================================================================================== *)
(* 9. The loop invariant                                                                    *)
(* ====================================================================================== *)
(* (a) the value is well formed and all identities in it are below the allocation counter;
   (c) the dictionary is in order; (b)+(c) from [key] to the end of the text the active settings are
   exactly the entries of the dictionary, one text per effect; (b) no change point lies strictly
   between [key] and the end of the text *)
Definition PInv (s : astr) (cur : dict vset) (key nid : nat) : Prop :=
  rm_wf s /\ ids_lt (tbl s) nid /\ cur_ok cur
  /\ (forall k, key <= k < length (base s) -> Rep cur (active_at (tbl s) k))
  /\ no_mid s key.

Theorem PInv_init text nid : PInv (mkA text []) [] 0 nid.
Proof.
  split; [|split; [|split; [|split]]].
  - unfold rm_wf. cbn [tbl base]. split; [constructor|]. split; [intros k; constructor|].
    split; [reflexivity|]. split; [intros kp []|reflexivity].
  - intros k x [].
  - split; [constructor|]. intros e i t H. discriminate H.
  - intros k _. cbn [tbl]. split; [intros x []|]. intros e i t H. discriminate H.
  - intros kp [].
Qed.

Theorem PInv_mono s cur key key' nid nid' : PInv s cur key nid -> key <= key' -> nid <= nid' -> PInv s cur key' nid'.
Proof.
  intros (H1 & H2 & H3 & H4 & H5) Hk Hn. split; auto. split; [|split; [auto|split]].
  - intros k x Hx. specialize (H2 k x Hx). lia.
  - intros k Hkk. apply H4. lia.
  - intros kp Hin. destruct (H5 kp Hin); [left; lia|now right].
Qed.

(* (d) *)
Corollary PInv_style s cur key nid k : PInv s cur key nid -> key <= k < length (base s) ->
  teq (style_of (map stxt (active_at (tbl s) k))) (as_t' cur).
Proof. intros (_ & _ & H3 & H4 & _) Hk. apply Rep_style; auto. Qed.

(* (b): everything that is active at [key] stays active, unchanged, up to the end of the text *)
Corollary PInv_const s cur key nid k : PInv s cur key nid -> key <= k < length (base s) ->
  active_at (tbl s) k = active_at (tbl s) key.
Proof.
  intros ((Hs & _) & _ & _ & _ & H5) Hk. rewrite !active_at_run by exact Hs. f_equal.
  unfold upto. apply filter_ext_in. intros kp Hin.
  destruct (H5 kp Hin) as [H|H].
  - transitivity true; [|symmetry]; apply Nat.leb_le; lia.
  - transitivity false; [|symmetry]; apply Nat.leb_gt; lia.
Qed.

Theorem parse_step_inv s cur key body nid : PInv s cur key nid -> key < length (base s) ->
  let r := parse_step s cur key body nid in
  PInv (fst (fst r)) (snd (fst r)) key (snd r) /\ nid <= snd r /\ base (fst (fst r)) = base s
  /\ (forall k, k < key -> active_at (tbl (fst (fst r))) k = active_at (tbl s) k).
Proof.
  intros (Hwf & Hids & Hcur & Hrep & Hmid) Hkey r.
  destruct (pgs_str_ok body) as (texts & Hp). pose proof (pgs_str_texts body texts Hp) as Htx.
  unfold r. rewrite (parse_step_unfold _ _ _ _ _ _ Hp). cbv zeta. cbn [fst snd].
  set (to_rem := step_rem cur nid texts). set (to_app := step_app cur nid texts).
  pose proof (step_remove s to_rem key Hwf Hkey) as H1. cbv zeta in H1.
  set (s1 := if is_nil to_rem then s else remove_fmt s (Some to_rem) (Some (Z.of_nat key)) None) in *.
  destruct H1 as (Hb1 & Hwf1 & Hlo1 & Hin1 & Hhi1 & Hmid1).
  assert (Hids1 : ids_lt (tbl s1) nid).
  { intros k x Hx. destruct (lt_dec k key) as [Hl|Hl]; [rewrite Hlo1 in Hx by lia; eauto|].
    destruct (lt_dec k (length (base s))) as [Hl2|Hl2].
    - rewrite Hin1 in Hx by lia. apply keep_in in Hx as [Hx _]. eauto.
    - rewrite Hhi1 in Hx by lia. eauto. }
  set (nid1 := nid + length texts). set (news := fst (fresh to_app nid1)).
  assert (Hfr : fresh_for news (tbl s1)) by (apply fresh_fresh with nid; auto; unfold nid1; lia).
  assert (Hkey1 : key < length (base s1)) by (rewrite Hb1; auto).
  pose proof (step_apply s1 news key Hwf1 Hfr Hkey1) as H2. cbv zeta in H2.
  set (s2 := apply_fmt s1 news (Some (Z.of_nat key)) None true) in *.
  destruct H2 as (Hb2 & Hwf2 & Hout2 & Hin2 & Hmid2). rewrite Hb1 in Hout2, Hin2.
  split; [|split; [unfold nid1; lia|split; [congruence|]]].
  - split; [exact Hwf2|]. split; [|split; [now apply cur_ok_step|split; [|auto]]].
    + intros k x Hx.
      assert (Hnews : forall y, In y news -> sid y < nid1 + length to_app).
      { intros y Hy. assert (Hs : In (sid y) (ids news)) by now apply in_ids.
        unfold news in Hs. rewrite fresh_ids in Hs. apply in_seq in Hs. lia. }
      destruct (lt_dec k key) as [Hl|Hl].
      { rewrite Hout2 in Hx by lia. specialize (Hids1 k x Hx). unfold nid1. lia. }
      destruct (lt_dec k (length (base s))) as [Hl2|Hl2].
      * destruct (Hin2 k ltac:(lia)) as (l1 & l2 & E1 & E2 & _). rewrite E2 in Hx.
        assert (Hold : In x (l1 ++ l2) -> sid x < nid1 + length to_app).
        { intros Hi. rewrite <- E1 in Hi. specialize (Hids1 k x Hi). unfold nid1. lia. }
        apply in_app_or in Hx as [Hx|Hx]; [apply Hold; apply in_or_app; now left|].
        apply in_app_or in Hx as [Hx|Hx]; [now apply Hnews|apply Hold; apply in_or_app; now right].
      * rewrite Hout2 in Hx by lia. specialize (Hids1 k x Hx). unfold nid1. lia.
    + intros k Hk. rewrite Hb2, Hb1 in Hk. destruct (Hin2 k Hk) as (l1 & l2 & E1 & E2 & _). rewrite E2.
      apply (Rep_step cur nid texts Hcur (active_at (tbl s) k)); auto.
      * rewrite <- E1. symmetry. now apply Hin1.
      * apply fresh_texts.
  - intros k Hk. rewrite Hout2 by lia. apply Hlo1. exact Hk.
Qed.

(* every setting active after the step was active before it or is freshly allocated *)
Theorem parse_step_active_in s cur key body nid : PInv s cur key nid -> key < length (base s) ->
  let r := parse_step s cur key body nid in
  forall k x, In x (active_at (tbl (fst (fst r))) k) ->
    In x (active_at (tbl s) k) \/ nid <= sid x < snd r.
Proof.
  intros (Hwf & Hids & Hcur & Hrep & Hmid) Hkey r.
  destruct (pgs_str_ok body) as (texts & Hp).
  unfold r. rewrite (parse_step_unfold _ _ _ _ _ _ Hp). cbv zeta. cbn [fst snd].
  set (to_rem := step_rem cur nid texts). set (to_app := step_app cur nid texts).
  pose proof (step_remove s to_rem key Hwf Hkey) as H1. cbv zeta in H1.
  set (s1 := if is_nil to_rem then s else remove_fmt s (Some to_rem) (Some (Z.of_nat key)) None) in *.
  destruct H1 as (Hb1 & Hwf1 & Hlo1 & Hin1 & Hhi1 & Hmid1).
  assert (Hsub1 : forall k x, In x (active_at (tbl s1) k) -> In x (active_at (tbl s) k)).
  { intros k x Hx. destruct (lt_dec k key) as [Hl|Hl]; [now rewrite Hlo1 in Hx by lia|].
    destruct (lt_dec k (length (base s))) as [Hl2|Hl2].
    - rewrite Hin1 in Hx by lia. now apply keep_in in Hx as [Hx _].
    - now rewrite Hhi1 in Hx by lia. }
  assert (Hids1 : ids_lt (tbl s1) nid) by (intros k x Hx; eauto).
  set (nid1 := nid + length texts). set (news := fst (fresh to_app nid1)).
  assert (Hfr : fresh_for news (tbl s1)) by (apply fresh_fresh with nid; auto; unfold nid1; lia).
  assert (Hkey1 : key < length (base s1)) by (rewrite Hb1; auto).
  pose proof (step_apply s1 news key Hwf1 Hfr Hkey1) as H2. cbv zeta in H2.
  set (s2 := apply_fmt s1 news (Some (Z.of_nat key)) None true) in *.
  destruct H2 as (Hb2 & Hwf2 & Hout2 & Hin2 & Hmid2). rewrite Hb1 in Hout2, Hin2.
  intros k x Hx.
  assert (Hnews : forall y, In y news -> nid <= sid y < nid1 + length to_app).
  { intros y Hy. assert (Hs : In (sid y) (ids news)) by now apply in_ids.
    unfold news in Hs. rewrite fresh_ids in Hs. apply in_seq in Hs. unfold nid1 in *. lia. }
  destruct (lt_dec k key) as [Hl|Hl]; [rewrite Hout2 in Hx by lia; auto|].
  destruct (lt_dec k (length (base s))) as [Hl2|Hl2]; [|rewrite Hout2 in Hx by lia; auto].
  destruct (Hin2 k ltac:(lia)) as (l1 & l2 & E1 & E2 & _). rewrite E2 in Hx.
  assert (Hold : In x (l1 ++ l2) -> In x (active_at (tbl s) k)) by (intros Hi; rewrite <- E1 in Hi; auto).
  apply in_app_or in Hx as [Hx|Hx]; [left; apply Hold; apply in_or_app; now left|].
  apply in_app_or in Hx as [Hx|Hx]; [right; now apply Hnews|left; apply Hold; apply in_or_app; now right].
Qed.

(* ====================================================================================== *)
(* 10. The loop over the removed sequences                                                   *)
(* ====================================================================================== *)
Definition parse_fold (text : str) (seqs : list (nat * cseq)) (st : astr * dict vset * nat) : astr * dict vset * nat :=
  fold_left (fun '(s, cur, nid) kq =>
               if length text <=? fst kq then (s, cur, nid)
               else parse_step s cur (fst kq) (cs_body (snd kq)) nid) seqs st.

Lemma parse_eq w nid :
  parse w nid
  = let toks := tokenize false (Some [CH_m]) w in
    let r := parse_fold (unformatted toks) (seqs_flat toks 0) (mkA (unformatted toks) [], [], nid) in
    (fst (fst r), snd r).
Proof.
  unfold parse, parse_fold. cbv zeta. rewrite sequences_flat.
  destruct (fold_left _ _ _) as [[s c] n]. reflexivity.
Qed.

Lemma parse_fold_cons text kq r s cur nid :
  parse_fold text (kq :: r) (s, cur, nid)
  = parse_fold text r (if length text <=? fst kq then (s, cur, nid)
                       else parse_step s cur (fst kq) (cs_body (snd kq)) nid).
Proof. reflexivity. Qed.

(* structural part: no hypothesis on the input *)
Lemma parse_loop_wf text : forall l pos s cur nid,
  PInv s cur pos nid -> base s = text ->
  let r := parse_fold text (seqs_flat l pos) (s, cur, nid) in
  (exists cur' pos', PInv (fst (fst r)) cur' pos' (snd r))
  /\ base (fst (fst r)) = text /\ nid <= snd r
  /\ (forall k, k < pos -> active_at (tbl (fst (fst r))) k = active_at (tbl s) k).
Proof.
  induction l as [|[c|q] l IH]; intros pos s cur nid Hinv Hb.
  - cbn. split; [eauto|]. auto.
  - cbn [seqs_flat]. destruct (IH (Datatypes.S pos) s cur nid) as (H1 & H2 & H3 & H4); auto.
    { eapply PInv_mono; eauto. }
    split; [exact H1|]. split; [exact H2|]. split; [exact H3|]. intros k Hk. apply H4. lia.
  - cbn [seqs_flat]. cbv zeta. rewrite parse_fold_cons. cbn [fst snd].
    destruct (length text <=? pos) eqn:E; [now apply IH|]. apply Nat.leb_gt in E.
    pose proof (parse_step_inv s cur pos (cs_body q) nid Hinv ltac:(now rewrite Hb)) as Hst. cbv zeta in Hst.
    destruct (parse_step s cur pos (cs_body q) nid) as [[s1 cur1] nid1]. cbn [fst snd] in Hst.
    destruct Hst as (Hinv1 & Hn1 & Hb1 & Hlo1).
    destruct (IH pos s1 cur1 nid1 Hinv1 ltac:(congruence)) as (H1 & H2 & H3 & H4).
    split; [exact H1|]. split; [exact H2|]. split; [lia|]. intros k Hk. rewrite H4 by exact Hk. now apply Hlo1.
Qed.

(* 4: the constructed value is well formed, whatever the input; identities are allocated upwards *)
Theorem parse_wf w nid :
  rm_wf (fst (parse w nid)) /\ nid <= snd (parse w nid) /\ ids_lt (tbl (fst (parse w nid))) (snd (parse w nid)).
Proof.
  rewrite parse_eq. cbv zeta. cbn [fst snd].
  set (toks := tokenize false (Some [CH_m]) w).
  destruct (parse_loop_wf (unformatted toks) toks 0 (mkA (unformatted toks) []) [] nid (PInv_init _ _) eq_refl)
    as ((cur' & pos' & (H1 & H2 & _)) & _ & H3 & _).
  auto.
Qed.

(* upper bound on the identities in the value *)
Corollary parse_ids w nid : forall j, In j (all_ids (tbl (fst (parse w nid)))) -> j < snd (parse w nid).
Proof. destruct (parse_wf w nid) as (H1 & _ & H3). now apply all_ids_lt. Qed.

Lemma parse_loop_ge text lo : forall l pos s cur nid,
  PInv s cur pos nid -> base s = text -> lo <= nid ->
  (forall k x, In x (active_at (tbl s) k) -> lo <= sid x) ->
  forall k x, In x (active_at (tbl (fst (fst (parse_fold text (seqs_flat l pos) (s, cur, nid))))) k) -> lo <= sid x.
Proof.
  induction l as [|[c|q] l IH]; intros pos s cur nid Hinv Hb Hlo Hge.
  - exact Hge.
  - cbn [seqs_flat]. apply (IH (Datatypes.S pos) s cur nid); auto. eapply PInv_mono; eauto.
  - cbn [seqs_flat]. rewrite parse_fold_cons. cbn [fst snd].
    destruct (length text <=? pos) eqn:E; [now apply IH|]. apply Nat.leb_gt in E.
    pose proof (parse_step_inv s cur pos (cs_body q) nid Hinv ltac:(now rewrite Hb)) as Hst. cbv zeta in Hst.
    pose proof (parse_step_active_in s cur pos (cs_body q) nid Hinv ltac:(now rewrite Hb)) as Hact. cbv zeta in Hact.
    destruct (parse_step s cur pos (cs_body q) nid) as [[s1 cur1] nid1]. cbn [fst snd] in Hst, Hact.
    destruct Hst as (Hinv1 & Hn1 & Hb1 & Hlo1).
    apply (IH pos s1 cur1 nid1 Hinv1); [congruence|lia|].
    intros k x Hx. destruct (Hact k x Hx) as [H|H]; [eauto|lia].
Qed.

(* identities allocated lie in [nid, snd (parse w nid)) *)
Theorem parse_ids_range w nid : forall j, In j (all_ids (tbl (fst (parse w nid)))) -> nid <= j < snd (parse w nid).
Proof.
  intros j Hj. split; [|now apply parse_ids].
  destruct (parse_wf w nid) as (H1 & _ & _). revert j Hj. apply (all_ids_active (fun j => nid <= j) _ H1).
  rewrite parse_eq. cbv zeta. cbn [fst].
  apply (parse_loop_ge (unformatted (tokenize false (Some [CH_m]) w)) nid (tokenize false (Some [CH_m]) w) 0
           (mkA (unformatted (tokenize false (Some [CH_m]) w)) []) [] nid (PInv_init _ _) eq_refl (le_n _)).
  intros k x [].
Qed.

(* ====================================================================================== *)
(* 11. The terminal on the token list                                                        *)
(* ====================================================================================== *)
Fixpoint tk_run (t : tstate) (l : list tok) : list (char * tstate) * tstate :=
  match l with
  | [] => ([], t)
  | TChar c :: r => let '(d, tf) := tk_run t r in ((c, t) :: d, tf)
  | TSeq q :: r => tk_run (sgr_move t (cs_body q)) r
  end.

(* input hypotheses, as boolean predicates on the token list *)
(* every accepted sequence body consists of digits and ';' only *)
Definition numeric_toks (l : list tok) : bool :=
  forallb (fun k => match k with TSeq q => numeric (cs_body q) | TChar _ => true end) l.
(* no ESC [ is left as text, i.e. every ESC [ of the input starts a sequence terminated by m *)
Fixpoint only_sgr (l : list tok) : bool :=
  match l with
  | [] => true
  | TChar a :: r => match r with
                    | TChar b :: _ => negb ((a =? ESC)%N && (b =? LBR)%N)
                    | _ => true end && only_sgr r
  | TSeq _ :: r => only_sgr r
  end.

Lemma tk_run_text t l : map fst (fst (tk_run t l)) = unformatted l.
Proof.
  revert t. induction l as [|[c|q] l IH]; intros t; [reflexivity| |].
  - cbn [tk_run]. specialize (IH t). destruct (tk_run t l) as [d tf]. cbn [fst map] in *.
    unfold unformatted in *. cbn [flat_map app]. now rewrite IH.
  - cbn [tk_run]. rewrite IH. reflexivity.
Qed.

Theorem parse_loop_style text : forall l pos s cur nid t,
  numeric_toks l = true ->
  PInv s cur pos nid -> base s = text -> length text = pos + length (unformatted l) ->
  (pos < length text -> teq t (as_t' cur)) ->
  let s' := fst (fst (parse_fold text (seqs_flat l pos) (s, cur, nid))) in
  forall j c tj, nth_error (fst (tk_run t l)) j = Some (c, tj) ->
    teq tj (style_of (map stxt (active_at (tbl s') (pos + j)))).
Proof.
  induction l as [|[c|q] l IH]; intros pos s cur nid t Hnum Hinv Hb Hlen Ht s' j c0 tj Hj.
  - destruct j; discriminate Hj.
  - cbn [tk_run] in Hj. unfold s'. cbn [seqs_flat].
    assert (Hl' : length text = Datatypes.S pos + length (unformatted l)).
    { rewrite Hlen. unfold unformatted. cbn [flat_map app length]. lia. }
    assert (Hinv' : PInv s cur (Datatypes.S pos) nid) by (eapply PInv_mono; eauto).
    destruct (tk_run t l) as [d tf] eqn:Er. cbn [fst] in Hj. destruct j as [|j]; cbn [nth_error] in Hj.
    + inversion Hj; subst c0 tj. rewrite Nat.add_0_r.
      destruct (parse_loop_wf text l (Datatypes.S pos) s cur nid Hinv' Hb) as (_ & _ & _ & H4).
      rewrite H4 by lia. apply teq_sym. eapply teq_trans.
      * apply (PInv_style s cur pos nid pos Hinv). rewrite Hb. lia.
      * apply teq_sym. apply Ht. lia.
    + replace (pos + Datatypes.S j) with (Datatypes.S pos + j) by lia.
      apply (IH (Datatypes.S pos) s cur nid t) with (c := c0); auto.
      * intros H. apply Ht. lia.
      * now rewrite Er.
  - cbn [tk_run] in Hj. unfold s'. cbn [seqs_flat]. rewrite parse_fold_cons. cbn [fst snd].
    cbn [numeric_toks forallb] in Hnum. apply andb_true_iff in Hnum as [Hq Hnum].
    assert (Hl' : length text = pos + length (unformatted l)) by exact Hlen.
    destruct (length text <=? pos) eqn:E.
    + apply Nat.leb_le in E. apply (IH pos s cur nid (sgr_move t (cs_body q))) with (c := c0); auto. lia.
    + apply Nat.leb_gt in E.
      pose proof (parse_step_inv s cur pos (cs_body q) nid Hinv ltac:(now rewrite Hb)) as Hst. cbv zeta in Hst.
      pose proof (numeric_params _ Hq) as Hp.
      pose proof (parse_step_dict s cur pos (cs_body q) nid _ Hp ltac:(apply Hinv)) as Hd. cbv zeta in Hd.
      destruct (parse_step s cur pos (cs_body q) nid) as [[s1 cur1] nid1]. cbn [fst snd] in Hst, Hd.
      destruct Hst as (Hinv1 & Hn1 & Hb1 & Hlo1). destruct Hd as [Hd _].
      apply (IH pos s1 cur1 nid1 (sgr_move t (cs_body q))) with (c := c0); auto; [congruence|].
      intros _. unfold sgr_move. rewrite Hp. apply teq_sym. eapply teq_trans; [exact Hd|].
      apply sgr_teq. apply teq_sym. now apply Ht.
Qed.

(* ---------- term_run and tokenize use the same scan ---------- *)
Lemma span_body_same s : Terminal.span_body s = Tokenizer.span_body s.
Proof.
  induction s as [|c r IH]; [reflexivity|]. cbn [Terminal.span_body Tokenizer.span_body].
  destruct (is_final c); [reflexivity|]. now rewrite IH.
Qed.

Lemma only_sgr_raw x : only_sgr (TChar ESC :: TChar LBR :: x) = false.
Proof. reflexivity. Qed.

Lemma term_tok_fuel : forall fuel s t, length s <= fuel ->
  only_sgr (tokenize_fuel fuel false (Some [CH_m]) s) = true ->
  term_run_fuel fuel t s = tk_run t (tokenize_fuel fuel false (Some [CH_m]) s).
Proof.
  induction fuel as [|f IH]; intros s t Hl Ho; [reflexivity|].
  destruct s as [|c1 r1]; [reflexivity|]. cbn [term_run_fuel tokenize_fuel] in *.
  destruct r1 as [|c2 r2]; [reflexivity|].
  destruct ((c1 =? ESC)%N && (c2 =? LBR)%N) eqn:E.
  - apply andb_true_iff in E as [E1 E2]. apply N.eqb_eq in E1, E2. subst c1 c2.
    rewrite span_body_same. pose proof (span_body_len r2) as Hlen.
    destruct (Tokenizer.span_body r2) as [b r3]. cbn [snd] in Hlen.
    destruct r3 as [|fin r4].
    + exfalso. cbn [accept andb map app] in Ho. rewrite only_sgr_raw in Ho. discriminate.
    + unfold accept in Ho |- *. cbn [andb mem_char existsb] in Ho |- *. rewrite orb_false_r in Ho |- *.
      destruct (fin =? CH_m)%N eqn:Ef.
      * cbn [only_sgr] in Ho. cbn [tk_run cs_body]. unfold sgr_move.
        apply IH; auto. cbn [length] in *. lia.
      * exfalso. cbn [map app] in Ho. rewrite only_sgr_raw in Ho. discriminate.
  - cbn [only_sgr] in Ho. apply andb_true_iff in Ho as [_ Ho]. cbn [tk_run].
    rewrite IH; auto. cbn [length] in *. lia.
Qed.

Theorem term_tok_bridge' w t : only_sgr (tokenize false (Some [CH_m]) w) = true ->
  term_run t w = tk_run t (tokenize false (Some [CH_m]) w).
Proof. intros H. unfold term_run, tokenize in *. now apply term_tok_fuel. Qed.

(* ====================================================================================== *)
(* 12. C02, style clause                                                                     *)
(* ====================================================================================== *)
Theorem parse_style w nid :
  let toks := tokenize false (Some [CH_m]) w in
  numeric_toks toks = true -> only_sgr toks = true ->
  let s := fst (parse w nid) in
  let disp := fst (term_run tdefault w) in
  map fst disp = base s
  /\ forall i c ti, nth_error disp i = Some (c, ti) ->
       teq ti (style_of (map stxt (active_at (tbl s) i))).
Proof.
  intros toks Hnum Hsgr s disp. unfold disp. rewrite (term_tok_bridge' w tdefault Hsgr). fold toks.
  split.
  - rewrite tk_run_text. unfold s. now rewrite parse_base.
  - unfold s. rewrite parse_eq. cbv zeta. cbn [fst]. fold toks. intros i c ti Hi.
    apply (parse_loop_style (unformatted toks) toks 0 (mkA (unformatted toks) []) [] nid tdefault Hnum
             (PInv_init _ _) eq_refl eq_refl) with (j := i) (c := c); auto.
    intros _ e. reflexivity.
Qed.

(* the same, indexed by the characters of the value *)
Corollary parse_style_chars w nid :
  let toks := tokenize false (Some [CH_m]) w in
  numeric_toks toks = true -> only_sgr toks = true ->
  let s := fst (parse w nid) in
  let disp := fst (term_run tdefault w) in
  forall i, i < length (base s) ->
  exists c ti, nth_error disp i = Some (c, ti) /\ nth_error (base s) i = Some c
               /\ teq ti (style_of (map stxt (active_at (tbl s) i))).
Proof.
  intros toks Hnum Hsgr s disp i Hi.
  destruct (parse_style w nid Hnum Hsgr) as [H1 H2]. fold s disp in H1, H2.
  assert (Hlen : i < length disp) by (rewrite <- (map_length fst), H1; exact Hi).
  destruct (nth_error disp i) as [[c ti]|] eqn:E; [|apply nth_error_None in E; lia].
  exists c, ti. split; auto. split; [|now apply (H2 i c)].
  rewrite <- H1. now rewrite (map_nth_error fst i disp E).
Qed.

(* (c) in terms of to_effect: the entries of the dictionary and the active settings at [key] *)
Corollary PInv_entries s cur key nid : PInv s cur key nid -> key < length (base s) ->
  nodupk cur
  /\ (forall e i t, dget cur e = Some (i, t) ->
        In t (map stxt (active_at (tbl s) key)) /\ parsable t = true /\ effect_of t = Some e)
  /\ (forall x, In x (active_at (tbl s) key) ->
        exists e i, effect_of (stxt x) = Some e /\ dget cur e = Some (i, stxt x)).
Proof.
  intros (_ & _ & (Hnd & Hok) & H4 & _) Hk. destruct (H4 key ltac:(lia)) as [R1 R2].
  split; [exact Hnd|]. split.
  - intros e i t Hg. destruct (Hok e i t Hg) as [Hp Hkk]. split; [now apply (R2 e i)|]. split; auto.
    now rewrite effect_of_tk, Hkk.
  - intros x Hx. destruct (R1 x Hx) as (e & i & Hkk & Hg). exists e, i. split; auto. now rewrite effect_of_tk, Hkk.
Qed.

(* ====================================================================================== *)
(* 13. Concrete instances: the hypotheses are satisfiable, and they are needed               *)
(* ====================================================================================== *)
Module ParseExamples.
Import String.
Local Open Scope string_scope.
Local Open Scope list_scope.
Definition s_ (x : string) : str := str_of_string x.
Definition esc (x : string) : str := ESC :: LBR :: str_of_string x.
Definition toks (w : str) := tokenize false (Some [CH_m]) w.

(* executable form of the statement of parse_style *)
Definition obs (w : str) := map (fun ct => (fst ct, tstate_obs (snd ct))) (fst (term_run tdefault w)).
Definition mine (w : str) :=
  let s := fst (parse w 0) in
  map (fun i => (List.nth i (base s) 0%N, tstate_obs (style_of (map stxt (active_at (tbl s) i)))))
      (seq 0 (List.length (base s))).
Definition obs_eqb (x y : option (list N)) : bool :=
  match x, y with None, None => true | Some p, Some q => list_eqb N.eqb p q | _, _ => false end.
Definition agree (w : str) : bool :=
  list_eqb (fun a b => N.eqb (fst a) (fst b) && list_eqb obs_eqb (snd a) (snd b)) (obs w) (mine w).

Definition w1 := esc "1;31m" ++ s_ "a" ++ esc "22m" ++ s_ "b" ++ esc "0;4m" ++ s_ "c".
Definition w2 := esc "38;5;1m" ++ s_ "a" ++ esc "38;5;2m" ++ s_ "b".
(* several sequences at one index, and a sequence at the very end (ignored) *)
Definition w3 := esc "1m" ++ esc "31m" ++ esc "22m" ++ s_ "ab" ++ esc "4m".
(* a group that is set, cleared and set again inside one sequence; the empty body *)
Definition w4 := esc "1m" ++ s_ "a" ++ esc "31;1;32;22;1m" ++ s_ "bc" ++ esc "m" ++ s_ "d" ++ esc "4m".
(* leading zeros, empty parameters, cut-off and out-of-range colour groups, unknown codes *)
Definition w5 := esc "001;;04m" ++ s_ "a" ++ esc "38;5m" ++ s_ "b" ++ esc "38;2;1;2m" ++ s_ "c"
                 ++ esc "38;5;300;1m" ++ s_ "d" ++ esc "10m" ++ s_ "e" ++ esc "1;22;256;48;2;1;2;3;7m" ++ s_ "f".

Example hyps_ok :
  forallb (fun w => numeric_toks (toks w) && only_sgr (toks w)) [w1; w2; w3; w4; w5] = true.
Proof. vm_compute. reflexivity. Qed.

Example agree_ok : forallb agree [w1; w2; w3; w4; w5] = true.
Proof. vm_compute. reflexivity. Qed.

Example parse_w3 :
  parse w3 100 = (mkA (s_ "ab") [(0, mkP [mkS 103 (s_ "31")] []); (2, mkP [] [mkS 103 (s_ "31")])], 105).
Proof. vm_compute. reflexivity. Qed.

(* pgs_str_numeric / parse_step_dict: a numeric body, a dictionary without duplicate keys *)
Example numeric_ex : numeric (s_ "001;;04") = true /\ params_of (s_ "001;;04") = Some [1; 0; 4]%N
  /\ pgs_str (s_ "001;;04") false = OK [s_ "1"; s_ "0"; s_ "4"].
Proof. repeat split. Qed.

Example dict_ex :
  let cur : dict vset := [(BOLDNESS, (0, s_ "1"))] in
  params_of (s_ "22;4") = Some [22; 4]%N /\ nodupk cur
  /\ snd (fst (parse_step (mkA (s_ "ab") []) cur 0 (s_ "22;4") 5)) = [(UNDERLINE, (6, s_ "4"))].
Proof. split; [reflexivity|]. split; [repeat constructor; intros []|vm_compute; reflexivity]. Qed.

(* Rep_style: two effects, reported in the opposite order of the dictionary *)
Example rep_ex :
  let cur : dict vset := [(BOLDNESS, (0, s_ "1")); (FG_COLOR, (1, s_ "31"))] in
  let L := [mkS 7 (s_ "31"); mkS 8 (s_ "1")] in
  cur_ok cur /\ Rep cur L.
Proof.
  split; [split|split].
  - repeat constructor; cbn; intuition discriminate.
  - intros e i t H. destruct e; try discriminate H; inversion H; subst; split; vm_compute; reflexivity.
  - intros x [<-|[<-|[]]]; [exists FG_COLOR, 1 | exists BOLDNESS, 0]; split; vm_compute; reflexivity.
  - intros e i t H. destruct e; try discriminate H; inversion H; subst; vm_compute; auto.
Qed.

(* parse_step_inv / PInv_const / PInv_style: the state after one step is a non-trivial instance of the invariant *)
Definition st1 := parse_step (mkA (s_ "ab") []) [] 0 (s_ "1;31") 5.
Example inv_ex :
  PInv (fst (fst st1)) (snd (fst st1)) 0 (snd st1) /\ 0 < List.length (base (fst (fst st1)))
  /\ snd (fst st1) = [(BOLDNESS, (5, s_ "1")); (FG_COLOR, (6, s_ "31"))]
  /\ active_at (tbl (fst (fst st1))) 1 = [mkS 7 (s_ "1"); mkS 8 (s_ "31")].
Proof.
  split; [apply (parse_step_inv (mkA (s_ "ab") []) [] 0 (s_ "1;31") 5 (PInv_init _ _)); cbn; lia|].
  split; [vm_compute; lia|]. split; vm_compute; reflexivity.
Qed.

(* numeric_bodies is needed: for a body that is not [0-9;]* the terminal ignores the whole sequence,
   while the code keeps the items int() can read.  ESC[1:3;4m : underline is set in the value only *)
Definition wa := esc "1:3;4m" ++ s_ "a".
Example non_numeric_differs :
  numeric_toks (toks wa) = false /\ only_sgr (toks wa) = true
  /\ match nth_error (fst (term_run tdefault wa)) 0 with Some (_, t) => t UNDERLINE | None => Some [] end = None
  /\ style_of (map stxt (active_at (tbl (fst (parse wa 0))) 0)) UNDERLINE = Some [4%N].
Proof. vm_compute. repeat split. Qed.

(* ... int() was lenient: " +3" used to be read as 3 (italics); repaired (known_findings F33: parameters are decimal
   digits only), the item is now dropped like any other non-number - bold, from the numeric item, is still kept *)
Definition wb := esc "1; +3m" ++ s_ "a".
Example lenient_int_repaired :
  numeric_toks (toks wb) = false
  /\ match nth_error (fst (term_run tdefault wb)) 0 with Some (_, t) => (t BOLDNESS, t ITALICS) | None => (None, None) end
     = (None, None)
  /\ (let st := style_of (map stxt (active_at (tbl (fst (parse wb 0))) 0)) in (st BOLDNESS, st ITALICS))
     = (Some [1%N], None).
Proof. vm_compute. repeat split. Qed.

(* only_sgr is needed: a control sequence with another final byte (or an unterminated one) is swallowed
   by the terminal but kept as text in the value *)
Definition wc := esc "1A" ++ s_ "a" ++ esc "3m" ++ s_ "b".
Definition wd := s_ "ab" ++ esc "1".
Example not_only_sgr_differs :
  numeric_toks (toks wc) = true /\ only_sgr (toks wc) = false
  /\ map fst (fst (term_run tdefault wc)) = s_ "ab" /\ base (fst (parse wc 0)) = esc "1Aab"
  /\ only_sgr (toks wd) = false
  /\ map fst (fst (term_run tdefault wd)) = s_ "ab" /\ base (fst (parse wd 0)) = wd.
Proof. vm_compute. repeat split. Qed.
End ParseExamples.

Print Assumptions pgs_str_numeric.
Print Assumptions parse_step_unfold.
Print Assumptions parse_step_dict.
Print Assumptions Rep_style.
Print Assumptions Rep_step.
Print Assumptions PInv_init.
Print Assumptions PInv_mono.
Print Assumptions parse_step_inv.
Print Assumptions PInv_style.
Print Assumptions PInv_const.
Print Assumptions PInv_entries.
Print Assumptions parse_wf.
Print Assumptions parse_ids.
Print Assumptions parse_step_active_in.
Print Assumptions parse_ids_range.
Print Assumptions term_tok_bridge'.
Print Assumptions parse_loop_style.
Print Assumptions parse_style.
Print Assumptions parse_style_chars.
