(* set_ansi_str (C02, style clause): constructing a value from text with SGR escape sequences yields a
   value in which every character reports settings whose effective style is exactly the state the
   specification terminal has when it displays that character. *)
From AS Require Import Base Effects.
From AS.Spec Require Import Terminal.
From AS.Model Require Import Sgr Tokenizer Table Ops Render Parse.
From AS.Proofs Require Import TableProofs SliceProofs PadProofs DecProofs GenCodeTable TokenizerProofs
  SgrProofs SgrAlgebra BasicProofs ApplyProofs RemoveProofs RenderProofs FlagsProofs ParseBasics.
Local Open Scope nat_scope.

(* ====================================================================================== *)
(* 1. The sequence body: string input = list of its numeric parameters                     *)
(* ====================================================================================== *)
(* a body the terminal interprets: only digits and ';' *)
Definition numeric (body : str) : bool := forallb dsc body.

Lemma numeric_params body : numeric body = true ->
  params_of body = Some (map num_of (split_char SEMI body)).
Proof. intros H. unfold params_of. now rewrite (split_digits body H). Qed.

Lemma params_numeric body p : params_of body = Some p -> numeric body = true.
Proof. intros H. exact (params_of_chars body p H). Qed.

Lemma items_numeric l : forallb all_digits l = true ->
  map norm_item (map (fun s => IStr (if is_nil (strip_ws s) then [CH_0] else strip_ws s)) l)
  = itemsN (map num_of l).
Proof.
  intros H. unfold itemsN. rewrite !map_map. apply map_ext_in. intros d Hd.
  assert (Hdig : all_digits d = true) by (rewrite forallb_forall in H; now apply H).
  unfold all_digits in Hdig. rewrite (strip_ws_digits d Hdig).
  destruct d as [|c r]; [reflexivity|]. cbn [is_nil].
  unfold norm_item. now rewrite (parse_int_digits (c :: r) Hdig) by discriminate.
Qed.

(* parse_graphic_sequence on a numeric body = parse_graphic_sequence on its parameter list
   (an empty parameter is 0, leading zeros are harmless) *)
Theorem pgs_str_numeric body : numeric body = true ->
  pgs_str body false = OK (map textN (pgs_gN (map num_of (split_char SEMI body)) 0 [])).
Proof.
  intros H. destruct body as [|c r].
  - vm_compute. reflexivity.
  - unfold pgs_str, items_of_str. rewrite (items_numeric _ (split_digits _ H)).
    exact (pgs_loop_N (map num_of (split_char SEMI (c :: r))) 0 []).
Qed.

(* ====================================================================================== *)
(* 2. Dictionaries with identities against dictionaries of texts                           *)
(* ====================================================================================== *)
Definition dmap {V W} (f : V -> W) (d : dict V) : dict W := map (fun kv => (fst kv, f (snd kv))) d.

Lemma dmap_keys {V W} (f : V -> W) d : map fst (dmap f d) = map fst d.
Proof. unfold dmap. rewrite map_map. reflexivity. Qed.

Lemma nodupk_dmap {V W} (f : V -> W) d : nodupk d -> nodupk (dmap f d).
Proof. unfold nodupk. now rewrite dmap_keys. Qed.

Lemma dmap_dset {V W} (f : V -> W) d e v : dmap f (dset d e v) = dset (dmap f d) e (f v).
Proof.
  induction d as [|[e' v'] r IH]; [reflexivity|]. cbn [dset dmap map fst snd].
  destruct (effect_beq e e'); [reflexivity|]. cbn [map fst snd]. f_equal. exact IH.
Qed.

Lemma dmap_ddel {V W} (f : V -> W) d e : dmap f (ddel d e) = ddel (dmap f d) e.
Proof.
  induction d as [|[e' v'] r IH]; [reflexivity|]. cbn [ddel dmap map fst snd].
  destruct (effect_beq e e'); [reflexivity|]. cbn [map fst snd]. f_equal. exact IH.
Qed.

Lemma dget_dmap {V W} (f : V -> W) d e : dget (dmap f d) e = option_map f (dget d e).
Proof.
  induction d as [|[e' v'] r IH]; [reflexivity|]. cbn [dget dmap map fst snd].
  destruct (effect_beq e' e); [reflexivity|]. exact IH.
Qed.

Lemma s2d_step_dmap {V} (txt : V -> str) d v :
  dmap txt (s2d_step txt d v) = s2d_step (fun x => x) (dmap txt d) (txt v).
Proof.
  unfold s2d_step. destruct (initial_code (txt v)) as [c|]; [|reflexivity].
  destruct (gen_class c); auto using dmap_dset, dmap_ddel.
Qed.

Lemma s2d_dmap {V} (txt : V -> str) l : forall d,
  dmap txt (s2d txt l d) = s2d (fun x => x) (map txt l) (dmap txt d).
Proof.
  induction l as [|v l IH]; intros d; [reflexivity|].
  unfold s2d. cbn [map fold_left]. fold (s2d txt l (s2d_step txt d v)).
  fold (s2d (fun x : str => x) (map txt l) (s2d_step (fun x => x) (dmap txt d) (txt v))).
  rewrite IH, s2d_step_dmap. reflexivity.
Qed.

(* the terminal state a dictionary of (identity, text) values stands for *)
Definition as_t' (cur : dict vset) : tstate :=
  fun e => match dget cur e with Some (_, t) => params_of t | None => None end.

Lemma as_t'_dmap cur : teq (as_t' cur) (as_t (dmap (@snd nat str) cur)).
Proof.
  intros e. unfold as_t', as_t. rewrite dget_dmap. unfold vset in *.
  destruct (dget cur e) as [[i t]|]; reflexivity.
Qed.

Lemma map_snd_combine {A} (l : list A) : forall n, map snd (combine (seq n (length l)) l) = l.
Proof. induction l as [|x l IH]; intros n; [reflexivity|]. cbn [length seq combine map snd]. now rewrite IH. Qed.

Lemma map_fst_combine {A} (l : list A) : forall n, map fst (combine (seq n (length l)) l) = seq n (length l).
Proof. induction l as [|x l IH]; intros n; [reflexivity|]. cbn [length seq combine map fst]. now rewrite IH. Qed.

(* ====================================================================================== *)
(* 3. parse_step in a form without destructuring lets                                       *)
(* ====================================================================================== *)
Definition rem_of (new cur : dict vset) (sv : vset) : list str :=
  match effect_of (snd sv) with
  | Some e => match dget new e with
              | Some v => if Nat.eqb (fst v) (fst sv) then
                            match dget cur e with
                            | Some o => if str_eqb (snd o) (snd sv) then [] else [snd o]
                            | None => [] end
                          else []
              | None => [] end
  | None => [] end.
Definition app_of (new cur : dict vset) (sv : vset) : list str :=
  match effect_of (snd sv) with
  | Some e => match dget new e with
              | Some v => if Nat.eqb (fst v) (fst sv) then
                            match dget cur e with
                            | Some o => if str_eqb (snd o) (snd sv) then [] else [snd sv]
                            | None => [snd sv] end
                          else []
              | None => [] end
  | None => [] end.
Definition gone_of (new : dict vset) (kv : effect * vset) : list str :=
  match dget new (fst kv) with Some _ => [] | None => [snd (snd kv)] end.

Definition step_settings (nid : nat) (texts : list str) : list vset := combine (seq nid (length texts)) texts.
Definition step_new (cur : dict vset) (nid : nat) (texts : list str) : dict vset :=
  s2d (@snd nat str) (step_settings nid texts) cur.
Definition step_rem (cur : dict vset) (nid : nat) (texts : list str) : list str :=
  let new := step_new cur nid texts in
  flat_map (rem_of new cur) (step_settings nid texts) ++ flat_map (gone_of new) cur.
Definition step_app (cur : dict vset) (nid : nat) (texts : list str) : list str :=
  flat_map (app_of (step_new cur nid texts) cur) (step_settings nid texts).

Lemma fold_lists (new cur : dict vset) (l : list vset) : forall rm ap,
  fold_left (fun '(rm, ap) (sv : vset) =>
               match effect_of (snd sv) with
               | Some e =>
                 match dget new e with
                 | Some v => if Nat.eqb (fst v) (fst sv) then
                               match dget cur e with
                               | Some o => if str_eqb (snd o) (snd sv) then (rm, ap)
                                           else (rm ++ [snd o], ap ++ [snd sv])
                               | None => (rm, ap ++ [snd sv]) end
                             else (rm, ap)
                 | None => (rm, ap) end
               | None => (rm, ap) end) l (rm, ap)
  = (rm ++ flat_map (rem_of new cur) l, ap ++ flat_map (app_of new cur) l).
Proof.
  induction l as [|sv l IH]; intros rm ap.
  - cbn [fold_left flat_map]. now rewrite !app_nil_r.
  - cbn [fold_left flat_map]. unfold rem_of at 1, app_of at 1.
    destruct (effect_of (snd sv)) as [e|]; [|now rewrite IH].
    destruct (dget new e) as [v|]; [|now rewrite IH].
    destruct (Nat.eqb (fst v) (fst sv)); [|now rewrite IH].
    destruct (dget cur e) as [o|].
    + destruct (str_eqb (snd o) (snd sv)); rewrite IH; [reflexivity|]. now rewrite <- !app_assoc.
    + rewrite IH. now rewrite <- !app_assoc.
Qed.

Lemma fresh_spec texts : forall nid a,
  map stxt (map (fun it => mkS (nid + fst it) (snd it)) (combine (seq a (length texts)) texts)) = texts
  /\ ids (map (fun it => mkS (nid + fst it) (snd it)) (combine (seq a (length texts)) texts))
     = seq (nid + a) (length texts).
Proof.
  induction texts as [|t l IH]; intros nid a; [split; reflexivity|].
  cbn [length seq combine map stxt sid fst snd ids]. destruct (IH nid (S a)) as [H1 H2]. split.
  - now rewrite H1.
  - unfold ids in H2. rewrite H2. now rewrite Nat.add_succ_r.
Qed.

Lemma fresh_texts texts nid : map stxt (fst (fresh texts nid)) = texts.
Proof. unfold fresh. cbn [fst]. apply (fresh_spec texts nid 0). Qed.
Lemma fresh_ids texts nid : ids (fst (fresh texts nid)) = seq nid (length texts).
Proof. unfold fresh. cbn [fst]. destruct (fresh_spec texts nid 0) as [_ H]. now rewrite H, Nat.add_0_r. Qed.

Theorem parse_step_unfold s cur key body nid texts : pgs_str body false = OK texts ->
  let nid1 := nid + length texts in
  let to_rem := step_rem cur nid texts in
  let to_app := step_app cur nid texts in
  let s1 := if is_nil to_rem then s else remove_fmt s (Some to_rem) (Some (Z.of_nat key)) None in
  parse_step s cur key body nid
  = (apply_fmt s1 (fst (fresh to_app nid1)) (Some (Z.of_nat key)) None true,
     step_new cur nid texts, nid1 + length to_app).
Proof.
  intros H. cbv zeta. unfold parse_step. rewrite H.
  fold (step_settings nid texts). fold (step_new cur nid texts).
  rewrite fold_lists. cbn [app].
  fold (step_app cur nid texts).
  change (flat_map (rem_of (step_new cur nid texts) cur) (step_settings nid texts)
          ++ flat_map (fun kv => match dget (step_new cur nid texts) (fst kv) with
                                 | Some _ => [] | None => [snd (snd kv)] end) cur)
    with (step_rem cur nid texts).
  destruct (step_app cur nid texts) as [|a l] eqn:Ea.
  - cbn [is_nil length]. rewrite apply_fmt_noop_settings, Nat.add_0_r. reflexivity.
  - cbn [is_nil]. unfold fresh. cbn [fst]. reflexivity.
Qed.

Lemma pgs_str_ok body : exists texts, pgs_str body false = OK texts.
Proof.
  unfold pgs_str. destruct body as [|c r]; [eexists; reflexivity|].
  generalize (map norm_item (items_of_str (c :: r))). intros items.
  generalize 0 at 1. generalize (@nil Z).
  induction items as [|it items IH]; intros cur left.
  - eexists. reflexivity.
  - destruct it as [z|s0].
    + assert (Hgo : forall l, exists texts,
        (let cur' := cur ++ [z] in
         match l with
         | S (S l0) => pgs_loop items (S l0) cur' false
         | _ => do r <- pgs_loop items 0 [] false;
                OK ((if keep_group false cur' then [text_of_items cur'] else []) ++ r)
         end) = OK texts).
      { intros l. cbv zeta. destruct l as [|[|l0]]; try apply IH;
        destruct (IH [] 0) as [r0 Hr]; rewrite Hr; cbn [bind]; eexists; reflexivity. }
      cbn [pgs_loop]. destruct cur as [|c0 cur0].
      * destruct (intro_kind (IInt z :: items)) as [total| |]; [apply (Hgo total)|apply IH|apply (Hgo 1)].
      * apply (Hgo left).
    + cbn [pgs_loop]. apply IH.
Qed.

(* ====================================================================================== *)
(* 4. parse_step_dict: the dictionary moves exactly as the terminal state moves             *)
(* ====================================================================================== *)
Lemma step_new_texts cur nid texts :
  dmap (@snd nat str) (step_new cur nid texts) = s2d (fun x => x) texts (dmap (@snd nat str) cur).
Proof. unfold step_new, step_settings. rewrite s2d_dmap, map_snd_combine. reflexivity. Qed.

Theorem parse_step_dict s cur key body nid p :
  params_of body = Some p -> nodupk cur ->
  let new := snd (fst (parse_step s cur key body nid)) in
  teq (as_t' new) (sgr spec_class (as_t' cur) p) /\ nodupk new.
Proof.
  intros Hp Hnd new.
  pose proof (params_numeric body p Hp) as Hnum.
  pose proof (pgs_str_numeric body Hnum) as Hpgs.
  rewrite (numeric_params body Hnum) in Hp. injection Hp as Ep. rewrite Ep in Hpgs. clear Ep.
  unfold new. rewrite (parse_step_unfold s cur key body nid _ Hpgs). cbn [fst snd].
  set (gs := pgs_gN p 0 []).
  destruct (pgs_s2d_is_sgr (length p) p (dmap (@snd nat str) cur) (le_n _) (nodupk_dmap _ _ Hnd)) as [H1 H2].
  fold gs in H1, H2. unfold s2dN in H1, H2. rewrite <- (step_new_texts cur nid) in H1, H2. split.
  - eapply teq_trans; [apply as_t'_dmap|]. eapply teq_trans; [exact H1|].
    unfold sgr, acts. rewrite (acts_ext gen_class spec_class gen_class_spec).
    apply run_teq_l. apply teq_sym, as_t'_dmap.
  - unfold nodupk in *. now rewrite dmap_keys in H2.
Qed.

(* ====================================================================================== *)
(* 5. What a setting text does to the dictionary                                            *)
(* ====================================================================================== *)
Inductive tkind := KReset | KSet (e : effect) | KClr (e : effect) | KNone.
Definition tk (t : str) : tkind :=
  match initial_code t with
  | Some c => match gen_class c with
              | CSet e | CIntro e => KSet e
              | CClr e => KClr e
              | CReset => KReset
              | CUnknown => KNone end
  | None => KNone
  end.

Lemma s2d_step_tk {V} (txt : V -> str) d v :
  s2d_step txt d v = match tk (txt v) with KSet e => dset d e v | KClr e => ddel d e | KReset => [] | KNone => d end.
Proof. unfold s2d_step, tk. destruct (initial_code (txt v)) as [c|]; [|reflexivity]. destruct (gen_class c); reflexivity. Qed.

Lemma effect_of_tk t : effect_of t = match tk t with KSet e | KClr e => Some e | _ => None end.
Proof.
  unfold effect_of, to_effect, tk. destruct (initial_code t) as [c|]; [|reflexivity]. destruct (gen_class c); reflexivity.
Qed.

Lemma group_ok_class v r : group_ok (v :: r) = true ->
  exists e, gen_class v = CSet e \/ gen_class v = CClr e \/ gen_class v = CIntro e.
Proof.
  unfold group_ok. destruct (gen_class v) eqn:E; intros H; eauto; exfalso;
  repeat match type of H with context [match ?x with _ => _ end] => destruct x; try discriminate H end.
Qed.

Lemma parsable_tk t : parsable t = true -> exists e, tk t = KSet e \/ tk t = KClr e.
Proof.
  intros Hp. destruct (parsable_inv t Hp) as (v & r & _ & Hg & _ & Hi & _).
  destruct (group_ok_class v r Hg) as (e & Hc). unfold tk. rewrite Hi.
  destruct (is_param v) eqn:Ep.
  - exists e. destruct Hc as [-> | [-> | ->]]; auto.
  - rewrite (gen_class_not_param v Ep) in Hc. destruct Hc as [Hc | [Hc | Hc]]; discriminate.
Qed.

Lemma tk_zero : tk [CH_0] = KReset.
Proof. vm_compute. reflexivity. Qed.

(* every text parse_graphic_sequence emits is a parsable group or the reset *)
Definition text_ok (t : str) : Prop := parsable t = true \/ t = [CH_0].

Lemma pgs_loop_texts items : forall cur left texts,
  pgs_loop items left cur false = OK texts -> Forall text_ok texts.
Proof.
  induction items as [|it items IH]; intros cur left texts.
  - cbn [pgs_loop andb]. intros H. inversion H. constructor.
  - destruct it as [z|s0].
    + assert (Hgo : forall l texts,
        (let cur' := cur ++ [z] in
         match l with
         | S (S l0) => pgs_loop items (S l0) cur' false
         | _ => do r <- pgs_loop items 0 [] false;
                OK ((if keep_group false cur' then [text_of_items cur'] else []) ++ r)
         end) = OK texts -> Forall text_ok texts).
      { intros l tx. cbv zeta.
        assert (Hemit : (do r <- pgs_loop items 0 [] false;
                         OK ((if keep_group false (cur ++ [z]) then [text_of_items (cur ++ [z])] else []) ++ r)) = OK tx
                        -> Forall text_ok tx).
        { destruct (pgs_loop items 0 [] false) as [r0|] eqn:Er; cbn [bind]; [|discriminate].
          intros H. inversion H. apply Forall_app. split; [|eapply IH; eauto].
          destruct (keep_group false (cur ++ [z])) eqn:K; [|constructor]. constructor; [|constructor].
          unfold keep_group in K. cbn [orb] in K. apply orb_true_iff in K as [K|K]; [now left|right].
          destruct (cur ++ [z]) as [|z0 [|z1 l1]]; try discriminate K.
          apply Z.eqb_eq in K. subst z0. reflexivity. }
        destruct l as [|[|l0]]; auto. apply IH. }
      cbn [pgs_loop]. destruct cur as [|c0 cur0].
      * destruct (intro_kind (IInt z :: items)) as [total| |]; [apply (Hgo total)|apply IH|apply (Hgo 1)].
      * apply (Hgo left).
    + cbn [pgs_loop]. apply IH.
Qed.

Lemma pgs_str_texts body texts : pgs_str body false = OK texts -> Forall text_ok texts.
Proof.
  unfold pgs_str. destruct body as [|c r].
  - intros H. inversion H. constructor; [now right|constructor].
  - apply pgs_loop_texts.
Qed.

(* ---------- where the entries of the new dictionary come from ---------- *)
Section S2D.
Context {V : Type} (txt : V -> str).

Lemma s2d_cons v l d : s2d txt (v :: l) d = s2d txt l (s2d_step txt d v).
Proof. reflexivity. Qed.

Lemma s2d_step_nodupk d v : nodupk d -> nodupk (s2d_step txt d v).
Proof.
  intros H. rewrite s2d_step_tk. destruct (tk (txt v)); auto using nodup_dset, nodup_ddel. constructor.
Qed.

Lemma s2d_nodupk l : forall d, nodupk d -> nodupk (s2d txt l d).
Proof. induction l as [|v l IH]; intros d H; auto. rewrite s2d_cons. apply IH. now apply s2d_step_nodupk. Qed.

Lemma s2d_get l : forall d e v, nodupk d -> dget (s2d txt l d) e = Some v ->
  (In v l /\ tk (txt v) = KSet e)
  \/ (dget d e = Some v /\ forall sv, In sv l -> effect_of (txt sv) <> Some e).
Proof.
  induction l as [|sv l IH]; intros d e v Hd H.
  - right. split; [exact H|intros sv []].
  - rewrite s2d_cons in H. destruct (IH _ e v (s2d_step_nodupk d sv Hd) H) as [[Hin Hk]|[Hg Hno]].
    + left. split; auto. now right.
    + rewrite s2d_step_tk in Hg. destruct (tk (txt sv)) as [|e0|e0|] eqn:Ek.
      * discriminate Hg.
      * rewrite dget_dset in Hg. destruct (effect_beq e0 e) eqn:Ee.
        -- apply effect_beq_eq in Ee. subst e0. inversion Hg; subst. left. split; auto. now left.
        -- right. split; auto. intros sv' [<-|Hin]; [|now apply Hno].
           rewrite effect_of_tk, Ek. intros E. inversion E; subst. now rewrite effect_beq_refl in Ee.
      * rewrite dget_ddel in Hg by exact Hd. destruct (effect_beq e0 e) eqn:Ee; [discriminate|].
        right. split; auto. intros sv' [<-|Hin]; [|now apply Hno].
        rewrite effect_of_tk, Ek. intros E. inversion E; subst. now rewrite effect_beq_refl in Ee.
      * right. split; auto. intros sv' [<-|Hin]; [|now apply Hno]. rewrite effect_of_tk, Ek. discriminate.
Qed.

(* when every text sets an effect, an entry once present stays present *)
Lemma s2d_keeps l : (forall v, In v l -> exists e, tk (txt v) = KSet e) ->
  forall d e w, dget d e = Some w -> exists w', dget (s2d txt l d) e = Some w'.
Proof.
  induction l as [|v l IH]; intros Hall d e w H; [eauto|].
  rewrite s2d_cons. destruct (Hall v (or_introl eq_refl)) as (e0 & Ek).
  assert (Hall' : forall v', In v' l -> exists e, tk (txt v') = KSet e) by (intros; apply Hall; now right).
  rewrite s2d_step_tk, Ek. destruct (effect_beq e0 e) eqn:Ee.
  - apply (IH Hall' _ e v). rewrite dget_dset, Ee. reflexivity.
  - apply (IH Hall' _ e w). rewrite dget_dset, Ee. exact H.
Qed.

Lemma s2d_sets l : (forall v, In v l -> exists e, tk (txt v) = KSet e) ->
  forall d e v, In v l -> tk (txt v) = KSet e -> exists w, dget (s2d txt l d) e = Some w.
Proof.
  induction l as [|v0 l IH]; intros Hall d e v Hin Hk; [destruct Hin|].
  assert (Hall' : forall v', In v' l -> exists e, tk (txt v') = KSet e) by (intros; apply Hall; now right).
  rewrite s2d_cons. destruct Hin as [->|Hin]; [|now apply (IH Hall' _ e v)].
  rewrite s2d_step_tk, Hk. apply (s2d_keeps l Hall' _ e v). rewrite dget_dset, effect_beq_refl. reflexivity.
Qed.
End S2D.

(* ====================================================================================== *)
(* 6. The active settings represent the dictionary                                          *)
(* ====================================================================================== *)
(* entries are parsable and filed under the effect they set *)
Definition cur_ok (cur : dict vset) : Prop :=
  nodupk cur /\ forall e i t, dget cur e = Some (i, t) -> parsable t = true /\ tk t = KSet e.
(* every active setting is the entry of its effect, and every entry is active *)
Definition Rep (cur : dict vset) (L : list setting) : Prop :=
  (forall x, In x L -> exists e i, tk (stxt x) = KSet e /\ dget cur e = Some (i, stxt x))
  /\ (forall e i t, dget cur e = Some (i, t) -> In t (map stxt L)).

Lemma KSet_inj e e' : KSet e = KSet e' -> e = e'.
Proof. intros H. now inversion H. Qed.

(* (d): the effective style of the active settings is the state the dictionary stands for *)
Theorem Rep_style cur L : cur_ok cur -> Rep cur L -> teq (style_of (map stxt L)) (as_t' cur).
Proof.
  intros [Hnd Hok] [R1 R2].
  assert (Hpars : Forall (fun t => parsable t = true) (map stxt L)).
  { apply Forall_forall. intros t Ht. apply in_map_iff in Ht as (x & <- & Hx).
    destruct (R1 x Hx) as (e & i & _ & Hg). now apply (Hok e i). }
  assert (Hall : forall v, In v (map stxt L) -> exists e, tk ((fun x : str => x) v) = KSet e).
  { intros t Ht. apply in_map_iff in Ht as (x & <- & Hx). destruct (R1 x Hx) as (e & i & Hk & _). eauto. }
  destruct (s2d_style (map stxt L) Hpars) as (Hs & _ & _).
  assert (Hn0 : nodupk (@nil (effect * str))) by constructor.
  apply teq_sym. eapply teq_trans; [|exact Hs]. intros e. unfold as_t', as_t.
  destruct (dget cur e) as [[i t]|] eqn:Ec.
  - destruct (Hok e i t Ec) as [_ Hk].
    destruct (s2d_sets (fun x : str => x) (map stxt L) Hall [] e t (R2 e i t Ec) Hk) as (w & Hw).
    rewrite Hw. destruct (s2d_get (fun x : str => x) (map stxt L) [] e w Hn0 Hw) as [[Hin Hkw]|[Hg _]]; [|discriminate Hg].
    apply in_map_iff in Hin as (x & <- & Hx). destruct (R1 x Hx) as (e' & i' & Hk' & Hg').
    rewrite Hkw in Hk'. apply KSet_inj in Hk'. subst e'. rewrite Ec in Hg'. now inversion Hg'.
  - destruct (dget (s2d (fun x : str => x) (map stxt L) []) e) as [w|] eqn:Hw; [|reflexivity].
    destruct (s2d_get (fun x : str => x) (map stxt L) [] e w Hn0 Hw) as [[Hin Hkw]|[Hg _]]; [|discriminate Hg].
    apply in_map_iff in Hin as (x & <- & Hx). destruct (R1 x Hx) as (e' & i' & Hk' & Hg').
    rewrite Hkw in Hk'. apply KSet_inj in Hk'. subst e'. rewrite Ec in Hg'. discriminate.
Qed.

Lemma in_dget {V} (d : dict V) e v : nodupk d -> In (e, v) d -> dget d e = Some v.
Proof.
  unfold nodupk. induction d as [|[e' v'] r IH]; intros Hnd Hin; [destruct Hin|].
  cbn [map fst] in Hnd. inversion Hnd as [|? ? Hn Hd]; subst. cbn [dget].
  destruct Hin as [E|Hin].
  - inversion E; subst. now rewrite effect_beq_refl.
  - destruct (effect_beq e' e) eqn:Ee; [|now apply IH].
    apply effect_beq_eq in Ee. subst e'. exfalso. apply Hn. apply in_map_iff. exists (e, v). auto.
Qed.

Lemma selected_false l x : selected (Some l) x = false <-> ~ In (stxt x) l.
Proof.
  unfold selected. split.
  - intros H Hin. assert (existsb (str_eqb (stxt x)) l = true); [|congruence].
    apply existsb_exists. exists (stxt x). split; auto. apply str_eqb_refl.
  - intros H. destruct (existsb (str_eqb (stxt x)) l) eqn:E; auto.
    apply existsb_exists in E as (t & Hin & Et). apply str_eqb_eq in Et. subst t. tauto.
Qed.

Lemma str_eqb_neq a b : str_eqb a b = false <-> a <> b.
Proof.
  split.
  - intros H E. subst. rewrite str_eqb_refl in H. discriminate.
  - intros H. destruct (str_eqb a b) eqn:E; auto. apply str_eqb_eq in E. tauto.
Qed.

Lemma rem_of_in new cur sv t : In t (rem_of new cur sv) ->
  exists e v o, effect_of (snd sv) = Some e /\ dget new e = Some v /\ fst v = fst sv
                /\ dget cur e = Some o /\ snd o <> snd sv /\ t = snd o.
Proof.
  unfold rem_of. destruct (effect_of (snd sv)) as [e|] eqn:He; [|intros []].
  destruct (dget new e) as [v|] eqn:Hg; [|intros []].
  destruct (Nat.eqb (fst v) (fst sv)) eqn:Ei; [|intros []]. apply Nat.eqb_eq in Ei.
  destruct (dget cur e) as [o|] eqn:Hc; [|intros []].
  destruct (str_eqb (snd o) (snd sv)) eqn:Es; [intros []|]. apply str_eqb_neq in Es.
  intros [<-|[]]. exists e, v, o. repeat split; auto.
Qed.

Lemma rem_of_intro new cur sv e v o : effect_of (snd sv) = Some e -> dget new e = Some v -> fst v = fst sv ->
  dget cur e = Some o -> snd o <> snd sv -> In (snd o) (rem_of new cur sv).
Proof.
  intros H1 H2 H3 H4 H5. unfold rem_of. rewrite H1. cbv iota beta. rewrite H2. cbv iota beta.
  rewrite H3, Nat.eqb_refl, H4. apply str_eqb_neq in H5. rewrite H5. now left.
Qed.

Lemma app_of_in new cur sv t : In t (app_of new cur sv) ->
  exists e v, effect_of (snd sv) = Some e /\ dget new e = Some v /\ fst v = fst sv /\ t = snd sv.
Proof.
  unfold app_of. destruct (effect_of (snd sv)) as [e|] eqn:He; [|intros []].
  destruct (dget new e) as [v|] eqn:Hg; [|intros []].
  destruct (Nat.eqb (fst v) (fst sv)) eqn:Ei; [|intros []]. apply Nat.eqb_eq in Ei.
  destruct (dget cur e) as [o|].
  - destruct (str_eqb (snd o) (snd sv)); [intros []|]. intros [<-|[]]. exists e, v. repeat split; auto.
  - intros [<-|[]]. exists e, v. repeat split; auto.
Qed.

Lemma app_of_intro new cur sv e v : effect_of (snd sv) = Some e -> dget new e = Some v -> fst v = fst sv ->
  (dget cur e = None \/ exists o, dget cur e = Some o /\ snd o <> snd sv) -> In (snd sv) (app_of new cur sv).
Proof.
  intros H1 H2 H3 H4. unfold app_of. rewrite H1. cbv iota beta. rewrite H2. cbv iota beta.
  rewrite H3, Nat.eqb_refl.
  destruct H4 as [-> | (o & -> & H5)]; [now left|]. apply str_eqb_neq in H5. rewrite H5. now left.
Qed.

Lemma nodup_fst_eq {A B} (l : list (A * B)) a b : NoDup (map fst l) -> In a l -> In b l -> fst a = fst b -> a = b.
Proof.
  induction l as [|x l IH]; intros Hnd Ha Hb E; [destruct Ha|].
  cbn [map] in Hnd. inversion Hnd as [|? ? Hn Hd]; subst.
  destruct Ha as [->|Ha], Hb as [->|Hb]; auto.
  - exfalso. apply Hn. rewrite E. now apply in_map.
  - exfalso. apply Hn. rewrite <- E. now apply in_map.
Qed.

Section Step.
Variables (cur : dict vset) (nid : nat) (texts : list str).
Hypothesis Hcur : cur_ok cur.
Hypothesis Htexts : Forall text_ok texts.
Let S := step_settings nid texts.
Let new := step_new cur nid texts.

Lemma S_nodup : NoDup (map fst S).
Proof. unfold S, step_settings. rewrite map_fst_combine. apply seq_NoDup. Qed.

Lemma S_text sv : In sv S -> text_ok (snd sv).
Proof.
  intros H. rewrite Forall_forall in Htexts. apply Htexts.
  rewrite <- (map_snd_combine texts nid). fold (step_settings nid texts). now apply in_map.
Qed.

Lemma new_get e v : dget new e = Some v ->
  (In v S /\ tk (snd v) = KSet e) \/ (dget cur e = Some v /\ forall sv, In sv S -> effect_of (snd sv) <> Some e).
Proof. apply s2d_get. apply Hcur. Qed.

(* the entry of effect e is the LAST setting of the sequence that touches e *)
Lemma new_entry e v sv : dget new e = Some v -> In sv S -> effect_of (snd sv) = Some e -> fst v = fst sv ->
  v = sv /\ tk (snd v) = KSet e.
Proof.
  intros Hg Hin He Hi. destruct (new_get e v Hg) as [[Hv Hk]|[_ Hno]].
  - split; auto. exact (nodup_fst_eq S v sv S_nodup Hv Hin Hi).
  - exfalso. exact (Hno sv Hin He).
Qed.

Theorem cur_ok_step : cur_ok new.
Proof.
  destruct Hcur as [Hnd Hok]. split; [now apply s2d_nodupk|]. intros e i t Hg.
  destruct (new_get e (i, t) Hg) as [[Hv Hk]|[Hc _]]; [|now apply (Hok e i)].
  cbn [snd] in Hk. split; auto. destruct (S_text _ Hv) as [Hp|Hz]; auto.
  cbn [snd] in Hz. subst t. rewrite tk_zero in Hk. discriminate.
Qed.

Lemma not_removed e v t : dget new e = Some v -> tk t = KSet e ->
  ((In v S /\ snd v = t) \/ (forall sv, In sv S -> effect_of (snd sv) <> Some e)) ->
  ~ In t (step_rem cur nid texts).
Proof.
  intros Hg Hk Hcase Hin. destruct Hcur as [Hnd Hok]. unfold step_rem in Hin. cbv zeta in Hin.
  fold S new in Hin. apply in_app_or in Hin as [Hin|Hin].
  - apply in_flat_map in Hin as (sv & Hsv & Hin).
    apply rem_of_in in Hin as (e' & v' & o' & He & Hg' & Hi & Hc & Hne & Et).
    destruct o' as [io to]. cbn [snd] in *. subst to.
    destruct (Hok e' io t Hc) as [_ Hk']. rewrite Hk in Hk'. apply KSet_inj in Hk'. subst e'.
    rewrite Hg in Hg'. inversion Hg'; subst v'.
    destruct Hcase as [[Hv Et]|Hno]; [|exact (Hno sv Hsv He)].
    assert (v = sv) by exact (nodup_fst_eq S v sv S_nodup Hv Hsv Hi). subst sv. congruence.
  - apply in_flat_map in Hin as ([e' [i' t']] & Hkv & Hin). unfold gone_of in Hin. cbn [fst snd] in Hin.
    destruct (dget new e') eqn:En; [destruct Hin|]. destruct Hin as [<-|[]].
    pose proof (in_dget cur e' (i', t') Hnd Hkv) as Hc.
    destruct (Hok e' i' t' Hc) as [_ Hk']. rewrite Hk in Hk'. apply KSet_inj in Hk'. subst e'. congruence.
Qed.

Theorem Rep_step L l1 l2 news : Rep cur L ->
  keep (Some (step_rem cur nid texts)) L = l1 ++ l2 ->
  map stxt news = step_app cur nid texts ->
  Rep new (l1 ++ news ++ l2).
Proof.
  intros [R1 R2] Hkeep Hnews. destruct Hcur as [Hnd Hok].
  assert (HL1 : forall x, In x (l1 ++ l2) <-> In x L /\ ~ In (stxt x) (step_rem cur nid texts)).
  { intros x. rewrite <- Hkeep, keep_in, selected_false. tauto. }
  assert (Hmem : forall x, In x (l1 ++ news ++ l2) <-> In x (l1 ++ l2) \/ In x news).
  { intros x. rewrite !in_app_iff. tauto. }
  split.
  - intros x Hx. apply Hmem in Hx as [Hx|Hx].
    + apply HL1 in Hx as [HxL Hnr]. destruct (R1 x HxL) as (e & i & Hk & Hc).
      destruct (dget new e) as [v|] eqn:En.
      * destruct (new_get e v En) as [[Hv Hkv]|[Hc' _]].
        -- destruct (str_eqb (stxt x) (snd v)) eqn:Es.
           ++ apply str_eqb_eq in Es. exists e, (fst v). split; auto. rewrite Es. now destruct v.
           ++ apply str_eqb_neq in Es. exfalso. apply Hnr. unfold step_rem. cbv zeta. fold S new.
              apply in_or_app. left. apply in_flat_map. exists v. split; auto.
              apply (rem_of_intro new cur v e v (i, stxt x)); auto. rewrite effect_of_tk, Hkv. reflexivity.
        -- exists e, i. split; auto. congruence.
      * exfalso. apply Hnr. unfold step_rem. cbv zeta. fold S new. apply in_or_app. right.
        apply in_flat_map. exists (e, (i, stxt x)). split; [now apply dget_in|].
        unfold gone_of. cbn [fst snd]. rewrite En. now left.
    + assert (Ht : In (stxt x) (step_app cur nid texts)) by (rewrite <- Hnews; now apply in_map).
      unfold step_app in Ht. fold S new in Ht. apply in_flat_map in Ht as (sv & Hsv & Ht).
      apply app_of_in in Ht as (e & v & He & Hg & Hi & Et).
      destruct (new_entry e v sv Hg Hsv He Hi) as [-> Hk]. exists e, (fst sv). rewrite Et. split; auto.
      now destruct sv.
  - intros e i t Hg. rewrite !map_app. 
    assert (Hgoal : In t (map stxt news) \/ exists x, In x (l1 ++ l2) /\ stxt x = t).
    { assert (Hold : forall io, dget cur e = Some (io, t) -> tk t = KSet e ->
                ((In (i, t) S /\ snd (i, t) = t) \/ (forall sv, In sv S -> effect_of (snd sv) <> Some e)) ->
                exists x, In x (l1 ++ l2) /\ stxt x = t).
      { intros io Hc Hk Hcase. pose proof (R2 e io t Hc) as Hin. apply in_map_iff in Hin as (x & Ex & Hx).
        exists x. split; auto. apply HL1. split; auto. rewrite Ex.
        exact (not_removed e (i, t) t Hg Hk Hcase). }
      destruct (new_get e (i, t) Hg) as [[Hv Hk]|[Hc Hno]].
      - cbn [snd] in Hk.
        assert (Happ : (dget cur e = None \/ exists o, dget cur e = Some o /\ snd o <> snd (i, t)) ->
                       In t (map stxt news)).
        { intros Hc. rewrite Hnews. unfold step_app. fold S new. apply in_flat_map. exists (i, t). split; auto.
          apply (app_of_intro new cur (i, t) e (i, t)); auto. rewrite effect_of_tk. cbn [snd]. now rewrite Hk. }
        destruct (dget cur e) as [[io to]|] eqn:Ec; [|left; apply Happ; now left].
        destruct (str_eqb to t) eqn:Es.
        + apply str_eqb_eq in Es. subst to. right. apply (Hold io); auto.
        + apply str_eqb_neq in Es. left. apply Happ. right. exists (io, to). auto.
      - right. destruct (Hok e i t Hc) as [_ Hk]. apply (Hold i); auto. }
    destruct Hgoal as [H|(x & Hx & Ex)].
    + apply in_or_app. right. apply in_or_app. now left.
    + subst t. apply in_app_or in Hx as [Hx|Hx].
      * apply in_or_app. left. now apply in_map.
      * apply in_or_app. right. apply in_or_app. right. now apply in_map.
Qed.
End Step.
