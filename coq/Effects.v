(* Effect groups and code classes: the vocabulary shared by the specification, the generated
   tables and the model.  Hand-written; the generated tables refer to these constructor names, so a
   new or renamed effect group in /repo makes the generated files fail to compile (fail closed). *)
From AS Require Import Base.

Inductive effect := BOLDNESS | ITALICS | UNDERLINE | OVERLINE | BLINKING | SWAP_BG_FG
                  | VISIBILITY | CROSSED_OUT | FONT_TYPE | SPACING | BOXING
                  | FG_COLOR | BG_COLOR | UL_COLOR.
Scheme Equality for effect.

Definition all_effects : list effect :=
  [BOLDNESS; ITALICS; UNDERLINE; OVERLINE; BLINKING; SWAP_BG_FG; VISIBILITY; CROSSED_OUT;
   FONT_TYPE; SPACING; BOXING; FG_COLOR; BG_COLOR; UL_COLOR].

Lemma all_effects_complete e : In e all_effects.
Proof. destruct e; simpl; tauto. Qed.

Lemma effect_beq_refl e : effect_beq e e = true. Proof. destruct e; reflexivity. Qed.
Lemma effect_beq_eq e e' : effect_beq e e' = true -> e = e'. Proof. apply internal_effect_dec_bl. Qed.
Lemma effect_beq_sym e e' : effect_beq e e' = effect_beq e' e.
Proof.
  destruct (effect_beq e e') eqn:E.
  - apply effect_beq_eq in E; subst; now rewrite effect_beq_refl.
  - destruct (effect_beq e' e) eqn:E'; auto. apply effect_beq_eq in E'; subst. now rewrite effect_beq_refl in E.
Qed.
Lemma effect_beq_neq e e' : effect_beq e e' = false -> e <> e'.
Proof. intros H ->. now rewrite effect_beq_refl in H. Qed.

(* what the repository's table says about a code (AnsiParamEffect x AnsiParamEffectFn) *)
Inductive geffect := GReset | GEff (e : effect).
Inductive gfn := RESET_ALL | APPLY_SETTING | CLEAR_SETTING.

(* how a conforming terminal classifies one SGR code *)
Inductive cls := CReset | CSet (e : effect) | CClr (e : effect) | CIntro (e : effect) | CUnknown.

(* helper constructors of _AnsiControlFn / AnsiFormat, as they appear in the AnsiFormat member table *)
Inductive helper := H_rgb | H_fg_rgb | H_bg_rgb | H_ul_rgb | H_dul_rgb
                  | H_color256 | H_fg_color256 | H_bg_color256 | H_ul_color256 | H_dul_color256.
Inductive fmt_expr := FParam (code : N) | FAlias (name : String.string) | FCall (h : helper) (args : list Z).
