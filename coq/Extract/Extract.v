(* Extraction of the executable model and specification.  ExtrOcamlBasic only: bool, option,
   unit, list, prod map to OCaml's own; nat, positive, N, Z stay inductive. *)
From AS.Model Require Import Entry.
Require Extraction.
Require Import ExtrOcamlBasic.
Extraction "../build/ocaml/model.ml" run_request.
