from common import *
from common import _AnsiSettingPoint
import re, itertools
bad={}
def rec(k,x): bad.setdefault(k,[]).append(x)
S=lambda f: [str(x) for x in _AnsiSettingPoint._scrub_ansi_settings(f)]
# C14: all names x spellings
n=0
for name,mem in AnsiFormat.__members__.items():
    base=S(mem)
    for sp in [name, name.lower(), name.title(), name.lower().replace('_',' '), name.lower().replace('_','-'), name.swapcase()]:
        n+=1
        try:
            if S(sp)!=base: rec('C14 name',(name,sp,S(sp),base))
        except Exception as e: rec('C14 name raise',(name,sp,str(e)))
    codes=[int(x) for t in base for x in t.split(';')]
    try:
        if S(codes)!=base: rec('C14 ints',(name,codes,S(codes),base))
        if S(';'.join(map(str,codes)))!=base: rec('C14 str',(name,codes))
        if S([[c] for c in codes])!=base: rec('C14 nested',(name,codes,S([[c] for c in codes])))
        for t in base:
            if S('['+t)!=[t]: rec('C14 verbatim',(name,t))
            a=AnsiSetting(t)
            if not (a.valid and a.parsable): rec('C15 generated not parsable',(name,t))
    except Exception as e: rec('C14 raise',(name,str(e)))
print('C14 cases',n)
# C15 classifier exhaustive small
from ansi_string.ansi_param import AnsiParam
known=set(p.value for p in AnsiParam)
def is_group(t):
    if not re.fullmatch(r'[0-9]+(;[0-9]+)*',t): return False
    c=[int(x) for x in t.split(';')]
    if any(x>255 for x in c): return False
    if c[0] in (38,48,58):
        return (len(c)==3 and c[1]==5) or (len(c)==5 and c[1]==2)
    return len(c)==1 and c[0] in known and c[0]!=0
alpha='0135 8;+m'
cnt=0
for L in range(1,5):
    for tup in itertools.product(alpha,repeat=L):
        t=''.join(tup); cnt+=1
        a=AnsiSetting(t)
        v=not any(0x40<=ord(ch)<=0x7e for ch in t)
        if a.valid!=v: rec('C15 valid',(t,a.valid))
        if a.parsable!=(v and is_group(t)): rec('C15 parsable',(t,a.parsable,is_group(t)))
print('C15 cases',cnt)
# C16
r=random.Random(13)
for it in range(5000):
    s=rnd_value(r,alpha='abAB.')
    pat=r.choice(['a','ab','.','a.','A','[ab]+','a*','b?','(a)(b)','.b'])
    rx=r.random()<0.5; mc=r.random()<0.5; cnt_=r.choice([-1,0,1,2]); f=r.choice(['red','bold'])
    try:
        c1=s.copy(); c1.format_matching(pat,f,regex=rx,match_case=mc,count=cnt_)
        c2=s.copy()
        ms=list(re.finditer(pat if rx else re.escape(pat), s.base_str, 0 if mc else re.IGNORECASE))
        if cnt_>=0: ms=ms[:cnt_]
        for m in ms: c2.apply_formatting(f,m.start(),m.end())
        if styles(c1)!=styles(c2) or c1.base_str!=c2.base_str: rec('C16 format',(repr(str(s)),pat,rx,mc,cnt_))
        c1=s.copy(); c1.unformat_matching(pat,regex=rx,match_case=mc,count=cnt_)
        c2=s.copy()
        for m in ms: c2.remove_formatting(None,m.start(),m.end())
        if styles(c1)!=styles(c2): rec('C16 unformat',(repr(str(s)),pat,rx,mc,cnt_,styles(c1),styles(c2)))
    except re.error: pass
    except Exception as e: rec('C16 raise '+type(e).__name__,(repr(str(s)),pat,rx,mc,cnt_,str(e)))
# C19 exhaustive
alpha=['\x1b','[','1',';','m','J','a']
cnt=0
for L in range(0,6):
    for tup in itertools.product(alpha,repeat=L):
        w=''.join(tup); cnt+=1
        for ae,acc in [(True,None),(False,None),(False,'m')]:
            p=ParsedAnsiControlSequenceString(w,ae,acc)
            try:
                if p.formatted_str!=w or str(p)!=w: rec('C19 lossless',(w,ae,acc,p.formatted_str))
            except Exception as e: rec('C19 raise',(w,str(e)))
            pat=r'\x1b\[([^\x40-\x7e]*)([\x40-\x7e]?)'
            # independent: scan
            out=''; i=0; seqs=0
            while i<len(w):
                m=re.match(pat,w[i:],re.S) if w.startswith('\x1b[',i) else None
                if m:
                    term=m.group(2)
                    okk=(term or ae) and (acc is None or term in acc)
                    if okk: seqs+=1
                    else: out+=m.group(0)
                    i+=m.end()
                else: out+=w[i]; i+=1
            if p.unformatted_str!=out or sum(len(v) for v in p.sequences.values())!=seqs: rec('C19 unformatted',(w,ae,acc,p.unformatted_str,out))
print('C19 cases',cnt)
for f_ in [cursor_up_str,cursor_down_str,cursor_forward_str,cursor_backward_str,cursor_next_line_str,cursor_previous_line_str,cursor_horizontal_absolute_str,erase_in_display_str,erase_in_line_str,scroll_up_str,scroll_down_str]:
    for nn in [-5,0,1,7,1000,10**9]:
        w=f_(nn); p=ParsedAnsiControlSequenceString(w)
        if p.unformatted_str!='' or sum(len(v) for v in p.sequences.values())!=1 or p.sequences[0][0].sequence!=str(nn): rec('C19 helper',(f_.__name__,nn,w))
for k,v in sorted(bad.items()):
    print(k,len(v)); v.sort(key=lambda x: len(str(x)))
    for x in v[:4]: print('   ',str(x)[:300])
