# throwaway reference SGR terminal
import re
from common import *
APPLY={}; CLEAR={}
for p in AnsiParam:
    if p.effect_fn==AnsiParamEffectFn.APPLY_SETTING: APPLY[p.value]=p.effect_type.name
    elif p.effect_fn==AnsiParamEffectFn.CLEAR_SETTING: CLEAR[p.value]=p.effect_type.name
def sgr(state, params):
    """params: list of ints"""
    st=dict(state); i=0
    if not params: params=[0]
    while i<len(params):
        c=params[i]
        if c==0: st={}; i+=1
        elif c in (38,48,58):
            if i+2<len(params)+0 and params[i+1]==5 and i+2<len(params):
                st[APPLY[c]]=tuple(params[i:i+3]); i+=3
            elif i+1<len(params) and params[i+1]==2 and i+4<len(params):
                st[APPLY[c]]=tuple(params[i:i+5]); i+=5
            else:
                i+=1
        elif c in APPLY: st[APPLY[c]]=(c,); i+=1
        elif c in CLEAR: st.pop(CLEAR[c],None); i+=1
        else: i+=1
    return st
def run(out, state=None):
    state=dict(state or {}); disp=[]
    i=0
    while i<len(out):
        m=re.match(r'\x1b\[([0-9;]*)m', out[i:])
        if m:
            ps=[int(x) if x else 0 for x in m.group(1).split(';')] if m.group(1) else [0]
            state=sgr(state, ps); i+=m.end()
        else:
            disp.append((out[i], dict(state))); i+=1
    return disp, state
def style_of(texts):
    ps=[]
    for t in texts: ps+= [int(x) if x else 0 for x in t.split(';')]
    return sgr({}, ps) if ps else {}
