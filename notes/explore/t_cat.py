from common import *
r=random.Random(4)
bad={}
def rec(k,x): bad.setdefault(k,[]).append(x)
def snap(s): return (s.base_str, styles(s), str(s))
def conf_order(l):
    # canonical: per effect subsequence
    d={}
    for t in l:
        p=AnsiSetting(t).get_initial_param()
        d.setdefault(p.effect_type.name if p else '?',[]).append(t)
    return d
for it in range(30000):
    try:
        a=rnd_value(r); b=rnd_value(r) if r.random()<0.8 else a; sa=snap(a); sb=snap(b)
    except ValueError as e:
        continue
    try:
        c=a+b; sc=snap(c)
    except Exception as e:
        rec('cat-raise '+type(e).__name__, (sa,sb)); continue
    try:
        if snap(b)!=sb: rec('cat-mutates-b',(sa,sb,snap(b)))
    except Exception as e:
        rec('b-corrupt '+type(e).__name__,(sa[2],sb[2],list(a._fmts), list(b._fmts)))
        continue
    if snap(a)!=sa: rec('cat-mutates-a',(sa,sb))
    if sc[0]!=sa[0]+sb[0]: rec('cat-text',(sa,sb))
    exp=sa[1]+sb[1]
    if sc[1]!=exp:
        if [conf_order(x) for x in sc[1]]!=[conf_order(x) for x in exp]:
            rec('cat-style',(sa[2],sb[2],list(a._fmts),list(b._fmts),exp,sc[1]))
        else:
            rec('cat-style-order-only',(sa[2],sb[2],exp,sc[1]))
    # split/rejoin
    if len(a):
        k=r.randint(0,len(a))
        try:
            d=a[:k]+a[k:]
            if styles(d)!=sa[1]: rec('split-rejoin',(sa,k,styles(d)))
        except Exception as e:
            rec('split-rejoin-raise '+type(e).__name__,(sa,k))
for k,v in bad.items():
    print(k,len(v)); v.sort(key=lambda x: len(str(x)))
    for x in v[:2]: print('   ',str(x)[:500])
