from common import *
from common import _AnsiSettingPoint
import traceback
SEED=int(os.environ.get('SEED','1')); N=int(os.environ.get('N','20000'))
r=random.Random(SEED)
PAL=['red','blue','bold','faint','no_bold_faint','italic','31','fg_default','rgb(1,2,3)','[38;5;7','bg_green','ul_red']
def texts(f): return [str(x) for x in _AnsiSettingPoint._scrub_ansi_settings(f)]
def norm(n,a,b):
    a=0 if a is None else a; b=n if b is None else b
    if a<0: a=max(0,n+a)
    if b<0: b=max(0,n+b)
    return min(a,n),min(b,n)
class Ref:
    def __init__(s,t,sty): s.t=t; s.sty=[list(x) for x in sty]
    def copy(s): return Ref(s.t,s.sty)
bad={}
def rec(k,h): 
    bad.setdefault(k,[]).append(h)
def check(v,ref,hist,what):
    try:
        ok = v.base_str==ref.t and styles(v)==ref.sty
        if not ok: rec(what+':mismatch',(list(hist), v.base_str, styles(v), ref.t, ref.sty)); return False
        u=v+'x'
        if styles(u)[-1:]!=[[]] or styles(u)[:-1]!=ref.sty: rec(what+':open',list(hist)); return False
        str(v)
    except Exception as e:
        rec(what+':corrupt '+type(e).__name__,list(hist)); return False
    return True
for it in range(N):
    pool=[]; refs=[]; hist=[]
    for _ in range(3):
        t=rnd_text(r,alpha='ab ,'); pool.append(A(t)); refs.append(Ref(t,[[] for _ in t])); hist.append(('new',t))
    ok=True
    for step in range(r.randint(1,10)):
        i=r.randrange(len(pool)); v=pool[i]; ref=refs[i]; n=len(ref.t)
        a=r.choice([None]+list(range(-n-1,n+2))); b=r.choice([None]+list(range(-n-1,n+2)))
        k=r.random()
        try:
            if k<0.25:
                f=r.choice(PAL); top=r.random()<0.6
                op=('apply',i,f,a,b,top)
                v.apply_formatting(f,0 if a is None else a,b,top)
                x,y=norm(n,a,b); new=texts(f)
                pre=[list(q) for q in ref.sty]
                for j in range(x,y): ref.sty[j]= ref.sty[j]+new if top else new+ref.sty[j]
                what='apply'
                if top:
                    # order within range beyond first char: only require old order preserved and new present
                    cur=styles(v)
                    for j in range(x,y):
                        if j==x: continue
                        c=list(cur[j]) if j<len(cur) else None
                        if c is None: continue
                        rest=list(c)
                        try:
                            for t_ in new: rest.remove(t_)   # remove one occurrence each (last? any)
                        except ValueError: continue
                        # accept if removing new (some occurrence) yields old: try removing last occurrences
                        c2=list(c)
                        for t_ in reversed(new):
                            idx_=len(c2)-1-c2[::-1].index(t_); del c2[idx_]
                        c3=list(c)
                        for t_ in new: c3.remove(t_)
                        if c2==pre[j] or c3==pre[j] or sorted(c)==sorted(pre[j]+new): ref.sty[j]=c
            elif k<0.4:
                present=[t for l in ref.sty for t in l]
                f=r.choice([None]+PAL+present)
                op=('remove',i,f,a,b)
                v.remove_formatting(f,0 if a is None else a,b)
                x,y=norm(n,a,b); rm=None if f is None else texts(f)
                for j in range(x,y): ref.sty[j]=[t for t in ref.sty[j] if not (rm is None or t in rm)]
                what='remove'
            elif k<0.55:
                op=('slice',i,a,b); w=v[a:b]; x,y=norm(n,a,b)
                pool.append(w); refs.append(Ref(ref.t[a:b], ref.sty[a:b])); what='slice'; i=len(pool)-1
            elif k<0.7:
                j=r.randrange(len(pool)); op=('cat',i,j)
                if r.random()<0.5:
                    w=v+pool[j]; pool.append(w); refs.append(Ref(ref.t+refs[j].t, ref.sty+refs[j].sty)); i=len(pool)-1
                else:
                    nr=Ref(ref.t+refs[j].t, ref.sty+refs[j].sty); v+=pool[j]; refs[i]=nr; op=('icat',i,j)
                what='cat'
            elif k<0.78:
                w_=n+r.randint(0,4); fill=r.choice('*-'); ext=r.random()<0.6; m=r.choice(['ljust','rjust','center'])
                op=(m,i,w_,fill,ext); num=max(0,w_-n)
                L,R={'ljust':(0,num),'rjust':(num,0),'center':(num//2,num-num//2)}[m]
                getattr(v,m)(w_,fill,inplace=True,extend_formatting=ext)
                first=ref.sty[0] if n else []; last=ref.sty[-1] if n else []
                refs[i]=Ref(fill*L+ref.t+fill*R, [list(first) if ext else [] for _ in range(L)]+ref.sty+[list(last) if ext else [] for _ in range(R)])
                what=m
            elif k<0.88:
                old=r.choice(['a','b','ab',',','a ']); cnt=r.choice([-1,-1,1,2])
                if r.random()<0.5:
                    new=r.choice(['','x','xy','b']); newt=new; newsty=None
                else:
                    j=r.randrange(len(pool)); new=pool[j]; newt=refs[j].t; newsty=refs[j].sty
                op=('replace',i,old,newt,cnt, newsty is not None)
                w=v.replace(old,new,cnt)
                t=ref.t; et=''; es=[]; p=0; c=cnt
                while p<n:
                    if t.startswith(old,p) and c!=0:
                        et+=newt; es+= ([list(ref.sty[p]) for _ in newt] if newsty is None else [list(q) for q in newsty]); p+=len(old); c-=1
                    else: et+=t[p]; es.append(ref.sty[p]); p+=1
                pool.append(w); refs.append(Ref(et,es)); i=len(pool)-1; what='replace'
            elif k<0.94:
                sep=r.choice([',','a','ab',None]); mx=r.choice([-1,1]); rs=r.random()<0.5
                op=('rsplit' if rs else 'split',i,sep,mx)
                ps=(v.rsplit if rs else v.split)(sep,mx); ex=(ref.t.rsplit if rs else ref.t.split)(sep,mx)
                if [p_.base_str for p_ in ps]!=ex: rec('split:text',list(hist)+[op]); break
                cur=0; what='split'
                for p_,e in zip(ps,ex):
                    o=ref.t.find(e,cur) if sep is None else cur
                    if styles(p_)!=ref.sty[o:o+len(e)]: rec('split:style',list(hist)+[op]); ok=False; break
                    cur=o+len(e)+(0 if sep is None else len(sep))
                hist.append(op)
                if not ok: break
                continue
            else:
                m=r.randint(0,n+2); nt=rnd_text(r,m,'ab ')
                op=('assign',i,nt); v.assign_str(nt)
                last=ref.sty[-1] if n else []
                refs[i]=Ref(nt, ref.sty[:m]+[list(last) for _ in range(m-n)]); what='assign'
        except Exception as e:
            hist.append(op); rec(op[0]+':raise '+type(e).__name__+' '+str(e)[:40],list(hist)); ok=False; break
        hist.append(op)
        # check all pool values (aliasing / arg mutation)
        for q in range(len(pool)):
            if not check(pool[q],refs[q],hist,what if q==i else what+'->other'): ok=False; break
        if not ok: break
print('seed',SEED,'N',N)
for k,v in sorted(bad.items()):
    v.sort(key=lambda x: len(str(x)))
    print(k,len(v)); print('    ',str(v[0])[:700])
