from common import *
from term import *
r=random.Random(10)
bad={}
def rec(k,x): bad.setdefault(k,[]).append(x)
CODES=[0,1,2,22,3,23,4,21,24,31,34,39,38,48,58,5,2,7,200,10,11,99,255,256,300,41,49,59,90,107]
def rnd_seq(r):
    n=r.randint(0,6)
    parts=[]
    for _ in range(n):
        k=r.random()
        if k<0.15: parts.append('')
        elif k<0.3: parts+= [str(r.choice([38,48,58])),'5',str(r.choice([0,7,255,256]))]
        elif k<0.4: parts+= [str(r.choice([38,48,58])),'2',str(r.randint(0,255)),str(r.randint(0,255)),str(r.choice([0,255,300]))]
        else: parts.append(str(r.choice(CODES)))
    return ';'.join(parts)
for it in range(40000):
    w=''; 
    for _ in range(r.randint(0,5)):
        k=r.random()
        if k<0.5: w+=r.choice('ab ')
        elif k<0.9: w+='\x1b['+rnd_seq(r)+'m'
        elif k<0.95: w+='\x1b['+r.choice(['2J','1;2H','?25h'])
        else: w+=r.choice(['\x1b','\x1b[','[','m'])
    try:
        s=A(w)
    except Exception as e:
        rec('raise '+type(e).__name__,(repr(w),str(e))); continue
    disp,_=run(w)
    txt=''.join(c for c,_ in disp)
    if s.base_str!=txt: rec('text',(repr(w),s.base_str,txt)); continue
    try: sty=styles(s)
    except Exception as e: rec('corrupt',repr(w)); continue
    for i,(c,stt) in enumerate(disp):
        if style_of(sty[i])!=stt: rec('style',(repr(w),i,sty[i],stt)); break
    # round trip
    try:
        o=str(s); s2=A(o)
        if s2.base_str!=s.base_str or [style_of(x) for x in styles(s2)]!=[style_of(x) for x in sty]: rec('roundtrip',(repr(w),repr(o)))
        o2=str(s2)
        if o2!=o: rec('not-fixed-point',(repr(w),repr(o),repr(o2)))
        if not s.is_formatting_parsable(): rec('unparsable-after-parse',(repr(w),sty))
    except Exception as e: rec('rt-raise '+type(e).__name__,(repr(w),str(e)))
for k,v in sorted(bad.items()):
    print(k,len(v)); v.sort(key=lambda x: len(str(x)))
    for x in v[:3]: print('   ',str(x)[:300])
