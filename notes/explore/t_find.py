from common import *
from common import _AnsiSettingPoint
r=random.Random(8)
bad={}
def rec(k,x): bad.setdefault(k,[]).append(x)
for it in range(30000):
    try:
        s=rnd_value(r); sty=styles(s)
    except ValueError as e:
        continue
    n=len(s)
    st=r.randint(-n-2,n+2); en=r.choice([None]+list(range(-n-2,n+3)))
    present=[t for l in sty for t in l]
    k=r.randint(0,2)
    f=[r.choice(present+PALETTE[:3]) for _ in range(k)] if present else [r.choice(PALETTE) for _ in range(k)]
    rev=r.random()<0.4
    try:
        fs,fe=s.find_settings(f,st,en,rev)
    except Exception as e:
        rec('raise '+type(e).__name__,(repr(str(s)),f,st,en,rev,str(e))); continue
    a=0 if st is None else (max(0,n+st) if st<0 else st)
    b=n if en is None else (max(0,n+en) if en<0 else en)
    want=[str(x) for x in _AnsiSettingPoint._scrub_ansi_settings(f)]
    has=lambda i: 0<=i<n and all(w in sty[i] for w in want)
    if b<a:
        if (fs,fe)!=(None,None): rec('end<start',(repr(str(s)),f,st,en,rev,fs,fe))
        continue
    if not want:
        if (fs,fe)!=(a,b): rec('empty',(repr(str(s)),f,st,en,rev,fs,fe,a,b))
        continue
    pos=[i for i in range(a,min(b,n)) if has(i)]
    if fs is None:
        if pos: rec('missed',(repr(str(s)),list(s._fmts),f,st,en,rev,fs,fe,pos))
        if fe is not None: rec('none-end',())
        continue
    if not has(fs) or not (a<=fs<b): rec('bad-start rev=%s'%rev,(repr(str(s)),list(s._fmts),f,st,en,fs,fe,pos)); continue
    if not rev and fs!=pos[0]: rec('not-first',(repr(str(s)),list(s._fmts),f,st,en,fs,fe,pos)); continue
    lim = fe if fe is not None else b
    if not all(has(i) for i in range(fs,min(lim,n))): rec('gap',(repr(str(s)),f,st,en,rev,fs,fe,pos))
    if fe is not None:
        if not (fs<fe<=b): rec('end-out-of-range',(repr(str(s)),f,st,en,rev,fs,fe,pos))
        elif fe<n and has(fe): rec('end-still-has',(repr(str(s)),f,st,en,rev,fs,fe,pos))
    else:
        pass
for k,v in sorted(bad.items()):
    print(k,len(v)); v.sort(key=lambda x: len(str(x)))
    for x in v[:2]: print('   ',str(x)[:400])
