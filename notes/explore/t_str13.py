from common import *
import inspect
r=random.Random(9)
bad={}
def rec(k,x): bad.setdefault(k,[]).append(x)
def obs(x):
    if isinstance(x,(list,tuple)): return [obs(y) for y in x]
    if isinstance(x,AnsiStr): return ('S',x.base_str, styles(x), str(x), str.__str__(x)==str(x))
    if isinstance(x,A): return ('S',x.base_str, styles(x), str(x), True)
    return x
common=[m for m in dir(AnsiStr) if not m.startswith('_') and hasattr(A,m) and callable(getattr(A,m))]
print(sorted(common))
print('only AnsiString:', sorted(m for m in dir(A) if not m.startswith('_') and not hasattr(AnsiStr,m)))
# constructor forms
for src in [ 'ab', A('ab','red'), AnsiStr('ab','red'), '\x1b[1mab\x1b[m']:
    for st in [(), ('bold',), ('blue',[4])]:
        x=A(src,*st); y=AnsiStr(src,*st)
        if obs(x)!=obs(y): rec('ctor',(repr(src),st,obs(x),obs(y)))
ARGS={'apply_formatting':[('red',),('bold',1,3),('blue',0,None,False)],'remove_formatting':[(),('red',),('red',1,2)],
 'center':[(7,),(8,'*')],'ljust':[(7,)],'rjust':[(7,'0')],'zfill':[(6,)],'capitalize':[()],'casefold':[()],'lower':[()],'upper':[()],'swapcase':[()],'title':[()],
 'strip':[(),('a',)],'lstrip':[()],'rstrip':[()],'clip':[(1,3),(None,-1)],'partition':[('b',),('z',)],'rpartition':[('b',)],'split':[(),('b',),('b',1)],'rsplit':[('b',1)],
 'splitlines':[()],'replace':[('b','xy'),('b',A('Q','blue'))],'removeprefix':[('a',)],'removesuffix':[('b',)],'expandtabs':[(2,)],'simplify':[()],'clear_formatting':[()],
 'format_matching':[('b','red')],'unformat_matching':[('b',)],'find_settings':[('red',)],'settings_at':[(1,)],'count':[('b',)],'find':[('b',)],'to_str':[('>6:bold',),(None,False,True,False)],
 'ansi_settings_at':[(0,)],'endswith':[('b',)],'encode':[()],'is_formatting_valid':[()],'is_formatting_parsable':[()],'is_optimizable':[()],'index':[('b',)],'rfind':[('b',)],'rindex':[('b',)],
 'join':[]}
for it in range(300):
    try: v=rnd_value(r,alpha='ab \t')
    except ValueError: continue
    w=AnsiStr(v)
    if obs(v)!=obs(w): rec('conv',(obs(v),obs(w)))
    for m in common:
        for args in ARGS.get(m,[()] if m.startswith('is') else []):
            try:
                c=v.copy(); rx=getattr(c,m)(*args)
                if rx is None: rx=c    # in-place methods
                ex=None
            except Exception as e: rx=None; ex=type(e).__name__
            try:
                ry=getattr(w,m)(*args); ey=None
            except Exception as e: ry=None; ey=type(e).__name__
            ox=obs(rx); oy=obs(ry)
            if m in('ansi_settings_at',): ox=[str(q) for q in rx or []]; oy=[str(q) for q in ry or []]
            if ex!=ey or ox!=oy: rec('method '+m,(obs(v),args,ex,ey,ox,oy))
            if ry is not None and isinstance(rx,A) and not isinstance(ry,AnsiStr): rec('type '+m,type(ry))
for k,v in sorted(bad.items()):
    print(k,len(v)); v.sort(key=lambda x: len(str(x)))
    for x in v[:1]: print('   ',str(x)[:600])
