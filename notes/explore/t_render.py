from common import *
from term import *
r=random.Random(2)
bad={}
N=0
for it in range(6000):
    try:
        s=rnd_value(r); sty=styles(s)
    except ValueError as e:
        continue
    for opt in (True,False):
      for rs in (True,False):
        for re_ in (True,False):
            out=s.to_str(optimize=opt,reset_start=rs,reset_end=re_)
            init={} if not rs else {'ITALICS':(3,),'FG_COLOR':(35,)}
            disp,final=run(out, init)
            N+=1
            exp=[(c,style_of(t)) for c,t in zip(s.base_str, sty)]
            if [c for c,_ in disp]!=[c for c,_ in exp]: k='text'
            elif disp!=exp: k='style rs=%s opt=%s'%(rs,opt)
            elif rs and not out.startswith('\x1b[0') and not out.startswith('\x1b[m'): k='rs-nostart'
            elif re_ and final and '\x1b[' in out: k='end-not-default rs=%s'%rs
            else: continue
            bad.setdefault(k,[]).append((repr(out), sty, opt,rs,re_))
print(N)
for k,v in bad.items():
    print(k,len(v)); v.sort(key=lambda x: len(str(x)))
    for x in v[:2]: print('   ',x)
