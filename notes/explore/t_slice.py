from common import *
r=random.Random(3)
bad={}
def rec(k,x): bad.setdefault(k,[]).append(x)
for it in range(30000):
    try:
        s=rnd_value(r); sty=styles(s); snap=(s.base_str, sty, str(s))
    except ValueError as e:
        continue
    n=len(s)
    a=r.choice([None]+list(range(-n-2,n+3))); b=r.choice([None]+list(range(-n-2,n+3)))
    try:
        t=s[a:b]; tsty=styles(t)
    except Exception as e:
        rec('slice-raise '+type(e).__name__, (repr(str(s)),a,b)); continue
    if t.base_str!=s.base_str[a:b]: rec('slice-text',(repr(str(s)),a,b)); continue
    if tsty!=sty[a:b]: rec('slice-style',(repr(str(s)),a,b,sty,tsty)); continue
    # closed: t + 'x' => x has no style
    try:
        u=t+'x'
        if styles(u)[-1]!=[]: rec('slice-open',(repr(str(s)),list(s._fmts.keys()),a,b,sty, styles(u)))
        if styles(u)[:-1]!=tsty: rec('slice-cat-changes',(repr(str(s)),a,b))
    except Exception as e:
        rec('slice+x raise '+type(e).__name__, (repr(str(s)),a,b))
    # source unchanged
    try:
        if (s.base_str, styles(s), str(s))!=snap: rec('slice-mutates-src',(snap,a,b))
    except Exception as e:
        rec('src-corrupt-after-slice '+type(e).__name__, (snap,a,b))
    # mutate slice -> source unchanged
    try:
        t.apply_formatting('bg_red'); t.remove_formatting('bg_red')
        t2 = t + 'y'
        if (s.base_str, styles(s), str(s))!=snap: rec('slice-aliasing',(snap,a,b))
    except Exception as e:
        rec('alias-raise '+type(e).__name__, (snap,a,b))
    # int index
    if n:
        i=r.randint(-n,n-1)
        try:
            c=s[i]
            if c.base_str!=s.base_str[i] or styles(c)!=[sty[i]]: rec('int-index',(repr(str(s)),i,sty[i],styles(c)))
        except Exception as e:
            rec('int-raise '+type(e).__name__, (snap,i))
for k,v in bad.items():
    print(k,len(v)); v.sort(key=lambda x: len(str(x)))
    for x in v[:2]: print('   ',str(x)[:400])
