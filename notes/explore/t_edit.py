from common import *
r=random.Random(7)
bad={}
def rec(k,x): bad.setdefault(k,[]).append(x)
import signal
def handler(*a): raise TimeoutError()
signal.signal(signal.SIGALRM, handler)
for it in range(30000):
    try:
        s=rnd_value(r, alpha='ab,\t'); sty=styles(s)
    except ValueError as e:
        rec('gen',str(e)); continue
    t=s.base_str; n=len(t)
    which=r.choice(['split','rsplit','partition','rpartition','strip','lstrip','rstrip','removeprefix','removesuffix','replace','splitlines','expandtabs','assign'])
    sep=r.choice(['a','b','ab',',',',,','ba','bb','aa',' ','']) 
    try:
        signal.alarm(2)
        if which in ('split','rsplit'):
            sp = r.choice([sep, None]); mx=r.choice([-1,-1,0,1,2])
            if sp=='': continue
            pieces=getattr(s,which)(sp,mx); exp=getattr(t,which)(sp,mx)
            if [p.base_str for p in pieces]!=exp: rec(which+'-text',(t,sp,mx)); continue
            # true offsets
            offs=[]
            if sp is None:
                pos=0
                # compute via re-scan
                import re
                cur=0
                for e in exp:
                    k=t.find(e,cur); offs.append(k); cur=k+len(e)
            else:
                if which=='split' or mx<0:
                    cur=0
                    for e in exp: offs.append(cur); cur+=len(e)+len(sp)
                else:
                    cur=0
                    for e in exp: offs.append(cur); cur+=len(e)+len(sp)
            for p,o,e in zip(pieces,offs,exp):
                if styles(p)!=sty[o:o+len(e)]: rec(which+'-style',(repr(str(s)),sp,mx,exp)); break
        elif which in ('partition','rpartition'):
            if sep=='': continue
            ps=getattr(s,which)(sep); exp=getattr(t,which)(sep)
            if which=='rpartition' and sep not in t: exp=(t,'','')
            if tuple(p.base_str for p in ps)!=tuple(exp): rec(which+'-text',(t,sep)); continue
            o=0
            for p,e in zip(ps,exp):
                if styles(p)!=sty[o:o+len(e)]: rec(which+'-style',(repr(str(s)),sep)); break
                o+=len(e)
        elif which in ('strip','lstrip','rstrip'):
            ch=r.choice([None,'a','ab',' ,',''])
            p=getattr(s,which)(ch); e=getattr(t,which)(ch if ch is not None else ' \t\n\r\v\f')
            if p.base_str!=e: rec(which+'-text',(t,ch)); continue
            o=len(t)-len(t.lstrip(ch if ch is not None else ' \t\n\r\v\f')) if which!='rstrip' else 0
            if styles(p)!=sty[o:o+len(e)]: rec(which+'-style',(repr(str(s)),ch))
        elif which in ('removeprefix','removesuffix'):
            p=getattr(s,which)(sep); e=getattr(t,which)(sep)
            if p.base_str!=e: rec(which+'-text',(t,sep)); continue
            o=len(sep) if which=='removeprefix' and t.startswith(sep) else 0
            if styles(p)!=sty[o:o+len(e)]: rec(which+'-style',(repr(str(s)),sep))
        elif which=='replace':
            new=r.choice(['','x','xy','a','ab', A('+','red'), A('pq','bold'), AnsiStr('z','blue')])
            cnt=r.choice([-1,-1,0,1,2])
            nt = new if isinstance(new,str) and not isinstance(new,AnsiStr) else new.base_str
            if sep=='':
                continue
            p=s.replace(sep,new,cnt); e=t.replace(sep,nt,cnt)
            if p.base_str!=e: rec('replace-text',(t,sep,nt,cnt,p.base_str,e)); continue
            # expected styles
            exp=[]; i=0; c=cnt
            while i<n:
                if t.startswith(sep,i) and c!=0:
                    if isinstance(new,str) and not isinstance(new,AnsiStr): exp+= [sty[i]]*len(new)
                    else: exp+=styles(new)
                    i+=len(sep); c-=1
                else:
                    exp.append(sty[i]); i+=1
            if styles(p)!=exp: rec('replace-style '+type(new).__name__,(repr(str(s)),sep,repr(str(new)),cnt,exp,styles(p)))
        elif which=='splitlines':
            s2=A(t.replace(',','\n').replace('\t','\r')); 
            for (f,a_,b_) in [('red',0,2),('bold',1,None)]: s2.apply_formatting(f,a_,b_)
            ke=r.random()<0.5
            ps=s2.splitlines(ke); exp=s2.base_str.splitlines(ke)
            if [p.base_str for p in ps]!=exp: rec('splitlines-text',(s2.base_str,ke))
        elif which=='assign':
            m=r.randint(0,n+3); newt=rnd_text(r,m)
            c=s.copy(); c.assign_str(newt)
            last=sty[-1] if n else []
            exp=sty[:m]+[last]*(m-n)
            if c.base_str!=newt or styles(c)!=exp: rec('assign-style',(repr(str(s)),newt,exp,styles(c)))
            u=c+'x'
            if styles(u)[-1]!=[]: rec('assign-open',(repr(str(s)),newt))
    except TimeoutError:
        rec(which+'-HANG',(t,sep))
    except Exception as e:
        rec(which+'-raise '+type(e).__name__,(repr(str(s)),sep,str(e)))
    finally:
        signal.alarm(0)
for k,v in sorted(bad.items()):
    print(k,len(v)); 
    if k=='gen': continue
    v.sort(key=lambda x: len(str(x)))
    for x in v[:2]: print('   ',str(x)[:400])
