from common import *
from common import _AnsiSettingPoint
# explore apply_formatting against per-char spec
r=random.Random(1)
bad={}
for it in range(20000):
    try:
        s=rnd_value(r)
    except ValueError as e:
        bad.setdefault('gen-assert',[]).append(str(e)); continue
    try:
        before=styles(s)
    except ValueError as e:
        bad.setdefault('gen-assert2',[]).append(str(e)); continue
    n=len(s)
    st=r.randint(-n-2,n+2); en=r.choice([None]+list(range(-n-2,n+3)))
    top=r.random()<0.5
    f=r.choice(PALETTE)
    s2=s.copy()
    try:
        s2.apply_formatting(f, st, en, top)
        after=styles(s2)
    except Exception as e:
        bad.setdefault('raise:'+type(e).__name__,[]).append((repr(str(s)),f,st,en,top)); continue
    a,b,_=slice(st,en).indices(n)
    new=[str(x) for x in _AnsiSettingPoint._scrub_ansi_settings(f)]
    ok=True
    for i in range(n):
        if a<=i<b:
            exp = before[i]+new if top else new+before[i]
            if sorted(after[i])!=sorted(exp): ok='set'; break
            if not top:
                # effect of existing must be unchanged for effects they touch
                e0=eff(before[i]); e1=eff(after[i])
                touched=set()
                for t in before[i]:
                    p=AnsiSetting(t).get_initial_param()
                    if p is not None: touched.add(p.effect_type.name)
                for k in touched:
                    if e0.get(k)!=e1.get(k): ok='prec-nontop'; break
                if ok is not True: break
            else:
                if after[i]!=exp and i==a: ok='prec-top'; break
        else:
            if after[i]!=before[i]: ok='outside'; break
    if ok is not True:
        bad.setdefault(ok,[]).append((repr(str(s)),s._fmts.keys(),f if isinstance(f,str) else 'rgb',st,en,top,before,after))
for k,v in bad.items():
    print(k,len(v)); 
    v.sort(key=lambda x: len(str(x)))
    for x in v[:3]: print('   ',x)
