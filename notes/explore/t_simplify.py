from common import *
from term import *
r=random.Random(12)
bad={}
def rec(k,x): bad.setdefault(k,[]).append(x)
for it in range(30000):
    try:
        s=rnd_value(r,depth=2); sty=styles(s); o=str(s)
    except ValueError: 
        rec('gen',1); continue
    if r.random()<0.3:
        s.apply_formatting(r.choice(['[38;5;7','[1;31','[99','[m31','[38;5','[ 1']), r.randint(0,len(s)), None)
        sty=styles(s); o=str(s)
    valid=s.is_formatting_valid()
    eff0=[style_of([t for t in l if AnsiSetting(t).valid and all(ch in '0123456789;' for ch in t)]) for l in sty]
    c=s.copy()
    try:
        c.simplify()
        sty1=styles(c); o1=str(c)
    except Exception as e:
        rec('simplify-raise '+type(e).__name__,(repr(o),sty,str(e))); continue
    if c.base_str!=s.base_str: rec('text',(repr(o),)); continue
    eff1=[style_of(l) for l in sty1]
    allnum=all(all(ch in '0123456789;' for ch in t) for l in sty for t in l)
    if eff1!=eff0 and allnum: rec('style-changed',(repr(o),sty,sty1)); continue
    if not c.is_formatting_parsable(): rec('not-parsable-after',(repr(o),sty1))
    if not c.is_formatting_valid(): rec('not-valid-after',(repr(o),sty1))
    c2=c.copy(); c2.simplify(); o2=str(c2)
    if o2!=o1: rec('not-idempotent',(repr(o),repr(o1),repr(o2)))
    if str(A(o1))!=o1: rec('not-fixed-point',(repr(o),repr(o1),repr(str(A(o1)))))
for k,v in sorted(bad.items()):
    print(k,len(v)); 
    if k=='gen': continue
    v.sort(key=lambda x: len(str(x)))
    for x in v[:3]: print('   ',str(x)[:400])
