import sys, random, signal, copy
import os; sys.path.insert(0, os.environ.get('ASRC','/repo/src'))
from ansi_string import *
from ansi_string.ansi_string import AnsiString as A, _AnsiSettingPoint
from ansi_string.ansi_param import AnsiParam, AnsiParamEffect, AnsiParamEffectFn, EFFECT_CLEAR_DICT
A.WITH_ASSERTIONS = True

PALETTE = ['red','blue','bold','faint','no_bold_faint','italic','underline','fg_default',
           AnsiFormat.fg_rgb(1,2,3), 'color256(7)', 'bg_green', 'ul_red', 'no_underline']
def styles(s, ids=False):
    if isinstance(s, AnsiStr): s = s._s
    out=[]
    for i in range(len(s)):
        l = s.ansi_settings_at(i)
        out.append([(id(x), str(x)) if ids else str(x) for x in l])
    return out

def rnd_text(r, n=None, alpha='ab '):
    n = r.randint(0,8) if n is None else n
    return ''.join(r.choice(alpha) for _ in range(n))

def rnd_value(r, depth=2, alpha='ab '):
    s = A(rnd_text(r, alpha=alpha))
    for _ in range(r.randint(0,3)):
        n=len(s)
        st=r.randint(-1,n+1); en=r.randint(-1,n+2)
        k=r.random()
        try:
            if k<0.6:
                s.apply_formatting(r.choice(PALETTE), st, en if r.random()<0.8 else None, topmost=r.random()<0.7)
            elif k<0.75:
                s.remove_formatting(r.choice(PALETTE+[None]), st, en)
            elif k<0.85 and depth>0:
                s = s + rnd_value(r, depth-1, alpha)
            elif k<0.95:
                s = s[st:en]
            else:
                s = s.center(n+r.randint(0,3))
        except ValueError as e:
            if 'could not remove' in str(e):
                raise
    return s

def eff(settings_texts):
    """effective style by settings_to_dict on text list"""
    d = settings_to_dict([AnsiSetting(t) for t in settings_texts])
    return {k.name:str(v) for k,v in d.items()}
