from common import *
r=random.Random(6)
bad={}
def rec(k,x): bad.setdefault(k,[]).append(x)
for it in range(20000):
    try:
        s=rnd_value(r); sty=styles(s)
    except ValueError as e:
        rec('gen',str(e)); continue
    n=len(s); w=r.randint(0,n+5); fill=r.choice('*:+-0 <^')
    ext=r.random()<0.5
    which=r.choice(['ljust','rjust','center','zfill','fmt'])
    try:
        if which=='zfill':
            t=s.zfill(w); fill='0'; ext=True; exp_text=format(s.base_str, '0>%d'%w)
            L=max(0,w-n); R=0
        elif which=='fmt':
            al=r.choice('<>^'); flag=r.choice(['','+','-'])
            spec=fill+flag+al+str(w)
            ext = flag!='-'
            ansi=r.choice(['', ':bold', ':red;italic'])
            out=s.to_str(spec+ansi)
            t=A(out)  # parse back; only check text here
            exp_text=format(s.base_str, fill+al+str(w))
            if t.base_str!=exp_text: rec('fmt-text',(repr(str(s)),spec+ansi,repr(out)))
            # equivalence to pad+apply on copy
            c=s.copy()
            if not ext and ansi: c.apply_formatting(ansi[1:])
            c={'<':c.ljust,'>':c.rjust,'^':c.center}[al](w,fill,extend_formatting=ext)
            if ext and ansi: c.apply_formatting(ansi[1:])
            if str(c)!=out: rec('fmt-equiv',(repr(str(s)),spec+ansi,repr(out),repr(str(c))))
            continue
        else:
            t=getattr(s,which)(w,fill,extend_formatting=ext)
            al={'ljust':'<','rjust':'>','center':'^'}[which]
            exp_text=format(s.base_str, fill+al+str(w))
            num=max(0,w-n)
            if which=='ljust': L=0;R=num
            elif which=='rjust': L=num;R=0
            else: L=num//2; R=num-L
    except Exception as e:
        rec('raise '+type(e).__name__,(repr(str(s)),which,w,fill,str(e))); continue
    if t.base_str!=exp_text: rec(which+'-text',(repr(str(s)),w,fill,t.base_str,exp_text)); continue
    tsty=styles(t)
    first=sty[0] if n else []; last=sty[-1] if n else []
    exp=[first if ext else []]*L+sty+[last if ext else []]*R
    if tsty!=exp: rec(which+'-style ext=%s'%ext,(repr(str(s)),list(s._fmts),w,fill,exp,tsty))
    try:
        u=t+'x'
        if styles(u)[-1]!=[]: rec(which+'-open',(repr(str(s)),w,fill,ext))
    except Exception as e:
        rec(which+'-cat-raise',(repr(str(s)),w,fill,ext))
for k,v in bad.items():
    print(k,len(v)); 
    if k=='gen': continue
    v.sort(key=lambda x: len(str(x)))
    for x in v[:2]: print('   ',str(x)[:500])
