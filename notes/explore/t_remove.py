from common import *
from common import _AnsiSettingPoint
r=random.Random(5)
bad={}
def rec(k,x): bad.setdefault(k,[]).append(x)
def conf_order(l):
    d={}
    for t in l:
        p=AnsiSetting(t).get_initial_param()
        d.setdefault(p.effect_type.name if p else '?',[]).append(t)
    return d
for it in range(40000):
    try:
        s=rnd_value(r); sty=styles(s)
    except ValueError as e:
        rec('gen',str(e)); continue
    n=len(s)
    st=r.randint(-n-2,n+2); en=r.choice([None]+list(range(-n-2,n+3)))
    present=[t for l in sty for t in l]
    f=r.choice([None]+PALETTE+present+present)
    s2=s.copy()
    try:
        s2.remove_formatting(f, st, en); after=styles(s2); out=str(s2)
    except Exception as e:
        rec('raise:'+type(e).__name__,(repr(str(s)),list(s._fmts),f,st,en)); continue
    a,b,_=slice(st,en).indices(n)
    rm=None if f is None else [str(x) for x in _AnsiSettingPoint._scrub_ansi_settings(f)]
    for i in range(n):
        if a<=i<b:
            exp=[t for t in sty[i] if not (rm is None or t in rm)]
            if after[i]!=exp:
                rec('inside' if conf_order(after[i])!=conf_order(exp) else 'inside-order-only',(repr(str(s)),list(s._fmts),f,st,en,sty,after)); break
        else:
            if after[i]!=sty[i]:
                rec('outside' if conf_order(after[i])!=conf_order(sty[i]) else 'outside-order-only',(repr(str(s)),list(s._fmts),f if f is None or isinstance(f,str) else 'rgb',st,en,sty,after)); break
    # closed?
    try:
        u=s2+'x'
        if styles(u)[-1]!=[]: rec('open-after-remove',(repr(str(s)),f,st,en))
    except Exception as e:
        rec('cat-after-remove-raise',(repr(str(s)),f,st,en))
for k,v in bad.items():
    print(k,len(v)); 
    if k=='gen': continue
    v.sort(key=lambda x: len(str(x)))
    for x in v[:3]: print('   ',str(x)[:500])
