From Coq Require Import List NArith Bool Lia Arith.
Import ListNotations.
Open Scope N_scope.

Definition char := N.
Definition str := list char.
Definition ESC : char := 27.
Definition LBR : char := 91.
Definition is_final (c:char) : bool := (64 <=? c) && (c <=? 126).

(* one recognised control sequence: parameter part and terminator (None = unterminated) *)
Record cseq := { cs_body : str; cs_term : option char }.

(* read the body: maximal run of non-final chars *)
Fixpoint span_body (s:str) : str * str :=
  match s with
  | [] => ([], [])
  | c :: r => if is_final c then ([], s) else let '(b, r') := span_body r in (c :: b, r')
  end.

Inductive tok := TChar (c:char) | TSeq (q:cseq).

Definition accept (allow_empty:bool) (acc:option (list char)) (t:option char) : bool :=
  (match t with Some _ => true | None => allow_empty end) &&
  (match acc with None => true
   | Some l => match t with Some c => existsb (N.eqb c) l | None => true (* '' in s is True *) end end).

(* tokenizer with fuel = length of input *)
Fixpoint tokenize (fuel:nat) (ae:bool) (acc:option (list char)) (s:str) : list tok :=
  match fuel with O => [] | S f =>
  match s with
  | [] => []
  | c1 :: r1 =>
    match r1 with
    | c2 :: r2 =>
      if (c1 =? ESC) && (c2 =? LBR) then
        let '(b, r3) := span_body r2 in
        let '(t, r4) := match r3 with [] => (None, []) | t :: r4 => (Some t, r4) end in
        if accept ae acc t then TSeq {| cs_body := b; cs_term := t |} :: tokenize f ae acc r4
        else map TChar (ESC :: LBR :: b ++ match t with Some x => [x] | None => [] end) ++ tokenize f ae acc r4
      else TChar c1 :: tokenize f ae acc r1
    | [] => [TChar c1]
    end
  end end.

Definition render_tok (t:tok) : str :=
  match t with
  | TChar c => [c]
  | TSeq q => ESC :: LBR :: cs_body q ++ match cs_term q with Some x => [x] | None => [] end
  end.
Definition render (l:list tok) : str := flat_map render_tok l.

Lemma span_body_app s : let '(b, r) := span_body s in s = b ++ r.
Proof. induction s as [|c r IH]; simpl; auto. destruct (is_final c); simpl; auto.
  destruct (span_body r) as [b r']. simpl. now rewrite IH. Qed.

Lemma span_body_len s : (length (snd (span_body s)) <= length s)%nat.
Proof. induction s as [|c r IH]; simpl; auto. destruct (is_final c); simpl; auto.
  destruct (span_body r) as [b r']. simpl in *. lia. Qed.

Lemma flat_map_TChar l : flat_map render_tok (map TChar l) = l.
Proof. induction l; simpl; congruence. Qed.

Theorem tokenize_lossless : forall fuel ae acc s, (length s <= fuel)%nat -> render (tokenize fuel ae acc s) = s.
Proof.
  induction fuel as [|f IH]; intros ae acc s Hl.
  - destruct s; simpl in *; auto; lia.
  - destruct s as [|c1 r1]; simpl; auto.
    destruct r1 as [|c2 r2]; simpl; auto.
    destruct ((c1 =? ESC) && (c2 =? LBR)) eqn:E.
    + apply andb_true_iff in E as [E1 E2]. apply N.eqb_eq in E1, E2. subst.
      pose proof (span_body_app r2) as Ha. pose proof (span_body_len r2) as Hb.
      destruct (span_body r2) as [b r3]. simpl in Hb.
      destruct r3 as [|t r4].
      * destruct (accept ae acc None); unfold render; simpl.
        -- rewrite IH by (simpl; lia). simpl. now rewrite Ha, app_nil_r.
        -- rewrite flat_map_app, flat_map_TChar. fold (render (tokenize f ae acc [])).
           rewrite IH by (simpl; lia). now rewrite Ha, !app_nil_r.
      * destruct (accept ae acc (Some t)); unfold render; simpl.
        -- fold (render (tokenize f ae acc r4)). rewrite IH by (simpl in *; lia).
           rewrite Ha. now rewrite <- app_assoc.
        -- rewrite flat_map_app, flat_map_TChar. fold (render (tokenize f ae acc r4)).
           rewrite IH by (simpl in *; lia). rewrite Ha. now rewrite <- !app_assoc.
    + unfold render. simpl. fold (render (tokenize f ae acc (c2 :: r2))).
      rewrite IH by (simpl in *; lia). reflexivity.
Qed.
Print Assumptions tokenize_lossless.

Require Extraction.
Require Import ExtrOcamlBasic.
Extraction "tok.ml" tokenize render.
