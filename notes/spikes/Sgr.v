From Coq Require Import List NArith Bool Lia Arith.
Import ListNotations.
Open Scope N_scope.

Inductive effect := BOLDNESS | ITALICS | UNDERLINE | OVERLINE | BLINKING | SWAP | VISIBILITY | CROSSED
                  | FONT | SPACING | BOXING | FG | BG | UL.
Scheme Equality for effect.
Inductive cls := CReset | CSet (e:effect) | CClr (e:effect) | CIntro (e:effect) | CUnknown.

Section S.
Variable class : N -> cls.                      (* in the development: spec_class / generated table *)

(* ---------- specification: the terminal ---------- *)
Definition tstate := effect -> option (list N).
Definition tdefault : tstate := fun _ => None.
Definition tset (t:tstate) (e:effect) (g:option (list N)) : tstate :=
  fun e' => if effect_beq e e' then g else t e'.
Inductive act := AReset | ASet (e:effect) (g:list N) | AClr (e:effect) | ANone.
Definition apply_act (t:tstate) (a:act) : tstate :=
  match a with AReset => tdefault | ASet e g => tset t e (Some g) | AClr e => tset t e None | ANone => t end.
Definition ok255 (l:list N) := forallb (fun x => x <=? 255) l.

Definition next_act (p:list N) : act * list N :=
  match p with
  | [] => (ANone, [])
  | c :: r =>
    match class c with
    | CReset => (AReset, r) | CSet e => (ASet e [c], r) | CClr e => (AClr e, r) | CUnknown => (ANone, r)
    | CIntro e =>
      match r with
      | 5 :: r1 => match r1 with
                   | n :: r2 => ((if ok255 [n] then ASet e [c;5;n] else ANone), r2)
                   | [] => (ANone, []) end
      | 2 :: r1 => match r1 with
                   | a :: b :: d :: r2 => ((if ok255 [a;b;d] then ASet e [c;2;a;b;d] else ANone), r2)
                   | _ => (ANone, []) end
      | _ => (ANone, r)
      end
    end
  end.

Lemma next_act_shorter p a r : p <> [] -> next_act p = (a, r) -> (length r < length p)%nat.
Proof.
  destruct p as [|c p]; [congruence|]. intros _. unfold next_act.
  destruct (class c); try (intros H; inversion H; subst; simpl; lia).
  destruct p as [|x p]; [intros H; inversion H; simpl; lia|].
  destruct x as [|x]; [intros H; inversion H; simpl; lia|].
  destruct x as [x|x|]; try (intros H; inversion H; simpl; lia).
  - destruct x as [x|x|]; try (intros H; inversion H; simpl; lia).
    destruct x as [x|x|]; try (intros H; inversion H; simpl; lia).
    destruct p as [|n p]; intros H; inversion H; simpl; lia.
  - destruct x as [x|x|]; try (intros H; inversion H; simpl; lia).
    destruct p as [|a1 [|b1 [|d1 p]]]; intros H; inversion H; simpl; lia.
Qed.

Fixpoint sgr_fuel (fuel:nat) (t:tstate) (p:list N) : tstate :=
  match fuel with O => t | S f =>
    match p with [] => t | _ => let '(a, r) := next_act p in sgr_fuel f (apply_act t a) r end end.
Definition sgr (t:tstate) (p:list N) := sgr_fuel (length p) t p.

(* ---------- model: parse_graphic_sequence (repaired) and settings_to_dict ---------- *)
Definition is_intro (v:N) : bool := match class v with CIntro _ => true | _ => false end.
Inductive ik := FnMatch (total:nat) | FnFoundOnly | NotFn.
Definition intro_kind (items:list N) : ik :=
  match items with
  | v :: r => if is_intro v then match r with 5 :: _ => FnMatch 3 | 2 :: _ => FnMatch 5 | _ => FnFoundOnly end else NotFn
  | [] => NotFn end.
Definition parsable (g:list N) : bool :=
  match g with
  | [v] => match class v with CSet _ | CClr _ => true | _ => false end
  | [v;5;n] => is_intro v && ok255 [n]
  | [v;2;a;b;d] => is_intro v && ok255 [a;b;d]
  | _ => false end.
Definition keep (ae:bool) (g:list N) : bool :=
  ae || parsable g || match g with [v] => match class v with CReset => true | _ => false end | _ => false end.

Fixpoint pgs_loop (items:list N) (left:nat) (cur:list N) (ae:bool) : list (list N) :=
  match items with
  | [] => if ae && negb (match cur with [] => true | _ => false end) then [cur] else []
  | v :: rest =>
    let go (left:nat) :=
      let cur' := cur ++ [v] in
      match left with
      | S (S l) => pgs_loop rest (S l) cur' ae
      | _ => (if keep ae cur' then [cur'] else []) ++ pgs_loop rest 0 [] ae
      end in
    match cur with
    | [] => match intro_kind items with
            | FnMatch total => go total
            | FnFoundOnly => if ae then go 1%nat else pgs_loop rest 0 [] ae
            | NotFn => go 1%nat end
    | _ => go left
    end
  end.
Definition pgs (items:list N) (ae:bool) := match items with [] => [[0]] | _ => pgs_loop items 0 [] ae end.

Definition dict := list (effect * list N).       (* Python dict: insertion ordered *)
Fixpoint dset (d:dict) (e:effect) (g:list N) : dict :=
  match d with [] => [(e,g)] | (e',g') :: r => if effect_beq e e' then (e,g) :: r else (e',g') :: dset r e g end.
Fixpoint ddel (d:dict) (e:effect) : dict :=
  match d with [] => [] | (e',g') :: r => if effect_beq e e' then r else (e',g') :: ddel r e end.
Fixpoint dget (d:dict) (e:effect) : option (list N) :=
  match d with [] => None | (e',g') :: r => if effect_beq e' e then Some g' else dget r e end.
Definition s2d_step (d:dict) (g:list N) : dict :=
  match g with
  | v :: _ => match class v with CSet e | CIntro e => dset d e g | CClr e => ddel d e | CReset => [] | CUnknown => d end
  | [] => d end.
Definition s2d (l:list (list N)) (d:dict) : dict := fold_left s2d_step l d.
Definition nodupk (d:dict) := NoDup (map fst d).
Definition as_t (d:dict) : tstate := dget d.
Definition teq (a b:tstate) := forall e, a e = b e.

Lemma beq_refl e : effect_beq e e = true. Proof. destruct e; reflexivity. Qed.
Lemma beq_eq e e' : effect_beq e e' = true -> e = e'. Proof. apply internal_effect_dec_bl. Qed.
Lemma beq_sym e e' : effect_beq e e' = effect_beq e' e.
Proof. destruct (effect_beq e e') eqn:E. apply beq_eq in E; subst; now rewrite beq_refl.
  destruct (effect_beq e' e) eqn:E'; auto. apply beq_eq in E'; subst. now rewrite beq_refl in E. Qed.

Lemma dget_dset d e g : teq (as_t (dset d e g)) (tset (as_t d) e (Some g)).
Proof. intros x. unfold as_t, tset. induction d as [|[e' g'] r IH]; simpl.
  - rewrite (beq_sym e x). destruct (effect_beq x e); auto.
  - destruct (effect_beq e e') eqn:E; simpl.
    + apply beq_eq in E; subst e'. destruct (effect_beq e x); auto.
    + destruct (effect_beq e' x) eqn:E2; auto.
      apply beq_eq in E2; subst e'. now rewrite E.
Qed.
Lemma dget_ddel d e : nodupk d -> teq (as_t (ddel d e)) (tset (as_t d) e None).
Proof. intros H x. unfold as_t, tset. induction d as [|[e' g'] r IH]; simpl.
  - destruct (effect_beq e x); auto.
  - inversion H as [|? ? Hn Hd]; subst. destruct (effect_beq e e') eqn:E; simpl.
    + apply beq_eq in E; subst e'. destruct (effect_beq e x) eqn:E3; auto.
      apply beq_eq in E3; subst x. clear -Hn. induction r as [|[a b] r IHr]; simpl; auto.
      simpl in Hn. destruct (effect_beq a e) eqn:E4. apply beq_eq in E4; subst; tauto. apply IHr; tauto.
    + destruct (effect_beq e' x) eqn:E2.
      * apply beq_eq in E2; subst e'. now rewrite E.
      * now apply IH.
Qed.
Lemma nodup_dset d e g : nodupk d -> nodupk (dset d e g).
Proof. unfold nodupk. induction d as [|[e' g'] r IH]; simpl; intros H. constructor; auto; constructor.
  inversion H; subst. destruct (effect_beq e e') eqn:E; simpl.
  - apply beq_eq in E; subst; now constructor.
  - constructor; auto. intros Hin. apply H2. clear -Hin E. induction r as [|[a b] r IHr]; simpl in *.
    + destruct Hin as [->|[]]. now rewrite beq_refl in E.
    + destruct (effect_beq e a) eqn:E2; simpl in *. apply beq_eq in E2; subst; tauto. destruct Hin; auto.
Qed.
Lemma nodup_ddel d e : nodupk d -> nodupk (ddel d e).
Proof. unfold nodupk. induction d as [|[e' g'] r IH]; simpl; intros H; auto. inversion H; subst.
  destruct (effect_beq e e'); simpl; auto. constructor; auto. intros Hin; apply H2.
  clear -Hin. induction r as [|[a b] r IHr]; simpl in *; auto. destruct (effect_beq e a); simpl in *; tauto. Qed.

Lemma teq_apply t t' a : teq t t' -> teq (apply_act t a) (apply_act t' a).
Proof. intros H e. destruct a; simpl; unfold tset; auto; destruct (effect_beq _ _); auto. Qed.
Lemma sgr_fuel_teq f : forall t t' p, teq t t' -> teq (sgr_fuel f t p) (sgr_fuel f t' p).
Proof. induction f as [|f IH]; simpl; intros; auto. destruct p; auto. destruct (next_act (n :: p)). apply IH. now apply teq_apply. Qed.

(* the effect of one emitted group on the dictionary is the terminal's action *)
Definition act_of_group (g:list N) : act :=
  match g with v :: _ => match class v with CSet e | CIntro e => ASet e g | CClr e => AClr e | CReset => AReset | CUnknown => ANone end | [] => ANone end.
Lemma s2d_step_act d g : nodupk d -> teq (as_t (s2d_step d g)) (apply_act (as_t d) (act_of_group g)) /\ nodupk (s2d_step d g).
Proof. intros H. destruct g as [|v g]; simpl. split; auto; intros e; auto.
  destruct (class v); simpl; split; auto using dget_dset, dget_ddel, nodup_dset, nodup_ddel; try (intros e; reflexivity). constructor. Qed.

Lemma keep_single c d0 : nodupk d0 -> (forall e, class c <> CIntro e) ->
  teq (as_t (s2d (if keep false [c] then [[c]] else []) d0)) (apply_act (as_t d0) (act_of_group [c])) /\
  nodupk (s2d (if keep false [c] then [[c]] else []) d0).
Proof.
  intros Hd0 Hi. destruct (keep false [c]) eqn:K.
  - unfold s2d. cbn [fold_left]. apply s2d_step_act; auto.
  - unfold keep, parsable in K. simpl in K. unfold act_of_group. destruct (class c) eqn:Ec; simpl in K; try discriminate.
    + exfalso. eapply Hi; eauto.
    + unfold s2d; simpl. split; auto. intros e; reflexivity.
Qed.

Lemma keep_group g d0 : nodupk d0 -> parsable g = true ->
  teq (as_t (s2d [g] d0)) (apply_act (as_t d0) (act_of_group g)) /\ nodupk (s2d [g] d0).
Proof. intros. unfold s2d; cbn [fold_left]. now apply s2d_step_act. Qed.

Definition stepspec (cs r':list N) (a:act) :=
  exists gs, pgs_loop cs 0 [] false = gs ++ pgs_loop r' 0 [] false /\
    forall d, nodupk d -> teq (as_t (s2d gs d)) (apply_act (as_t d) a) /\ nodupk (s2d gs d).

Lemma nil_step d : nodupk d -> teq (as_t (s2d [] d)) (apply_act (as_t d) ANone) /\ nodupk (s2d [] d).
Proof. intros; split; auto; intros e; reflexivity. Qed.

Lemma step_plain c r : (forall e, class c <> CIntro e) -> stepspec (c :: r) r (act_of_group [c]).
Proof.
  intros Hi. exists (if keep false [c] then [[c]] else []). split.
  - cbn [pgs_loop intro_kind]. unfold is_intro. destruct (class c) eqn:Ec; try reflexivity. exfalso; eapply Hi; eauto.
  - intros d Hd. now apply keep_single.
Qed.

Lemma step_intro c e r a r' : class c = CIntro e -> next_act (c :: r) = (a, r') -> stepspec (c :: r) r' a.
Proof.
  intros Ec Hna. unfold next_act in Hna. rewrite Ec in Hna. unfold stepspec.
  assert (Hi: is_intro c = true) by (unfold is_intro; now rewrite Ec).
  destruct r as [|x r1].
  { inversion Hna; subst. exists []. split; [|apply nil_step]. cbn. rewrite Hi. reflexivity. }
  destruct (N.eq_dec x 5) as [->|N5].
  - destruct r1 as [|nn r2].
    + inversion Hna; subst. exists []. split; [|apply nil_step]. cbn. rewrite Hi. reflexivity.
    + destruct (ok255 [nn]) eqn:En; inversion Hna; subst;
      (assert (Hp: pgs_loop (c :: 5 :: nn :: r') 0 [] false = (if keep false [c;5;nn] then [[c;5;nn]] else []) ++ pgs_loop r' 0 [] false)
        by (cbn [pgs_loop intro_kind]; rewrite Hi; cbn; reflexivity));
      rewrite Hp; unfold keep, parsable; rewrite Hi, En; cbn [orb andb].
      * exists [[c;5;nn]]. split; [reflexivity|]. intros d Hd.
        pose proof (keep_group [c;5;nn] d Hd) as Hk. unfold parsable in Hk. rewrite Hi, En in Hk.
        specialize (Hk eq_refl). unfold act_of_group in Hk. rewrite Ec in Hk. exact Hk.
      * exists []. split; [reflexivity|apply nil_step].
  - destruct (N.eq_dec x 2) as [->|N2].
    + destruct r1 as [|a1 [|b1 [|d1 r2]]];
        try (inversion Hna; subst; exists []; split; [cbn; rewrite Hi; reflexivity | apply nil_step]).
      destruct (ok255 [a1;b1;d1]) eqn:En; inversion Hna; subst;
      (assert (Hp: pgs_loop (c :: 2 :: a1 :: b1 :: d1 :: r') 0 [] false
                  = (if keep false [c;2;a1;b1;d1] then [[c;2;a1;b1;d1]] else []) ++ pgs_loop r' 0 [] false)
        by (cbn [pgs_loop intro_kind]; rewrite Hi; cbn; reflexivity));
      rewrite Hp; unfold keep, parsable; rewrite Hi, En; cbn [orb andb].
      * exists [[c;2;a1;b1;d1]]. split; [reflexivity|]. intros d Hd.
        pose proof (keep_group [c;2;a1;b1;d1] d Hd) as Hk. unfold parsable in Hk. rewrite Hi, En in Hk.
        specialize (Hk eq_refl). unfold act_of_group in Hk. rewrite Ec in Hk. exact Hk.
      * exists []. split; [reflexivity|apply nil_step].
    + assert (Hna': (ANone, x :: r1) = (a, r')).
      { destruct x as [|p]; auto. destruct p as [p|p|]; auto; destruct p as [p|p|]; auto; try destruct p as [p|p|]; auto; congruence. }
      inversion Hna'; subst. exists []. split; [|apply nil_step].
      cbn [pgs_loop intro_kind]. rewrite Hi.
      destruct x as [|p]; auto. destruct p as [p|p|]; auto; destruct p as [p|p|]; auto; try destruct p as [p|p|]; auto; congruence.
Qed.

Lemma step_any c r a r' : next_act (c :: r) = (a, r') -> stepspec (c :: r) r' a.
Proof.
  intros Hna. destruct (class c) eqn:Ec.
  5:{ pose proof (step_plain c r) as H. unfold next_act in Hna. rewrite Ec in Hna. inversion Hna; subst.
      unfold act_of_group in H. rewrite Ec in H. apply H. congruence. }
  4:{ eapply step_intro; eauto. }
  all: pose proof (step_plain c r) as H; unfold next_act in Hna; rewrite Ec in Hna; inversion Hna; subst;
       unfold act_of_group in H; rewrite Ec in H; apply H; congruence.
Qed.

Theorem C18_parse_gen : forall n cs d, (length cs <= n)%nat -> nodupk d ->
  teq (as_t (s2d (pgs_loop cs 0 [] false) d)) (sgr_fuel n (as_t d) cs) /\ nodupk (s2d (pgs_loop cs 0 [] false) d).
Proof.
  induction n as [|n IH]; intros cs d Hl Hd.
  - destruct cs; simpl in *; [|lia]. split; auto. intros e; reflexivity.
  - destruct cs as [|c r]. { simpl. split; auto. intros e; reflexivity. }
    cbn [sgr_fuel]. destruct (next_act (c :: r)) as [a r'] eqn:Hna.
    assert (Hlen: (length r' <= n)%nat).
    { pose proof (next_act_shorter (c :: r) a r') as Hs. simpl in Hl. assert (c :: r <> []) by congruence. specialize (Hs H Hna). simpl in Hs. lia. }
    destruct (step_any c r a r' Hna) as (gs & Heq & Hgs). rewrite Heq.
    assert (Happ: forall l1 l2 d0, s2d (l1 ++ l2) d0 = s2d l2 (s2d l1 d0)) by (intros; unfold s2d; apply fold_left_app).
    rewrite Happ.
    destruct (Hgs d Hd) as [Ht Hn].
    destruct (IH r' (s2d gs d) Hlen Hn) as [IH1 IH2]. split; auto.
    intros e. rewrite IH1. apply sgr_fuel_teq. exact Ht.
Qed.
End S.
Print Assumptions C18_parse_gen.
