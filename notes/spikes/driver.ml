(* line protocol: space separated ints = code points of the input; output: rendered round trip + token summary *)
open Tok
let rec n_of_int (i:int) : n = if i = 0 then N0 else Npos (pos_of_int i)
and pos_of_int (i:int) : positive = if i = 1 then XH else if i land 1 = 1 then XI (pos_of_int (i lsr 1)) else XO (pos_of_int (i lsr 1))
let rec int_of_pos = function XH -> 1 | XI p -> 2 * int_of_pos p + 1 | XO p -> 2 * int_of_pos p
let int_of_n = function N0 -> 0 | Npos p -> int_of_pos p
let rec nat_of_int i = if i = 0 then O else S (nat_of_int (i-1))
let () =
  try while true do
    let line = input_line stdin in
    let ints = List.filter (fun s -> s <> "") (String.split_on_char ' ' line) |> List.map int_of_string in
    let s = List.map n_of_int ints in
    let toks = tokenize (nat_of_int (List.length ints)) true None s in
    let out = render toks in
    let nseq = List.length (List.filter (function TSeq _ -> true | _ -> false) toks) in
    print_string (string_of_int nseq); print_char '|';
    print_string (String.concat " " (List.map (fun c -> string_of_int (int_of_n c)) out)); print_newline ()
  done with End_of_file -> ()
