import subprocess, random, time, sys
sys.path.insert(0,'/repo/src')
from ansi_string import ParsedAnsiControlSequenceString as P
r=random.Random(1)
cases=[''.join(r.choice('ab\x1b[[[;12mJ') for _ in range(r.randint(0,12))) for _ in range(50000)]
t=time.time()
inp='\n'.join(' '.join(str(ord(c)) for c in s) for s in cases)+'\n'
out=subprocess.run(['./driver'],input=inp,capture_output=True,text=True).stdout.splitlines()
t1=time.time()-t
bad=0
for s,o in zip(cases,out):
    n,rt=o.split('|')
    p=P(s)
    nseq=sum(len(v) for v in p.sequences.values())
    if int(n)!=nseq or ''.join(chr(int(x)) for x in rt.split())!=s: bad+=1
print(len(out),'model time',round(t1,2),'total',round(time.time()-t,2),'bad',bad)
