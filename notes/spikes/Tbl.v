From Coq Require Import List NArith Bool Lia Arith.
Import ListNotations.

Definition str := list N.
Definition setting := (nat * str)%type.      (* object identity, text *)
Record point := mkP { padd : list setting; prem : list setting }.
Definition fmts := list (nat * point).       (* strictly increasing keys *)

Fixpoint remove_ref (x:nat) (l:list setting) : list setting :=
  match l with [] => [] | y :: r => if Nat.eqb (fst y) x then r else y :: remove_ref x r end.
Definition step (act:list setting) (p:point) : list setting :=
  fold_left (fun a s => remove_ref (fst s) a) (prem p) act ++ padd p.
Definition run (act:list setting) (t:fmts) : list setting := fold_left (fun a kp => step a (snd kp)) t act.

Definition upto (i:nat) (t:fmts) : fmts := filter (fun kp => fst kp <=? i) t.
Definition active_at (t:fmts) (i:nat) : list setting := run [] (upto i t).

Definition between (a b:nat) (t:fmts) : fmts := filter (fun kp => (a <? fst kp) && (fst kp <? b)) t.
Definition shift_down (d:nat) (t:fmts) : fmts := map (fun kp => (fst kp - d, snd kp)) t.
Definition lookup (k:nat) (t:fmts) : option point :=
  match filter (fun kp => fst kp =? k) t with (_,p) :: _ => Some p | [] => None end.
Definition in_ref (x:setting) (l:list setting) : bool := existsb (fun y => Nat.eqb (fst y) (fst x)) l.

(* declarative model of (repaired) __getitem__ for 0 <= st < en <= len *)
Definition slice_tbl (t:fmts) (st en:nat) : fmts :=
  let seed := active_at t st in
  let prev := active_at t (en - 1) in
  let rem_en := match lookup en t with Some p => prem p | None => [] end in
  let closing := rem_en ++ filter (fun s => negb (in_ref s rem_en)) prev in
  (match seed with [] => [] | _ => [(0, mkP seed [])] end)
  ++ shift_down st (between st en t)
  ++ (match closing with [] => [] | _ => [(en - st, mkP [] closing)] end).

Definition sorted (t:fmts) := forall i j d, i < j < length t -> fst (nth i t d) < fst (nth j t d).
Inductive ssorted : fmts -> Prop :=
| ss_nil : ssorted []
| ss_cons k p t : (forall kp, In kp t -> k < fst kp) -> ssorted t -> ssorted ((k,p)::t).

Lemma run_app a t1 t2 : run a (t1 ++ t2) = run (run a t1) t2.
Proof. unfold run. now rewrite fold_left_app. Qed.

Lemma upto_split t : ssorted t -> forall a b, a <= b ->
  upto b t = upto a t ++ filter (fun kp => (a <? fst kp) && (fst kp <=? b)) t.
Proof.
  induction 1 as [|k p t Hk Hs IH]; intros a b Hab; simpl; auto.
  destruct (k <=? a) eqn:Ea.
  - apply Nat.leb_le in Ea. assert (Eb: k <=? b = true) by (apply Nat.leb_le; lia). rewrite Eb.
    assert (En: a <? k = false) by (apply Nat.ltb_ge; lia). rewrite En. simpl. f_equal. now apply IH.
  - apply Nat.leb_gt in Ea. assert (En: a <? k = true) by (apply Nat.ltb_lt; lia). rewrite En. simpl.
    assert (Hu: upto a t = []).
    { unfold upto. clear -Hk Ea. induction t as [|kp t IHt]; simpl; auto.
      assert (k < fst kp) by (apply Hk; now left).
      assert (E: fst kp <=? a = false) by (apply Nat.leb_gt; lia). rewrite E. apply IHt. intros; apply Hk; now right. }
    rewrite Hu. simpl. destruct (k <=? b) eqn:Eb.
    + f_equal. rewrite (IH a b Hab), Hu. reflexivity.
    + rewrite (IH a b Hab), Hu. reflexivity.
Qed.

Lemma filter_map_shift (d:nat) (f g: nat*point -> bool) t :
  (forall kp, In kp t -> f (fst kp - d, snd kp) = g kp) ->
  filter f (shift_down d t) = shift_down d (filter g t).
Proof. induction t as [|kp t IH]; simpl; intros H; auto.
  assert (H': forall kp0, In kp0 t -> f (fst kp0 - d, snd kp0) = g kp0) by (intros; apply H; now right).
  rewrite (H kp) by now left. specialize (IH H'). destruct (g kp); simpl; now rewrite IH. Qed.

Lemma run_shift a d t : run a (shift_down d t) = run a t.
Proof. revert a; induction t as [|kp t IH]; intros a; [reflexivity|]. unfold run in *. simpl. apply IH. Qed.

Lemma filter_filter {A} (f g:A->bool) l : filter f (filter g l) = filter (fun x => f x && g x) l.
Proof. induction l as [|a l IH]; simpl; auto. destruct (g a) eqn:E; simpl.
  - rewrite andb_true_r. destruct (f a); now rewrite IH.
  - rewrite andb_false_r. apply IH. Qed.

Theorem slice_active : forall t st en k, ssorted t -> st < en -> k < en - st ->
  active_at (slice_tbl t st en) k = active_at t (st + k).
Proof.
  intros t st en k Hs Hse Hk. unfold slice_tbl, active_at at 1.
  set (seed := active_at t st). set (closing := _ ++ _ : list setting).
  unfold upto. rewrite !filter_app, !run_app.
  (* closing point is beyond k *)
  assert (Hc: filter (fun kp : nat * point => fst kp <=? k) (match closing with [] => [] | _ => [(en - st, mkP [] closing)] end) = []).
  { destruct closing; simpl; auto. assert (E: en - st <=? k = false) by (apply Nat.leb_gt; lia). now rewrite E. }
  rewrite Hc. simpl.
  assert (Hseed: run [] (filter (fun kp : nat * point => fst kp <=? k) (match seed with [] => [] | _ => [(0, mkP seed [])] end)) = seed).
  { destruct seed eqn:E; simpl; auto. }
  rewrite Hseed.
  rewrite (filter_map_shift st _ (fun kp => fst kp <=? st + k)).
  2:{ intros kp Hin. apply filter_In in Hin as [_ Hin]. apply andb_true_iff in Hin as [H1 _]. apply Nat.ltb_lt in H1. simpl.
      destruct (fst kp <=? st + k) eqn:E; [apply Nat.leb_le in E; apply Nat.leb_le; lia | apply Nat.leb_gt in E; apply Nat.leb_gt; lia]. }
  rewrite run_shift. unfold between. rewrite filter_filter.
  unfold seed, active_at. rewrite (upto_split t Hs st (st + k)) by lia. rewrite run_app. f_equal.
  apply filter_ext_in. intros kp _.
  apply Bool.eq_iff_eq_true. rewrite !andb_true_iff, !Nat.leb_le, !Nat.ltb_lt. lia.
Qed.
Print Assumptions slice_active.
