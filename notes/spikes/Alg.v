From Coq Require Import List NArith Bool Lia Arith.
Import ListNotations.
Open Scope N_scope.

Inductive effect := BOLDNESS | ITALICS | UNDERLINE | FG | BG | UL.   (* shortened for the spike *)
Scheme Equality for effect.
Inductive cls := CReset | CSet (e:effect) | CClr (e:effect) | CIntro (e:effect) | CUnknown.

Section S.
Variable class : N -> cls.
Definition tstate := effect -> option (list N).
Definition tdefault : tstate := fun _ => None.
Definition tset (t:tstate) (e:effect) (g:option (list N)) : tstate := fun e' => if effect_beq e e' then g else t e'.
Inductive act := AReset | ASet (e:effect) (g:list N) | AClr (e:effect) | ANone.
Definition apply_act (t:tstate) (a:act) : tstate :=
  match a with AReset => tdefault | ASet e g => tset t e (Some g) | AClr e => tset t e None | ANone => t end.
Definition teq (a b:tstate) := forall e, a e = b e.
Definition ok255 (l:list N) := forallb (fun x => x <=? 255) l.

(* one group; the boolean says whether the group was complete (not cut off by the end of the list) *)
Definition next_act (p:list N) : act * list N * bool :=
  match p with
  | [] => (ANone, [], true)
  | c :: r =>
    match class c with
    | CReset => (AReset, r, true) | CSet e => (ASet e [c], r, true) | CClr e => (AClr e, r, true) | CUnknown => (ANone, r, true)
    | CIntro e =>
      match r with
      | 5 :: r1 => match r1 with
                   | n :: r2 => ((if ok255 [n] then ASet e [c;5;n] else ANone), r2, true)
                   | [] => (ANone, [], false) end
      | 2 :: r1 => match r1 with
                   | a :: b :: d :: r2 => ((if ok255 [a;b;d] then ASet e [c;2;a;b;d] else ANone), r2, true)
                   | _ => (ANone, [], false) end
      | [] => (ANone, [], false)           (* introducer at the very end: could still become a group *)
      | _ => (ANone, r, true)
      end
    end
  end.

Fixpoint acts_fuel (fuel:nat) (p:list N) : list act * bool :=
  match fuel with O => ([], true) | S f =>
    match p with [] => ([], true) | _ =>
      let '(a, r, ok) := next_act p in let '(l, ok') := acts_fuel f r in (a :: l, ok && ok') end end.
Definition acts (p:list N) := fst (acts_fuel (length p) p).
Definition complete (p:list N) := snd (acts_fuel (length p) p) = true.
Definition run (t:tstate) (l:list act) := fold_left apply_act l t.
Definition sgr (t:tstate) (p:list N) := run t (acts p).

(* ---- last writer wins ---- *)
Fixpoint last_write (l:list act) (e:effect) : option (option (list N)) :=
  match l with
  | [] => None
  | a :: r => match last_write r e with
              | Some v => Some v
              | None => match a with
                        | AReset => Some None
                        | ASet e' g => if effect_beq e' e then Some (Some g) else None
                        | AClr e' => if effect_beq e' e then Some None else None
                        | ANone => None end end end.

Lemma run_last : forall l t e, run t l e = match last_write l e with Some v => v | None => t e end.
Proof.
  induction l as [|a l IH]; intros t e; simpl; auto.
  unfold run in *. simpl. rewrite IH. destruct (last_write l e); auto.
  destruct a; simpl; unfold tset; auto; destruct (effect_beq e0 e); auto.
Qed.

Lemma last_write_app l1 l2 e : last_write (l1 ++ l2) e = match last_write l2 e with Some v => Some v | None => last_write l1 e end.
Proof. induction l1 as [|a l1 IH]; simpl. destruct (last_write l2 e); auto.
  rewrite IH. destruct (last_write l2 e); auto. Qed.

Theorem run_idempotent l t : teq (run (run t l) l) (run t l).
Proof. intros e. rewrite !run_last. destruct (last_write l e); auto. Qed.

(* what the unoptimised renderer relies on: re-emitting everything already active, then more *)
Theorem run_replay l a t : teq (run (run t l) (l ++ a)) (run t (l ++ a)).
Proof. intros e. rewrite !run_last, !last_write_app. destruct (last_write a e); auto. destruct (last_write l e); auto. Qed.

(* ---- compositionality over complete code lists ---- *)
Lemma next_act_len p a r ok : p <> [] -> next_act p = (a, r, ok) -> (length r < length p)%nat.
Proof.
  destruct p as [|c p]; [congruence|]. intros _. unfold next_act.
  destruct (class c); try (intros H; inversion H; subst; simpl; lia).
  destruct p as [|x p]; [intros H; inversion H; simpl; lia|].
  destruct x as [|x]; [intros H; inversion H; simpl; lia|].
  destruct x as [x|x|]; try (intros H; inversion H; simpl; lia).
  - destruct x as [x|x|]; try (intros H; inversion H; simpl; lia).
    destruct x as [x|x|]; try (intros H; inversion H; simpl; lia).
    destruct p as [|n p]; intros H; inversion H; simpl; lia.
  - destruct x as [x|x|]; try (intros H; inversion H; simpl; lia).
    destruct p as [|a1 [|b1 [|d1 p]]]; intros H; inversion H; simpl; lia.
Qed.

(* a complete group followed by more codes is read the same way *)
Lemma next_act_app p q a r : p <> [] -> next_act p = (a, r, true) -> next_act (p ++ q) = (a, r ++ q, true).
Proof.
  destruct p as [|c p]; [congruence|]. intros _. unfold next_act. rewrite <- app_comm_cons. cbv iota beta.
  destruct (class c); try (intros H; inversion H; subst; reflexivity).
  destruct p as [|x p]; [cbn; intros H; discriminate H|].
  rewrite <- app_comm_cons.
  destruct x as [|x]; [intros H; inversion H; subst; reflexivity|].
  destruct x as [x|x|]; try (intros H; inversion H; subst; reflexivity).
  - destruct x as [x|x|]; try (intros H; inversion H; subst; reflexivity).
    destruct x as [x|x|]; try (intros H; inversion H; subst; reflexivity).
    destruct p as [|n p]; intros H; inversion H; subst; reflexivity.
  - destruct x as [x|x|]; try (intros H; inversion H; subst; reflexivity).
    destruct p as [|a1 [|b1 [|d1 p]]]; intros H; inversion H; subst; reflexivity.
Qed.

Lemma acts_fuel_more : forall f p, (length p <= f)%nat -> forall f', (length p <= f')%nat -> acts_fuel f p = acts_fuel f' p.
Proof.
  induction f as [|f IH]; intros p Hl f' Hl'.
  - destruct p; simpl in Hl; [|lia]. destruct f'; reflexivity.
  - destruct p as [|c p]. { destruct f'; reflexivity. }
    destruct f' as [|f']; [simpl in Hl'; lia|]. cbn [acts_fuel].
    destruct (next_act (c :: p)) as [[a r] ok] eqn:E.
    assert (length r < length (c :: p))%nat by (eapply next_act_len; eauto; congruence).
    rewrite (IH r) with (f' := f') by (simpl in *; lia). reflexivity.
Qed.

Theorem acts_app : forall n p q, (length p <= n)%nat -> complete p ->
  acts (p ++ q) = acts p ++ acts q /\ (complete q -> complete (p ++ q)).
Proof.
  induction n as [|n IH]; intros p q Hl Hc.
  - destruct p; simpl in Hl; [|lia]. simpl. auto.
  - destruct p as [|c p]. { simpl. auto. }
    unfold complete, acts in *. simpl length in *. cbn [acts_fuel] in *.
    destruct (next_act (c :: p)) as [[a r] ok] eqn:E.
    destruct (acts_fuel (length p) r) as [l ok'] eqn:E2. simpl in Hc.
    apply andb_true_iff in Hc as [-> ->].
    assert (Hr: (length r < length (c :: p))%nat) by (eapply next_act_len; eauto; congruence).
    pose proof (next_act_app (c :: p) q a r) as Happ. rewrite <- app_comm_cons in Happ.
    rewrite app_length. simpl app. cbn [acts_fuel].
    rewrite Happ by (auto; congruence).
    assert (Hr1: acts_fuel (length r) r = (l, true)).
    { rewrite <- E2. apply acts_fuel_more; simpl in *; lia. }
    destruct (IH r q) as [IH1 IH2]. { simpl in *; lia. } { unfold complete. now rewrite Hr1. }
    unfold acts, complete in IH1, IH2. rewrite Hr1 in IH1. simpl in IH1.
    assert (Hf: acts_fuel (length p + length q) (r ++ q) = acts_fuel (length (r ++ q)) (r ++ q)).
    { apply acts_fuel_more; rewrite ?app_length; simpl in *; lia. }
    rewrite Hf. destruct (acts_fuel (length (r ++ q)) (r ++ q)) as [l2 ok2] eqn:E3. simpl in *.
    split. { now rewrite IH1. } { intros Hq. specialize (IH2 Hq). now rewrite IH2. }
Qed.

Corollary sgr_app p q t : complete p -> teq (sgr t (p ++ q)) (sgr (sgr t p) q).
Proof. intros Hc e. unfold sgr. destruct (acts_app (length p) p q (le_n _) Hc) as [-> _]. unfold run. now rewrite fold_left_app. Qed.

(* the renderer's re-emission step, on code lists *)
Corollary sgr_replay p q t : complete p -> teq (sgr (sgr t p) (p ++ q)) (sgr t (p ++ q)).
Proof. intros Hc e. unfold sgr. destruct (acts_app (length p) p q (le_n _) Hc) as [-> _]. apply run_replay. Qed.
End S.
Print Assumptions sgr_replay.
Print Assumptions sgr_app.
