"""S-expressions of integers: the wire format between the Python harness and the extracted model."""

def dumps(x):
    out = []
    def go(x):
        if isinstance(x, bool):
            out.append('1' if x else '0')
        elif isinstance(x, int):
            out.append(str(x))
        elif isinstance(x, str):
            out.append('(')
            out.append(' '.join(str(ord(c)) for c in x))
            out.append(')')
        elif x is None:
            out.append('()')
        else:
            out.append('(')
            first = True
            for y in x:
                if not first:
                    out.append(' ')
                first = False
                go(y)
            out.append(')')
    go(x)
    return ''.join(out)

def loads(s):
    # iterative parser
    stack = [[]]
    i, n = 0, len(s)
    while i < n:
        c = s[i]
        if c == '(':
            stack.append([])
            i += 1
        elif c == ')':
            l = stack.pop()
            stack[-1].append(l)
            i += 1
        elif c == ' ' or c == '\n':
            i += 1
        else:
            j = i + 1
            while j < n and s[j] not in ' ()\n':
                j += 1
            stack[-1].append(int(s[i:j]))
            i = j
    assert len(stack) == 1 and len(stack[0]) == 1, 'bad sexp: %r' % s[:80]
    return stack[0][0]

def to_str(l):
    return ''.join(map(chr, l))

def opt(x):
    """Some x -> [x] ; None -> []"""
    return [] if x is None else [x]

def optz(x):
    """optional int on the wire: atom or ()"""
    return [] if x is None else x
