"""Talk to the extracted model (build/ocaml/driver)."""
import os, subprocess
from . import sx

ROOT = os.path.dirname(os.path.dirname(os.path.abspath(__file__)))
DRIVER = os.path.join(ROOT, 'build', 'ocaml', 'driver')

class ModelError(Exception):
    pass

def ask(requests, chunk=400):
    """requests: list of python sexp trees -> list of decoded answers (same order)."""
    answers = []
    for i in range(0, len(requests), chunk):
        part = requests[i:i + chunk]
        inp = '\n'.join(sx.dumps(r) for r in part) + '\n'
        # the extracted code is not tail recursive everywhere: give it a large stack
        p = subprocess.run(['/bin/sh', '-c', 'ulimit -s unlimited 2>/dev/null; exec "%s"' % DRIVER],
                           input=inp, capture_output=True, text=True, timeout=600)
        lines = p.stdout.split('\n')
        if lines and lines[-1] == '':
            lines.pop()
        if p.returncode != 0 or len(lines) != len(part):
            raise ModelError('driver failed: rc=%s, %d answers for %d requests; stderr=%s' %
                             (p.returncode, len(lines), len(part), p.stderr[-400:]))
        for ln in lines:
            if ln.startswith('!'):
                raise ModelError('driver error: ' + ln)
            answers.append(sx.loads(ln))
    return answers
