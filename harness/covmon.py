"""Line and branch-side coverage of the implementation under test (files below VERIF_SRC/ansi_string), measured
with sys.monitoring (Python >= 3.12; every location switches itself off after its first hit, so the cost is a
few milliseconds per run).  Used to report, in each evidence file, how much of the code the run's cases went
through, and by tools/coverage_gaps.py to list what no exploration reaches.  Not a proof of anything - it
measures the generators (Cedar: "a third of the generated conditions were constant until measured")."""
import os, sys

TOOL = 3          # a free tool id (0-5; 0 debugger, 1 coverage, 2 profiler are reserved by convention)
_lines = set()     # (file, line)
_arcs = {}         # (file, line of the branch instruction, offset) -> set of destination offsets
_raw = {}          # (code object, offset) -> set of destination offsets (folded into _arcs by _fold)
_hot = {}
_active = False
_root = None


def _line_of(code, offset):
    for start, end, ln in code.co_lines():
        if start <= offset < end:
            return ln
    return None


def start(src_root=None):
    """begin measuring; harmless no-op on interpreters without sys.monitoring"""
    global _active, _root
    if _active or not hasattr(sys, 'monitoring'):
        return _active
    _root = os.path.realpath(os.path.join(src_root or os.environ.get('VERIF_SRC', '/repo/src'), 'ansi_string'))
    mon = sys.monitoring
    try:
        mon.use_tool_id(TOOL, 'verif-cov')
    except ValueError:
        return False
    E = mon.events

    def on_line(code, line):
        f = code.co_filename
        if f.startswith(_root):
            _lines.add((f, line))
        return mon.DISABLE

    def on_branch(code, src, dst):
        f = code.co_filename
        if not f.startswith(_root):
            return mon.DISABLE
        s = _raw.get((code, src))
        if s is None:
            s = _raw[(code, src)] = set()
        if dst in s:
            # one-sided so far; give up watching a hot location after a few thousand hits (it stays "one way only")
            n = _hot.get((code, src), 0) + 1
            _hot[(code, src)] = n
            return mon.DISABLE if n > 3000 else None
        s.add(dst)
        # keep the event on until both sides were seen
        return mon.DISABLE if len(s) >= 2 else None

    mon.register_callback(TOOL, E.LINE, on_line)
    mon.register_callback(TOOL, E.BRANCH, on_branch)
    mon.set_events(TOOL, E.LINE | E.BRANCH)
    _active = True
    return True


def stop():
    global _active
    if _active:
        sys.monitoring.set_events(TOOL, 0)
        sys.monitoring.free_tool_id(TOOL)
        _active = False


def executable_lines(path):
    """line numbers that carry code in any code object of the file (docstring-only lines excluded by co_lines)"""
    out = set()
    src = open(path, encoding='utf-8').read()
    todo = [compile(src, path, 'exec')]
    while todo:
        c = todo.pop()
        for _, _, ln in c.co_lines():
            if ln is not None and ln > 0:
                out.add(ln)
        for k in c.co_consts:
            if hasattr(k, 'co_lines'):
                todo.append(k)
    return out


def files():
    return sorted(os.path.join(_root, f) for f in os.listdir(_root) if f.endswith('.py')) if _root else []


def _fold():
    for (code, src), v in _raw.items():
        _arcs.setdefault((code.co_filename, _line_of(code, src), src), set()).update(v)


def summary():
    """numbers for the evidence file"""
    if not _root:
        return None
    _fold()
    tot = hit = 0
    per = {}
    for p in files():
        ex = executable_lines(p)
        h = set(l for (f, l) in _lines if f == p) & ex
        per[os.path.basename(p)] = [len(h), len(ex)]
        tot += len(ex); hit += len(h)
    one_sided = sum(1 for k, v in _arcs.items() if len(v) < 2)
    return {'lines_executed': hit, 'lines_executable': tot, 'per_file': per,
            'branch_instructions_reached': len(_arcs), 'branch_instructions_seen_one_way_only': one_sided}


def gaps():
    """(never executed lines per file, one-sided branch lines per file)"""
    out = {}
    _fold()
    for p in files():
        ex = executable_lines(p)
        h = set(l for (f, l) in _lines if f == p)
        one = sorted(set(k[1] for k, v in _arcs.items() if k[0] == p and len(v) < 2 and k[1] is not None))
        out[p] = (sorted(ex - h), one)
    return out


def dump():
    _fold()
    return {'lines': sorted(_lines), 'arcs': [[list(k), sorted(v)] for k, v in _arcs.items()]}


def load(d):
    for f, l in d['lines']:
        _lines.add((f, l))
    for k, v in d['arcs']:
        _arcs.setdefault(tuple(k), set()).update(v)


# ---------------------------------------------------------------------------------------------------------------
# Argument coverage (development aid, VERIF_ARGCOV=1): for every function of the package, which KINDS of values each
# parameter received over a run.  A parameter that only ever saw one kind (its default, say) marks code no case varies -
# the kind of hole the seeded changes kept finding (an optional argument, a second receiver class, an unusual value).
_args = {}        # qualname -> param -> set of kinds
_calls = {}


def _kind(v):
    t = type(v).__name__
    if v is None or isinstance(v, bool):
        return repr(v)
    if isinstance(v, int):
        return 'int:' + ('0' if v == 0 else '-1' if v == -1 else 'neg' if v < 0 else '1' if v == 1 else 'pos' if v < 10 ** 6 else 'huge')
    if type(v) is str:
        if v == '':
            return "str:''"
        k = 'str'
        if '\x1b' in v:
            k += '+esc'
        if not v.isascii():
            k += '+nonascii'
        if len(v) == 1:
            k += ':1char'
        return k
    if isinstance(v, (list, tuple)):
        if not v:
            return t + ':empty'
        return t + ':of ' + ','.join(sorted(set(type(x).__name__ for x in v)))[:40]
    if isinstance(v, dict):
        return 'dict:empty' if not v else 'dict'
    return t


def start_args():
    mon = sys.monitoring
    E = mon.events

    def on_start(code, offset):
        f = code.co_filename
        if not f.startswith(_root):
            return mon.DISABLE
        n = _calls.get(code, 0) + 1
        _calls[code] = n
        if n > 400 and n % 37:
            return None
        fr = sys._getframe(1)
        q = code.co_qualname
        d = _args.setdefault(q, {})
        for name in code.co_varnames[:code.co_argcount + code.co_kwonlyargcount + bool(code.co_flags & 4) + bool(code.co_flags & 8)]:
            try:
                d.setdefault(name, set()).add(_kind(fr.f_locals.get(name)))
            except Exception:  # noqa
                pass
        return None

    mon.register_callback(TOOL, E.PY_START, on_start)
    mon.set_events(TOOL, E.LINE | E.BRANCH | E.PY_START)


def dump_args():
    return {q: {p: sorted(k) for p, k in d.items()} for q, d in _args.items()}
