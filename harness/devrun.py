"""development helper: python -m harness.devrun <n histories> <steps> [seed]"""
import sys, random, json, time
from . import impl, corr
from .hist import HistGen

def main():
    n, steps = int(sys.argv[1]), int(sys.argv[2])
    seed = int(sys.argv[3]) if len(sys.argv) > 3 else 1
    rng = random.Random(seed)
    cases = []
    t0 = time.time()
    for k in range(n):
        hg = HistGen(rng, odd=(k % 4 == 0), bad=(0.1 if k % 3 == 0 else 0.0))
        cases.append(impl.run_history(hg, steps))
    t1 = time.time()
    divs, answers = corr.run_batch(cases)
    t2 = time.time()
    bad = [(c, d) for c, d in zip(cases, divs) if d]
    print('histories', n, 'impl %.1fs model %.1fs' % (t1 - t0, t2 - t1), 'divergent', len(bad))
    from collections import Counter
    print(Counter((d['what'].split(':')[-1].strip(), c[0][d['step']][0]) for c, d in bad).most_common(30))
    for c, d in bad[:int(sys.argv[4]) if len(sys.argv) > 4 else 3]:
        print(json.dumps(c[0][:d['step'] + 1]))
        print('  ->', json.dumps(d)[:1500])

main()
