"""Dense function-level correspondence for the four small functions that tools/translate_fns.py turns into Gallina
(AnsiString._slice_val_to_idx, AnsiSetting.valid, _AnsiControlFn.seq_starts_with_fn, the component arithmetic of
_AnsiControlFn.rgb).  It runs in every check whose proofs use Gen/Fns.v:

* when the translator recognises the source of a function, the obligation in Proofs/GenFns*.v ties the model's
  function to the generated text by proof and this sweep is a second, independent tie;
* when it does not (a behaviour-preserving rewrite into a shape the translator does not know), Gen/Fns.v carries the
  reference form for that function, the obligation says nothing about the code, and THIS sweep is the tie - the brief's
  "correspondence check" - so that an unrecognised shape alone is not an alarm, while a changed behaviour is a
  divergence with a concrete input.

Inputs are enumerated, not sampled: every length 0..7 x every bound in -10..10, None and +-10^9 x both defaults for the
bound normalisation; every code point 0..300 (alone and after a digit) plus a few above for `valid`; every list of length
<= 3 over {5, 2, 38, 48, 58, 0} against the six control-function prefixes; the clamping of every component over
{-10^9, -1, 0, 1, 127, 254, 255, 256, 300, 10^9}^3 and the 24-bit split on boundary words."""
import itertools
from ansi_string import AnsiString, AnsiSetting
from ansi_string.ansi_format import _AnsiControlFn
from . import model


def run(rep=None):
    """-> (violations, divergences): violations are statement-level (spec oracle), divergences model vs implementation"""
    viol, div = [], []
    n = 0
    # ---- _slice_val_to_idx against the model's Base.slice_idx (request 12)
    reqs, meta = [], []
    for ln in range(0, 8):
        s = AnsiString('a' * ln)
        for v in [None] + list(range(-10, 11)) + [10 ** 9, -10 ** 9]:
            for d in (0, ln):
                reqs.append([12, ln, ([] if v is None else v), d])
                meta.append((ln, v, d, s._slice_val_to_idx(v, d)))
    for (ln, v, d, got), a in zip(meta, model.ask(reqs, chunk=4000)):
        n += 1
        if a != got:
            div.append({'case': {'function': '_slice_val_to_idx', 'len': ln, 'val': v, 'default': d}, 'what': 'slice bound', 'impl': got, 'model': a})
        # and against Python's own slice arithmetic (the statement: "Python slice rules")
        if v is not None and got != len(('a' * ln)[:v]):
            viol.append({'oracle': 'fn.slice', 'case': {'len': ln, 'val': v, 'default': d},
                         'msg': '_slice_val_to_idx(%r) on a text of length %d gives %r; Python slicing stops at %d' % (v, ln, got, len(('a' * ln)[:v]))})
    # ---- AnsiSetting.valid against the model's Sgr.valid (request 6) and the statement (no final byte 0x40..0x7E)
    texts = [chr(c) for c in range(1, 301)] + ['1' + chr(c) for c in range(1, 301)] + ['1;31', '38;5;1', chr(0x2000), '1' + chr(0x10000)]
    asc = [t for t in texts if t.isascii()]
    ans = model.ask([[6, t] for t in asc], chunk=4000)
    for t, a in zip(asc, ans):
        n += 1
        got = AnsiSetting(t).valid
        if bool(a[0]) != got:
            div.append({'case': {'function': 'AnsiSetting.valid', 'text': t}, 'what': 'valid', 'impl': got, 'model': bool(a[0])})
    for t in texts:
        got = AnsiSetting(t).valid
        if got != (not any(0x40 <= ord(c) <= 0x7e for c in t)):
            viol.append({'oracle': 'fn.valid', 'case': {'text': t}, 'msg': 'valid(%r) = %s' % (t, got)})
    # ---- seq_starts_with_fn is the prefix test
    for fn in _AnsiControlFn:
        setup = list(fn.setup_seq)
        for k in range(0, 4):
            for seq in itertools.product([5, 2, 38, 48, 58, 0], repeat=k):
                n += 1
                for form in (list(seq), tuple(seq)):
                    got = fn.seq_starts_with_fn(form)
                    if got != (list(seq[:len(setup)]) == setup):
                        viol.append({'oracle': 'fn.starts_with', 'case': {'fn': fn.name, 'seq': list(seq)},
                                     'msg': '%s.seq_starts_with_fn(%r) = %s, setup sequence %s' % (fn.name, form, got, setup)})
    # ---- rgb component arithmetic
    vals = [-10 ** 9, -1, 0, 1, 127, 254, 255, 256, 300, 10 ** 9]
    cl = lambda x: min(255, max(0, x))
    for r, g, b in itertools.product(vals, repeat=3):
        n += 1
        got = [str(x) for x in _AnsiControlFn.rgb(r, g, b)]
        if got != ['38;2;%d;%d;%d' % (cl(r), cl(g), cl(b))]:
            viol.append({'oracle': 'fn.rgb', 'case': {'rgb': [r, g, b]}, 'msg': 'rgb(%d,%d,%d) = %s' % (r, g, b, got)})
    for w in [0, 1, 0xFF, 0x100, 0xFFFF, 0x10000, 0xFFFFFF, 0x1000000, 0x1FFFFFF, 0x102030, 0xFF0080, 0x7F7F7F, 0x80FF01]:
        n += 1
        got = [str(x) for x in _AnsiControlFn.rgb(w)]
        if got != ['38;2;%d;%d;%d' % ((w >> 16) & 255, (w >> 8) & 255, w & 255)]:
            viol.append({'oracle': 'fn.rgb24', 'case': {'value': w}, 'msg': 'rgb(0x%X) = %s' % (w, got)})
    if rep is not None:
        rep.bump('function-level cases (slice bound, valid, prefix test, rgb arithmetic)', n)
        rep.notes.append('function-level correspondence (harness/fncorr.py): %d enumerated cases, %d divergence(s), %d oracle failure(s)' % (n, len(div), len(viol)))
    return viol, div
