"""Syntactic tie for the DELEGATED str methods (C10): the model takes the result of these methods from
Python's str as data, which is faithful as long as the library's method body really is
`return self._s.<same name>(<the same parameters, in order>)` (queries) or
`obj = self if inplace else self.copy(); obj._s = obj._s.<same name>(); return obj` (case transforms).
This module reads /repo's source with the ast module and reports every method of the list whose body no
longer has that shape.  A report is neither a violation nor an alarm: it is recorded in the evidence, and the tie for
that method is then only the differential run of C10 (every delegated method on every generated text against str)."""
import ast, os

QUERIES = ['count', 'find', 'rfind', 'index', 'rindex', 'endswith', 'isalnum', 'isalpha', 'isascii', 'isdecimal', 'isdigit',
           'isidentifier', 'islower', 'isnumeric', 'isprintable', 'isspace', 'istitle', 'isupper']
CASES = ['capitalize', 'casefold', 'lower', 'upper', 'swapcase', 'title']


def _strip_doc(body):
    if body and isinstance(body[0], ast.Expr) and isinstance(body[0].value, ast.Constant) and isinstance(body[0].value.value, str):
        return body[1:]
    return body


def _is_self_s(node):
    return isinstance(node, ast.Attribute) and node.attr == '_s' and isinstance(node.value, ast.Name)


def check(src_dir):
    """-> list of (class, method, reason) whose body does not have the delegating shape"""
    path = os.path.join(src_dir, 'ansi_string', 'ansi_string.py')
    tree = ast.parse(open(path, encoding='utf-8').read(), path)
    bad = []
    cls = next((n for n in tree.body if isinstance(n, ast.ClassDef) and n.name == 'AnsiString'), None)
    if cls is None:
        return [('AnsiString', '*', 'class not found')]
    methods = {n.name: n for n in cls.body if isinstance(n, ast.FunctionDef)}
    for name in QUERIES:
        fn = methods.get(name)
        if fn is None:
            bad.append(('AnsiString', name, 'method not found'))
            continue
        body = _strip_doc(fn.body)
        params = [a.arg for a in fn.args.args][1:]
        ok = (len(body) == 1 and isinstance(body[0], ast.Return) and isinstance(body[0].value, ast.Call)
              and isinstance(body[0].value.func, ast.Attribute) and body[0].value.func.attr == name
              and _is_self_s(body[0].value.func.value) and body[0].value.func.value.value.id == 'self'
              and not body[0].value.keywords
              and [a.id if isinstance(a, ast.Name) else None for a in body[0].value.args] == params)
        if not ok:
            bad.append(('AnsiString', name, 'body is not `return self._s.%s(%s)`' % (name, ', '.join(params))))
    for name in CASES:
        fn = methods.get(name)
        if fn is None:
            bad.append(('AnsiString', name, 'method not found'))
            continue
        body = _strip_doc(fn.body)
        ok = False
        if len(body) == 3 and isinstance(body[0], ast.If) and isinstance(body[1], ast.Assign) and isinstance(body[2], ast.Return):
            a = body[1]
            ok = (len(a.targets) == 1 and _is_self_s(a.targets[0]) and a.targets[0].value.id == 'obj'
                  and isinstance(a.value, ast.Call) and isinstance(a.value.func, ast.Attribute) and a.value.func.attr == name
                  and _is_self_s(a.value.func.value) and a.value.func.value.value.id == 'obj' and not a.value.args and not a.value.keywords
                  and isinstance(body[2].value, ast.Name) and body[2].value.id == 'obj'
                  and isinstance(body[0].test, ast.Name) and body[0].test.id == 'inplace')
        if not ok:
            bad.append(('AnsiString', name, 'body is not the copy / obj._s = obj._s.%s() / return obj shape' % name))
    return bad


if __name__ == '__main__':
    import sys
    for b in check(sys.argv[1] if len(sys.argv) > 1 else '/repo/src'):
        print('DELEGATION-CHANGED: %s.%s: %s' % b)
    print('checked %d delegated methods' % (len(QUERIES) + len(CASES)))
