"""./check <id> [--tier quick|thorough] [--replay path]"""
import json, os, random, sys, time, traceback

ROOT = os.path.dirname(os.path.dirname(os.path.abspath(__file__)))


def main(argv):
    prop = argv[1]
    tier = os.environ.get('VERIF_TIER', 'quick')
    replay = None
    i = 2
    while i < len(argv):
        if argv[i] == '--tier':
            tier = argv[i + 1]; i += 2
        elif argv[i] == '--replay':
            replay = argv[i + 1]; i += 2
        else:
            i += 1
    seed = int(os.environ.get('VERIF_SEED', '20260926'))

    from . import covmon
    covmon.start()          # before the implementation is imported: module-level lines count too
    if os.environ.get('VERIF_ARGCOV'):
        covmon.start_args()
    from . import build as buildmod, engine
    from .props import PROPS, TRUSTED_BASE, COMMON_ASSUMPTIONS
    cfg = PROPS[prop]
    rep = engine.Report(prop, tier, seed)

    # ---- 1. proofs: translate, build, audit
    binfo = buildmod.build(cfg['coq'], thorough=(tier == 'thorough'))
    if not binfo.get('driver_ok'):
        print('INTERNAL: extracted driver missing; build errors: %s' % binfo['errors'])
        engine.write_evidence(rep, binfo, cfg.get('rule', ''), TRUSTED_BASE, COMMON_ASSUMPTIONS + cfg.get('assumptions', []))
        return 2

    # ---- 2. exploration: corpus, generated cases, correspondence, oracles
    from .term import Term
    term = Term()
    known = engine.load_known(prop)
    try:
        if replay:
            return do_replay(prop, cfg, replay, term)
        corpus_v = run_corpus(prop, cfg, term, rep)
        oracle_v, divs = cfg['run'](rep, random.Random(seed), tier, term)
        oracle_v = corpus_v + oracle_v
        if 'Gen/Fns.v' in binfo.get('cone', []):
            # the four translated functions: enumerated function-level correspondence (the tie for any of them whose
            # source shape the translator did not recognise, a second tie for the others)
            from . import fncorr
            fv, fd = fncorr.run(rep)
            oracle_v += fv
            divs = list(divs) + fd
            if binfo.get('untranslated_fns'):
                rep.notes.append('functions whose source shape the translator does not know (reference form in Gen/Fns.v, tied by '
                                 'harness/fncorr.py instead of by the obligation): %s' % binfo['untranslated_fns'])
    except Exception as e:
        tb = traceback.extract_tb(e.__traceback__)
        src = os.path.realpath(os.environ.get('VERIF_SRC', '/repo/src'))
        if tb and os.path.realpath(tb[-1].filename).startswith(src) and not replay:
            # the IMPLEMENTATION raised at a place where the exploration does not expect it to (on the unchanged tree every
            # such place is either guarded or never raises): reported as a violation, with the traceback as the replay
            os.makedirs(os.path.join(ROOT, 'replays', prop), exist_ok=True)
            path = os.path.join(ROOT, 'replays', prop, 'implementation_raised.json')
            json.dump({'kind': 'no-failing-input-found', 'broken': {'exploration': 'the implementation raised %s while a value was being observed' % type(e).__name__,
                                                                     'traceback': traceback.format_exc().splitlines()[-24:]}}, open(path, 'w'), indent=1)
            print('VIOLATION property=%s replay=%s no-failing-input-found' % (prop, path))
            print('  the implementation raised %s: %s (outside every place where the exploration expects an exception)' % (type(e).__name__, str(e)[:300]))
            return 1
        print('INTERNAL: harness error\n' + traceback.format_exc())
        return 2
    rep.rule = cfg.get('rule', '')
    # extraction cross-check: a sample of this run's requests re-evaluated inside Coq (vm_compute)
    try:
        from . import xcheck
        rep.xchecked = xcheck.crosscheck(rep.xreqs[:12 if tier == 'quick' else 120], tag=prop)
    except Exception as e:
        print('INTERNAL: extraction cross-check failed: %s' % e)
        return 2

    # ---- 3. verdict
    from .known import match_known
    exit_code = 0
    reported = 0
    # known findings: re-confirm witnesses, suppress matching generated failures
    for e in known:
        if e.get('status') != 'known':
            continue
        still = cfg['confirm_known'](e, term) if 'confirm_known' in cfg else None
        if still:
            print('KNOWN-FINDING: property=%s %s' % (prop, e['what']))
            rep.known_hits[e['id']] = True
    fresh = []
    for v in oracle_v:
        k = match_known(known, v)
        if k:
            if k['id'] not in rep.known_hits:
                print('KNOWN-FINDING: property=%s %s' % (prop, k['what']))
                rep.known_hits[k['id']] = True
            continue
        fresh.append(v)
    byk = {}
    for v in fresh:
        byk.setdefault(v.get('oracle'), v)
    for v in list(byk.values())[:6]:
        path = engine.write_replay(prop, {'kind': 'failing-input', 'violation': v, 'seed': seed, 'tier': tier})
        print('VIOLATION property=%s replay=%s' % (prop, path))
        print('  ' + str(v.get('failure', v).get('msg', v.get('msg', '')))[:300])
        rep.violation('oracle', v, '')
        reported += 1
        exit_code = 1
    broken = []
    if not binfo['proof_ok']:
        broken.append({'what': 'proof obligations', 'errors': binfo['errors'], 'forbidden': binfo['forbidden'],
                       'axioms': binfo['axioms_reported'], 'translator': binfo.get('translate')})
    divs = [d for d in divs if not match_known(known, d)]
    if divs:
        broken.append({'what': 'correspondence model/implementation', 'n': len(divs), 'first': divs[:3]})
    if broken and not fresh:
        # a proof obligation or the correspondence no longer checks: search harder for a concrete input on which
        # the property itself fails (more cases, fresh seeds), within a time budget
        budget = float(os.environ.get('VERIF_ESCALATE_S', '240' if tier == 'quick' else '1500'))
        t_esc, rounds = time.time(), 0
        while time.time() - t_esc < budget and not fresh and rounds < 40:
            rounds += 1
            try:
                ov2, _ = cfg['run'](rep, random.Random(seed + 7919 * rounds), tier, term)
            except Exception:
                break
            fresh = [v for v in ov2 if not match_known(known, v)]
        rep.notes.append('escalated search for a failing input: %d extra round(s), %.0f s, %s' % (
            rounds, time.time() - t_esc, 'found' if fresh else 'none found'))
        byk = {}
        for v in fresh:
            byk.setdefault(v.get('oracle'), v)
        for v in list(byk.values())[:6]:
            path = engine.write_replay(prop, {'kind': 'failing-input', 'violation': v, 'seed': seed, 'tier': tier, 'found_by': 'escalated search'})
            print('VIOLATION property=%s replay=%s' % (prop, path))
            print('  ' + str(v.get('failure', v).get('msg', v.get('msg', '')))[:300])
            rep.violation('oracle', v, '')
            exit_code = 1
    if broken and not fresh:
        path = engine.write_replay(prop, {'kind': 'no-failing-input-found', 'broken': broken, 'seed': seed, 'tier': tier,
                                          'note': 'the named theorem(s) / correspondence no longer check; the statement-level oracles found no input on which the property fails within this tier\'s budget'})
        print('VIOLATION property=%s replay=%s no-failing-input-found' % (prop, path))
        for b in broken:
            print('  broken: %s %s' % (b['what'], json.dumps(b.get('errors') or b.get('first'), default=str)[:600]))
        rep.violation('unproved', broken, '')
        exit_code = 1
    elif broken:
        rep.notes.append('also broken: ' + json.dumps(broken, default=str)[:1500])
        for b in broken:
            print('  also broken: %s' % b['what'])
    engine.write_evidence(rep, binfo, cfg.get('rule', ''), TRUSTED_BASE, COMMON_ASSUMPTIONS + cfg.get('assumptions', []))
    print('%s %s: %d theorem/obligation(s) %s, %d cases (%d distinct non-trivial), %d violation(s), %.0fs' % (
        prop, tier, binfo['obligations'], 'checked' if binfo['proof_ok'] else 'NOT ALL CHECKED', rep.evaluations,
        len(rep.hashes), len(rep.violations), time.time() - rep.t0))
    return exit_code


def run_corpus(prop, cfg, term, rep):
    d = os.path.join(ROOT, 'corpus', prop)
    out = []
    if not os.path.isdir(d):
        return out
    for name in sorted(os.listdir(d)):
        if not name.endswith('.json'):
            continue
        data = json.load(open(os.path.join(d, name)))
        v = data['violation']
        rep.count({'corpus': name, 'case': v.get('case', v.get('history'))}, True)
        rep.bump('corpus')
        msg = cfg['replay'](v, term)
        if msg:
            v = dict(v)
            v['msg'] = 'corpus case %s (a repaired finding) fails again: %s' % (name, msg)
            out.append(v)
    return out


def do_replay(prop, cfg, path, term):
    data = json.load(open(path))
    if data.get('kind') == 'no-failing-input-found':
        print('replay file names broken obligations/correspondence, not an input:')
        print(json.dumps(data.get('broken'), indent=1)[:3000])
        return 1
    v = data['violation']
    if str(v.get('oracle', '')).startswith('fn.'):
        from . import fncorr
        fv, _ = fncorr.run(None)
        res = [x['msg'] for x in fv if x.get('oracle') == v.get('oracle') and x.get('case') == v.get('case')]
    else:
        res = cfg['replay'](v, term)
    if res:
        print('VIOLATION property=%s replay=%s' % (prop, path))
        print('  ' + str(res)[:1000])
        return 1
    print('replay: the recorded case no longer fails')
    return 0


if __name__ == '__main__':
    sys.exit(main(sys.argv))
