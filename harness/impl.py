"""Run operation histories on the implementation in /repo (PYTHONPATH must point at /repo/src)
and produce (a) the wire form of every operation for the model, (b) observations of every pool
object after every step, in the same canonical shape the model's answers are put into."""
import re, signal, sys

import ansi_string
from ansi_string import AnsiString, AnsiStr, AnsiFormat, AnsiSetting
from ansi_string import ansi_string as _mod

AnsiString.WITH_ASSERTIONS = True

ERR = {TypeError: 1, ValueError: 2, IndexError: 3}
FLAGS8 = [(True, False, True), (True, False, False), (True, True, True), (True, True, False),
          (False, False, True), (False, False, False), (False, True, True), (False, True, False)]
CASES = ['capitalize', 'casefold', 'lower', 'upper', 'swapcase', 'title']

class Hang(Exception):
    pass

def _alarm(signum, frame):
    raise Hang()

signal.signal(signal.SIGVTALRM, _alarm)

def guarded(fn, seconds=3.0):
    """watchdog for non-termination.  It counts the CPU time of THIS process (ITIMER_VIRTUAL), not wall-clock time: an
    operation that does not terminate burns CPU, while a machine under load (many checks in parallel) or a suspended process
    makes wall-clock time pass without the operation running - a wall-clock watchdog reported such a pause as 'did not
    terminate' on unchanged code (thorough run under load, DESIGN 13.7)"""
    signal.setitimer(signal.ITIMER_VIRTUAL, seconds)
    try:
        return fn()
    finally:
        signal.setitimer(signal.ITIMER_VIRTUAL, 0)

# ---------------------------------------------------------------- forms
def form_py(f):
    t = f[0]
    if t == 'member':
        return AnsiFormat[f[1]]
    if t == 'str':
        return f[1]
    if t == 'int':
        return f[1]
    if t == 'setting':
        # the same text through the other constructor forms too (deterministic in the text): list of pieces, copy
        k = (len(f[1]) + f[1].count(';')) % 3
        if k == 1 and ';' in f[1]:
            return AnsiSetting(f[1].split(';'))
        if k == 2:
            a = AnsiSetting(f[1]); a.valid
            return AnsiSetting(a)
        return AnsiSetting(f[1])
    if t == 'list' or t == 'tuple':
        l = []
        for x in f[1]:
            l.append(l if x[0] == 'selfref' else form_py(x))
        return tuple(l) if t == 'tuple' and not any(x[0] == 'selfref' for x in f[1]) else l
    if t == 'other':
        return 1.5 if f[1] else None
    raise AssertionError(f)

def form_wire(f):
    t = f[0]
    if t == 'member':
        return [0, f[1]]
    if t == 'str':
        return [1, f[1]]
    if t == 'int':
        return [2, f[1]]
    if t == 'setting':
        return [3, f[1]]
    if t == 'list' or t == 'tuple':
        return [4, [form_wire(x) for x in f[1]]]
    if t == 'selfref':
        return [5]
    if t == 'other':
        return [6, 1 if f[1] else 0]
    raise AssertionError(f)

def optz(x):
    return [] if x is None else x

def optstr(x):
    return [] if x is None else [x]

# ---------------------------------------------------------------- observations
def raw_obs(o):
    """Observable behaviour of one object (identities still raw)."""
    a = o._s if isinstance(o, AnsiStr) else o
    base = o.base_str
    per_char = [[(id(s), str(s)) for s in o.ansi_settings_at(i)] for i in range(len(base))]
    renders = [o.to_str(None, a_, b_, c_) for (a_, b_, c_) in FLAGS8]
    valid = o.is_formatting_valid()
    parsable = o.is_formatting_parsable()
    try:
        for _ in _mod._AnsiSettingsIterator(a._fmts):
            pass
        strict = True
    except ValueError:
        strict = False
    try:
        pr = (AnsiString(a) + 'x')
        probe = [(id(s), str(s)) for s in pr.ansi_settings_at(len(base))]
    except Exception as e:            # noqa
        probe = -1
    payload = str.__str__(o) if isinstance(o, AnsiStr) else ''
    table = [(k, [(id(s), str(s)) for s in a._fmts[k].add], [(id(s), str(s)) for s in a._fmts[k].rem])
             for k in sorted(a._fmts)]
    return [1 if isinstance(o, AnsiStr) else 0, base, per_char, renders, valid, parsable, strict, probe, payload, table]

def canon(obs):
    """Number identities in order of first appearance (per observation)."""
    m = {}
    def c(pair):
        i, t = pair
        if i not in m:
            m[i] = len(m)
        return (m[i], t)
    per_char = [[c(p) for p in l] for l in obs[2]]
    probe = obs[7] if obs[7] == -1 else [c(p) for p in obs[7]]
    table = [(k, [c(p) for p in ad], [c(p) for p in rm]) for (k, ad, rm) in obs[9]]
    return (obs[0], obs[1], per_char, list(obs[3]), bool(obs[4]), bool(obs[5]), bool(obs[6]), probe, obs[8], table)

def model_obs(x):
    """Decode the model's obs_obj answer into the raw shape of raw_obs."""
    from .sx import to_str
    def st(p):
        return (p[0], to_str(p[1]))
    return [x[0], to_str(x[1]), [[st(p) for p in l] for l in x[2]], [to_str(r) for r in x[3]],
            bool(x[4]), bool(x[5]), bool(x[6]), (-1 if x[7] == -1 else [st(p) for p in x[7]]), to_str(x[8]),
            [(k, [st(p) for p in ad], [st(p) for p in rm]) for (k, ad, rm) in x[9]]]

OBS_FIELDS = ['class', 'base_str', 'settings_per_char', 'renderings', 'is_formatting_valid',
              'is_formatting_parsable', 'self_check', 'probe(v+"x")', 'str_payload', 'table']

# ---------------------------------------------------------------- executing one operation
def spans_for(base, pattern, regex, match_case, count):
    """The matches the property talks about, computed independently of the library."""
    pat = pattern if regex else re.escape(pattern)
    out = []
    for m in re.finditer(pat, base, 0 if match_case else re.IGNORECASE):
        if count == 0:
            break
        out.append([m.start(), m.end()])
        if count > 0:
            count -= 1
    return out

def op_refs(op):
    """indices of pool objects an operation refers to"""
    name = op[0]
    def operand(x):
        return [x[1]] if isinstance(x, (list, tuple)) and len(x) == 2 and x[0] == 'obj' else []
    if name == 'new':
        return []
    if name == 'from':
        return [op[2]]
    if name == 'join':
        return [j for x in op[2] for j in operand(x)]
    if name == 'pad':
        return [op[2]]
    if name in ('add', 'iadd'):
        return [op[1]] + operand(op[2])
    if name == 'replace':
        return [op[1]] + operand(op[3])
    if name == 'eq':
        return [op[1], op[2]]
    return [op[1]]


class Pool:
    def __init__(self):
        self.objs = []

    def operand_py(self, x):
        return self.objs[x[1]] if x[0] == 'obj' else x[1]

    @staticmethod
    def operand_wire(x):
        return x[1] if x[0] == 'obj' else [x[1]]

    def run(self, op):
        """-> (wire op, ('ok', result objects or None-for-in-place, extra) | ('err', code) | ('hang',))"""
        name = op[0]
        P = self.objs
        # a (shrunk) replay may refer to objects that no longer exist: that is not an operation at all
        for j in op_refs(op):
            if not (isinstance(j, int) and 0 <= j < len(P)):
                raise KeyError('no object %r' % (j,))
        K = lambda k: AnsiString if k == 0 else AnsiStr
        isstr = lambda i: isinstance(P[i], AnsiStr)
        wire = None
        call = None
        extra_of = None
        if name == 'new':
            _, k, text, forms = op
            wire = [0, k, text, [form_wire(f) for f in forms]]
            call = lambda: K(k)(text, *[form_py(f) for f in forms])
        elif name == 'from':
            _, k, i, forms = op
            wire = [1, k, i, [form_wire(f) for f in forms]]
            call = lambda: K(k)(P[i], *[form_py(f) for f in forms])
        elif name == 'apply':
            _, i, f, st, en, top = op
            wire = [2, i, form_wire(f), optz(st), optz(en), top]
            call = lambda: P[i].apply_formatting(form_py(f), st, en, top)
        elif name == 'remove':
            _, i, f, st, en = op
            if f == ['other', False]:
                f = None                       # settings=None means "all settings"
            wire = [3, i, ([] if f is None else [form_wire(f)]), optz(st), optz(en)]
            call = lambda: P[i].remove_formatting(None if f is None else form_py(f), st, en)
        elif name == 'clear':
            _, i = op
            wire = [4, i]
            call = lambda: P[i].clear_formatting()
        elif name == 'slice':
            _, i, a, b = op
            wire = [5, i, optz(a), optz(b)]
            call = lambda: P[i][a:b]
        elif name == 'index':
            _, i, k = op
            wire = [6, i, k]
            call = lambda: P[i][k]
        elif name == 'clip':
            _, i, a, b, ip = op
            wire = [7, i, optz(a), optz(b), True if isstr(i) else ip]
            call = (lambda: P[i].clip(a, b)) if isstr(i) else (lambda: P[i].clip(a, b, ip))
        elif name == 'add':
            _, i, x = op
            wire = [8, i, self.operand_wire(x)]
            call = lambda: P[i] + self.operand_py(x)
        elif name == 'iadd':
            _, i, x = op
            wire = [9, i, self.operand_wire(x)]
            call = lambda: P[i].__iadd__(self.operand_py(x))
        elif name == 'join':
            _, k, xs = op
            wire = [10, k, [self.operand_wire(x) for x in xs]]
            call = lambda: K(k).join(*[self.operand_py(x) for x in xs])
        elif name == 'pad':
            _, which, i, w, fill, ip, ext = op
            meth = ['ljust', 'rjust', 'center', 'zfill'][which]
            if which == 3:
                wire = [11, 1, i, w, '0', True if isstr(i) else ip, True]
                call = (lambda: P[i].zfill(w)) if isstr(i) else (lambda: P[i].zfill(w, ip))
            else:
                wire = [11, which, i, w, fill, True if isstr(i) else ip, True if isstr(i) else ext]
                call = (lambda: getattr(P[i], meth)(w, fill)) if isstr(i) else (lambda: getattr(P[i], meth)(w, fill, ip, ext))
        elif name == 'replace':
            _, i, old, new, cnt, ip = op
            wire = [12, i, old, self.operand_wire(new), cnt, True if isstr(i) else ip]
            call = (lambda: P[i].replace(old, self.operand_py(new), cnt)) if isstr(i) else \
                   (lambda: P[i].replace(old, self.operand_py(new), cnt, ip))
        elif name == 'expandtabs':
            _, i, n, ip = op
            wire = [12, i, '\t', [' ' * n], -1, True if isstr(i) else ip]
            call = (lambda: P[i].expandtabs(n)) if isstr(i) else (lambda: P[i].expandtabs(n, ip))
        elif name == 'strip':
            _, i, chars, dl, dr, ip = op
            meth = {(True, True): 'strip', (True, False): 'lstrip', (False, True): 'rstrip'}[(dl, dr)]
            wire = [13, i, optstr(chars), dl, dr, True if isstr(i) else ip]
            call = (lambda: getattr(P[i], meth)(chars)) if isstr(i) else (lambda: getattr(P[i], meth)(chars, ip))
        elif name in ('removeprefix', 'removesuffix'):
            _, i, s, ip = op
            wire = [14 if name == 'removeprefix' else 15, i, s, True if isstr(i) else ip]
            call = (lambda: getattr(P[i], name)(s)) if isstr(i) else (lambda: getattr(P[i], name)(s, ip))
        elif name == 'split':
            _, i, sep, m, right = op
            if sep is None:
                base = P[i].base_str
                pieces = base.rsplit(None, m) if right else base.split(None, m)
                wire = [17, i, pieces]
            else:
                wire = [16, i, sep, m, right]
            call = lambda: (P[i].rsplit(sep, m) if right else P[i].split(sep, m))
        elif name == 'splitlines':
            _, i, keep = op
            wire = [17, i, P[i].base_str.splitlines(keep)]
            call = lambda: P[i].splitlines(keep)
        elif name == 'partition':
            _, i, sep, right = op
            wire = [18, i, sep, right]
            call = lambda: (P[i].rpartition(sep) if right else P[i].partition(sep))
        elif name == 'assign':
            _, i, t = op
            wire = [19, i, t]
            call = lambda: P[i].assign_str(t)
        elif name == 'case':
            _, i, which, ip = op
            wire = [20, i, getattr(P[i].base_str, CASES[which])(), True if isstr(i) else ip]
            call = (lambda: getattr(P[i], CASES[which])()) if isstr(i) else (lambda: getattr(P[i], CASES[which])(ip))
        elif name == 'simplify':
            _, i = op
            wire = [21, i]
            call = lambda: P[i].simplify()
        elif name == 'fmatch':
            _, i, pat, forms, regex, mc, cnt = op
            wire = [22, i, spans_for(P[i].base_str, pat, regex, mc, cnt), form_wire(['tuple', forms])]
            call = lambda: P[i].format_matching(pat, *[form_py(f) for f in forms], regex=regex, match_case=mc, count=cnt)
        elif name == 'umatch':
            _, i, pat, forms, regex, mc, cnt = op
            allset = (not forms) or any(f == ['other', False] for f in forms)
            wire = [23, i, spans_for(P[i].base_str, pat, regex, mc, cnt),
                    ([] if allset else [form_wire(['tuple', forms])])]
            call = lambda: P[i].unformat_matching(pat, *[form_py(f) for f in forms], regex=regex, match_case=mc, count=cnt)
        elif name == 'tostr':
            _, i, spec, o_, rs, re_ = op
            wire = [24, i, optstr(spec), o_, rs, re_]
            call = lambda: P[i].to_str(spec, o_, rs, re_)
            extra_of = lambda r: r
        elif name == 'sat':
            _, i, k = op
            wire = [25, i, k]
            call = lambda: (P[i].ansi_settings_at(k), P[i].settings_at(k))
            extra_of = lambda r: ('settings', [(id(s), str(s)) for s in r[0]], r[1])
        elif name == 'find':
            _, i, f, st, en, rev = op
            wire = [26, i, form_wire(f), optz(st), optz(en), rev]
            call = lambda: P[i].find_settings(form_py(f), st, en, rev)
            extra_of = lambda r: [optz(r[0]), optz(r[1])]
        elif name == 'eq':
            _, i, j = op
            wire = [27, i, j]
            call = lambda: P[i] == P[j]
            extra_of = lambda r: 1 if r else 0
        elif name == 'iter':
            _, i = op
            wire = [28, i]
            call = lambda: list(iter(P[i]))
        else:
            raise AssertionError(op)

        try:
            r = guarded(call)
        except Hang:
            return wire, ('hang',)
        except (TypeError, ValueError, IndexError) as e:
            return wire, ('err', ERR[type(e)])
        except RecursionError:
            return wire, ('err', 8)
        except Exception as e:          # noqa: any other exception class is itself an observation
            return wire, ('err', 9, type(e).__name__)
        if extra_of is not None:
            return wire, ('ok', [], extra_of(r))
        # where do the results live?
        if r is None:
            idxs = [op[1]]
        else:
            rs = list(r) if isinstance(r, (list, tuple)) and not isinstance(r, str) else [r]
            idxs = []
            for x in rs:
                found = [j for j, y in enumerate(P) if y is x]
                if found:
                    idxs.append(found[0])
                else:
                    P.append(x)
                    idxs.append(len(P) - 1)
        return wire, ('ok', idxs, [])

def run_history(source, nsteps=None):
    """source: a list of operations (replay) or a generator object with next_op(pool objects).
       -> (ops, wire ops, per-step records).  A record is
       {'res': ('ok', idxs, extra)|('err', code)|('hang',), 'obs': [canonical obs of every object]}"""
    pool = Pool()
    ops, wires, recs = [], [], []
    n = len(source) if isinstance(source, list) else nsteps
    for t in range(n):
        op = source[t] if isinstance(source, list) else source.next_op(pool.objs)
        try:
            wire, res = pool.run(op)
        except (IndexError, KeyError) as e:
            if isinstance(source, list):
                break                      # a shrunk replay may refer to objects that no longer exist
            raise
        ops.append(op)
        wires.append(wire)
        try:
            obs = [canon(guarded(lambda o=o: raw_obs(o))) for o in pool.objs]
            recs.append({'res': res, 'obs': obs})
        except Hang:
            recs.append({'res': res, 'obs': None, 'obs_error': 'Hang while observing'})
            break
        except Exception as e:          # an observation that raises is a finding in itself
            recs.append({'res': res, 'obs': None, 'obs_error': '%s: %s' % (type(e).__name__, e)})
            break
        if res[0] == 'hang':
            break
    return ops, wires, recs


def build_values(rng, n_hist, steps=8, kinds=(0,), odd=False, weights=None, unicode_=True, maxlen=8, esc=0.0):
    """live objects built by random histories (for direct tests): -> list of (object, history that built the pool)"""
    from .hist import HistGen
    w = weights or {'new': 3, 'from': 0.5, 'apply': 8, 'remove': 2, 'iadd': 2, 'add': 1.5, 'slice': 1.5, 'pad': 0.7,
                    'assign': 0.5, 'replace': 0.7, 'clip': 0.5}
    out = []
    for _ in range(n_hist):
        hg = HistGen(rng, weights=w, kinds=kinds, odd=odd, unicode_=unicode_, maxlen=maxlen, esc=esc)
        pool = Pool()
        ops = []
        for t in range(steps):
            op = hg.next_op(pool.objs)
            try:
                pool.run(op)
            except (IndexError, KeyError):
                break
            ops.append(op)
        for i, o in enumerate(pool.objs):
            # a value that can no longer be observed (the library's own self-check raises) is kept apart:
            # direct explorations work on observable values and report the others
            try:
                guarded(lambda o=o: raw_obs(o))
            except Exception as e:      # noqa
                UNOBSERVABLE.append({'history': ops, 'object': i, 'error': '%s: %s' % (type(e).__name__, e)})
                continue
            out.append((o, ops, i))
    return out


UNOBSERVABLE = []      # filled by build_values; drained by the caller


def drain_unobservable():
    out = list(UNOBSERVABLE)
    del UNOBSERVABLE[:]
    return out
