"""Correspondence: run histories on the implementation and on the extracted model, compare the
observable behaviour of every pool object after every step."""
from . import impl, model
from .sx import to_str

OBSERVABLE = list(range(0, 9))       # everything except the internal table (index 9)

def norm_extra(op, x):
    """model's extra observation -> the shape impl produces"""
    name = op[0]
    if name == 'tostr':
        return to_str(x)
    if name == 'sat':
        m = {}
        out = []
        for p in x:
            m.setdefault(p[0], len(m))
            out.append((m[p[0]], to_str(p[1])))
        return ('settings', out, ';'.join(t for (_, t) in out))       # settings_at(i) = ';'-join (model side)
    if name == 'find':
        return [x[0], x[1]]
    if name == 'eq':
        return x
    return []

def norm_extra_impl(op, x):
    if op[0] == 'sat':
        m = {}
        out = []
        for p in x[1]:
            m.setdefault(p[0], len(m))
            out.append((m[p[0]], p[1]))
        return ('settings', out, x[2])
    return x

def first_divergence(ops, recs, answer, fields=OBSERVABLE):
    """-> None or dict describing the first step where model and implementation differ."""
    mobs = {}
    for t, rec in enumerate(recs):
        if t >= len(answer):
            return {'step': t, 'what': 'model produced no answer'}
        a = answer[t]
        res = rec['res']
        if res[0] == 'hang':
            return {'step': t, 'what': 'implementation did not terminate', 'impl': 'hang', 'model': a[:2]}
        if a[0] == 1:
            if res[0] != 'err' or res[1] != a[1]:
                return {'step': t, 'what': 'result', 'impl': list(res), 'model': ['err', a[1]]}
        else:
            if res[0] != 'ok':
                return {'step': t, 'what': 'result', 'impl': list(res), 'model': ['ok', a[1]]}
            if list(res[1]) != list(a[1]):
                return {'step': t, 'what': 'result objects (in-place vs new / aliasing)', 'impl': list(res[1]), 'model': a[1]}
            me, ie = norm_extra(ops[t], a[2]), norm_extra_impl(ops[t], res[2])
            if me != ie:
                return {'step': t, 'what': 'returned value', 'impl': ie, 'model': me}
            for (i, ob) in a[3]:
                mobs[i] = impl.canon(impl.model_obs(ob))
        if rec.get('obs') is None:
            return {'step': t, 'what': 'observing the implementation raised: ' + rec.get('obs_error', '?')}
        if len(rec['obs']) != len(mobs):
            return {'step': t, 'what': 'pool size', 'impl': len(rec['obs']), 'model': len(mobs)}
        for i, ob in enumerate(rec['obs']):
            mo = mobs[i]
            for f in fields:
                if ob[f] != mo[f]:
                    return {'step': t, 'what': 'object %d: %s' % (i, impl.OBS_FIELDS[f]), 'impl': ob[f], 'model': mo[f]}
    return None

def table_drift(recs, answer):
    """diagnostic only: does the internal table layout differ where behaviour agrees?"""
    mobs = {}
    for t, rec in enumerate(recs):
        if t >= len(answer) or answer[t][0] == 1 and True:
            if t < len(answer) and answer[t][0] == 1:
                continue
        if t >= len(answer) or rec.get('obs') is None:
            return False
        for (i, ob) in answer[t][3]:
            mobs[i] = impl.canon(impl.model_obs(ob))
        for i, ob in enumerate(rec['obs']):
            if i in mobs and ob[9] != mobs[i][9]:
                return True
    return False

def run_batch(cases):
    """cases: list of (ops, wires, recs) -> list of divergences (None where equal)"""
    answers = model.ask([[0, wires] for (_, wires, _) in cases])
    return [first_divergence(ops, recs, ans) for (ops, _, recs), ans in zip(cases, answers)], answers
